(* C06: preservation of the wake invariant by the steps of future_sync (part 5): the oneshot operations of the slot job (runner
   steps) and the steps of the SyncFuture on its owner task (not a runner: fire / register / unregister / token). *)
From stdpp Require Import list numbers option.
From RecordUpdate Require Import RecordUpdate.
From L2 Require Import Model Base Own Jobs Shape DwInv Wake WakeInv WakeLem WakeStep1 WakeStep2 WakeStep3 WakeStep4 CoverStep.
#[global] Unset Lia Cache.

Section Steps.
  Context (T : ftables) (HT : own_cond T) (HC : jobs_cond T) (HW : wake_cond T).

  (* slot job: queue_ready_send.send(()) *)
  Lemma ws_send_ready s a op e l w k rest : Inv_own s -> Inv_wake s ->
    stacks s !! a = Some (FJob (JFut op Waiting (PSendReady e :: l)) w k :: rest) ->
    Inv_wake (setstack (setev s e {| fired := true; wakers := [] |}) a
                (wake_frames (rev (getev s e).(wakers)) ++ FJob (JFut op Waiting l) w k :: rest)).
  Proof.
    intros HO HI Hst. set (s' := setstack _ _ _).
    assert (Hs : stacks s' = <[a := wake_frames (rev (getev s e).(wakers)) ++ FJob (JFut op Waiting l) w k :: rest]> (stacks s)) by (subst s'; solve_stacks).
    pose proof (top_ok s a _ _ HI Hst) as Hok. cbn in Hok.
    split; [|apply queue_ok_owned; apply (runner_owned s a _ HO Hst); cbn; lia].
    eapply (frames_runner_step' s _ a _ rest _ HO Hst eq_refl Hs).
    intros fr [Hin|[->|Hin]%elem_of_cons]%elem_of_app; [right|right|by left].
    - unfold wake_frames in Hin. by apply elem_of_list_fmap in Hin as (w0 & -> & _).
    - exact Hok.
  Qed.

  (* slot job: one poll of done_recv that finds nothing: the context waker REPLACES the one stored in the oneshot *)
  Lemma ws_await_done_pending s a op e l w k rest : Inv_own s -> Inv_wake s ->
    stacks s !! a = Some (FJob (JFut op Waiting (PAwaitDone e :: l)) w k :: rest) -> (getev s e).(fired) = false ->
    Inv_wake (setstack (setev s e (getev s e <| wakers := w :: List.filter is_anytask (getev s e).(wakers) |>)) a (ret_pending k (JFut op Waiting (PAwaitDone e :: l)) :: rest)).
  Proof.
    intros HO HI Hst Hf. set (s0 := setev s e _). set (s' := setstack _ _ _).
    assert (Hs : stacks s' = <[a := ret_pending k (JFut op Waiting (PAwaitDone e :: l)) :: rest]> (stacks s)) by (subst s' s0; solve_stacks).
    pose proof (top_ok s a _ _ HI Hst) as Hok. cbn in Hok. apply bool_decide_eq_true in Hok. subst w.
    assert (Hu : unfreg s' e (ctxw a k) = true).
    { subst s' s0. unfold unfreg. change (getev (setstack ?x _ _) e) with (getev x e).
      rewrite getev_setev_eq by (by apply getev_fired_range). cbn. rewrite Hf. cbn. apply bool_decide_eq_true. left. }
    split; [|apply queue_ok_owned; apply (runner_owned s a _ HO Hst); cbn; lia].
    eapply (frames_runner_step' s _ a _ rest _ HO Hst eq_refl Hs).
    intros fr [->|Hin]%elem_of_cons; [right|by left].
    destruct k; cbn in *.
    - unfold gq. by rewrite Hu, orb_true_r.
    - unfold gt. by rewrite Hu, orb_true_r.
    - unfold gd. by rewrite Hu.
  Qed.
End Steps.

Section Steps2.
  Context (T : ftables) (HT : own_cond T) (HC : jobs_cond T) (HW : wake_cond T).
  (* a oneshot / event cell fires on a thread that does not run the queue (generalises WakeStep3.ws_fire) *)
  Lemma ws_fire_gen s a fr0 post e0 rest : Inv_own s -> Inv_wake s -> stacks s !! a = Some (fr0 :: rest) ->
    relv fr0 = false -> (forall fr, fr ∈ post -> relv fr = false /\ marker fr = false) ->
    Inv_wake (setstack (setev s e0 {| fired := true; wakers := [] |}) a (wake_frames (rev (getev s e0).(wakers)) ++ post ++ rest)).
  Proof.
    intros HO [IF IQ] Hst Hr0 Hpost. set (ws := rev (wakers (getev s e0))). set (s0 := setev s e0 _). set (s' := setstack _ _ _).
    assert (Hs : stacks s' = <[a := (wake_frames ws ++ post) ++ rest]> (stacks s)) by (subst s' s0; rewrite <- app_assoc; solve_stacks).
    assert (Hw0 : forall w, is_wake w fr0 = false) by (intros w; destruct fr0; try done).
    assert (Hnw : forall w, np (is_wake w) s <= np (is_wake w) s').
    { intros w. eapply np_mono; [exact Hst|exact Hs|]. rewrite !cntf_app. cbn. rewrite Hw0. lia. }
    assert (Hpz : forall P, (forall fr, P fr = true -> relv fr = true) -> cntf P post = 0).
    { intros P HP. destruct (cntf P post) eqn:E; [done|]. exfalso. assert (Hp : cntf P post > 0) by lia.
      apply cntf_pos in Hp as (fr & Hin & Hp). destruct (Hpost fr Hin) as [Hr _]. rewrite (HP fr Hp) in Hr. done. }
    assert (Hnp : forall P, (forall fr, P fr = true -> relv fr = true) -> (forall w, P (FWake w) = false) -> np P s' = np P s).
    { intros P HP HP1. eapply np_same; [exact Hst|exact Hs|]. rewrite !cntf_app, cntf_wake_frames, (Hpz P HP) by done. cbn.
      destruct (P fr0) eqn:E; [|done]. by rewrite (HP _ E) in Hr0. }
    assert (Hu : forall e w, unfreg s e w = true -> unfreg s' e w = true \/ posb (np (is_wake w) s') = true).
    { intros e w Hu. destruct (decide (e = e0)) as [->|Hne].
      - right. unfold unfreg in Hu. apply andb_true_iff in Hu as [_ Hin]. apply bool_decide_eq_true in Hin.
        eapply (np_pos_wake s' a). eapply fsat_new; [exact Hst|exact Hs|]. apply elem_of_app. left. apply elem_of_app. left. apply in_wake_frames. subst ws. by apply elem_of_rev.
      - left. unfold unfreg in *. change (getev s' e) with (getev s0 e). subst s0. by rewrite getev_setev_ne. }
    assert (Hnf : forall fr, fr ∈ (wake_frames ws ++ post) ++ rest -> fr ∈ rest \/ frame_ok s' a fr = true).
    { intros fr [[Hin|Hin]%elem_of_app|Hin]%elem_of_app; [right|right|by left].
      - unfold wake_frames in Hin. by apply elem_of_list_fmap in Hin as (w & -> & _).
      - destruct (Hpost fr Hin) as [_ Hm]. by apply nonmarker_ok. }
    assert (Hgd : forall e d, gd s e d = true -> gd s' e d = true).
    { intros e d. unfold gd. rewrite !orb_true_iff. intros [[H|H]|H]; [|left; right; eapply posb_mono; [apply Hnw|done]|by right].
      destruct (Hu _ _ H); [by left; left|by left; right]. }
    split.
    - eapply (frames_other_tview s _ a _ rest _ HO IF Hst); [exact Hs|exact Hnf|]. intros _.
      apply tview_swap; try done.
      intros c _. apply unp_mono; [subst s' s0; by rewrite tokb_setstack|]. rewrite Hnp; [done|by intros []|done].
    - eapply (queue_ok_mono s); try done; [|rewrite Hnp; [done|by intros []|done]|rewrite Hnp; [done|by intros []|done] ].
      intros e. rewrite (cover_iff s e).
      assert (Heq : forall w, effq s' w = effq s w) by (intros w; by apply effq_same).
      intros [(Hf & w & Hin & He)|[(c & w & Hf & He)|(c & d2 & w2 & Hf & He & Hg)]].
      + destruct (decide (e = e0)) as [->|Hne].
        * apply cover_iff. right; left. exists a, w. split; [|by rewrite Heq].
          eapply fsat_new; [exact Hst|exact Hs|]. apply elem_of_app. left. apply elem_of_app. left. apply in_wake_frames. subst ws. by apply elem_of_rev.
        * apply cover_iff. left. change (getev s' e) with (getev s0 e). subst s0. rewrite getev_setev_ne by done.
          split; [done|]. exists w. split; [done|by rewrite Heq].
      + apply cover_iff. right; left. exists c, w. split; [|by rewrite Heq].
        eapply fsat_keep_rest; [exact Hst|exact Hs|exact Hf|intros <-; discriminate Hr0].
      + apply cover_iff. right; right. exists c, d2, w2. split; [|split; [by rewrite (effw_same s s')|by apply Hgd] ].
        eapply fsat_keep_rest; [exact Hst|exact Hs|exact Hf|intros <-; discriminate Hr0].
  Qed.
End Steps2.

(* [tview] only looks at the registrations of the wakers that reach the queue or a runner (WakeQueue, WakeThread, DrainWaker) *)
Lemma tview_mono_used s s' :
  s'.(qs) = s.(qs) -> (forall e, hsusp s = Some e -> hsusp s' = Some e) ->
  (forall e w, usedw w = true -> unfreg s e w = true -> unfreg s' e w = true) ->
  (forall w, usedw w = true -> np (is_wake w) s <= np (is_wake w) s') ->
  (forall c, isrunner s c -> unp s c = true -> unp s' c = true) -> (forall d, dw_woken s d = true -> dw_woken s' d = true) ->
  tview s s'.
Proof.
  intros Hq Hh Hu Hw Hp Hd. split; rewrite ?Hq; try done.
  - unfold awoken. by rewrite Hq.
  - intros e _. unfold gq. rewrite !orb_true_iff. intros [?|?]; left; [left; by apply Hu|right; eapply posb_mono; [by apply Hw|done] ].
  - intros c e. unfold gt. rewrite !orb_true_iff. intros [?|?]; left; [left; by apply Hu|right; eapply posb_mono; [by apply Hw|done] ].
  - intros c Hc _. by apply Hp.
  - intros e d _. unfold gd. rewrite !orb_true_iff. intros [[?|?]|?]; [left; left; by apply Hu|left; right; eapply posb_mono; [by apply Hw|done]|right; by apply Hd].
Qed.

Section Steps3.
  Context (T : ftables) (HT : own_cond T) (HC : jobs_cond T) (HW : wake_cond T).
  (* a step of a task that is not running the queue and only touches its own task-waker registrations and its own park token *)
  Lemma ws_task_step s s' a fr0 fr1 rest :
    Inv_own s -> Inv_shape s -> Inv_wake s -> stacks s !! a = Some (fr0 :: rest) -> stacks s' = <[a := fr1 :: rest]> (stacks s) ->
    relv fr0 = false -> marker fr0 = false -> chain fr0 = false -> relv fr1 = false -> marker fr1 = false ->
    s'.(qs) = s.(qs) -> s'.(jobs) = s.(jobs) -> s'.(insched) = s.(insched) -> s'.(dws) = s.(dws) -> s'.(dbl) = s.(dbl) ->
    (forall c, c <> a -> tokb s' c = tokb s c) ->
    (forall e, (getev s' e).(fired) = (getev s e).(fired) /\
       forall w, (forall c, w <> WTask c) -> (w ∈ (getev s' e).(wakers) <-> w ∈ (getev s e).(wakers))) ->
    Inv_wake s'.
  Proof.
    intros HO HS [IF IQ] Hst Hs Hr0 Hm0 Hc0 Hr1 Hm1 Hq Hj Hi Hdw Hdb Htk Hev.
    assert (Hna : forall c, isrunner s c -> c <> a).
    { intros c (fr & (st & Hc & Hin) & Hm) ->. rewrite Hst in Hc. injection Hc as <-.
      pose proof (shape_top_plain s a _ _ HS Hst Hc0) as Hz.
      apply elem_of_cons in Hin as [->|Hin]; [congruence|]. by rewrite (cntf_zero_all marker rest Hz fr Hin) in Hm. }
    assert (Hunf : forall e w, (forall c, w <> WTask c) -> unfreg s' e w = unfreg s e w).
    { intros e w Hw. unfold unfreg. destruct (Hev e) as [-> Hin]. f_equal. apply bool_decide_ext. by apply Hin. }
    assert (Hnp : forall P, (forall fr, P fr = true -> relv fr = true) -> np P s' = np P s).
    { intros P HP. eapply np_same; [exact Hst|exact Hs|]. cbn.
      destruct (P fr0) eqn:E0; [by rewrite (HP _ E0) in Hr0|]. destruct (P fr1) eqn:E1; [by rewrite (HP _ E1) in Hr1|done]. }
    assert (Heq : forall w, effq s' w = effq s w) by (intros w; by apply effq_same).
    assert (Hew : forall w, effw s' w = effw s w) by (intros w; by apply effw_same).
    assert (Hgd : forall e d, gd s' e d = gd s e d).
    { intros e d. unfold gd, dw_woken, getdw. rewrite Hdw, Hunf by done. f_equal. f_equal. f_equal. apply Hnp. by intros []. }
    assert (Hcov : forall e, cover s' e = cover s e).
    { intros e. apply Bool.eq_iff_eq_true. rewrite !cover_iff. destruct (Hev e) as [Hf Hin].
      assert (Hfs : forall c fr, relv fr = true -> fsat s' c fr <-> fsat s c fr).
      { intros c fr Hrv. split; intros (st & Hcst & Hfin).
        - rewrite Hs in Hcst. destruct (decide (c = a)) as [->|Hne].
          + rewrite list_lookup_insert in Hcst by (by eapply lookup_lt_Some). injection Hcst as <-. exists (fr0 :: rest). split; [done|].
            apply elem_of_cons in Hfin as [->|Hfin]; [congruence|by right].
          + rewrite list_lookup_insert_ne in Hcst by done. by exists st.
        - destruct (decide (c = a)) as [->|Hne].
          + rewrite Hst in Hcst. injection Hcst as <-. exists (fr1 :: rest). split; [rewrite Hs, list_lookup_insert; [done|by eapply lookup_lt_Some]|].
            apply elem_of_cons in Hfin as [->|Hfin]; [congruence|by right].
          + exists st. split; [by rewrite Hs, list_lookup_insert_ne|done]. }
      rewrite Hf. split.
      - intros [(Hfi & w & Hw & He)|[(c & w & Hfr & He)|(c & d & w & Hfr & He & Hg)]].
        + left. split; [done|]. exists w. rewrite Heq in He. split; [|done]. apply Hin; [|done]. intros c ->. done.
        + right; left. exists c, w. rewrite Heq in He. split; [by apply Hfs|done].
        + right; right. exists c, d, w. rewrite Hew in He. rewrite Hgd in Hg. split; [by apply Hfs|done].
      - intros [(Hfi & w & Hw & He)|[(c & w & Hfr & He)|(c & d & w & Hfr & He & Hg)]].
        + left. split; [done|]. exists w. rewrite Heq. split; [|done]. apply Hin; [|done]. intros c ->. done.
        + right; left. exists c, w. rewrite Heq. split; [by apply Hfs|done].
        + right; right. exists c, d, w. rewrite Hew, Hgd. split; [by apply Hfs|done]. }
    split.
    - eapply (frames_other_tview s _ a _ rest _ HO IF Hst); [exact Hs| |].
      { intros fr [->|Hin]%elem_of_cons; [right; by apply nonmarker_ok|by left]. }
      intros _. apply tview_mono_used; try done.
      + unfold hsusp. by rewrite Hj.
      + intros e w Hw. rewrite Hunf; [done|]. intros c ->. done.
      + intros w _. rewrite Hnp; [done|by intros []].
      + intros c Hc. unfold unp. rewrite (Htk c (Hna c Hc)), Hnp; [done|by intros []].
      + intros d. unfold dw_woken, getdw. by rewrite Hdw.
    - eapply (queue_ok_same s); try done; apply Hnp; by intros [].
  Qed.
End Steps3.
Lemma Inv_own_addlog s l : Inv_own s -> Inv_own (addlog s l). Proof. intros []; by split. Qed.
Lemma Inv_wake_addlog s l : Inv_wake s -> Inv_wake (addlog s l). Proof. intros []; by split. Qed.
Lemma Inv_shape_addlog s l : Inv_shape s -> Inv_shape (addlog s l). Proof. intros H c st Hc. by apply (H c st). Qed.

(* event cells that differ only in registered task wakers *)
Definition evs_task_eq (s s' : state) : Prop :=
  forall e, (getev s' e).(fired) = (getev s e).(fired) /\
     forall w, (forall c, w <> WTask c) -> (w ∈ (getev s' e).(wakers) <-> w ∈ (getev s e).(wakers)).
Lemma evs_task_eq_refl s s' : s'.(evs) = s.(evs) -> evs_task_eq s s'.
Proof. intros H e. unfold getev. by rewrite H. Qed.
Lemma evs_task_eq_trans s1 s2 s3 : evs_task_eq s1 s2 -> evs_task_eq s2 s3 -> evs_task_eq s1 s3.
Proof. intros H1 H2 e. destruct (H1 e) as [F1 W1], (H2 e) as [F2 W2]. split; [congruence|]. intros w Hw. by rewrite W2, W1. Qed.
Lemma setev_ge s e c : length s.(evs) <= e -> setev s e c = s.
Proof. intros H. unfold setev. rewrite list_insert_ge by lia. by destruct s. Qed.
Lemma evs_reg_task s e a : evs_task_eq s (setev s e (getev s e <| wakers := WTask a :: (getev s e).(wakers) |>)).
Proof.
  destruct (decide (e < length s.(evs))) as [Hlt|Hge]; [|rewrite setev_ge by lia; by apply evs_task_eq_refl].
  intros e'. destruct (decide (e' = e)) as [->|Hne].
  - rewrite getev_setev_eq by done. cbn. split; [done|].
    intros w Hw. rewrite elem_of_cons. split; [intros [->|?]; [by destruct (Hw a)|done]|by right].
  - by rewrite getev_setev_ne.
Qed.
Lemma evs_rereg_task s e a :
  evs_task_eq s (setev s e (getev s e <| wakers := WTask a :: List.filter (fun w => negb (is_task a w)) (getev s e).(wakers) |>)).
Proof.
  destruct (decide (e < length s.(evs))) as [Hlt|Hge]; [|rewrite setev_ge by lia; by apply evs_task_eq_refl].
  intros e'. destruct (decide (e' = e)) as [->|Hne].
  - rewrite getev_setev_eq by done. cbn. split; [done|].
    intros w Hw. rewrite elem_of_cons, !elem_of_list_In, filter_In. split.
    + intros [->|[? _]]; [by destruct (Hw a)|done].
    + intros H. right. split; [done|]. destruct w; try done. by destruct (Hw c).
  - by rewrite getev_setev_ne.
Qed.
Lemma evs_unreg_task s e a : evs_task_eq s (setev s e (getev s e <| wakers := List.filter (fun w => negb (is_task a w)) (getev s e).(wakers) |>)).
Proof.
  destruct (decide (e < length s.(evs))) as [Hlt|Hge]; [|rewrite setev_ge by lia; by apply evs_task_eq_refl].
  intros e'. destruct (decide (e' = e)) as [->|Hne].
  - rewrite getev_setev_eq by done. cbn. split; [done|].
    intros w Hw. rewrite !elem_of_list_In, filter_In. split; [by intros [? _]|]. intros H. split; [done|].
    destruct w; try done. by destruct (Hw c).
  - by rewrite getev_setev_ne.
Qed.
