(* C13 (suspend): while the suspend job waits for its resumer, it is the open operation, everything scheduled before it has
   finished, nothing scheduled after it has started, and this persists until the resume event is fired *)
From stdpp Require Import list numbers option.
From RecordUpdate Require Import RecordUpdate.
From L2 Require Import Model Base Own Jobs Shape DwInv Pool Fut Wake WakeInv Term.
#[global] Unset Lia Cache.

Definition parked_on (s : state) (os e : nat) : Prop :=
  exists r, held s = [JFut os Waiting (PAwait e :: r)] \/ (held s = [] /\ exists js, s.(jobs) = JFut os Waiting (PAwait e :: r) :: js).

Lemma wbn_last_start l : forall o, wbn l = Some (Some o) -> exists x, starts l = x ++ [o].
Proof.
  induction l as [|ev l IH]; intros o H; [done|]. cbn in H. destruct (wbn l) as [c0|] eqn:E; cbn in H; [|done].
  destruct ev; cbn in H |- *.
  all: try (injection H as ->; destruct (IH o eq_refl) as [x ->]; exists x; by rewrite app_nil_r).
  - destruct c0; [done|]. injection H as <-. by exists (starts l).
  - destruct c0 as [o'|]; [|done]. by destruct (decide (o0 = o')).
Qed.
Lemma starts_in l o : o ∈ starts l -> GStart o ∈ l.
Proof.
  induction l as [|ev l IH]; cbn; [by intros ?%elem_of_nil|]. intros [H|H]%elem_of_app; [right; by apply IH|].
  destruct ev; try (by apply elem_of_nil in H). apply elem_of_list_singleton in H as ->. left.
Qed.

Lemma parked_inprog s os e : parked_on s os e -> inprog s = Some os.
Proof. intros (r & [H|(H & js & Hj)]); unfold inprog; rewrite H; [done|]. by rewrite Hj. Qed.

Lemma parked_order s os e : Inv_jobs s -> parked_on s os e ->
  exists x, starts s.(log) = x ++ [os] /\ pushes s.(log) = x ++ os :: pend s /\ forall o, o ∈ x -> GFinish o ∈ s.(log) \/ o = os.
Proof.
  intros HJ Hp. pose proof (ij_log _ HJ) as Hw. rewrite (parked_inprog _ _ _ Hp) in Hw.
  destruct (wbn_last_start _ _ Hw) as [x Hx]. exists x. split; [done|]. split.
  - rewrite (ij_fifo _ HJ), Hx, <- app_assoc. done.
  - intros o Ho. assert (Hs : GStart o ∈ log s) by (apply starts_in; rewrite Hx; apply elem_of_app; by left).
    destruct (wbn_finished _ _ Hw o Hs) as [?|[= ->]]; [by left|by right].
Qed.

Lemma hjobs_opt_wake' ow : hjobs (opt_wake ow) = []. Proof. by destruct ow. Qed.
Lemma hjobs_wake_frames' ws : hjobs (wake_frames ws) = [].
Proof. induction ws as [|w ws IH]; [done|]. exact IH. Qed.
Lemma getev_same (s' s : state) e : s'.(evs) = s.(evs) -> getev s' e = getev s e.
Proof. intros H. unfold getev. by rewrite H. Qed.

Section Pres.
  Context (T : ftables) (HT : own_cond T) (HC : jobs_cond T).
  Lemma parked_stays s a s' os e : Inv_own s -> Inv_jobs s -> parked_on s os e ->
    step T s a = Some s' -> (getev s' e).(fired) = false -> parked_on s' os e.
  Proof.
    intros HO HJ (r & Hp) Hstep Hfe. exists r. step_split Hstep Ea Est.
    all: try discriminate Hstep.
    all: injection Hstep as <-.
    all: pop_cont_split.
    all: pose proof (stacks_lookup _ _ _ Ea) as Hst; rewrite Est in Hst.
    all: try match goal with k : kont |- _ => destruct k end.
    all: match goal with |- held ?s' = _ \/ _ =>
           first [ assert (Hh : held s' = held s) by
                     (eapply held_other_step; [exact Hst|solve_stacks|cbn; rewrite ?hjobs_app, ?hjobs_opt_wake', ?hjobs_wake_frames'; reflexivity])
                 | destruct (held_runner_step s a _ _ HO Hst eq_refl) as (Hh0 & Hr & Hh1);
                   specialize (Hh1 s' _ ltac:(solve_stacks))
                 | assert (Hno : owned (qs s) = false) by (tbl_facts HT; intuition);
                   destruct (held_acquire_step s a _ HO Hno Hst) as (Hh0 & Hr & Hh1);
                   specialize (Hh1 s' _ ltac:(solve_stacks)) ] end.
    all: rewrite ?Hh; rewrite ?Hh1; try rewrite Hh0 in *.
    all: cbn -[held getev] in *.
    all: rewrite ?hjobs_app, ?hjobs_opt_wake', ?hjobs_wake_frames'; cbn -[held getev]; try rewrite Hr in *.
    all: try (exact Hp).
    all: try (match goal with E0 : jobs _ = _ :: _ |- _ => rewrite E0 in * end).
    all: destruct Hp as [Hp|[Hp [js Hj]]]; simplify_eq.
    all: try (by left).
    all: try (right; split; [done|]; eexists; first [eassumption|reflexivity|rewrite Hj; reflexivity]).
    all: try (left; reflexivity).
    all: try (match goal with E : fired (getev _ _) = true |- _ => rewrite (getev_same _ s e eq_refl) in Hfe; congruence end).
    1: (apply (jc_sync_imm _ HC) in E; apply bool_decide_eq_true in E; congruence).
    all: match type of Hfe with fired (getev ?s1 _) = _ => rewrite (getev_same s1 s e eq_refl) in Hfe end; congruence.
  Qed.
End Pres.
