(* the property-level statements of layer L2 and their proofs from the layer's theorems (the Props*.v files only [exact] these) *)
From stdpp Require Import list numbers option.
From L2 Require Import Model Base Own Jobs Shape DwInv Pool OpShape Fut Sig Task TaskInv Wake WakeInv Term Complete Susp Zero ZeroInv ZeroTerm Facts Waiter WaiterTerm YDefs YInv YThm YThm1 YTerm YTerm0.

(* ---------- C01 ---------- *)
Definition C01_full : Prop :=
  forall (T : ftables), own_cond T -> jobs_cond T ->
  forall scripts npool nev tr s, run T (init scripts npool nev) tr = Some s ->
  (* (1) the ownership invariant: marker frames = runner episodes, exactly one iff the state is Running / AwokenWhileRunning /
         WaitingForUnpark; in WaitingForUnpark the runner is the parked sync caller *)
  Inv_own s /\
  (* (2) at most one actor runs the queue, and only once *)
  (forall a b sa sb, stacks s !! a = Some sa -> stacks s !! b = Some sb -> cntf marker sa >= 1 -> cntf marker sb >= 1 ->
     a = b /\ cntf marker sa = 1) /\
  (* (3) ghost log (newest first): between Start o and Finish o no other operation Starts *)
  (forall l1 l2 o, s.(log) = l1 ++ GStart o :: l2 -> GFinish o ∉ l1 -> forall o', GStart o' ∉ l1) /\
  (* (4) the started-and-unfinished operation is in the runner's hand, or at the head of the queue (requeue at front) *)
  (forall l1 l2 o, s.(log) = l1 ++ GStart o :: l2 -> GFinish o ∉ l1 ->
     (exists j r, held s = j :: r /\ wop j = Some o) \/ (held s = [] /\ exists j r, s.(jobs) = j :: r /\ wop j = Some o)).
Lemma C01_main : C01_full.
Proof.
  intros T HT HC scripts npool nev tr s Hr. split; [by eapply reachable_own|]. split; [|split].
  - intros a b sa sb. by eapply exclusive.
  - intros l1 l2 o. by eapply log_exclusive.
  - intros l1 l2 o. by eapply open_op_location.
Qed.

(* ---------- C02 ---------- *)
Definition C02_full : Prop :=
  forall (T : ftables), own_cond T -> jobs_cond T ->
  forall scripts npool nev tr s, run T (init scripts npool nev) tr = Some s ->
  (* pushes = starts ++ (not yet started operations: the one in the runner's hand, then the queue, in order) *)
  pushes s.(log) = starts s.(log) ++ pend s /\ starts s.(log) `prefix_of` pushes s.(log).
Lemma C02_main : C02_full.
Proof.
  intros T HT HC scripts npool nev tr s Hr. split; [|by eapply fifo].
  by destruct (reachable_jobs T HT HC _ _ _ _ _ Hr) as [_ [_ _ _ _ _ _ H]].
Qed.

(* ---------- C06 ---------- *)
(* the invariant: every frame of the runner and the queue state carry their wake-up guarantee (Wake.v: frame_ok, queue_ok) *)
Definition C06_invariant : Prop :=
  forall (T : ftables), all_cond T ->
  forall scripts npool nev tr s, run T (init scripts npool nev) tr = Some s ->
  (forall c st fr, stacks s !! c = Some st -> fr ∈ st -> frame_ok s c fr = true) /\ queue_ok s = true.
Lemma C06_invariant_main : C06_invariant.
Proof.
  intros T HA scripts npool nev tr s Hr. destruct (ia_wake _ (reachable_all T HA _ _ _ _ _ Hr)) as [H1 H2].
  split; [|done]. intros c st fr Hc Hin. apply H1. by exists st.
Qed.
(* the terminal theorem, at least one pool runner *)
Definition C06_terminal_pool : Prop :=
  forall (T : ftables), all_cond T ->
  forall scripts npool nev tr s, npool >= 1 -> run T (init scripts npool nev) tr = Some s ->
  terminal T s -> all_fired s ->
  s.(qs) = Idle /\ s.(jobs) = [] /\ held s = [] /\
  starts s.(log) = pushes s.(log) /\ (forall o, GPush o ∈ s.(log) -> GStart o ∈ s.(log) /\ GFinish o ∈ s.(log)).
Lemma C06_terminal_main : C06_terminal_pool.
Proof.
  intros T HA scripts npool nev tr s Hn Hr Ht Hf.
  destruct (C06_terminal T HA _ _ _ _ _ Hn Hr Ht Hf) as (H1 & H2 & H3).
  destruct (terminal_all_ran T HA _ _ _ _ _ Hn Hr Ht Hf) as (H4 & H5). done.
Qed.

(* ---------- C07 (safety parts) ---------- *)
Definition C07_safety : Prop :=
  forall (T : ftables), all_cond T ->
  forall scripts npool nev tr s, run T (init scripts npool nev) tr = Some s ->
  (* the result of a future is delivered at most once *)
  (forall f, nres f s.(log) <= 1) /\
  (* no thread is at a point where the code panics: second take of a result, Panic arms, unexpected state in run_one_job_now *)
  (forall a, would_panic T s a = false) /\
  (* one consumer per future until the result is taken; none afterwards *)
  (forall f, nres f s.(log) + tot f s <= 1) /\ (forall f, (getf s f).(res) = FReturned -> tot f s = 0).
Lemma C07_safety_main : C07_safety.
Proof.
  intros T HA scripts npool nev tr s Hr. pose proof (reachable_all T HA _ _ _ _ _ Hr) as HI.
  split; [intros f; by eapply resolve_at_most_once|]. split; [intros a; by eapply no_panic_reachable|].
  split; [apply (if_one _ (ia_fut _ HI))|apply (if_ret _ (ia_fut _ HI))].
Qed.

(* the value delivered is the value signalled: Resolve f v only after Sig f v (the model uses the signalling operation's id as value),
   for arbitrary tables *)
Definition C07_value : Prop :=
  forall (T : ftables) scripts npool nev tr s l1 f v l2,
  run T (init scripts npool nev) tr = Some s -> s.(log) = l1 ++ GResolve f v :: l2 -> GSig f v ∈ l2.
Lemma C07_value_main : C07_value.
Proof. intros T scripts npool nev tr s l1 f v l2. apply resolve_after_signal. Qed.

(* the waker mechanism, critical section by critical section *)
Definition C07_waker_steps : Prop :=
  (forall T s a ac f rest st', s.(actors) !! a = Some ac -> ac.(stack) = FSFpoll f :: rest -> f < length s.(futs) ->
     (getf s f).(res) = FNone -> T.(t_poll) f s.(qs) = (st', PAWait) ->
     exists s', step T s a = Some s' /\ stacks s' = <[a := rest]> (stacks s) /\
                (getf s' f).(res) = FNone /\ (getf s' f).(fwaker) = Some (WTask a)) /\
  (forall T s a ac op f l w k rest, s.(actors) !! a = Some ac ->
     ac.(stack) = FJob (JFut op Waiting (PSignal f :: l)) w k :: rest -> f < length s.(futs) ->
     exists s', step T s a = Some s' /\ (getf s' f).(res) = FSome op /\ (getf s' f).(fwaker) = None /\
                stacks s' = <[a := opt_wake (getf s f).(fwaker) ++ FJob (JFut op Waiting l) w k :: rest]> (stacks s) /\
                s'.(log) = GSig f op :: s.(log)).
Lemma C07_waker_steps_main : C07_waker_steps.
Proof. split; [apply poll_wait_stores_waker|apply signal_calls_stored_waker]. Qed.

(* two of the three clauses of the task-wake invariant: in drain_queue the result is known to be missing where the waker is
   stored (FDQdeq / FDQstore / FDQempty1), and a missing result still has its signalling job (in the queue or in a runner's hand) *)
Definition C07_task_parts : Prop :=
  forall (T : ftables), own_cond T -> forall scripts npool nev tr s, run T (init scripts npool nev) tr = Some s ->
  (forall c st fr, stacks s !! c = Some st -> fr ∈ st -> rn_ok s fr = true) /\
  (forall f, f < length s.(futs) -> (getf s f).(res) = FNone -> nsig f s >= 1).
Lemma C07_task_parts_main : C07_task_parts.
Proof. exact reachable_task_parts. Qed.

(* C07 / C06, complete form: with at least one pool runner, in a terminal state with all events fired every caller has finished its
   script: every task awaiting a future was woken and completed, every blocked sync caller was released *)
Definition done_actor (st : list frame) : Prop := st = [FTop []] \/ st = [FPIdle].
Definition C07_complete_full : Prop :=
  forall (T : ftables), all_cond T ->
  forall scripts npool nev tr s, npool >= 1 -> run T (init scripts npool nev) tr = Some s -> terminal T s -> all_fired s ->
  forall c st, stacks s !! c = Some st -> done_actor st.
Lemma C07_complete_main : C07_complete_full.
Proof. intros T HA scripts npool nev tr s Hn Hr Ht Hf c st Hc. by eapply C07_complete. Qed.
(* the task-wake invariant itself (Task.v): the first await frame of every stack carries its wake-up guarantee [tw]; a caller blocked
   in sync_background still has its job; the result is known missing where drain_queue stores the waker; a missing result still has
   its signalling job *)
Definition C07_task_invariant : Prop :=
  forall (T : ftables), all_cond T -> forall scripts npool nev tr s, run T (init scripts npool nev) tr = Some s -> Inv_task s.
Lemma C07_task_invariant_main : C07_task_invariant.
Proof. intros T HA scripts npool nev tr s Hr. apply (i2_task _ (reachable_all2 T HA _ _ _ _ _ Hr)). Qed.
(* everything of C07 that this layer states *)
Definition C07_full : Prop := C07_safety /\ C07_value /\ C07_waker_steps /\ C07_task_invariant /\ C07_complete_full.
Lemma C07_full_main : C07_full.
Proof. split; [apply C07_safety_main|]. split; [apply C07_value_main|]. split; [apply C07_waker_steps_main|]. split; [apply C07_task_invariant_main|apply C07_complete_main]. Qed.

(* ---------- zero pool runners ---------- *)
(* C06 / C07 with ZERO pool runners: one caller that only schedules plain / future jobs and awaits (or detaches) its futures - no
   sync, no suspend - and any number of callers that only fire events: the awaiting caller finishes its script *)
Definition sigfree (body : list fprim) : Prop :=
  Forall (fun p => match p with PSignal _ | PSendReady _ | PAwaitDone _ => False | _ => True end) body.
Definition await_only (sc : list cop) : Prop :=
  Forall (fun o => match o with ODesync => True | OFuture body UAwait | OFuture body UDetach => sigfree body | _ => False end) sc.
Definition fire_only (sc : list cop) : Prop := Forall (fun o => match o with OFire _ => True | _ => False end) sc.
(* [zero_cond] (ZeroInv.v): three more facts about the generated tables - dequeue never refuses while the state is Running /
   AwokenWhileRunning; poll of f in WaitingForPoll f takes the queue over; poll answers "wait" only when the queue is owned, in
   WaitingForWake, or in WaitingForPoll of another future *)
Definition C06_zero_pool_full : Prop :=
  forall (T : ftables), all_cond T -> zero_cond T ->
  forall sc0 others nev tr s, await_only sc0 -> Forall fire_only others ->
  run T (init (sc0 :: others) 0 nev) tr = Some s -> terminal T s -> all_fired s ->
  stacks s !! 0 = Some [FTop []].
Lemma sigfree_b body : sigfree body -> sigfreeb body = true.
Proof. unfold sigfree, sigfreeb. induction 1 as [|p r Hp _ IH]; [done|]. cbn. rewrite IH. by destruct p. Qed.
Lemma await_only_b sc : await_only sc -> forallb awaitb sc = true.
Proof.
  unfold await_only. induction 1 as [|o r Ho _ IH]; [done|]. cbn. rewrite IH, andb_true_r.
  destruct o as [|body u| | | |]; try done. destruct u; try done; by apply sigfree_b.
Qed.
Lemma fire_only_b sc : fire_only sc -> forallb fireb sc = true.
Proof. unfold fire_only. induction 1 as [|o r Ho _ IH]; [done|]. cbn. rewrite IH. by destruct o. Qed.
Lemma C06_zero_pool_main : C06_zero_pool_full.
Proof.
  intros T HA HZ sc0 others nev tr s H0 Ho Hr Ht Hf.
  apply (C06_zero_pool T HA HZ sc0 others nev tr s); [by apply await_only_b| |done..].
  eapply Forall_impl; [|exact Ho]. intros sc. apply fire_only_b.
Qed.
(* the same WITHOUT the side condition on the awaiting caller (any script): refuted, see Examples.C06_zero_pool_needs_side_condition_refuted *)
Definition C06_zero_pool_any_script : Prop :=
  forall (T : ftables), all_cond T ->
  forall sc0 others nev tr s, Forall fire_only others ->
  run T (init (sc0 :: others) 0 nev) tr = Some s -> terminal T s -> all_fired s ->
  stacks s !! 0 = Some [FTop []].
(* C13 (suspend), state form.  After its first prim (signal finished_suspending) the suspend job is a started future operation whose
   next prim is [PAwait e_resume]: it is [parked_on s os e] (in the runner's hand, being polled or not, or at the head of the queue).
   While that is so: (1) the Starts so far are exactly the operations pushed up to and including os, all but os Finished, and the
   operations pushed after os ([pend s]) have not started; (2) this persists over every step as long as e_resume is not fired;
   (3) once it is fired, C06 applies (the job is re-polled and the operations behind it run, in order, C02). *)
Definition C13_full : Prop :=
  forall (T : ftables), all_cond T ->
  forall scripts npool nev tr s os e, run T (init scripts npool nev) tr = Some s -> parked_on s os e ->
  (exists x, starts s.(log) = x ++ [os] /\ pushes s.(log) = x ++ os :: pend s /\ forall o, o ∈ x -> GFinish o ∈ s.(log) \/ o = os) /\
  (forall a s', step T s a = Some s' -> (getev s' e).(fired) = false -> parked_on s' os e).
Lemma C13_main : C13_full.
Proof.
  intros T HA scripts npool nev tr s os e Hr Hp. pose proof (reachable_all T HA _ _ _ _ _ Hr) as HI. split.
  - apply (parked_order s os e); [apply (ia_jobs _ HI)|exact Hp].
  - intros a s' Hs Hf. eapply parked_stays; [apply (ac_own _ HA)|apply (ac_jobs _ HA)|apply (ia_own _ HI)|apply (ia_jobs _ HI)|exact Hp|exact Hs|exact Hf].
Qed.

(* ---------- the order facts (Model.ffacts / stepF) ----------
   Every statement above is about [run T] = [runF code_ffacts T] (Facts.runF_code).  The conclusions that the four order facts are
   needed for, with the facts as a parameter; proved for [code_ffacts] here, refuted for each single false fact in Refute.v. *)
Definition C01_exclusive_F (F : ffacts) : Prop :=
  forall (T : ftables), own_cond T -> jobs_cond T ->
  forall scripts npool nev tr s, runF F T (init scripts npool nev) tr = Some s ->
  (forall a b sa sb, stacks s !! a = Some sa -> stacks s !! b = Some sb -> cntf marker sa >= 1 -> cntf marker sb >= 1 -> a = b) /\
  (forall l1 l2 o, s.(log) = l1 ++ GStart o :: l2 -> GFinish o ∉ l1 -> forall o', GStart o' ∉ l1).
Definition C06_terminal_pool_F (F : ffacts) : Prop :=
  forall (T : ftables), all_cond T ->
  forall scripts npool nev tr s, npool >= 1 -> runF F T (init scripts npool nev) tr = Some s ->
  terminalF F T s -> all_fired s ->
  s.(qs) = Idle /\ s.(jobs) = [] /\ (forall o, GPush o ∈ s.(log) -> GStart o ∈ s.(log) /\ GFinish o ∈ s.(log)) /\
  (forall c st, stacks s !! c = Some st -> done_actor st).
Lemma C01_exclusive_code : C01_exclusive_F code_ffacts.
Proof.
  intros T HT HC scripts npool nev tr s Hr. rewrite runF_code in Hr.
  destruct (C01_main T HT HC _ _ _ _ _ Hr) as (_ & H2 & H3 & _). split; [|exact H3].
  intros a b sa sb Ha Hb Hma Hmb. by destruct (H2 a b sa sb Ha Hb Hma Hmb).
Qed.
Lemma C06_terminal_pool_code : C06_terminal_pool_F code_ffacts.
Proof.
  intros T HA scripts npool nev tr s Hn Hr Ht Hf. rewrite runF_code in Hr. apply terminalF_code in Ht.
  destruct (C06_terminal_main T HA _ _ _ _ _ Hn Hr Ht Hf) as (H1 & H2 & _ & _ & H5).
  split; [done|]. split; [done|]. split; [done|]. by eapply C07_complete_main.
Qed.

(* ---------- C04 for one queue with futures: sync returns (the waiter's loop of sync_background, finding F6) ----------
   [claim_cond] (Waiter.v): claim_pending_queue accepts Idle, Pending and WaitingForPoll, refuses WaitingForWake, and a WakeQueue
   wake-up that leaves the queue claimable goes on to reschedule_queue (which kicks the waiters). *)
(* the invariant: a waiter whose job has not run and whose `rescheduled` flag is clear is going to be kicked whenever the queue can
   be claimed: a reschedule_queue is in flight, or a wake-up that reaches WakeQueue is registered / in flight (Waiter.Inv_K) *)
Definition C04_waiter_invariant : Prop :=
  forall (T : ftables), all_cond T -> claim_cond T ->
  forall scripts npool nev tr s, run T (init scripts npool nev) tr = Some s -> Inv_K T s.
Lemma C04_waiter_invariant_main : C04_waiter_invariant.
Proof. intros T HA HC scripts npool nev tr s Hr. apply (i3_k _ _ (reachable_all3 T HA HC _ _ _ _ _ Hr)). Qed.
(* in a terminal state with all events fired every actor is done or is a task parked awaiting a SchedulerFuture: nobody is left
   inside sync (sync_immediate, sync_drain, sync_background) - any program, ANY number of pool runners, zero included *)
Definition C04_sync_returns_full : Prop :=
  forall (T : ftables), all_cond T -> claim_cond T ->
  forall scripts npool nev tr s, run T (init scripts npool nev) tr = Some s -> terminal T s -> all_fired s ->
  forall c st, stacks s !! c = Some st -> done_actor st \/ exists f rest, st = FPark f :: rest.
Lemma C04_sync_returns_main : C04_sync_returns_full.
Proof.
  intros T HA HC scripts npool nev tr s Hr Ht Hf c st Hc.
  destruct (C04_sync_returns T HA HC _ _ _ _ _ Hr Ht Hf c st Hc) as [?|[?|?]]; [left; by left|left; by right|by right].
Qed.
(* the same WITHOUT claim_cond: refuted (Refute.C04_needs_waiter_takeover_refuted: the claim table from before the repair of F6) *)
Definition C04_sync_returns_any_claim_table : Prop :=
  forall (T : ftables), all_cond T ->
  forall scripts npool nev tr s, run T (init scripts npool nev) tr = Some s -> terminal T s -> all_fired s ->
  forall c st, stacks s !! c = Some st -> st = [FTop []] \/ st = [FPIdle] \/ exists f rest, st = FPark f :: rest.
(* the state form of finding F6: no caller is left waiting in sync_background - in particular not while the queue is in
   WaitingForPoll f with f's future dropped and the queue woken (it is in the schedule, nobody takes it) *)
Definition C04_waiter_takes_over : Prop :=
  forall (T : ftables), all_cond T -> claim_cond T ->
  forall scripts npool nev tr s, run T (init scripts npool nev) tr = Some s -> terminal T s -> all_fired s ->
  forall c rest, stacks s !! c = Some (FSBwait :: rest) -> False.
Lemma C04_waiter_takes_over_main : C04_waiter_takes_over.
Proof.
  intros T HA HC scripts npool nev tr s Hr Ht Hf c rest Hc.
  destruct (C04_sync_returns T HA HC _ _ _ _ _ Hr Ht Hf c _ Hc) as [?|[?|(f & r & ?)]]; done.
Qed.
(* a caller that never awaits a future (desync, sync, SchedulerFuture::sync, poll a future n times and drop it, detach, fire)
   finishes its script: any position, any other callers, any pool size *)
Definition noawait (sc : list cop) : Prop :=
  Forall (fun o => match o with OFuture _ UAwait | OSuspend _ UAwait | OFutSync _ UAwait => False | _ => True end) sc.
Lemma noawait_b sc : noawait sc -> forallb noaw_op sc = true.
Proof. unfold noawait. induction 1 as [|o r Ho _ IH]; [done|]. cbn. rewrite IH, andb_true_r. destruct o as [|? u|? u| | |? u]; try done; by destruct u. Qed.
Definition C04_noawait_caller_finishes : Prop :=
  forall (T : ftables), all_cond T -> claim_cond T ->
  forall scripts npool nev tr s c sc, scripts !! c = Some sc -> noawait sc ->
  run T (init scripts npool nev) tr = Some s -> terminal T s -> all_fired s -> stacks s !! c = Some [FTop []].
Lemma C04_noawait_caller_finishes_main : C04_noawait_caller_finishes.
Proof. intros T HA HC scripts npool nev tr s c sc Hsc Hn. apply (noawait_caller_finishes T HA HC scripts npool nev tr s c sc); [done|by apply noawait_b]. Qed.
(* zero pool runners (extends C06_zero_pool_full to sync and poll-and-drop, for a caller that does not ALSO await futures): caller 0
   runs desync / sync / future operations that it detaches, syncs or polls n times and drops; the other callers are arbitrary *)
Definition C06_zero_pool_sync_full : Prop :=
  forall (T : ftables), all_cond T -> claim_cond T ->
  forall sc0 others nev tr s, noawait sc0 ->
  run T (init (sc0 :: others) 0 nev) tr = Some s -> terminal T s -> all_fired s -> stacks s !! 0 = Some [FTop []].
Lemma C06_zero_pool_sync_main : C06_zero_pool_sync_full.
Proof. intros T HA HC sc0 others nev tr s Hn. by apply (C04_noawait_caller_finishes_main T HA HC (sc0 :: others) 0 nev tr s 0 sc0). Qed.

(* ---------- C08: future_sync on the real queue machinery ----------
   [OFutSync body u]: one call of Desync::future_sync; the ghost events GYnew o f r (the call: slot job o, SchedulerFuture f, oneshot
   cells r = queue_ready, S r = done), GUStart / GUStep / GUFinish / GUCancel o (the user future of the call is created / advanced by
   one primitive / completes / is destroyed unfinished), GYdrop o (the SyncFuture is dropped before Ready: drop of `task_finished`).
   [ywf nev scripts] (YDefs.v): user bodies consist of PTouch / PAwait e / PAwaitEither e1 e2 with e < nev, OFire / OSuspend name
   external events (the oneshot cells of future_sync are not addressable by programs).  The ghost log is newest-first:
   [log s = l2 ++ e :: l1] reads "e happened, l1 is everything before it". *)
Definition C08_1_runs_only_when_awaited : Prop :=
  forall (T : ftables), all_cond T ->
  forall scripts npool nev tr s, ywf nev scripts -> run T (init scripts npool nev) tr = Some s ->
  (* an event of the user future of call o is produced only by a step of the actor that holds the SyncFuture of that call on top
     of its stack (its caller's task), after queue_ready was sent and before task_finished is *)
  (forall a s' l e o, step T s a = Some s' -> s'.(log) = l ++ s.(log) -> e ∈ l -> user_ev e = Some o ->
     exists pc y st u rest, stacks s !! a = Some (FY pc y st u :: rest) /\ y.(y_op) = o /\
       GYnew o y.(y_f) y.(y_r) ∈ s.(log) /\ (getev s y.(y_r)).(fired) = true /\ (getev s (S y.(y_r))).(fired) <> true) /\
  (* queue_ready of a call is sent only by a step of that call's slot job *)
  (forall a s' o f r, step T s a = Some s' -> GYnew o f r ∈ s.(log) -> (getev s r).(fired) <> true -> (getev s' r).(fired) = true ->
     exists sc w k rest, stacks s !! a = Some (FJob (JFut o Waiting (PSendReady r :: sc)) w k :: rest)).
Lemma C08_1_main : C08_1_runs_only_when_awaited.
Proof.
  intros T HA scripts npool nev tr s Hwf Hr. pose proof (ya_y _ _ (reachable_yall nev T HA _ _ _ _ Hwf Hr)) as HY. split.
  - intros a s' l e o. apply (user_event_step nev T s a s' l e o HY).
  - intros a s' o f r Hs Hg. apply (ready_sent_step nev T s a s' o f r HY Hs). by apply ynews_in.
Qed.
Definition C08_2_only_inside_its_exclusive_slot : Prop :=
  forall (T : ftables), all_cond T ->
  forall scripts npool nev tr s l2 e l1, ywf nev scripts -> run T (init scripts npool nev) tr = Some s -> s.(log) = l2 ++ e :: l1 ->
  (* every event of the user future lies inside the slot of its call's job: that job has started, and NOTHING has started or
     finished since (in particular not the job itself) *)
  (forall o, user_ev e = Some o ->
     (exists la lb, l1 = la ++ GStart o :: lb /\ forall o', GStart o' ∉ la /\ GFinish o' ∉ la) /\ exists f r, GYnew o f r ∈ l1) /\
  (* between Start o and Finish o no other operation starts *)
  (forall o, e = GStart o -> GFinish o ∉ l2 -> forall o', GStart o' ∉ l2).
Lemma C08_2_main : C08_2_only_inside_its_exclusive_slot.
Proof.
  intros T HA scripts npool nev tr s l2 e l1 Hwf Hr E. split.
  - intros o He. by apply (user_events_in_slot T HA scripts npool nev Hwf tr s Hr l2 e l1 o).
  - intros o -> Hn. destruct HA as [A1 A2 A3]. by eapply (log_exclusive T).
Qed.
Definition C08_3_result : Prop :=
  forall (T : ftables), all_cond T ->
  forall scripts npool nev tr s l2 e l1, ywf nev scripts -> run T (init scripts npool nev) tr = Some s -> s.(log) = l2 ++ e :: l1 ->
  (* the result of the SyncFuture (of its SchedulerFuture f) is delivered only after the slot job signalled it, with the slot job's
     value, after the user future completed, and never after a drop *)
  (forall f v o r, e = GResolve f v -> GYnew o f r ∈ l1 -> v = o /\ GSig f o ∈ l1 /\ GUFinish o ∈ l1 /\ GYdrop o ∉ l1) /\
  (* the slot job signals only after the user future completed, or the SyncFuture was dropped and a started user future destroyed *)
  (forall f v o r, e = GSig f v -> GYnew o f r ∈ l1 ->
     v = o /\ (GUFinish o ∈ l1 \/ GYdrop o ∈ l1) /\ (GUStart o ∈ l1 -> GUFinish o ∈ l1 \/ GUCancel o ∈ l1)) /\
  (* the user future starts and completes at most once, and completes only if it was started and not destroyed *)
  (forall o, e = GUFinish o -> GUStart o ∈ l1 /\ GUFinish o ∉ l1 /\ GUCancel o ∉ l1) /\
  (forall o, e = GUStart o -> GUStart o ∉ l1).
Lemma C08_3_main : C08_3_result.
Proof. intros T HA scripts npool nev tr s l2 e l1 Hwf Hr E. exact (result_after_completion T HA scripts npool nev Hwf tr s Hr l2 e l1 E). Qed.
Definition C08_4_clean_cancellation : Prop :=
  forall (T : ftables), all_cond T ->
  forall scripts npool nev tr s l2 e l1, ywf nev scripts -> run T (init scripts npool nev) tr = Some s -> s.(log) = l2 ++ e :: l1 ->
  (* after the drop the user future is neither created nor run *)
  (forall o, user_ev e = Some o -> GYdrop o ∉ l1) /\
  (* it is destroyed only if it was started and had not finished, at most once, and its destruction (which may run user destructors
     holding `&mut T`) lies inside the exclusive slot: the slot job has not passed done_recv *)
  (forall o, e = GUCancel o ->
     (exists la lb, l1 = la ++ GStart o :: lb /\ forall o', GStart o' ∉ la /\ GFinish o' ∉ la) /\
     GUStart o ∈ l1 /\ GUFinish o ∉ l1 /\ GUCancel o ∉ l1) /\
  (* the drop of task_finished comes once, not after completion, and after the user future is gone (field order of the code) *)
  (forall o, e = GYdrop o -> GYdrop o ∉ l1 /\ GUFinish o ∉ l1 /\ (GUStart o ∈ l1 -> GUCancel o ∈ l1)) /\
  (* when the slot job ends, the user future has finished or the SyncFuture was dropped, and a started user future is gone *)
  (forall o f r, e = GFinish o -> GYnew o f r ∈ l1 ->
     (GUFinish o ∈ l1 \/ GYdrop o ∈ l1) /\ (GUStart o ∈ l1 -> GUFinish o ∈ l1 \/ GUCancel o ∈ l1)).
Lemma C08_4_main : C08_4_clean_cancellation.
Proof. intros T HA scripts npool nev tr s l2 e l1 Hwf Hr E. exact (clean_cancellation T HA scripts npool nev Hwf tr s Hr l2 e l1 E). Qed.
(* dropping never blocks: the two drop steps of a SyncFuture are always enabled *)
Definition C08_4_drop_never_blocks : Prop :=
  forall (T : ftables) s a ac pc y st u rest, s.(actors) !! a = Some ac -> ac.(stack) = FY pc y st u :: rest ->
  pc = YPdrop1 \/ pc = YPdrop2 -> exists s', step T s a = Some s'.
Lemma C08_4_drop_never_blocks_main : C08_4_drop_never_blocks.
Proof.
  intros T s a ac pc y st u rest Ea Est Hpc. unfold step. rewrite Ea. cbn. rewrite Est.
  destruct Hpc as [-> | ->]; [destruct st|]; cbn; by eexists.
Qed.
(* (5) releases the queue, terminal form, at least one pool thread.  Only the EXTERNAL events are assumed fired: that the oneshot
   cells of every call are fired in the end (queue_ready sent, task_finished sent or dropped) is part of the conclusion *)
Definition C08_5_releases_the_queue : Prop :=
  forall (T : ftables), all_cond T ->
  forall scripts npool nev tr s, ywf nev scripts -> npool >= 1 -> run T (init scripts npool nev) tr = Some s -> terminal T s ->
  (forall e, e < nev -> (getev s e).(fired) = true) ->
  all_fired s /\ s.(qs) = Idle /\ s.(jobs) = [] /\ held s = [] /\
  (forall c st, stacks s !! c = Some st -> st = [FTop []] \/ st = [FPIdle]) /\
  (forall o f r, GYnew o f r ∈ s.(log) -> GStart o ∈ s.(log) /\ GFinish o ∈ s.(log) /\ (GUFinish o ∈ s.(log) \/ GYdrop o ∈ s.(log))).
Lemma C08_5_main : C08_5_releases_the_queue.
Proof. intros T HA scripts npool nev tr s. apply (futsync_releases_queue T HA). Qed.
(* (5) for ANY number of pool threads, ZERO included, and any callers: with only the external events fired, a terminal state has
   every actor done, or parked awaiting a SchedulerFuture (C04_sync_returns_full's case), or owning a SyncFuture whose slot job has
   not sent queue_ready yet (the queue never got to it); nobody is left inside sync, and no SyncFuture owner sleeps once its slot has
   begun *)
Definition C08_5_terminal_any_pool : Prop :=
  forall (T : ftables), all_cond T -> claim_cond T ->
  forall scripts npool nev tr s, ywf nev scripts -> run T (init scripts npool nev) tr = Some s -> terminal T s ->
  (forall e, e < nev -> (getev s e).(fired) = true) ->
  forall c st, stacks s !! c = Some st ->
  st = [FTop []] \/ st = [FPIdle] \/ (exists f rest, st = FPark f :: rest) \/
  (exists y b u rest, st = FY YPpark y (YQueue b) u :: rest /\ (getev s y.(y_r)).(fired) = false).
Lemma C08_5_terminal_any_pool_main : C08_5_terminal_any_pool.
Proof. intros T HA HC scripts npool nev tr s. apply (futsync_terminal_any_pool T HA HC). Qed.
(* a caller that never AWAITS a future to completion - future_sync polled n times and dropped, desync, sync, SchedulerFuture::sync,
   poll-and-drop, detach, fire - finishes its script with any pool size (zero included), whatever the other callers do; only the
   external events are assumed fired ([noawait]: see C04_noawait_caller_finishes, which needs every cell fired) *)
Definition C08_5_dropping_caller_finishes : Prop :=
  forall (T : ftables), all_cond T -> claim_cond T ->
  forall scripts npool nev tr s c sc, ywf nev scripts -> scripts !! c = Some sc -> noawait sc ->
  run T (init scripts npool nev) tr = Some s -> terminal T s -> (forall e, e < nev -> (getev s e).(fired) = true) ->
  stacks s !! c = Some [FTop []].
Lemma C08_5_dropping_caller_finishes_main : C08_5_dropping_caller_finishes.
Proof.
  intros T HA HC scripts npool nev tr s c sc Hwf Hsc Hn. apply (dropping_caller_finishes T HA HC scripts npool nev tr s c sc Hwf Hsc). by apply noawait_b.
Qed.
