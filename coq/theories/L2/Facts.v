(* The order facts of Model.v ([ffacts], [stepF]): with the code's facts the parametrised model IS the model every theorem of this
   layer is about. *)
From stdpp Require Import list numbers option.
From RecordUpdate Require Import RecordUpdate.
From L2 Require Import Model.

Lemma stepF_code T s a : stepF code_ffacts T s a = step T s a.
Proof.
  unfold stepF. destruct (actors s !! a) as [ac|] eqn:Ea; [|unfold step; by rewrite Ea].
  destruct (stack ac) as [|fr rest] eqn:Est; [done|]. destruct fr; try done; [by destruct w|by destruct pc].
Qed.
Lemma runF_code T tr : forall s, runF code_ffacts T s tr = run T s tr.
Proof.
  unfold runF, run. assert (H : forall os, foldl (fun os a => o ← os; stepF code_ffacts T o a) os tr = foldl (fun os a => o ← os; step T o a) os tr).
  { induction tr as [|a tr IH]; [done|]. intros os. cbn. rewrite <- IH. f_equal. destruct os as [o|]; cbn; [apply stepF_code|done]. }
  intros s. apply H.
Qed.
Lemma terminalF_code T s : terminalF code_ffacts T s <-> terminal T s.
Proof. unfold terminalF, terminal. split; intros H a; [rewrite <- stepF_code|rewrite stepF_code]; apply H. Qed.
Print Assumptions stepF_code.
Print Assumptions runF_code.
Print Assumptions terminalF_code.
