(* the generated tables meet the ownership conditions *)
From stdpp Require Import list numbers option.
From L2 Require Import Model Base Own Inst.
From Gen Require Import Tables.

Lemma gen_own_cond : own_cond gen_ftables.
Proof.
  split; cbn.
  - intros st st' act H. destruct st; inversion H; subst; unfold keeps; cbn; intuition congruence.
  - intros st ne st' p H. destruct st, ne; inversion H; subst; unfold keeps; cbn; intuition congruence.
  - intros st st' c H. destruct st; inversion H; subst; unfold keeps; cbn; intuition congruence.
  - intros st. destruct st; unfold keeps; cbn; intuition congruence.
  - intros st e st' act H. destruct st, e; inversion H; subst; cbn; intuition congruence.
  - intros f st st' act H. destruct st; cbn in H; try (inversion H; subst; cbn; intuition congruence).
    destruct (f0 =? f); inversion H; subst; cbn; intuition congruence.
  - intros st st' H. destruct st; inversion H; subst; cbn; intuition congruence.
  - intros st Ho Hn. destruct st; cbn in *; try congruence; intuition congruence.
  - intros st e st' d Ho Hn H. destruct st, e; cbn in *; try congruence; inversion H; subst; cbn; intuition congruence.
  - intros st Ho Hn. destruct st; cbn in *; try congruence; eexists; (split; [reflexivity|done]).
  - intros st Ho. destruct st; cbn in *; congruence.
  - intros st H. destruct st; cbn in *; congruence.
Qed.

From L2 Require Import Jobs.
Lemma gen_jobs_cond : jobs_cond gen_ftables.
Proof. split; cbn. intros st e st' H. by destruct st, e. Qed.
