(* a small shape invariant: above the runner's marker frame there are only waker-call frames; hence when the top of a stack
   is neither a waker-call frame nor a marker, that actor is not the runner *)
From stdpp Require Import list numbers option.
From RecordUpdate Require Import RecordUpdate.
From L2 Require Import Model Base Own.
#[global] Unset Lia Cache.

Definition chain (fr : frame) : bool := match fr with FWake _ | FUnpark _ | FRQ1 | FRQ2 => true | _ => false end.
Fixpoint below (st : list frame) : list frame :=      (* what lies below the first non-chain frame *)
  match st with [] => [] | fr :: r => if chain fr then below r else r end.
Definition toponly (fr : frame) : bool := match fr with FD1 _ | FD2 | FWakeWith _ _ => true | _ => false end.
(* no marker and no waker-call frame below the first frame that is not a waker call; FD2 / FWakeWith only on top *)
Definition mshape (st : list frame) : Prop :=
  cntf marker (below st) = 0 /\ cntf chain (below st) = 0 /\ cntf toponly (tail st) = 0.
Definition Inv_shape (s : state) : Prop := forall c st, stacks s !! c = Some st -> mshape st.

Lemma below_chain pre st : forallb chain pre = true -> below (pre ++ st) = below st.
Proof. induction pre as [|x pre IH]; cbn; [done|]. intros [H1 H2]%andb_true_iff. rewrite H1. by apply IH. Qed.
Lemma below_le P st : cntf P (below st) <= cntf P st.
Proof. induction st as [|x st IH]; cbn; [lia|]. destruct (chain x); destruct (P x); lia. Qed.
Lemma toponly_chain pre st : forallb chain pre = true -> cntf toponly (tail st) = 0 -> cntf toponly (below st) = 0 ->
  cntf toponly (tail (pre ++ st)) <= cntf toponly st.
Proof.
  intros H. destruct pre as [|x pre]; cbn; [intros; destruct st; cbn in *; lia|]. intros _ _.
  apply andb_true_iff in H as [_ H]. rewrite cntf_app. assert (cntf toponly pre = 0); [|lia].
  clear -H. induction pre as [|y pre IH]; cbn in *; [done|]. apply andb_true_iff in H as [H1 H2]. rewrite IH by done. by destruct y.
Qed.
Lemma chain_wake_frames ws : forallb chain (wake_frames ws) = true.
Proof. induction ws as [|w ws IH]; [done|]. exact IH. Qed.
Lemma chain_opt_wake ow : forallb chain (opt_wake ow) = true. Proof. by destruct ow. Qed.

Lemma shape_update s s' a old new :
  Inv_shape s -> stacks s !! a = Some old -> stacks s' = <[a := new]> (stacks s) -> (mshape old -> mshape new) -> Inv_shape s'.
Proof.
  intros HI Ha Hs Hn c st Hc. rewrite Hs in Hc. destruct (decide (c = a)) as [->|Hne].
  - rewrite list_lookup_insert in Hc by (by eapply lookup_lt_Some). injection Hc as <-. apply Hn. by eapply HI.
  - rewrite list_lookup_insert_ne in Hc by done. by eapply HI.
Qed.

Section Pres.
  Context (T : ftables).
  Lemma step_shape s a s' : Inv_shape s -> step T s a = Some s' -> Inv_shape s'.
  Proof.
    intros HI Hstep. step_split Hstep Ea Est.
    all: try discriminate Hstep.
    all: injection Hstep as <-.
    all: pop_cont_split.
    all: pose proof (stacks_lookup _ _ _ Ea) as Hst; rewrite Est in Hst.
    all: eapply (shape_update s _ a _ _ HI Hst); [solve_stacks|].
    all: try match goal with k : kont |- _ => destruct k end.
    all: match goal with Hst : stacks _ !! _ = Some (_ :: ?r) |- _ =>
           pose proof (below_le marker r) as B1; pose proof (below_le chain r) as B2; pose proof (below_le toponly r) as B3;
           assert (B4 : cntf toponly (tail r) <= cntf toponly r) by
             (destruct r as [|? ?]; cbn; [lia|]; match goal with |- _ <= (if ?b then _ else _) + _ => destruct b; lia end) end.
    all: try match goal with Hst : stacks _ !! _ = Some (_ :: _ :: ?r2) |- _ =>
           pose proof (below_le marker r2) as C1; pose proof (below_le chain r2) as C2; pose proof (below_le toponly r2) as C3;
           assert (C4 : cntf toponly (tail r2) <= cntf toponly r2) by
             (destruct r2 as [|? ?]; cbn; [lia|]; match goal with |- _ <= (if ?b then _ else _) + _ => destruct b; lia end) end.
    all: unfold mshape; cbn; intros (H1 & H2 & H3).
    all: try (repeat split; lia).
    (* opt_wake / wake_frames prefixes *)
    all: try (rewrite !below_chain by (first [apply chain_wake_frames|apply chain_opt_wake]); cbn).
    all: try (match goal with |- context [tail (?pre ++ ?st)] =>
              pose proof (toponly_chain pre st ltac:(first [apply chain_wake_frames|apply chain_opt_wake])) as B5; cbn in B5 end).
    all: try (repeat split; lia).
    all: destruct (getdw s d) as [? [w'|]]; injection E as <- <-; cbn in *; repeat split; lia.
  Qed.
End Pres.

Lemma init_shape scripts npool nev : Inv_shape (init scripts npool nev).
Proof.
  intros c st Hc. unfold stacks, init in Hc; cbn in Hc. rewrite list_lookup_fmap in Hc.
  destruct (decide (c < length scripts)).
  - rewrite lookup_app_l in Hc by (by rewrite fmap_length). rewrite list_lookup_fmap in Hc.
    destruct (scripts !! c); cbn in Hc; [|done]. by injection Hc as <-.
  - rewrite lookup_app_r in Hc by (rewrite fmap_length; lia).
    destruct (replicate npool (mk_actor [FPIdle]) !! (c - length ((λ sc : list cop, mk_actor [FTop sc]) <$> scripts))) eqn:E; cbn in Hc; [|done].
    apply lookup_replicate in E as [-> _]. by injection Hc as <-.
Qed.

(* the use: a stack whose top is neither a waker-call frame nor a marker carries no marker at all *)
Lemma shape_top_plain s a fr rest : Inv_shape s -> stacks s !! a = Some (fr :: rest) -> chain fr = false -> cntf marker rest = 0.
Proof. intros HI Ha Hc. destruct (HI a _ Ha) as [H _]. cbn in H. by rewrite Hc in H. Qed.
