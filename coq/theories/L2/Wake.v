(* C06: a wake-up for a suspended future operation is never lost.  Definitions of the invariant (boolean, so that it can be
   tested on concrete runs) *)
From stdpp Require Import list numbers option.
From RecordUpdate Require Import RecordUpdate.
From L2 Require Import Model Base Own Jobs.
#[global] Unset Lia Cache.

#[export] Instance waker_eq_dec : EqDecision waker. Proof. solve_decision. Defined.
#[export] Instance fprim_eq_dec : EqDecision fprim. Proof. solve_decision. Defined.
#[export] Instance jstate_eq_dec : EqDecision jstate. Proof. solve_decision. Defined.
#[export] Instance job_eq_dec : EqDecision job. Proof. solve_decision. Defined.
#[export] Instance fuse_eq_dec : EqDecision fuse. Proof. solve_decision. Defined.
#[export] Instance cop_eq_dec : EqDecision cop. Proof. solve_decision. Defined.
#[export] Instance kont_eq_dec : EqDecision kont. Proof. solve_decision. Defined.
#[export] Instance ystate_eq_dec : EqDecision ystate. Proof. solve_decision. Defined.
#[export] Instance ypc_eq_dec : EqDecision ypc. Proof. solve_decision. Defined.
#[export] Instance ydat_eq_dec : EqDecision ydat. Proof. solve_decision. Defined.
#[export] Instance frame_eq_dec : EqDecision frame. Proof. solve_decision. Defined.

Definition posb (n : nat) : bool := match n with 0 => false | S _ => true end.
Definition is_wake (w : waker) (fr : frame) : bool := match fr with FWake w' => bool_decide (w' = w) | _ => false end.
Definition is_unpark (c : nat) (fr : frame) : bool := match fr with FUnpark c' => bool_decide (c' = c) | _ => false end.
Definition is_rq1 (fr : frame) : bool := match fr with FRQ1 => true | _ => false end.
Definition is_push (fr : frame) : bool := match fr with FRQ2 | FD2 => true | _ => false end.

(* e is not fired and w is registered with it *)
Definition unfreg (s : state) (e : nat) (w : waker) : bool :=
  negb (getev s e).(fired) && bool_decide (w ∈ (getev s e).(wakers)).
(* calling w (now) ends in WakeQueue.wake: directly, through a DrainWaker that holds it, through a DoubleWaker *)
Definition dbl_q (s : state) (k : nat) : bool := match getdbl s k with Some (WQueue, _) => true | _ => false end.
Definition effw (s : state) (w : waker) : bool := match w with WQueue => true | WDouble k => dbl_q s k | _ => false end.
Definition effq (s : state) (w : waker) : bool :=
  match w with
  | WDrain d => match getdw s d with (DWWillWake, Some w') => effw s w' | _ => false end
  | _ => effw s w
  end.
Definition dw_woken (s : state) (d : nat) : bool := match (getdw s d).1 with DWWoken => true | _ => false end.
(* the wake-up of DrainWaker d is guaranteed (before wake_with has been called) *)
Definition gd (s : state) (e d : nat) : bool := unfreg s e (WDrain d) || posb (np (is_wake (WDrain d)) s) || dw_woken s d.
Definition gq (s : state) (e : nat) : bool := unfreg s e WQueue || posb (np (is_wake WQueue) s).
Definition gt (s : state) (c e : nat) : bool := unfreg s e (WThread c) || posb (np (is_wake (WThread c)) s).

(* some frame of some actor satisfies f *)
Definition exf (f : frame -> bool) (s : state) : bool := existsb (existsb f) (stacks s).
(* some wake-up that reaches WakeQueue is registered with e (unfired), or in flight, or about to be installed by wake_with *)
Definition cfr (s : state) (e : nat) (fr : frame) : bool :=
  match fr with FWake w => effq s w | FWakeWith d w => effw s w && gd s e d | _ => false end.
Definition cover (s : state) (e : nat) : bool :=
  (negb (getev s e).(fired) && existsb (effq s) (getev s e).(wakers)) || exf (cfr s e) s.

Definition hsusp (s : state) : option nat := match s.(jobs) with j :: _ => susp j | [] => None end.
Definition awoken (s : state) : bool := match s.(qs) with AwokenWhileRunning => true | _ => false end.
Definition tokb (s : state) (c : nat) : bool := default false (toks s !! c).
(* the context waker a job is polled with *)
Definition ctxw (c : nat) (k : kont) : waker := match k with KDrain => WQueue | KRoj => WThread c | KDq f d => WDrain d end.
(* the obligation attached to a frame of actor c *)
Definition frame_ok (s : state) (c : nat) (fr : frame) : bool :=
  match fr with
  | FDRrequeue j => match susp j with Some e => awoken s || gq s e | None => false end
  | FDRpend => match hsusp s with Some e => awoken s || gq s e | None => false end
  | FROpend j => match susp j with Some e => awoken s || gt s c e | None => false end
  | FROcheck j => match susp j with Some e => if is_wfu s.(qs) then gt s c e else true | None => false end
  | FROpark j => match susp j with
                 | Some e => if is_wfu s.(qs) then gt s c e else tokb s c || posb (np (is_unpark c) s) || gt s c e
                 | None => false end
  | FDQrequeue f d j => match susp j with Some e => gd s e d | None => false end
  | FDQtake2 f d | FDQwfw f d | FDQstore f d | FDQwfp f d => match hsusp s with Some e => gd s e d | None => false end
  | FJob j w k => bool_decide (w = ctxw c k)
  | _ => true
  end.
Definition frames_ok (s : state) : bool :=
  forallb (fun '(c, st) => forallb (frame_ok s c) st) (imap (fun c st => (c, st)) (stacks s)).
(* the obligation attached to the queue state when nobody runs the queue *)
Definition queue_ok (s : state) : bool :=
  match s.(qs) with
  | WaitingForWake => match hsusp s with Some e => cover s e | None => false end
  | WaitingForPoll f =>
      match hsusp s with Some e => cover s e || posb (np is_rq1 s) || posb (np is_push s) || posb s.(insched) | None => false end
  | Idle => match s.(jobs) with
            | [] => true
            | _ => posb (np is_rq1 s) || match hsusp s with Some e => cover s e | None => false end
            end
  | Pending => posb (np is_push s + s.(insched))
  | _ => true
  end.
Definition wake_ok (s : state) : bool := frames_ok s && queue_ok s.
