(* C08: preservation of the frame / job clauses of Inv_y *)
From stdpp Require Import list numbers option.
From RecordUpdate Require Import RecordUpdate.
From L2 Require Import Model Base Own Jobs Fut Sig YDefs YMono YStep1.
#[global] Unset Lia Cache.

(* the consumer of a future is unique: no second consumer frame below it or in another stack *)
Lemma consumer_unique s a fr0 rest f : Inv_fut s -> stacks s !! a = Some (fr0 :: rest) -> wf f fr0 = true ->
  forall c st fr, stacks s !! c = Some st -> fr ∈ st -> (c <> a \/ fr ∈ rest) -> wf f fr = false.
Proof.
  intros HF Ha Hw c st fr Hc Hin Hpos. destruct (wf f fr) eqn:E; [exfalso|done].
  pose proof (if_one _ HF f) as H1. unfold tot in H1. assert (Hle : np (wf f) s <= 1) by lia. clear H1.
  assert (Hp : cntf (wf f) st > 0) by (apply cntf_pos; by exists fr).
  destruct (decide (c = a)) as [->|Hne].
  - rewrite Ha in Hc. injection Hc as <-. destruct Hpos as [?|Hr]; [done|].
    assert (cntf (wf f) rest > 0) by (apply cntf_pos; by exists fr).
    pose proof (npl_ge (wf f) _ _ _ Ha) as Hg. cbn [cntf] in Hg. rewrite Hw in Hg. unfold np in Hle. lia.
  - pose proof (np_upd (wf f) s (setstack s a []) a _ [] Ha ltac:(by rewrite stacks_setstack)) as Hu. cbn [cntf] in Hu. rewrite Hw in Hu.
    assert (Hc' : stacks (setstack s a []) !! c = Some st) by (by rewrite stacks_setstack, list_lookup_insert_ne).
    pose proof (npl_ge (wf f) _ _ _ Hc') as Hg. unfold np in *. lia.
Qed.

(* two SyncFuture frames of the same call: the same SchedulerFuture *)
Lemma triple_eq nev s t t' : Inv_y nev s -> t ∈ Ys s -> t' ∈ Ys s -> (t.1.1 = t'.1.1 \/ t.1.2 = t'.1.2 \/ t.2 = t'.2) -> t = t'.
Proof.
  intros HY H1 H2 He. destruct (ysorted_sep _ (y_sorted _ _ HY) _ _ H1 H2) as [?|[?|?]]; [done|lia|lia].
Qed.
Lemma triple_cells nev s t t' : Inv_y nev s -> t ∈ Ys s -> t' ∈ Ys s -> S t.2 <> t'.2.
Proof.
  intros HY H1 H2 He. destruct (ysorted_sep _ (y_sorted _ _ HY) _ _ H1 H2) as [?|[?|?]]; [subst; lia|lia|lia].
Qed.

(* the frames a step does not touch stay fine when the step fires no cell and logs no user-future event *)
Definition fsame (s s' : state) : Prop := forall e, firedP s' e -> firedP s e.
Definition lsame (s s' : state) : Prop := forall e, e ∈ s'.(log) -> e ∈ s.(log) \/ yev_of e = None.
Lemma frok_quiet nev s s' fr : Inv_y nev s -> ext s s' -> fsame s s' -> lsame s s' -> frok nev s fr -> frok nev s' fr.
Proof.
  intros HY X Hf Hl. apply (frok_ext nev s s' X); [intros o f r Hin; by destruct (y_rng _ _ HY _ _ _ Hin) as (_ & _ & _ & ?)|].
  intros pc y st u _. split; [apply Hf|]. intros e He Hin. destruct (Hl _ Hin) as [?|Hn]; [done|]. by rewrite Hn in He.
Qed.

Lemma yfr_update nev s s' a fr0 rest new :
  stacks s !! a = Some (fr0 :: rest) -> stacks s' = <[a := new]> (stacks s) ->
  (forall c st fr, stacks s !! c = Some st -> fr ∈ st -> frok nev s fr) ->
  (forall c st fr, stacks s !! c = Some st -> fr ∈ st -> (c <> a \/ fr ∈ rest) -> frok nev s fr -> frok nev s' fr) ->
  (forall fr, fr ∈ new -> fr ∈ rest \/ frok nev s' fr) ->
  forall c st fr, stacks s' !! c = Some st -> fr ∈ st -> frok nev s' fr.
Proof.
  intros Ha Hs HI Hold Hnew c st fr Hc Hin. rewrite Hs in Hc. destruct (decide (c = a)) as [->|Hne].
  - rewrite list_lookup_insert in Hc by (by eapply lookup_lt_Some). injection Hc as <-.
    destruct (Hnew _ Hin) as [Hr|?]; [|done]. apply (Hold a _ fr Ha); [by right|by right|]. apply (HI a _ fr Ha). by right.
  - rewrite list_lookup_insert_ne in Hc by done. apply (Hold c st fr Hc Hin); [by left|by eapply HI].
Qed.

Lemma fired_insert_back (L : list evcell) e0 c e : fired (default ev0 (<[e0 := c]> L !! e)) = true ->
  (fired c = true -> fired (default ev0 (L !! e0)) = true) -> fired (default ev0 (L !! e)) = true.
Proof.
  intros H Hc. destruct (decide (e = e0)) as [->|Hne]; [|by rewrite list_lookup_insert_ne in H].
  destruct (decide (e0 < length L)); [rewrite list_lookup_insert in H by done; by apply Hc|by rewrite list_insert_ge in H by lia].
Qed.
Lemma fired_app_back (L L2 : list evcell) e : fired (default ev0 ((L ++ L2) !! e)) = true -> fired (default ev0 (L !! e)) = true.
Proof. destruct (decide (e < length L)); [by rewrite lookup_app_l|]. by rewrite (lookup_ge_None_2 L) by lia. Qed.
Lemma frok_wake_frames nev s ws fr : fr ∈ wake_frames ws -> frok nev s fr.
Proof. unfold wake_frames. intros (w & -> & _)%elem_of_list_fmap. done. Qed.
Lemma frok_opt_wake nev s o fr : fr ∈ opt_wake o -> frok nev s fr.
Proof. destruct o; cbn; [intros ->%elem_of_list_singleton; done|by intros ?%elem_of_nil]. Qed.

Lemma yfrok_pc nev s pc pc' y st : pc <> YPfin -> pc' <> YPfin -> pc <> YPdrop2 -> pc' <> YPdrop2 ->
  yfrok nev s pc y st -> yfrok nev s pc' y st.
Proof.
  intros N1 N2 N3 N4 (H1 & H2 & H3 & H4 & H5 & H6 & H7 & H8). repeat split; try tauto.
  all: try (intros ?%H5; done). all: try (intros ?%H6; tauto). all: try done. all: intros [? ?]; done.
Qed.

Ltac try_fsame s s' :=
  assert (Hfs : fsame s s') by
    (intros ?e0 ?He; unfold firedP, getev in *; cbn in He |- *;
     repeat (first [ exact He | exact (fired_app_back _ _ _ He)
                   | apply fired_insert_back in He; [|cbn; first [intros H; exact H | done] ] ])).
Ltac try_lsame s s' :=
  assert (Hls : lsame s s') by
    (intros ?e0 ?He; cbn in He; rewrite ?elem_of_cons in He;
     repeat (destruct He as [->|He]; [right; reflexivity|]); left; exact He).

(* ---------- helper facts for the single cases ---------- *)
Lemma yev_known nev s e o : Inv_y nev s -> e ∈ s.(log) -> yev_of e = Some o -> exists f r, (o, f, r) ∈ Ys s.
Proof.
  intros HY Hin He. destruct (logall_in _ _ _ (y_log _ _ HY) Hin) as (l2 & l1 & El & Hok).
  assert (Hc : ycall o l1) by (destruct e; try discriminate He; cbn in He; injection He as ->; cbn in Hok; tauto).
  destruct Hc as (f & r & Hc). exists f, r. apply ynews_in. rewrite El. apply elem_of_app. right. by right.
Qed.
Lemma noy_fresh nev s s' o : Inv_y nev s -> Ys s' = Ys s -> s.(nextop) <= o -> noy s' o.
Proof. intros HY E Ho f r Hin. rewrite E in Hin. destruct (y_rng _ _ HY _ _ _ Hin) as (? & _). lia. Qed.
Lemma nof_fresh nev s s' f : Inv_y nev s -> Ys s' = Ys s -> length s.(futs) <= f -> forall o r, (o, f, r) ∉ Ys s'.
Proof. intros HY E Hf o r Hin. rewrite E in Hin. destruct (y_rng _ _ HY _ _ _ Hin) as (_ & ? & _). lia. Qed.
Lemma plain_usrp nev s p : plainp nev p = true -> usrp nev s p.
Proof. by destruct p. Qed.
Lemma plain_usrp_all nev s b : forallb (plainp nev) b = true -> Forall (usrp nev s) b.
Proof. intros H. apply Forall_forall. intros p Hp. apply plain_usrp. rewrite forallb_forall in H. apply H. first [done|by apply elem_of_list_In]. Qed.
Lemma jobok_start nev s op sc : jobok nev s (JFut op NotCreated sc) -> jobok nev s (JFut op Waiting sc).
Proof.
  intros [H1 [H2 H3]]. split; [done|]. split; [|done]. intros f r Hin. destruct (H2 _ _ Hin) as [?|[? _]]; [by left|done].
Qed.
Lemma jobok_tail nev s op p l : (forall e, p = PAwaitDone e -> firedP s e) -> (forall e, p = PSendReady e -> firedP s e) ->
  jobok nev s (JFut op Waiting (p :: l)) -> jobok nev s (JFut op Waiting l).
Proof.
  intros Hp Hq [H1 [H2 H3]]. split; [done|]. split.
  - intros f r Hin. right. split; [done|]. destruct (H2 _ _ Hin) as [E|[_ [Hr [E|[Hf [E|E]]]]]]; try discriminate E.
    + injection E as -> ->. split; [by apply Hq|by left].
    + injection E as -> ->. split; [done|]. right. split; [by apply Hp|by left].
    + injection E as -> ->. split; [done|]. right. split; [done|by right].
  - intros Hn. specialize (H3 Hn). by inversion H3.
Qed.
(* frames a step does not touch, when the step fires cell F and logs the events N *)
Lemma frok_other nev s s' fr F (N : list gev) : Inv_y nev s -> ext s s' ->
  (forall e, firedP s' e -> firedP s e \/ e = F) -> (forall e, e ∈ s'.(log) -> e ∈ s.(log) \/ e ∈ N) ->
  (forall pc y st u, fr = FY pc y st u -> S y.(y_r) <> F /\ forall e, e ∈ N -> yev_of e <> Some y.(y_op)) ->
  frok nev s fr -> frok nev s' fr.
Proof.
  intros HY X Hf Hl Hfy. apply (frok_ext nev s s' X); [intros o f r Hin; by destruct (y_rng _ _ HY _ _ _ Hin) as (_ & _ & _ & ?)|].
  intros pc y st u E. destruct (Hfy _ _ _ _ E) as [H1 H2]. split.
  - intros H. by destruct (Hf _ H).
  - intros e He Hin. destruct (Hl _ Hin) as [?|Hn]; [done|]. by destruct (H2 _ Hn).
Qed.
(* another SyncFuture frame belongs to another call *)
Lemma fy_other nev s a pc0 y0 st0 u0 rest : Inv_fut s -> Inv_y nev s -> stacks s !! a = Some (FY pc0 y0 st0 u0 :: rest) ->
  forall c st fr pc y st' u, stacks s !! c = Some st -> fr ∈ st -> (c <> a \/ fr ∈ rest) -> fr = FY pc y st' u ->
  y.(y_op) <> y0.(y_op) /\ y.(y_r) <> y0.(y_r).
Proof.
  intros HF HY Ha c st fr pc y st' u Hc Hin Hpos ->.
  pose proof (consumer_unique s a _ rest y0.(y_f) HF Ha ltac:(cbn; by apply bool_decide_eq_true) c st _ Hc Hin Hpos) as Hw.
  cbn in Hw. apply bool_decide_eq_false in Hw.
  destruct (y_frames _ _ HY a _ _ Ha ltac:(left)) as (T0 & _). destruct (y_frames _ _ HY c _ _ Hc Hin) as (T1 & _).
  split; intros E; apply Hw; by pose proof (triple_eq nev s _ _ HY T1 T0 ltac:(cbn; auto)) as [= _ ? _].
Qed.
Lemma firedP_fire s e0 e : firedP (setev s e0 {| fired := true; wakers := [] |}) e <-> firedP s e \/ e = e0.
Proof.
  unfold firedP, getev, setev; cbn. destruct (decide (e = e0)) as [->|Hne]; [|rewrite list_lookup_insert_ne by done; tauto].
  destruct (decide (e0 < length (evs s))).
  - rewrite list_lookup_insert by done. cbn. tauto.
  - rewrite list_insert_ge by lia. rewrite lookup_ge_None_2 by lia. cbn. tauto.
Qed.
Lemma firedP_setev_ne s e0 c e : e <> e0 -> firedP (setev s e0 c) e <-> firedP s e.
Proof. intros H. unfold firedP, getev, setev; cbn. by rewrite list_lookup_insert_ne. Qed.
Lemma jobok_new_user nev s s' sc : Inv_y nev s -> Ys s' = Ys s -> s'.(nextop) = S s.(nextop) -> Forall (usrp nev s') sc ->
  jobok nev s' (JFut s.(nextop) NotCreated sc).
Proof.
  intros HY E En Hsc. split; [cbn; lia|]. split; [|done]. intros f r Hin. exfalso. by eapply (noy_fresh nev s s' _ HY E (le_n _)).
Qed.
Lemma usrp_sig_fresh nev s s' f : Inv_y nev s -> Ys s' = Ys s -> length s.(futs) <= f < length s'.(futs) -> usrp nev s' (PSignal f).
Proof. intros HY E Hf. split; [lia|]. eapply nof_fresh; [exact HY|exact E|lia]. Qed.
Lemma futok_fresh nev s s' f : Inv_y nev s -> Ys s' = Ys s -> length s.(futs) <= f < length s'.(futs) -> futok s' f.
Proof. intros HY E Hf. split; [lia|]. intros o r Hin. exfalso. eapply nof_fresh; [exact HY|exact E| |exact Hin]. lia. Qed.
Lemma frok_top_tail nev s s' o l : frok nev s (FTop (o :: l)) -> frok nev s' (FTop l).
Proof. cbn. by intros [_ ?]%andb_true_iff. Qed.

Lemma yev_fresh nev s e o : Inv_y nev s -> s.(nextop) <= o -> yev_of e = Some o -> e ∉ s.(log).
Proof. intros HY Ho He Hin. destruct (yev_known nev s e o HY Hin He) as (f & r & Ht). destruct (y_rng _ _ HY _ _ _ Ht) as (? & _). lia. Qed.
Lemma fired_new_cell (L : list evcell) k : k < 2 -> fired (default ev0 ((L ++ [ev_new; ev_new]) !! (length L + k))) = false.
Proof. intros Hk. rewrite lookup_app_r by lia. replace (length L + k - length L) with k by lia. by destruct k as [|[|k]]; [..|lia]. Qed.

Lemma ydec (Y : list triple) o : (exists f r, (o, f, r) ∈ Y) \/ (forall f r, (o, f, r) ∉ Y).
Proof.
  induction Y as [|[[o' f'] r'] Y IH]; [right; intros f r H; by apply elem_of_nil in H|].
  destruct (decide (o' = o)) as [->|Hne]; [left; exists f', r'; left|].
  destruct IH as [(f & r & H)|H]; [left; exists f, r; by right|right].
  intros f r [[= ? _ _]|Hin]%elem_of_cons; [done|by eapply H].
Qed.
(* a job at send(queue_ready) / poll(done_recv) / signal of a SyncFuture's future is the slot job of a call *)
Lemma slot_job_ready nev s op r l : jobok nev s (JFut op Waiting (PSendReady r :: l)) ->
  exists f, (op, f, r) ∈ Ys s /\ l = [PAwaitDone (S r); PSignal f].
Proof.
  intros [_ [H2 H3]]. destruct (ydec (Ys s) op) as [(f & r' & Hin)|Hn].
  - destruct (H2 _ _ Hin) as [E|[_ [_ [E|[_ [E|E]]]]]]; try discriminate E. injection E as -> ->. by exists f.
  - specialize (H3 Hn). inversion H3 as [|? ? Hp _]. discriminate Hp.
Qed.
Lemma slot_job_done nev s op d l : jobok nev s (JFut op Waiting (PAwaitDone d :: l)) ->
  exists f r, (op, f, r) ∈ Ys s /\ d = S r /\ l = [PSignal f].
Proof.
  intros [_ [H2 H3]]. destruct (ydec (Ys s) op) as [(f & r' & Hin)|Hn].
  - destruct (H2 _ _ Hin) as [E|[_ [_ [E|[_ [E|E]]]]]]; try discriminate E. injection E as -> ->. by exists f, r'.
  - specialize (H3 Hn). inversion H3 as [|? ? Hp _]. discriminate Hp.
Qed.
Lemma slot_job_sig nev s op f l : Inv_y nev s -> jobok nev s (JFut op Waiting (PSignal f :: l)) -> forall o r, (o, f, r) ∈ Ys s ->
  o = op /\ l = [] /\ firedP s (S r).
Proof.
  intros HY [_ [H2 H3]] o r Ht. destruct (ydec (Ys s) op) as [(f' & r' & Hin)|Hn].
  - destruct (H2 _ _ Hin) as [E|[_ [_ [E|[Hf [E|E]]]]]]; try discriminate E. injection E as -> ->.
    pose proof (triple_eq nev s _ _ HY Ht Hin ltac:(cbn; auto)) as [= -> ->]. done.
  - specialize (H3 Hn). inversion H3 as [|? ? Hp _]. cbn in Hp. destruct Hp as [_ Hp]. by destruct (Hp o r).
Qed.

(* a step of the SyncFuture frame on top of a's stack that fires at most its own done cell and logs only events of its own call *)
Lemma fy_step_frames nev s s' a pc0 y st0 u0 rest new : Inv_fut s -> Inv_y nev s -> ext s s' ->
  stacks s !! a = Some (FY pc0 y st0 u0 :: rest) -> stacks s' = <[a := new]> (stacks s) ->
  (forall e, firedP s' e -> firedP s e \/ e = S y.(y_r)) ->
  (forall e, e ∈ s'.(log) -> e ∈ s.(log) \/ yev_of e = Some y.(y_op)) ->
  (forall fr, fr ∈ new -> fr ∈ rest \/ frok nev s' fr) ->
  forall c st fr, stacks s' !! c = Some st -> fr ∈ st -> frok nev s' fr.
Proof.
  intros HF HY X Ha Hs Hf Hl Hnew. eapply (yfr_update nev s s' a _ _ _ Ha Hs (y_frames _ _ HY)); [|exact Hnew].
  intros c st fr Hc Hin Hpos. apply (frok_ext nev s s' X); [intros o f r Ht; by destruct (y_rng _ _ HY _ _ _ Ht) as (_ & _ & _ & ?)|].
  intros pc y' st' u' ->. destruct (fy_other nev s a _ _ _ _ _ HF HY Ha c st _ _ _ _ _ Hc Hin Hpos eq_refl) as [No Nr]. split.
  - intros H. destruct (Hf _ H) as [?|E]; [done|]. exfalso. apply Nr. lia.
  - intros e He H. destruct (Hl _ H) as [?|E]; [done|]. exfalso. apply No. congruence.
Qed.
(* the SyncFuture frame after a step that logs one event of its call *)
Lemma yfrok_log nev s s' pc pc' y st st' ev : Ys s' = Ys s -> (forall e, firedP s' e <-> firedP s e) -> s'.(log) = ev :: s.(log) ->
  yev_of ev = Some y.(y_op) -> ev <> GYdrop y.(y_op) -> yfrok nev s pc y st ->
  (isYF st' <-> isYF st \/ ev = GUStart y.(y_op)) ->
  (pc' = YPfin <-> pc = YPfin \/ ev = GUFinish y.(y_op)) ->
  ((pc' = YPdrop2 /\ isYF st') <-> (pc = YPdrop2 /\ isYF st) \/ ev = GUCancel y.(y_op)) ->
  (isYF st' -> firedP s' y.(y_r)) -> forallb (plainp nev) (ybody st') = true -> yfrok nev s' pc' y st'.
Proof.
  intros EY Ef El Hev Hnd (H1 & H2 & H3 & H4 & H5 & H6 & H7 & H8) C1 C2 C3 C4 C5. unfold yfrok. rewrite EY, El, !elem_of_cons, Ef.
  split; [done|]. split; [done|]. split; [intros [?|?]; [congruence|done]|].
  split; [rewrite H4, C1; split; (intros [?|?]; [by right|by left])|].
  split; [rewrite H5, C2; split; (intros [?|?]; [by right|by left])|].
  split; [rewrite H6, C3; split; (intros [?|?]; [by right|by left])|]. done.
Qed.

Section FJ.
  Context (nev : nat) (T : ftables).
  Lemma step_y_fj s a s' : Inv_own s -> Inv_jobs s -> Inv_fut s -> Inv_sig s -> Inv_y nev s -> step T s a = Some s' ->
    (forall c st fr, stacks s' !! c = Some st -> fr ∈ st -> frok nev s' fr) /\ (forall j, j ∈ jobs s' -> jobok nev s' j).
  Proof.
    intros HO HJ HF HS HY Hstep. pose proof (step_ext T _ _ _ Hstep) as X.
    pose proof (step_y_rng nev T _ _ _ HY Hstep) as (R1 & R2 & R3).
    step_split Hstep Ea Est.
    all: try discriminate Hstep.
    all: injection Hstep as <-.
    all: pop_cont_split.
    all: pose proof (stacks_lookup _ _ _ Ea) as Hst; rewrite Est in Hst.
    all: try match goal with k : kont |- _ => destruct k end.
    all: pose proof (fun fr => y_frames _ _ HY a _ fr Hst) as Hk.
    all: match goal with |- (forall c st fr, stacks ?s' !! c = _ -> _) /\ _ => try (try_fsame s s'); try (try_lsame s s') end.
    all: split.
    all: try (lazymatch goal with |- forall c st fr, stacks _ !! c = Some st -> _ =>
               match goal with Hfs : fsame _ _, Hls : lsame _ _ |- _ => 
               eapply (yfr_update nev s _ a _ _ _ Hst); [solve_stacks|apply (y_frames _ _ HY)|intros; by eapply frok_quiet|] end end).
    all: assert (Hrng : forall o f r, (o, f, r) ∈ Ys s -> r + 1 < length (evs s)) by (intros ?o ?f ?r ?Hin; by destruct (y_rng _ _ HY _ _ _ Hin) as (_ & _ & _ & ?)).
    (* the queue *)
    all: try (lazymatch goal with |- forall j, j ∈ jobs _ -> _ =>
      intros j0 Hj; cbn in Hj; rewrite ?elem_of_app, ?elem_of_cons, ?elem_of_nil in Hj; apply (jobok_ext nev s _ X Hrng);
      repeat (match type of Hj with _ \/ _ => destruct Hj as [Hj|Hj] end); try done;
      first [ apply (y_jobs _ _ HY); first [exact Hj | match goal with E : jobs _ = _ :: _ |- _ => rewrite E; right; exact Hj end]
            | subst j0; match goal with Hst : stacks _ !! _ = Some (?fr0 :: _) |- _ => exact (Hk fr0 (elem_of_list_here _ _)) end ] end).
    (* new frames *)
    all: try (lazymatch goal with |- forall fr, fr ∈ _ -> _ \/ _ =>
      intros fr Hin; rewrite ?elem_of_app, ?elem_of_cons in Hin; repeat (match type of Hin with _ \/ _ => destruct Hin as [Hin|Hin] end);
      try (left; first [exact Hin | right; exact Hin]; fail);
      try (right; first [by eapply frok_wake_frames | by eapply frok_opt_wake]; fail);
      try (subst fr; right; first [ exact I
          | match goal with Hst : stacks _ !! _ = Some (?fr0 :: _), Hfs : fsame _ _, Hls : lsame _ _ |- _ => exact (frok_quiet nev s _ fr0 HY X Hfs Hls (Hk fr0 (elem_of_list_here _ _))) end ]; fail) end).
    (* the SyncFuture moves on without a ghost event *)
    all: try (subst fr; right; match goal with Hst : stacks _ !! _ = Some (?fr0 :: _), Hfs : fsame _ _, Hls : lsame _ _ |- _ =>
       pose proof (frok_quiet nev s _ fr0 HY X Hfs Hls (Hk fr0 (elem_of_list_here _ _))) as Hy end; cbn [frok] in Hy |- *;
       eapply yfrok_pc; [| | | |exact Hy]; discriminate).
    (* the rest of the script *)
    all: try (subst fr; right; match goal with Hst : stacks _ !! _ = Some (FTop (_ :: _) :: _) |- frok _ _ (FTop _) =>
                exact (frok_top_tail nev s _ _ _ (Hk _ (elem_of_list_here _ _))) end).
    all: try (pose proof (Hk _ (elem_of_list_here _ _)) as Hop; cbn [frok forallb opwf] in Hop; apply andb_true_iff in Hop as [Hop1 Hop2];
              match goal with Hst : stacks _ !! _ = Some (FTop (_ :: _) :: _) |- _ => idtac end).
    (* new jobs and futures *)
    all: try (subst fr; right; cbn [frok];
              lazymatch goal with
              | |- jobok _ _ (JPlain _) => split; [cbn; lia|eapply noy_fresh; [exact HY|reflexivity|cbn; lia] ]
              | |- jobok _ _ (JFut _ NotCreated (_ ++ [PSignal _])) => eapply jobok_new_user; [exact HY|reflexivity|reflexivity|];
                   apply Forall_app; split; [by apply plain_usrp_all|constructor; [|constructor]; eapply usrp_sig_fresh; [exact HY|reflexivity|cbn; rewrite app_length; cbn; lia] ]
              | |- futok _ _ => eapply futok_fresh; [exact HY|reflexivity|cbn; rewrite app_length; cbn; lia]
              | |- _ < _ => by apply Nat.ltb_lt
              | |- _ < _ /\ noy _ _ /\ _ => split; [cbn; lia|split; [eapply noy_fresh; [exact HY|reflexivity|cbn; lia]|] ]
              end).
    all: try exact I.
    all: try (match goal with Hfs : fsame _ _, Hls : lsame _ _ |- tkok _ (Some ?f) => exact (frok_quiet nev s _ (FFS1 f) HY X Hfs Hls (Hk _ (elem_of_list_here _ _))) end).
    (* suspend *)
    all: try (subst fr; right; cbn [frok]; eapply jobok_new_user; [exact HY|reflexivity|reflexivity|];
              repeat constructor; try (eapply usrp_sig_fresh; [exact HY|reflexivity|cbn; rewrite app_length; cbn; lia]); exact Hop1).
    (* a job is taken from the queue *)
    all: try (subst fr; right; cbn [frok]; match goal with E : jobs _ = ?j :: _ |- jobok _ _ ?j =>
              apply (jobok_ext nev s _ X Hrng), (y_jobs _ _ HY); rewrite E; left end).
    (* a future job is created / moves on *)
    all: try (subst fr; right; match goal with Hfs : fsame _ _, Hls : lsame _ _ |- frok _ _ (FJob (JFut ?op Waiting ?sc) ?w ?k) =>
              first [ exact (frok_quiet nev s _ (FJob (JFut op Waiting sc) w k) HY X Hfs Hls (jobok_start _ _ _ _ (Hk _ (elem_of_list_here _ _))))
                    | refine (frok_quiet nev s _ (FJob (JFut op Waiting sc) w k) HY X Hfs Hls (jobok_tail nev s op _ sc _ _ (Hk _ (elem_of_list_here _ _))));
                      intros ?e0 ?He0; first [discriminate He0 | injection He0 as <-; assumption] ] end).
    (* queue_ready is sent *)
    all: try (lazymatch goal with Hst : stacks _ !! _ = Some (FJob (JFut ?op Waiting (PSendReady ?r :: _)) _ _ :: _) |- forall c st fr, _ =>
      pose proof (Hk _ (elem_of_list_here _ _)) as Hj; cbn [frok] in Hj; destruct (slot_job_ready _ _ _ _ _ Hj) as (f' & Ht & ->);
      eapply (yfr_update nev s _ a _ _ _ Hst); [solve_stacks|apply (y_frames _ _ HY)| |];
      [ intros c st1 fr Hc Hin _; apply (frok_other nev s _ fr r [] HY X);
        [ intros e1 H1; destruct (decide (e1 = r)) as [->|Hne]; [by right|left];
          change (firedP (setev s r {| fired := true; wakers := [] |}) e1) in H1; by apply firedP_setev_ne in H1
        | intros e1 H1; left; exact H1
        | intros pc y st' u0 ->; split; [|intros ? []%elem_of_nil]; destruct (y_frames _ _ HY c _ _ Hc Hin) as (Ht' & _);
          exact (triple_cells nev s _ _ HY Ht' Ht) ]
      | intros fr [Hin|[->|Hin]%elem_of_cons]%elem_of_app; [right; by eapply frok_wake_frames| |by left];
        right; cbn [frok]; eapply jobok_tail; [| |apply (jobok_ext nev s _ X Hrng); exact Hj]; [intros ? [=]|intros ee0 [= <-]; apply firedP_fire; by right] ] end).
    (* the user future is created / polled / completes / is destroyed *)
    all: try (lazymatch goal with Hst : stacks _ !! _ = Some (FY ?pc0 ?y ?st0 ?u0 :: _)
                                  |- forall c st fr, stacks (setstack (addlog _ [?ev]) _ (FY ?pc1 _ ?st1 _ :: _)) !! c = _ -> _ =>
      pose proof (Hk _ (elem_of_list_here _ _)) as Hy; cbn [frok] in Hy;
      eapply (fy_step_frames nev s _ a _ _ _ _ _ _ HF HY X Hst);
        [solve_stacks|intros ee1 HH1; left; exact HH1|intros ee1 [->|HH1]%elem_of_cons; [right; reflexivity|left; exact HH1] | ];
      intros fr [->|Hin]%elem_of_cons; [right|by left]; cbn [frok];
      eapply (yfrok_log nev s _ pc0 pc1 y st0 st1 ev); [reflexivity|intros; reflexivity|reflexivity|reflexivity|discriminate|exact Hy|..];
      destruct Hy as (_ & _ & _ & _ & _ & _ & H7 & H8);
      [ cbn; split; [intros _; first [by left | by right] | done]
      | split; [first [discriminate | intros _; by right] | first [intros [?|?]; discriminate | done] ]
      | split; [first [intros [? _]; discriminate | intros _; by right] | first [intros [[? _]|?]; discriminate | intros _; split; [reflexivity|exact I] ] ]
      | first [exact H7 | intros _; assumption]
      | first [exact H8 | reflexivity | cbn in H8; first [discriminate H8 | apply andb_true_iff in H8 as [_ ?]; done] ] ] end).
    - (* future_sync: the slot job *) subst fr; right; cbn [frok]. split; [cbn; lia|]. split.
      + intros f r Hin. unfold Ys in Hin; cbn in Hin. apply elem_of_cons in Hin as [[= -> ->]|Hin]; [by left|].
        exfalso. destruct (y_rng _ _ HY _ _ _ Hin) as (? & _). lia.
      + intros Hn. exfalso. apply (Hn (length (futs s)) (length (evs s))). unfold Ys; cbn. left.
    - (* future_sync: the SyncFuture *) subst fr; right; cbn [frok].
      assert (Hno : forall e, yev_of e = Some (nextop s) -> e ∉ GYnew (nextop s) (length (futs s)) (length (evs s)) :: log s).
      { intros e He [->|Hin]%elem_of_cons; [discriminate He|]. by eapply (yev_fresh nev s e _ HY (le_n _)). }
      split; [unfold Ys; cbn; left|]. split.
      { unfold firedP, getev; cbn. replace (S (length (evs s))) with (length (evs s) + 1) by lia. by rewrite fired_new_cell by lia. }
      cbn. split; [by apply Hno|]. split; [split; [intros H; by apply Hno in H|done]|].
      split; [split; [intros H; by apply Hno in H|done]|]. split; [split; [intros H; by apply Hno in H|intros [? _]; done]|].
      split; [done|exact Hop1].
    - (* an external event fires *)
      pose proof (Hk _ (elem_of_list_here _ _)) as He. cbn in He.
      eapply (yfr_update nev s _ a _ _ _ Hst); [solve_stacks|apply (y_frames _ _ HY)| |].
      + intros c st fr Hc Hin _. apply (frok_other nev s _ fr e [] HY X).
        * intros e1 H1. destruct (decide (e1 = e)) as [->|Hne]; [by right|left].
          change (firedP (setev s e {| fired := true; wakers := [] |}) e1) in H1. by apply firedP_setev_ne in H1.
        * intros e1 H1. left. exact H1.
        * intros pc y st' u ->. split; [|intros ? []%elem_of_nil]. destruct (y_frames _ _ HY c _ _ Hc Hin) as (Ht & _).
          destruct (y_rng _ _ HY _ _ _ Ht) as (_ & _ & ? & _). lia.
      + intros fr [Hin|Hin]%elem_of_app; [right; by eapply frok_wake_frames|by left].
    - (* task_finished is sent: from now on the SyncFuture is its SchedulerFuture *)
      pose proof (Hk _ (elem_of_list_here _ _)) as Hy; cbn [frok] in Hy. destruct Hy as (H1 & H2 & H3 & H4 & H5 & H6 & H7 & H8).
      eapply (fy_step_frames nev s _ a _ _ _ _ _ _ HF HY X Hst); [solve_stacks| | |].
      + intros e1 Hf. destruct (decide (e1 = S (y_r y))) as [->|Hne]; [by right|left].
        change (firedP (setev s (S (y_r y)) {| fired := true; wakers := [] |}) e1) in Hf. by apply firedP_setev_ne in Hf.
      + intros e1 He; left; exact He.
      + intros fr [Hin|[->|Hin]%elem_of_cons]%elem_of_app; [right; by eapply frok_wake_frames| |by left].
        right. cbn [frok]. split; [by destruct (y_rng _ _ HY _ _ _ H1) as (_ & ? & _)|].
        intros o r Ht. pose proof (triple_eq nev s _ _ HY Ht H1 ltac:(cbn; auto)) as [= -> ->]. by apply H5.
    - (* drop while waiting for the queue: the receiver goes *)
      subst fr; right. pose proof (frok_quiet nev s _ _ HY X Hfs Hls (Hk _ (elem_of_list_here _ _))) as Hy. cbn [frok] in Hy |- *.
      destruct Hy as (H1 & H2 & H3 & H4 & H5 & H6 & H7 & H8).
      split; [done|]. split; [done|]. split; [done|]. split; [done|]. split; [split; [intros ?%H5; done|done]|].
      split; [split; [intros [? _]%H6; done|intros [_ []]]|]. done.
    - (* drop of task_finished *)
      eapply (fy_step_frames nev s _ a _ _ _ _ _ _ HF HY X Hst); [solve_stacks| | |].
      + intros e1 Hf. destruct (decide (e1 = S (y_r y))) as [->|Hne]; [by right|left].
        change (firedP (setev (addlog s [GYdrop (y_op y)]) (S (y_r y)) {| fired := true; wakers := [] |}) e1) in Hf. by apply firedP_setev_ne in Hf.
      + intros e1 [->|He]%elem_of_cons; [right; reflexivity|left; exact He].
      + intros fr [Hin|Hin]%elem_of_app; [right; by eapply frok_wake_frames|by left].
  Qed.
End FJ.
