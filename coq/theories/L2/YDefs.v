(* C08 on the real queue machinery: future_sync.  Definitions of the safety invariant Inv_y:
   - the calls of future_sync made so far (triples (o, f, r) of the ghost events GYnew: slot job, SchedulerFuture, queue_ready cell;
     the done cell is S r) are fresh at creation;
   - every job, wherever it is (queue, frames), is either a user job (plain body, signals of futures that are no SyncFuture's) or
     the slot job of its call, at a position of its three-step script that agrees with the done cell;
   - every SyncFuture frame agrees with the ghost log about the life of its user future, and its done cell is unfired;
   - per call: queue_ready fired and done unfired -> the slot job is the open operation; the SchedulerFuture is signalled only after
     done fired; done fired -> the user future finished or the SyncFuture was dropped (user future destroyed first);
   - the ghost log: every user-future event lies inside the slot, results are delivered after the user future finished. *)
From stdpp Require Import list numbers option.
From RecordUpdate Require Import RecordUpdate.
From L2 Require Import Model Base Own Jobs Fut.
#[global] Unset Lia Cache.

(* ---------- well-formed programs: user bodies are plain, events are external events ---------- *)
Definition plainp (nev : nat) (p : fprim) : bool :=
  match p with PTouch => true | PAwait e => e <? nev | PAwaitEither e1 e2 => (e1 <? nev) && (e2 <? nev) | _ => false end.
Definition opwf (nev : nat) (o : cop) : bool :=
  match o with
  | OFuture b _ | OFutSync b _ => forallb (plainp nev) b
  | OFire e | OSuspend e _ => e <? nev
  | _ => true
  end.
Definition ywf (nev : nat) (scripts : list (list cop)) : Prop := Forall (fun sc => forallb (opwf nev) sc = true) scripts.

(* ---------- the calls of future_sync ---------- *)
Notation triple := (nat * nat * nat)%type.
Fixpoint ynews (l : list gev) : list triple :=
  match l with [] => [] | GYnew o f r :: l' => (o, f, r) :: ynews l' | _ :: l' => ynews l' end.
Definition Ys (s : state) : list triple := ynews s.(log).
Fixpoint ysorted (Y : list triple) : Prop :=
  match Y with
  | [] => True
  | (o, f, r) :: Y' => (forall o' f' r', (o', f', r') ∈ Y' -> o' < o /\ f' < f /\ r' + 1 < r) /\ ysorted Y'
  end.
Definition sep (t t' : triple) : Prop :=
  t = t' \/ (t.1.1 < t'.1.1 /\ t.1.2 < t'.1.2 /\ t.2 + 1 < t'.2) \/ (t'.1.1 < t.1.1 /\ t'.1.2 < t.1.2 /\ t'.2 + 1 < t.2).
Lemma ysorted_sep Y : ysorted Y -> forall t t', t ∈ Y -> t' ∈ Y -> sep t t'.
Proof.
  induction Y as [|[[o f] r] Y IH]; cbn; [intros _ t t' H; by apply elem_of_nil in H|].
  intros [H1 H2] t t' [->|Ht]%elem_of_cons [->|Ht']%elem_of_cons.
  - by left.
  - destruct t' as [[o' f'] r']. destruct (H1 _ _ _ Ht') as (? & ? & ?). right; right. cbn. lia.
  - destruct t as [[o' f'] r']. destruct (H1 _ _ _ Ht) as (? & ? & ?). right; left. cbn. lia.
  - by apply IH.
Qed.
Lemma ynews_in l o f r : (o, f, r) ∈ ynews l <-> GYnew o f r ∈ l.
Proof.
  induction l as [|e l IH]; cbn; [by rewrite !elem_of_nil|].
  destruct e; rewrite ?elem_of_cons, IH; try (split; [by right|intros [?|?]; [discriminate|done] ]).
  split; (intros [H|H]; [left; congruence|by right]).
Qed.

Definition firedP (s : state) (e : nat) : Prop := (getev s e).(fired) = true.
Definition noy (s : state) (o : nat) : Prop := forall f r, (o, f, r) ∉ Ys s.
Definition slot (r f : nat) : list fprim := [PSendReady r; PAwaitDone (S r); PSignal f].

(* a primitive of a user job *)
Definition usrp (nev : nat) (s : state) (p : fprim) : Prop :=
  match p with PSignal f => f < length s.(futs) /\ forall o r, (o, f, r) ∉ Ys s | _ => plainp nev p = true end.
(* the script of a future job with id o *)
Definition scok (nev : nat) (s : state) (o : nat) (st : jstate) (sc : list fprim) : Prop :=
  (forall f r, (o, f, r) ∈ Ys s ->
     sc = slot r f \/
     (st = Waiting /\ firedP s r /\ (sc = [PAwaitDone (S r); PSignal f] \/ (firedP s (S r) /\ (sc = [PSignal f] \/ sc = []))))) /\
  (noy s o -> Forall (usrp nev s) sc).
(* a result that may be taken: if f is the SchedulerFuture of a future_sync call, the user future of that call has finished *)
Definition futok (s : state) (f : nat) : Prop := f < length s.(futs) /\ forall o r, (o, f, r) ∈ Ys s -> GUFinish o ∈ s.(log).
Definition tkok (s : state) (tk : option nat) : Prop := match tk with Some f => futok s f | None => True end.
Definition jobok (nev : nat) (s : state) (j : job) : Prop :=
  jop j < s.(nextop) /\
  match j with JFut o st sc => scok nev s o st sc | JPlain o => noy s o | JSync o _ tk => noy s o /\ tkok s tk end.

Definition isYF (st : ystate) : Prop := match st with YFuture _ => True | YQueue _ => False end.
Definition ybody (st : ystate) : list fprim := match st with YFuture b | YQueue b => b end.
(* the SyncFuture frame and the ghost log *)
Definition yfrok (nev : nat) (s : state) (pc : ypc) (y : ydat) (st : ystate) : Prop :=
  let o := y.(y_op) in
  (o, y.(y_f), y.(y_r)) ∈ Ys s /\ ~ firedP s (S y.(y_r)) /\ GYdrop o ∉ s.(log) /\
  (GUStart o ∈ s.(log) <-> isYF st) /\ (GUFinish o ∈ s.(log) <-> pc = YPfin) /\
  (GUCancel o ∈ s.(log) <-> (pc = YPdrop2 /\ isYF st)) /\
  (isYF st -> firedP s y.(y_r)) /\ forallb (plainp nev) (ybody st) = true.

Definition frok (nev : nat) (s : state) (fr : frame) : Prop :=
  match fr with
  | FTop sc => forallb (opwf nev) sc = true
  | FD1 j | FJob j _ _ | FDQrequeue _ _ j | FDRrequeue j | FROpend j | FROcheck j | FROpark j | FDQlate j => jobok nev s j
  | FUse f _ | FAwRet f | FPark f | FDropRet f _ | FFS1 f => futok s f
  | FS1 op tk | FClosure op tk | FSDpush op tk | FSBreg op tk | FSBpush op tk => op < s.(nextop) /\ noy s op /\ tkok s tk
  | FFire e => e < nev
  | FY pc y st _ => yfrok nev s pc y st
  | _ => True
  end.

(* ---------- the ghost log, event by event (l = the older part) ---------- *)
Definition urun (o : nat) (l : list gev) : Prop :=
  wbn l = Some (Some o) /\ GUStart o ∈ l /\ GUFinish o ∉ l /\ GUCancel o ∉ l /\ GYdrop o ∉ l.
Definition udone (o : nat) (l : list gev) : Prop :=
  (GUFinish o ∈ l \/ GYdrop o ∈ l) /\ (GUStart o ∈ l -> GUFinish o ∈ l \/ GUCancel o ∈ l).
Definition ycall (o : nat) (l : list gev) : Prop := exists f r, GYnew o f r ∈ l.
Definition evok (e : gev) (l : list gev) : Prop :=
  match e with
  | GUStart o => ycall o l /\ wbn l = Some (Some o) /\ GUStart o ∉ l /\ GYdrop o ∉ l
  | GUStep o | GUFinish o | GUCancel o => ycall o l /\ urun o l
  | GYdrop o => ycall o l /\ GYdrop o ∉ l /\ GUFinish o ∉ l /\ (GUStart o ∈ l -> GUCancel o ∈ l)
  | GFinish o => forall f r, GYnew o f r ∈ l -> udone o l
  | GSig f v => forall o r, GYnew o f r ∈ l -> v = o /\ udone o l
  | GResolve f v => forall o r, GYnew o f r ∈ l -> GUFinish o ∈ l
  | _ => True
  end.
Fixpoint logall (P : gev -> list gev -> Prop) (l : list gev) : Prop :=
  match l with [] => True | e :: r => P e r /\ logall P r end.
Lemma logall_split P l : logall P l -> forall l2 e l1, l = l2 ++ e :: l1 -> P e l1.
Proof.
  induction l as [|x l IH]; intros H l2 e l1 E; [by destruct l2|].
  destruct l2 as [|x2 l2]; cbn in E; injection E as -> ->; cbn in H; [tauto|]. eapply IH; [tauto|done].
Qed.

Lemma logall_in P l e : logall P l -> e ∈ l -> exists l2 l1, l = l2 ++ e :: l1 /\ P e l1.
Proof.
  intros H Hin. apply elem_of_list_split in Hin as (l2 & l1 & ->). exists l2, l1. split; [done|]. by eapply logall_split.
Qed.

Record Inv_y (nev : nat) (s : state) : Prop := {
  y_len : nev <= length s.(evs);
  y_rng : forall o f r, (o, f, r) ∈ Ys s -> o < s.(nextop) /\ f < length s.(futs) /\ nev <= r /\ r + 1 < length s.(evs);
  y_sorted : ysorted (Ys s);
  y_frames : forall c st fr, stacks s !! c = Some st -> fr ∈ st -> frok nev s fr;
  y_jobs : forall j, j ∈ s.(jobs) -> jobok nev s j;
  y_t1 : forall o f r, (o, f, r) ∈ Ys s -> firedP s r -> ~ firedP s (S r) -> wbn s.(log) = Some (Some o);
  y_t2 : forall o f r v, (o, f, r) ∈ Ys s -> GSig f v ∈ s.(log) -> v = o /\ firedP s (S r);
  y_t3 : forall o f r, (o, f, r) ∈ Ys s -> firedP s (S r) -> udone o s.(log);
  y_sigr : forall f v, GSig f v ∈ s.(log) -> f < length s.(futs);
  y_log : logall evok s.(log);
}.
