(* sync always returns: with the waiter's loop of sync_background modelled, in a terminal state with all events fired no caller is
   left inside sync - for ANY program and ANY number of pool runners (0 included).  The only blocked program point that remains
   is the park of a task that awaits a SchedulerFuture. *)
From stdpp Require Import list numbers option.
From RecordUpdate Require Import RecordUpdate.
From L2 Require Import Model Base Own Jobs Shape OpShape DwInv Pool Fut Wake WakeInv WakeLem Term Task TaskInv Complete Waiter ZeroTerm.
#[global] Unset Lia Cache.

Record Inv_all3 (T : ftables) (s : state) : Prop := { i3_all2 : Inv_all2 s; i3_k : Inv_K T s }.
Lemma init_all3 T scripts npool nev : Inv_all3 T (init scripts npool nev).
Proof. split; [apply init_all2|apply init_K]. Qed.
Lemma step_all3 T (HA : all_cond T) (HC : claim_cond T) s a s' : Inv_all3 T s -> step T s a = Some s' -> Inv_all3 T s'.
Proof.
  intros [H2 HK] Hs. split; [by eapply step_all2|]. pose proof (i2_all _ H2) as HI.
  eapply (step_K T (ac_own _ HA) (ac_wake _ HA) HC s a s'); try done;
    [apply (ia_own _ HI)|apply (i2_op _ H2)|apply (ia_dw _ HI)|apply (ia_wake _ HI)|apply (i2_task _ H2)].
Qed.
Theorem reachable_all3 T (HA : all_cond T) (HC : claim_cond T) scripts npool nev tr s :
  run T (init scripts npool nev) tr = Some s -> Inv_all3 T s.
Proof. apply (run_inv (Inv_all3 T) T); [intros; by eapply step_all3|apply init_all3]. Qed.

Section TerminalW.
  Context (T : ftables) (HA : all_cond T) (HC : claim_cond T).
  Context (s : state) (H3 : Inv_all3 T s) (Hterm : terminal T s) (Hfired : all_fired s).
  Let H2 := i3_all2 _ _ H3.
  Let HI := i2_all _ H2.
  Let Hnp : no_panic T s := fun a => fut_no_panic T s a (ac_own _ HA) (ia_own _ HI) (ia_fut _ HI).

  (* nobody runs the queue and it is not parked waiting for a WakeQueue wake-up: it can be claimed *)
  Lemma term_claimable : claimb T s.(qs) = true.
  Proof.
    pose proof (term_no_runner T s HI Hterm Hnp Hfired) as Ho. pose proof (io_nopanic _ (ia_own _ HI)) as Hp.
    pose proof (iw_queue _ (ia_wake _ HI)) as HQ. unfold queue_ok in HQ.
    destruct (qs s) eqn:Eq; try done.
    - apply (cc_idle _ HC).
    - apply (cc_pending _ HC).
    - exfalso. destruct (hsusp s) as [e|]; [|done]. by rewrite (term_cover T s HI Hterm Hnp Hfired) in HQ.
    - apply (cc_wfp _ HC).
  Qed.
  (* no waiter of sync_background is blocked *)
  Lemma term_no_waiter c rest : stacks s !! c = Some (FSBwait :: rest) -> False.
  Proof.
    intros Hc. destruct (stacks_actor s c _ Hc) as (ac & Ea & Est).
    pose proof (Hterm c) as Hs. unfold step in Hs. rewrite Ea in Hs. cbn in Hs. rewrite Est in Hs. cbn in Hs.
    destruct (sres ac) eqn:Esr; [done|]. destruct (kicked ac) eqn:Ek; [done|].
    assert (Hk : kickb s c = false) by (unfold kickb; by rewrite (kicks_lookup _ _ _ Ea), Ek).
    assert (Hsb : sresb s c = false) by (unfold sresb; by rewrite (sress_lookup _ _ _ Ea), Esr).
    destruct (k_wait _ _ (i3_k _ _ H3) c _ Hc ltac:(left) Hk Hsb term_claimable) as [H|H].
    - rewrite (term_quiet T s HI Hterm Hnp is_rq1) in H; [lia|]. intros []; try done. by left.
    - unfold wakeq in H. destruct (hsusp s); [|done]. by rewrite (term_cover T s HI Hterm Hnp Hfired) in H.
  Qed.
  Theorem terminal_sync_returns c st : stacks s !! c = Some st ->
    st = [FTop []] \/ st = [FPIdle] \/ exists f rest, st = FPark f :: rest.
  Proof.
    intros Hc. destruct (term_top T s HI Hterm Hnp c st Hc) as (fr & rest & -> & Hb).
    destruct fr; try done.
    - (* FTop [] *) destruct script; [|done]. left. by rewrite (op_bot_alone s c _ rest (i2_op _ H2) Hc eq_refl).
    - (* FPark f *) right; right. by eexists _, _.
    - (* FSBwait *) exfalso. by eapply term_no_waiter.
    - (* FROpark j *) exfalso. pose proof (runner_owned s c _ (ia_own _ HI) Hc ltac:(cbn; lia)) as Ho.
      by rewrite (term_no_runner T s HI Hterm Hnp Hfired) in Ho.
    - (* FPIdle *) right; left. by rewrite (op_bot_alone s c _ rest (i2_op _ H2) Hc eq_refl).
    - (* FY YPpark *) exfalso. destruct pc; try done. by eapply (term_no_ypark T HA s H2 Hterm Hfired).
  Qed.
End TerminalW.

(* C04 for one queue with futures: sync returns.  In a terminal state with all events fired every actor is done, or is a task
   parked awaiting a SchedulerFuture - any program, any number of pool runners *)
Theorem C04_sync_returns T (HA : all_cond T) (HC : claim_cond T) scripts npool nev tr s :
  run T (init scripts npool nev) tr = Some s -> terminal T s -> all_fired s ->
  forall c st, stacks s !! c = Some st -> st = [FTop []] \/ st = [FPIdle] \/ exists f rest, st = FPark f :: rest.
Proof. intros Hr Ht Hf c st. eapply terminal_sync_returns; try done. by eapply reachable_all3. Qed.
Print Assumptions C04_sync_returns.

(* ---------- callers that never await a future (they may desync, sync, poll-and-drop, detach, fire) always finish ---------- *)
Definition noaw_use (u : fuse) : bool := match u with UAwait => false | _ => true end.
Definition noaw_op (o : cop) : bool := match o with OFuture _ u | OSuspend _ u | OFutSync _ u => noaw_use u | _ => true end.
Definition noaw_fr (fr : frame) : bool :=
  match fr with FTop sc => forallb noaw_op sc | FUse _ u | FY _ _ _ u => noaw_use u | FAwRet _ | FPark _ | FPIdle => false | _ => true end.
Lemma noaw_wake_frames ws : forallb noaw_fr (wake_frames ws) = true. Proof. by induction ws. Qed.
Lemma noaw_opt_wake o : forallb noaw_fr (opt_wake o) = true. Proof. by destruct o. Qed.
Section NoAw.
  Context (T : ftables).
  Lemma step_noaw s a s' c : (forall st, stacks s !! c = Some st -> forallb noaw_fr st = true) -> step T s a = Some s' ->
    forall st, stacks s' !! c = Some st -> forallb noaw_fr st = true.
  Proof.
    intros HK Hstep. step_split Hstep Ea Est.
    all: try discriminate Hstep.
    all: injection Hstep as <-.
    all: pop_cont_split.
    all: pose proof (stacks_lookup _ _ _ Ea) as Hst; rewrite Est in Hst.
    all: try match goal with k : kont |- _ => destruct k end.
    all: intros st0 Hc0; norm_stacks_in Hc0.
    all: (destruct (decide (c = a)) as [->|Hne]; [|rewrite list_lookup_insert_ne in Hc0 by done; by eapply HK]).
    all: rewrite list_lookup_insert in Hc0 by (by eapply lookup_lt_Some); injection Hc0 as <-.
    all: specialize (HK _ Hst); cbn [forallb noaw_fr noaw_op noaw_use] in HK |- *.
    all: rewrite ?forallb_app, ?noaw_wake_frames, ?noaw_opt_wake; cbn [forallb noaw_fr noaw_op noaw_use andb] in HK |- *.
    all: repeat match goal with H : _ && _ = true |- _ => apply andb_true_iff in H as [? ?] end.
    all: try (subst; cbn in *; repeat (apply andb_true_iff; split); try done; fail).
  Qed.
End NoAw.

(* (i) a caller whose script never awaits a future - it may desync, sync, poll futures a number of times and drop them, detach them,
   fire events - has finished its script in every terminal state with all events fired: any number of pool runners, ZERO included
   (with no pool runner its own later sync takes the queue of a dropped, woken future over: the scenario of finding F6) *)
Theorem noawait_caller_finishes T (HA : all_cond T) (HC : claim_cond T) scripts npool nev tr s c sc :
  scripts !! c = Some sc -> forallb noaw_op sc = true ->
  run T (init scripts npool nev) tr = Some s -> terminal T s -> all_fired s -> stacks s !! c = Some [FTop []].
Proof.
  intros Hsc Hna Hr Ht Hf.
  assert (Hinv : forall st, stacks s !! c = Some st -> forallb noaw_fr st = true).
  { revert Hr. apply (run_inv (fun s => forall st, stacks s !! c = Some st -> forallb noaw_fr st = true) T).
    - intros s0 a s1 H0 Hs. by eapply step_noaw.
    - intros st Hc. unfold stacks, init in Hc; cbn in Hc. rewrite list_lookup_fmap, lookup_app_l in Hc.
      + rewrite list_lookup_fmap, Hsc in Hc. cbn in Hc. injection Hc as <-. cbn. by rewrite Hna.
      + rewrite fmap_length. by eapply lookup_lt_Some. }
  assert (Hlen : c < length (stacks s)).
  { rewrite (run_stacks_len _ _ _ _ Hr). unfold stacks, init; cbn. rewrite fmap_length, app_length, fmap_length.
    apply lookup_lt_Some in Hsc. lia. }
  destruct (lookup_lt_is_Some_2 _ _ Hlen) as [st Hc].
  destruct (C04_sync_returns T HA HC _ _ _ _ _ Hr Ht Hf c st Hc) as [->|[->|(f & rest & ->)]]; [done| |].
  - specialize (Hinv _ Hc). cbn in Hinv. done.
  - specialize (Hinv _ Hc). cbn in Hinv. done.
Qed.
Print Assumptions noawait_caller_finishes.
