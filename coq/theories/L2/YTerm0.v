(* C08 (5) for ANY number of pool threads, zero included: what a terminal state looks like when only the EXTERNAL events are fired.
   The waiter analysis of WaiterTerm.v redone with "the events the queue waits for are fired" (YTerm.awaited_fired) in place of
   "all cells fired". *)
From stdpp Require Import list numbers option.
From RecordUpdate Require Import RecordUpdate.
From L2 Require Import Model Base Own Jobs Shape OpShape DwInv Pool Fut Sig Wake WakeInv WakeLem Term Task TaskInv YTask Complete Waiter
  ZeroTerm WaiterTerm YDefs YMono YStep1 YStep2 YStep3 YInv YInv2 YTerm.
#[global] Unset Lia Cache.

Section TermW0.
  Context (T : ftables) (HA : all_cond T) (HC : claim_cond T) (nev : nat).
  Context (s : state) (H3 : Inv_all3 T s) (HY : Inv_y nev s) (HY2 : Inv_y2 nev s) (Hterm : terminal T s).
  Context (Hext : forall e, e < nev -> (getev s e).(fired) = true).
  Let H2 := i3_all2 _ _ H3.
  Let HI := i2_all _ H2.
  Let Hnp : no_panic T s := fun a => fut_no_panic T s a (ac_own _ HA) (ia_own _ HI) (ia_fut _ HI).
  Let Haw := awaited_fired T HA nev s H2 HY HY2 Hterm Hext.

  Lemma term0_claimable : claimb T s.(qs) = true.
  Proof.
    pose proof (termg_no_runner T s HI Hterm Hnp Haw) as Ho. pose proof (io_nopanic _ (ia_own _ HI)) as Hp.
    pose proof (iw_queue _ (ia_wake _ HI)) as HQ. unfold queue_ok in HQ.
    destruct (qs s) eqn:Eq; try done.
    - apply (cc_idle _ HC).
    - apply (cc_pending _ HC).
    - exfalso. destruct (hsusp s) as [e|] eqn:Eh; [|done]. by rewrite (termg_cover T s HI Hterm Hnp Haw e Eh) in HQ.
    - apply (cc_wfp _ HC).
  Qed.
  Lemma term0_no_waiter c rest : stacks s !! c = Some (FSBwait :: rest) -> False.
  Proof.
    intros Hc. destruct (stacks_actor s c _ Hc) as (ac & Ea & Est).
    pose proof (Hterm c) as Hs. unfold step in Hs. rewrite Ea in Hs. cbn in Hs. rewrite Est in Hs. cbn in Hs.
    destruct (sres ac) eqn:Esr; [done|]. destruct (kicked ac) eqn:Ek; [done|].
    assert (Hk : kickb s c = false) by (unfold kickb; by rewrite (kicks_lookup _ _ _ Ea), Ek).
    assert (Hsb : sresb s c = false) by (unfold sresb; by rewrite (sress_lookup _ _ _ Ea), Esr).
    destruct (k_wait _ _ (i3_k _ _ H3) c _ Hc ltac:(left) Hk Hsb term0_claimable) as [H|H].
    - rewrite (term_quiet T s HI Hterm Hnp is_rq1) in H; [lia|]. intros []; try done. by left.
    - unfold wakeq in H. destruct (hsusp s) eqn:Eh; [|done]. by rewrite (termg_cover T s HI Hterm Hnp Haw _ Eh) in H.
  Qed.
  (* every actor is done, or is a task parked on a SchedulerFuture, or is the owner of a SyncFuture whose slot job has not sent
     queue_ready *)
  Theorem terminal_any_pool c st : stacks s !! c = Some st ->
    st = [FTop []] \/ st = [FPIdle] \/ (exists f rest, st = FPark f :: rest) \/
    (exists y b u rest, st = FY YPpark y (YQueue b) u :: rest /\ (getev s y.(y_r)).(fired) = false).
  Proof.
    intros Hc. destruct (term_top T s HI Hterm Hnp c st Hc) as (fr & rest & -> & Hb).
    destruct fr; try done.
    - destruct script; [|done]. left. by rewrite (op_bot_alone s c _ rest (i2_op _ H2) Hc eq_refl).
    - right; right; left. by eexists _, _.
    - exfalso. by eapply term0_no_waiter.
    - exfalso. pose proof (runner_owned s c _ (ia_own _ HI) Hc ltac:(cbn; lia)) as Ho.
      by rewrite (termg_no_runner T s HI Hterm Hnp Haw) in Ho.
    - right; left. by rewrite (op_bot_alone s c _ rest (i2_op _ H2) Hc eq_refl).
    - destruct pc; try done. destruct (ypark_waits T HA nev s H2 HY Hterm Hext c y st u rest Hc) as (b & -> & Hf).
      right; right; right. by eexists _, _, _, _.
  Qed.
End TermW0.

(* a SyncFuture owner parks only in await mode *)
Definition ypu_ok (fr : frame) : bool := match fr with FY YPpark _ _ u => match u with UAwait => true | _ => false end | _ => true end.
Lemma ypu_wake_frames ws : forallb ypu_ok (wake_frames ws) = true. Proof. by induction ws. Qed.
Lemma ypu_opt_wake o : forallb ypu_ok (opt_wake o) = true. Proof. by destruct o. Qed.
Lemma step_ypu T s a s' : (forall c st, stacks s !! c = Some st -> forallb ypu_ok st = true) -> step T s a = Some s' ->
  forall c st, stacks s' !! c = Some st -> forallb ypu_ok st = true.
Proof.
  intros HK Hstep. step_split Hstep Ea Est.
  all: try discriminate Hstep.
  all: injection Hstep as <-.
  all: pop_cont_split.
  all: pose proof (stacks_lookup _ _ _ Ea) as Hst; rewrite Est in Hst.
  all: try match goal with k : kont |- _ => destruct k end.
  all: intros c0 st0 Hc0; norm_stacks_in Hc0.
  all: (destruct (decide (c0 = a)) as [->|Hne]; [|rewrite list_lookup_insert_ne in Hc0 by done; by eapply HK]).
  all: rewrite list_lookup_insert in Hc0 by (by eapply lookup_lt_Some); injection Hc0 as <-.
  all: specialize (HK _ _ Hst); cbn [forallb ypu_ok] in HK |- *.
  all: rewrite ?forallb_app, ?ypu_wake_frames, ?ypu_opt_wake; cbn [forallb ypu_ok andb] in HK |- *.
  all: repeat match goal with H : _ && _ = true |- _ => apply andb_true_iff in H as [? ?] end.
  all: try (subst; cbn in *; repeat (apply andb_true_iff; split); try done; fail).
Qed.

Section Final.
  Context (T : ftables) (HA : all_cond T) (HC : claim_cond T).
  (* C08 (5), any number of pool threads (zero included), only the external events assumed fired *)
  Theorem futsync_terminal_any_pool scripts npool nev tr s : ywf nev scripts -> run T (init scripts npool nev) tr = Some s ->
    terminal T s -> (forall e, e < nev -> (getev s e).(fired) = true) ->
    forall c st, stacks s !! c = Some st ->
    st = [FTop []] \/ st = [FPIdle] \/ (exists f rest, st = FPark f :: rest) \/
    (exists y b u rest, st = FY YPpark y (YQueue b) u :: rest /\ (getev s y.(y_r)).(fired) = false).
  Proof.
    intros Hwf Hr Hterm Hext c st. destruct (reachable_y2 nev T HA _ _ _ _ Hwf Hr) as [H1 HY2].
    apply (terminal_any_pool T HA HC nev s (reachable_all3 T HA HC _ _ _ _ _ Hr) (ya_y _ _ H1) HY2 Hterm Hext).
  Qed.
  (* a caller that never AWAITS a future (it may call future_sync and drop the future after any number of polls, desync, sync,
     poll-and-drop, detach, fire) finishes its script: any pool size, any other callers *)
  Theorem dropping_caller_finishes scripts npool nev tr s c sc : ywf nev scripts -> scripts !! c = Some sc -> forallb noaw_op sc = true ->
    run T (init scripts npool nev) tr = Some s -> terminal T s -> (forall e, e < nev -> (getev s e).(fired) = true) ->
    stacks s !! c = Some [FTop []].
  Proof.
    intros Hwf Hsc Hna Hr Ht Hext.
    assert (Hinv : forall st, stacks s !! c = Some st -> forallb noaw_fr st = true).
    { revert Hr. apply (run_inv (fun s => forall st, stacks s !! c = Some st -> forallb noaw_fr st = true) T).
      - intros s0 a s1 H0 Hs. by eapply step_noaw.
      - intros st Hc. unfold stacks, init in Hc; cbn in Hc. rewrite list_lookup_fmap, lookup_app_l in Hc.
        + rewrite list_lookup_fmap, Hsc in Hc. cbn in Hc. injection Hc as <-. cbn. by rewrite Hna.
        + rewrite fmap_length. by eapply lookup_lt_Some. }
    assert (Hpu : forall c st, stacks s !! c = Some st -> forallb ypu_ok st = true).
    { revert Hr. apply (run_inv (fun s => forall c st, stacks s !! c = Some st -> forallb ypu_ok st = true) T).
      - intros s0 a s1 H0 Hs. by eapply step_ypu.
      - intros c0 st Hc. destruct (init_stacks _ _ _ _ _ Hc) as [->|[sc0 ->]]; done. }
    assert (Hlen : c < length (stacks s)).
    { rewrite (run_stacks_len _ _ _ _ Hr). unfold stacks, init; cbn. rewrite fmap_length, app_length, fmap_length.
      apply lookup_lt_Some in Hsc. lia. }
    destruct (lookup_lt_is_Some_2 _ _ Hlen) as [st Hc].
    destruct (futsync_terminal_any_pool _ _ _ _ _ Hwf Hr Ht Hext c st Hc) as [->|[->|[(f & rest & ->)|(y & b & u & rest & -> & _)]]]; [done| | |].
    - specialize (Hinv _ Hc). cbn in Hinv. done.
    - specialize (Hinv _ Hc). cbn in Hinv. done.
    - specialize (Hinv _ Hc). specialize (Hpu _ _ Hc). cbn in Hinv, Hpu. destruct u; done.
  Qed.
End Final.
Print Assumptions futsync_terminal_any_pool.
Print Assumptions dropping_caller_finishes.
