(* a DrainWaker d is referred to by at most one frame (the poller's frames of that job poll, then the pending wake_with), and
   it is in state WillWake only after that wake_with has been executed *)
From stdpp Require Import list numbers option.
From RecordUpdate Require Import RecordUpdate.
From L2 Require Import Model Base Own.
#[global] Unset Lia Cache.

Definition carries (d : nat) (fr : frame) : bool :=
  match fr with
  | FJob _ _ (KDq _ d') | FDQrequeue _ d' _ | FDQtake2 _ d' | FDQwfw _ d' | FDQstore _ d' | FDQwfp _ d' | FWakeWith d' _ => bool_decide (d' = d)
  | _ => false
  end.
Definition will (s : state) (d : nat) : bool := match (getdw s d).1 with DWWillWake => true | _ => false end.
Record Inv_dw (s : state) : Prop := {
  id_one : forall d, np (carries d) s + b2n (will s d) <= 1;
  id_fresh : forall d, length s.(dws) <= d -> np (carries d) s = 0;
}.
Record dw_cond (T : ftables) : Prop := {
  dc_wake : forall st, (T.(t_dw_wake) st).1 <> DWWillWake;
}.

Lemma will_setdw_ne s d d0 c : d <> d0 -> will (setdw s d0 c) d = will s d.
Proof. intros H. unfold will, getdw, setdw; cbn. by rewrite list_lookup_insert_ne. Qed.
Lemma will_setdw_eq s d c : will (setdw s d c) d = true -> c.1 = DWWillWake.
Proof.
  unfold will, getdw, setdw; cbn. destruct (decide (d < length (dws s))).
  - rewrite list_lookup_insert by done. cbn. by destruct c.1.
  - rewrite lookup_ge_None_2 by (rewrite insert_length; lia). done.
Qed.
Lemma will_fresh s d : length s.(dws) <= d -> will s d = false.
Proof. intros H. unfold will, getdw. by rewrite lookup_ge_None_2. Qed.
Lemma will_app s d x (s' : state) : s'.(dws) = s.(dws) ++ [x] -> x.1 <> DWWillWake -> will s' d = true -> will s d = true.
Proof.
  intros H Hx. unfold will, getdw. rewrite H. destruct (decide (d < length (dws s))).
  - by rewrite lookup_app_l.
  - rewrite lookup_app_r by lia. destruct (d - length (dws s)) as [|m]; cbn; [by destruct x.1|]. done.
Qed.
Lemma will_same s s' d : s'.(dws) = s.(dws) -> will s' d = will s d.
Proof. intros H. unfold will, getdw. by rewrite H. Qed.
Lemma dws_len_setdw s d c : length (setdw s d c).(dws) = length s.(dws).
Proof. unfold setdw; cbn. by rewrite insert_length. Qed.

Section Pres.
  Context (T : ftables) (HD : dw_cond T).
  Lemma step_dw s a s' : Inv_dw s -> step T s a = Some s' -> Inv_dw s'.
  Proof.
    intros [I1 I2] Hstep. step_split Hstep Ea Est.
    all: try discriminate Hstep.
    all: injection Hstep as <-.
    all: pop_cont_split.
    all: pose proof (stacks_lookup _ _ _ Ea) as Hst; rewrite Est in Hst.
    all: try match goal with k : kont |- _ => destruct k end.
    all: split; intros dq; [specialize (I1 dq)|intros Hlen; pose proof (I2 dq) as I2'].
    all: match goal with |- context [np (carries ?dd) ?s'] =>
           pose proof (np_upd (carries dd) s s' a _ _ Hst ltac:(solve_stacks)) as Hu;
           (let n := fresh "cnt" in set (n := np (carries dd) s') in *; clearbody n) end.
    all: cbn in Hu; rewrite ?cntf_app, ?cntf_opt_wake, ?cntf_wake_frames in Hu by done; cbn in Hu.
    (* dws untouched *)
    all: try (lazymatch goal with |- _ + b2n (will ?s' _) <= 1 => rewrite (will_same s s' _ eq_refl) end; repeat case_bool_decide; lia).
    all: try (lazymatch goal with |- _ = 0 => cbn in Hlen; specialize (I2' Hlen); repeat case_bool_decide; lia end).
    (* clause 2 with dws changed *)
    all: try (lazymatch goal with |- _ = 0 =>
              cbn -[length app setdw] in Hlen; rewrite ?dws_len_setdw, ?app_length in Hlen; cbn [length] in Hlen;
              assert (Hx : length (dws s) <= dq) by lia; specialize (I2' Hx); repeat case_bool_decide; lia end).
    (* FDQdeq *)
    1: { match goal with |- _ + b2n (will ?s' _) <= 1 => set (s1 := s') end.
         case_bool_decide as Hd.
         - subst dq. assert (Hx : length (dws s) <= length (dws s)) by lia. rewrite (I2 _ Hx) in Hu.
           assert (will s1 (length (dws s)) = false) as ->.
           { unfold will, getdw; cbn. rewrite lookup_app_r by lia. by rewrite Nat.sub_diag. }
           cbn. lia.
         - destruct (will s1 dq) eqn:Ew; [|cbn; lia]. rewrite (will_app s dq (DWNotWoken, None) s1 eq_refl) in I1 by done. cbn in *. lia. }
    (* setdw *)
    all: match goal with |- _ + b2n (will (setstack (setdw _ ?d ?c) _ _) _) <= 1 =>
           change (will (setstack (setdw s d c) _ _) dq) with (will (setdw s d c) dq);
           destruct (decide (dq = d)) as [->|Hne]; [|rewrite will_setdw_ne by done; repeat case_bool_decide; try congruence; lia] end.
    all: repeat case_bool_decide; try congruence.
    all: try (destruct (will s d); destruct (will (setdw s d _) d); cbn in *; lia).
    all: match goal with |- _ + b2n (will ?x ?dd) <= 1 => destruct (will x dd) eqn:Ew; [|cbn in *; lia] end.
    all: apply will_setdw_eq in Ew; cbn in Ew; pose proof (dc_wake _ HD d0) as Hn; rewrite E1 in Hn; done.
  Qed.
End Pres.

Lemma init_dw scripts npool nev : Inv_dw (init scripts npool nev).
Proof. split; intros d; [|intros _]; rewrite np_init by done; [|done]. unfold will, getdw, init; cbn [dws]. rewrite lookup_nil. cbn. lia. Qed.
