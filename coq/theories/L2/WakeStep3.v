(* C06: preservation of the wake invariant, DrainWaker / DoubleWaker / wake_with / fire (part 3) *)
From stdpp Require Import list numbers option.
From RecordUpdate Require Import RecordUpdate.
From L2 Require Import Model Base Own Jobs Shape DwInv Wake WakeInv WakeLem WakeStep1 WakeStep2.
#[global] Unset Lia Cache.

Lemma getdw_setdw_eq s d c : d < length s.(dws) -> getdw (setdw s d c) d = c.
Proof. intros H. unfold getdw, setdw; cbn. by rewrite list_lookup_insert. Qed.
Lemma getdw_setdw_ne s d d2 c : d2 <> d -> getdw (setdw s d c) d2 = getdw s d2.
Proof. intros H. unfold getdw, setdw; cbn. by rewrite list_lookup_insert_ne. Qed.
Lemma getdbl_setdbl_ne s k k2 c : k2 <> k -> getdbl (setdbl s k c) k2 = getdbl s k2.
Proof. intros H. unfold getdbl, setdbl; cbn. by rewrite list_lookup_insert_ne. Qed.
Lemma getdbl_setdbl_none s k : getdbl (setdbl s k None) k = None.
Proof.
  unfold getdbl, setdbl; cbn. destruct (decide (k < length (dbl s))).
  - by rewrite list_lookup_insert.
  - by rewrite lookup_ge_None_2 by (rewrite insert_length; lia).
Qed.
Lemma effw_dbl s s' w : s'.(dbl) = s.(dbl) -> effw s' w = effw s w. Proof. apply effw_same. Qed.
Lemma effq_setdw_ne s d c w : w <> WDrain d -> effq (setdw s d c) w = effq s w.
Proof.
  intros Hw. destruct w as [| |d2| |]; cbn; try done.
  rewrite getdw_setdw_ne by congruence. destruct (getdw s d2) as [[] [w|]]; try done.
Qed.
Lemma effw_effq s w : effw s w = true -> effq s w = true. Proof. by destruct w. Qed.
Lemma carried_lt s d : Inv_dw s -> np (carries d) s > 0 -> d < length s.(dws).
Proof. intros [_ I2] H. destruct (decide (d < length (dws s))); [done|]. rewrite I2 in H; lia. Qed.
Lemma dw_woken_setdw_eq s d slot : d < length s.(dws) -> dw_woken (setdw s d (DWWoken, slot)) d = true.
Proof. intros H. unfold dw_woken. by rewrite getdw_setdw_eq. Qed.
Lemma dw_woken_setdw_ne s d d2 c : d2 <> d -> dw_woken (setdw s d c) d2 = dw_woken s d2.
Proof. intros H. unfold dw_woken. by rewrite getdw_setdw_ne. Qed.

Section Steps.
  Context (T : ftables) (HT : own_cond T) (HC : jobs_cond T) (HW : wake_cond T).

  (* DrainWaker.wake: state := Woken; the stored waker (if any) is called *)
  Lemma ws_wake_drain s a d st slot rest : Inv_own s -> Inv_dw s -> Inv_wake s ->
    stacks s !! a = Some (FWake (WDrain d) :: rest) -> getdw s d = (st, slot) ->
    let now := match st with DWWillWake => true | _ => false end in
    Inv_wake (setstack (setdw s d (DWWoken, if now then None else slot)) a ((if now then opt_wake slot else []) ++ rest)).
  Proof.
    intros HO HD [IF IQ] Hst E0 now.
    set (pre := if now then opt_wake slot else []). set (s0 := setdw s d _). set (s' := setstack _ _ _).
    assert (Hs : stacks s' = <[a := pre ++ rest]> (stacks s)) by (subst s' s0; solve_stacks).
    assert (Hpre : forall fr, fr ∈ pre -> exists w, fr = FWake w).
    { subst pre. destruct now; [|by intros fr ?%elem_of_nil]. destruct slot as [w|]; [|by intros fr ?%elem_of_nil].
      intros fr ->%elem_of_list_singleton. by exists w. }
    assert (Hnf : forall fr, fr ∈ pre ++ rest -> fr ∈ rest \/ frame_ok s' a fr = true).
    { intros fr [Hin|Hin]%elem_of_app; [right|by left]. by destruct (Hpre _ Hin) as [w ->]. }
    assert (Hnw : forall w, w <> WDrain d -> np (is_wake w) s <= np (is_wake w) s').
    { intros w Hw. eapply np_mono; [exact Hst|exact Hs|]. rewrite cntf_app. cbn. rewrite bool_decide_false by congruence. lia. }
    assert (Hnp : forall P, (forall w, P (FWake w) = false) -> np P s' = np P s).
    { intros P HP. eapply np_same; [exact Hst|exact Hs|]. rewrite cntf_app. cbn. rewrite HP.
      assert (cntf P pre = 0); [|lia]. subst pre. destruct now; [by apply cntf_opt_wake|done]. }
    assert (Hgd : forall e d2, np (carries d2) s > 0 -> gd s e d2 = true -> gd s' e d2 = true).
    { intros e d2 Hc. unfold gd. destruct (decide (d2 = d)) as [->|Hne].
      - intros _. change (dw_woken s' d) with (dw_woken s0 d). subst s0.
        rewrite dw_woken_setdw_eq by (by apply carried_lt). by rewrite orb_true_r.
      - change (dw_woken s' d2) with (dw_woken s0 d2). subst s0. rewrite dw_woken_setdw_ne by done.
        rewrite (unfreg_evs s s') by done. rewrite !orb_true_iff. intros [[?|?]|?]; [by left; left| |by right].
        left; right. eapply posb_mono; [apply Hnw; congruence|done]. }
    split.
    - eapply (frames_other_tview s _ a _ rest _ HO IF Hst); [exact Hs|exact Hnf|]. intros _.
      apply tview_mono_gd; try done.
      + intros w [->|[c ->]]; by apply Hnw.
      + intros c _. apply unp_mono; [subst s' s0; by rewrite tokb_setstack|]. by rewrite Hnp.
    - eapply (queue_ok_mono s); try done; [|by rewrite Hnp|by rewrite Hnp].
      intros e. rewrite (cover_iff s e).
      assert (Hdr : effq s (WDrain d) = true -> cover s' e = true).
      { cbn. rewrite E0. intros He. destruct st; try done. destruct slot as [w'|]; [|done].
        apply cover_iff. right; left. exists a, w'. split.
        - eapply fsat_new; [exact Hst|exact Hs|]. apply elem_of_app. left. subst pre now. cbn. left.
        - apply effw_effq. by rewrite (effw_dbl s s'). }
      assert (Heq : forall w, w <> WDrain d -> effq s' w = effq s w).
      { intros w Hw. change (effq s' w) with (effq s0 w). subst s0. by apply effq_setdw_ne. }
      intros [(Hf & w & Hin & He)|[(c & w & Hf & He)|(c & d2 & w & Hf & He & Hg)]].
      + destruct (decide (w = WDrain d)) as [->|Hne]; [by apply Hdr|].
        apply cover_iff. left. split; [done|]. exists w. split; [done|]. by rewrite Heq.
      + destruct (decide (w = WDrain d)) as [->|Hne]; [by apply Hdr|].
        apply cover_iff. right; left. exists c, w. split; [|by rewrite Heq].
        eapply fsat_keep_rest; [exact Hst|exact Hs|exact Hf|congruence].
      + apply cover_iff. right; right. exists c, d2, w. split; [|split].
        * eapply fsat_keep_rest; [exact Hst|exact Hs|exact Hf|congruence].
        * by rewrite (effw_dbl s s').
        * apply Hgd; [|done]. apply np_pos_fsat. exists c, (FWakeWith d2 w). split; [done|]. cbn. by apply bool_decide_eq_true.
  Qed.

  Lemma effw_setdbl s k w : effw s w = true -> effw (setdbl s k None) w = true \/ dbl_q s k = true.
  Proof.
    destruct w as [| | | |k2]; cbn; try (by left). destruct (decide (k2 = k)) as [->|Hne]; [by right|].
    unfold dbl_q. rewrite getdbl_setdbl_ne by done. by left.
  Qed.
  Lemma effq_setdbl s k w : effq s w = true -> effq (setdbl s k None) w = true \/ dbl_q s k = true.
  Proof.
    destruct w as [| |d| |k2]; try apply effw_setdbl. cbn.
    change (getdw (setdbl s k None) d) with (getdw s d). destruct (getdw s d) as [[] [w|]]; try done. apply effw_setdbl.
  Qed.

  (* DoubleWaker.wake *)
  Lemma ws_wake_double_some s a k w1 w2 rest : Inv_own s -> Inv_wake s ->
    stacks s !! a = Some (FWake (WDouble k) :: rest) -> getdbl s k = Some (w1, w2) ->
    Inv_wake (setstack (setdbl s k None) a (FWake w1 :: FWake w2 :: rest)).
  Proof.
    intros HO [IF IQ] Hst E0. set (s0 := setdbl s k None). set (s' := setstack _ _ _).
    assert (Hs : stacks s' = <[a := [FWake w1; FWake w2] ++ rest]> (stacks s)) by (subst s' s0; solve_stacks).
    assert (Hnw : forall w, usedw w = true -> np (is_wake w) s <= np (is_wake w) s').
    { intros w Hw. eapply np_mono; [exact Hst|exact Hs|]. destruct w; try done; cnt_le. }
    assert (Hnp : forall P, (forall w, P (FWake w) = false) -> np P s' = np P s).
    { intros P HP. eapply np_same; [exact Hst|exact Hs|]. cbn. rewrite !HP. lia. }
    split.
    - eapply (frames_other_tview s _ a _ rest _ HO IF Hst); [exact Hs| |].
      { intros fr [->|[->|Hin]%elem_of_cons]%elem_of_cons; [by right|by right|by left]. }
      intros _. apply tview_mono; try done.
      intros c _. apply unp_mono; [subst s' s0; by rewrite tokb_setstack|]. by rewrite Hnp.
    - eapply (queue_ok_mono s); try done; [|by rewrite Hnp|by rewrite Hnp].
      intros e. rewrite (cover_iff s e).
      assert (Hgd : forall d, gd s e d = true -> gd s' e d = true).
      { intros d. apply gd_np; [done|done|]. by apply Hnw. }
      assert (Hk : dbl_q s k = true -> cover s' e = true).
      { unfold dbl_q. rewrite E0. intros Hq. destruct w1; try done.
        apply cover_iff. right; left. exists a, WQueue. split; [|done]. eapply fsat_new; [exact Hst|exact Hs|left]. }
      intros [(Hf & w & Hin & He)|[(c & w & Hf & He)|(c & d2 & w & Hf & He & Hg)]].
      + destruct (effq_setdbl s k w He) as [He'|?]; [|by apply Hk].
        apply cover_iff. left. split; [done|]. by exists w.
      + destruct (effq_setdbl s k w He) as [He'|?]; [|by apply Hk].
        destruct (decide (w = WDouble k)) as [->|Hne].
        { exfalso. cbn in He'. unfold dbl_q in He'. by rewrite getdbl_setdbl_none in He'. }
        apply cover_iff. right; left. exists c, w. split; [|done].
        eapply fsat_keep_rest; [exact Hst|exact Hs|exact Hf|congruence].
      + destruct (effw_setdbl s k w He) as [He'|?]; [|by apply Hk].
        apply cover_iff. right; right. exists c, d2, w. split; [|split; [done|by apply Hgd] ].
        eapply fsat_keep_rest; [exact Hst|exact Hs|exact Hf|congruence].
  Qed.

  Lemma ws_wake_double_none s a k rest : Inv_own s -> Inv_wake s ->
    stacks s !! a = Some (FWake (WDouble k) :: rest) -> getdbl s k = None -> Inv_wake (setstack s a rest).
  Proof.
    intros HO [IF IQ] Hst E0. set (s' := setstack _ _ _).
    assert (Hs : stacks s' = <[a := [] ++ rest]> (stacks s)) by (subst s'; solve_stacks).
    assert (Hnw : forall w, usedw w = true -> np (is_wake w) s <= np (is_wake w) s').
    { intros w Hw. eapply np_mono; [exact Hst|exact Hs|]. destruct w; try done; cnt_le. }
    assert (Hnp : forall P, (forall w, P (FWake w) = false) -> np P s' = np P s).
    { intros P HP. eapply np_same; [exact Hst|exact Hs|]. cbn. by rewrite HP. }
    split.
    - eapply (frames_other_tview s _ a _ rest _ HO IF Hst); [exact Hs|new_in_rest|].
      intros _. apply tview_mono; try done.
      intros c _. apply unp_mono; [subst s'; by rewrite tokb_setstack|]. by rewrite Hnp.
    - eapply (queue_ok_mono s); try done; [|by rewrite Hnp|by rewrite Hnp].
      intros e. eapply (cover_keep s s' a _ rest []); try done.
      + intros d _. apply gd_np; [done|done|]. by apply Hnw.
      + intros w [= <-]. cbn. unfold dbl_q. by rewrite E0.
  Qed.

  Lemma getdw_lookup s d st slot : getdw s d = (st, slot) -> st <> DWNotWoken -> s.(dws) !! d = Some (st, slot).
  Proof. unfold getdw. destruct (dws s !! d) as [x|]; cbn; [by intros ->|]. intros [= <- <-]. done. Qed.

  (* DrainWaker.wake_with when the drain waker has already been woken: the new waker is called at once *)
  Lemma ws_wake_with_now s a d w slot rest : Inv_own s -> Inv_wake s ->
    stacks s !! a = Some (FWakeWith d w :: rest) -> getdw s d = (DWWoken, slot) ->
    Inv_wake (setstack (setdw s d (DWWoken, slot)) a (FWake w :: rest)).
  Proof.
    intros HO [IF IQ] Hst E0. set (s' := setstack _ _ _).
    assert (Hd : dws s' = dws s).
    { subst s'. cbn. apply list_insert_id. by apply getdw_lookup. }
    assert (Hs : stacks s' = <[a := [FWake w] ++ rest]> (stacks s)) by (subst s'; solve_stacks).
    assert (Hnw : forall w0, np (is_wake w0) s <= np (is_wake w0) s') by (intros w0; eapply np_mono; [exact Hst|exact Hs|cnt_le]).
    assert (Hnp : forall P, (forall w, P (FWake w) = false) -> (forall d w, P (FWakeWith d w) = false) -> np P s' = np P s).
    { intros P HP1 HP2. eapply np_same; [exact Hst|exact Hs|]. cbn. by rewrite HP1, HP2. }
    assert (Hgd : forall e d2, gd s e d2 = true -> gd s' e d2 = true) by (intros e d2; by apply gd_np).
    split.
    - eapply (frames_other_tview s _ a _ rest _ HO IF Hst); [exact Hs| |].
      { intros fr [->|Hin]%elem_of_cons; [by right|by left]. }
      intros _. apply tview_mono_gd; try done.
      + intros c _. apply unp_mono; [subst s'; by rewrite tokb_setstack|]. by rewrite Hnp.
      + intros e d2 _. apply Hgd.
    - eapply (queue_ok_mono s); try done; [|by rewrite Hnp|by rewrite Hnp].
      intros e. eapply (cover_keep s s' a _ rest [FWake w]); try done.
      + intros d2 _. apply Hgd.
      + intros d2 w2 [= <- <-] He _. apply cover_iff. right; left. exists a, w. split.
        * eapply fsat_new; [exact Hst|exact Hs|left].
        * apply effw_effq. by rewrite (effw_same s s').
  Qed.

  (* DrainWaker.wake_with when not yet woken: the waker is installed *)
  Lemma ws_wake_with_later s a d w st slot rest : Inv_own s -> Inv_dw s -> Inv_wake s ->
    stacks s !! a = Some (FWakeWith d w :: rest) -> getdw s d = (st, slot) -> st <> DWWoken ->
    Inv_wake (setstack (setdw s d (DWWillWake, Some w)) a rest).
  Proof.
    intros HO HD [IF IQ] Hst E0 Hnwk. set (s0 := setdw s d _). set (s' := setstack _ _ _).
    assert (Hs : stacks s' = <[a := [] ++ rest]> (stacks s)) by (subst s' s0; solve_stacks).
    assert (Hcar : np (carries d) s > 0).
    { apply np_pos_fsat. exists a, (FWakeWith d w). split; [eexists; split; [exact Hst|left]|]. cbn. by apply bool_decide_eq_true. }
    assert (Hlt : d < length (dws s)) by (by apply carried_lt).
    assert (Hst0 : st = DWNotWoken).
    { pose proof (id_one _ HD d) as H. assert (Hw : will s d = false) by (destruct (will s d); [cbn in H; lia|done]).
      unfold will in Hw. rewrite E0 in Hw. cbn in Hw. by destruct st. }
    subst st.
    assert (Hnw : forall w0, np (is_wake w0) s' = np (is_wake w0) s) by (intros w0; by eapply np_same; [exact Hst|exact Hs|]).
    assert (Hnp : forall P, (forall d w, P (FWakeWith d w) = false) -> np P s' = np P s).
    { intros P HP. eapply np_same; [exact Hst|exact Hs|]. cbn. by rewrite HP. }
    assert (Hgd : forall e d2, gd s e d2 = true -> gd s' e d2 = true).
    { intros e d2. unfold gd. rewrite (unfreg_evs s s') by done. rewrite Hnw. change (dw_woken s' d2) with (dw_woken s0 d2).
      destruct (decide (d2 = d)) as [->|Hne]; [|subst s0; by rewrite dw_woken_setdw_ne].
      unfold dw_woken at 1. rewrite E0. cbn. rewrite orb_false_r. intros ->. done. }
    split.
    - eapply (frames_other_tview s _ a _ rest _ HO IF Hst); [exact Hs|new_in_rest|].
      intros _. apply tview_mono_gd; try done.
      + intros w0 _. by rewrite Hnw.
      + intros c _. apply unp_mono; [subst s' s0; by rewrite tokb_setstack|]. by rewrite Hnp.
      + intros e d2 _. apply Hgd.
    - eapply (queue_ok_mono s); try done; [|by rewrite Hnp|by rewrite Hnp].
      intros e. rewrite (cover_iff s e).
      assert (Hnd : effq s (WDrain d) = false) by (cbn; by rewrite E0).
      assert (Heq : forall w0, w0 <> WDrain d -> effq s' w0 = effq s w0).
      { intros w0 Hw. change (effq s' w0) with (effq s0 w0). subst s0. by apply effq_setdw_ne. }
      assert (Hed : effw s w = true -> effq s' (WDrain d) = true).
      { intros He. change (effq s' (WDrain d)) with (effq s0 (WDrain d)). subst s0. cbn. rewrite getdw_setdw_eq by done.
        by rewrite (effw_dbl s (setdw s d (DWWillWake, Some w))). }
      intros [(Hf & w0 & Hin & He)|[(c & w0 & Hf & He)|(c & d2 & w2 & Hf & He & Hg)]].
      + destruct (decide (w0 = WDrain d)) as [->|Hne]; [congruence|].
        apply cover_iff. left. split; [done|]. exists w0. split; [done|]. by rewrite Heq.
      + destruct (decide (w0 = WDrain d)) as [->|Hne]; [congruence|].
        apply cover_iff. right; left. exists c, w0. split; [|by rewrite Heq].
        eapply fsat_keep_rest; [exact Hst|exact Hs|exact Hf|congruence].
      + destruct (decide (FWakeWith d2 w2 = FWakeWith d w)) as [[= -> ->]|Hne].
        * (* the wake_with being executed: its guarantee now goes through the installed waker *)
          unfold gd in Hg. unfold dw_woken in Hg. rewrite E0 in Hg. cbn in Hg. rewrite orb_false_r in Hg.
          apply orb_true_iff in Hg as [Hu|Hn].
          -- unfold unfreg in Hu. apply andb_true_iff in Hu as [Hu1 Hu2]. apply negb_true_iff in Hu1. apply bool_decide_eq_true in Hu2.
             apply cover_iff. left. split; [done|]. exists (WDrain d). split; [done|by apply Hed].
          -- apply posb_true, np_pos_fsat in Hn as (c2 & fr & Hf2 & Hp). destruct fr; try done. cbn in Hp. apply bool_decide_eq_true in Hp as ->.
             apply cover_iff. right; left. exists c2, (WDrain d). split; [|by apply Hed].
             eapply fsat_keep_rest; [exact Hst|exact Hs|exact Hf2|congruence].
        * apply cover_iff. right; right. exists c, d2, w2. split; [|split; [by rewrite (effw_dbl s s')|by apply Hgd] ].
          eapply fsat_keep_rest; [exact Hst|exact Hs|exact Hf|congruence].
  Qed.

  Lemma getev_setev_ne s e0 e c : e <> e0 -> getev (setev s e0 c) e = getev s e.
  Proof. intros H. unfold getev, setev; cbn. by rewrite list_lookup_insert_ne. Qed.
  Lemma elem_of_rev {A} (x : A) l : x ∈ l -> x ∈ rev l.
  Proof. rewrite !elem_of_list_In. apply in_rev. Qed.
  Lemma in_wake_frames w ws : w ∈ ws -> FWake w ∈ wake_frames ws.
  Proof. intros H. unfold wake_frames. by apply elem_of_list_fmap_1. Qed.

  (* an external event fires: every registered waker is taken and called *)
  Lemma ws_fire s a e0 rest : Inv_own s -> Inv_wake s -> stacks s !! a = Some (FFire e0 :: rest) ->
    Inv_wake (setstack (setev s e0 {| fired := true; wakers := [] |}) a (wake_frames (rev (getev s e0).(wakers)) ++ rest)).
  Proof.
    intros HO [IF IQ] Hst. set (ws := rev (wakers (getev s e0))). set (s0 := setev s e0 _). set (s' := setstack _ _ _).
    assert (Hs : stacks s' = <[a := wake_frames ws ++ rest]> (stacks s)) by (subst s' s0; solve_stacks).
    assert (Hnw : forall w, np (is_wake w) s <= np (is_wake w) s').
    { intros w. eapply np_mono; [exact Hst|exact Hs|]. rewrite cntf_app. cbn. lia. }
    assert (Hnp : forall P, (forall w, P (FWake w) = false) -> P (FFire e0) = false -> np P s' = np P s).
    { intros P HP1 HP2. eapply np_same; [exact Hst|exact Hs|]. rewrite cntf_app, cntf_wake_frames by done. cbn. by rewrite HP2. }
    assert (Hu : forall e w, unfreg s e w = true -> unfreg s' e w = true \/ posb (np (is_wake w) s') = true).
    { intros e w Hu. destruct (decide (e = e0)) as [->|Hne].
      - right. unfold unfreg in Hu. apply andb_true_iff in Hu as [_ Hin]. apply bool_decide_eq_true in Hin.
        eapply (np_pos_wake s' a). eapply fsat_new; [exact Hst|exact Hs|]. apply elem_of_app. left. apply in_wake_frames. subst ws. by apply elem_of_rev.
      - left. unfold unfreg in *. change (getev s' e) with (getev s0 e). subst s0. by rewrite getev_setev_ne. }
    assert (Hnf : forall fr, fr ∈ wake_frames ws ++ rest -> fr ∈ rest \/ frame_ok s' a fr = true).
    { intros fr [Hin|Hin]%elem_of_app; [right|by left]. unfold wake_frames in Hin. by apply elem_of_list_fmap in Hin as (w & -> & _). }
    assert (Hgd : forall e d, gd s e d = true -> gd s' e d = true).
    { intros e d. unfold gd. rewrite !orb_true_iff. intros [[H|H]|H]; [|left; right; eapply posb_mono; [apply Hnw|done]|by right].
      destruct (Hu _ _ H); [by left; left|by left; right]. }
    split.
    - eapply (frames_other_tview s _ a _ rest _ HO IF Hst); [exact Hs|exact Hnf|]. intros _.
      apply tview_swap; try done.
      intros c _. apply unp_mono; [subst s' s0; by rewrite tokb_setstack|]. by rewrite Hnp.
    - eapply (queue_ok_mono s); try done; [|by rewrite Hnp|by rewrite Hnp].
      intros e. rewrite (cover_iff s e).
      assert (Heq : forall w, effq s' w = effq s w) by (intros w; by apply effq_same).
      intros [(Hf & w & Hin & He)|[(c & w & Hf & He)|(c & d2 & w2 & Hf & He & Hg)]].
      + destruct (decide (e = e0)) as [->|Hne].
        * apply cover_iff. right; left. exists a, w. split; [|by rewrite Heq].
          eapply fsat_new; [exact Hst|exact Hs|]. apply elem_of_app. left. apply in_wake_frames. subst ws. by apply elem_of_rev.
        * apply cover_iff. left. change (getev s' e) with (getev s0 e). subst s0. rewrite getev_setev_ne by done.
          split; [done|]. exists w. split; [done|by rewrite Heq].
      + apply cover_iff. right; left. exists c, w. split; [|by rewrite Heq].
        eapply fsat_keep_rest; [exact Hst|exact Hs|exact Hf|congruence].
      + apply cover_iff. right; right. exists c, d2, w2. split; [|split; [by rewrite (effw_same s s')|by apply Hgd] ].
        eapply fsat_keep_rest; [exact Hst|exact Hs|exact Hf|congruence].
  Qed.
End Steps.
