(* C06: lemmas about how the observations used by the wake invariant change *)
From stdpp Require Import list numbers option.
From RecordUpdate Require Import RecordUpdate.
From L2 Require Import Model Base Own Jobs DwInv Wake WakeInv.
#[global] Unset Lia Cache.

Lemma fsat_upd s s' a old new c fr :
  stacks s !! a = Some old -> stacks s' = <[a := new]> (stacks s) -> fsat s' c fr ->
  (c = a /\ fr ∈ new) \/ (c <> a /\ fsat s c fr).
Proof.
  intros Ha Hs (st & Hc & Hin). rewrite Hs in Hc. destruct (decide (c = a)) as [->|Hne].
  - left. split; [done|]. rewrite list_lookup_insert in Hc by (by eapply lookup_lt_Some). by injection Hc as <-.
  - right. split; [done|]. rewrite list_lookup_insert_ne in Hc by done. by exists st.
Qed.

Lemma cntf_zero_all P st : cntf P st = 0 -> forall fr, fr ∈ st -> P fr = false.
Proof.
  intros H fr Hin. destruct (P fr) eqn:E; [|done]. exfalso.
  assert (cntf P st > 0) by (apply cntf_pos; by exists fr). lia.
Qed.
Lemma marker_unique s a fr0 rest :
  Inv_own s -> stacks s !! a = Some (fr0 :: rest) -> marker fr0 = true ->
  (forall fr, fr ∈ rest -> marker fr = false) /\ (forall c fr, c <> a -> fsat s c fr -> marker fr = false).
Proof.
  intros [I1 _ _] Ha Hm. pose proof (b2n_owned_le (qs s)) as Hle. rewrite <- I1 in Hle.
  pose proof (npl_ge marker _ _ _ Ha) as H1. fold (np marker s) in H1. cbn in H1. rewrite Hm in H1.
  split.
  - apply cntf_zero_all. lia.
  - intros c fr Hne (st & Hc & Hin).
    assert (H2 := npl_insert marker (stacks s) a _ [] Ha). cbn in H2. rewrite Hm in H2.
    assert (Hc' : <[a := []]> (stacks s) !! c = Some st) by (by rewrite list_lookup_insert_ne).
    pose proof (npl_ge marker _ _ _ Hc') as H3. unfold np in *.
    apply (cntf_zero_all marker st); [lia|done].
Qed.
Lemma nonmarker_ok s c fr : marker fr = false -> frame_ok s c fr = true.
Proof. by destruct fr. Qed.

(* the runner steps: only its new frames carry obligations *)
Lemma frames_runner_step s s' a fr0 rest pre :
  Inv_own s -> stacks s !! a = Some (fr0 :: rest) -> marker fr0 = true -> stacks s' = <[a := pre ++ rest]> (stacks s) ->
  (forall fr, fr ∈ pre -> frame_ok s' a fr = true) ->
  forall c fr, fsat s' c fr -> frame_ok s' c fr = true.
Proof.
  intros HO Ha Hm Hs Hpre c fr Hf. destruct (marker_unique s a fr0 rest HO Ha Hm) as [Hr Ho].
  destruct (fsat_upd _ _ _ _ _ _ _ Ha Hs Hf) as [[-> Hin]|[Hne Hf']].
  - apply elem_of_app in Hin as [Hin|Hin]; [by apply Hpre|]. apply nonmarker_ok. by apply Hr.
  - apply nonmarker_ok. by eapply Ho.
Qed.
(* the other steps: the runner's frames must stay satisfied *)
Lemma frames_other_step s s' a fr0 rest pre :
  stacks s !! a = Some (fr0 :: rest) -> stacks s' = <[a := pre ++ rest]> (stacks s) ->
  (forall fr, fr ∈ pre -> frame_ok s' a fr = true) ->
  (forall c fr, marker fr = true -> fsat s c fr -> frame_ok s c fr = true -> frame_ok s' c fr = true) ->
  (forall c fr, fsat s c fr -> frame_ok s c fr = true) ->
  forall c fr, fsat s' c fr -> frame_ok s' c fr = true.
Proof.
  intros Ha Hs Hpre Hst HI c fr Hf.
  destruct (marker fr) eqn:Hm; [|by apply nonmarker_ok].
  destruct (fsat_upd _ _ _ _ _ _ _ Ha Hs Hf) as [[-> Hin]|[Hne Hf']].
  - apply elem_of_app in Hin as [Hin|Hin]; [by apply Hpre|].
    assert (fsat s a fr) by (exists (fr0 :: rest); split; [done|by right]). by apply Hst; [|  |apply HI].
  - by apply Hst; [| |apply HI].
Qed.

(* ---------- frames the wake invariant looks at, and steps that do not touch them ---------- *)
Definition relv (fr : frame) : bool :=
  match fr with FWake _ | FUnpark _ | FRQ1 | FRQ2 | FD2 | FWakeWith _ _ => true | _ => false end.
Fixpoint frelv (st : list frame) : list frame :=
  match st with [] => [] | fr :: r => if relv fr then fr :: frelv r else frelv r end.
Lemma cntf_frelv P st : (forall fr, P fr = true -> relv fr = true) -> cntf P (frelv st) = cntf P st.
Proof.
  intros H. induction st as [|x st IH]; cbn; [done|]. destruct (relv x) eqn:E; cbn; [by rewrite IH|].
  destruct (P x) eqn:E2; [rewrite (H _ E2) in E; done|by rewrite IH].
Qed.
Lemma existsb_frelv (f : frame -> bool) st : (forall fr, f fr = true -> relv fr = true) -> existsb f (frelv st) = existsb f st.
Proof.
  intros H. induction st as [|x st IH]; cbn; [done|]. destruct (relv x) eqn:E; cbn; [by rewrite IH|].
  destruct (f x) eqn:E2; [rewrite (H _ E2) in E; done|by rewrite IH].
Qed.
Lemma exf_insert (f : frame -> bool) (L : list (list frame)) a old new : L !! a = Some old -> existsb f new = existsb f old ->
  existsb (existsb f) (<[a := new]> L) = existsb (existsb f) L.
Proof.
  revert a; induction L as [|x L IH]; intros [|a]; cbn; try done.
  - intros [= ->] ->. done.
  - intros H1 H2. change (existsb f x || existsb (existsb f) (<[a:=new]> L) = existsb f x || existsb (existsb f) L). by rewrite (IH a).
Qed.
Lemma exf_ext (f g : frame -> bool) s : (forall fr, f fr = g fr) -> exf f s = exf g s.
Proof.
  intros H. unfold exf. induction (stacks s) as [|x L IH]; cbn; [done|]. rewrite IH. f_equal.
  induction x as [|y x IHx]; cbn; [done|]. by rewrite H, IHx.
Qed.

Record qview (s s' : state) : Prop := {
  qv_evs : forall e, getev s' e = getev s e \/ ((getev s' e).(wakers) = [] /\ (getev s e).(wakers) = []);   (* fresh cells may be added *)
  qv_dws : s'.(dws) = s.(dws); qv_dbl : s'.(dbl) = s.(dbl); qv_toks : toks s' = toks s;
  qv_np : forall P, (forall fr, P fr = true -> relv fr = true) -> np P s' = np P s;
  qv_exf : forall f, (forall fr, f fr = true -> relv fr = true) -> exf f s' = exf f s;
}.
Lemma qview_intro s s' a old new :
  stacks s !! a = Some old -> stacks s' = <[a := new]> (stacks s) -> frelv new = frelv old ->
  s'.(evs) = s.(evs) -> s'.(dws) = s.(dws) -> s'.(dbl) = s.(dbl) -> toks s' = toks s -> qview s s'.
Proof.
  intros Ha Hs Hr H1 H2 H3 H4. split; try done.
  - intros e. left. unfold getev. by rewrite H1.
  - intros P HP. pose proof (np_upd P s s' a old new Ha Hs) as H.
    rewrite <- (cntf_frelv P old HP), <- (cntf_frelv P new HP), Hr in H. lia.
  - intros f Hf. unfold exf. rewrite Hs. apply (exf_insert f _ a old new Ha).
    by rewrite <- (existsb_frelv f old Hf), <- (existsb_frelv f new Hf), Hr.
Qed.

Lemma qview_intro_alloc s s' a old new k :
  stacks s !! a = Some old -> stacks s' = <[a := new]> (stacks s) -> frelv new = frelv old ->
  s'.(evs) = s.(evs) ++ replicate k ev_new -> s'.(dws) = s.(dws) -> s'.(dbl) = s.(dbl) -> toks s' = toks s -> qview s s'.
Proof.
  intros Ha Hs Hr H1 H2 H3 H4. split; try done.
  - intros e. unfold getev. rewrite H1. destruct (decide (e < length (evs s))).
    + left. by rewrite lookup_app_l.
    + right. rewrite (lookup_ge_None_2 (evs s)) by lia. split; [|done].
      destruct ((evs s ++ replicate k ev_new) !! e) as [c|] eqn:E; [|done]. cbn.
      rewrite lookup_app_r in E by lia. by apply lookup_replicate in E as [-> _].
  - intros P HP. pose proof (np_upd P s s' a old new Ha Hs) as H.
    rewrite <- (cntf_frelv P old HP), <- (cntf_frelv P new HP), Hr in H. lia.
  - intros f Hf. unfold exf. rewrite Hs. apply (exf_insert f _ a old new Ha).
    by rewrite <- (existsb_frelv f old Hf), <- (existsb_frelv f new Hf), Hr.
Qed.

Section Quiet.
  Context (s s' : state) (Q : qview s s').
  Lemma q_getev e : getev s' e = getev s e \/ ((getev s' e).(wakers) = [] /\ (getev s e).(wakers) = []). Proof. apply (qv_evs _ _ Q). Qed.
  Lemma q_getdw d : getdw s' d = getdw s d. Proof. unfold getdw. by rewrite (qv_dws _ _ Q). Qed.
  Lemma q_getdbl k : getdbl s' k = getdbl s k. Proof. unfold getdbl. by rewrite (qv_dbl _ _ Q). Qed.
  Lemma q_unfreg e w : unfreg s' e w = unfreg s e w.
  Proof.
    unfold unfreg. destruct (q_getev e) as [->|[H1 H2]]; [done|]. rewrite H1, H2.
    rewrite !bool_decide_false by (by intros ?%elem_of_nil). by rewrite !andb_false_r.
  Qed.
  Lemma q_npwake w : np (is_wake w) s' = np (is_wake w) s. Proof. apply (qv_np _ _ Q). by intros []. Qed.
  Lemma q_npunpark c : np (is_unpark c) s' = np (is_unpark c) s. Proof. apply (qv_np _ _ Q). by intros []. Qed.
  Lemma q_nprq1 : np is_rq1 s' = np is_rq1 s. Proof. apply (qv_np _ _ Q). by intros []. Qed.
  Lemma q_nppush : np is_push s' = np is_push s. Proof. apply (qv_np _ _ Q). by intros []. Qed.
  Lemma q_gq e : gq s' e = gq s e. Proof. unfold gq. by rewrite q_unfreg, q_npwake. Qed.
  Lemma q_gt c e : gt s' c e = gt s c e. Proof. unfold gt. by rewrite q_unfreg, q_npwake. Qed.
  Lemma q_gd e d : gd s' e d = gd s e d. Proof. unfold gd, dw_woken. by rewrite q_unfreg, q_npwake, q_getdw. Qed.
  Lemma q_tokb c : tokb s' c = tokb s c. Proof. unfold tokb. by rewrite (qv_toks _ _ Q). Qed.
  Lemma q_effw w : effw s' w = effw s w. Proof. destruct w; cbn; try done. unfold dbl_q. by rewrite q_getdbl. Qed.
  Lemma q_effq w : effq s' w = effq s w.
  Proof. destruct w; cbn; try done; [|unfold dbl_q; by rewrite q_getdbl]. rewrite q_getdw. destruct (getdw s d) as [[] [w|]]; try done. apply q_effw. Qed.
  Lemma q_cover e : cover s' e = cover s e.
  Proof.
    unfold cover. f_equal.
    - destruct (q_getev e) as [->|[H1 H2]]; [|rewrite H1, H2; cbn; by rewrite !andb_false_r].
      f_equal. induction (wakers (getev s e)) as [|w l IH]; cbn; [done|]. by rewrite q_effq, IH.
    - rewrite (exf_ext (cfr s' e) (cfr s e)).
      + apply (qv_exf _ _ Q). by intros [].
      + intros []; cbn; try done; [by rewrite q_effw, q_gd|apply q_effq].
  Qed.
  (* a runner's obligation survives a quiet step that leaves the queue state and the head job alone *)
  Lemma frame_ok_quiet c fr : s'.(qs) = s.(qs) -> (forall e, hsusp s = Some e -> hsusp s' = Some e) ->
    frame_ok s c fr = true -> frame_ok s' c fr = true.
  Proof.
    intros Hq Hh. destruct fr; cbn; try done; unfold awoken; rewrite ?Hq.
    all: try (destruct (susp j) as [e|]; [|done]; rewrite ?q_gq, ?q_gt, ?q_gd, ?q_tokb, ?q_npunpark; done).
    all: destruct (hsusp s) as [e|] eqn:E; [|done]; rewrite (Hh e eq_refl); rewrite ?q_gq, ?q_gd; done.
  Qed.
End Quiet.

(* variants with the new stack given as a whole *)
Lemma frames_runner_step' s s' a fr0 rest new :
  Inv_own s -> stacks s !! a = Some (fr0 :: rest) -> marker fr0 = true -> stacks s' = <[a := new]> (stacks s) ->
  (forall fr, fr ∈ new -> fr ∈ rest \/ frame_ok s' a fr = true) ->
  forall c fr, fsat s' c fr -> frame_ok s' c fr = true.
Proof.
  intros HO Ha Hm Hs Hnew c fr Hf. destruct (marker_unique s a fr0 rest HO Ha Hm) as [Hr Ho].
  destruct (fsat_upd _ _ _ _ _ _ _ Ha Hs Hf) as [[-> Hin]|[Hne Hf']].
  - destruct (Hnew _ Hin) as [Hin'|]; [|done]. apply nonmarker_ok. by apply Hr.
  - apply nonmarker_ok. by eapply Ho.
Qed.
Lemma frames_other_step' s s' a fr0 rest new :
  stacks s !! a = Some (fr0 :: rest) -> stacks s' = <[a := new]> (stacks s) ->
  (forall fr, fr ∈ new -> fr ∈ rest \/ frame_ok s' a fr = true) ->
  (forall c fr, marker fr = true -> fsat s c fr -> frame_ok s c fr = true -> frame_ok s' c fr = true) ->
  (forall c fr, fsat s c fr -> frame_ok s c fr = true) ->
  forall c fr, fsat s' c fr -> frame_ok s' c fr = true.
Proof.
  intros Ha Hs Hnew Hst HI c fr Hf.
  destruct (marker fr) eqn:Hm; [|by apply nonmarker_ok].
  destruct (fsat_upd _ _ _ _ _ _ _ Ha Hs Hf) as [[-> Hin]|[Hne Hf']].
  - destruct (Hnew _ Hin) as [Hin'|]; [|done].
    assert (fsat s a fr) by (exists (fr0 :: rest); split; [done|by right]). by apply Hst; [|  |apply HI].
  - by apply Hst; [| |apply HI].
Qed.
Lemma fsat_marker_owned s c fr : Inv_own s -> fsat s c fr -> marker fr = true -> owned s.(qs) = true.
Proof.
  intros HO (st & Hc & Hin) Hm. eapply runner_owned; [done|exact Hc|].
  assert (cntf marker st > 0) by (apply cntf_pos; by exists fr). lia.
Qed.
Lemma hsusp_push s j e : hsusp s = Some e -> match s.(jobs) ++ [j] with j0 :: _ => susp j0 | [] => None end = Some e.
Proof. unfold hsusp. by destruct (jobs s). Qed.

Ltac solve_toks :=
  rewrite ?toks_setstack;
  rewrite ?toks_addlog, ?toks_setf, ?toks_setev, ?toks_setdw, ?toks_setdbl, ?toks_setsres, ?toks_setkick, ?toks_kickall;
  rewrite ?toks_addlog, ?toks_setf, ?toks_setev, ?toks_setdw, ?toks_setdbl, ?toks_setsres, ?toks_setkick, ?toks_kickall;
  reflexivity.

Lemma queue_ok_owned s : owned s.(qs) = true -> queue_ok s = true.
Proof. unfold queue_ok. by destruct (qs s). Qed.
Lemma hsusp_jobs s s' : jobs s' = jobs s -> hsusp s' = hsusp s. Proof. unfold hsusp. by intros ->. Qed.

Section QuietQ.
  Context (s s' : state) (Q : qview s s').
  Lemma queue_ok_quiet_same : s'.(qs) = s.(qs) -> s'.(jobs) = s.(jobs) -> s'.(insched) = s.(insched) ->
    queue_ok s = true -> queue_ok s' = true.
  Proof.
    intros Hq Hj Hi. unfold queue_ok. rewrite Hq, Hj, Hi, (hsusp_jobs _ _ Hj), (q_nprq1 _ _ Q), (q_nppush _ _ Q).
    destruct (qs s); try done; destruct (hsusp s) as [e|]; try done; by rewrite (q_cover _ _ Q).
  Qed.
  Lemma queue_ok_quiet_push j : s'.(qs) = s.(qs) -> s.(qs) <> Idle -> s'.(jobs) = s.(jobs) ++ [j] -> s'.(insched) = s.(insched) ->
    queue_ok s = true -> queue_ok s' = true.
  Proof.
    intros Hq Hn Hj Hi. unfold queue_ok. rewrite Hq, Hi, (q_nprq1 _ _ Q), (q_nppush _ _ Q).
    destruct (qs s); try done; destruct (hsusp s) as [e|] eqn:E; try done.
    all: unfold hsusp; rewrite Hj, (hsusp_push s j e E); by rewrite (q_cover _ _ Q).
  Qed.
  (* a pool thread drops a stale schedule entry *)
  Lemma queue_ok_quiet_stale (T : ftables) : wake_cond T -> T.(ft_base).(t_next) s.(qs) = None ->
    s'.(qs) = s.(qs) -> s'.(jobs) = s.(jobs) -> queue_ok s = true -> queue_ok s' = true.
  Proof.
    intros HW Hn Hq Hj. unfold queue_ok. rewrite Hq, Hj, (hsusp_jobs _ _ Hj), (q_nprq1 _ _ Q), (q_nppush _ _ Q).
    destruct (qs s) eqn:E; try done.
    - destruct (hsusp s) as [e|]; try done; by rewrite (q_cover _ _ Q).
    - by rewrite (wc_next_pending _ HW) in Hn.
    - destruct (hsusp s) as [e|]; try done; by rewrite (q_cover _ _ Q).
    - by rewrite (wc_next_wfp _ HW) in Hn.
  Qed.
End QuietQ.

Lemma posb_true n : posb n = true <-> n > 0. Proof. destruct n; cbn; split; try done; lia. Qed.
Lemma existsb_true {A} (f : A -> bool) l : existsb f l = true <-> exists x, x ∈ l /\ f x = true.
Proof.
  induction l as [|y l IH]; cbn.
  - split; [done|]. intros (x & H & _). by apply elem_of_nil in H.
  - rewrite orb_true_iff, IH. split.
    + intros [H|(x & H1 & H2)]; [exists y; split; [left|done]|exists x; split; [by right|done]].
    + intros (x & [->|H1]%elem_of_cons & H2); [by left|right; by exists x].
Qed.
Lemma exf_true f s : exf f s = true <-> exists c fr, fsat s c fr /\ f fr = true.
Proof.
  unfold exf. rewrite existsb_true. split.
  - intros (st & Hin & Hex). apply existsb_true in Hex as (fr & Hfr & Hf).
    apply elem_of_list_lookup in Hin as (c & Hc). exists c, fr. split; [by exists st|done].
  - intros (c & fr & (st & Hc & Hin) & Hf). exists st. split; [by eapply elem_of_list_lookup_2|].
    apply existsb_true. by exists fr.
Qed.
Lemma np_pos_fsat P s : np P s > 0 <-> exists c fr, fsat s c fr /\ P fr = true.
Proof.
  unfold np. rewrite npl_pos. split.
  - intros (c & st & Hc & Hp). apply cntf_pos in Hp as (fr & Hin & Hp). exists c, fr. split; [by exists st|done].
  - intros (c & fr & (st & Hc & Hin) & Hp). exists c, st. split; [done|]. apply cntf_pos. by exists fr.
Qed.
Lemma gq_cover s e : gq s e = true -> cover s e = true.
Proof.
  unfold gq, cover, unfreg. rewrite !orb_true_iff, !andb_true_iff. intros [[H1 H2]|H].
  - left. split; [done|]. apply existsb_true. exists WQueue. split; [by apply bool_decide_eq_true in H2|done].
  - right. apply posb_true, np_pos_fsat in H as (c & fr & Hf & Hp). apply exf_true. exists c, fr. split; [done|].
    destruct fr; try done. cbn in Hp. apply bool_decide_eq_true in Hp as ->. done.
Qed.
Lemma owned_running st : owned st = true -> st <> WaitingForUnpark -> running st = true.
Proof. by destruct st. Qed.

(* ---------- the general transfer lemma for a runner's obligation under a step of another thread ---------- *)
Definition unp (s : state) (c : nat) : bool := tokb s c || posb (np (is_unpark c) s).
Definition isrunner (s : state) (c : nat) : Prop := exists fr, fsat s c fr /\ marker fr = true.
Record tview (s s' : state) : Prop := {
  tv_hsusp : forall e, hsusp s = Some e -> hsusp s' = Some e;
  tv_awoken : awoken s = true -> awoken s' = true;
  tv_gq : forall e, running s.(qs) = true -> gq s e = true -> gq s' e = true \/ awoken s' = true;
  tv_gt : forall c e, gt s c e = true ->
            gt s' c e = true \/ (is_wfu s'.(qs) = false /\ posb (np (is_unpark c) s') = true /\ (is_wfu s.(qs) = true \/ awoken s' = true));
  tv_wfu : is_wfu s'.(qs) = true -> is_wfu s.(qs) = true;
  tv_unp : forall c, isrunner s c -> is_wfu s.(qs) = false -> unp s c = true -> unp s' c = true;
  tv_gd : forall e d, np (carries d) s > 0 -> gd s e d = true -> gd s' e d = true;
}.
Lemma frame_ok_transfer s s' c fr : tview s s' -> fsat s c fr -> isrunner s c -> (workfr fr = true -> running s.(qs) = true) ->
  frame_ok s c fr = true -> frame_ok s' c fr = true.
Proof.
  intros [H1 H2 H3 H4 H5 H6 H7] Hfs Hrc H0. specialize (H6 c Hrc). unfold unp in H6.
  assert (Hcar : forall d, carries d fr = true -> np (carries d) s > 0) by (intros d Hd; apply np_pos_fsat; by exists c, fr).
  destruct fr; cbn; try done; cbn in H0.
  - (* FDQrequeue *) destruct (susp j); [|done]. apply H7, Hcar. cbn. by apply bool_decide_eq_true.
  - destruct (hsusp s) as [e|] eqn:E; [|done]. rewrite (H1 e eq_refl). apply H7, Hcar. cbn. by apply bool_decide_eq_true.
  - destruct (hsusp s) as [e|] eqn:E; [|done]. rewrite (H1 e eq_refl). apply H7, Hcar. cbn. by apply bool_decide_eq_true.
  - destruct (hsusp s) as [e|] eqn:E; [|done]. rewrite (H1 e eq_refl). apply H7, Hcar. cbn. by apply bool_decide_eq_true.
  - destruct (hsusp s) as [e|] eqn:E; [|done]. rewrite (H1 e eq_refl). apply H7, Hcar. cbn. by apply bool_decide_eq_true.
  - (* FROpend *) destruct (susp j) as [e|]; [|done]. rewrite !orb_true_iff. intros [Ha|Hg]; [left; by apply H2|].
    destruct (H4 _ _ Hg) as [?|(_ & _ & [Hw|?])]; [by right| |by left].
    specialize (H0 eq_refl). destruct (qs s); done.
  - (* FROcheck *) destruct (susp j) as [e|]; [|done].
    destruct (is_wfu (qs s')) eqn:Ew'; [|done]. rewrite (H5 eq_refl). intros Hg.
    destruct (H4 _ _ Hg) as [?|(? & _)]; [done|congruence].
  - (* FROpark *) destruct (susp j) as [e|]; [|done].
    destruct (is_wfu (qs s')) eqn:Ew'.
    + rewrite (H5 eq_refl). intros Hg. destruct (H4 _ _ Hg) as [?|(? & _)]; [done|congruence].
    + destruct (is_wfu (qs s)) eqn:Ew.
      * intros Hg. destruct (H4 _ _ Hg) as [->|(_ & -> & _)]; [by rewrite orb_true_r|by rewrite orb_true_r].
      * rewrite !orb_true_iff. intros [Hu|Hg].
        -- left. apply orb_true_iff. apply H6; [done|]. by apply orb_true_iff.
        -- destruct (H4 _ _ Hg) as [?|(_ & ? & _)]; [by right|left; by right].
  - (* FDRrequeue *) destruct (susp j) as [e|]; [|done]. rewrite !orb_true_iff. intros [Ha|Hg]; [left; by apply H2|].
    destruct (H3 e (H0 eq_refl) Hg); [by right|by left].
  - (* FDRpend *) destruct (hsusp s) as [e|] eqn:E; [|done]. rewrite (H1 e eq_refl). rewrite !orb_true_iff.
    intros [Ha|Hg]; [left; by apply H2|]. destruct (H3 e (H0 eq_refl) Hg); [by right|by left].
Qed.
Lemma fsat_work_running s c fr : Inv_own s -> fsat s c fr -> workfr fr = true -> running s.(qs) = true.
Proof.
  intros HO (st & Hc & Hin) Hw.
  assert (cntf workfr st > 0) by (apply cntf_pos; by exists fr).
  destruct (runner_working s c st HO Hc) as [H1 H2]; [lia|]. by apply owned_running.
Qed.

Lemma np_same P s s' a old new : stacks s !! a = Some old -> stacks s' = <[a := new]> (stacks s) ->
  cntf P new = cntf P old -> np P s' = np P s.
Proof. intros Ha Hs H. pose proof (np_upd P s s' a old new Ha Hs). lia. Qed.
Lemma np_mono P s s' a old new : stacks s !! a = Some old -> stacks s' = <[a := new]> (stacks s) ->
  cntf P old <= cntf P new -> np P s <= np P s'.
Proof. intros Ha Hs H. pose proof (np_upd P s s' a old new Ha Hs). lia. Qed.
Lemma posb_mono n m : n <= m -> posb n = true -> posb m = true.
Proof. destruct n, m; cbn; try done; lia. Qed.

Definition usedw (w : waker) : bool := match w with WQueue | WThread _ | WDrain _ => true | _ => false end.
Lemma tview_mono s s' :
  s'.(qs) = s.(qs) -> (forall e, hsusp s = Some e -> hsusp s' = Some e) ->
  (forall e w, unfreg s e w = true -> unfreg s' e w = true) ->
  (forall w, usedw w = true -> np (is_wake w) s <= np (is_wake w) s') ->
  (forall c, isrunner s c -> unp s c = true -> unp s' c = true) -> (forall d, dw_woken s d = true -> dw_woken s' d = true) ->
  tview s s'.
Proof.
  intros Hq Hh Hu Hw Hp Hd. split; rewrite ?Hq; try done.
  - unfold awoken. by rewrite Hq.
  - intros e _. unfold gq. rewrite !orb_true_iff. intros [?|?]; left; [left; by apply Hu|right; eapply posb_mono; [by apply Hw|done] ].
  - intros c e. unfold gt. rewrite !orb_true_iff. intros [?|?]; left; [left; by apply Hu|right; eapply posb_mono; [by apply Hw|done] ].
  - intros c Hc _. by apply Hp.
  - intros e d _. unfold gd. rewrite !orb_true_iff. intros [[?|?]|?]; [left; left; by apply Hu|left; right; eapply posb_mono; [by apply Hw|done]|right; by apply Hd].
Qed.
Lemma unfreg_evs s s' e w : s'.(evs) = s.(evs) -> unfreg s' e w = unfreg s e w.
Proof. intros H. unfold unfreg, getev. by rewrite H. Qed.
Lemma dw_woken_dws s s' d : s'.(dws) = s.(dws) -> dw_woken s' d = dw_woken s d.
Proof. intros H. unfold dw_woken, getdw. by rewrite H. Qed.
Lemma tokb_toks s s' c : toks s' = toks s -> tokb s' c = tokb s c.
Proof. intros H. unfold tokb. by rewrite H. Qed.

(* ---------- [cover] only looks at events, drain/double wakers and FWake / FWakeWith frames ---------- *)
Definition relw (fr : frame) : bool := match fr with FWake _ | FWakeWith _ _ => true | _ => false end.
Fixpoint frelw (st : list frame) : list frame :=
  match st with [] => [] | fr :: r => if relw fr then fr :: frelw r else frelw r end.
Lemma cntf_frelw P st : (forall fr, P fr = true -> relw fr = true) -> cntf P (frelw st) = cntf P st.
Proof.
  intros H. induction st as [|x st IH]; cbn; [done|]. destruct (relw x) eqn:E; cbn; [by rewrite IH|].
  destruct (P x) eqn:E2; [rewrite (H _ E2) in E; done|by rewrite IH].
Qed.
Lemma existsb_frelw (f : frame -> bool) st : (forall fr, f fr = true -> relw fr = true) -> existsb f (frelw st) = existsb f st.
Proof.
  intros H. induction st as [|x st IH]; cbn; [done|]. destruct (relw x) eqn:E; cbn; [by rewrite IH|].
  destruct (f x) eqn:E2; [rewrite (H _ E2) in E; done|by rewrite IH].
Qed.
Lemma cover_same s s' a old new e :
  stacks s !! a = Some old -> stacks s' = <[a := new]> (stacks s) -> frelw new = frelw old ->
  s'.(evs) = s.(evs) -> s'.(dws) = s.(dws) -> s'.(dbl) = s.(dbl) -> cover s' e = cover s e.
Proof.
  intros Ha Hs Hr H1 H2 H3.
  assert (Hnp : forall w, np (is_wake w) s' = np (is_wake w) s).
  { intros w. eapply np_same; [exact Ha|exact Hs|]. rewrite <- (cntf_frelw _ new), <- (cntf_frelw _ old), Hr; [done|by intros []|by intros []]. }
  assert (Hew : forall w, effw s' w = effw s w) by (intros []; cbn; try done; unfold dbl_q, getdbl; by rewrite H3).
  assert (Heq : forall w, effq s' w = effq s w).
  { intros []; cbn; try done; [|unfold dbl_q, getdbl; by rewrite H3]. unfold getdw. rewrite H2.
    destruct (default (DWNotWoken, None) (dws s !! d)) as [[] [w|]]; try done. }
  assert (Hgd : forall d, gd s' e d = gd s e d).
  { intros d. unfold gd. by rewrite (unfreg_evs _ _ _ _ H1), Hnp, (dw_woken_dws _ _ _ H2). }
  unfold cover, getev. rewrite H1. f_equal.
  - f_equal. induction (wakers (default ev0 (evs s !! e))) as [|w l IH]; cbn; [done|]. by rewrite Heq, IH.
  - rewrite (exf_ext (cfr s' e) (cfr s e)).
    + unfold exf. rewrite Hs. apply (exf_insert _ _ a old new Ha).
      rewrite <- (existsb_frelw (cfr s e) old), <- (existsb_frelw (cfr s e) new) by (by intros []). by rewrite Hr.
    + intros []; cbn; try done. by rewrite Hew, Hgd.
Qed.

(* frames part of the invariant for a step of a thread whose top frame is not a marker *)
Lemma frames_other_tview s s' a fr0 rest new :
  Inv_own s -> (forall c fr, fsat s c fr -> frame_ok s c fr = true) ->
  stacks s !! a = Some (fr0 :: rest) -> stacks s' = <[a := new]> (stacks s) ->
  (forall fr, fr ∈ new -> fr ∈ rest \/ frame_ok s' a fr = true) ->
  (owned s.(qs) = true -> tview s s') ->
  forall c fr, fsat s' c fr -> frame_ok s' c fr = true.
Proof.
  intros HO HI Ha Hs Hnew Htv. eapply frames_other_step'; [exact Ha|exact Hs|exact Hnew| |exact HI].
  intros c fr Hm Hf Hok. eapply frame_ok_transfer; [apply Htv; by eapply fsat_marker_owned|exact Hf|by exists fr| |exact Hok].
  intros Hw. by eapply fsat_work_running.
Qed.

Lemma unp_mono s s' c : (tokb s c = true -> tokb s' c = true) -> np (is_unpark c) s <= np (is_unpark c) s' -> unp s c = true -> unp s' c = true.
Proof. unfold unp. rewrite !orb_true_iff. intros Ht Hp [?|?]; [left; by apply Ht|right; by eapply posb_mono]. Qed.

(* ---------- [cover] as a Prop, and moving frames across a step ---------- *)
Lemma cover_iff s e : cover s e = true <->
  ((getev s e).(fired) = false /\ exists w, w ∈ (getev s e).(wakers) /\ effq s w = true)
  \/ (exists c w, fsat s c (FWake w) /\ effq s w = true)
  \/ (exists c d w, fsat s c (FWakeWith d w) /\ effw s w = true /\ gd s e d = true).
Proof.
  unfold cover. rewrite orb_true_iff, andb_true_iff, negb_true_iff, existsb_true, exf_true. split.
  - intros [[H1 H2]|(c & fr & Hf & Hc)]; [by left|right].
    destruct fr; try done; cbn in Hc; [right|left]; [|by exists c, w].
    apply andb_true_iff in Hc as [? ?]. by exists c, d, w.
  - intros [H|[(c & w & Hf & He)|(c & d & w & Hf & H1 & H2)]]; [by left| |].
    + right. by exists c, (FWake w).
    + right. exists c, (FWakeWith d w). split; [done|]. cbn. by rewrite H1, H2.
Qed.
Lemma fsat_new s s' a old new fr : stacks s !! a = Some old -> stacks s' = <[a := new]> (stacks s) -> fr ∈ new -> fsat s' a fr.
Proof. intros Ha Hs Hin. exists new. split; [|done]. rewrite Hs, list_lookup_insert; [done|by eapply lookup_lt_Some]. Qed.
Lemma fsat_keep s s' a old new c fr : stacks s !! a = Some old -> stacks s' = <[a := new]> (stacks s) ->
  fsat s c fr -> (c = a -> fr ∈ old -> fr ∈ new) -> fsat s' c fr.
Proof.
  intros Ha Hs (st & Hc & Hin) Hk. destruct (decide (c = a)) as [->|Hne].
  - rewrite Ha in Hc. injection Hc as <-. eapply fsat_new; [exact Ha|exact Hs|by apply Hk].
  - exists st. split; [|done]. by rewrite Hs, list_lookup_insert_ne.
Qed.
(* a popped top frame: every other frame occurrence survives if the rest of the stack is kept *)
Lemma fsat_keep_rest s s' a fr0 rest new c fr : stacks s !! a = Some (fr0 :: rest) -> stacks s' = <[a := new ++ rest]> (stacks s) ->
  fsat s c fr -> fr <> fr0 -> fsat s' c fr.
Proof.
  intros Ha Hs Hf Hne. eapply fsat_keep; [exact Ha|exact Hs|exact Hf|].
  intros _ [->|Hin]%elem_of_cons; [done|]. apply elem_of_app. by right.
Qed.
Lemma np_pos_wake s c w : fsat s c (FWake w) -> posb (np (is_wake w) s) = true.
Proof. intros Hf. apply posb_true, np_pos_fsat. exists c, (FWake w). split; [done|]. cbn. by apply bool_decide_eq_true. Qed.

Lemma effw_same s s' w : s'.(dbl) = s.(dbl) -> effw s' w = effw s w.
Proof. intros H. destruct w; cbn; try done. unfold dbl_q, getdbl. by rewrite H. Qed.
Lemma effq_same s s' w : s'.(dws) = s.(dws) -> s'.(dbl) = s.(dbl) -> effq s' w = effq s w.
Proof.
  intros H1 H2. destruct w; cbn; try done; [|unfold dbl_q, getdbl; by rewrite H2].
  unfold getdw. rewrite H1. destruct (default (DWNotWoken, None) (dws s !! d)) as [[] [w|]]; try done. by apply effw_same.
Qed.
(* the step pops fr0 and pushes pre; events and drain/double wakers untouched *)
Lemma cover_keep s s' a fr0 rest pre e :
  stacks s !! a = Some (fr0 :: rest) -> stacks s' = <[a := pre ++ rest]> (stacks s) ->
  s'.(evs) = s.(evs) -> s'.(dws) = s.(dws) -> s'.(dbl) = s.(dbl) ->
  (forall d, np (carries d) s > 0 -> gd s e d = true -> gd s' e d = true) ->
  (forall w, fr0 = FWake w -> effq s w = true -> cover s' e = true) ->
  (forall d w, fr0 = FWakeWith d w -> effw s w = true -> gd s e d = true -> cover s' e = true) ->
  cover s e = true -> cover s' e = true.
Proof.
  intros Ha Hs H1 H2 H3 Hgd Hw Hww. rewrite (cover_iff s e).
  intros [(Hf & w & Hin & He)|[(c & w & Hf & He)|(c & d & w & Hf & He & Hg)]].
  - apply cover_iff. left. unfold getev. rewrite H1. split; [done|]. exists w. split; [done|]. by rewrite (effq_same s s').
  - destruct (decide (FWake w = fr0)) as [<-|Hne]; [by eapply Hw|].
    apply cover_iff. right; left. exists c, w. split; [by eapply fsat_keep_rest|]. by rewrite (effq_same s s').
  - destruct (decide (FWakeWith d w = fr0)) as [<-|Hne]; [by eapply Hww|].
    apply cover_iff. right; right. exists c, d, w. split; [by eapply fsat_keep_rest|]. split; [by rewrite (effw_same s s')|]. apply Hgd; [|done]. apply np_pos_fsat. exists c, (FWakeWith d w). split; [done|]. cbn. by apply bool_decide_eq_true.
Qed.

Lemma tview_mono_gd s s' :
  s'.(qs) = s.(qs) -> (forall e, hsusp s = Some e -> hsusp s' = Some e) ->
  (forall e w, unfreg s e w = true -> unfreg s' e w = true) ->
  (forall w, (w = WQueue \/ exists c, w = WThread c) -> np (is_wake w) s <= np (is_wake w) s') ->
  (forall c, isrunner s c -> unp s c = true -> unp s' c = true) ->
  (forall e d, np (carries d) s > 0 -> gd s e d = true -> gd s' e d = true) ->
  tview s s'.
Proof.
  intros Hq Hh Hu Hw Hp Hd. split; rewrite ?Hq; try done.
  - unfold awoken. by rewrite Hq.
  - intros e _. unfold gq. rewrite !orb_true_iff. intros [?|?]; left; [left; by apply Hu|right; eapply posb_mono; [apply Hw; by left|done] ].
  - intros c e. unfold gt. rewrite !orb_true_iff. intros [?|?]; left; [left; by apply Hu|right; eapply posb_mono; [apply Hw; right; by eexists|done] ].
  - intros c Hc _. by apply Hp.
Qed.

(* as tview_mono, but a registration may be replaced by an in-flight wake (the event fires) *)
Lemma tview_swap s s' :
  s'.(qs) = s.(qs) -> (forall e, hsusp s = Some e -> hsusp s' = Some e) ->
  (forall e w, unfreg s e w = true -> unfreg s' e w = true \/ posb (np (is_wake w) s') = true) ->
  (forall w, np (is_wake w) s <= np (is_wake w) s') ->
  (forall c, isrunner s c -> unp s c = true -> unp s' c = true) -> (forall d, dw_woken s d = true -> dw_woken s' d = true) ->
  tview s s'.
Proof.
  intros Hq Hh Hu Hw Hp Hd.
  assert (Hor : forall e w, unfreg s e w || posb (np (is_wake w) s) = true -> unfreg s' e w || posb (np (is_wake w) s') = true).
  { intros e w. rewrite !orb_true_iff. intros [H|H]; [by apply Hu|right; eapply posb_mono; [apply Hw|done] ]. }
  split; rewrite ?Hq; try done.
  - unfold awoken. by rewrite Hq.
  - intros e _ H. left. by apply Hor.
  - intros c e H. left. by apply Hor.
  - intros c Hc _. by apply Hp.
  - intros e d _. unfold gd. rewrite orb_true_iff. intros [H|H]; [|rewrite (Hd _ H); by rewrite orb_true_r].
    by rewrite (Hor _ _ H).
Qed.
