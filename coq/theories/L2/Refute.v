(* The five ORDER FACTS of Model.v (ffacts) are needed: with one of them false - the variant order of [stepF] - a property of this
   layer fails.  Each refutation is a concrete run of the variant model under the GENERATED tables (vm_compute).  The slips are
   the ones independent mutation authors made in the Rust source; all of them pass the crate's own test suite. *)
From stdpp Require Import list numbers option.
From RecordUpdate Require Import RecordUpdate.
From L2 Require Import Model Base Own Jobs Wake WakeInv Term Complete Waiter WaiterTerm GenTables Sim Inst Facts Main.
From Gen Require Import Tables.

Definition enabled_listF (F : ffacts) (s : state) : list nat :=
  filter (fun a => bool_decide (is_Some (stepF F G s a)) = true) (seq 0 (nact s)).
Lemma terminalF_check F s : enabled_listF F s = [] -> terminalF F G s.
Proof.
  intros H a. destruct (decide (a < nact s)) as [Hlt|Hge].
  - destruct (stepF F G s a) eqn:E; [|done]. exfalso.
    assert (Hin : a ∈ enabled_listF F s).
    { unfold enabled_listF. apply elem_of_list_filter. split; [|apply elem_of_list_In, in_seq; lia].
      rewrite E. by apply bool_decide_eq_true. }
    rewrite H in Hin. by apply elem_of_nil in Hin.
  - unfold stepF. rewrite lookup_ge_None_2; [done|]. unfold nact in Hge. lia.
Qed.
Lemma all_fired_chk s : forallb fired s.(evs) = true -> all_fired s.
Proof.
  intros H e. unfold getev. destruct (evs s !! e) as [c|] eqn:E; [|done]. cbn.
  apply elem_of_list_lookup_2 in E. rewrite forallb_forall in H. apply H. by apply elem_of_list_In.
Qed.

(* the four single-slip variants *)
Definition wake_with_before_park : ffacts :=
  {| f_park_before_wake_with := false; f_requeue_before_park := true; f_future_drop_inert := true; f_wake_thread_unparks_always := true;
     f_syncfuture_state_dropped_first := true |}.
Definition requeue_after_wake_with : ffacts :=
  {| f_park_before_wake_with := true; f_requeue_before_park := false; f_future_drop_inert := true; f_wake_thread_unparks_always := true;
     f_syncfuture_state_dropped_first := true |}.
Definition future_drop_resets_state : ffacts :=
  {| f_park_before_wake_with := true; f_requeue_before_park := true; f_future_drop_inert := false; f_wake_thread_unparks_always := true;
     f_syncfuture_state_dropped_first := true |}.
Definition unpark_only_if_parked : ffacts :=
  {| f_park_before_wake_with := true; f_requeue_before_park := true; f_future_drop_inert := true; f_wake_thread_unparks_always := false;
     f_syncfuture_state_dropped_first := true |}.

(* ---------- (a) f_park_before_wake_with ----------
   Caller 0 schedules a future operation (op 0 awaits event 0), polls the future once and drops it; caller 1 fires event 0; one
   pool thread.  The poll drains the queue itself: op 0 starts, registers its DrainWaker with event 0 and returns Pending.  Caller 1
   fires the event during the rest of that poll: the DrainWaker is only marked Woken.  The variant calls wake_with BEFORE writing the
   parked state: the DoubleWaker runs at once, WakeQueue finds the state still Running and only marks AwokenWhileRunning
   (reschedule_queue does nothing), the task waker unparks a task that is about to be dropped; THEN the state is overwritten with
   WaitingForPoll 0.  The future is dropped, nobody polls it again, nothing is in the schedule: the queue wake-up is lost.  All
   events are fired, no actor is enabled, the pool thread is idle - and op 0 is still in the queue, started and never finished. *)
Theorem C06_needs_park_before_wake_refuted :
  exists scripts npool nev tr s, npool >= 1 /\ runF wake_with_before_park G (init scripts npool nev) tr = Some s /\
    terminalF wake_with_before_park G s /\ all_fired s /\
    s.(qs) = WaitingForPoll 0 /\ s.(jobs) <> [] /\ GPush 0 ∈ s.(log) /\ GStart 0 ∈ s.(log) /\ GFinish 0 ∉ s.(log).
Proof.
  exists [[OFuture [PAwait 0] (UDropAfter 1)]; [OFire 0]], 1, 1,
    [0; 0; 0; 0; 0; 1; 0; 0; 0; 0; 0; 1; 1; 2; 0; 0; 0; 0; 0; 0; 0; 0; 0; 0; 0]. eexists.
  split; [lia|]. split; [vm_compute; reflexivity|]. split; [apply terminalF_check; vm_compute; reflexivity|].
  split; [apply all_fired_chk; vm_compute; reflexivity|]. cbn.
  split; [reflexivity|]. split; [done|]. rewrite !elem_of_cons, elem_of_nil. split; [auto|]. split; [auto|]. intros [Hx|[Hx|Hx%elem_of_nil]]; done.
Qed.
Corollary C06_terminal_needs_park_before_wake : ~ C06_terminal_pool_F wake_with_before_park.
Proof.
  intros H. destruct C06_needs_park_before_wake_refuted as (sc & np & nev & tr & s & Hn & Hr & Ht & Hf & Hq & _).
  destruct (H G gen_all_cond sc np nev tr s Hn Hr Ht Hf) as (Hi & _). rewrite Hq in Hi. discriminate Hi.
Qed.
Print Assumptions C06_needs_park_before_wake_refuted.
Print Assumptions C06_terminal_needs_park_before_wake.

(* ---------- (b) f_requeue_before_park ----------
   Caller 0 schedules a future operation (op 0: await event 0, then one more step) and awaits the future; caller 2 schedules a plain
   operation (op 1) behind it; caller 1 fires event 0; one pool thread.  Caller 0's poll drains the queue: op 0 starts, registers
   with event 0, returns Pending; the event fires during the rest of the poll (DrainWaker Woken).  The variant keeps op 0 in hand
   ([FDQlate]) while it stores the task waker, writes WaitingForPoll 0 and calls wake_with: the DoubleWaker runs at once, WakeQueue
   finds WaitingForPoll and reschedule_queue pushes the queue on the schedule; the pool thread takes the queue over
   (WaitingForPoll -> Running) while the suspended op 0 is OFF the queue, dequeues the only job there - op 1 - and runs it: Start 1,
   Finish 1 between Start 0 and Finish 0.  Only then is op 0 put back. *)
Theorem C01_needs_requeue_before_park_refuted :
  exists scripts npool nev tr s, runF requeue_after_wake_with G (init scripts npool nev) tr = Some s /\
    exists l1 l2 o o', s.(log) = l1 ++ GStart o :: l2 /\ GFinish o ∉ l1 /\ GStart o' ∈ l1.
Proof.
  exists [[OFuture [PAwait 0; PTouch] UAwait]; [OFire 0]; [ODesync]], 1, 1,
    [0; 0; 1; 0; 0; 0; 0; 2; 2; 0; 0; 0; 1; 1; 0; 3; 0; 0; 0; 0; 0; 0; 0; 0; 3; 0; 3; 0; 0; 3]. eexists.
  split; [vm_compute; reflexivity|]. cbn. exists [GFinish 1; GStart 1], [GPush 1; GPush 0], 0, 1.
  split; [reflexivity|]. split; [rewrite !not_elem_of_cons; repeat split; [done..|apply not_elem_of_nil]|].
  right. left.
Qed.
Corollary C01_exclusive_needs_requeue_before_park : ~ C01_exclusive_F requeue_after_wake_with.
Proof.
  intros H. destruct C01_needs_requeue_before_park_refuted as (sc & np & nev & tr & s & Hr & l1 & l2 & o & o' & Hl & Hf & Hs).
  destruct (H G (ac_own _ gen_all_cond) (ac_jobs _ gen_all_cond) sc np nev tr s Hr) as [_ H3]. exact (H3 l1 l2 o Hl Hf o' Hs).
Qed.
Print Assumptions C01_needs_requeue_before_park_refuted.
Print Assumptions C01_exclusive_needs_requeue_before_park.

(* ---------- (c) f_future_drop_inert ----------
   Caller 0 schedules a future operation (op 1: await event 0, then two more steps), polls the future once and drops it; caller 2
   schedules a plain operation (op 0); caller 1 fires event 0; two pool threads.  The poll drains the queue: op 1 starts and
   suspends on event 0 (op 0 is pushed behind it meanwhile); the queue is left in WaitingForPoll 0 - the variant's `draining` flag is set.  The event has
   fired: the DoubleWaker runs, reschedule_queue pushes the queue on the schedule and pool thread 3 takes it over
   (WaitingForPoll -> Running; the flag is NOT cleared) and resumes op 1.  Now caller 0 drops the future: the variant's Drop
   writes Idle over Running and calls reschedule_queue (op 0 of caller 2 is in the queue): Pending, a second schedule entry; pool
   thread 4 takes it and runs op 0 while pool thread 3 is in the middle of op 1: two runners at once, Start 0 between Start 1
   and Finish 1. *)
Theorem C01_needs_inert_future_drop_refuted :
  exists scripts npool nev tr s, runF future_drop_resets_state G (init scripts npool nev) tr = Some s /\
    (exists a b sa sb, a <> b /\ stacks s !! a = Some sa /\ stacks s !! b = Some sb /\ cntf marker sa >= 1 /\ cntf marker sb >= 1) /\
    exists l1 l2 o o', s.(log) = l1 ++ GStart o :: l2 /\ GFinish o ∉ l1 /\ GStart o' ∈ l1.
Proof.
  exists [[OFuture [PAwait 0; PTouch; PTouch] (UDropAfter 1)]; [OFire 0]; [ODesync]], 2, 1,
    [2; 0; 0; 0; 0; 0; 0; 3; 0; 0; 0; 2; 1; 0; 1; 1; 0; 0; 0; 0; 0; 0; 0; 0; 0; 3; 3; 0; 0; 0; 0; 4; 3; 4; 4]. eexists.
  split; [vm_compute; reflexivity|]. split.
  - exists 3, 4. eexists _, _. split; [done|]. split; [vm_compute; reflexivity|]. split; [vm_compute; reflexivity|]. cbn. lia.
  - cbn. exists [GFinish 0; GStart 0; GPush 0], [GPush 1], 1, 0.
    split; [reflexivity|]. split; [rewrite !not_elem_of_cons; repeat split; [done..|apply not_elem_of_nil]|]. right. left.
Qed.
Corollary C01_exclusive_needs_inert_future_drop : ~ C01_exclusive_F future_drop_resets_state.
Proof.
  intros H. destruct C01_needs_inert_future_drop_refuted as (sc & np & nev & tr & s & Hr & (a & b & sa & sb & Hne & Ha & Hb & Hma & Hmb) & _).
  destruct (H G (ac_own _ gen_all_cond) (ac_jobs _ gen_all_cond) sc np nev tr s Hr) as [H2 _]. exact (Hne (H2 a b sa sb Ha Hb Hma Hmb)).
Qed.
Print Assumptions C01_needs_inert_future_drop_refuted.
Print Assumptions C01_exclusive_needs_inert_future_drop.

(* ---------- (d) f_wake_thread_unparks_always ----------
   Caller 0 schedules two detached future operations: op 0 awaits EITHER event 0 or event 1, op 2 awaits event 2.  Callers 1 (A)
   and 2 (B) each call sync; caller 3 fires events 0, 1, 2; one pool thread, which only ever finds the queue taken.
   A's sync runs the queue on its own thread: it polls op 0 with its WakeThread waker, which is registered with events 0 AND 1,
   and parks (WaitingForUnpark).  Event 0 fires: A is woken, op 0 and A's own job complete, A returns - its waker is still
   registered with event 1.  Caller 0 schedules op 2; B's sync polls it (WakeThread B registered with event 2) and parks.
   Event 1 fires: the STALE WakeThread A finds WaitingForUnpark, writes Running and unparks A (nobody).  Event 2 fires: WakeThread B
   finds Running, writes AwokenWhileRunning - and the variant does NOT unpark B because the state it found was not
   WaitingForUnpark.  All events are fired, no actor is enabled, B is parked for ever in run_one_job_now, op 2 never finishes,
   B's own job is still in the queue. *)
Theorem C06_needs_unconditional_unpark_refuted :
  exists scripts npool nev tr s, npool >= 1 /\ runF unpark_only_if_parked G (init scripts npool nev) tr = Some s /\
    terminalF unpark_only_if_parked G s /\ all_fired s /\
    s.(qs) = AwokenWhileRunning /\ s.(jobs) <> [] /\ GStart 2 ∈ s.(log) /\ GFinish 2 ∉ s.(log) /\
    exists j rest, stacks s !! 2 = Some (FROpark j :: rest).
Proof.
  exists [[OFuture [PAwaitEither 0 1] UDetach; OFuture [PAwait 2] UDetach]; [OSync]; [OSync]; [OFire 0; OFire 1; OFire 2]], 1, 3,
    [0; 0; 0; 0; 1; 1; 1; 1; 1; 1; 1; 1; 1; 3; 3; 3; 3; 1; 1; 1; 1; 1; 1; 1; 1; 1; 1; 1; 0; 0; 0; 0; 2; 2; 2; 2; 2; 2; 2; 2; 2;
     3; 3; 3; 3; 3; 3; 3; 4; 4]. eexists.
  split; [lia|]. split; [vm_compute; reflexivity|]. split; [apply terminalF_check; vm_compute; reflexivity|].
  split; [apply all_fired_chk; vm_compute; reflexivity|]. cbn.
  split; [reflexivity|]. split; [done|]. split; [rewrite !elem_of_cons; auto|].
  split; [rewrite !not_elem_of_cons; repeat split; [done..|apply not_elem_of_nil]|]. eexists _, _. vm_compute. reflexivity.
Qed.
Corollary C06_terminal_needs_unconditional_unpark : ~ C06_terminal_pool_F unpark_only_if_parked.
Proof.
  intros H. destruct C06_needs_unconditional_unpark_refuted as (sc & np & nev & tr & s & Hn & Hr & Ht & Hf & Hq & _).
  destruct (H G gen_all_cond sc np nev tr s Hn Hr Ht Hf) as (Hi & _). rewrite Hq in Hi. discriminate Hi.
Qed.
(* the same schedule with the code's facts: B is unparked (and the run goes on to completion) *)
Example unconditional_unpark_same_schedule_code :
  exists s, runF code_ffacts G (init [[OFuture [PAwaitEither 0 1] UDetach; OFuture [PAwait 2] UDetach]; [OSync]; [OSync]; [OFire 0; OFire 1; OFire 2]] 1 3)
    [0; 0; 0; 0; 1; 1; 1; 1; 1; 1; 1; 1; 1; 3; 3; 3; 3; 1; 1; 1; 1; 1; 1; 1; 1; 1; 1; 1; 0; 0; 0; 0; 2; 2; 2; 2; 2; 2; 2; 2; 2;
     3; 3; 3; 3; 3; 3; 3; 3; 4; 4] = Some s /\ (toks s) !! 2 = Some true.
Proof. eexists. split; [vm_compute; reflexivity|]. vm_compute. reflexivity. Qed.
Print Assumptions C06_needs_unconditional_unpark_refuted.
Print Assumptions C06_terminal_needs_unconditional_unpark.

(* ---------- F6: claim_pending_queue must accept WaitingForPoll ----------
   The table of claim_pending_queue as it was before the repair d110293 (the generated row is now `WaitingForPoll f => Some Running`). *)
Definition claim_old (st : qstate) : option qstate := match st with Pending | Idle => Some Running | _ => None end.
Definition old_claim_tables : ftables :=
  let B := gen_ftables.(ft_base) in
  {| ft_base := {| t_desync := B.(t_desync); t_sync := B.(t_sync); t_trysync := B.(t_trysync); t_resched := B.(t_resched); t_next := B.(t_next);
                   t_claim := claim_old; t_dequeue_refuses := B.(t_dequeue_refuses); t_drain_fin := B.(t_drain_fin) |};
     t_poll := gen_ftables.(t_poll); t_drain_pend := gen_ftables.(t_drain_pend); t_roj_pend := gen_ftables.(t_roj_pend);
     t_roj_park := gen_ftables.(t_roj_park); t_wake_queue := gen_ftables.(t_wake_queue); t_wake_thread := gen_ftables.(t_wake_thread);
     t_dw_wake := gen_ftables.(t_dw_wake); t_dw_wake_with := gen_ftables.(t_dw_wake_with) |}.
Definition enabled_listT (T : ftables) (s : state) : list nat :=
  filter (fun a => bool_decide (is_Some (step T s a)) = true) (seq 0 (nact s)).
Lemma terminal_checkT T s : enabled_listT T s = [] -> terminal T s.
Proof.
  intros H a. destruct (decide (a < nact s)) as [Hlt|Hge].
  - destruct (step T s a) eqn:E; [|done]. exfalso.
    assert (Hin : a ∈ enabled_listT T s).
    { unfold enabled_listT. apply elem_of_list_filter. split; [|apply elem_of_list_In, in_seq; lia].
      rewrite E. by apply bool_decide_eq_true. }
    rewrite H in Hin. by apply elem_of_nil in Hin.
  - unfold step. rewrite lookup_ge_None_2; [done|]. unfold nact in Hge. lia.
Qed.
(* every OTHER table condition of the layer holds for the old table: none of the earlier theorems could see the defect, because the
   waiter of sync_background was abstract ("somebody else runs my job") *)
Lemma old_claim_all_cond : all_cond old_claim_tables.
Proof.
  destruct gen_all_cond as [[] [] []]. split; split; try assumption.
  intros st st' H. destruct st; inversion H; subst; cbn; intuition congruence.
Qed.
Lemma old_claim_not_claim_cond : ~ claim_cond old_claim_tables.
Proof. intros [_ _ H _ _]. specialize (H 0). discriminate H. Qed.

(* Caller 0 schedules a future operation (op 0 awaits event 0), polls the future once and drops it, then calls sync; caller 1
   fires event 0; NO pool thread.  The poll drains the queue itself, op 0 suspends, the queue is left in WaitingForPoll 0; the
   future is dropped.  sync finds the queue busy: sync_background registers as a waiter, queues its job, tries to claim the queue
   (its `rescheduled` flag starts out set) - the old table refuses WaitingForPoll - and waits.  Caller 1 fires the event: DrainWaker,
   DoubleWaker, WakeQueue, reschedule_queue: the waiter is kicked and the queue is put into the schedule, twice by now; the waiter
   tries again, is refused again and waits for ever: nobody takes the schedule entries.  All events are fired, no actor is
   enabled, caller 0 is still inside sync. *)
Theorem C04_needs_waiter_takeover_refuted :
  exists tr s, run old_claim_tables (init [[OFuture [PAwait 0] (UDropAfter 1); OSync]; [OFire 0]] 0 1) tr = Some s /\
    terminal old_claim_tables s /\ all_fired s /\
    s.(qs) = WaitingForPoll 0 /\ s.(insched) > 0 /\ stacks s !! 0 = Some [FSBwait; FTop []] /\ GStart 0 ∈ s.(log) /\ GFinish 0 ∉ s.(log).
Proof.
  exists [0; 0; 0; 0; 0; 0; 0; 0; 0; 0; 0; 0; 0; 0; 0; 0; 0; 0; 0; 0; 0; 0; 1; 1; 1; 1; 1; 1; 0; 0; 1; 1; 1]. eexists.
  split; [vm_compute; reflexivity|]. split; [apply terminal_checkT; vm_compute; reflexivity|].
  split; [apply all_fired_chk; vm_compute; reflexivity|]. cbn.
  split; [reflexivity|]. split; [lia|]. split; [vm_compute; reflexivity|].
  split; [rewrite !elem_of_cons; auto|]. rewrite !not_elem_of_cons; repeat split; [done..|apply not_elem_of_nil].
Qed.
(* the sync-returns theorem needs the claim condition: it fails for tables that satisfy every other condition *)
Corollary C04_sync_returns_needs_claim_cond :
  ~ (forall T, all_cond T -> forall scripts npool nev tr s, run T (init scripts npool nev) tr = Some s -> terminal T s -> all_fired s ->
       forall c st, stacks s !! c = Some st -> st = [FTop []] \/ st = [FPIdle] \/ exists f rest, st = FPark f :: rest).
Proof.
  intros H. destruct C04_needs_waiter_takeover_refuted as (tr & s & Hr & Ht & Hf & _ & _ & Hc & _).
  destruct (H _ old_claim_all_cond _ _ _ _ _ Hr Ht Hf 0 _ Hc) as [?|[?|(f & rest & ?)]]; done.
Qed.
(* the same program under the generated table (after the repair): the waiter takes the queue over, resumes op 0 on its own thread
   (parked in run_one_job_now until caller 1 fires the event), runs its own job and returns *)
Example waiter_takeover_generated_table :
  exists tr s, run G (init [[OFuture [PAwait 0] (UDropAfter 1); OSync]; [OFire 0]] 0 1) tr = Some s /\
    terminal G s /\ all_fired s /\ s.(qs) = Idle /\ s.(jobs) = [] /\ stacks s !! 0 = Some [FTop []] /\ GFinish 0 ∈ s.(log) /\ GFinish 1 ∈ s.(log).
Proof.
  exists [0; 0; 0; 0; 0; 0; 0; 0; 0; 0; 0; 0; 0; 0; 0; 0; 0; 0; 0; 0; 0; 0; 0; 0; 0; 0; 0; 1; 1; 1; 1; 1; 1; 1; 0; 0; 1; 1; 0; 0; 0; 0; 0; 0; 0; 0;
          0; 0; 0; 0; 0; 0]. eexists.
  split; [vm_compute; reflexivity|]. split; [apply terminal_checkT; vm_compute; reflexivity|].
  split; [apply all_fired_chk; vm_compute; reflexivity|]. cbn.
  split; [reflexivity|]. split; [reflexivity|]. split; [vm_compute; reflexivity|]. rewrite !elem_of_cons. auto 10.
Qed.
(* ---------- candidate finding (the same refusal in SchedulerFuture::poll): await after a dropped draining future, no pool thread ----------
   With the GENERATED tables (after the repair of F6).  Caller 0 polls a future once - the poll drains the queue, op 0 suspends on
   event 0, the queue is left in WaitingForPoll 0 - and drops it; then it schedules a second future operation and AWAITS it: poll
   finds WaitingForPoll of ANOTHER future, stores its waker and waits (the poll table refuses that state just as claim_pending_queue
   did before the repair).  Caller 1 fires the event: the queue is woken and put into the schedule, the task is unparked by the
   DoubleWaker, re-polls, is refused again and parks.  No pool thread: nobody takes the queue.  All events fired, no actor enabled,
   caller 0 parked for ever.  So zero-pool progress of a caller that both drops and awaits futures does NOT hold (the theorems
   cover callers that only await - C06_zero_pool_full - and callers that never await - C06_zero_pool_sync_full).
   On the real crate: `nq=1 pool=0 ev=1 | F0[w0t]k1 F0[t]a | E0` deadlocks in 10 of 60 schedules (commit d110293). *)
Theorem zero_pool_await_after_drop_refuted :
  exists tr s, run G (init [[OFuture [PAwait 0] (UDropAfter 1); OFuture [] UAwait]; [OFire 0]] 0 1) tr = Some s /\
    terminal G s /\ all_fired s /\ s.(qs) = WaitingForPoll 0 /\ s.(insched) > 0 /\ stacks s !! 0 = Some [FPark 1; FTop []].
Proof.
  exists [0; 0; 0; 0; 0; 0; 0; 0; 0; 0; 0; 0; 0; 0; 0; 0; 0; 0; 0; 0; 0; 1; 1; 1; 1; 1; 1; 1; 1; 1; 0; 0; 0]. eexists.
  split; [vm_compute; reflexivity|]. split; [apply terminal_checkT; vm_compute; reflexivity|].
  split; [apply all_fired_chk; vm_compute; reflexivity|]. cbn. split; [reflexivity|]. split; [lia|]. vm_compute. reflexivity.
Qed.
Print Assumptions zero_pool_await_after_drop_refuted.
Print Assumptions C04_needs_waiter_takeover_refuted.
Print Assumptions C04_sync_returns_needs_claim_cond.
Print Assumptions waiter_takeover_generated_table.

(* ---------- (e) f_syncfuture_state_dropped_first (C08, field order of SyncFuture) ----------
   Caller 0 calls future_sync (user future awaits event 0, never fired), polls twice and drops; caller 1 schedules a desync behind it;
   one pool thread.  With the fields of SyncFuture declared the other way round (`task_finished` before `state`), the drop sends
   Canceled to the slot job FIRST: the pool thread finishes the slot job and starts caller 1's operation while the user future of
   caller 0 - which holds `&mut T` - is still alive (it is destroyed only afterwards). *)
Definition task_finished_dropped_first : ffacts :=
  {| f_park_before_wake_with := true; f_requeue_before_park := true; f_future_drop_inert := true; f_wake_thread_unparks_always := true;
     f_syncfuture_state_dropped_first := false |}.
Definition C08_4_swapped_field_order_violation : Prop :=
  exists tr s l2 l1, runF task_finished_dropped_first G (init [[OFutSync [PAwait 0] (UDropAfter 2)]; [ODesync]] 1 1) tr = Some s /\
    s.(log) = l2 ++ GStart 1 :: l1 /\ GYnew 0 0 1 ∈ l1 /\ GUStart 0 ∈ l1 /\ GUCancel 0 ∉ l1 /\ GUFinish 0 ∉ l1 /\ GFinish 0 ∈ l1.
Theorem C08_4_field_order_needed_refuted : C08_4_swapped_field_order_violation.
Proof.
  exists ([0; 1; 0; 0; 0; 0; 0; 0; 2; 0; 0; 0; 1; 0; 0; 0; 0; 0; 0; 0; 0; 0; 0; 0; 0; 0; 0; 0; 0; 0; 0; 0; 0; 0; 2; 2; 0; 2; 2; 2; 2; 2] ++ [2; 2; 2; 2]).
  eexists. exists [GFinish 1], [GFinish 0; GSig 0 0; GUStart 0; GPush 1; GStart 0; GPush 0; GYnew 0 0 1].
  split; [vm_compute; reflexivity|]. split; [vm_compute; reflexivity|].
  rewrite !elem_of_cons, !elem_of_nil. split; [tauto|]. split; [tauto|].
  split; [intros H; repeat (destruct H as [H|H]; [discriminate H|]); done|].
  split; [intros H; repeat (destruct H as [H|H]; [discriminate H|]); done|tauto].
Qed.
Print Assumptions C08_4_field_order_needed_refuted.
