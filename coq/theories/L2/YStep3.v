(* C08: preservation of the per-call clauses of Inv_y and of the ghost-log clause *)
From stdpp Require Import list numbers option.
From RecordUpdate Require Import RecordUpdate.
From L2 Require Import Model Base Own Jobs Fut Sig YDefs YMono YStep1 YStep2.
#[global] Unset Lia Cache.

Lemma wbn_keep l new o : wbn l = Some (Some o) -> wbn (new ++ l) <> None -> GFinish o ∉ new -> wbn (new ++ l) = Some (Some o).
Proof.
  intros Hl. induction new as [|e new IH]; cbn; [done|]. intros Hn Hf.
  destruct (wbn (new ++ l)) as [cur|] eqn:E; [|done]. cbn in Hn |- *.
  assert (Ec : Some cur = Some (Some o)) by (apply IH; [done|intros H; apply Hf; by right]). injection Ec as ->.
  destruct e; cbn in Hn |- *; try done. destruct (decide (o0 = o)) as [->|?]; [|done]. exfalso. apply Hf. left.
Qed.
Lemma logall_app P new l : logall P (new ++ l) <-> (forall l2 e l1, new = l2 ++ e :: l1 -> P e (l1 ++ l)) /\ logall P l.
Proof.
  induction new as [|x new IH]; cbn.
  - split; [intros H; split; [intros l2 e l1 E; by destruct l2|done]|tauto].
  - rewrite IH. split.
    + intros (H1 & H2 & H3). split; [|done]. intros l2 e l1 E. destruct l2 as [|y l2]; cbn in E; injection E as -> ->; [done|by eapply H2].
    + intros (H1 & H2). split; [apply (H1 []); done|]. split; [|done]. intros l2 e l1 ->. by apply (H1 (x :: l2)).
Qed.

(* steps that fire no cell and create no call: conditions on the events they log *)
Lemma state_clauses_log nev s s' new : Inv_y nev s -> ext s s' -> Ys s' = Ys s -> fsame s s' -> s'.(log) = new ++ s.(log) ->
  wbn s'.(log) <> None ->
  (forall o f r, (o, f, r) ∈ Ys s -> GFinish o ∈ new -> firedP s (S r)) ->
  (forall o f r v, (o, f, r) ∈ Ys s -> GSig f v ∈ new -> v = o /\ firedP s (S r)) ->
  (forall o f r, (o, f, r) ∈ Ys s -> GUStart o ∈ new -> ~ firedP s (S r)) ->
  (forall f v, GSig f v ∈ new -> f < length s.(futs)) ->
  logall evok (new ++ s.(log)) ->
  (forall o f r, (o, f, r) ∈ Ys s' -> firedP s' r -> ~ firedP s' (S r) -> wbn s'.(log) = Some (Some o)) /\
  (forall o f r v, (o, f, r) ∈ Ys s' -> GSig f v ∈ s'.(log) -> v = o /\ firedP s' (S r)) /\
  (forall o f r, (o, f, r) ∈ Ys s' -> firedP s' (S r) -> udone o s'.(log)) /\
  (forall f v, GSig f v ∈ s'.(log) -> f < length s'.(futs)) /\
  logall evok s'.(log).
Proof.
  intros HY X EY Hfs El Hw C1 C2 C3 C5 C4. rewrite El in Hw. rewrite EY, El.
  assert (Hup : forall o f r, (o, f, r) ∈ Ys s -> forall k, k < 2 -> firedP s (r + k) -> firedP s' (r + k)).
  { intros o f r Ht k Hk. apply (x_fired _ _ X). destruct (y_rng _ _ HY _ _ _ Ht) as (_ & _ & _ & ?). lia. }
  split; [|split; [|split; [|split; [|done] ] ] ].
  - intros o f r Ht H1 H2. apply wbn_keep; [|done|].
    + apply (y_t1 _ _ HY _ _ _ Ht); [by apply Hfs|]. intros H. apply H2. replace (S r) with (r + 1) in * by lia. eapply Hup; [exact Ht|lia|done].
    + intros Hin. apply H2. replace (S r) with (r + 1) by lia. eapply Hup; [exact Ht|lia|]. replace (r + 1) with (S r) by lia. by eapply C1.
  - intros o f r v Ht [Hin|Hin]%elem_of_app.
    + destruct (C2 _ _ _ _ Ht Hin) as [-> H]. split; [done|]. replace (S r) with (r + 1) in * by lia. eapply Hup; [exact Ht|lia|done].
    + destruct (y_t2 _ _ HY _ _ _ _ Ht Hin) as [-> H]. split; [done|]. replace (S r) with (r + 1) in * by lia. eapply Hup; [exact Ht|lia|done].
  - intros o f r Ht Hf. apply Hfs in Hf. destruct (y_t3 _ _ HY _ _ _ Ht Hf) as [H1 H2]. split.
    + destruct H1; [left|right]; apply elem_of_app; by right.
    + intros [Hin|Hin]%elem_of_app; [by destruct (C3 _ _ _ Ht Hin)|]. destruct (H2 Hin); [left|right]; apply elem_of_app; by right.
  - intros f v [Hin|Hin]%elem_of_app; pose proof (x_futs _ _ X); [specialize (C5 _ _ Hin)|pose proof (y_sigr _ _ HY _ _ Hin)]; lia.
Qed.
Lemma logall_cons_intro (P : gev -> list gev -> Prop) e l : P e l -> logall P l -> logall P (e :: l).
Proof. by split. Qed.

(* ---------- single events ---------- *)
Lemma slot_job_end nev s op : jobok nev s (JFut op Waiting []) -> forall f r, (op, f, r) ∈ Ys s -> firedP s (S r).
Proof. intros [_ [H2 _]] f r Ht. by destruct (H2 _ _ Ht) as [E|[_ [_ [E|[Hf _]]]]]; try discriminate E. Qed.
Lemma evok_finish_fut nev s op : Inv_y nev s -> jobok nev s (JFut op Waiting []) -> evok (GFinish op) s.(log).
Proof.
  intros HY Hj f r Hg. apply ynews_in in Hg. apply (y_t3 _ _ HY _ _ _ Hg). by eapply slot_job_end.
Qed.
Lemma evok_sig nev s op f l : Inv_y nev s -> jobok nev s (JFut op Waiting (PSignal f :: l)) -> evok (GSig f op) s.(log).
Proof.
  intros HY Hj o r Hg. apply ynews_in in Hg. destruct (slot_job_sig nev s op f l HY Hj o r Hg) as (-> & _ & Hf).
  split; [done|]. by apply (y_t3 _ _ HY _ _ _ Hg).
Qed.
(* a poll that takes the result of f: the frame below is the await / drop loop of f, never a SyncFuture still waiting for the queue *)
Lemma evok_resolve_poll nev s a fr rest f v : Inv_fut s -> Inv_sig s -> Inv_y nev s -> stacks s !! a = Some (fr :: rest) ->
  pollfam fr = Some f -> (getf s f).(res) = FSome v -> evok (GResolve f v) s.(log).
Proof.
  intros HF HS HY Hst Hp Hr o r Hg. apply ynews_in in Hg.
  pose proof (if_poll _ HF _ _ Hst) as Hpo. cbn [pollall] in Hpo. apply andb_true_iff in Hpo as [Ha _]. unfold adjok in Ha. rewrite Hp in Ha.
  destruct rest as [|y rest]; [done|]. pose proof (y_frames _ _ HY a _ y Hst ltac:(right; left)) as Hy.
  destruct y; try done; cbn in Ha, Hy.
  - apply bool_decide_eq_true in Ha as ->. by eapply (proj2 Hy).
  - apply bool_decide_eq_true in Ha as ->. by eapply (proj2 Hy).
  - destruct pc; try done. apply bool_decide_eq_true in Ha. destruct Hy as (H1 & H2 & _). exfalso. apply H2.
    pose proof (triple_eq nev s _ _ HY Hg H1 ltac:(cbn; auto)) as [= -> _ ->].
    apply (is_cell _ HS) in Hr. apply has_sig_in in Hr. rewrite <- Ha in Hr. by destruct (y_t2 _ _ HY _ _ _ _ H1 Hr).
Qed.
(* a SyncFuture that still waits for the queue never sees its SchedulerFuture Ready *)
Lemma sf_ready_contra nev s a fr f v yc stc uc rc : Inv_fut s -> Inv_sig s -> Inv_y nev s ->
  stacks s !! a = Some (fr :: FY YPsfret yc stc uc :: rc) -> pollfam fr = Some f -> (getf s f).(res) = FSome v -> False.
Proof.
  intros HF HS HY Hst Hp Hr.
  pose proof (if_poll _ HF _ _ Hst) as Hpo. cbn [pollall] in Hpo. apply andb_true_iff in Hpo as [Ha _]. unfold adjok in Ha. rewrite Hp in Ha.
  cbn in Ha. apply bool_decide_eq_true in Ha.
  destruct (y_frames _ _ HY a _ _ Hst ltac:(right; left)) as (H1 & H2 & _). apply H2.
  apply (is_cell _ HS) in Hr. apply has_sig_in in Hr. rewrite <- Ha in Hr. by destruct (y_t2 _ _ HY _ _ _ _ H1 Hr).
Qed.
Lemma evok_ustart nev s pc y b : Inv_y nev s -> yfrok nev s pc y (YQueue b) -> firedP s y.(y_r) -> evok (GUStart y.(y_op)) s.(log).
Proof.
  intros HY (H1 & H2 & H3 & H4 & _) Hf. split; [eexists _, _; by apply ynews_in|]. split; [by eapply (y_t1 _ _ HY)|].
  split; [|done]. intros H. by apply H4 in H.
Qed.
Lemma evok_urun nev s pc y st : Inv_y nev s -> yfrok nev s pc y st -> isYF st -> pc <> YPfin -> pc <> YPdrop2 ->
  ycall y.(y_op) s.(log) /\ urun y.(y_op) s.(log).
Proof.
  intros HY (H1 & H2 & H3 & H4 & H5 & H6 & H7 & _) Hy N1 N2. split; [eexists _, _; by apply ynews_in|].
  split; [eapply (y_t1 _ _ HY); [exact H1|by apply H7|done]|]. split; [by apply H4|]. split; [intros H; by apply H5 in H|].
  split; [|done]. intros H. by apply H6 in H as [? _].
Qed.
Lemma wbn_drops new l : (forall e, e ∈ new -> exists o, e = GYdrop o) -> wbn (new ++ l) = wbn l.
Proof.
  induction new as [|e new IH]; intros H; cbn; [done|]. rewrite IH by (intros e' He; apply H; by right).
  destruct (H e ltac:(left)) as [o ->]. by destruct (wbn l).
Qed.

(* steps that fire one cell F (and log at most the drop of a SyncFuture) *)
Lemma state_clauses_fire nev s s' F new : Inv_y nev s -> ext s s' -> Ys s' = Ys s -> (forall e, firedP s' e <-> firedP s e \/ e = F) ->
  s'.(log) = new ++ s.(log) -> (forall e, e ∈ new -> exists o, e = GYdrop o) ->
  (forall o f, (o, f, F) ∈ Ys s -> wbn s.(log) = Some (Some o)) ->
  (forall o f r, (o, f, r) ∈ Ys s -> S r = F -> udone o (new ++ s.(log))) ->
  logall evok (new ++ s.(log)) ->
  (forall o f r, (o, f, r) ∈ Ys s' -> firedP s' r -> ~ firedP s' (S r) -> wbn s'.(log) = Some (Some o)) /\
  (forall o f r v, (o, f, r) ∈ Ys s' -> GSig f v ∈ s'.(log) -> v = o /\ firedP s' (S r)) /\
  (forall o f r, (o, f, r) ∈ Ys s' -> firedP s' (S r) -> udone o s'.(log)) /\
  (forall f v, GSig f v ∈ s'.(log) -> f < length s'.(futs)) /\
  logall evok s'.(log).
Proof.
  intros HY X EY Hf El Hnew C1 C3 C4. rewrite EY, El. rewrite (wbn_drops new _ Hnew).
  assert (Hsig : forall f v, GSig f v ∈ new ++ log s -> GSig f v ∈ log s).
  { intros f v [Hin|Hin]%elem_of_app; [|done]. by destruct (Hnew _ Hin). }
  split; [|split; [|split; [|split; [|done] ] ] ].
  - intros o f r Ht H1 H2. apply Hf in H1 as [H1| ->]; [|by eapply C1].
    apply (y_t1 _ _ HY _ _ _ Ht H1). intros H. apply H2, Hf. by left.
  - intros o f r v Ht Hin%Hsig. destruct (y_t2 _ _ HY _ _ _ _ Ht Hin) as [-> H]. split; [done|]. apply Hf. by left.
  - intros o f r Ht H. apply Hf in H as [H|E]; [|by eapply C3].
    destruct (y_t3 _ _ HY _ _ _ Ht H) as [H1 H2]. split.
    + destruct H1; [left|right]; apply elem_of_app; by right.
    + intros [Hin|Hin]%elem_of_app; [by destruct (Hnew _ Hin)|]. destruct (H2 Hin); [left|right]; apply elem_of_app; by right.
  - intros f v Hin%Hsig. pose proof (x_futs _ _ X). pose proof (y_sigr _ _ HY _ _ Hin). lia.
Qed.
Lemma sig_range nev s op f l : Inv_y nev s -> jobok nev s (JFut op Waiting (PSignal f :: l)) -> f < length s.(futs).
Proof.
  intros HY [_ [H2 H3]]. destruct (ydec (Ys s) op) as [(f' & r' & Hin)|Hn].
  - destruct (H2 _ _ Hin) as [E|[_ [_ [E|[Hf [E|E]]]]]]; try discriminate E. injection E as -> ->. by destruct (y_rng _ _ HY _ _ _ Hin) as (_ & ? & _).
  - specialize (H3 Hn). inversion H3 as [|? ? Hp _]. cbn in Hp. tauto.
Qed.

(* the job being polled is the open operation of the ghost log *)
Lemma polled_open s a op sc w k rest : Inv_own s -> Inv_jobs s -> stacks s !! a = Some (FJob (JFut op Waiting sc) w k :: rest) ->
  wbn s.(log) = Some (Some op).
Proof.
  intros HO HJ Hst. rewrite (ij_log _ HJ). destruct (held_runner_step s a _ rest HO Hst eq_refl) as (Hh & _). unfold inprog. by rewrite Hh.
Qed.

(* a call of future_sync *)
Lemma state_clauses_new nev s s' : Inv_y nev s -> ext s s' ->
  Ys s' = (s.(nextop), length s.(futs), length s.(evs)) :: Ys s -> s'.(evs) = s.(evs) ++ [ev_new; ev_new] ->
  s'.(log) = GYnew s.(nextop) (length s.(futs)) (length s.(evs)) :: s.(log) ->
  (forall o f r, (o, f, r) ∈ Ys s' -> firedP s' r -> ~ firedP s' (S r) -> wbn s'.(log) = Some (Some o)) /\
  (forall o f r v, (o, f, r) ∈ Ys s' -> GSig f v ∈ s'.(log) -> v = o /\ firedP s' (S r)) /\
  (forall o f r, (o, f, r) ∈ Ys s' -> firedP s' (S r) -> udone o s'.(log)) /\
  (forall f v, GSig f v ∈ s'.(log) -> f < length s'.(futs)) /\
  logall evok s'.(log).
Proof.
  intros HY X EY Ee El. rewrite EY, El.
  assert (Hnew : forall k, k < 2 -> ~ firedP s' (length (evs s) + k)).
  { intros k Hk. unfold firedP, getev. rewrite Ee, fired_new_cell by done. done. }
  assert (Hold : forall o f r, (o, f, r) ∈ Ys s -> forall k, k < 2 -> firedP s' (r + k) <-> firedP s (r + k)).
  { intros o f r Ht k Hk. destruct (y_rng _ _ HY _ _ _ Ht) as (_ & _ & _ & ?). unfold firedP, getev. rewrite Ee, lookup_app_l by lia. done. }
  assert (Hw : wbn (GYnew (nextop s) (length (futs s)) (length (evs s)) :: log s) = wbn (log s)) by (cbn; by destruct (wbn (log s))).
  assert (Hsig : forall f v, GSig f v ∈ GYnew (nextop s) (length (futs s)) (length (evs s)) :: log s -> GSig f v ∈ log s).
  { intros f v [?|?]%elem_of_cons; done. }
  split; [|split; [|split; [|split] ] ].
  - intros o f r [[= -> -> ->]|Ht]%elem_of_cons H1 H2.
    + exfalso. apply (Hnew 0 ltac:(lia)). by rewrite Nat.add_0_r.
    + rewrite Hw. apply (y_t1 _ _ HY _ _ _ Ht).
      * pose proof (Hold _ _ _ Ht 0 ltac:(lia)) as Hz. rewrite Nat.add_0_r in Hz. by apply Hz.
      * intros H. apply H2. replace (S r) with (r + 1) in * by lia. by apply (Hold _ _ _ Ht 1 ltac:(lia)).
  - intros o f r v [[= -> -> ->]|Ht]%elem_of_cons Hin%Hsig.
    + pose proof (y_sigr _ _ HY _ _ Hin). lia.
    + destruct (y_t2 _ _ HY _ _ _ _ Ht Hin) as [-> H]. split; [done|]. replace (S r) with (r + 1) in * by lia. by apply (Hold _ _ _ Ht 1 ltac:(lia)).
  - intros o f r [[= -> -> ->]|Ht]%elem_of_cons H.
    + exfalso. apply (Hnew 1 ltac:(lia)). by replace (length (evs s) + 1) with (S (length (evs s))) by lia.
    + replace (S r) with (r + 1) in * by lia. apply (Hold _ _ _ Ht 1 ltac:(lia)) in H. replace (r + 1) with (S r) in * by lia.
      destruct (y_t3 _ _ HY _ _ _ Ht H) as [H1 H2]. split; [destruct H1; [left|right]; by right|].
      intros [?|Hs]%elem_of_cons; [done|]. destruct (H2 Hs); [left|right]; by right.
  - intros f v Hin%Hsig. pose proof (x_futs _ _ X). pose proof (y_sigr _ _ HY _ _ Hin). lia.
  - split; [done|apply (y_log _ _ HY)].
Qed.

Ltac log_new s s' := let l := eval cbn in (log s') in
  lazymatch l with
  | log s => constr:(@nil gev)
  | ?e1 :: log s => constr:([e1])
  | ?e1 :: ?e2 :: log s => constr:([e1; e2])
  | ?e1 :: ?e2 :: ?e3 :: log s => constr:([e1; e2; e3])
  end.
Section ST.
  Context (nev : nat) (T : ftables).
  Lemma step_y_state s a s' : Inv_own s -> Inv_jobs s -> Inv_jobs s' -> Inv_fut s -> Inv_sig s -> Inv_y nev s -> step T s a = Some s' ->
    (forall o f r, (o, f, r) ∈ Ys s' -> firedP s' r -> ~ firedP s' (S r) -> wbn s'.(log) = Some (Some o)) /\
    (forall o f r v, (o, f, r) ∈ Ys s' -> GSig f v ∈ s'.(log) -> v = o /\ firedP s' (S r)) /\
    (forall o f r, (o, f, r) ∈ Ys s' -> firedP s' (S r) -> udone o s'.(log)) /\
    (forall f v, GSig f v ∈ s'.(log) -> f < length s'.(futs)) /\
    logall evok s'.(log).
  Proof.
    intros HO HJ HJ' HF HS HY Hstep. pose proof (step_ext T _ _ _ Hstep) as X.
    assert (Hw : wbn (log s') <> None) by (rewrite (ij_log _ HJ'); done).
    step_split Hstep Ea Est.
    all: try discriminate Hstep.
    all: injection Hstep as <-.
    all: pop_cont_split.
    all: pose proof (stacks_lookup _ _ _ Ea) as Hst; rewrite Est in Hst.
    all: try match goal with k : kont |- _ => destruct k end.
    all: pose proof (fun fr => y_frames _ _ HY a _ fr Hst) as Hk.
    all: match goal with |- (forall o f r, _ ∈ Ys ?s' -> _) /\ _ => try (try_fsame s s') end.
    all: try (match goal with Hfs : fsame _ ?s' |- _ => let n := log_new s s' in
                eapply (state_clauses_log nev s s' n HY X eq_refl Hfs eq_refl Hw) end).
    all: try (lazymatch goal with |- forall o f r, _ -> _ ∈ [] -> _ => intros ? ? ? _ H; by apply elem_of_nil in H
                                | |- forall o f r v, _ -> _ ∈ [] -> _ => intros ? ? ? ? _ H; by apply elem_of_nil in H
                                | |- forall f v, _ ∈ [] -> _ => intros ? ? H; by apply elem_of_nil in H end).
    all: try exact (y_log _ _ HY).
    all: try (lazymatch goal with
              | |- forall o f r, _ -> GFinish _ ∈ _ -> _ => intros oo1 ff1 rr1 Ht1 Hin1; rewrite ?elem_of_cons, ?elem_of_nil in Hin1;
                   repeat (match type of Hin1 with _ \/ _ => destruct Hin1 as [Hin1|Hin1] end); try discriminate Hin1; try done
              | |- forall o f r v, _ -> GSig _ _ ∈ _ -> _ => intros oo1 ff1 rr1 vv1 Ht1 Hin1; rewrite ?elem_of_cons, ?elem_of_nil in Hin1;
                   repeat (match type of Hin1 with _ \/ _ => destruct Hin1 as [Hin1|Hin1] end); try discriminate Hin1; try done
              | |- forall o f r, _ -> GUStart _ ∈ _ -> _ => intros oo1 ff1 rr1 Ht1 Hin1; rewrite ?elem_of_cons, ?elem_of_nil in Hin1;
                   repeat (match type of Hin1 with _ \/ _ => destruct Hin1 as [Hin1|Hin1] end); try discriminate Hin1; try done
              | |- forall f v, GSig _ _ ∈ _ -> _ => intros ff1 vv1 Hin1; rewrite ?elem_of_cons, ?elem_of_nil in Hin1;
                   repeat (match type of Hin1 with _ \/ _ => destruct Hin1 as [Hin1|Hin1] end); try discriminate Hin1; try done
              | |- logall evok (_ ++ _) => cbn [app]; repeat (lazymatch goal with |- logall _ (_ :: _) => apply logall_cons_intro end); try exact (y_log _ _ HY); try exact I
              end).
    all: try (pose proof (Hk _ (elem_of_list_here _ _)) as Hj; cbn [frok] in Hj).
    (* Finish *)
    all: try (lazymatch goal with Hin1 : GFinish _ = GFinish _ |- firedP _ _ => injection Hin1 as ->;
              first [ by eapply (slot_job_end nev s _ Hj)
                    | exfalso; destruct Hj as [_ Hn]; first [eapply Hn; exact Ht1 | destruct Hn as [Hn _]; eapply Hn; exact Ht1] ] end).
    all: try (lazymatch goal with |- evok (GFinish _) (log _) => eapply evok_finish_fut; [exact HY|exact Hj] end).
    all: try (lazymatch goal with |- evok (GFinish _) (_ :: _) => intros f2 r2 Hg; rewrite !elem_of_cons in Hg;
              repeat (match type of Hg with _ \/ _ => destruct Hg as [Hg|Hg] end); try discriminate Hg; apply ynews_in in Hg;
              exfalso; destruct Hj as [_ Hn]; first [eapply Hn; exact Hg | destruct Hn as [Hn _]; eapply Hn; exact Hg] end).
    (* Resolve *)
    all: try (lazymatch goal with |- evok (GResolve _ _) (_ :: _) => intros o2 r2 Hg; apply elem_of_cons in Hg as [Hg|Hg]; [discriminate Hg|];
              apply ynews_in in Hg; right; destruct Hj as [_ [_ Hn] ]; first [by eapply (proj2 Hn)|by eapply (proj2 (proj2 Hn))] end).
    all: try (lazymatch goal with |- evok (GResolve ?f ?v) (log _) =>
              first [ intros o2 r2 Hg; apply ynews_in in Hg; by eapply (proj2 Hj)
                    | eapply (evok_resolve_poll nev s a _ _ f v HF HS HY Hst); [reflexivity|assumption] ] end).
    (* Sig *)
    all: try (lazymatch goal with Hin1 : GSig _ _ = GSig _ _ |- _ /\ _ => injection Hin1 as -> ->;
              destruct (slot_job_sig nev s _ _ _ HY Hj _ _ Ht1) as (-> & _ & ?); done end).
    all: try (lazymatch goal with Hin1 : GSig _ _ = GSig _ _ |- _ < _ => injection Hin1 as -> ->; by eapply sig_range end).
    all: try (lazymatch goal with |- evok (GSig _ _) (log _) => eapply evok_sig; [exact HY|exact Hj] end).
    (* user future *)
    all: try (lazymatch goal with Hin1 : GUStart _ = GUStart _ |- ~ _ => injection Hin1 as ->; destruct Hj as (H1 & H2 & _);
              by pose proof (triple_eq nev s _ _ HY Ht1 H1 ltac:(cbn; auto)) as [= _ ->] end).
    all: try (lazymatch goal with |- evok (GUStart _) (log _) => eapply evok_ustart; [exact HY|exact Hj|assumption] end).
    all: try (lazymatch goal with |- evok _ (log _) => eapply (evok_urun nev s _ _ _ HY Hj); [exact I|discriminate|discriminate] end).
    (* queue_ready is sent *)
    all: try (lazymatch goal with Hst : stacks _ !! _ = Some (FJob (JFut ?op Waiting (PSendReady ?r :: _)) _ _ :: _) |- _ =>
      destruct (slot_job_ready _ _ _ _ _ Hj) as (f' & Ht & ->);
      eapply (state_clauses_fire nev s _ r [] HY X eq_refl); [intros ee; apply firedP_fire|reflexivity|intros ? []%elem_of_nil| | |exact (y_log _ _ HY)];
      [ intros o2 f2 Ht2; pose proof (triple_eq nev s _ _ HY Ht2 Ht ltac:(cbn; auto)) as [= -> _]; by eapply polled_open
      | intros o2 f2 r2 Ht2 EE2; rewrite <- EE2 in Ht; by destruct (triple_cells nev s _ _ HY Ht2 Ht) ] end).
    - (* future_sync *) by apply (state_clauses_new nev s _ HY X).
    - (* an external event fires *)
      eapply (state_clauses_fire nev s _ e [] HY X eq_refl); [intros ee; apply firedP_fire|reflexivity|intros ? []%elem_of_nil| | |exact (y_log _ _ HY)].
      + intros o2 f2 Ht2. destruct (y_rng _ _ HY _ _ _ Ht2) as (_ & _ & ? & _). lia.
      + intros o2 f2 r2 Ht2 EE2. destruct (y_rng _ _ HY _ _ _ Ht2) as (_ & _ & ? & _). lia.
    - (* task_finished is sent *)
      destruct Hj as (H1 & H2 & H3 & H4 & H5 & H6 & H7 & H8).
      eapply (state_clauses_fire nev s _ (S (y_r y)) [] HY X eq_refl); [intros ee; apply firedP_fire|reflexivity|intros ? []%elem_of_nil| | |exact (y_log _ _ HY)].
      + intros o2 f2 Ht2. by destruct (triple_cells nev s _ _ HY H1 Ht2).
      + intros o2 f2 r2 Ht2 [= ->]. pose proof (triple_eq nev s _ _ HY Ht2 H1 ltac:(cbn; auto)) as [= -> _].
        assert (GUFinish (y_op y) ∈ log s) by (by apply H5). split; [by left|intros _; by left].
    - (* drop of task_finished *)
      destruct Hj as (H1 & H2 & H3 & H4 & H5 & H6 & H7 & H8).
      eapply (state_clauses_fire nev s _ (S (y_r y)) [GYdrop (y_op y)] HY X eq_refl);
        [intros ee; apply (firedP_fire (addlog s [GYdrop (y_op y)]))|reflexivity|intros ? ->%elem_of_list_singleton; by eexists| | |].
      + intros o2 f2 Ht2. by destruct (triple_cells nev s _ _ HY H1 Ht2).
      + intros o2 f2 r2 Ht2 [= ->]. pose proof (triple_eq nev s _ _ HY Ht2 H1 ltac:(cbn; auto)) as [= -> _].
        split; [right; left|]. intros [?|Hs]%elem_of_cons; [done|]. right. right. apply H6. split; [done|by apply H4].
      + split; [|exact (y_log _ _ HY)]. split; [eexists _, _; by apply ynews_in|]. split; [done|]. split; [intros H; by apply H5 in H|].
        intros Hs. apply H6. split; [done|by apply H4].
  Qed.
End ST.
