(* The queue half of the wake-up chain ([Wake.cover]) is preserved step by step (the statements that the proofs of WakeStep*.v
   establish inside their queue_ok parts, as lemmas of their own; ZeroCover.v has the same for the task half). *)
From stdpp Require Import list numbers option.
From RecordUpdate Require Import RecordUpdate.
From L2 Require Import Model Base Own Jobs Shape DwInv Wake WakeInv WakeLem WakeStep1 WakeStep2 WakeStep3.
#[global] Unset Lia Cache.

(* the step pops fr0 and pushes pre; wakers of unfired events stay registered, drain/double wakers keep their task half *)
Lemma cover_keepX s s' a fr0 rest pre e :
  stacks s !! a = Some (fr0 :: rest) -> stacks s' = <[a := pre ++ rest]> (stacks s) ->
  (forall w, (getev s e).(fired) = false -> w ∈ (getev s e).(wakers) -> (getev s' e).(fired) = false /\ w ∈ (getev s' e).(wakers)) ->
  (forall w, effq s w = true -> effq s' w = true) -> (forall w, effw s w = true -> effw s' w = true) ->
  (forall d, np (carries d) s > 0 -> gd s e d = true -> gd s' e d = true) ->
  (forall w, fr0 = FWake w -> effq s w = true -> cover s' e = true) ->
  (forall d w, fr0 = FWakeWith d w -> effw s w = true -> gd s e d = true -> cover s' e = true) ->
  cover s e = true -> cover s' e = true.
Proof.
  intros Ha Hs H1 H2 H3 Hgd Hw Hww. rewrite (cover_iff s e).
  intros [(Hf & w & Hin & He)|[(c & w & Hf & He)|(c & d & w & Hf & He & Hg)]].
  - apply cover_iff. left. destruct (H1 w Hf Hin) as [? ?]. split; [done|]. exists w. split; [done|]. by apply H2.
  - destruct (decide (FWake w = fr0)) as [<-|Hne]; [by eapply Hw|].
    apply cover_iff. right; left. exists c, w. split; [by eapply fsat_keep_rest|]. by apply H2.
  - destruct (decide (FWakeWith d w = fr0)) as [<-|Hne]; [by eapply Hww|].
    apply cover_iff. right; right. exists c, d, w. split; [by eapply fsat_keep_rest|]. split; [by apply H3|]. apply Hgd; [|done].
    apply np_pos_fsat. exists c, (FWakeWith d w). split; [done|]. cbn. by apply bool_decide_eq_true.
Qed.

(* DrainWaker.wake *)
Lemma cv_wake_drain s a d st slot rest e : Inv_dw s ->
  stacks s !! a = Some (FWake (WDrain d) :: rest) -> getdw s d = (st, slot) ->
  let now := match st with DWWillWake => true | _ => false end in
  cover s e = true ->
  cover (setstack (setdw s d (DWWoken, if now then None else slot)) a ((if now then opt_wake slot else []) ++ rest)) e = true.
Proof.
  intros HD Hst E0 now.
  set (pre := if now then opt_wake slot else []). set (s0 := setdw s d _). set (s' := setstack _ _ _).
  assert (Hs : stacks s' = <[a := pre ++ rest]> (stacks s)) by (subst s' s0; solve_stacks).
  assert (Hnw : forall w, w <> WDrain d -> np (is_wake w) s <= np (is_wake w) s').
  { intros w Hw. eapply np_mono; [exact Hst|exact Hs|]. rewrite cntf_app. cbn. rewrite bool_decide_false by congruence. lia. }
  assert (Hgd : forall e d2, np (carries d2) s > 0 -> gd s e d2 = true -> gd s' e d2 = true).
  { intros e' d2 Hc. unfold gd. destruct (decide (d2 = d)) as [->|Hne].
    - intros _. change (dw_woken s' d) with (dw_woken s0 d). subst s0.
      rewrite dw_woken_setdw_eq by (by apply carried_lt). by rewrite orb_true_r.
    - change (dw_woken s' d2) with (dw_woken s0 d2). subst s0. rewrite dw_woken_setdw_ne by done.
      rewrite (unfreg_evs s s') by done. rewrite !orb_true_iff. intros [[?|?]|?]; [by left; left| |by right].
      left; right. eapply posb_mono; [apply Hnw; congruence|done]. }
  rewrite (cover_iff s e).
  assert (Hdr : effq s (WDrain d) = true -> cover s' e = true).
  { cbn. rewrite E0. intros He. destruct st; try done. destruct slot as [w'|]; [|done].
    apply cover_iff. right; left. exists a, w'. split.
    - eapply fsat_new; [exact Hst|exact Hs|]. apply elem_of_app. left. subst pre now. cbn. left.
    - apply effw_effq. by rewrite (effw_same s s'). }
  assert (Heq : forall w, w <> WDrain d -> effq s' w = effq s w).
  { intros w Hw. change (effq s' w) with (effq s0 w). subst s0. by apply effq_setdw_ne. }
  intros [(Hf & w & Hin & He)|[(c & w & Hf & He)|(c & d2 & w & Hf & He & Hg)]].
  + destruct (decide (w = WDrain d)) as [->|Hne]; [by apply Hdr|].
    apply cover_iff. left. split; [done|]. exists w. split; [done|]. by rewrite Heq.
  + destruct (decide (w = WDrain d)) as [->|Hne]; [by apply Hdr|].
    apply cover_iff. right; left. exists c, w. split; [|by rewrite Heq].
    eapply fsat_keep_rest; [exact Hst|exact Hs|exact Hf|congruence].
  + apply cover_iff. right; right. exists c, d2, w. split; [|split].
    * eapply fsat_keep_rest; [exact Hst|exact Hs|exact Hf|congruence].
    * by rewrite (effw_same s s').
    * apply Hgd; [|done]. apply np_pos_fsat. exists c, (FWakeWith d2 w). split; [done|]. cbn. by apply bool_decide_eq_true.
Qed.

(* DoubleWaker.wake *)
Lemma cv_wake_double_some s a k w1 w2 rest e :
  stacks s !! a = Some (FWake (WDouble k) :: rest) -> getdbl s k = Some (w1, w2) ->
  cover s e = true -> cover (setstack (setdbl s k None) a (FWake w1 :: FWake w2 :: rest)) e = true.
Proof.
  intros Hst E0. set (s0 := setdbl s k None). set (s' := setstack _ _ _).
  assert (Hs : stacks s' = <[a := [FWake w1; FWake w2] ++ rest]> (stacks s)) by (subst s' s0; solve_stacks).
  assert (Hnw : forall d, np (is_wake (WDrain d)) s <= np (is_wake (WDrain d)) s').
  { intros d. eapply np_mono; [exact Hst|exact Hs|]. cnt_le. }
  rewrite (cover_iff s e).
  assert (Hgd : forall d, gd s e d = true -> gd s' e d = true).
  { intros d. apply gd_np; [done|done|]. by apply Hnw. }
  assert (Hk : dbl_q s k = true -> cover s' e = true).
  { unfold dbl_q. rewrite E0. intros Hq. destruct w1; try done.
    apply cover_iff. right; left. exists a, WQueue. split; [|done]. eapply fsat_new; [exact Hst|exact Hs|left]. }
  intros [(Hf & w & Hin & He)|[(c & w & Hf & He)|(c & d2 & w & Hf & He & Hg)]].
  + destruct (effq_setdbl s k w He) as [He'|?]; [|by apply Hk].
    apply cover_iff. left. split; [done|]. by exists w.
  + destruct (effq_setdbl s k w He) as [He'|?]; [|by apply Hk].
    destruct (decide (w = WDouble k)) as [->|Hne].
    { exfalso. cbn in He'. unfold dbl_q in He'. by rewrite getdbl_setdbl_none in He'. }
    apply cover_iff. right; left. exists c, w. split; [|done].
    eapply fsat_keep_rest; [exact Hst|exact Hs|exact Hf|congruence].
  + destruct (effw_setdbl s k w He) as [He'|?]; [|by apply Hk].
    apply cover_iff. right; right. exists c, d2, w. split; [|split; [done|by apply Hgd] ].
    eapply fsat_keep_rest; [exact Hst|exact Hs|exact Hf|congruence].
Qed.

Lemma cv_wake_double_none s a k rest e :
  stacks s !! a = Some (FWake (WDouble k) :: rest) -> getdbl s k = None -> cover s e = true -> cover (setstack s a rest) e = true.
Proof.
  intros Hst E0. set (s' := setstack _ _ _).
  assert (Hs : stacks s' = <[a := [] ++ rest]> (stacks s)) by (subst s'; solve_stacks).
  eapply (cover_keepX s s' a _ rest []); try done.
  + intros d _. apply gd_np; [done|done|]. eapply np_mono; [exact Hst|exact Hs|cnt_le].
  + intros w [= <-]. cbn. unfold dbl_q. by rewrite E0.
Qed.

(* DrainWaker.wake_with, already woken *)
Lemma cv_wake_with_now s a d w slot rest e :
  stacks s !! a = Some (FWakeWith d w :: rest) -> getdw s d = (DWWoken, slot) ->
  cover s e = true -> cover (setstack (setdw s d (DWWoken, slot)) a (FWake w :: rest)) e = true.
Proof.
  intros Hst E0. set (s' := setstack _ _ _).
  assert (Hd : dws s' = dws s).
  { subst s'. cbn. apply list_insert_id. by apply getdw_lookup. }
  assert (Hs : stacks s' = <[a := [FWake w] ++ rest]> (stacks s)) by (subst s'; solve_stacks).
  assert (Hnw : forall w0, np (is_wake w0) s <= np (is_wake w0) s') by (intros w0; eapply np_mono; [exact Hst|exact Hs|cnt_le]).
  assert (Hgd : forall e d2, gd s e d2 = true -> gd s' e d2 = true) by (intros e' d2; by apply gd_np).
  eapply (cover_keepX s s' a _ rest [FWake w]); try done.
  + intros w0 Hw. by rewrite (effq_same s s').
  + intros d2 _. apply Hgd.
  + intros d2 w2 [= <- <-] He _. apply cover_iff. right; left. exists a, w. split.
    * eapply fsat_new; [exact Hst|exact Hs|left].
    * apply effw_effq. by rewrite (effw_same s s').
Qed.

(* DrainWaker.wake_with, not yet woken: the waker is installed *)
Lemma cv_wake_with_later s a d w st slot rest e : Inv_dw s ->
  stacks s !! a = Some (FWakeWith d w :: rest) -> getdw s d = (st, slot) -> st <> DWWoken ->
  cover s e = true -> cover (setstack (setdw s d (DWWillWake, Some w)) a rest) e = true.
Proof.
  intros HD Hst E0 Hnwk. set (s0 := setdw s d _). set (s' := setstack _ _ _).
  assert (Hs : stacks s' = <[a := [] ++ rest]> (stacks s)) by (subst s' s0; solve_stacks).
  assert (Hcar : np (carries d) s > 0).
  { apply np_pos_fsat. exists a, (FWakeWith d w). split; [eexists; split; [exact Hst|left]|]. cbn. by apply bool_decide_eq_true. }
  assert (Hlt : d < length (dws s)) by (by apply carried_lt).
  assert (Hst0 : st = DWNotWoken).
  { pose proof (id_one _ HD d) as H. assert (Hw : will s d = false) by (destruct (will s d); [cbn in H; lia|done]).
    unfold will in Hw. rewrite E0 in Hw. cbn in Hw. by destruct st. }
  subst st.
  assert (Hnw : forall w0, np (is_wake w0) s' = np (is_wake w0) s) by (intros w0; by eapply np_same; [exact Hst|exact Hs|]).
  assert (Hgd : forall e d2, gd s e d2 = true -> gd s' e d2 = true).
  { intros e' d2. unfold gd. rewrite (unfreg_evs s s') by done. rewrite Hnw. change (dw_woken s' d2) with (dw_woken s0 d2).
    destruct (decide (d2 = d)) as [->|Hne]; [|subst s0; by rewrite dw_woken_setdw_ne].
    unfold dw_woken at 1. rewrite E0. cbn. rewrite orb_false_r. intros ->. done. }
  rewrite (cover_iff s e).
  assert (Hnd : effq s (WDrain d) = false) by (cbn; by rewrite E0).
  assert (Heq : forall w0, w0 <> WDrain d -> effq s' w0 = effq s w0).
  { intros w0 Hw. change (effq s' w0) with (effq s0 w0). subst s0. by apply effq_setdw_ne. }
  assert (Hed : effw s w = true -> effq s' (WDrain d) = true).
  { intros He. change (effq s' (WDrain d)) with (effq s0 (WDrain d)). subst s0. cbn. rewrite getdw_setdw_eq by done.
    by rewrite (effw_same s (setdw s d (DWWillWake, Some w))). }
  intros [(Hf & w0 & Hin & He)|[(c & w0 & Hf & He)|(c & d2 & w2 & Hf & He & Hg)]].
  + destruct (decide (w0 = WDrain d)) as [->|Hne]; [congruence|].
    apply cover_iff. left. split; [done|]. exists w0. split; [done|]. by rewrite Heq.
  + destruct (decide (w0 = WDrain d)) as [->|Hne]; [congruence|].
    apply cover_iff. right; left. exists c, w0. split; [|by rewrite Heq].
    eapply fsat_keep_rest; [exact Hst|exact Hs|exact Hf|congruence].
  + destruct (decide (FWakeWith d2 w2 = FWakeWith d w)) as [[= -> ->]|Hne].
    * unfold gd in Hg. unfold dw_woken in Hg. rewrite E0 in Hg. cbn in Hg. rewrite orb_false_r in Hg.
      apply orb_true_iff in Hg as [Hu|Hn].
      -- unfold unfreg in Hu. apply andb_true_iff in Hu as [Hu1 Hu2]. apply negb_true_iff in Hu1. apply bool_decide_eq_true in Hu2.
         apply cover_iff. left. split; [done|]. exists (WDrain d). split; [done|by apply Hed].
      -- apply posb_true, np_pos_fsat in Hn as (c2 & fr & Hf2 & Hp). destruct fr; try done. cbn in Hp. apply bool_decide_eq_true in Hp as ->.
         apply cover_iff. right; left. exists c2, (WDrain d). split; [|by apply Hed].
         eapply fsat_keep_rest; [exact Hst|exact Hs|exact Hf2|congruence].
    * apply cover_iff. right; right. exists c, d2, w2. split; [|split; [by rewrite (effw_same s s')|by apply Hgd] ].
      eapply fsat_keep_rest; [exact Hst|exact Hs|exact Hf|congruence].
Qed.

(* an external event fires *)
Lemma cv_fire s a e0 rest e : stacks s !! a = Some (FFire e0 :: rest) -> cover s e = true ->
  cover (setstack (setev s e0 {| fired := true; wakers := [] |}) a (wake_frames (rev (getev s e0).(wakers)) ++ rest)) e = true.
Proof.
  intros Hst. set (ws := rev (wakers (getev s e0))). set (s0 := setev s e0 _). set (s' := setstack _ _ _).
  assert (Hs : stacks s' = <[a := wake_frames ws ++ rest]> (stacks s)) by (subst s' s0; solve_stacks).
  assert (Hnw : forall w, np (is_wake w) s <= np (is_wake w) s').
  { intros w. eapply np_mono; [exact Hst|exact Hs|]. rewrite cntf_app. cbn. lia. }
  assert (Hu : forall e w, unfreg s e w = true -> unfreg s' e w = true \/ posb (np (is_wake w) s') = true).
  { intros e' w Hu. destruct (decide (e' = e0)) as [->|Hne].
    - right. unfold unfreg in Hu. apply andb_true_iff in Hu as [_ Hin]. apply bool_decide_eq_true in Hin.
      eapply (np_pos_wake s' a). eapply fsat_new; [exact Hst|exact Hs|]. apply elem_of_app. left. apply in_wake_frames. subst ws. by apply elem_of_rev.
    - left. unfold unfreg in *. change (getev s' e') with (getev s0 e'). subst s0. by rewrite getev_setev_ne. }
  assert (Hgd : forall e d, gd s e d = true -> gd s' e d = true).
  { intros e' d. unfold gd. rewrite !orb_true_iff. intros [[H|H]|H]; [|left; right; eapply posb_mono; [apply Hnw|done]|by right].
    destruct (Hu _ _ H); [by left; left|by left; right]. }
  rewrite (cover_iff s e).
  assert (Heq : forall w, effq s' w = effq s w) by (intros w; by apply effq_same).
  intros [(Hf & w & Hin & He)|[(c & w & Hf & He)|(c & d2 & w2 & Hf & He & Hg)]].
  + destruct (decide (e = e0)) as [->|Hne].
    * apply cover_iff. right; left. exists a, w. split; [|by rewrite Heq].
      eapply fsat_new; [exact Hst|exact Hs|]. apply elem_of_app. left. apply in_wake_frames. subst ws. by apply elem_of_rev.
    * apply cover_iff. left. change (getev s' e) with (getev s0 e). subst s0. rewrite getev_setev_ne by done.
      split; [done|]. exists w. split; [done|by rewrite Heq].
  + apply cover_iff. right; left. exists c, w. split; [|by rewrite Heq].
    eapply fsat_keep_rest; [exact Hst|exact Hs|exact Hf|congruence].
  + apply cover_iff. right; right. exists c, d2, w2. split; [|split; [by rewrite (effw_same s s')|by apply Hgd] ].
    eapply fsat_keep_rest; [exact Hst|exact Hs|exact Hf|congruence].
Qed.
Lemma cv_fire_gen s a fr0 post e0 rest e : stacks s !! a = Some (fr0 :: rest) -> relw fr0 = false -> cover s e = true ->
  cover (setstack (setev s e0 {| fired := true; wakers := [] |}) a (wake_frames (rev (getev s e0).(wakers)) ++ post ++ rest)) e = true.
Proof.
  intros Hst Hr0. set (ws := rev (wakers (getev s e0))). set (s0 := setev s e0 _). set (s' := setstack _ _ _).
  assert (Hs : stacks s' = <[a := (wake_frames ws ++ post) ++ rest]> (stacks s)) by (subst s' s0; rewrite <- app_assoc; solve_stacks).
  assert (Hnw : forall w, np (is_wake w) s <= np (is_wake w) s').
  { intros w. eapply np_mono; [exact Hst|exact Hs|]. rewrite !cntf_app. cbn. destruct fr0; try discriminate Hr0; cbn; lia. }
  assert (Hu : forall e w, unfreg s e w = true -> unfreg s' e w = true \/ posb (np (is_wake w) s') = true).
  { intros e' w Hu. destruct (decide (e' = e0)) as [->|Hne].
    - right. unfold unfreg in Hu. apply andb_true_iff in Hu as [_ Hin]. apply bool_decide_eq_true in Hin.
      eapply (np_pos_wake s' a). eapply fsat_new; [exact Hst|exact Hs|]. apply elem_of_app. left. apply elem_of_app. left. apply in_wake_frames. subst ws. by apply elem_of_rev.
    - left. unfold unfreg in *. change (getev s' e') with (getev s0 e'). subst s0. by rewrite getev_setev_ne. }
  assert (Hgd : forall e d, gd s e d = true -> gd s' e d = true).
  { intros e' d. unfold gd. rewrite !orb_true_iff. intros [[H|H]|H]; [|left; right; eapply posb_mono; [apply Hnw|done]|by right].
    destruct (Hu _ _ H); [by left; left|by left; right]. }
  rewrite (cover_iff s e).
  assert (Heq : forall w, effq s' w = effq s w) by (intros w; by apply effq_same).
  intros [(Hf & w & Hin & He)|[(c & w & Hf & He)|(c & d2 & w2 & Hf & He & Hg)]].
  + destruct (decide (e = e0)) as [->|Hne].
    * apply cover_iff. right; left. exists a, w. split; [|by rewrite Heq].
      eapply fsat_new; [exact Hst|exact Hs|]. apply elem_of_app. left. apply elem_of_app. left. apply in_wake_frames. subst ws. by apply elem_of_rev.
    * apply cover_iff. left. change (getev s' e) with (getev s0 e). subst s0. rewrite getev_setev_ne by done.
      split; [done|]. exists w. split; [done|by rewrite Heq].
  + apply cover_iff. right; left. exists c, w. split; [|by rewrite Heq].
    eapply fsat_keep_rest; [exact Hst|exact Hs|exact Hf|intros <-; discriminate Hr0].
  + apply cover_iff. right; right. exists c, d2, w2. split; [|split; [by rewrite (effw_same s s')|by apply Hgd] ].
    eapply fsat_keep_rest; [exact Hst|exact Hs|exact Hf|intros <-; discriminate Hr0].
Qed.

(* every other step: the popped frames are no waker calls (or calls of wakers that do not reach the task); registrations, drain
   wakers and double wakers are only added *)
Definition nocovq (s : state) (fr : frame) : bool :=
  match fr with FWake (WDrain _) | FWakeWith _ _ => false | FWake w => negb (effq s w) | _ => true end.
Lemma cv_plain s s' a pop rest new e :
  stacks s !! a = Some (pop ++ rest) -> stacks s' = <[a := new]> (stacks s) -> (forall fr, fr ∈ rest -> fr ∈ new) ->
  (forall fr, fr ∈ pop -> nocovq s fr = true) ->
  (forall e w, (forall c, w <> WTask c) -> (getev s e).(fired) = false -> w ∈ (getev s e).(wakers) -> (getev s' e).(fired) = false /\ w ∈ (getev s' e).(wakers)) ->
  (forall d, getdw s' d = getdw s d) -> (forall k, getdbl s k <> None -> getdbl s' k = getdbl s k) ->
  cover s e = true -> cover s' e = true.
Proof.
  intros Hst Hs Hnew Hr Hev Hdw Hdb.
  assert (Htw : forall w, effw s w = true -> effw s' w = true).
  { intros [| | |c|k]; cbn; try done. unfold dbl_q. destruct (getdbl s k) as [p|] eqn:E; [|done]. by rewrite Hdb, E by (by rewrite E). }
  assert (Ht : forall w, effq s w = true -> effq s' w = true).
  { intros w. destruct w as [| |d| |]; try apply Htw. cbn. rewrite Hdw. destruct (getdw s d) as [[] [w|]]; try done. apply Htw. }
  assert (Hk : forall c fr, nocovq s fr = false -> fsat s c fr -> fsat s' c fr).
  { intros c fr Hrel Hf. eapply fsat_keep; [exact Hst|exact Hs|exact Hf|]. intros _ [Hin|Hin]%elem_of_app; [|by apply Hnew].
    rewrite (Hr _ Hin) in Hrel. done. }
  assert (Hgd : forall d, gd s e d = true -> gd s' e d = true).
  { intros d. unfold gd. rewrite !orb_true_iff. intros [[H|H]|H].
    + left; left. unfold unfreg in *. apply andb_true_iff in H as [H1 H2]. apply negb_true_iff in H1. apply bool_decide_eq_true in H2.
      assert (Hnt : forall c, WDrain d <> WTask c) by done.
      destruct (Hev _ _ Hnt H1 H2) as [H3 H4]. rewrite H3. cbn. by apply bool_decide_eq_true.
    + left; right. apply posb_true, np_pos_fsat in H as (c & fr & Hf & Hp). destruct fr; try done.
      cbn in Hp. apply bool_decide_eq_true in Hp as ->.
      apply posb_true, np_pos_fsat. exists c, (FWake (WDrain d)). split; [by apply Hk|]. cbn. by apply bool_decide_eq_true.
    + right. unfold dw_woken in *. by rewrite Hdw. }
  rewrite (cover_iff s e). intros [(Hf & w & Hin & He)|[(c & w & Hf & He)|(c & d & w & Hf & He & Hg)]]; apply cover_iff.
  - left. assert (Hnt : forall c, w <> WTask c) by (intros c ->; discriminate He).
    destruct (Hev _ _ Hnt Hf Hin) as [? ?]. split; [done|]. exists w. split; [done|by apply Ht].
  - right; left. exists c, w. split; [|by apply Ht]. apply Hk; [|done]. cbn. destruct w; try done; cbn in *; by rewrite He.
  - right; right. exists c, d, w. split; [by apply Hk|]. split; [by apply Htw|by apply Hgd].
Qed.
Lemma getdw_app_c s (s' : state) : s'.(dws) = s.(dws) ++ [(DWNotWoken, None)] -> forall d, getdw s' d = getdw s d.
Proof.
  intros H d. unfold getdw. rewrite H. destruct (decide (d < length (dws s))).
  - by rewrite lookup_app_l.
  - rewrite (lookup_ge_None_2 (dws s)) by lia. destruct (decide (d = length (dws s))) as [->|].
    + by rewrite list_lookup_middle.
    + rewrite lookup_ge_None_2; [done|]. rewrite app_length. cbn. lia.
Qed.
Lemma getdbl_app_c s (s' : state) x : s'.(dbl) = s.(dbl) ++ [x] -> forall k, getdbl s k <> None -> getdbl s' k = getdbl s k.
Proof.
  intros H k. unfold getdbl. rewrite H. destruct (decide (k < length (dbl s))).
  - by rewrite lookup_app_l.
  - by rewrite (lookup_ge_None_2 (dbl s)) by lia.
Qed.
