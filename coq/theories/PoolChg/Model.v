(* PoolChg - the thread pool of the scheduler while its maximum is being changed (C17, maximum changes).

   Code (src/scheduler/core.rs, src/scheduler/desync_scheduler.rs):
     spawn_thread_if_less_than_maximum   let max = *max_threads.lock();            (own lock, released at once)
                                         let mut threads = threads.lock();
                                         if threads.len() < max { threads.push(new thread) }
     set_max_threads / verif_set_max     *max_threads.lock() = n
     despawn_threads_if_overloaded       let max = *max_threads.lock();
                                         { let mut threads = threads.lock(); while threads.len() > max { to_despawn.push(threads.pop().despawn()) } }
                                         to_despawn.for_each(join)                 (outside the threads lock)
     a despawned thread ends after its current job.

   Model.  Any number of spawner actors (each a bounded number of scheduling calls), ONE changer actor that runs a script of
   `set max := n` and `despawn` operations, and the end of a popped thread.  Every step is one critical section (or one lock-free
   read).  The owned threads are a list with the NEWEST thread first (Vec::push / Vec::pop = cons / tail).
   Facts (read from the source, see Inst.v):
     f_max_read_under_threads_lock   false = the code as it is (the maximum is read before the threads lock is taken: two steps);
                                     true  = a repaired variant where the spawner reads the maximum inside the threads lock (one step)
     f_spawn_cmp, f_despawn_cmp      the comparison of the spawn test (`<`) and of the despawn loop (`>`)
   Ghost fields: max_ever (largest maximum so far), next (number of threads ever created = the next thread id), pops (number of
   completed pop sections), dirty (the maximum has been lowered and no pop section has run since). *)
From stdpp Require Import list numbers option.
From RecordUpdate Require Import RecordUpdate.
From L0 Require Import Types.

Definition cmp_b (c : cmpop) (x y : nat) : bool :=
  match c with
  | CLt => bool_decide (x < y) | CLe => bool_decide (x <= y) | CGt => bool_decide (y < x) | CGe => bool_decide (y <= x)
  | CEq => bool_decide (x = y) | CNe => bool_decide (x <> y)
  end.

Record facts := { f_max_read_under_threads_lock : bool; f_spawn_cmp : cmpop; f_despawn_cmp : cmpop }.

(* spawner: k = scheduling calls still to make; SRead m k = inside a call, has read the maximum m, not yet locked `threads` *)
Inductive spc := SIdle (k : nat) | SRead (m k : nat).
(* changer: CRead m = inside despawn, has read the maximum; CPopped hs = popped, joining the handles hs *)
Inductive cpc := CIdle | CRead (m : nat) | CPopped (hs : list nat).
Inductive cop := CSet (n : nat) | CDespawn.

Record state := {
  maxt : nat; threads : list nat; dying : list nat;       (* dying: popped and not yet ended *)
  spw : list spc; chg : cpc; cscript : list cop;
  max_ever : nat; next : nat; pops : nat; dirty : bool }.
#[export] Instance eta_state : Settable _ :=
  settable! Build_state <maxt; threads; dying; spw; chg; cscript; max_ever; next; pops; dirty>.

(* the pool threads that are alive: the owned ones and the popped ones that have not ended yet *)
Definition alive (s : state) : list nat := s.(threads) ++ s.(dying).

Inductive actor := ASpawn (i : nat) | AChg | AEnd (t : nat).

Definition setspw (s : state) (i : nat) (pc : spc) : state := s <| spw := <[i := pc]> s.(spw) |>.

(* the lock-test-push section of spawn_thread_if_less_than_maximum with the maximum m *)
Definition try_push (F : facts) (s : state) (m : nat) : state :=
  if cmp_b F.(f_spawn_cmp) (length s.(threads)) m
  then s <| threads := s.(next) :: s.(threads) |> <| next := S s.(next) |>
  else s.

(* while threads.len() `cmp` m { pop }: returns (remaining, popped in pop order) *)
Fixpoint pop_loop (c : cmpop) (m : nat) (ths : list nat) : list nat * list nat :=
  match ths with
  | [] => ([], [])
  | t :: r => if cmp_b c (length ths) m then let '(r', hs) := pop_loop c m r in (r', t :: hs) else (ths, [])
  end.

Definition step (F : facts) (s : state) (a : actor) : option state :=
  match a with
  | ASpawn i =>
      pc ← s.(spw) !! i;
      match pc with
      | SIdle 0 => None
      | SIdle (S k) =>
          if F.(f_max_read_under_threads_lock) then Some (setspw (try_push F s s.(maxt)) i (SIdle k))
          else Some (setspw s i (SRead s.(maxt) k))
      | SRead m k => Some (setspw (try_push F s m) i (SIdle k))
      end
  | AChg =>
      match s.(chg) with
      | CIdle =>
          match s.(cscript) with
          | [] => None
          | CSet n :: r =>
              Some (s <| maxt := n |> <| max_ever := Nat.max s.(max_ever) n |>
                      <| dirty := s.(dirty) || bool_decide (n < s.(maxt)) |> <| cscript := r |>)
          | CDespawn :: r => Some (s <| chg := CRead s.(maxt) |> <| cscript := r |>)
          end
      | CRead m =>
          let '(r, hs) := pop_loop F.(f_despawn_cmp) m s.(threads) in
          Some (s <| threads := r |> <| dying := s.(dying) ++ hs |> <| chg := CPopped hs |> <| pops := S s.(pops) |> <| dirty := false |>)
      | CPopped hs =>
          if bool_decide (Forall (fun h => h ∉ s.(dying)) hs) then Some (s <| chg := CIdle |>) else None
      end
  | AEnd t =>
      if bool_decide (t ∈ s.(dying)) then Some (s <| dying := filter (fun x => x <> t) s.(dying) |>) else None
  end.

Definition run (F : facts) (s : state) (tr : list actor) : option state :=
  foldl (fun os a => o ← os; step F o a) (Some s) tr.

(* mx = initial maximum, calls = scheduling calls per spawner, cs = the changer's script; no pool thread exists *)
Definition init (mx : nat) (calls : list nat) (cs : list cop) : state :=
  {| maxt := mx; threads := []; dying := []; spw := SIdle <$> calls; chg := CIdle; cscript := cs;
     max_ever := mx; next := 0; pops := 0; dirty := false |}.

Definition terminal (F : facts) (s : state) : Prop := forall a, step F s a = None.

Definition bounded (s : state) : Prop := length s.(threads) <= s.(maxt).
Definition spawners_idle (s : state) : Prop := forall i pc, s.(spw) !! i = Some pc -> exists k, pc = SIdle k.

(* the rest of the changer's script never lowers the maximum (m = the current maximum) *)
Fixpoint nolower (m : nat) (cs : list cop) : Prop :=
  match cs with
  | [] => True
  | CSet k :: r => m <= k /\ nolower k r
  | CDespawn :: r => nolower m r
  end.
