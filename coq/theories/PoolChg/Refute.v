(* PoolChg: executable scenarios - the racy lowering (the code as it is), and non-vacuity of the theorems' hypotheses *)
From stdpp Require Import list numbers option.
From RecordUpdate Require Import RecordUpdate.
From L0 Require Import Types.
From PoolChg Require Import Model Base.

Definition F_now : facts := {| f_max_read_under_threads_lock := false; f_spawn_cmp := CLt; f_despawn_cmp := CGt |}.
Definition F_fix : facts := {| f_max_read_under_threads_lock := true; f_spawn_cmp := CLt; f_despawn_cmp := CGt |}.

(* ---------- the racy lowering: maximum 1, two scheduling calls, the changer lowers to 0 and despawns ----------
   call 0 reads 1 and pushes thread 0; call 1 reads 1; the changer sets 0, reads 0, pops thread 0, thread 0 ends, the join
   returns; call 1 still holds the old maximum 1, finds 0 < 1 and pushes thread 1: the pool owns 1 thread, the maximum is 0 *)
Definition racy_init : state := init 1 [1; 1] [CSet 0; CDespawn].
Definition racy_trace : list actor := [ASpawn 0; ASpawn 0; ASpawn 1; AChg; AChg; AChg; AEnd 0; AChg; ASpawn 1].
Definition racy_end : state :=
  {| maxt := 0; threads := [1]; dying := []; spw := [SIdle 0; SIdle 0]; chg := CIdle; cscript := [];
     max_ever := 1; next := 2; pops := 1; dirty := false |}.
Lemma racy_run : run F_now racy_init racy_trace = Some racy_end.
Proof. vm_compute. reflexivity. Qed.

Lemma racy_end_terminal : terminal F_now racy_end.
Proof.
  intros [i| |t]; cbn; [|done|].
  - destruct i as [|[|i]]; done.
  - rewrite bool_decide_eq_false_2; [done|apply not_elem_of_nil].
Qed.

(* the same program on the repaired variant, racing in the same way: the late call sees the new maximum *)
Lemma fix_run : exists s, run F_fix racy_init [ASpawn 0; AChg; ASpawn 1; AChg; AChg; AEnd 0; AChg] = Some s /\
  s.(dirty) = false /\ s.(threads) = [] /\ s.(maxt) = 0 /\ s.(pops) = 1 /\ s.(next) = 1 /\ terminal F_fix s.
Proof.
  eexists. split; [vm_compute; reflexivity|]. repeat split.
  intros [i| |t]; cbn; [|done|].
  - destruct i as [|[|i]]; done.
  - rewrite bool_decide_eq_false_2; [done|apply not_elem_of_nil].
Qed.

(* ---------- a fixed maximum is reached, and not exceeded, by racing calls ---------- *)
Lemma fixed_run : exists s, run F_now (init 1 [1; 1] []) [ASpawn 0; ASpawn 1; ASpawn 0; ASpawn 1] = Some s /\
  length s.(threads) = 1 /\ s.(maxt) = 1 /\ s.(next) = 1.
Proof. eexists. split; [vm_compute; reflexivity|done]. Qed.

(* a maximum of zero: scheduling calls run, nothing is created *)
Lemma zero_run : exists s, run F_now (init 0 [2; 1] [CDespawn]) [ASpawn 0; ASpawn 1; ASpawn 0; AChg; AChg; AChg; ASpawn 1; ASpawn 0; ASpawn 0] = Some s /\
  s.(max_ever) = 0 /\ s.(next) = 0 /\ alive s = [] /\ s.(spw) = [SIdle 0; SIdle 0] /\ s.(chg) = CIdle.
Proof. eexists. split; [vm_compute; reflexivity|done]. Qed.

(* ---------- a lowering between phases: maximum 2, phase 1 fills the pool, the changer lowers to 1 while every call has returned,
   phase 2 calls race with the despawn ---------- *)
Definition phase_init : state := init 2 [2; 2] [CSet 1; CDespawn].
Definition phase_mid : state :=
  {| maxt := 2; threads := [1; 0]; dying := []; spw := [SIdle 1; SIdle 1]; chg := CIdle; cscript := [CSet 1; CDespawn];
     max_ever := 2; next := 2; pops := 0; dirty := false |}.
Lemma phase_run1 : run F_now phase_init [ASpawn 0; ASpawn 1; ASpawn 0; ASpawn 1] = Some phase_mid.
Proof. vm_compute. reflexivity. Qed.
Lemma phase_mid_idle : spawners_idle phase_mid.
Proof. intros i pc. destruct i as [|[|i]]; cbn; intros; simplify_eq; eauto. Qed.
Lemma phase_run2 : exists s, run F_now phase_mid [AChg; ASpawn 0; AChg; AChg; ASpawn 0; AEnd 1; ASpawn 1; AChg; ASpawn 1] = Some s /\
  phase_mid.(pops) < s.(pops) /\ s.(threads) = [0] /\ s.(maxt) = 1 /\ s.(chg) = CIdle /\ alive s = [0] /\ terminal F_now s.
Proof.
  eexists. split; [vm_compute; reflexivity|]. repeat split; [cbn; lia|].
  intros [i| |t]; cbn; [|done|].
  - destruct i as [|[|i]]; done.
  - rewrite bool_decide_eq_false_2; [done|apply not_elem_of_nil].
Qed.

(* while the join waits, the popped thread is still alive: alive = owned + popped-and-not-ended *)
Lemma phase_run_popped : exists s, run F_now phase_mid [AChg; AChg; AChg] = Some s /\
  s.(chg) = CPopped [1] /\ s.(threads) = [0] /\ s.(dying) = [1] /\ length (alive s) = 2 /\ s.(maxt) = 1 /\ step F_now s AChg = None.
Proof. eexists. split; [vm_compute; reflexivity|]. repeat split. Qed.
