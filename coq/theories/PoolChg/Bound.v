(* PoolChg: when the pool is within its maximum.
   - stale maxima: a spawner that has read the maximum m still pushes while len < m; harmless as long as m <= the current maximum,
     i.e. as long as the maximum is not lowered while a scheduling call is between its read and its push
   - a pop section (despawn) establishes len <= max; afterwards the bound is kept if the rest of the script does not lower
   - with the read inside the threads lock there are no stale maxima: the bound holds whenever no lowering is outstanding *)
From stdpp Require Import list numbers option.
From RecordUpdate Require Import RecordUpdate.
From L0 Require Import Types.
From PoolChg Require Import Model Base.

Section Bound.
  Context (F : facts) (HS : F.(f_spawn_cmp) = CLt) (HD : F.(f_despawn_cmp) = CGt).

  Definition staleok (s : state) : Prop := forall i m k, s.(spw) !! i = Some (SRead m k) -> m <= s.(maxt).

  Record inv1 (s : state) : Prop := {
    j_stale : staleok s;
    j_script : nolower s.(maxt) s.(cscript);
    j_chg : forall m, s.(chg) = CRead m -> m = s.(maxt) }.

  (* p0 = the number of pop sections at the start of the phase: once a pop section has run, the pool is bounded *)
  Definition invp (p0 : nat) (s : state) : Prop := inv1 s /\ (p0 < s.(pops) -> bounded s).

  Lemma try_push_bounded s m : m <= s.(maxt) -> length s.(threads) <= s.(maxt) -> length (try_push F s m).(threads) <= s.(maxt).
  Proof.
    intros Hm Hb. destruct (try_push_cases F s m HS) as [(-> & _)|(-> & Hlt)]; [done|]. cbn. lia.
  Qed.
  Lemma try_push_fields s m :
    (try_push F s m).(maxt) = s.(maxt) /\ (try_push F s m).(cscript) = s.(cscript) /\ (try_push F s m).(chg) = s.(chg) /\
    (try_push F s m).(spw) = s.(spw) /\ (try_push F s m).(pops) = s.(pops) /\ (try_push F s m).(dirty) = s.(dirty) /\
    (try_push F s m).(dying) = s.(dying) /\ (try_push F s m).(max_ever) = s.(max_ever).
  Proof. unfold try_push. destruct (cmp_b _ _ _); done. Qed.

  Lemma inv1_step s a s' : inv1 s -> step F s a = Some s' -> inv1 s'.
  Proof.
    intros [Hst Hsc Hc] H%step_inv. destruct H; unfold setspw, staleok in *.
    - split; cbn; try done. intros j m' k' [(-> & E)|(_ & E)]%lookup_setspw; [by simplify_eq|eauto].
    - destruct (try_push_fields s (maxt s)) as (E1 & E2 & E3 & E4 & _).
      split; cbn; rewrite ?E1, ?E2, ?E3, ?E4; try done.
      intros j m' k' [(-> & E)|(_ & E)]%lookup_setspw; [done|]. cbn; rewrite ?E1. eauto.
    - destruct (try_push_fields s m) as (E1 & E2 & E3 & E4 & _).
      split; cbn; rewrite ?E1, ?E2, ?E3, ?E4; try done.
      intros j m' k' [(-> & E)|(_ & E)]%lookup_setspw; [done|]. cbn; rewrite ?E1. eauto.
    - rewrite H0 in Hsc. destruct Hsc as [Hle Hsc]. split; cbn; try done.
      + intros i m k E. cbn in *. specialize (Hst _ _ _ E). lia.
      + intros m E. congruence.
    - rewrite H0 in Hsc. split; cbn; try done. intros m E. by simplify_eq.
    - split; cbn; try done.
    - split; cbn; try done.
    - split; cbn; try done.
  Qed.

  Lemma invp_step p0 s a s' : invp p0 s -> step F s a = Some s' -> invp p0 s'.
  Proof.
    intros (H1 & Hb) Hs. split; [by eapply inv1_step|].
    destruct H1 as [Hst Hsc Hc]. apply step_inv in Hs. destruct Hs; unfold setspw, bounded in *; cbn.
    - done.
    - destruct (try_push_fields s (maxt s)) as (E1 & _ & _ & _ & E5 & _). rewrite E1, E5. intros Hp.
      apply (try_push_bounded s (maxt s)); [done|]. by apply Hb.
    - destruct (try_push_fields s m) as (E1 & _ & _ & _ & E5 & _). rewrite E1, E5. intros Hp.
      apply (try_push_bounded s m); [by eapply Hst|]. by apply Hb.
    - rewrite H0 in Hsc. destruct Hsc as [Hle _]. intros Hp. specialize (Hb Hp). lia.
    - done.
    - intros _. rewrite HD in H0. rewrite <- (Hc _ H). by eapply pop_loop_gt.
    - done.
    - done.
  Qed.

  (* ---------- (1) a maximum that is never lowered: any number of racing spawners, raising allowed ---------- *)
  Lemma bounded_nolower mx calls cs tr s :
    nolower mx cs -> run F (init mx calls cs) tr = Some s -> bounded s.
  Proof.
    intros Hn Hr.
    assert (H : inv1 s /\ bounded s).
    { eapply (run_inv F (fun s => inv1 s /\ bounded s)); [| |exact Hr].
      - intros s0 a s1 [H1 Hb] Hs. split; [by eapply inv1_step|].
        destruct H1 as [Hst Hsc Hc]. apply step_inv in Hs. destruct Hs; unfold setspw, bounded in *; cbn; try done.
        + destruct (try_push_fields s0 (maxt s0)) as (E1 & _). rewrite E1. by apply (try_push_bounded s0 (maxt s0)).
        + destruct (try_push_fields s0 m) as (E1 & _). rewrite E1. apply (try_push_bounded s0 m); [by eapply Hst|done].
        + rewrite H0 in Hsc. destruct Hsc as [Hle _]. lia.
        + rewrite HD in H0. rewrite <- (Hc _ H). by eapply pop_loop_gt.
      - split; [split; cbn; try done|unfold bounded; cbn; lia].
        intros i m k E. cbn in E. rewrite list_lookup_fmap in E. destruct (calls !! i); simplify_eq. }
    apply H.
  Qed.

  Lemma fixed_max mx calls tr s : run F (init mx calls []) tr = Some s -> bounded s /\ s.(maxt) = mx.
  Proof.
    intros Hr. split; [by eapply (bounded_nolower mx calls [])|].
    eapply (run_inv F (fun s => s.(maxt) = mx /\ s.(cscript) = [] /\ s.(chg) = CIdle)); [| |exact Hr]; [|done].
    intros s0 a s1 (E1 & E2 & E3) Hs%step_inv.
    destruct Hs; unfold setspw; cbn; try congruence; try done.
    - destruct (try_push_fields s0 (maxt s0)) as (-> & -> & -> & _). done.
    - destruct (try_push_fields s0 m) as (-> & -> & -> & _). done.
  Qed.

  (* ---------- (3) a lowering between phases ---------- *)
  Lemma phase_change s n rest tr s' :
    s.(chg) = CIdle -> s.(cscript) = CSet n :: rest -> nolower n rest -> spawners_idle s ->
    run F s (AChg :: tr) = Some s' -> s.(pops) < s'.(pops) -> bounded s'.
  Proof.
    intros Ec Es Hn Hi Hr Hp. rewrite run_cons in Hr. cbn in Hr. rewrite Ec, Es in Hr. cbn in Hr.
    match type of Hr with run F ?x tr = _ => set (s1 := x) in * end.
    assert (H1 : invp (pops s) s1).
    { split; [split; cbn; try done|cbn; lia].
      - intros i m k E. destruct (Hi _ _ E) as (k' & ?). done.
      - intros m E. congruence. }
    assert (H2 : invp (pops s) s') by (eapply (run_inv F (invp (pops s))); [intros; by eapply invp_step|exact H1|exact Hr]).
    by apply H2.
  Qed.

  (* ---------- (5) the repaired variant: the maximum is read inside the threads lock ---------- *)
  Record invu (s : state) : Prop := {
    u_idle : spawners_idle s;
    u_chg : forall m, s.(chg) = CRead m -> m = s.(maxt);
    u_bound : s.(dirty) = false -> bounded s }.

  Lemma invu_step s a s' : F.(f_max_read_under_threads_lock) = true -> invu s -> step F s a = Some s' -> invu s'.
  Proof.
    intros HU [Hi Hc Hb] H%step_inv. destruct H; unfold setspw, bounded in *.
    - congruence.
    - destruct (try_push_fields s (maxt s)) as (E1 & _ & E3 & E4 & _ & E6 & _).
      split; cbn; rewrite ?E1, ?E3, ?E4, ?E6; try done.
      + intros j pc [(-> & ->)|(_ & E)]%lookup_setspw; eauto.
      + intros Hd. unfold bounded; cbn. rewrite E1. apply (try_push_bounded s (maxt s)); [done|by apply Hb].
    - destruct (Hi _ _ H) as (k' & ?). done.
    - split; cbn; try done.
      + intros m E. congruence.
      + intros [Hd Hlow]%orb_false_elim. apply bool_decide_eq_false in Hlow. specialize (Hb Hd). unfold bounded; cbn. lia.
    - split; cbn; try done. intros m E. by simplify_eq.
    - split; cbn; try done. intros _. unfold bounded; cbn. rewrite HD in H0. rewrite <- (Hc _ H). by eapply pop_loop_gt.
    - split; cbn; try done.
    - split; cbn; try done.
  Qed.

  Lemma under_lock_bounded mx calls cs tr s :
    F.(f_max_read_under_threads_lock) = true -> run F (init mx calls cs) tr = Some s -> s.(dirty) = false -> bounded s.
  Proof.
    intros HU Hr. apply (u_bound s).
    eapply (run_inv F invu); [intros; by eapply invu_step| |exact Hr].
    split; cbn; try done.
    - intros i pc E. cbn in E. rewrite list_lookup_fmap in E. destruct (calls !! i); cbn in E; simplify_eq; eauto.
    - intros _. unfold bounded; cbn; lia.
  Qed.
End Bound.
