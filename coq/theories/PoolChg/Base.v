(* PoolChg: runs, the pop loop, step inversion and the invariant of every reachable state *)
From stdpp Require Import list numbers option.
From RecordUpdate Require Import RecordUpdate.
From L0 Require Import Types.
From PoolChg Require Import Model.

(* ---------- runs ---------- *)
Lemma run_none F tr : foldl (fun os a => o ← os; step F o a) None tr = None.
Proof. induction tr as [|a tr IH]; cbn; [done|exact IH]. Qed.
Lemma run_nil F s : run F s [] = Some s. Proof. done. Qed.
Lemma run_cons F s a tr : run F s (a :: tr) = s1 ← step F s a; run F s1 tr.
Proof. unfold run; cbn. destruct (step F s a); cbn; [done|apply run_none]. Qed.
Lemma run_app F s tr1 tr2 : run F s (tr1 ++ tr2) = s1 ← run F s tr1; run F s1 tr2.
Proof. unfold run. rewrite foldl_app. destruct (foldl _ (Some s) tr1); cbn; [done|apply run_none]. Qed.
Lemma run_snoc F s tr a : run F s (tr ++ [a]) = s1 ← run F s tr; step F s1 a.
Proof. rewrite run_app. destruct (run F s tr) as [s1|]; [|done]. unfold run; cbn. by destruct (step F s1 a). Qed.

Lemma run_inv F (P : state -> Prop) :
  (forall s a s', P s -> step F s a = Some s' -> P s') ->
  forall tr s s', P s -> run F s tr = Some s' -> P s'.
Proof.
  intros HP tr. induction tr as [|a tr IH]; intros s s' Hs Hr.
  - rewrite run_nil in Hr. by simplify_eq.
  - rewrite run_cons in Hr. destruct (step F s a) as [s1|] eqn:E; cbn in Hr; [|done]. eauto.
Qed.

(* ---------- the pop loop ---------- *)
Lemma pop_loop_split c m ths r hs : pop_loop c m ths = (r, hs) -> ths = hs ++ r.
Proof.
  revert r hs; induction ths as [|t ths IH]; intros r hs H; cbn in H.
  - by simplify_eq.
  - destruct (cmp_b c _ m).
    + destruct (pop_loop c m ths) as [r' hs'] eqn:E. simplify_eq. cbn. f_equal. by apply IH.
    + by simplify_eq.
Qed.
Lemma pop_loop_length c m ths r hs : pop_loop c m ths = (r, hs) -> length r <= length ths.
Proof. intros H%pop_loop_split. subst. rewrite app_length. lia. Qed.
Lemma pop_loop_gt m ths r hs : pop_loop CGt m ths = (r, hs) -> length r <= m.
Proof.
  revert r hs; induction ths as [|t ths IH]; intros r hs H; cbn -[length] in H.
  - simplify_eq. cbn. lia.
  - case_bool_decide.
    + destruct (pop_loop CGt m ths) as [r' hs'] eqn:E. simplify_eq. by eapply IH.
    + simplify_eq. lia.
Qed.
Lemma pop_loop_gt_id m ths : length ths <= m -> pop_loop CGt m ths = (ths, []).
Proof. destruct ths as [|t ths]; [done|]. intros H. cbn -[length]. case_bool_decide; [lia|done]. Qed.

(* ---------- the lock-test-push section ---------- *)
Definition pushed (s : state) : state := s <| threads := s.(next) :: s.(threads) |> <| next := S s.(next) |>.
Lemma try_push_cases F s m : F.(f_spawn_cmp) = CLt ->
  (try_push F s m = s /\ m <= length s.(threads)) \/ (try_push F s m = pushed s /\ length s.(threads) < m).
Proof. intros E. unfold try_push. rewrite E; cbn. case_bool_decide; [right|left]; split; try done; lia. Qed.

Lemma lookup_setspw (l : list spc) i pc j x : <[i:=pc]> l !! j = Some x -> (j = i /\ x = pc) \/ (j <> i /\ l !! j = Some x).
Proof. intros H%list_lookup_insert_Some. naive_solver. Qed.

(* ---------- step inversion ---------- *)
Inductive step_spec (F : facts) (s : state) : actor -> state -> Prop :=
| st_read i k : s.(spw) !! i = Some (SIdle (S k)) -> F.(f_max_read_under_threads_lock) = false ->
    step_spec F s (ASpawn i) (setspw s i (SRead s.(maxt) k))
| st_atomic i k : s.(spw) !! i = Some (SIdle (S k)) -> F.(f_max_read_under_threads_lock) = true ->
    step_spec F s (ASpawn i) (setspw (try_push F s s.(maxt)) i (SIdle k))
| st_push i m k : s.(spw) !! i = Some (SRead m k) ->
    step_spec F s (ASpawn i) (setspw (try_push F s m) i (SIdle k))
| st_set n r : s.(chg) = CIdle -> s.(cscript) = CSet n :: r ->
    step_spec F s AChg (s <| maxt := n |> <| max_ever := Nat.max s.(max_ever) n |>
                          <| dirty := s.(dirty) || bool_decide (n < s.(maxt)) |> <| cscript := r |>)
| st_dread r : s.(chg) = CIdle -> s.(cscript) = CDespawn :: r ->
    step_spec F s AChg (s <| chg := CRead s.(maxt) |> <| cscript := r |>)
| st_pop m r hs : s.(chg) = CRead m -> pop_loop F.(f_despawn_cmp) m s.(threads) = (r, hs) ->
    step_spec F s AChg (s <| threads := r |> <| dying := s.(dying) ++ hs |> <| chg := CPopped hs |> <| pops := S s.(pops) |> <| dirty := false |>)
| st_join hs : s.(chg) = CPopped hs -> Forall (fun h => h ∉ s.(dying)) hs ->
    step_spec F s AChg (s <| chg := CIdle |>)
| st_end t : t ∈ s.(dying) ->
    step_spec F s (AEnd t) (s <| dying := filter (fun x => x <> t) s.(dying) |>).

Lemma step_inv F s a s' : step F s a = Some s' -> step_spec F s a s'.
Proof.
  intros H. destruct a as [i| |t]; cbn in H.
  - destruct (spw s !! i) as [pc|] eqn:Ei; cbn in H; [|done].
    destruct pc as [[|k]|m k]; [done| |].
    + destruct (f_max_read_under_threads_lock F) eqn:EF; simplify_eq; by econstructor.
    + simplify_eq. by econstructor.
  - destruct (chg s) as [|m|hs] eqn:Ec.
    + destruct (cscript s) as [|[n|] r] eqn:Es; simplify_eq; by econstructor.
    + destruct (pop_loop _ m (threads s)) as [r hs] eqn:Ep. simplify_eq. by econstructor.
    + case_bool_decide; simplify_eq. by econstructor.
  - case_bool_decide; simplify_eq. by econstructor.
Qed.

(* ---------- the invariant of every reachable state ---------- *)
Record inv0 (s : state) : Prop := {
  i_chg : forall m, s.(chg) = CRead m -> m = s.(maxt);                      (* only the changer writes the maximum *)
  i_dy : match s.(chg) with CPopped hs => s.(dying) ⊆ hs | _ => s.(dying) = [] end;
  i_max : s.(maxt) <= s.(max_ever);
  i_len : length s.(threads) <= s.(max_ever);
  i_stale : forall i m k, s.(spw) !! i = Some (SRead m k) -> m <= s.(max_ever);
  i_zero : s.(max_ever) = 0 -> s.(next) = 0 }.

Lemma inv0_init mx calls cs : inv0 (init mx calls cs).
Proof.
  split; cbn; try done; try lia.
  intros i m k H. rewrite list_lookup_fmap in H. destruct (calls !! i); simplify_eq.
Qed.

Lemma inv0_step F s a s' : F.(f_spawn_cmp) = CLt -> inv0 s -> step F s a = Some s' -> inv0 s'.
Proof.
  intros HS [Hc Hd Hm Hl Hst Hz] H%step_inv. destruct H; unfold setspw, pushed.
  - split; cbn; try done.
    intros j m' k' [(-> & E)|(_ & E)]%lookup_setspw; [by simplify_eq|eauto].
  - destruct (try_push_cases F s (maxt s) HS) as [(-> & _)|(-> & Hlt)].
    + split; cbn; try done. intros j m' k' [(-> & E)|(_ & E)]%lookup_setspw; [done|eauto].
    + split; cbn; try done; try (intros; lia).
      intros j m' k' [(-> & E)|(_ & E)]%lookup_setspw; [done|eauto].
  - pose proof (Hst _ _ _ H) as Hm0.
    destruct (try_push_cases F s m HS) as [(-> & _)|(-> & Hlt)].
    + split; cbn; try done. intros j m' k' [(-> & E)|(_ & E)]%lookup_setspw; [done|eauto].
    + split; cbn; try done; try (intros; lia).
      intros j m' k' [(-> & E)|(_ & E)]%lookup_setspw; [done|eauto].
  - split; cbn; try done; try lia.
    + intros m E. congruence.
    + intros i m k E. specialize (Hst _ _ _ E). lia.
  - split; cbn; try done.
    + intros m E. by simplify_eq.
    + by rewrite H in Hd.
  - rewrite H in Hd. split; cbn; try done.
    + rewrite Hd. done.
    + apply pop_loop_length in H0. lia.
  - rewrite H in Hd. split; cbn; try done.
    destruct (dying s) as [|t l] eqn:E; [done|]. exfalso.
    assert (Ht : t ∈ hs) by (apply Hd; left).
    rewrite list.Forall_forall in H0. apply (H0 t Ht). left.
  - split; cbn; try done.
    destruct (chg s) as [| |hs]; [by rewrite Hd|by rewrite Hd|].
    intros x [_ Hx]%elem_of_list_filter. by apply Hd.
Qed.

Definition reach (F : facts) (s : state) : Prop := exists mx calls cs tr, run F (init mx calls cs) tr = Some s.

Lemma reach_inv0 F s : F.(f_spawn_cmp) = CLt -> reach F s -> inv0 s.
Proof.
  intros HS (mx & calls & cs & tr & Hr).
  eapply (run_inv F inv0); [intros; by eapply inv0_step| apply inv0_init | exact Hr].
Qed.
Lemma reach_step F s a s' : reach F s -> step F s a = Some s' -> reach F s'.
Proof. intros (mx & calls & cs & tr & Hr) Hs. exists mx, calls, cs, (tr ++ [a]). rewrite run_snoc, Hr. done. Qed.
Lemma reach_run F s tr s' : reach F s -> run F s tr = Some s' -> reach F s'.
Proof. intros (mx & calls & cs & tr0 & Hr) Hs. exists mx, calls, cs, (tr0 ++ tr). rewrite run_app, Hr. done. Qed.
