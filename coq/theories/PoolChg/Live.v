(* PoolChg: the join of despawn terminates; thread ids are fresh; the alive pool threads *)
From stdpp Require Import list numbers option.
From RecordUpdate Require Import RecordUpdate.
From L0 Require Import Types.
From PoolChg Require Import Model Base Bound.

(* ---------- a state in which nobody can move: everything has returned ---------- *)
Lemma terminal_done F s : terminal F s ->
  s.(chg) = CIdle /\ s.(cscript) = [] /\ s.(dying) = [] /\ (forall i pc, s.(spw) !! i = Some pc -> pc = SIdle 0).
Proof.
  intros HT.
  assert (Hd : dying s = []).
  { destruct (dying s) as [|t l] eqn:E; [done|]. specialize (HT (AEnd t)). cbn in HT. rewrite E in HT.
    rewrite bool_decide_eq_true_2 in HT by left. done. }
  assert (Hc : chg s = CIdle).
  { specialize (HT AChg). cbn in HT. destruct (chg s) as [|m|hs]; [done| |].
    - destruct (pop_loop _ m (threads s)); done.
    - rewrite Hd in HT. rewrite bool_decide_eq_true_2 in HT; [done|].
      apply list.Forall_forall. intros x _. apply not_elem_of_nil. }
  repeat split; try done.
  - specialize (HT AChg). cbn in HT. rewrite Hc in HT. destruct (cscript s) as [|[n|] r]; done.
  - intros i pc E. specialize (HT (ASpawn i)). cbn in HT. rewrite E in HT. cbn in HT.
    destruct pc as [[|k]|m k]; [done| |done]. by destruct (f_max_read_under_threads_lock F).
Qed.

(* ---------- the join can always be completed: let the popped threads end, then join ---------- *)
Definition is_end (a : actor) : Prop := match a with AEnd _ => True | _ => False end.

Lemma join_completes F s hs : s.(chg) = CPopped hs ->
  exists tr s', Forall is_end tr /\ run F s (tr ++ [AChg]) = Some s' /\ s'.(chg) = CIdle /\ s'.(dying) = [] /\
                s'.(threads) = s.(threads) /\ s'.(maxt) = s.(maxt).
Proof.
  remember (length (dying s)) as n eqn:En. revert s En.
  induction n as [n IH] using lt_wf_ind. intros s En Hc.
  destruct (dying s) as [|t l] eqn:E.
  - exists [], (s <| chg := CIdle |>). split; [constructor|]. split; [|done].
    rewrite app_nil_l, run_cons. cbn. rewrite Hc, E. rewrite bool_decide_eq_true_2; [done|].
    apply list.Forall_forall. intros x _. apply not_elem_of_nil.
  - set (s1 := s <| dying := filter (fun x => x <> t) (dying s) |>).
    assert (Hs : step F s (AEnd t) = Some s1).
    { cbn. rewrite E. rewrite bool_decide_eq_true_2 by left. by rewrite <- E. }
    assert (Hl : length (dying s1) < n).
    { subst s1 n; cbn. rewrite E. rewrite filter_cons_False by naive_solver. cbn.
      pose proof (filter_length (fun x => x <> t) l). lia. }
    destruct (IH _ Hl s1 eq_refl Hc) as (tr & s' & Htr & Hr & H1 & H2 & H3 & H4).
    exists (AEnd t :: tr), s'. split; [by constructor|]. split; [|done].
    rewrite <- app_comm_cons, run_cons, Hs. exact Hr.
Qed.

(* ---------- thread ids are fresh: the alive threads are pairwise different ---------- *)
Definition fresh (s : state) : Prop := NoDup (alive s) /\ Forall (fun t => t < s.(next)) (alive s).

Lemma fresh_init mx calls cs : fresh (init mx calls cs).
Proof. split; cbn; constructor. Qed.

Lemma fresh_try_push F s m : fresh s -> fresh (try_push F s m).
Proof.
  intros [Hn Hf]. unfold try_push. destruct (cmp_b _ _ _); [|done]. unfold fresh, alive in *; cbn. split.
  - constructor; [|done]. intros Hin. rewrite list.Forall_forall in Hf. specialize (Hf _ Hin). lia.
  - constructor; [lia|]. eapply list.Forall_impl; [exact Hf|]. cbn. intros; lia.
Qed.

Lemma fresh_step F s a s' : fresh s -> step F s a = Some s' -> fresh s'.
Proof.
  intros Hf H%step_inv. destruct H; unfold setspw.
  - exact Hf.
  - apply (fresh_try_push F s (maxt s)) in Hf. exact Hf.
  - apply (fresh_try_push F s m) in Hf. exact Hf.
  - exact Hf.
  - exact Hf.
  - destruct Hf as [Hn Hl]. apply pop_loop_split in H0. unfold fresh, alive in *; cbn. rewrite H0 in Hn, Hl.
    assert (HP : r ++ dying s ++ hs ≡ₚ (hs ++ r) ++ dying s).
    { rewrite (Permutation_app_comm hs r). rewrite <- (assoc_L (++)). f_equiv. apply Permutation_app_comm. }
    split; [by rewrite HP|by rewrite HP].
  - exact Hf.
  - destruct Hf as [Hn Hl]. unfold fresh, alive in *; cbn.
    apply NoDup_app in Hn as (N1 & N2 & N3). apply Forall_app in Hl as [L1 L2]. split.
    + apply NoDup_app. split; [done|]. split; [|by apply list.NoDup_filter].
      intros x Hx [_ Hx']%elem_of_list_filter. by eapply N2.
    + apply Forall_app. split; [done|]. rewrite list.Forall_forall in L2 |- *.
      intros x [_ Hx]%elem_of_list_filter. by apply L2.
Qed.

Lemma reach_fresh F s : reach F s -> fresh s.
Proof.
  intros (mx & calls & cs & tr & Hr).
  eapply (run_inv F fresh); [intros; by eapply fresh_step|apply fresh_init|exact Hr].
Qed.

(* ---------- the alive pool threads ---------- *)
Lemma alive_count F s : F.(f_spawn_cmp) = CLt -> reach F s -> length (alive s) <= s.(max_ever) + length s.(dying).
Proof. intros HS Hr. destruct (reach_inv0 F s HS Hr). unfold alive. rewrite app_length. lia. Qed.

Lemma zero_never_creates F s : F.(f_spawn_cmp) = CLt -> reach F s -> s.(max_ever) = 0 -> s.(next) = 0 /\ alive s = [].
Proof.
  intros HS Hr Hz. destruct (reach_inv0 F s HS Hr) as [_ _ _ _ _ H0]. specialize (H0 Hz). split; [done|].
  destruct (reach_fresh F s Hr) as [_ Hf]. destruct (alive s) as [|t l]; [done|].
  apply list.Forall_cons in Hf as [Ht _]. lia.
Qed.

Lemma alive_after_join F s n rest tr s' :
  F.(f_spawn_cmp) = CLt -> F.(f_despawn_cmp) = CGt -> reach F s ->
  s.(chg) = CIdle -> s.(cscript) = CSet n :: rest -> nolower n rest -> spawners_idle s ->
  run F s (AChg :: tr) = Some s' -> s.(pops) < s'.(pops) -> (forall hs, s'.(chg) <> CPopped hs) ->
  length (alive s') <= s'.(maxt).
Proof.
  intros HS HD Hr Ec Es Hn Hi Hrun Hp Hnp.
  pose proof (phase_change F HS HD s n rest tr s' Ec Es Hn Hi Hrun Hp) as Hb.
  destruct (reach_inv0 F s' HS (reach_run F s _ s' Hr Hrun)) as [_ Hd _ _ _ _].
  unfold alive. destruct (chg s') as [| |hs]; [| |by destruct (Hnp hs)]; rewrite Hd, app_nil_r; exact Hb.
Qed.
