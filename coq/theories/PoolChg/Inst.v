(* PoolChg on the code as it is now: the facts are re-read from /repo/src on every run (gen/Tables.v) *)
From stdpp Require Import list numbers option.
From L0 Require Import Types.
From Gen Require Import Tables.
From PoolChg Require Import Model Base Bound Live Refute PropsC17chg.

Definition gen_pool_facts : facts :=
  {| f_max_read_under_threads_lock := negb fact_spawn_reads_max_before_threads_lock;
     f_spawn_cmp := fact_spawn_cmp; f_despawn_cmp := fact_despawn_cmp |}.

Lemma cl_spawn_cmp : fact_spawn_cmp = CLt. Proof. reflexivity. Qed.
Lemma cl_despawn_cmp : fact_despawn_cmp = CGt. Proof. reflexivity. Qed.
(* spawn_thread_if_less_than_maximum reads max_threads (own lock, released) before it takes the threads lock *)
Lemma cl_max_read_outside_lock : fact_spawn_reads_max_before_threads_lock = true. Proof. reflexivity. Qed.
(* the model's steps: test and push are one section under the threads lock; despawn joins the popped threads *)
Lemma cl_spawn_test_and_push_one_section : fact_spawn_test_and_push_one_section = true. Proof. reflexivity. Qed.
Lemma cl_despawn_joins : fact_despawn_joins = true. Proof. reflexivity. Qed.

(* the facts of the current source are those of the racy scenario *)
Lemma cl_facts_now : gen_pool_facts = F_now. Proof. reflexivity. Qed.

Theorem C17chg_fixed_max_now : forall mx calls tr s,
  run gen_pool_facts (init mx calls []) tr = Some s -> length s.(threads) <= s.(maxt) /\ s.(maxt) = mx.
Proof. exact (C17chg_fixed_max gen_pool_facts cl_spawn_cmp cl_despawn_cmp). Qed.

Theorem C17chg_never_above_max_ever_now : forall s, reach gen_pool_facts s ->
  length s.(threads) <= s.(max_ever) /\ s.(maxt) <= s.(max_ever) /\ (s.(max_ever) = 0 -> s.(next) = 0 /\ alive s = []).
Proof. exact (C17chg_never_above_max_ever gen_pool_facts cl_spawn_cmp). Qed.

Theorem C17chg_phase_change_now : forall s n rest tr s',
  s.(chg) = CIdle -> s.(cscript) = CSet n :: rest -> nolower n rest -> spawners_idle s ->
  run gen_pool_facts s (AChg :: tr) = Some s' -> s.(pops) < s'.(pops) -> length s'.(threads) <= s'.(maxt).
Proof. exact (C17chg_phase_change gen_pool_facts cl_spawn_cmp cl_despawn_cmp). Qed.

Theorem C17chg_alive_after_join_now : forall s n rest tr s', reach gen_pool_facts s ->
  s.(chg) = CIdle -> s.(cscript) = CSet n :: rest -> nolower n rest -> spawners_idle s ->
  run gen_pool_facts s (AChg :: tr) = Some s' -> s.(pops) < s'.(pops) -> (forall hs, s'.(chg) <> CPopped hs) ->
  length (alive s') <= s'.(maxt).
Proof. exact (fun s n rest tr s' => C17chg_alive_after_join gen_pool_facts s n rest tr s' cl_spawn_cmp cl_despawn_cmp). Qed.

(* the racy lowering is a run of the model with the CURRENT facts *)
Theorem C17chg_racy_lowering_now : exists mx calls cs tr s,
  run gen_pool_facts (init mx calls cs) tr = Some s /\ terminal gen_pool_facts s /\ s.(dirty) = false /\ s.(pops) = 1 /\
  length s.(threads) = S s.(maxt) /\ length (alive s) = S s.(maxt).
Proof. exact C17chg_racy_lowering_refuted. Qed.

Print Assumptions C17chg_fixed_max_now.
Print Assumptions C17chg_never_above_max_ever_now.
Print Assumptions C17chg_phase_change_now.
Print Assumptions C17chg_alive_after_join_now.
Print Assumptions C17chg_racy_lowering_now.

(* Changer step 'set': set_max_threads is the store of the maximum followed by the wake-up loop over schedule_thread (whose spawning goes
   through the spawn decision modelled by the Spawner actors) - it neither spawns by itself nor clamps the value *)
Lemma cl_set_max_threads_stores_then_schedules : fact_set_max_threads_stores_then_schedules = true. Proof. reflexivity. Qed.
