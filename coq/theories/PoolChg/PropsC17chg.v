(* C17 with maximum changes (layer PoolChg: the pool, racing scheduling calls, one thread that changes the maximum and despawns).

   F : the facts of the model (Model.v); the theorems need the spawn test to be `<` and the despawn loop to be `>`.
   reach F s : s is reachable from an initial state (any maximum, any number of spawners and calls, any changer script).
   bounded s : length threads <= maxt.   alive s : owned threads ++ popped threads that have not ended yet.

   (1) C17chg_fixed_max                  no changer: the pool never exceeds the (fixed) maximum   [C17chg_never_lowered: raising is harmless]
   (2) C17chg_never_above_max_ever       the pool never exceeds the largest maximum there ever was; if that is 0 no thread is ever created
   (3) C17chg_phase_change               a lowering issued while every scheduling call has returned: from its pop section on the pool
                                         is within the maximum, whatever calls race with the despawn, as long as the rest of the
                                         script does not lower again;   C17chg_join_terminates / C17chg_join_completes: the join returns
   (4) C17chg_racy_lowering_refuted      the code as it is: a call that read the old maximum pushes after lower + despawn + join have
                                         returned - the pool owns max + 1 threads in a state where everything has returned
   (5) C17chg_holds_with_read_under_lock the maximum read inside the threads lock: the bound holds in every reachable state in which no
                                         lowering is waiting for its despawn, for all interleavings including racing changes
   (6) C17chg_alive_count / C17chg_alive_after_join   alive <= max_ever + popped-not-ended; after the join of a phase change alive <= max *)
From stdpp Require Import list numbers option.
From L0 Require Import Types.
From PoolChg Require Import Model Base Bound Live Refute.

Theorem C17chg_fixed_max : forall F, F.(f_spawn_cmp) = CLt -> F.(f_despawn_cmp) = CGt ->
  forall mx calls tr s, run F (init mx calls []) tr = Some s -> length s.(threads) <= s.(maxt) /\ s.(maxt) = mx.
Proof. exact fixed_max. Qed.

Theorem C17chg_never_lowered : forall F, F.(f_spawn_cmp) = CLt -> F.(f_despawn_cmp) = CGt ->
  forall mx calls cs tr s, nolower mx cs -> run F (init mx calls cs) tr = Some s -> length s.(threads) <= s.(maxt).
Proof. exact bounded_nolower. Qed.

Theorem C17chg_never_above_max_ever : forall F, F.(f_spawn_cmp) = CLt ->
  forall s, reach F s ->
    length s.(threads) <= s.(max_ever) /\ s.(maxt) <= s.(max_ever) /\
    (s.(max_ever) = 0 -> s.(next) = 0 /\ alive s = []).
Proof.
  exact (fun F HS s Hr => conj (i_len s (reach_inv0 F s HS Hr)) (conj (i_max s (reach_inv0 F s HS Hr)) (zero_never_creates F s HS Hr))).
Qed.

Theorem C17chg_phase_change : forall F, F.(f_spawn_cmp) = CLt -> F.(f_despawn_cmp) = CGt ->
  forall s n rest tr s',
    s.(chg) = CIdle -> s.(cscript) = CSet n :: rest -> nolower n rest -> spawners_idle s ->
    run F s (AChg :: tr) = Some s' -> s.(pops) < s'.(pops) -> length s'.(threads) <= s'.(maxt).
Proof. exact phase_change. Qed.

Theorem C17chg_join_terminates : forall F s, terminal F s ->
  s.(chg) = CIdle /\ s.(cscript) = [] /\ s.(dying) = [] /\ (forall i pc, s.(spw) !! i = Some pc -> pc = SIdle 0).
Proof. exact terminal_done. Qed.

Theorem C17chg_join_completes : forall F s hs, s.(chg) = CPopped hs ->
  exists tr s', Forall is_end tr /\ run F s (tr ++ [AChg]) = Some s' /\ s'.(chg) = CIdle /\ s'.(dying) = [] /\
                s'.(threads) = s.(threads) /\ s'.(maxt) = s.(maxt).
Proof. exact join_completes. Qed.

Theorem C17chg_racy_lowering_refuted :
  exists mx calls cs tr s,
    run F_now (init mx calls cs) tr = Some s /\ terminal F_now s /\ s.(dirty) = false /\ s.(pops) = 1 /\
    length s.(threads) = S s.(maxt) /\ length (alive s) = S s.(maxt).
Proof. exact (ex_intro _ 1 (ex_intro _ [1; 1] (ex_intro _ [CSet 0; CDespawn] (ex_intro _ racy_trace (ex_intro _ racy_end
         (conj racy_run (conj racy_end_terminal (conj eq_refl (conj eq_refl (conj eq_refl eq_refl)))))))))). Qed.

Theorem C17chg_holds_with_read_under_lock : forall F, F.(f_spawn_cmp) = CLt -> F.(f_despawn_cmp) = CGt ->
  F.(f_max_read_under_threads_lock) = true ->
  forall mx calls cs tr s, run F (init mx calls cs) tr = Some s -> s.(dirty) = false -> length s.(threads) <= s.(maxt).
Proof. exact (fun F HS HD HU mx calls cs tr s => under_lock_bounded F HS HD mx calls cs tr s HU). Qed.

Theorem C17chg_alive_count : forall F, F.(f_spawn_cmp) = CLt ->
  forall s, reach F s -> length (alive s) <= s.(max_ever) + length s.(dying) /\ NoDup (alive s).
Proof. exact (fun F HS s Hr => conj (alive_count F s HS Hr) (proj1 (reach_fresh F s Hr))). Qed.

Theorem C17chg_alive_after_join : forall F s n rest tr s',
  F.(f_spawn_cmp) = CLt -> F.(f_despawn_cmp) = CGt -> reach F s ->
  s.(chg) = CIdle -> s.(cscript) = CSet n :: rest -> nolower n rest -> spawners_idle s ->
  run F s (AChg :: tr) = Some s' -> s.(pops) < s'.(pops) -> (forall hs, s'.(chg) <> CPopped hs) ->
  length (alive s') <= s'.(maxt).
Proof. exact alive_after_join. Qed.

(* ---------- non-vacuity ---------- *)
(* (1) racing calls reach the fixed maximum *)
Example C17chg_ex_fixed : exists s, run F_now (init 1 [1; 1] []) [ASpawn 0; ASpawn 1; ASpawn 0; ASpawn 1] = Some s /\
  length s.(threads) = 1 /\ s.(maxt) = 1 /\ s.(next) = 1.
Proof. exact fixed_run. Qed.
(* (2) maximum zero: calls and a despawn run to the end *)
Example C17chg_ex_zero : exists s, run F_now (init 0 [2; 1] [CDespawn]) [ASpawn 0; ASpawn 1; ASpawn 0; AChg; AChg; AChg; ASpawn 1; ASpawn 0; ASpawn 0] = Some s /\
  s.(max_ever) = 0 /\ s.(next) = 0 /\ alive s = [] /\ s.(spw) = [SIdle 0; SIdle 0] /\ s.(chg) = CIdle.
Proof. exact zero_run. Qed.
(* (3), (6) a reachable state between phases with a full pool; the lowering pops a thread while calls of the next phase race with it *)
Example C17chg_ex_phase :
  reach F_now phase_mid /\ phase_mid.(chg) = CIdle /\ phase_mid.(cscript) = [CSet 1; CDespawn] /\ nolower 1 [CDespawn] /\
  spawners_idle phase_mid /\ length phase_mid.(threads) = 2 /\
  exists s, run F_now phase_mid [AChg; ASpawn 0; AChg; AChg; ASpawn 0; AEnd 1; ASpawn 1; AChg; ASpawn 1] = Some s /\
    phase_mid.(pops) < s.(pops) /\ s.(threads) = [0] /\ s.(maxt) = 1 /\ s.(chg) = CIdle /\ alive s = [0] /\ terminal F_now s.
Proof.
  exact (conj (ex_intro _ 2 (ex_intro _ [2; 2] (ex_intro _ [CSet 1; CDespawn] (ex_intro _ _ phase_run1))))
        (conj eq_refl (conj eq_refl (conj I (conj phase_mid_idle (conj eq_refl phase_run2)))))).
Qed.
(* (6) while the join waits the popped thread is alive: alive = max + 1 = max_ever, and the changer cannot return yet *)
Example C17chg_ex_popped : exists s, run F_now phase_mid [AChg; AChg; AChg] = Some s /\
  s.(chg) = CPopped [1] /\ s.(threads) = [0] /\ s.(dying) = [1] /\ length (alive s) = 2 /\ s.(maxt) = 1 /\ step F_now s AChg = None.
Proof. exact phase_run_popped. Qed.
(* (5) the racing program of (4) on the repaired variant *)
Example C17chg_ex_fix : exists s, run F_fix racy_init [ASpawn 0; AChg; ASpawn 1; AChg; AChg; AEnd 0; AChg] = Some s /\
  s.(dirty) = false /\ s.(threads) = [] /\ s.(maxt) = 0 /\ s.(pops) = 1 /\ s.(next) = 1 /\ terminal F_fix s.
Proof. exact fix_run. Qed.

Print Assumptions C17chg_fixed_max.
Print Assumptions C17chg_never_lowered.
Print Assumptions C17chg_never_above_max_ever.
Print Assumptions C17chg_phase_change.
Print Assumptions C17chg_join_terminates.
Print Assumptions C17chg_join_completes.
Print Assumptions C17chg_racy_lowering_refuted.
Print Assumptions C17chg_holds_with_read_under_lock.
Print Assumptions C17chg_alive_count.
Print Assumptions C17chg_alive_after_join.
