(* Extraction of the executable L1 model together with the tables and facts generated from the current source.
   ExtrOcamlBasic only: bool, option, list, prod, sumbool, unit, comparison map to OCaml's; nat stays a datatype. *)
From stdpp Require Import list numbers option.
From L0 Require Import Types.
From Gen Require Import Tables.
From L1 Require Import Model.
Require Import ExtrOcamlBasic.
Extraction Language OCaml.
Extraction "l1model.ml" step init complete gen_tables gen_facts.
