(* Extraction of the executable nested model L1n (which contains the unmodified L1 model) together with the tables and facts
   generated from the current source.  ExtrOcamlBasic only: bool, option, list, prod, sumbool, unit map to OCaml's; nat stays a datatype. *)
From stdpp Require Import list numbers option.
From L0 Require Import Types.
From Gen Require Import Tables.
From L1 Require Import Model.
From L1n Require Import Model.
Require Import ExtrOcamlBasic.
Extraction Language OCaml.
Extraction "l1nmodel.ml" step init complete nstep ninit flatten nwf_b clos_op done_b gen_tables gen_facts.
