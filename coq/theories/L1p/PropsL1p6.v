(* C15 on the scheduler model, sixth part: the positive half of "the pool replaces the thread it lost; other objects remain fully usable".

   C15p_quiescent_is_complete_when_reaped   hypotheses of L1's L-quiet theorem (core_tables, own_conditions, f_dormant_blocks = true, pool
        maximum >= 1, wf_scripts) and ptab (the Panicked rows keep the state Panicked, never hand out next/claim): in every reachable state
        in which nobody can move and no dead pool thread is left ([dead ps = []]: a scheduling call came after the last death - by
        C15p_next_scheduling_call_restores_capacity that is what the next call establishes - or no pool thread died at all)
          - every non-Panicked queue is Idle with no stored jobs,
          - every pool thread is dormant: not busy, no wake-up pending, its actor at [FTrecv t],
          - every actor is at the end of its script, in the condition-variable wait of sync_background (FSBwait), or a dormant pool thread.
        For all tables and facts with these properties, all pfacts (either reap), all programs with panic flags, all schedules.
   C15p_quiescent_is_complete_when_reaped_now   the instance for the generated tables and facts.
   The invariants behind it (AllP: SInv, WF, PoolInv on the state; QInv and KInv on the masked state, in which Panicked queues are replaced by
   idle, empty ones) hold in EVERY reachable state, dead threads or not: C15p_liveness_invariants_reachable.

   NOT proved here: that a caller left in FSBwait waits on a Panicked queue (JInv through the panic step and the reap is not done), that
   the healthy queues are not in the schedule (stale entries of Idle queues are not excluded by L1's invariants either), and the id part
   (Mids = ran ++ ids stored on Panicked queues). *)
From stdpp Require Import list numbers list_numbers option.
From L0 Require Import Types.
From Gen Require Import Tables.
From L1 Require Import Model Own Shape Stuck Live Help.
From L1h Require Import Inst.
From L1p Require Import Model OwnP Absorb MainP ShapeP QuietP MaskP AllP QuietAll PropsL1p.

Theorem C15p_liveness_invariants_reachable : forall (T : tables) (F : facts) (PF : pfacts),
  core_tables T -> own_conditions T -> F.(f_dormant_blocks) = true -> ptab T ->
  forall nq mx scripts tr ps, wf_scripts nq (map fst <$> scripts) -> 1 <= mx ->
    prun T F PF (pinit nq mx scripts) tr = Some ps -> AllP ps.
Proof.
  exact (fun T F PF HK HT HF HPT nq mx scripts tr ps Hwf Hm Hr =>
           allp_run T F PF HK HT HF HPT tr (pinit nq mx scripts) ps (pinit_allp nq mx scripts Hwf Hm) Hr).
Qed.

Theorem C15p_quiescent_is_complete_when_reaped : forall (T : tables) (F : facts) (PF : pfacts),
  core_tables T -> own_conditions T -> F.(f_dormant_blocks) = true -> ptab T ->
  forall nq mx scripts tr ps, wf_scripts nq (map fst <$> scripts) -> 1 <= mx ->
    prun T F PF (pinit nq mx scripts) tr = Some ps -> pterminal T F PF ps -> ps.(dead) = [] ->
    (forall q qq, ps.(pb).(queues) !! q = Some qq -> qq.(qs) <> Panicked -> qq.(qs) = Idle /\ qq.(jobs) = []) /\
    (forall t th, ps.(pb).(threads) !! t = Some th ->
       th.(busy) = false /\ th.(chan) = 0 /\ stacks ps.(pb) !! (ncallers ps.(pb) + t) = Some [FTrecv t]) /\
    (forall a ac, ps.(pb).(actors) !! a = Some ac -> stuck_ok ps.(pb) ac.(stack)).
Proof.
  exact (fun T F PF HK HT HF HPT nq mx scripts tr ps Hwf Hm Hr =>
           quiescent_reaped T F PF ps (allp_run T F PF HK HT HF HPT tr (pinit nq mx scripts) ps (pinit_allp nq mx scripts Hwf Hm) Hr)).
Qed.

Theorem C15p_quiescent_is_complete_when_reaped_now : forall (PF : pfacts) nq mx scripts tr ps,
  wf_scripts nq (map fst <$> scripts) -> 1 <= mx ->
    prun gen_tables gen_facts PF (pinit nq mx scripts) tr = Some ps -> pterminal gen_tables gen_facts PF ps -> ps.(dead) = [] ->
    (forall q qq, ps.(pb).(queues) !! q = Some qq -> qq.(qs) <> Panicked -> qq.(qs) = Idle /\ qq.(jobs) = []) /\
    (forall t th, ps.(pb).(threads) !! t = Some th ->
       th.(busy) = false /\ th.(chan) = 0 /\ stacks ps.(pb) !! (ncallers ps.(pb) + t) = Some [FTrecv t]) /\
    (forall a ac, ps.(pb).(actors) !! a = Some ac -> stuck_ok ps.(pb) ac.(stack)).
Proof.
  exact (fun PF => C15p_quiescent_is_complete_when_reaped gen_tables gen_facts PF clh_core clp_own clh_dormant_blocks clp_ptab).
Qed.

Print Assumptions C15p_liveness_invariants_reachable.
Print Assumptions C15p_quiescent_is_complete_when_reaped.
Print Assumptions C15p_quiescent_is_complete_when_reaped_now.
