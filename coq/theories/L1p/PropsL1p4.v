(* C15 on the scheduler model, fourth part: exactly-once with panics (the id-placement invariant, L1p/IdAbs.v IdInv.v OnceP.v).

   Mids s: the operation ids that are somewhere: in [ran], in the pending jobs of a queue (the job in the owner's hand, then the stored
   jobs), or with a caller that has called and not yet pushed.  Ids are given out by the global counter nextop at the call.
   C15p_id_placement_invariant   in every reachable state of the panic model Mids has no duplicates - an id is in at most one place -
                                 and every id in it is below nextop (was issued by a call).  Proof: on L1 steps through the abstract
                                 history machine of L1h (every rule moves an id, adds the fresh one, or drops one), which needs Shape and
                                 WF' on runs with panics (L1p/ShapeP.v); the panic step drops the id in the runner's hand; the reap moves nothing.
   C15p_exactly_once             [ran] has no duplicates, and every id in it was issued
   C15p_panicked_closure_never_runs_again   the operation whose runner panics is in [ran] in no later state
   C15p_call_on_panicked_queue_never_runs   an operation (sync / try_sync / desync) that reaches its first look at a queue that is
                                 Panicked is in [ran] in NO later state: sync / try_sync drop their id (it is then nowhere, and an issued
                                 id that is nowhere stays nowhere); desync has pushed its job, which stays among the pending jobs of the
                                 Panicked queue for ever (nobody runs that queue), so it cannot also be in ran
   Hypotheses: own_conditions, imm_conditions (L1h), for the last theorem ptab and ploud. *)
From stdpp Require Import list numbers option.
From L0 Require Import Types.
From Gen Require Import Tables.
From L1 Require Import Model Own Shape Stuck.
From L1h Require Import Abs Sim.
From L1p Require Import Model OwnP Absorb MainP Loud DeadP RanP ShapeP IdAbs IdInv OnceP PropsL1p PropsL1p2.

Theorem C15p_id_placement_invariant : forall (T : tables) (F : facts) (PF : pfacts), own_conditions T -> imm_conditions T ->
  forall nq mx scripts tr ps, prun T F PF (pinit nq mx scripts) tr = Some ps ->
    NoDup (Mids ps.(pb)) /\ Forall (fun i => i < ps.(pb).(nextop)) (Mids ps.(pb)).
Proof. exact (fun T F PF HT HI nq mx scripts tr ps Hr => fi_i ps (preach_finv T F PF HT HI nq mx scripts tr ps Hr)). Qed.

Theorem C15p_exactly_once : forall (T : tables) (F : facts) (PF : pfacts), own_conditions T -> imm_conditions T ->
  forall nq mx scripts tr ps, prun T F PF (pinit nq mx scripts) tr = Some ps ->
    NoDup ps.(pb).(ran) /\ forall i, i ∈ ps.(pb).(ran) -> i < ps.(pb).(nextop).
Proof. exact exactly_once_p. Qed.

Theorem C15p_panicked_closure_never_runs_again : forall (T : tables) (F : facts) (PF : pfacts), own_conditions T -> imm_conditions T ->
  forall nq mx scripts tr0 ps0 a ac q o rest dies ps1 tr ps,
    prun T F PF (pinit nq mx scripts) tr0 = Some ps0 ->
    ps0.(pb).(actors) !! a = Some ac -> a ∉ ps0.(dead) -> pclos ac = Some (q, o, rest, dies) -> default false (ps0.(pan) !! o) = true ->
    pstep T F PF ps0 a = Some ps1 -> prun T F PF ps1 tr = Some ps -> o ∉ ps.(pb).(ran).
Proof. exact panicked_closure_never_runs. Qed.

Theorem C15p_call_on_panicked_queue_never_runs : forall (T : tables) (F : facts) (PF : pfacts),
  own_conditions T -> imm_conditions T -> ptab T -> ploud T ->
  forall nq mx scripts tr0 ps0 c ac o rest q qq ps1 tr ps,
    prun T F PF (pinit nq mx scripts) tr0 = Some ps0 ->
    ps0.(pb).(actors) !! c = Some ac -> c ∉ ps0.(dead) -> ac.(stack) = call_frame o :: rest -> op_q o = q ->
    ps0.(pb).(queues) !! q = Some qq -> qq.(qs) = Panicked ->
    pstep T F PF ps0 c = Some ps1 -> prun T F PF ps1 tr = Some ps -> ac.(opctr) ∉ ps.(pb).(ran).
Proof. exact call_on_panicked_never_runs. Qed.

(* on the current tables *)
Lemma clp_imm : imm_conditions gen_tables.
Proof. split; cbn; intros st e st' H; destruct st, e; inversion H; done. Qed.
Theorem C15p_exactly_once_now : forall (F : facts) (PF : pfacts) nq mx scripts tr ps,
  prun gen_tables F PF (pinit nq mx scripts) tr = Some ps -> NoDup ps.(pb).(ran) /\ forall i, i ∈ ps.(pb).(ran) -> i < ps.(pb).(nextop).
Proof. exact (fun F PF => C15p_exactly_once gen_tables F PF clp_own clp_imm). Qed.
Theorem C15p_call_on_panicked_queue_never_runs_now : forall (F : facts) (PF : pfacts) nq mx scripts tr0 ps0 c ac o rest q qq ps1 tr ps,
  prun gen_tables F PF (pinit nq mx scripts) tr0 = Some ps0 ->
  ps0.(pb).(actors) !! c = Some ac -> c ∉ ps0.(dead) -> ac.(stack) = call_frame o :: rest -> op_q o = q ->
  ps0.(pb).(queues) !! q = Some qq -> qq.(qs) = Panicked ->
  pstep gen_tables F PF ps0 c = Some ps1 -> prun gen_tables F PF ps1 tr = Some ps -> ac.(opctr) ∉ ps.(pb).(ran).
Proof. exact (fun F PF => C15p_call_on_panicked_queue_never_runs gen_tables F PF clp_own clp_imm clp_ptab clp_ploud). Qed.

Print Assumptions C15p_id_placement_invariant.
Print Assumptions C15p_exactly_once.
Print Assumptions C15p_panicked_closure_never_runs_again.
Print Assumptions C15p_call_on_panicked_queue_never_runs.
Print Assumptions C15p_exactly_once_now.
Print Assumptions C15p_call_on_panicked_queue_never_runs_now.
