(* L1p: [ran] grows only by the step of an actor at a closure frame, by the operation of that frame *)
From stdpp Require Import list numbers option.
From RecordUpdate Require Import RecordUpdate.
From L1 Require Import Model Own Shape Stuck.
From L1h Require Import Hist SimBase.
From L1p Require Import Model OwnP Absorb MainP Loud DeadP.

(* the operation whose closure the top frame is about to finish *)
Definition clos_id (ac : actor) : option nat :=
  match ac.(stack) with
  | FSIrun _ :: _ => Some ac.(opctr)
  | FROrun _ j :: _ | FDRrun _ j :: _ => Some (job_op j)
  | _ => None
  end.
Lemma job_op_id j : job_op j = job_id j. Proof. by destruct j. Qed.

Lemma drop_job_ran s j : (drop_job s j).(ran) = s.(ran).
Proof.
  destruct j as [[o|o c|o c]|]; cbn [drop_job]; try done.
  set (s1 := upda s c _). destruct (actors s1 !! c) as [ac|]; [|done]. by destruct (stack ac) as [|[] rest].
Qed.
Lemma reap_ran PF ds : forall s, (reap PF s ds).1.(ran) = s.(ran).
Proof.
  induction ds as [|a r IH]; intros s; cbn [reap]; [done|].
  destruct (reap_one PF s a) as [s1|] eqn:E.
  - rewrite IH. unfold reap_one in E. destruct (pool_thread_of s a); [|done]. cbn in E. destruct (threads s !! _); [|done]. cbn in E.
    destruct (_ || _); [|done]. by injection E as <-.
  - specialize (IH s). destruct (reap PF s r). exact IH.
Qed.

Section RanP.
  Context (T : tables) (F : facts) (PF : pfacts).

  Lemma step_ran s a s' ac : step T F s a = Some s' -> s.(actors) !! a = Some ac ->
    s'.(ran) = s.(ran) \/ exists i, clos_id ac = Some i /\ s'.(ran) = i :: s.(ran).
  Proof.
    intros Hstep Ea0. unfold step in Hstep. rewrite Ea0 in Hstep. cbn in Hstep. unfold clos_id.
    destruct (stack ac) as [|fr rest] eqn:Est; [congruence|].
    destruct fr.
    all: cbn beta iota zeta in Hstep.
    all: repeat (first
         [ match type of Hstep with
           | context [queues _ !! ?q] => let E := fresh "Eq" in destruct (queues s !! q) as [qq|] eqn:E; cbn in Hstep; [|congruence]
           | context [threads _ !! ?t] => let E := fresh "Et" in destruct (threads s !! t) as [th|] eqn:E; cbn in Hstep
           end
         | match type of Hstep with context [match ?x with _ => _ end] => let E := fresh "E" in destruct x eqn:E end; cbn in Hstep; try congruence ]).
    all: try discriminate.
    all: try (injection Hstep as <-).
    all: unfold setstack, upda, updq, updt; cbn [ran].
    all: try (left; reflexivity).
    all: try (left; apply (proj1 (proj2 (foldl_notify_fields _ _ _))); fail).
    all: try (right; eexists; split; [reflexivity|]; first [reflexivity | rewrite job_op_id; apply (proj1 (proj2 (proj2 (run_job_view _ _ _))))]).
  Qed.

  Theorem pstep_ran ps a ps' : pstep T F PF ps a = Some ps' ->
    ps'.(pb).(ran) = ps.(pb).(ran) \/
    exists ac i, ps.(pb).(actors) !! a = Some ac /\ clos_id ac = Some i /\ ps'.(pb).(ran) = i :: ps.(pb).(ran).
  Proof.
    intros Hs. unfold pstep in Hs. case_bool_decide as Hdead; [done|].
    destruct (actors (pb ps) !! a) as [ac|] eqn:Ea; [|done]. cbn in Hs.
    assert (Hl1 : forall s', step T F (pb ps) a = Some s' -> s'.(ran) = ps.(pb).(ran) \/
               exists ac0 i, ps.(pb).(actors) !! a = Some ac0 /\ clos_id ac0 = Some i /\ s'.(ran) = i :: ps.(pb).(ran)).
    { intros s' Hst. destruct (step_ran _ a s' ac Hst Ea) as [?|(i & H1 & H2)]; [by left|right; by exists ac, i]. }
    assert (Hgen : match pclos ac with
              | Some (q0, o, rest, dies) =>
                  if default false (pan ps !! o) then
                    Some (ps <| pb := setstack (updq (drop_job (pb ps) (top_job ac)) q0 (fun x => x <| qs := Panicked |> <| owner := None |>)) a rest |>
                             <| dead := if dies then a :: dead ps else dead ps |>)
                  else s' ← step T F (pb ps) a; Some (ps <| pb := s' |>)
              | None => s' ← step T F (pb ps) a; Some (ps <| pb := s' |>)
              end = Some ps' -> ps'.(pb).(ran) = ps.(pb).(ran) \/
                exists ac0 i, ps.(pb).(actors) !! a = Some ac0 /\ clos_id ac0 = Some i /\ ps'.(pb).(ran) = i :: ps.(pb).(ran)).
    { destruct (pclos ac) as [[[[q0 o] rest] dies]|].
      - destruct (default false (pan ps !! o)).
        + intros [= <-]. left. cbn. apply drop_job_ran.
        + destruct (step T F (pb ps) a) as [s'|] eqn:E; [|done]. cbn. intros [= <-]. cbn. by apply Hl1.
      - destruct (step T F (pb ps) a) as [s'|] eqn:E; [|done]. cbn. intros [= <-]. cbn. by apply Hl1. }
    rewrite Ea in Hgen, Hl1.
    destruct (stack ac) as [|fr rest] eqn:Est; [exact (Hgen Hs)|].
    destruct fr; try (exact (Hgen Hs)).
    - destruct script as [|o os]; [exact (Hgen Hs)|].
      destruct (step T F (pb ps) a) as [s'|] eqn:E; [|done]. cbn in Hs. injection Hs as <-. cbn. by apply Hl1.
    - pose proof (reap_ran PF (dead ps) (pb ps)) as Hrr. pose proof (reap_other PF (dead ps) (pb ps) a Hdead) as Hro.
      destruct (reap PF (pb ps) (dead ps)) as [s1 d1] eqn:Er. cbn in *.
      destruct (step T F s1 a) as [s'|] eqn:E; [|done]. cbn in Hs. injection Hs as <-. cbn. left.
      rewrite Ea in Hro. destruct (step_ran s1 a s' ac E Hro) as [H1|(i & H1 & _)]; [by rewrite H1|].
      unfold clos_id in H1. by rewrite Est in H1.
  Qed.
End RanP.
