(* L1p: the id-placement invariant on runs of the panic model.
   Mids ps: the ids in ran, in the pending jobs of the queues (owner's hand, then the stored jobs), and of callers that have called and
   not yet pushed.  IdInv: Mids has no duplicates and every member is below nextop (was issued). *)
From stdpp Require Import list numbers option.
From RecordUpdate Require Import RecordUpdate.
From L1 Require Import Model Own Shape Stuck.
From L1h Require Import WeakWF Hist Abs SimBase Sim HistFacts AInv.
From L1n Require Import Eff.
From L1p Require Import Model OwnP Absorb MainP Loud DeadP RanP ShapeP IdAbs.

Definition nqs (s : state) : nat := length s.(queues).
Definition Mids (s : state) : list nat := Mv (view s) (nqs s).

Lemma pend_out s q : nqs s <= q -> pend s q = [].
Proof. intros H. unfold pend, oj. rewrite lookup_ge_None_2 by done. done. Qed.

(* ---------- dropping the job wrapper ---------- *)
Lemma drop_job_view s j :
  hsame (drop_job s j) s /\ omap pre_id (acts (drop_job s j)) = omap pre_id (acts s) /\
  (drop_job s j).(nextop) = s.(nextop).
Proof.
  destruct j as [[o|o c|o c]|]; cbn [drop_job]; try done.
  set (s1 := upda s c _).
  pose (g := fun x : aactor => x <| ardy := true |>).
  assert (H1 : acts s1 = alter g c (acts s)) by exact (acts_upda_gen s c (fun x : actor => x <| ready := true |>) g (fun _ => eq_refl)).
  assert (H2 : hsame s1 s) by (by apply hsame_upda).
  assert (H3 : omap pre_id (acts s1) = omap pre_id (acts s)) by (rewrite H1; apply omap_alter_same; by intros).
  destruct (actors s1 !! c) as [ac|] eqn:Ec; [|done].
  destruct (stack ac) as [|[] rest] eqn:Es; try done.
  split; [|split; [|done]].
  - eapply hsame_trans; [|exact H2]. split.
    + intros b q'. rewrite hv_setstack. case_decide; subst; [|done]. unfold hv. rewrite Ec. cbn. by rewrite Es.
    + intros b. rewrite actors_setstack_lookup. case_decide; [subst b; by rewrite Ec|done].
  - rewrite acts_setstack, <- H3. apply omap_alter_same. intros y Hy. rewrite (acts_lookup s1 c ac Ec) in Hy. injection Hy as <-.
    rewrite pre_id_set_ph. unfold pre_id. cbn -[aph]. rewrite aph_wake, <- Es. by destruct (aph (stack ac)).
Qed.

Lemma length_queues_updq s q f : nqs (updq s q f) = nqs s.
Proof. unfold nqs, updq; cbn. by rewrite alter_length. Qed.

(* ---------- the panic step: the id in the hand of the panicking runner is dropped, nothing else moves ---------- *)
Lemma panic_ids s a ac q o rest dies :
  Shape s -> Inv s -> WF' s -> s.(actors) !! a = Some ac -> pclos ac = Some (q, o, rest, dies) ->
  let s' := setstack (updq (drop_job s (top_job ac)) q (fun x => x <| qs := Panicked |> <| owner := None |>)) a rest in
  Mids s ≡ₚ o :: Mids s' /\ s'.(nextop) = s.(nextop) /\ nqs s' = nqs s /\ (forall q0, q0 <> q -> pend s' q0 = pend s q0) /\ q < nqs s.
Proof.
  intros HS HI HW Ea Hp s'.
  set (g := fun x : queue => x <| qs := Panicked |> <| owner := None |>) in *.
  destruct (drop_job_view s (top_job ac)) as ([Hh1 Hh2] & Hpre & Hnx).
  pose proof (drop_job_queues s (top_job ac)) as Hq1.
  assert (Hnw : forall q0 r, stack ac <> FSBwait q0 :: r) by (intros q0 r E; unfold pclos in Hp; by rewrite E in Hp).
  destruct (drop_job_actor s (top_job ac) a ac Ea _ eq_refl Hnw) as (ac1 & Ea1 & Est1).
  assert (Hop1 : opctr ac1 = opctr ac).
  { specialize (Hh2 a). rewrite Ea1, Ea in Hh2. by injection Hh2. }
  pose proof (drop_job_ran s (top_job ac)) as Hran1.
  set (s1 := drop_job s (top_job ac)) in *.
  (* the shapes: the hand for q is one job with id o, no hand for another queue; the new stack holds nothing *)
  assert (Hshape : (exists jx, handl q (opctr ac) (stack ac) = [jx] /\ job_id jx = o) /\ (forall q0, q0 <> q -> handl q0 (opctr ac) (stack ac) = []) /\
                   (forall q0 oo, handl q0 oo rest = []) /\ cnt q (stack ac) = 1 /\ (forall q0, q0 <> q -> cnt q0 (stack ac) = 0) /\
                   pre_id (aact ac) = None /\ (match aph rest with PPre _ _ => False | _ => True end) /\ q < nqs s).
  { pose proof (WF'_self s a ac HW Ea) as Hw. pose proof (kind_of s a ac HS Ea) as Hkind.
    destruct (pclos_stack ac q o rest dies Hp) as [(r0 & E & _ & _ & ->)|[(j & g0 & E & Hg0 & _ & ->)|(j & t0 & E & -> & _ & ->)]]; rewrite E in *; cbn in Hw.
    - apply andb_true_iff in Hw as [Hw _]. apply bool_decide_eq_true in Hw.
      destruct Hkind as [[_ Hok]|(t1 & _ & Hok)]; [|by destruct rest as [|? [|]]].
      apply caller_ok_inv in Hok as [(-> & Hf)|[(os & -> & Hsf)|(g1 & os & -> & Hpo)]]; try done.
      split; [exists (JPlain (opctr ac)); cbn; by rewrite decide_True|]. split; [intros q0 Hne; cbn; by rewrite decide_False|].
      split; [done|]. split; [cbn; by rewrite bool_decide_eq_true_2|]. split; [intros q0 Hne; cbn; by rewrite bool_decide_eq_false_2|].
      split; [unfold pre_id; cbn; by rewrite E|]. split; [done|]. unfold nqs; lia.
    - apply andb_true_iff in Hw as [Hw _]. apply bool_decide_eq_true in Hw.
      destruct Hkind as [[_ Hok]|(t1 & _ & Hok)]; [|by destruct rest as [|? [|]]].
      apply caller_ok_inv in Hok as [(E2 & Hf)|[(os & E2 & Hsf)|(g1 & os & E2 & Hpo)]]; try done. injection E2 as <- ->.
      split; [exists j; cbn; rewrite decide_True by done; split; [by destruct Hg0 as [-> | ->]|symmetry; apply job_op_id]|].
      split; [intros q0 Hne; cbn; rewrite decide_False by done; by destruct Hg0 as [-> | ->]|].
      split; [done|]. split; [destruct Hg0 as [-> | ->]; cbn; by rewrite bool_decide_eq_true_2|].
      split; [intros q0 Hne; destruct Hg0 as [-> | ->]; cbn; by rewrite bool_decide_eq_false_2|].
      split; [unfold pre_id; cbn; rewrite E; by destruct Hg0 as [-> | ->]|]. split; [done|]. unfold nqs; lia.
    - apply andb_true_iff in Hw as [Hw _]. apply bool_decide_eq_true in Hw.
      split; [exists j; cbn; rewrite decide_True by done; split; [done|symmetry; apply job_op_id]|].
      split; [intros q0 Hne; cbn; by rewrite decide_False|].
      split; [done|]. split; [cbn; by rewrite bool_decide_eq_true_2|]. split; [intros q0 Hne; cbn; by rewrite bool_decide_eq_false_2|].
      split; [unfold pre_id; cbn; by rewrite E|]. split; [done|]. unfold nqs; lia. }
  destruct Hshape as ((jx & Hhand & Hjx) & Hnohand & Hrest & Hcq & Hcn & Hprea & Hphr & Hqn).
  destruct (lookup_lt_is_Some_2 _ _ Hqn) as [qq Eq].
  destruct (runner_owns s a q qq 0 HI) as [Hown Hrun]; [by rewrite (stack_cnt_self s a ac q Ea), Hcq|done|].
  assert (Hn' : nqs s' = nqs s) by (unfold s'; unfold nqs; rewrite queues_setstack; fold (nqs (updq s1 q g)); rewrite length_queues_updq; unfold nqs; by rewrite Hq1).
  (* the three parts of Mids *)
  assert (Hran : ran s' = ran s) by exact Hran1.
  assert (Hpre' : omap pre_id (acts s') = omap pre_id (acts s)).
  { unfold s'. rewrite acts_setstack. change (acts (updq s1 q g)) with (acts s1). rewrite <- Hpre. apply omap_alter_same.
    intros y Hy. rewrite (acts_lookup s1 a ac1 Ea1) in Hy. injection Hy as <-. rewrite pre_id_set_ph.
    assert (pre_id (aact ac1) = None) as -> by (unfold pre_id in *; cbn in *; by rewrite Est1, Hop1).
    by destruct (aph rest). }
  assert (Hpq : pend s q = jx :: pend s' q).
  { rewrite (pend_self s a ac q (jobs qq) Ea) by (by rewrite (oj_lookup s q qq Eq), Hown). rewrite Hhand. cbn. f_equal.
    unfold pend, s'. rewrite oj_setstack, oj_updq, decide_True by done. rewrite Hq1, Eq. done. }
  assert (Hpo : forall q0, q0 <> q -> pend s' q0 = pend s q0).
  { intros q0 Hne. unfold pend, s'. rewrite oj_setstack, oj_updq, decide_False by done. rewrite (oj_queues s1 s q0 Hq1).
    destruct (oj s q0) as [[[b|] js]|] eqn:Eo; [|done|done]. f_equal.
    rewrite hv_setstack. case_decide as Hab.
    - subst b. change (actors (updq s1 q g)) with (actors s1). rewrite Ea1. cbn. rewrite Hrest. unfold hv. rewrite Ea. cbn. by rewrite Hnohand.
    - change (hv (updq s1 q g) b q0) with (hv s1 b q0). by rewrite Hh1. }
  split; [|split; [exact Hnx|split; [exact Hn'|split; [exact Hpo|exact Hqn]]]].
  unfold Mids. rewrite Hn'. unfold Mv. cbn [v_ran v_acts view]. rewrite Hran, Hpre'.
  destruct (sumq_upd (pids (view s)) (pids (view s')) q (nqs s) Hqn) as (R & H1 & H2).
  { intros q0 Hne. unfold pids; cbn. by rewrite Hpo. }
  rewrite H1, H2. unfold pids; cbn. rewrite Hpq. cbn. rewrite Hjx. perm.
Qed.

Section StepIds.
  Context (T : tables) (F : facts) (HT : own_conditions T) (HI : imm_conditions T).

  Lemma nqs_setstack s a st : nqs (setstack s a st) = nqs s. Proof. done. Qed.
  Lemma nqs_upda s a f : nqs (upda s a f) = nqs s. Proof. done. Qed.
  Lemma nqs_updt s t f : nqs (updt s t f) = nqs s. Proof. done. Qed.
  Lemma nqs_run_job s j : nqs (run_job F s j) = nqs s. Proof. unfold nqs. by rewrite (proj1 (run_job_obs F s j)). Qed.
  Lemma nqs_notify s ws : nqs (foldl (notify F) s ws) = nqs s. Proof. unfold nqs. by rewrite (proj1 (foldl_notify_obs F ws s)). Qed.

  Lemma step_nqs s a s' : step T F s a = Some s' -> nqs s' = nqs s.
  Proof.
    intros Hstep. unfold step in Hstep.
    destruct (actors s !! a) as [ac|] eqn:Ea; cbn in Hstep; [|congruence].
    destruct (stack ac) as [|fr rest] eqn:Est; [congruence|].
    destruct fr.
    all: cbn beta iota zeta in Hstep.
    all: repeat (first
         [ match type of Hstep with
           | context [queues _ !! ?q] => let E := fresh "Eq" in destruct (queues s !! q) as [qq|] eqn:E; cbn in Hstep; [|congruence]
           | context [threads _ !! ?t] => let E := fresh "Et" in destruct (threads s !! t) as [th|] eqn:E; cbn in Hstep
           end
         | match type of Hstep with context [match ?x with _ => _ end] => let E := fresh "E" in destruct x eqn:E end; cbn in Hstep; try congruence ]).
    all: try discriminate.
    all: try (injection Hstep as <-).
    all: repeat first [ rewrite nqs_setstack | rewrite nqs_upda | rewrite nqs_updt | rewrite length_queues_updq | rewrite nqs_run_job | rewrite nqs_notify
                      | lazymatch goal with |- context [nqs (set ?fld ?f ?Y)] => change (nqs (set fld f Y)) with (nqs Y) end ].
    all: try reflexivity.
  Qed.

  (* one L1 step: ids move, a call adds the fresh id nextop, Busy / Panic answers and pushes to missing queues drop an id *)
  Lemma step_ids s a s' : Shape s -> Inv s -> WF' s -> step T F s a = Some s' ->
    exists fresh lost, fresh ++ Mids s ≡ₚ Mids s' ++ lost /\
      ((fresh = [] /\ s'.(nextop) = s.(nextop)) \/ (fresh = [s.(nextop)] /\ s'.(nextop) = S s.(nextop))) /\
      (forall i, obs' T s a s' = [RetPanic i] \/ obs' T s a s' = [RetBusy i] -> lost = [i] /\ fresh = []).
  Proof.
    intros HS HIv HW Hs. pose proof (step_sim T F HT HI s a s' HS HIv HW Hs) as Hsim.
    destruct (astep_ids (view s) a _ (view s') (nqs s) (pend_out s) Hsim) as (fresh & lost & H1 & H2 & H3 & _).
    exists fresh, lost. unfold Mids. rewrite (step_nqs s a s' Hs). done.
  Qed.
End StepIds.

Definition IdInv (s : state) : Prop := NoDup (Mids s) /\ Forall (fun i => i < s.(nextop)) (Mids s).

Lemma idinv_move s s' fresh lost : IdInv s -> fresh ++ Mids s ≡ₚ Mids s' ++ lost ->
  ((fresh = [] /\ s'.(nextop) = s.(nextop)) \/ (fresh = [s.(nextop)] /\ s'.(nextop) = S s.(nextop))) -> IdInv s'.
Proof.
  intros [Hnd Hlt] Hp Hf.
  assert (Hnd2 : NoDup (fresh ++ Mids s)).
  { destruct Hf as [(-> & _)|(-> & _)]; [done|]. cbn. constructor; [|done]. intros Hin. rewrite list.Forall_forall in Hlt. specialize (Hlt _ Hin). lia. }
  rewrite Hp in Hnd2. apply NoDup_app in Hnd2 as (Hnd' & _ & _). split; [done|].
  apply list.Forall_forall. intros i Hi.
  assert (Hin : i ∈ fresh ++ Mids s) by (rewrite Hp; apply elem_of_app; by left).
  rewrite list.Forall_forall in Hlt. apply elem_of_app in Hin as [Hin|Hin].
  - destruct Hf as [(-> & _)|(-> & ->)]; [by apply elem_of_nil in Hin|]. apply elem_of_list_singleton in Hin. lia.
  - specialize (Hlt _ Hin). destruct Hf as [(_ & ->)|(_ & ->)]; lia.
Qed.

Lemma reap_one_ids PF s a s1 ac t0 : s.(actors) !! a = Some ac -> ac.(stack) = [FTlock t0] -> reap_one PF s a = Some s1 ->
  Mids s1 = Mids s /\ s1.(nextop) = s.(nextop) /\ s1.(ran) = s.(ran) /\ (forall q, pend s1 q = pend s q) /\ s1.(queues) = s.(queues).
Proof.
  intros Ea Est Hr. unfold reap_one in Hr. destruct (pool_thread_of s a) as [t|]; [|done]. cbn in Hr.
  destruct (threads s !! t) as [th|]; [|done]. cbn in Hr. destruct (_ || _); [|done]. injection Hr as <-.
  assert (Hpend : forall q, pend (setstack (updt s t (fun x => x <| busy := false |> <| held := false |> <| chan := 0 |>)) a [FTrecv t]) q = pend s q).
  { intros q. apply pend_view; [done|].
    intros b. rewrite hv_setstack. case_decide as Hab; [|done]. subst b. change (actors (updt s t _)) with (actors s). rewrite Ea. cbn.
    unfold hv. rewrite Ea. cbn. by rewrite Est. }
  split; [|done]. unfold Mids. change (nqs (setstack _ a [FTrecv t])) with (nqs s). unfold Mv. cbn [view v_ran v_acts]. f_equal. f_equal.
  - apply sumq_ext. intros q _. unfold pids; cbn. f_equal. apply Hpend.
  - rewrite acts_setstack. change (acts (updt s t _)) with (acts s). apply omap_alter_same.
    intros y Hy. rewrite (acts_lookup s a ac Ea) in Hy. injection Hy as <-. rewrite pre_id_set_ph. unfold pre_id. cbn. by rewrite Est.
Qed.

Lemma reap_ids PF ds : forall s, NoDup ds -> (forall a, a ∈ ds -> exists ac t, s.(actors) !! a = Some ac /\ ac.(stack) = [FTlock t]) ->
  Mids (reap PF s ds).1 = Mids s /\ (reap PF s ds).1.(nextop) = s.(nextop) /\ (forall q, pend (reap PF s ds).1 q = pend s q).
Proof.
  induction ds as [|a r IH]; intros s Hnd Hd; cbn [reap]; [done|].
  apply list.NoDup_cons in Hnd as [Har Hnd].
  destruct (reap_one PF s a) as [s1|] eqn:E1.
  - destruct (Hd a) as (ac & t0 & Ea & Est); [by left|]. destruct (reap_one_ids PF s a s1 ac t0 Ea Est E1) as (H1 & H2 & _ & H4 & _).
    destruct (IH s1 Hnd) as (G1 & G2 & G3).
    { intros b Hb. rewrite (reap_one_actors PF s a s1 b E1) by (intros ->; done). apply Hd. by right. }
    split; [congruence|]. split; [congruence|]. intros q. by rewrite G3, H4.
  - specialize (IH s Hnd). destruct (reap PF s r) as [s' r']. apply IH. intros b Hb. apply Hd. by right.
Qed.

Section Full.
  Context (T : tables) (F : facts) (PF : pfacts) (HT : own_conditions T) (HI : imm_conditions T).

  Record FInv (ps : pstate) : Prop := { fi_s : SInv ps; fi_i : IdInv ps.(pb) }.

  Theorem finv_step ps a ps' : FInv ps -> pstep T F PF ps a = Some ps' -> FInv ps'.
  Proof.
    intros [HSI HId] Hs. split; [by eapply (sinv_step T F PF HT)|].
    destruct HSI as [HP HD HS HW]. pose proof HP as (HIv & Hd & Hnd).
    unfold pstep in Hs. case_bool_decide as Hdead; [done|].
    destruct (actors (pb ps) !! a) as [ac|] eqn:Ea; [|done]. cbn in Hs.
    assert (Hl1 : forall Y s', Shape Y -> Inv Y -> WF' Y -> IdInv Y -> step T F Y a = Some s' -> IdInv s').
    { intros Y s' H1 H2 H3 H4 H5. destruct (step_ids T F HT HI Y a s' H1 H2 H3 H5) as (fresh & lost & G1 & G2 & _). by eapply idinv_move. }
    assert (Hgen : match pclos ac with
              | Some (q0, o, rest, dies) =>
                  if default false (pan ps !! o) then
                    Some (ps <| pb := setstack (updq (drop_job (pb ps) (top_job ac)) q0 (fun x => x <| qs := Panicked |> <| owner := None |>)) a rest |>
                             <| dead := if dies then a :: dead ps else dead ps |>)
                  else s' ← step T F (pb ps) a; Some (ps <| pb := s' |>)
              | None => s' ← step T F (pb ps) a; Some (ps <| pb := s' |>)
              end = Some ps' -> IdInv ps'.(pb)).
    { destruct (pclos ac) as [[[[q0 o] rest] dies]|] eqn:Hp.
      - destruct (default false (pan ps !! o)).
        + intros [= <-]. cbn. destruct (panic_ids (pb ps) a ac q0 o rest dies HS HIv HW Ea Hp) as (G1 & G2 & _).
          eapply (idinv_move (pb ps) _ [] [o] HId); [rewrite app_nil_l, G1; perm|]. left. done.
        + destruct (step T F (pb ps) a) as [s'|] eqn:E; [|done]. cbn. intros [= <-]. cbn. by eapply Hl1.
      - destruct (step T F (pb ps) a) as [s'|] eqn:E; [|done]. cbn. intros [= <-]. cbn. by eapply Hl1. }
    destruct (stack ac) as [|fr rest] eqn:Est; [by apply Hgen|].
    destruct fr; try (by apply Hgen).
    - destruct script as [|o os]; [by apply Hgen|].
      destruct (step T F (pb ps) a) as [s'|] eqn:E; [|done]. cbn in Hs. injection Hs as <-. cbn. by eapply Hl1.
    - destruct (reap_pinv PF (dead ps) (pb ps) Hnd HIv Hd) as (G1 & _).
      destruct (reap_shape PF (dead ps) (pb ps) HS HW Hnd HD) as [G2 G3].
      destruct (reap_ids PF (dead ps) (pb ps) Hnd HD) as (G4 & G5 & _).
      destruct (reap PF (pb ps) (dead ps)) as [s1 d1]. cbn [fst snd] in *.
      destruct (step T F s1 a) as [s'|] eqn:E; [|done]. cbn in Hs. injection Hs as <-. cbn [pb].
      eapply (Hl1 s1); try done. destruct HId as [I1 I2]. split; [by rewrite G4|]. by rewrite G4, G5.
  Qed.
End Full.
