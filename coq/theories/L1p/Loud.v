(* L1p: a call that STARTS on a Panicked queue fails loudly: the caller is never blocked, it is back at its script after two of its
   own steps, nothing is recorded as run by these steps; sync / try_sync push nothing; desync has pushed its job before it looks at
   the state (as schedule_job_desync does) - that job stays stored for ever, a Panicked queue is never run (C15p_panicked_queue_is_never_run).
   The model has no separate "panicked outcome" of a call: the call returns to the script at once with its closure not in [ran]
   (in the code: the panic raised by the call, caught per operation by the harness). *)
From stdpp Require Import list numbers option.
From RecordUpdate Require Import RecordUpdate.
From L1 Require Import Model Own Shape Stuck.
From L1n Require Import Eff.
From L1p Require Import Model OwnP Absorb MainP.

(* the entry tables answer Panic on a Panicked queue *)
Record ploud (T : tables) : Prop := {
  pl_desync : T.(t_desync) Panicked = (Panicked, DAPanic);
  pl_sync : forall e, T.(t_sync) Panicked e = (Panicked, SAPanic);
  pl_try : forall e, T.(t_trysync) Panicked e = (Panicked, TAPanic);
}.

Definition call_frame (o : op) : frame := match o with ODesync q => FD1 q | OSync q => FS1 q | OTrySync q => FTS1 q end.
Definition stack_of (ps : pstate) (c : nat) : option (list frame) := stack <$> ps.(pb).(actors) !! c.
Definition jobs_of (ps : pstate) (q : nat) : option (list job) := jobs <$> ps.(pb).(queues) !! q.

Lemma queues_ss Y c st q f : queues (setstack (updq Y q f) c st) !! q = f <$> queues Y !! q.
Proof. rewrite queues_setstack, queues_updq, decide_True by done. done. Qed.

Lemma panicked_ss Y c st q f qq : queues Y !! q = Some qq -> qs (f qq) = Panicked -> panicked (setstack (updq Y q f) c st) q.
Proof. intros H1 H2. exists (f qq). split; [|done]. by rewrite queues_ss, H1. Qed.

Section Loud.
  Context (T : tables) (F : facts) (PF : pfacts) (HL : ploud T).

  (* first step: the call starts (always possible) *)
  Lemma loud_call ps c o os : c ∉ ps.(dead) -> stack_of ps c = Some [FTop (o :: os)] ->
    exists ps1, pstep T F PF ps c = Some ps1 /\ stack_of ps1 c = Some [call_frame o; FTop os] /\
      ps1.(pb).(ran) = ps.(pb).(ran) /\ ps1.(pb).(queues) = ps.(pb).(queues) /\ ps1.(dead) = ps.(dead).
  Proof.
    intros Hd Hst. unfold stack_of in Hst. destruct (actors (pb ps) !! c) as [ac|] eqn:Ea; [|done]. cbn in Hst. injection Hst as Hst.
    unfold pstep. rewrite bool_decide_eq_false_2 by done. rewrite Ea. cbn. rewrite Hst.
    unfold step. rewrite Ea. cbn. rewrite Hst. destruct o; cbn; eexists; (split; [reflexivity|]); cbn;
      (split; [unfold stack_of; cbn; rewrite list_lookup_alter; rewrite list_lookup_alter, Ea; done|done]).
  Qed.

  (* second step: the queue is Panicked: the call returns at once *)
  Lemma loud_return ps c o os q qq : c ∉ ps.(dead) -> op_q o = q -> stack_of ps c = Some [call_frame o; FTop os] ->
    ps.(pb).(queues) !! q = Some qq -> qq.(qs) = Panicked ->
    exists ps2 ac, pstep T F PF ps c = Some ps2 /\ stack_of ps2 c = Some [FTop os] /\ ps.(pb).(actors) !! c = Some ac /\
      ps2.(pb).(ran) = ps.(pb).(ran) /\ panicked ps2.(pb) q /\ ps2.(dead) = ps.(dead) /\
      jobs_of ps2 q = Some (match o with ODesync _ => qq.(jobs) ++ [JPlain ac.(opctr)] | _ => qq.(jobs) end).
  Proof.
    intros Hd Hq Hst Eq Hp. unfold stack_of in Hst. destruct (actors (pb ps) !! c) as [ac|] eqn:Ea; [|done]. cbn in Hst. injection Hst as Hst.
    unfold pstep. rewrite bool_decide_eq_false_2 by done. rewrite Ea. cbn. rewrite Hst.
    assert (Hstk : forall Y, actors Y = actors (pb ps) -> stack <$> actors (setstack Y c [FTop os]) !! c = Some [FTop os]).
    { intros Y HY. rewrite actors_setstack_lookup, decide_True by done. by rewrite HY, Ea. }
    destruct o as [q0|q0|q0]; cbn in Hq; subst q0; cbn [call_frame]; unfold pclos; rewrite Hst; cbn [call_frame];
      unfold step; rewrite Ea; cbn -[setstack updq upda]; rewrite Hst; cbn -[setstack updq upda]; rewrite Eq; cbn -[setstack updq upda]; rewrite Hp.
    - rewrite (pl_desync T HL). cbn -[setstack updq upda]. eexists _, ac. split; [reflexivity|]. cbn -[setstack updq upda].
      split; [unfold stack_of; cbn [pb]; by apply Hstk|]. split; [done|]. split; [done|].
      split; [by apply (panicked_ss _ _ _ _ _ qq Eq)|]. split; [done|].
      unfold jobs_of; cbn -[setstack updq upda]. by rewrite queues_ss, Eq.
    - rewrite (pl_sync T HL). cbn -[setstack updq upda]. eexists _, ac. split; [reflexivity|]. cbn -[setstack updq upda].
      split; [unfold stack_of; cbn [pb]; by apply Hstk|]. split; [done|]. split; [done|].
      split; [by apply (panicked_ss _ _ _ _ _ qq Eq)|]. split; [done|].
      unfold jobs_of; cbn -[setstack updq upda]. by rewrite queues_ss, Eq.
    - rewrite (pl_try T HL). cbn -[setstack updq upda]. eexists _, ac. split; [reflexivity|]. cbn -[setstack updq upda].
      split; [unfold stack_of; cbn [pb]; by apply Hstk|]. split; [done|]. split; [done|].
      split; [by apply (panicked_ss _ _ _ _ _ qq Eq)|]. split; [done|].
      unfold jobs_of; cbn -[setstack updq upda]. by rewrite queues_ss, Eq.
  Qed.

  Context (HT : own_conditions T) (HP : ptab T).

  (* steps of the other actors do not touch a caller that is not inside the condition-variable wait *)
  Lemma pstep_other ps a ps' c st : PInv' ps -> pstep T F PF ps a = Some ps' -> a <> c -> c ∉ ps.(dead) ->
    stack_of ps c = Some st -> (forall q r, st <> FSBwait q :: r) -> stack_of ps' c = Some st /\ c ∉ ps'.(dead).
  Proof.
    intros (HI & Hd & Hnd) Hs Hne Hcd Hst Hnw. unfold stack_of in *.
    destruct (actors (pb ps) !! c) as [acc|] eqn:Ec; [|done]. cbn in Hst. injection Hst as Hst.
    unfold pstep in Hs. case_bool_decide as Hdead; [done|].
    destruct (actors (pb ps) !! a) as [ac|] eqn:Ea; [|done]. cbn in Hs.
    assert (Hl1 : forall Y s', actors Y !! c = Some acc -> step T F Y a = Some s' -> stack <$> actors s' !! c = Some st).
    { intros Y s' EY HY. destruct (step_others T F Y a s' HY c acc (not_eq_sym Hne) EY) as (x' & -> & [E|(q & r & E1 & E2)]); cbn; [by rewrite E, Hst|].
      rewrite Hst in E1. by destruct (Hnw q r). }
    assert (Hgen : match pclos ac with
              | Some (q0, o, rest, dies) =>
                  if default false (pan ps !! o) then
                    Some (ps <| pb := setstack (updq (drop_job (pb ps) (top_job ac)) q0 (fun x => x <| qs := Panicked |> <| owner := None |>)) a rest |>
                             <| dead := if dies then a :: dead ps else dead ps |>)
                  else s' ← step T F (pb ps) a; Some (ps <| pb := s' |>)
              | None => s' ← step T F (pb ps) a; Some (ps <| pb := s' |>)
              end = Some ps' -> stack <$> actors (pb ps') !! c = Some st /\ c ∉ dead ps').
    { destruct (pclos ac) as [[[[q0 o] rest] dies]|].
      - destruct (default false (pan ps !! o)).
        + intros [= <-]. cbn -[setstack updq]. split.
          * rewrite actors_setstack_lookup, decide_False by done. change (actors (updq ?Y _ _)) with (actors Y).
            destruct (drop_job_actor (pb ps) (top_job ac) c acc Ec st Hst Hnw) as (x & -> & Hx). cbn. by rewrite Hx.
          * destruct dies; [|done]. intros [E|Hin]%elem_of_cons; [by apply Hne|done].
        + destruct (step T F (pb ps) a) as [s'|] eqn:E; [|done]. cbn. intros [= <-]. cbn. split; [by eapply Hl1|done].
      - destruct (step T F (pb ps) a) as [s'|] eqn:E; [|done]. cbn. intros [= <-]. cbn. split; [by eapply Hl1|done]. }
    destruct (stack ac) as [|fr rest] eqn:Est; [by apply Hgen|].
    destruct fr; try (by apply Hgen).
    - destruct script as [|o os]; [by apply Hgen|].
      destruct (step T F (pb ps) a) as [s'|] eqn:E; [|done]. cbn in Hs. injection Hs as <-. cbn. split; [by eapply Hl1|done].
    - destruct (reap_pinv PF (dead ps) (pb ps) Hnd HI Hd) as (_ & _ & G3 & _ & G5).
      destruct (reap PF (pb ps) (dead ps)) as [s1 d1]. cbn in *.
      destruct (step T F s1 a) as [s'|] eqn:E; [|done]. cbn in Hs. injection Hs as <-. cbn. split; [|intros Hin; by apply Hcd, G3].
      eapply (Hl1 s1); [|done]. by rewrite G5.
  Qed.

  Lemma prun_snoc ps tr a : prun T F PF ps (tr ++ [a]) = ps1 ← prun T F PF ps tr; pstep T F PF ps1 a.
  Proof. unfold prun. rewrite foldl_app. done. Qed.

  Definition ccount (c : nat) (tr : list nat) : nat := length (filter (fun a => a = c) tr).

  (* the whole call: whatever the other actors do in between, the caller can always move, and after two steps of its own it is
     back at its script; nothing is recorded as run by its steps (loud_call, loud_return) *)
  Theorem loud_bounded ps0 c o os q : PInv' ps0 -> panicked ps0.(pb) q -> c ∉ ps0.(dead) -> op_q o = q ->
    stack_of ps0 c = Some [FTop (o :: os)] ->
    forall tr ps, prun T F PF ps0 tr = Some ps ->
      match ccount c tr with
      | 0 => stack_of ps c = Some [FTop (o :: os)] /\ c ∉ ps.(dead) /\ is_Some (pstep T F PF ps c)
      | 1 => stack_of ps c = Some [call_frame o; FTop os] /\ c ∉ ps.(dead) /\
             exists ps2, pstep T F PF ps c = Some ps2 /\ stack_of ps2 c = Some [FTop os] /\ ps2.(pb).(ran) = ps.(pb).(ran)
      | _ => True
      end.
  Proof.
    intros HI0 Hq0 Hd0 Hoq Hst0 tr. induction tr as [|a tr IH] using rev_ind; intros ps Hr.
    - unfold prun in Hr; cbn in Hr. injection Hr as <-. cbn. split; [done|]. split; [done|].
      destruct (loud_call ps0 c o os Hd0 Hst0) as (ps1 & H1 & _). by eexists.
    - rewrite prun_snoc in Hr. destruct (prun T F PF ps0 tr) as [ps1|] eqn:Hr1; [|done]. cbn in Hr. specialize (IH ps1 eq_refl).
      assert (HI1 : PInv' ps1) by (eapply prun_inv; eauto).
      assert (HI : PInv' ps) by (eapply pinv_step; eauto).
      assert (Hq : panicked (pb ps) q).
      { eapply pstep_keeps_panicked with (ps := ps1) (a := a); try eassumption. eapply prun_panicked with (ps := ps0) (tr := tr); eassumption. }
      unfold ccount in *. rewrite list.filter_app, app_length. destruct (decide (a = c)) as [->|Hne].
      + rewrite filter_cons_True by done. cbn [length filter]. rewrite Nat.add_1_r.
        destruct (length (filter (fun a => a = c) tr)) as [|[|n]]; [|done|done].
        destruct IH as (Hst1 & Hd1 & _). destruct (loud_call ps1 c o os Hd1 Hst1) as (ps' & H1 & H2 & H3 & H4 & H5).
        rewrite Hr in H1. injection H1 as <-. split; [done|]. split; [by rewrite H5|].
        destruct Hq as (qq & Eq & Hp). destruct (loud_return ps c o os q qq) as (ps2 & ac & G1 & G2 & _ & G4 & _); try done; [by rewrite H5|].
        by exists ps2.
      + rewrite filter_cons_False by done. cbn [length filter]. rewrite Nat.add_0_r.
        destruct (length (filter (fun a => a = c) tr)) as [|[|n]]; [| |done].
        * destruct IH as (Hst1 & Hd1 & _). destruct (pstep_other ps1 a ps c _ HI1 Hr Hne Hd1 Hst1) as [H1 H2]; [done|].
          split; [done|]. split; [done|]. destruct (loud_call ps c o os H2 H1) as (ps' & G1 & _). by eexists.
        * destruct IH as (Hst1 & Hd1 & _). destruct (pstep_other ps1 a ps c _ HI1 Hr Hne Hd1 Hst1) as [H1 H2]; [by destruct o|].
          split; [done|]. split; [done|].
          destruct Hq as (qq & Eq & Hp). destruct (loud_return ps c o os q qq) as (ps2 & ac & G1 & G2 & _ & G4 & _); try done. by exists ps2.
  Qed.
End Loud.
