(* L1p: reachable states of the panic model: ownership, Panicked is absorbing *)
From stdpp Require Import list numbers option.
From RecordUpdate Require Import RecordUpdate.
From L1 Require Import Model Own Shape Stuck Live Wait Help Final.
From L1p Require Import Model OwnP Absorb.

Lemma reap_queues PF ds : forall s, (reap PF s ds).1.(queues) = s.(queues).
Proof.
  induction ds as [|a r IH]; intros s; cbn [reap]; [done|].
  destruct (reap_one PF s a) as [s1|] eqn:E.
  - rewrite IH. unfold reap_one in E. destruct (pool_thread_of s a); [|done]. cbn in E. destruct (threads s !! _); [|done]. cbn in E.
    destruct (_ || _); [|done]. by injection E as <-.
  - specialize (IH s). destruct (reap PF s r). exact IH.
Qed.
Lemma drop_job_queues s j : (drop_job s j).(queues) = s.(queues).
Proof. by destruct (drop_job_obs s j) as (H & _). Qed.

Section MainP.
  Context (T : tables) (F : facts) (PF : pfacts) (HT : own_conditions T) (HP : ptab T).

  Lemma pstep_keeps_panicked ps a ps' q : PInv' ps -> pstep T F PF ps a = Some ps' -> panicked ps.(pb) q -> panicked ps'.(pb) q.
  Proof.
    intros (HI & Hd & Hnd) Hs Hq. unfold pstep in Hs. case_bool_decide; [done|].
    destruct (actors (pb ps) !! a) as [ac|] eqn:Ea; [|done]. cbn in Hs.
    assert (Hgen : match pclos ac with
              | Some (q0, o, rest, dies) =>
                  if default false (pan ps !! o) then
                    Some (ps <| pb := setstack (updq (drop_job (pb ps) (top_job ac)) q0 (fun x => x <| qs := Panicked |> <| owner := None |>)) a rest |>
                             <| dead := if dies then a :: dead ps else dead ps |>)
                  else s' ← step T F (pb ps) a; Some (ps <| pb := s' |>)
              | None => s' ← step T F (pb ps) a; Some (ps <| pb := s' |>)
              end = Some ps' -> panicked ps'.(pb) q).
    { destruct (pclos ac) as [[[[q0 o] rest] dies]|].
      - destruct (default false (pan ps !! o)).
        + intros [= <-]. cbn. apply (panicked_view _ (updq (drop_job (pb ps) (top_job ac)) q0 (fun x => x <| qs := Panicked |> <| owner := None |>))); [done|].
          apply panicked_updq; [by apply (panicked_view _ (pb ps)); [apply drop_job_queues|]|done].
        + destruct (step T F (pb ps) a) as [s'|] eqn:E; [|done]. cbn. intros [= <-]. cbn. by eapply (step_keeps_panicked T F HP).
      - destruct (step T F (pb ps) a) as [s'|] eqn:E; [|done]. cbn. intros [= <-]. cbn. by eapply (step_keeps_panicked T F HP). }
    destruct (stack ac) as [|fr rest] eqn:Est; [by apply Hgen|].
    destruct fr; try (by apply Hgen).
    - destruct script as [|o os]; [by apply Hgen|].
      destruct (step T F (pb ps) a) as [s'|] eqn:E; [|done]. cbn in Hs. injection Hs as <-. cbn. by eapply (step_keeps_panicked T F HP).
    - destruct (reap_pinv PF (dead ps) (pb ps) Hnd HI Hd) as (G1 & _). pose proof (reap_queues PF (dead ps) (pb ps)) as Hrq.
      destruct (reap PF (pb ps) (dead ps)) as [s1 d1]. cbn in *.
      destruct (step T F s1 a) as [s'|] eqn:E; [|done]. cbn in Hs. injection Hs as <-. cbn.
      eapply (step_keeps_panicked T F HP s1 a s' q G1 E). by apply (panicked_view _ (pb ps)).
  Qed.

  Lemma prun_cons ps a tr : prun T F PF ps (a :: tr) = ps1 ← pstep T F PF ps a; prun T F PF ps1 tr.
  Proof. unfold prun; cbn. destruct (pstep T F PF ps a); cbn; [done|]. induction tr; cbn; done. Qed.

  Lemma prun_inv tr : forall ps ps', PInv' ps -> prun T F PF ps tr = Some ps' -> PInv' ps'.
  Proof.
    induction tr as [|a tr IH]; intros ps ps' H0 Hr; [unfold prun in Hr; cbn in Hr; by injection Hr as <-|].
    rewrite prun_cons in Hr. destruct (pstep T F PF ps a) as [ps1|] eqn:E; [|done]. cbn in Hr. eapply IH; [|exact Hr]. by eapply (pinv_step T F PF HT).
  Qed.
  Lemma prun_panicked tr : forall ps ps' q, PInv' ps -> prun T F PF ps tr = Some ps' -> panicked ps.(pb) q -> panicked ps'.(pb) q.
  Proof.
    induction tr as [|a tr IH]; intros ps ps' q H0 Hr Hq; [unfold prun in Hr; cbn in Hr; by injection Hr as <-|].
    rewrite prun_cons in Hr. destruct (pstep T F PF ps a) as [ps1|] eqn:E; [|done]. cbn in Hr.
    eapply (IH ps1); [by eapply (pinv_step T F PF HT)|exact Hr|by eapply pstep_keeps_panicked].
  Qed.

  Lemma pinit_inv nq mx scripts : PInv' (pinit nq mx scripts).
  Proof. split; [apply init_inv|]. split; [intros a Ha; by apply elem_of_nil in Ha|constructor]. Qed.

  Theorem preach_inv nq mx scripts tr ps : prun T F PF (pinit nq mx scripts) tr = Some ps -> Inv ps.(pb).
  Proof. intros Hr. by destruct (prun_inv tr _ _ (pinit_inv nq mx scripts) Hr) as (H & _). Qed.

  Theorem panicked_absorbing nq mx scripts tr1 tr2 ps1 ps2 q :
    prun T F PF (pinit nq mx scripts) tr1 = Some ps1 -> prun T F PF ps1 tr2 = Some ps2 -> panicked ps1.(pb) q -> panicked ps2.(pb) q.
  Proof. intros H1 H2. apply (prun_panicked tr2 ps1 ps2 q); [|done]. by eapply prun_inv; [apply pinit_inv|]. Qed.

  (* nobody runs a Panicked queue: no actor holds a runner frame of it (so none of its jobs is dequeued or run any more) *)
  Theorem panicked_no_runner nq mx scripts tr ps q a n :
    prun T F PF (pinit nq mx scripts) tr = Some ps -> panicked ps.(pb) q -> stack_cnt ps.(pb) a q <> Some (S n).
  Proof.
    intros Hr (qq & Hq & Hp) Hc. destruct (runner_owns _ a q qq n (preach_inv _ _ _ _ _ Hr) Hc Hq) as [_ Hrun]. congruence.
  Qed.

  Theorem exclusive_p nq mx scripts tr ps a b q na nb qq :
    prun T F PF (pinit nq mx scripts) tr = Some ps -> ps.(pb).(queues) !! q = Some qq ->
    stack_cnt ps.(pb) a q = Some (S na) -> stack_cnt ps.(pb) b q = Some (S nb) -> a = b.
  Proof.
    intros Hr Hq Ha Hb. pose proof (preach_inv _ _ _ _ _ Hr) as HI.
    destruct (runner_owns _ a q qq na HI Ha Hq) as [Hoa _]. destruct (runner_owns _ b q qq nb HI Hb Hq) as [Hob _]. congruence.
  Qed.
End MainP.
