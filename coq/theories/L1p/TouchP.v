(* A step of the L1 model that reads or writes a Panicked queue leaves the liveness invariants of the masked state intact:
   on the masked state it is a step that changes no queue. *)
From stdpp Require Import list numbers list_numbers option.
From RecordUpdate Require Import RecordUpdate.
From L1 Require Import Model Own Shape Stuck Live Wait Help Final Pool.
From L1p Require Import Model OwnP Absorb MaskP.

Lemma mask_updq_in P s q f : P q = true -> maskP P (updq s q f) = maskP P s.
Proof. intros H. unfold maskP, updq. cbn -[mqs]. by rewrite mqs_alter_in. Qed.
Lemma mask_sched P s l : maskP P (s <| sched := l |>) = (maskP P s) <| sched := l |>.
Proof. done. Qed.

Section Touch.
  Context (T : tables) (F : facts) (P : nat -> bool) (HT : own_conditions T) (HPT : ptab T).

  Lemma step_touch s a s' ac fr rest q0 qq0 : Shape s -> Inv s -> s.(actors) !! a = Some ac -> ac.(stack) = fr :: rest ->
    touched fr = Some q0 -> P q0 = true -> s.(queues) !! q0 = Some qq0 -> qq0.(qs) = Panicked ->
    QInv (maskP P s) -> KInv (maskP P s) -> step T F s a = Some s' -> QInv (maskP P s') /\ KInv (maskP P s').
  Proof.
    intros HS HI Ea Est Ht HP0 Hq0 Hpan HQ HKI Hstep. unfold step in Hstep. rewrite Ea in Hstep. cbn in Hstep. rewrite Est in Hstep.
    assert (Hno : forall n, stack_cnt s a q0 = Some (S n) -> False).
    { intros n Hc. destruct (runner_owns s a q0 qq0 n HI Hc Hq0) as [_ Hr]. congruence. }
    assert (Ea' : actors (maskP P s) !! a = Some ac) by exact Ea.
    assert (HS' : Shape (maskP P s)) by (destruct HS as [A B C D E G H]; split; [exact A|exact B|exact C|exact D|exact E|exact G|exact H]).
    pose proof (kind_of s a ac HS Ea) as Hkind. rewrite Est in Hkind.
    destruct fr; try discriminate Ht; cbn in Ht; injection Ht as ->.
    all: cbn beta iota zeta in Hstep; rewrite ?Hq0 in Hstep; cbn in Hstep.
    all: destruct Hkind as [[Hlt Hok]|(t0 & Hat & Hok)]; [|try (cbn in Hok; discriminate Hok)].
    all: try (lazymatch type of Est with stack _ = FROdeq _ :: _ => idtac end;
              exfalso; apply caller_ok_inv in Hok as [(-> & Hfr)|[(os & -> & Hsf)|(g & os & -> & Hpo)]]; try discriminate;
              cbn in Hpo; destruct g; try discriminate; apply bool_decide_eq_true in Hpo; subst;
              apply (Hno (cnt q0 [FTop os])); unfold stack_cnt; rewrite Ea; cbn; rewrite Est; cbn [cnt owns_b]; rewrite bool_decide_true by done; reflexivity).
    (* frames of the owner: impossible *)
    all: try (exfalso; apply (Hno (cnt q0 rest)); unfold stack_cnt; rewrite Ea; cbn; rewrite Est; cbn [cnt owns_b]; rewrite bool_decide_true by done; reflexivity).
    all: repeat (first
         [ match type of Hstep with context [match ?x with _ => _ end] => let E := fresh "E" in destruct x eqn:E end; cbn in Hstep; try congruence ]).
    all: try discriminate.
    all: try (injection Hstep as <-).
    all: rewrite ?Hpan in *.
    all: try (exfalso; match goal with E : t_sync T Panicked ?e = (_, _) |- _ => pose proof (c_sync _ HT _ _ _ _ E) as [_ X]; pose proof (pt_sync _ HPT e) as Y; rewrite E in Y; cbn in Y; congruence end).
    all: try (exfalso; match goal with E : t_trysync T Panicked ?e = (_, _) |- _ => pose proof (c_try _ HT _ _ _ _ E) as [_ X]; pose proof (pt_try _ HPT e) as Y; rewrite E in Y; cbn in Y; congruence end).
    all: try (exfalso; match goal with E : t_claim T Panicked = Some _ |- _ => rewrite (pt_claim _ HPT) in E; discriminate E end).
    all: rewrite ?mask_setstack, ?mask_upda; rewrite ?mask_updq_in by done; rewrite ?mask_upda, ?mask_foldl_notify.
    all: assert (Hmq0 : forall qq, queues (maskP P s) !! q0 = Some qq -> qs qq = Idle /\ jobs qq = [])
           by (intros qq Hqq; cbn in Hqq; rewrite mqs_lookup, HP0, Hq0 in Hqq; by injection Hqq as <-).
    (* FRQ1: the waiters of the queue are notified first *)
    all: try (lazymatch goal with |- context [foldl (notify F) (maskP P _) ?ws] =>
           assert (HQ1 : QInv (foldl (notify F) (maskP P s) ws)) by (by apply QInv_foldl_notify);
           assert (HK1 : KInv (foldl (notify F) (maskP P s) ws)) by (by apply KInv_foldl_notify);
           destruct (foldl_notify_self F ws (maskP P s) a ac Ea') as (ac1 & Ea1 & Est1); [by rewrite Est|]; rewrite Est in Est1;
           pose proof (foldl_notify_len F ws (maskP P s)) as HA;
           assert (Hlt1 : a < ncallers (foldl (notify F) (maskP P s) ws)) by (unfold ncallers in *; destruct (foldl_notify_frame F ws (maskP P s)) as (A & Hfr2); rewrite Hfr2 in *; cbn in *; lia);
           assert (Hmq1 : forall qq, queues (foldl (notify F) (maskP P s) ws) !! q0 = Some qq -> qs qq = Idle /\ jobs qq = [])
             by (destruct (foldl_notify_frame F ws (maskP P s)) as (A & Hfr2); rewrite Hfr2; exact Hmq0);
           revert HQ1 HK1 Ea1 Est1 Hlt1 Hmq1; generalize (foldl (notify F) (maskP P s) ws); intros sM HQ1 HK1 Ea1 Est1 Hlt1 Hmq1;
           clear HQ HKI Ea' Hmq0 Hlt; rename HQ1 into HQ, HK1 into HKI, Ea1 into Ea', Hlt1 into Hlt, Hmq1 into Hmq0;
           clear Est Ea; rename Est1 into Est; revert Ea' Est; generalize ac1; clear ac; intros ac Ea' Est
         end).
    all: match goal with |- QInv (setstack ?sM _ _) /\ _ => idtac | |- QInv (setstack (upda ?sM _ _) _ _) /\ _ => idtac end.
    all: split.
    all: try (lazymatch goal with |- QInv (setstack ?sM _ _) =>
                first [ eapply (QInv_noq _ _ a ac _ HQ Ea'); [ob_stacks|done|ob_sched_same|by rewrite Est]
                      | eapply (QInv_update _ _ a ac q0 id _ HQ Ea');
                        [ ob_stacks | intros q'; rewrite queues_setstack; case_decide; [by destruct (queues _ !! q')|done] | ob_sched_same | ob_wit Est
                        | intros qq Hqq _; destruct (Hmq0 qq Hqq) as [M1 M2]; split; cbn; [by left|intros Hp; rewrite M1 in Hp; discriminate|intros _ Hj; by rewrite M2 in Hj] ] ] end; fail).
    all: try (eapply (K_direct _ _ a ac _ Ea'); [ob_stacks|done]; fail).
    all: try (eapply (K_update _ _ a ac _ HKI Ea');
              [ ob_stacks | ob_len
              | eapply (takeable_mono _ _ 0 (fun x => x)); [ ob_sched_sub | intros q'; rewrite ?queues_setstack, ?queues_upda; case_decide; [by destruct (queues _ !! q')|done] | done ]
              | intros _; eapply (live_mono_caller _ _ a ac); [exact Ea'|exact Hlt|ob_stacks|ob_nc|ob_threads_same]
              | intros Hh; rewrite Est in Hh; cbn in Hh; discriminate ]; fail).
  Qed.
End Touch.
