(* L1p - panicking closures.  Definitions only.  The L1 model (L1/Model.v) is not changed: [pstep] is L1's [step] plus
   - the issue of an operation records whether its closure panics ([pan], per operation id; the flags come with the scripts);
   - the PANIC STEP of an actor that is about to finish a closure (FDRrun: pool thread; FROrun: sync caller draining or stealing;
     FSIrun: immediate sync / try_sync) whose operation panics: the ActiveQueue guard sets the queue's state to Panicked (the ghost
     owner is cleared), the closure is not recorded as run, the job is gone; a waiting sync_background caller whose job it was gets
     its ready flag and wake-up (the job wrapper is dropped while unwinding) without a result;
     a CALLER unwinds to its script (the harness catches the panic per operation and goes on with the next operation);
     a POOL THREAD dies: its actor never moves again ([dead]), its thread record stays in `threads` with busy still set;
   - the REAP pass at the start of schedule_dormant (remove_finished_threads, modelled at FSTlock, the first frame of the scan):
     a dead thread is removed and its slot can be used again.  L1 addresses threads by their index, so the model does not shift
     the later threads: the reaped slot is re-initialised as a fresh dormant thread (the replacement that spawn_thread_if_less_
     than_maximum would create in the freed slot).  With f_reap_ignores_busy = true (the code: the reap tests only is_finished)
     every dead thread is reaped; with false (the seeded change: only non-busy threads are reaped) a thread that died inside a job
     - busy is still set - never is.
   What L1 already does for a Panicked queue is kept: the tables answer DAPanic / SAPanic / TAPanic and the call returns at once
   (desync has pushed its job before it looks at the state - as in the code -, sync and try_sync push nothing). *)
From stdpp Require Import list numbers option.
From RecordUpdate Require Import RecordUpdate.
From L1 Require Import Model.

Record pfacts := { f_reap_ignores_busy : bool }.

Record pstate := {
  pb : state;                    (* the L1 state *)
  pan : list bool;               (* per operation id: does the closure panic? *)
  pflags : list (list bool);     (* per caller: the flags of the operations it has not issued yet *)
  dead : list nat }.             (* pool actors that died *)
#[export] Instance eta_pstate : Settable _ := settable! Build_pstate <pb; pan; pflags; dead>.

Definition job_op (j : job) : nat := match j with JPlain o | JSyncDrain o _ | JSyncBg o _ => o end.
(* the closure frame on top: its queue, its operation, what is left of the stack after unwinding, does the thread die *)
Definition pclos (ac : actor) : option (nat * nat * list frame * bool) :=
  match ac.(stack) with
  | FSIrun q :: rest => Some (q, ac.(opctr), rest, false)
  | FROrun q j :: FSDloop q' :: rest | FROrun q j :: FSBsteal q' :: rest =>
      if decide (q = q') then Some (q, job_op j, rest, false) else None
  | FDRrun q j :: [FTlock t] => Some (q, job_op j, [FTlock t], true)
  | _ => None
  end.
Definition top_job (ac : actor) : option job :=
  match ac.(stack) with FROrun _ j :: _ | FDRrun _ j :: _ => Some j | _ => None end.
(* the job wrapper of a sync_background job is dropped while unwinding: ready, wake-up, no result *)
Definition drop_job (s : state) (j : option job) : state :=
  match j with
  | Some (JSyncBg _ c) =>
      let s1 := upda s c (fun x => x <| ready := true |>) in
      match s1.(actors) !! c with
      | Some ac => match ac.(stack) with FSBwait q :: rest => setstack s1 c (FSBwoken q :: rest) | _ => s1 end
      | None => s1
      end
  | _ => s
  end.

Definition pool_thread_of (s : state) (a : nat) : option nat :=
  fst <$> list_find (fun th => th.(tactor) = a) s.(threads).
(* the reap pass *)
Definition reap_one (PF : pfacts) (s : state) (a : nat) : option state :=
  t ← pool_thread_of s a;
  th ← s.(threads) !! t;
  if PF.(f_reap_ignores_busy) || negb th.(busy)
  then Some (setstack (updt s t (fun x => x <| busy := false |> <| held := false |> <| chan := 0 |>)) a [FTrecv t])
  else None.
Fixpoint reap (PF : pfacts) (s : state) (ds : list nat) : state * list nat :=
  match ds with
  | [] => (s, [])
  | a :: r => match reap_one PF s a with
              | Some s' => reap PF s' r
              | None => let '(s', r') := reap PF s r in (s', a :: r')
              end
  end.

Section Step.
  Context (T : tables) (F : facts) (PF : pfacts).

  Definition pstep (ps : pstate) (a : nat) : option pstate :=
    if bool_decide (a ∈ ps.(dead)) then None else
    ac ← ps.(pb).(actors) !! a;
    match ac.(stack) with
    | FTop (o :: os) :: _ =>
        s' ← step T F ps.(pb) a;
        let fl := default [] (ps.(pflags) !! a) in
        Some (ps <| pb := s' |> <| pan := ps.(pan) ++ [default false (head fl)] |> <| pflags := <[a := tail fl]> ps.(pflags) |>)
    | FSTlock :: _ =>
        let '(s1, d1) := reap PF ps.(pb) ps.(dead) in
        s' ← step T F s1 a;
        Some (ps <| pb := s' |> <| dead := d1 |>)
    | _ =>
        match pclos ac with
        | Some (q, o, rest, dies) =>
            if default false (ps.(pan) !! o) then
              let s1 := drop_job ps.(pb) (top_job ac) in
              let s2 := updq s1 q (fun x => x <| qs := Panicked |> <| owner := None |>) in
              Some (ps <| pb := setstack s2 a rest |> <| dead := if dies then a :: ps.(dead) else ps.(dead) |>)
            else (s' ← step T F ps.(pb) a; Some (ps <| pb := s' |>))
        | None => s' ← step T F ps.(pb) a; Some (ps <| pb := s' |>)
        end
    end.

  Definition prun (ps : pstate) (tr : list nat) : option pstate := foldl (fun o a => x ← o; pstep x a) (Some ps) tr.
  Definition pterminal (ps : pstate) : Prop := forall a, pstep ps a = None.
  Definition pterminal_b (ps : pstate) : bool :=
    forallb (fun a => match pstep ps a with None => true | Some _ => false end) (seq 0 (length ps.(pb).(actors))).
End Step.

(* scripts with a panic flag per operation *)
Definition pinit (nq mx : nat) (scripts : list (list (op * bool))) : pstate :=
  {| pb := init nq mx (map fst <$> scripts); pan := []; pflags := map snd <$> scripts; dead := [] |}.

Definition healthy (s : state) (q : nat) : Prop := forall qq, s.(queues) !! q = Some qq -> qq.(qs) <> Panicked.

(* an executable scheduler for examples: run actor a for up to n steps, for each (a, n) of the plan *)
Fixpoint prep (T : tables) (F : facts) (PF : pfacts) (ps : pstate) (a n : nat) : list nat * pstate :=
  match n with
  | 0 => ([], ps)
  | S n => match pstep T F PF ps a with Some ps' => let '(tr, r) := prep T F PF ps' a n in (a :: tr, r) | None => ([], ps) end
  end.
Fixpoint pdrive (T : tables) (F : facts) (PF : pfacts) (ps : pstate) (plan : list (nat * nat)) : list nat * pstate :=
  match plan with
  | [] => ([], ps)
  | (a, n) :: r => let '(t1, ps1) := prep T F PF ps a n in let '(t2, ps2) := pdrive T F PF ps1 r in (t1 ++ t2, ps2)
  end.
