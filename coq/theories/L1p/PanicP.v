(* The panic step (a closure panics: its queue becomes Panicked, the thread unwinds) preserves the liveness invariants. *)
From stdpp Require Import list numbers list_numbers option.
From RecordUpdate Require Import RecordUpdate.
From L1 Require Import Model Own Shape Stuck Live Wait Help Final Pool.
From L1p Require Import Model OwnP Absorb MainP ShapeP MaskP TouchP AllP.

Lemma mask_drop_job P s j : maskP P (drop_job s j) = drop_job (maskP P s) j.
Proof.
  destruct j as [[o|o c|o c]|]; cbn [drop_job]; try done.
  set (s1 := upda s c _). change (upda (maskP P s) c (fun x => x <| ready := true |>)) with (maskP P s1).
  change (actors (maskP P s1)) with (actors s1). destruct (actors s1 !! c) as [ac|]; [|done]. by destruct (stack ac) as [|[] ?].
Qed.
Lemma drop_job_updq s j q f : drop_job (updq s q f) j = updq (drop_job s j) q f.
Proof.
  destruct j as [[o|o c|o c]|]; cbn [drop_job]; try done.
  set (s1 := upda s c _). change (upda (updq s q f) c (fun x => x <| ready := true |>)) with (updq s1 q f).
  change (actors (updq s1 q f)) with (actors s1). destruct (actors s1 !! c) as [ac|]; [|done]. by destruct (stack ac) as [|[] ?].
Qed.
Lemma QInv_drop_job s j : QInv s -> QInv (drop_job s j).
Proof.
  intros HQ. destruct j as [[o|o c|o c]|]; cbn [drop_job]; try done.
  set (s1 := upda s c _). assert (H1 : QInv s1) by (apply (QInv_same s1 s); [by apply stacks_upda_same|done|done|done]).
  destruct (actors s1 !! c) as [ac|] eqn:Ec; [|done]. destruct (stack ac) as [|[] rest] eqn:Es; try done. by eapply QInv_wake.
Qed.
Lemma KInv_drop_job s j : Shape s -> KInv s -> KInv (drop_job s j).
Proof.
  intros HS HK. destruct j as [[o|o c|o c]|]; cbn [drop_job]; try done.
  set (s1 := upda s c _). assert (H1 : KInv s1 /\ Shape s1) by (subst s1; split; [by apply KInv_kick|by apply Shape_kick]).
  destruct H1 as [H1 HS1]. destruct (actors s1 !! c) as [ac|] eqn:Ec; [|done]. destruct (stack ac) as [|[] rest] eqn:Es; try done. by eapply KInv_wake.
Qed.
Lemma recvs_drop_job s j : recvs (drop_job s j) = recvs s.
Proof.
  destruct j as [[o|o c|o c]|]; cbn [drop_job]; try done.
  set (s1 := upda s c _). assert (H1 : recvs s1 = recvs s) by (by apply recvs_upda_same).
  destruct (actors s1 !! c) as [ac|] eqn:Ec; [|done]. destruct (stack ac) as [|[] rest] eqn:Es; try done. rewrite <- H1. by eapply recvs_wake.
Qed.

Definition pq (x : queue) : queue := x <| qs := Panicked |> <| owner := None |>.

(* the mask of the state after the panic step *)
Lemma mask_panic s j q qq a rest : s.(queues) !! q = Some qq ->
  mask (setstack (updq (drop_job s j) q pq) a rest) = setstack (updq (drop_job (mask s) j) q mq) a rest.
Proof.
  intros Hq. set (s' := setstack _ a rest). unfold mask.
  assert (Hqs : queues s' = alter pq q (queues s)) by (unfold s'; cbn; by rewrite drop_job_queues).
  assert (HP' : Pof s' q = true) by (unfold Pof; rewrite Hqs, list_lookup_alter, Hq; done).
  change (maskP (Pof s') (setstack (updq (drop_job s j) q pq) a rest) = setstack (updq (drop_job (maskP (Pof s) s) j) q mq) a rest).
  rewrite mask_setstack, mask_updq_in by exact HP'. rewrite mask_drop_job. f_equal. rewrite <- drop_job_updq. f_equal.
  unfold maskP, updq. cbn -[mqs].
  assert (E : mqs (Pof s') (queues s) = alter mq q (mqs (Pof s) (queues s))); [|by rewrite E].
  apply list_eq. intros i. rewrite mqs_lookup. destruct (decide (i = q)) as [->|Hne].
  - rewrite list_lookup_alter, mqs_lookup, HP', Hq. cbn. by destruct (Pof s q).
  - rewrite list_lookup_alter_ne, mqs_lookup by done. assert (Pof s' i = Pof s i) as -> by (unfold Pof; by rewrite Hqs, list_lookup_alter_ne). done.
Qed.

Section PanicStep.
  Lemma panic_linv s a ac q o rest dies qq : Shape s -> s.(actors) !! a = Some ac -> pclos ac = Some (q, o, rest, dies) ->
    s.(queues) !! q = Some qq -> LInv s -> LInv (setstack (updq (drop_job s (top_job ac)) q pq) a rest).
  Proof.
    intros HS Ea Hp Hq [HQ HKI].
    assert (HS0 : Shape (mask s)) by (by apply Shape_mask).
    pose proof (QInv_drop_job (mask s) (top_job ac) HQ) as HQ1. pose proof (KInv_drop_job (mask s) (top_job ac) HS0 HKI) as HK1.
    pose proof (drop_job_shape (mask s) (top_job ac) HS0) as HS1.
    assert (Hnw : forall q0 r, stack ac <> FSBwait q0 :: r).
    { intros q0 r E. destruct (pclos_stack ac q o rest dies Hp) as [(r0 & E1 & _)|[(j & g & E1 & _)|(j & t & E1 & _)]]; rewrite E1 in E; done. }
    destruct (drop_job_actor (mask s) (top_job ac) a ac Ea (stack ac) eq_refl Hnw) as (ac1 & Ea1 & Est1).
    assert (Hwit : wit (stack ac1) = None /\ is_htop (stack ac1) = false).
    { rewrite Est1. destruct (pclos_stack ac q o rest dies Hp) as [(r0 & E1 & _)|[(j & g & E1 & _)|(j & t & E1 & _)]]; by rewrite E1. }
    pose proof (mask_panic s (top_job ac) q qq a rest Hq) as Em.
    revert Em HQ1 HK1 HS1 Ea1. generalize (drop_job (mask s) (top_job ac)). intros sM Em HQ1 HK1 HS1 Ea1.
    split; rewrite Em.
    - eapply (QInv_update sM _ a ac1 q mq rest HQ1 Ea1); [ob_stacks|obs_q2|ob_sched_same| |].
      + intros f Hh Hf. destruct Hwit as [Hw _]. destruct (stack ac1) as [|[] ?]; cbn in *; try done; injection Hh as <-; done.
      + intros qq0 _ _. split; cbn; [by left|done|done].
    - pose proof (kind_of sM a ac1 HS1 Ea1) as Hkind.
      eapply (K_update sM _ a ac1 rest HK1 Ea1); [ob_stacks|ob_len| | |].
      + eapply (takeable_mono sM _ q mq); [ob_sched_sub|obs_q2|done].
      + intros _. destruct Hkind as [[Hlt _]|(t0 & -> & Hok)].
        * eapply (live_mono_caller sM _ a ac1); [exact Ea1|exact Hlt|ob_stacks|ob_nc|ob_threads_same].
        * eapply (live_mono_pool sM _ t0 ac1 rest); [exact Ea1|ob_stacks|ob_nc| |ob_threads_same].
          destruct (pclos_stack ac q o rest dies Hp) as [(r0 & E1 & _)|[(j & g & E1 & _)|(j & t & E1 & -> & _)]]; [| |done];
            rewrite Est1, E1 in Hok; cbn in Hok; try discriminate Hok.
      + intros Hh. destruct Hwit as [_ Hw]. congruence.
  Qed.
End PanicStep.
