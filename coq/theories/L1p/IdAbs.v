(* L1p: the ids of the abstract history machine (L1h/Abs.v): where an operation id can be - in ran, in the pending jobs of a
   queue (the owner's hand, then the stored jobs), or with a caller that has called and not yet pushed.  Every step of the abstract
   machine moves ids between these places, adds the fresh id of a call, or drops an id (try_sync Busy, a call that panics). *)
From stdpp Require Import list numbers option.
From RecordUpdate Require Import RecordUpdate.
From L1 Require Import Model Own Shape Stuck.
From L1h Require Import WeakWF Hist Abs SimBase Sim HistFacts AInv.

Definition pre_id (x : aactor) : option nat := match ph x with PPre _ _ => Some (aop x) | _ => None end.
Definition sumq (f : nat -> list nat) (n : nat) : list nat := concat (f <$> seq 0 n).
Definition pids (v : aview) (q : nat) : list nat := job_id <$> v_pend v q.
Definition Mv (v : aview) (n : nat) : list nat := v_ran v ++ sumq (pids v) n ++ omap pre_id (v_acts v).

Lemma sumq_S f n : sumq f (S n) = sumq f n ++ f n.
Proof. unfold sumq. rewrite seq_S, fmap_app, concat_app. cbn. by rewrite app_nil_r. Qed.
Lemma sumq_ext f g n : (forall q, q < n -> f q = g q) -> sumq f n = sumq g n.
Proof. induction n as [|n IH]; intros H; [done|]. rewrite !sumq_S, IH by (intros; apply H; lia). by rewrite H by lia. Qed.
Lemma sumq_upd f g q n : q < n -> (forall q0, q0 <> q -> g q0 = f q0) ->
  exists R, sumq f n ≡ₚ f q ++ R /\ sumq g n ≡ₚ g q ++ R.
Proof.
  intros Hq Hfg. induction n as [|n IH]; [lia|]. rewrite !sumq_S. destruct (decide (q = n)) as [->|Hne].
  - exists (sumq f n). rewrite (sumq_ext g f n) by (intros; apply Hfg; lia). split; apply Permutation_app_comm.
  - destruct IH as (R & H1 & H2); [lia|]. exists (R ++ f n). rewrite (Hfg n) by done. rewrite H1, H2, !(assoc_L (++)). done.
Qed.
Lemma sumq_elem f n q x : q < n -> x ∈ f q -> x ∈ sumq f n.
Proof.
  intros Hq Hx. induction n as [|n IH]; [lia|]. rewrite sumq_S. apply elem_of_app. destruct (decide (q = n)) as [->|]; [by right|left; apply IH; lia].
Qed.

Lemma omap_alter_same {A B} (p : A -> option B) g a (l : list A) : (forall x, l !! a = Some x -> p (g x) = p x) -> omap p (alter g a l) = omap p l.
Proof.
  revert a. induction l as [|y l IH]; intros [|a] H; cbn; try done.
  - by rewrite (H y eq_refl).
  - by rewrite IH.
Qed.
Lemma omap_alter_drop {A B} (p : A -> option B) g a (l : list A) x i : l !! a = Some x -> p x = Some i -> p (g x) = None ->
  omap p l ≡ₚ i :: omap p (alter g a l).
Proof.
  revert a. induction l as [|y l IH]; intros [|a] Ha Hp Hg; cbn in *; try done.
  - injection Ha as ->. by rewrite Hp, Hg.
  - destruct (p y); [|by apply IH]. rewrite (IH a Ha Hp Hg). apply perm_swap.
Qed.
Lemma omap_insert_add {A B} (p : A -> option B) a (l : list A) x y i : l !! a = Some x -> p x = None -> p y = Some i ->
  omap p (<[a:=y]> l) ≡ₚ i :: omap p l.
Proof.
  revert a. induction l as [|z l IH]; intros [|a] Ha Hp Hy; cbn in *; try done.
  - injection Ha as ->. by rewrite Hp, Hy.
  - destruct (p z); [|by apply IH]. rewrite (IH a Ha Hp Hy). apply perm_swap.
Qed.

Lemma Mv_veq w v n : veq w v -> Mv w n = Mv v n.
Proof. intros (E1 & E2 & E3 & _). unfold Mv. rewrite E1, E3. f_equal. f_equal. apply sumq_ext. intros q _. unfold pids. by rewrite E2. Qed.

(* one queue's pending jobs change *)
Lemma Mv_pend v q (P' : list job) A' r' n :
  let w := {| v_acts := A'; v_pend := fupd q P' (v_pend v); v_ran := r'; v_next := v_next v |} in
  q < n -> exists R, sumq (pids v) n ≡ₚ (job_id <$> v_pend v q) ++ R /\ sumq (pids w) n ≡ₚ (job_id <$> P') ++ R.
Proof.
  intros w Hq. destruct (sumq_upd (pids v) (pids w) q n Hq) as (R & H1 & H2).
  { intros q0 Hne. unfold pids, w, fupd; cbn. by rewrite decide_False. }
  exists R. split; [done|]. rewrite H2. unfold pids, w, fupd; cbn. by rewrite decide_True.
Qed.
Lemma Mv_pend_out v q (P' : list job) A' r' n :
  let w := {| v_acts := A'; v_pend := fupd q P' (v_pend v); v_ran := r'; v_next := v_next v |} in
  n <= q -> sumq (pids w) n = sumq (pids v) n.
Proof. intros w Hq. apply sumq_ext. intros q0 Hq0. unfold pids, w, fupd; cbn. rewrite decide_False by lia. done. Qed.

Ltac perm := apply (anti_symm submseteq); solve_submseteq.

Lemma pre_id_set_ph p x : pre_id (set_ph p x) = match p with PPre _ _ => Some (aop x) | _ => None end.
Proof. unfold pre_id, set_ph. cbn. by destruct p. Qed.

Lemma astep_ids v a evs w n : (forall q, n <= q -> v_pend v q = []) -> astep v a evs w ->
  exists fresh lost, fresh ++ Mv v n ≡ₚ Mv w n ++ lost /\
    ((fresh = [] /\ v_next w = v_next v) \/ (fresh = [v_next v] /\ v_next w = S (v_next v))) /\
    (forall i, evs = [RetPanic i] \/ evs = [RetBusy i] -> lost = [i] /\ fresh = []) /\
    (forall i q, Run i q ∈ evs -> q < n).
Proof.
  intros Hsup Hst.
  destruct Hst as [w Hv|w Hv|w x k q Ha Hp Hv|w x q d Ha Hp Hv|w x k q Ha Hp Hk Hpe Hv|w x q j Ha Hp Hj Hv|w x q js Ha Hp Hpe Hv
                  |w q j js Hpe Hv|w x q Ha Hp Hfl Hv|w x Ha Hp Hv|w x q Ha Hp Hv|w x k q Ha Hp Hv];
    (assert (Hnx := proj2 (proj2 (proj2 Hv))); cbn in Hnx; rewrite (Mv_veq _ _ n Hv); clear Hv).
  - (* stutter *) exists [], []. split; [by rewrite app_nil_r|]. split; [left; by split|]. split; [intros i [?|?]; done|]. intros i q Hin. by apply elem_of_nil in Hin.
  - (* spawn *) exists [], []. split.
    + unfold Mv; cbn. rewrite omap_app. cbn. rewrite !app_nil_r. done.
    + split; [left; by split|]. split; [intros i [?|?]; done|]. intros i q Hin. by apply elem_of_nil in Hin.
  - (* call *) exists [v_next v], []. split.
    + unfold Mv; cbn. rewrite (omap_insert_add pre_id a (v_acts v) x _ (v_next v) Ha); [| by unfold pre_id; rewrite Hp | done].
      change (sumq (pids {| v_acts := _; v_pend := v_pend v; v_ran := v_ran v; v_next := S (v_next v) |}) n) with (sumq (pids v) n). perm.
    + split; [right; by split|]. split; [intros i [?|?]; done|]. intros i q0 Hin. apply elem_of_list_singleton in Hin. done.
  - (* desync push *)
    assert (Hdrop : omap pre_id (v_acts v) ≡ₚ aop x :: omap pre_id (alter (set_ph (dend_ph d)) a (v_acts v))).
    { apply (omap_alter_drop pre_id _ a _ x); [done|by unfold pre_id; rewrite Hp|rewrite pre_id_set_ph; by destruct d]. }
    destruct (decide (q < n)) as [Hq|Hq].
    + destruct (Mv_pend v q (v_pend v q ++ [JPlain (aop x)]) (alter (set_ph (dend_ph d)) a (v_acts v)) (v_ran v) n Hq) as (R & H1 & H2).
      exists [], []. split.
      * unfold Mv; cbn [v_ran v_acts]. rewrite H2, H1, Hdrop, fmap_app. cbn. perm.
      * split; [left; by split|]. split; [intros i [?|?]; by destruct d|]. intros i q0 Hin. apply elem_of_cons in Hin as [?|Hin]; [done|]. destruct d; cbn in Hin; repeat (apply elem_of_cons in Hin as [?|Hin]; [done|]); by apply elem_of_nil in Hin.
    + exists [], [aop x]. split.
      * unfold Mv; cbn [v_ran v_acts]. rewrite (Mv_pend_out v q _ _ _ n) by lia. rewrite Hdrop. perm.
      * split; [left; by split|]. split; [intros i [?|?]; by destruct d|]. intros i q0 Hin. apply elem_of_cons in Hin as [?|Hin]; [done|]. destruct d; cbn in Hin; repeat (apply elem_of_cons in Hin as [?|Hin]; [done|]); by apply elem_of_nil in Hin.
  - (* immediate *)
    assert (Hdrop : omap pre_id (v_acts v) ≡ₚ aop x :: omap pre_id (alter (set_ph (PHand q)) a (v_acts v))).
    { apply (omap_alter_drop pre_id _ a _ x); [done|by unfold pre_id; rewrite Hp|by rewrite pre_id_set_ph]. }
    destruct (decide (q < n)) as [Hq|Hq].
    + destruct (Mv_pend v q [JPlain (aop x)] (alter (set_ph (PHand q)) a (v_acts v)) (v_ran v) n Hq) as (R & H1 & H2).
      exists [], []. split.
      * unfold Mv; cbn [v_ran v_acts]. rewrite H2, H1, Hdrop, Hpe. cbn. perm.
      * split; [left; by split|]. split; [intros i [?|?]; done|]. intros i q0 Hin. apply elem_of_list_singleton in Hin. done.
    + exists [], [aop x]. split.
      * unfold Mv; cbn [v_ran v_acts]. rewrite (Mv_pend_out v q _ _ _ n) by lia. rewrite Hdrop. perm.
      * split; [left; by split|]. split; [intros i [?|?]; done|]. intros i q0 Hin. apply elem_of_list_singleton in Hin. done.
  - (* sync push *)
    assert (Hdrop : omap pre_id (v_acts v) ≡ₚ aop x :: omap pre_id (alter (set_ph (PWait q)) a (v_acts v))).
    { apply (omap_alter_drop pre_id _ a _ x); [done|by unfold pre_id; rewrite Hp|by rewrite pre_id_set_ph]. }
    assert (Hjid : job_id j = aop x) by (by destruct Hj as [-> | ->]).
    destruct (decide (q < n)) as [Hq|Hq].
    + destruct (Mv_pend v q (v_pend v q ++ [j]) (alter (set_ph (PWait q)) a (v_acts v)) (v_ran v) n Hq) as (R & H1 & H2).
      exists [], []. split.
      * unfold Mv; cbn [v_ran v_acts]. rewrite H2, H1, Hdrop, fmap_app. cbn. rewrite Hjid. perm.
      * split; [left; by split|]. split; [intros i [?|?]; done|]. intros i q0 Hin. apply elem_of_list_singleton in Hin. done.
    + exists [], [aop x]. split.
      * unfold Mv; cbn [v_ran v_acts]. rewrite (Mv_pend_out v q _ _ _ n) by lia. rewrite Hdrop. perm.
      * split; [left; by split|]. split; [intros i [?|?]; done|]. intros i q0 Hin. apply elem_of_list_singleton in Hin. done.
  - (* the immediate closure runs *)
    assert (Hq : q < n). { destruct (decide (q < n)); [done|]. rewrite Hsup in Hpe by lia. done. }
    destruct (Mv_pend v q js (alter (set_ph PPost) a (v_acts v)) (aop x :: v_ran v) n Hq) as (R & H1 & H2).
    exists [], []. split.
    + unfold Mv; cbn [v_ran v_acts]. rewrite H2, H1, Hpe. rewrite (omap_alter_same pre_id) by (intros y Hy; rewrite Ha in Hy; injection Hy as <-; rewrite pre_id_set_ph; unfold pre_id; by rewrite Hp). cbn. perm.
    + split; [left; by split|]. split; [intros i [?|?]; done|]. intros i q0 Hin. apply elem_of_list_singleton in Hin. by injection Hin as _ ->.
  - (* a job runs *)
    assert (Hq : q < n). { destruct (decide (q < n)); [done|]. rewrite Hsup in Hpe by lia. done. }
    destruct (Mv_pend v q js (arun_acts j (v_acts v)) (job_id j :: v_ran v) n Hq) as (R & H1 & H2).
    exists [], []. split.
    + unfold Mv; cbn [v_ran v_acts]. rewrite H2, H1, Hpe.
      assert (Ho : omap pre_id (arun_acts j (v_acts v)) = omap pre_id (v_acts v)).
      { destruct j as [o|o c|o c]; cbn; [done| |]; apply omap_alter_same; intros y _; done. }
      rewrite Ho. cbn. perm.
    + split; [left; by split|]. split; [intros i [?|?]; done|]. intros i q0 Hin. apply elem_of_list_singleton in Hin. by injection Hin as _ ->.
  - (* done *) exists [], []. split.
    + unfold Mv; cbn. rewrite (omap_alter_same pre_id) by (intros y Hy; rewrite Ha in Hy; injection Hy as <-; rewrite pre_id_set_ph; unfold pre_id; by rewrite Hp).
      by rewrite app_nil_r.
    + split; [left; by split|]. split; [intros i [?|?]; done|]. intros i q0 Hin. by apply elem_of_nil in Hin.
  - (* ret *) exists [], []. split.
    + unfold Mv; cbn. rewrite (omap_alter_same pre_id) by (intros y Hy; rewrite Ha in Hy; injection Hy as <-; rewrite pre_id_set_ph; unfold pre_id; by rewrite Hp).
      by rewrite app_nil_r.
    + split; [left; by split|]. split; [intros i [?|?]; done|]. intros i q0 Hin. apply elem_of_list_singleton in Hin. done.
  - (* busy *) exists [], [aop x]. split.
    + unfold Mv; cbn. rewrite (omap_alter_drop pre_id (set_ph PIdle) a (v_acts v) x (aop x) Ha); [|by unfold pre_id; rewrite Hp|by rewrite pre_id_set_ph]. perm.
    + split; [left; by split|]. split; [intros i [[= <-]|[= <-]]; done|]. intros i q0 Hin. apply elem_of_list_singleton in Hin. done.
  - (* panic *) exists [], [aop x]. split.
    + unfold Mv; cbn. rewrite (omap_alter_drop pre_id (set_ph PIdle) a (v_acts v) x (aop x) Ha); [|by unfold pre_id; rewrite Hp|by rewrite pre_id_set_ph]. perm.
    + split; [left; by split|]. split; [intros i [[= <-]|[= <-]]; done|]. intros i q0 Hin. apply elem_of_list_singleton in Hin. done.
Qed.

(* a queue on which nothing runs keeps its pending jobs *)
Lemma astep_pend_keep v a evs w q : astep v a evs w -> (forall i, Run i q ∉ evs) -> forall j, j ∈ v_pend v q -> j ∈ v_pend w q.
Proof.
  intros Hst Hno j Hj.
  destruct Hst as [w Hv|w Hv|w x k q' Ha Hp Hv|w x q' d Ha Hp Hv|w x k q' Ha Hp Hk Hpe Hv|w x q' j' Ha Hp Hj' Hv|w x q' js Ha Hp Hpe Hv
                  |w q' j' js Hpe Hv|w x q' Ha Hp Hfl Hv|w x Ha Hp Hv|w x q' Ha Hp Hv|w x k q' Ha Hp Hv];
    destruct Hv as (_ & -> & _ & _); cbn [v_pend]; try done.
  all: unfold fupd; case_decide as Hq; [subst q'|done].
  - apply elem_of_app. by left.
  - rewrite Hpe in Hj. by apply elem_of_nil in Hj.
  - apply elem_of_app. by left.
  - exfalso. apply (Hno (aop x)). by left.
  - exfalso. apply (Hno (job_id j')). by left.
Qed.
