(* JInv (where is the job of a thread inside sync_background?) through the panic step and the reap pass, along runs with panics;
   and: in a reachable terminal state without dead threads, a caller left in the condition-variable wait waits on a Panicked queue. *)
From stdpp Require Import list numbers list_numbers option.
From RecordUpdate Require Import RecordUpdate.
From L1 Require Import Model Own Shape Stuck Live Wait Help Final Pool.
From L1h Require Import WeakWF.
From L1p Require Import Model OwnP Absorb MainP DeadP ShapeP QuietP MaskP TouchP AllP PanicP ReapP QuietAll.

Lemma drop_run_view F s j :
  stacks (drop_job s (Some j)) = stacks (run_job F s j) /\ readys (drop_job s (Some j)) = readys (run_job F s j) /\
  queues (drop_job s (Some j)) = queues (run_job F s j).
Proof.
  destruct j as [o|o c|o c]; cbn [drop_job run_job].
  - done.
  - split; [by rewrite stacks_upda_same|]. split; [by rewrite readys_upda_same|done].
  - set (s1 := upda s c _). set (s2 := upda (s <| ran := _ |>) c _).
    assert (H1 : stacks s1 = stacks s2) by (subst s1 s2; rewrite !stacks_upda_same by done; reflexivity).
    assert (H2 : readys s1 = readys s2).
    { subst s1 s2. unfold readys, upda; cbn. apply list_eq; intros i; rewrite !list_lookup_fmap.
      destruct (decide (c = i)) as [->|]; [rewrite !list_lookup_alter|rewrite !list_lookup_alter_ne by done; done]. by destruct (actors s !! i). }
    assert (H4 : stack <$> actors s1 !! c = stack <$> actors s2 !! c) by (rewrite <- !stacks_lookup; by rewrite H1).
    destruct (actors s1 !! c) as [a1|], (actors s2 !! c) as [a2|]; cbn in H4; try done. injection H4 as H4. rewrite <- H4.
    destruct (stack a1) as [|[] r]; try done. rewrite !stacks_setstack, !readys_setstack, H1. done.
Qed.

Lemma panic_j (F : facts) s a ac q o rest dies : Shape s -> s.(actors) !! a = Some ac -> pclos ac = Some (q, o, rest, dies) ->
  JInv s -> JInv (setstack (updq (drop_job s (top_job ac)) q pq) a rest).
Proof.
  intros HS Ea Hp HJ. pose proof (kind_of s a ac HS Ea) as Hkind.
  assert (Hrest : wp_q rest = None /\ (forall q0, hd_error rest <> Some (FSBwait q0)) /\ (forall j0, ~ run_top rest j0)).
  { destruct (pclos_stack ac q o rest dies Hp) as [(r0 & E1 & _)|[(j & g & E1 & _)|(j & t & E1 & -> & _)]]; rewrite E1 in *.
    - destruct Hkind as [[_ Hok]|(t0 & _ & Hok)]; [|done]. apply caller_ok_inv in Hok as [(-> & _)|[(os & -> & _)|(g & os & -> & Hpo)]]; [| |done];
        (split; [done|]; split; [done|]; intros j0 (q' & [H|H]); done).
    - destruct Hkind as [[_ Hok]|(t0 & _ & Hok)]; [|done]. apply caller_ok_inv in Hok as [(E & _)|[(os & E & _)|(g' & os & E & _)]]; simplify_eq;
        (split; [done|]; split; [done|]; intros j0 (q' & [H|H]); done).
    - split; [done|]; split; [done|]; intros j0 (q' & [H|H]); done. }
  destruct Hrest as (R1 & R2 & R3).
  destruct (top_job ac) as [j|] eqn:Htj.
  - (* a job frame: compare with the run of the job *)
    assert (Hrun : run_top (stack ac) j).
    { unfold top_job in Htj. destruct (stack ac) as [|[] ?]; try done; injection Htj as ->; eexists; [left|right]; reflexivity. }
    pose proof (JInv_run F s a ac j rest HJ Ea Hrun (or_introl R1) R2) as HY.
    destruct (drop_run_view F s j) as (V1 & V2 & V3).
    set (Y := setstack (run_job F s j) a rest) in *.
    assert (EaY : exists acY, actors Y !! a = Some acY /\ stack acY = rest).
    { unfold Y. rewrite actors_setstack_lookup, decide_True by done.
      assert (Hl : is_Some (actors (run_job F s j) !! a)) by (apply lookup_lt_is_Some_2; rewrite run_job_len; by eapply lookup_lt_Some).
      destruct Hl as [x Hx]. rewrite Hx. cbn. eauto. }
    destruct EaY as (acY & EaY & EstY).
    eapply (JInv_update Y _ a acY rest HY EaY).
    + rewrite stacks_setstack. unfold Y. rewrite stacks_setstack, list_insert_insert. f_equal. exact V1.
    + rewrite readys_setstack. unfold Y. rewrite readys_setstack. exact V2.
    + intros q0 qq0 o0 w0 H1 H2. unfold Y in H1. rewrite queues_setstack, <- V3 in H1.
      rewrite queues_setstack, queues_updq. case_decide as Hq; [subst q0; rewrite H1; cbn; eexists; split; [reflexivity|exact H2]|eauto].
    + intros o0 w0. rewrite EstY. apply R3.
    + right. by rewrite EstY.
    + intros q0 Hh. by destruct (R2 q0).
  - (* sync_immediate: no job *)
    cbn [drop_job]. eapply (JInv_update s _ a ac rest HJ Ea); [ob_stacks|by rewrite readys_setstack| | |by left|intros q0 Hh; by destruct (R2 q0)].
    + intros q0 qq0 o0 w0 H1 H2. rewrite queues_setstack, queues_updq. case_decide as Hq; [subst q0; rewrite H1; cbn; eexists; split; [reflexivity|exact H2]|eauto].
    + intros o0 w0 (q' & [H|H]); unfold top_job in Htj; destruct (stack ac) as [|[] ?]; done.
Qed.

Section ReapJ.
  Context (PF : pfacts).
  Lemma reap_one_j s a s1 ac t0 : Shape s -> s.(actors) !! a = Some ac -> ac.(stack) = [FTlock t0] -> reap_one PF s a = Some s1 -> JInv s -> JInv s1.
  Proof.
    intros HS Ea Est Hr HJ. destruct (reap_one_form PF s a s1 ac t0 HS Ea Est Hr) as (t & th & Et & Ha & ->).
    eapply (JInv_update s _ a ac [FTrecv t] HJ Ea); [ob_stacks|by rewrite readys_setstack|eauto| |by left|done].
    intros o0 w0 (q' & [H|H]); rewrite Est in H; done.
  Qed.
  Lemma reap_j ds : forall s, Shape s -> WF' s -> NoDup ds ->
    (forall a, a ∈ ds -> exists ac t, s.(actors) !! a = Some ac /\ ac.(stack) = [FTlock t]) -> JInv s -> JInv (reap PF s ds).1.
  Proof.
    induction ds as [|a r IH]; intros s HS HW Hnd Hd HJ; cbn [reap]; [done|].
    apply list.NoDup_cons in Hnd as [Har Hnd].
    destruct (reap_one PF s a) as [s1|] eqn:E1.
    - destruct (Hd a) as (ac & t0 & Ea & Est); [by left|]. destruct (reap_one_shape PF s a s1 ac t0 HS HW Ea Est E1) as [HS1 HW1].
      pose proof (reap_one_j s a s1 ac t0 HS Ea Est E1 HJ) as HJ1. apply IH; try done.
      intros b Hb. rewrite (reap_one_actors PF s a s1 b E1) by (intros ->; done). apply Hd. by right.
    - specialize (IH s HS HW Hnd). destruct (reap PF s r) as [s' r']. apply IH; [|done]. intros b Hb. apply Hd. by right.
  Qed.
End ReapJ.

Section JAssemble.
  Context (T : tables) (F : facts) (PF : pfacts).

  Lemma jinv_step ps a ps' : SInv ps -> JInv ps.(pb) -> pstep T F PF ps a = Some ps' -> JInv ps'.(pb).
  Proof.
    intros HSI HJ Hs. pose proof HSI as [HPI HD HS HW']. destruct HPI as (HI & Hdk & Hnd).
    unfold pstep in Hs. case_bool_decide as Hdead; [done|].
    destruct (actors (pb ps) !! a) as [ac|] eqn:Ea; [|done]. cbn in Hs.
    assert (Hgen : match pclos ac with
              | Some (q0, o, rest, dies) =>
                  if default false (pan ps !! o) then
                    Some (ps <| pb := setstack (updq (drop_job (pb ps) (top_job ac)) q0 (fun x => x <| qs := Panicked |> <| owner := None |>)) a rest |>
                             <| dead := if dies then a :: dead ps else dead ps |>)
                  else s' ← step T F (pb ps) a; Some (ps <| pb := s' |>)
              | None => s' ← step T F (pb ps) a; Some (ps <| pb := s' |>)
              end = Some ps' -> JInv ps'.(pb)).
    { destruct (pclos ac) as [[[[q0 o] rest] dies]|] eqn:Hp;
        [ destruct (default false (pan ps !! o));
          [ intros [= <-]; cbn; by eapply (panic_j F (pb ps) a ac q0 o rest dies)
          | destruct (step T F (pb ps) a) as [s'|] eqn:E; [|done]; cbn; intros [= <-]; cbn; by eapply step_j ]
        | destruct (step T F (pb ps) a) as [s'|] eqn:E; [|done]; cbn; intros [= <-]; cbn; by eapply step_j ]. }
    destruct (stack ac) as [|fr rest] eqn:Est; [by apply Hgen|].
    destruct fr; try (by apply Hgen).
    - destruct script as [|o os]; [by apply Hgen|].
      destruct (step T F (pb ps) a) as [s'|] eqn:E; [|done]. cbn in Hs. injection Hs as <-. cbn. by eapply step_j.
    - destruct (reap_shape PF (dead ps) (pb ps) HS HW' Hnd HD) as [G1 G2].
      pose proof (reap_j PF (dead ps) (pb ps) HS HW' Hnd HD HJ) as G3.
      destruct (reap PF (pb ps) (dead ps)) as [s1 d1]. cbn [fst] in *.
      destruct (step T F s1 a) as [s'|] eqn:E; [|done]. cbn in Hs. injection Hs as <-. cbn. by eapply step_j.
  Qed.

  Context (HT : own_conditions T).
  Lemma jinv_run tr : forall ps ps', SInv ps -> JInv ps.(pb) -> prun T F PF ps tr = Some ps' -> JInv ps'.(pb).
  Proof.
    induction tr as [|a tr IH]; intros ps ps' H0 HJ Hr; [unfold prun in Hr; cbn in Hr; by injection Hr as <-|].
    rewrite prun_cons in Hr. destruct (pstep T F PF ps a) as [ps1|] eqn:E; [|done]. cbn in Hr.
    eapply (IH ps1); [by eapply (sinv_step T F PF HT)|by eapply jinv_step|exact Hr].
  Qed.
End JAssemble.

Section TerminalJ.
  Context (T : tables) (F : facts) (PF : pfacts).

  Theorem waiters_on_panicked ps : AllP ps -> JInv ps.(pb) -> pterminal T F PF ps -> ps.(dead) = [] ->
    forall w ac q rest, ps.(pb).(actors) !! w = Some ac -> ac.(stack) = FSBwait q :: rest -> panicked ps.(pb) q.
  Proof.
    intros HA HJ Hterm Hdead w ac q rest Ew Est.
    destruct (quiescent_reaped T F PF ps HA Hterm Hdead) as (C1 & _ & C3).
    destruct (HJ w ac Ew) as [J1 J2].
    assert (Hr : ready ac = false) by (apply (J2 q); by rewrite Est).
    destruct (J1 q) as [(qq & o & G1 & G2)|(b & st & o & G1 & (q' & G2))]; [by rewrite Est|done| |].
    - exists qq. split; [done|]. destruct (qs qq) eqn:E; try done; exfalso;
        (destruct (C1 q qq G1) as [_ Hj]; [by rewrite E|]; rewrite Hj in G2; by apply elem_of_nil in G2).
    - exfalso. rewrite stacks_lookup in G1. destruct (actors (pb ps) !! b) as [ab|] eqn:Eb; [|done]. injection G1 as <-.
      pose proof (C3 b ab Eb) as Hsk. destruct (stack ab) as [|fr r]; [by destruct G2|].
      pose proof (stuck_hd _ _ fr Hsk eq_refl) as Hf. destruct G2 as [G2|G2]; injection G2 as ->; done.
  Qed.
End TerminalJ.
