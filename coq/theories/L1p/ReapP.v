(* PoolInv through the panic step; QInv of the masked state and PoolInv through the reap pass. *)
From stdpp Require Import list numbers list_numbers option.
From RecordUpdate Require Import RecordUpdate.
From L1 Require Import Model Own Shape Stuck Live Wait Help Final Pool.
From L1h Require Import WeakWF.
From L1p Require Import Model OwnP Absorb MainP DeadP ShapeP MaskP TouchP AllP PanicP.

Lemma drop_job_threads' s j : (drop_job s j).(threads) = s.(threads).
Proof.
  destruct j as [[o|o c|o c]|]; cbn [drop_job]; try done.
  set (s1 := upda s c _). destruct (actors s1 !! c) as [ac|]; [|done]. by destruct (stack ac) as [|[] rest].
Qed.

Lemma panic_pool s a ac q o rest dies : Shape s -> s.(actors) !! a = Some ac -> pclos ac = Some (q, o, rest, dies) ->
  PoolInv s -> PoolInv (setstack (updq (drop_job s (top_job ac)) q pq) a rest).
Proof.
  intros HS Ea Hp HP.
  assert (Hnw : forall q0 r, stack ac <> FSBwait q0 :: r).
  { intros q0 r E. destruct (pclos_stack ac q o rest dies Hp) as [(r0 & E1 & _)|[(j & g & E1 & _)|(j & t & E1 & _)]]; rewrite E1 in E; done. }
  destruct (drop_job_actor s (top_job ac) a ac Ea (stack ac) eq_refl Hnw) as (ac1 & Ea1 & Est1).
  assert (Hrec : is_recv rest = is_recv (stack ac1)).
  { rewrite Est1. pose proof (kind_of s a ac HS Ea) as Hkind.
    destruct (pclos_stack ac q o rest dies Hp) as [(r0 & E1 & _)|[(j & g & E1 & _)|(j & t & E1 & -> & _)]]; rewrite E1 in *; [| |done].
    - destruct Hkind as [[_ Hok]|(t0 & _ & Hok)]; [|done]. apply caller_ok_inv in Hok as [(-> & _)|[(os & -> & _)|(g & os & -> & _)]]; try done; by destruct g.
    - destruct Hkind as [[_ Hok]|(t0 & _ & Hok)]; [|done]. apply caller_ok_inv in Hok as [(E & _)|[(os & E & _)|(g' & os & E & _)]]; simplify_eq; done. }
  unfold PoolInv. eapply (PoolInv_view2 _ s); [| |exact HP].
  - etrans; [|apply (recvs_drop_job s (top_job ac))]. eapply (recvs_update (updq (drop_job s (top_job ac)) q pq) _ a ac1 rest); [exact Ea1|ob_stacks|exact Hrec].
  - unfold bc. cbn. by rewrite drop_job_threads'.
Qed.

Section ReapInv.
  Context (PF : pfacts).

  Lemma reap_one_form s a s1 ac t0 : Shape s -> s.(actors) !! a = Some ac -> ac.(stack) = [FTlock t0] -> reap_one PF s a = Some s1 ->
    exists t th, s.(threads) !! t = Some th /\ a = ncallers s + t /\
      s1 = setstack (updt s t (fun x => x <| busy := false |> <| held := false |> <| chan := 0 |>)) a [FTrecv t].
  Proof.
    intros HS Ea Est Hr. unfold reap_one in Hr. destruct (pool_thread_of s a) as [t|] eqn:Ept; [|done]. cbn in Hr.
    destruct (pool_thread_of_spec s a t Ept) as (th & Et & Hta). rewrite Et in Hr. cbn in Hr. destruct (_ || _); [|done]. injection Hr as <-.
    exists t, th. split; [done|]. split; [|done]. rewrite <- Hta. by apply (sh_tactor s HS).
  Qed.

  Lemma reap_one_q s a s1 ac t0 : Shape s -> s.(actors) !! a = Some ac -> ac.(stack) = [FTlock t0] -> reap_one PF s a = Some s1 ->
    QInv (mask s) -> QInv (mask s1).
  Proof.
    intros HS Ea Est Hr HQ. destruct (reap_one_form s a s1 ac t0 HS Ea Est Hr) as (t & th & Et & Ha & ->).
    unfold mask. rewrite (Pof_queues _ s) by done. rewrite mask_setstack, mask_updt.
    eapply (QInv_noq (maskP (Pof s) s) _ a ac _ HQ Ea); [ob_stacks|done|ob_sched_same|by rewrite Est].
  Qed.

  Lemma reap_one_pool s a s1 ac t0 : Shape s -> s.(actors) !! a = Some ac -> ac.(stack) = [FTlock t0] -> reap_one PF s a = Some s1 ->
    PoolInv s -> PoolInv s1.
  Proof.
    intros HS Ea Est Hr HP. destruct (reap_one_form s a s1 ac t0 HS Ea Est Hr) as (t & th & Et & Ha & ->).
    intros t' th' st' Ht' Hs'. rewrite ncallers_setstack, ncallers_updt in Hs'. rewrite stacks_setstack_lookup in Hs'.
    rewrite threads_setstack, threads_updt_lookup in Ht'. subst a. destruct (decide (t = t')) as [<-|Hne].
    - try rewrite decide_True in Ht' by done. rewrite decide_True in Hs' by done. rewrite Et in Ht'. cbn in Ht'. injection Ht' as <-.
      destruct (stacks _ !! _); [|done]. cbn in Hs'. injection Hs' as <-. done.
    - try rewrite decide_False in Ht' by done. rewrite decide_False in Hs' by lia. by apply (HP t' th' st').
  Qed.

  Lemma reap_qp ds : forall s, Shape s -> WF' s -> NoDup ds ->
    (forall a, a ∈ ds -> exists ac t, s.(actors) !! a = Some ac /\ ac.(stack) = [FTlock t]) ->
    QInv (mask s) -> PoolInv s -> QInv (mask (reap PF s ds).1) /\ PoolInv (reap PF s ds).1.
  Proof.
    induction ds as [|a r IH]; intros s HS HW Hnd Hd HQ HP; cbn [reap]; [done|].
    apply list.NoDup_cons in Hnd as [Har Hnd].
    destruct (reap_one PF s a) as [s1|] eqn:E1.
    - destruct (Hd a) as (ac & t0 & Ea & Est); [by left|]. destruct (reap_one_shape PF s a s1 ac t0 HS HW Ea Est E1) as [HS1 HW1].
      pose proof (reap_one_q s a s1 ac t0 HS Ea Est E1 HQ) as HQ1. pose proof (reap_one_pool s a s1 ac t0 HS Ea Est E1 HP) as HP1.
      apply IH; try done.
      intros b Hb. rewrite (reap_one_actors PF s a s1 b E1) by (intros ->; done). apply Hd. by right.
    - specialize (IH s HS HW Hnd). destruct (reap PF s r) as [s' r']. apply IH; [|done|done]. intros b Hb. apply Hd. by right.
  Qed.
End ReapInv.
