(* L1p: exactly-once with panics, and the closures that never run: corollaries of the id-placement invariant *)
From stdpp Require Import list numbers option.
From RecordUpdate Require Import RecordUpdate.
From L1 Require Import Model Own Shape Stuck.
From L1h Require Import WeakWF Hist Abs SimBase Sim HistFacts AInv Reach.
From L1n Require Import Eff.
From L1p Require Import Model OwnP Absorb MainP Loud DeadP RanP ShapeP IdAbs IdInv.

Lemma omap_none {A B} (p : A -> option B) (l : list A) : (forall x, x ∈ l -> p x = None) -> omap p l = [].
Proof. induction l as [|y l IH]; intros H; cbn; [done|]. rewrite (H y) by (by left). apply IH. intros x Hx. apply H. by right. Qed.
Lemma sumq_nil f n : (forall q, f q = []) -> sumq f n = [].
Proof. intros H. induction n as [|n IH]; [done|]. by rewrite sumq_S, IH, H. Qed.

Lemma ran_in_Mids s i : i ∈ s.(ran) -> i ∈ Mids s.
Proof. intros H. unfold Mids, Mv. apply elem_of_app. by left. Qed.

Section Once.
  Context (T : tables) (F : facts) (PF : pfacts) (HT : own_conditions T) (HI : imm_conditions T).

  Lemma finit nq mx scripts : FInv (pinit nq mx scripts).
  Proof.
    split.
    - split; [apply pinit_inv|intros a Ha; by apply elem_of_nil in Ha|apply init_shape|apply init_wf'].
    - assert (E : Mids (pb (pinit nq mx scripts)) = []).
      { unfold Mids, Mv. cbn [pinit pb view v_ran v_acts]. rewrite sumq_nil by (intros q; unfold pids; cbn; by rewrite pend_init).
        rewrite omap_none; [done|]. intros x Hx. apply elem_of_list_lookup in Hx as [a Ha]. unfold pre_id. by rewrite (acts_init _ _ _ a x Ha). }
      split; rewrite E; constructor.
  Qed.

  Lemma prun_finv tr : forall ps ps', FInv ps -> prun T F PF ps tr = Some ps' -> FInv ps'.
  Proof.
    induction tr as [|a tr IH]; intros ps ps' H0 Hr; [unfold prun in Hr; cbn in Hr; by injection Hr as <-|].
    rewrite prun_cons in Hr. destruct (pstep T F PF ps a) as [ps1|] eqn:E; [|done]. cbn in Hr. eapply IH; [|exact Hr]. by eapply (finv_step T F PF HT HI).
  Qed.
  Theorem preach_finv nq mx scripts tr ps : prun T F PF (pinit nq mx scripts) tr = Some ps -> FInv ps.
  Proof. apply prun_finv, finit. Qed.

  (* exactly once: no closure is recorded twice, and everything recorded was issued *)
  Theorem exactly_once_p nq mx scripts tr ps : prun T F PF (pinit nq mx scripts) tr = Some ps ->
    NoDup ps.(pb).(ran) /\ forall i, i ∈ ps.(pb).(ran) -> i < ps.(pb).(nextop).
  Proof.
    intros Hr. destruct (preach_finv _ _ _ _ _ Hr) as [_ [Hnd Hlt]]. split.
    - unfold Mids, Mv in Hnd. by apply NoDup_app in Hnd as (H & _).
    - intros i Hi. rewrite list.Forall_forall in Hlt. by apply Hlt, ran_in_Mids.
  Qed.

  (* the ids of a step: a permutation with the fresh id and the dropped ids *)
  Lemma pstep_ids ps a ps' : FInv ps -> pstep T F PF ps a = Some ps' ->
    exists fresh lost, fresh ++ Mids ps.(pb) ≡ₚ Mids ps'.(pb) ++ lost /\
      ((fresh = [] /\ ps'.(pb).(nextop) = ps.(pb).(nextop)) \/ (fresh = [ps.(pb).(nextop)] /\ ps'.(pb).(nextop) = S ps.(pb).(nextop))).
  Proof.
    intros [HSI HId] Hs. destruct HSI as [HP HD HS HW]. pose proof HP as (HIv & Hd & Hnd).
    unfold pstep in Hs. case_bool_decide as Hdead; [done|].
    destruct (actors (pb ps) !! a) as [ac|] eqn:Ea; [|done]. cbn in Hs.
    assert (Hl1 : forall s', step T F (pb ps) a = Some s' -> exists fresh lost, fresh ++ Mids (pb ps) ≡ₚ Mids s' ++ lost /\
               ((fresh = [] /\ s'.(nextop) = (pb ps).(nextop)) \/ (fresh = [(pb ps).(nextop)] /\ s'.(nextop) = S (pb ps).(nextop)))).
    { intros s' H5. destruct (step_ids T F HT HI (pb ps) a s' HS HIv HW H5) as (fresh & lost & G1 & G2 & _). eauto. }
    assert (Hgen : match pclos ac with
              | Some (q0, o, rest, dies) =>
                  if default false (pan ps !! o) then
                    Some (ps <| pb := setstack (updq (drop_job (pb ps) (top_job ac)) q0 (fun x => x <| qs := Panicked |> <| owner := None |>)) a rest |>
                             <| dead := if dies then a :: dead ps else dead ps |>)
                  else s' ← step T F (pb ps) a; Some (ps <| pb := s' |>)
              | None => s' ← step T F (pb ps) a; Some (ps <| pb := s' |>)
              end = Some ps' -> exists fresh lost, fresh ++ Mids ps.(pb) ≡ₚ Mids ps'.(pb) ++ lost /\
      ((fresh = [] /\ ps'.(pb).(nextop) = ps.(pb).(nextop)) \/ (fresh = [ps.(pb).(nextop)] /\ ps'.(pb).(nextop) = S ps.(pb).(nextop)))).
    { destruct (pclos ac) as [[[[q0 o] rest] dies]|] eqn:Hp.
      - destruct (default false (pan ps !! o)).
        + intros [= <-]. cbn [pb]. destruct (panic_ids (pb ps) a ac q0 o rest dies HS HIv HW Ea Hp) as (G1 & G2 & _).
          exists [], [o]. split; [rewrite app_nil_l, G1; perm|]. left. done.
        + destruct (step T F (pb ps) a) as [s'|] eqn:E; [|done]. cbn. intros [= <-]. cbn [pb]. by apply Hl1.
      - destruct (step T F (pb ps) a) as [s'|] eqn:E; [|done]. cbn. intros [= <-]. cbn [pb]. by apply Hl1. }
    destruct (stack ac) as [|fr rest] eqn:Est; [by apply Hgen|].
    destruct fr; try (by apply Hgen).
    - destruct script as [|o os]; [by apply Hgen|].
      destruct (step T F (pb ps) a) as [s'|] eqn:E; [|done]. cbn in Hs. injection Hs as <-. cbn [pb]. by apply Hl1.
    - destruct (reap_pinv PF (dead ps) (pb ps) Hnd HIv Hd) as (G1 & _).
      destruct (reap_shape PF (dead ps) (pb ps) HS HW Hnd HD) as [G2 G3].
      destruct (reap_ids PF (dead ps) (pb ps) Hnd HD) as (G4 & G5 & _).
      destruct (reap PF (pb ps) (dead ps)) as [s1 d1]. cbn [fst snd] in *.
      destruct (step T F s1 a) as [s'|] eqn:E; [|done]. cbn in Hs. injection Hs as <-. cbn [pb].
      destruct (step_ids T F HT HI s1 a s' G2 G1 G3 E) as (fresh & lost & K1 & K2 & _). exists fresh, lost. rewrite <- G4, <- G5. done.
  Qed.

  (* an id that was issued and is nowhere stays nowhere: it never enters ran *)
  Lemma absent_step ps a ps' i : FInv ps -> pstep T F PF ps a = Some ps' -> i < ps.(pb).(nextop) -> i ∉ Mids ps.(pb) ->
    i < ps'.(pb).(nextop) /\ i ∉ Mids ps'.(pb).
  Proof.
    intros HF Hs Hlt Hni. destruct (pstep_ids ps a ps' HF Hs) as (fresh & lost & Hp & Hf). split.
    - destruct Hf as [(_ & ->)|(_ & ->)]; lia.
    - intros Hin. assert (Hin2 : i ∈ fresh ++ Mids (pb ps)) by (rewrite Hp; apply elem_of_app; by left).
      apply elem_of_app in Hin2 as [Hin2|Hin2]; [|done]. destruct Hf as [(-> & _)|(-> & _)]; [by apply elem_of_nil in Hin2|].
      apply elem_of_list_singleton in Hin2. lia.
  Qed.
  Lemma absent_run tr : forall ps ps' i, FInv ps -> prun T F PF ps tr = Some ps' -> i < ps.(pb).(nextop) -> i ∉ Mids ps.(pb) -> i ∉ ps'.(pb).(ran).
  Proof.
    induction tr as [|a tr IH]; intros ps ps' i HF Hr Hlt Hni.
    - unfold prun in Hr; cbn in Hr. injection Hr as <-. intros Hin. by apply Hni, ran_in_Mids.
    - rewrite prun_cons in Hr. destruct (pstep T F PF ps a) as [ps1|] eqn:E; [|done]. cbn in Hr.
      destruct (absent_step ps a ps1 i HF E Hlt Hni) as [H1 H2]. eapply (IH ps1); try done. by eapply (finv_step T F PF HT HI).
  Qed.

  (* the closure whose runner panics is never run: not by this step, not later *)
  Theorem panicked_closure_never_runs nq mx scripts tr0 ps0 a ac q o rest dies ps1 tr ps :
    prun T F PF (pinit nq mx scripts) tr0 = Some ps0 ->
    ps0.(pb).(actors) !! a = Some ac -> a ∉ ps0.(dead) -> pclos ac = Some (q, o, rest, dies) -> default false (ps0.(pan) !! o) = true ->
    pstep T F PF ps0 a = Some ps1 -> prun T F PF ps1 tr = Some ps -> o ∉ ps.(pb).(ran).
  Proof.
    intros Hr0 Ea Hd Hp Hpan Hs Hr. pose proof (preach_finv _ _ _ _ _ Hr0) as HF0.
    pose proof (finv_step T F PF HT HI ps0 a ps1 HF0 Hs) as HF1.
    destruct HF0 as [[HP HD HS HW] [Hnd Hlt]]. pose proof HP as (HIv & _ & _).
    destruct (panic_ids (pb ps0) a ac q o rest dies HS HIv HW Ea Hp) as (G1 & G2 & _).
    assert (E1 : pb ps1 = setstack (updq (drop_job (pb ps0) (top_job ac)) q (fun x => x <| qs := Panicked |> <| owner := None |>)) a rest).
    { unfold pstep in Hs. rewrite bool_decide_eq_false_2 in Hs by done. rewrite Ea in Hs. cbn in Hs.
      destruct (pclos_stack ac q o rest dies Hp) as [(r0 & E & _)|[(j & g0 & E & _)|(j & t0 & E & _)]]; rewrite E in Hs; rewrite Hp, Hpan in Hs; by injection Hs as <-. }
    eapply (absent_run tr ps1 ps o HF1 Hr).
    - rewrite E1, G2. rewrite list.Forall_forall in Hlt. apply Hlt. rewrite G1. by left.
    - rewrite E1. rewrite G1 in Hnd. by apply list.NoDup_cons in Hnd as [H _].
  Qed.

  (* sync / try_sync started on a Panicked queue: the call returns at once and its closure is never run *)
  Theorem sync_on_panicked_never_runs (HL : ploud T) nq mx scripts tr0 ps0 c ac q rest qq ps1 tr ps :
    prun T F PF (pinit nq mx scripts) tr0 = Some ps0 ->
    ps0.(pb).(actors) !! c = Some ac -> c ∉ ps0.(dead) -> (ac.(stack) = FS1 q :: rest \/ ac.(stack) = FTS1 q :: rest) ->
    ps0.(pb).(queues) !! q = Some qq -> qq.(qs) = Panicked ->
    pstep T F PF ps0 c = Some ps1 -> prun T F PF ps1 tr = Some ps -> ac.(opctr) ∉ ps.(pb).(ran).
  Proof.
    intros Hr0 Ea Hd Hst Eq Hp Hs Hr. pose proof (preach_finv _ _ _ _ _ Hr0) as HF0.
    pose proof (finv_step T F PF HT HI ps0 c ps1 HF0 Hs) as HF1.
    destruct HF0 as [[HP HD HS HW] [Hnd Hlt]]. pose proof HP as (HIv & _ & _).
    assert (Hstep : step T F (pb ps0) c = Some (pb ps1)).
    { unfold pstep in Hs. rewrite bool_decide_eq_false_2 in Hs by done. rewrite Ea in Hs. cbn in Hs.
      destruct Hst as [E|E]; rewrite E in Hs; unfold pclos in Hs; rewrite E in Hs;
        (destruct (step T F (pb ps0) c) as [s'|]; [|done]); cbn in Hs; by injection Hs as <-. }
    assert (Hobs : obs' T (pb ps0) c (pb ps1) = [RetPanic (opctr ac)]).
    { unfold obs'. rewrite Ea. destruct Hst as [E|E]; rewrite E, Eq, Hp; [by rewrite (pl_sync T HL)|by rewrite (pl_try T HL)]. }
    destruct (step_ids T F HT HI (pb ps0) c (pb ps1) HS HIv HW Hstep) as (fresh & lost & G1 & G2 & G3).
    destruct (G3 (opctr ac)) as [-> ->]; [by left|]. rewrite app_nil_l in G1.
    eapply (absent_run tr ps1 ps (opctr ac) HF1 Hr).
    - destruct G2 as [(_ & ->)|([=] & _)]. rewrite list.Forall_forall in Hlt. apply Hlt. rewrite G1. apply elem_of_app. right. by left.
    - rewrite G1 in Hnd. apply NoDup_app in Hnd as (_ & Hdis & _). intros Hin. apply (Hdis _ Hin). by left.
  Qed.
End Once.

(* ---------- desync started on a Panicked queue: its job is stored and stays stored; it is never run ---------- *)
Lemma obs_run_owner T s a s' ac i q : Shape s -> s.(actors) !! a = Some ac -> Run i q ∈ obs' T s a s' -> exists n, cnt q ac.(stack) = S n.
Proof.
  intros HS Ea Hin. pose proof (kind_of s a ac HS Ea) as Hkind. unfold obs' in Hin. rewrite Ea in Hin.
  destruct (stack ac) as [|fr rest] eqn:Est; [by apply elem_of_nil in Hin|].
  destruct fr.
  all: try (exfalso; repeat (match type of Hin with context [match ?x with _ => _ end] => destruct x end);
            repeat (apply elem_of_cons in Hin as [Hin|Hin]; [discriminate|]); by apply elem_of_nil in Hin).
  - apply elem_of_list_singleton in Hin. injection Hin as _ <-. exists (cnt q rest). cbn. by rewrite bool_decide_eq_true_2.
  - apply elem_of_list_singleton in Hin. injection Hin as _ <-.
    destruct Hkind as [[_ Hok]|(t & _ & Hok)]; [|by destruct rest as [|? [|]]].
    apply caller_ok_inv in Hok as [(-> & Hf)|[(os & -> & Hsf)|(g & os & -> & Hpo)]]; try done.
    cbn in Hpo. destruct g; try done; apply bool_decide_eq_true in Hpo as <-; eexists; cbn; by rewrite bool_decide_eq_true_2.
  - apply elem_of_list_singleton in Hin. injection Hin as _ <-. exists (cnt q rest). cbn. by rewrite bool_decide_eq_true_2.
Qed.
Lemma jobs_in_pend s q qq j : s.(queues) !! q = Some qq -> j ∈ qq.(jobs) -> j ∈ pend s q.
Proof.
  intros Eq Hj. unfold pend. rewrite (oj_lookup s q qq Eq). destruct (owner qq); [apply elem_of_app; by right|done].
Qed.

Section Stored.
  Context (T : tables) (F : facts) (PF : pfacts) (HT : own_conditions T) (HI : imm_conditions T) (HP : ptab T).

  Lemma stored_stays ps a ps' q j : FInv ps -> panicked ps.(pb) q -> pstep T F PF ps a = Some ps' -> j ∈ pend ps.(pb) q -> j ∈ pend ps'.(pb) q.
  Proof.
    intros [HSI HId] Hpq Hs Hj. destruct HSI as [HPI HD HS HW]. pose proof HPI as (HIv & Hd & Hnd).
    assert (Hl1 : forall Y s', Shape Y -> Inv Y -> WF' Y -> panicked Y q -> j ∈ pend Y q -> step T F Y a = Some s' -> j ∈ pend s' q).
    { intros Y s' H1 H2 H3 (qq & Eq & Hp) H4 H5. pose proof (step_sim T F HT HI Y a s' H1 H2 H3 H5) as Hsim.
      apply (astep_pend_keep _ _ _ _ q Hsim); [|done]. intros i Hin.
      assert (Hex : exists ac, actors Y !! a = Some ac) by (unfold step in H5; destruct (actors Y !! a); [by eexists|done]). destruct Hex as [ac Ea].
      destruct (obs_run_owner T Y a s' ac i q H1 Ea Hin) as [n Hc].
      destruct (runner_owns Y a q qq n H2) as [_ Hr]; [by rewrite (stack_cnt_self Y a ac q Ea), Hc|done|congruence]. }
    unfold pstep in Hs. case_bool_decide as Hdead; [done|].
    destruct (actors (pb ps) !! a) as [ac|] eqn:Ea; [|done]. cbn in Hs.
    assert (Hgen : match pclos ac with
              | Some (q0, o, rest, dies) =>
                  if default false (pan ps !! o) then
                    Some (ps <| pb := setstack (updq (drop_job (pb ps) (top_job ac)) q0 (fun x => x <| qs := Panicked |> <| owner := None |>)) a rest |>
                             <| dead := if dies then a :: dead ps else dead ps |>)
                  else s' ← step T F (pb ps) a; Some (ps <| pb := s' |>)
              | None => s' ← step T F (pb ps) a; Some (ps <| pb := s' |>)
              end = Some ps' -> j ∈ pend ps'.(pb) q).
    { destruct (pclos ac) as [[[[q0 o] rest] dies]|] eqn:Hp.
      - destruct (default false (pan ps !! o)).
        + intros [= <-]. cbn [pb]. destruct (panic_ids (pb ps) a ac q0 o rest dies HS HIv HW Ea Hp) as (_ & _ & _ & G4 & G5).
          rewrite G4; [done|]. intros ->. destruct Hpq as (qq & Eq & Hpn).
          assert (Hc : cnt q0 (stack ac) = 1).
          { destruct (pclos_stack ac q0 o rest dies Hp) as [(r0 & E & _)|[(j0 & g0 & E & [-> | ->] & _)|(j0 & t0 & E & _)]]; rewrite E; cbn; rewrite ?bool_decide_eq_true_2 by done;
              try done.
            - pose proof (kind_of _ a ac HS Ea) as Hk. rewrite E in Hk. destruct Hk as [[_ Hok]|(t & _ & Hok)]; [|by destruct rest as [|? [|]]].
              apply caller_ok_inv in Hok as [(-> & Hf)|[(os & -> & Hsf)|(g & os & -> & Hpo)]]; done.
            - pose proof (kind_of _ a ac HS Ea) as Hk. rewrite E in Hk. destruct Hk as [[_ Hok]|(t & _ & Hok)]; [|by destruct rest as [|? [|]]].
              apply caller_ok_inv in Hok as [(E2 & Hf)|[(os & E2 & Hsf)|(g & os & E2 & Hpo)]]; try done. by injection E2 as _ ->.
            - pose proof (kind_of _ a ac HS Ea) as Hk. rewrite E in Hk. destruct Hk as [[_ Hok]|(t & _ & Hok)]; [|by destruct rest as [|? [|]]].
              apply caller_ok_inv in Hok as [(E2 & Hf)|[(os & E2 & Hsf)|(g & os & E2 & Hpo)]]; try done. by injection E2 as _ ->. }
          destruct (runner_owns _ a q0 qq 0 HIv) as [_ Hr]; [by rewrite (stack_cnt_self _ a ac q0 Ea), Hc|done|congruence].
        + destruct (step T F (pb ps) a) as [s'|] eqn:E; [|done]. cbn. intros [= <-]. cbn [pb]. by eapply (Hl1 (pb ps)).
      - destruct (step T F (pb ps) a) as [s'|] eqn:E; [|done]. cbn. intros [= <-]. cbn [pb]. by eapply (Hl1 (pb ps)). }
    destruct (stack ac) as [|fr rest] eqn:Est; [by apply Hgen|].
    destruct fr; try (by apply Hgen).
    - destruct script as [|o os]; [by apply Hgen|].
      destruct (step T F (pb ps) a) as [s'|] eqn:E; [|done]. cbn in Hs. injection Hs as <-. cbn [pb]. by eapply (Hl1 (pb ps)).
    - destruct (reap_pinv PF (dead ps) (pb ps) Hnd HIv Hd) as (G1 & _).
      destruct (reap_shape PF (dead ps) (pb ps) HS HW Hnd HD) as [G2 G3].
      destruct (reap_ids PF (dead ps) (pb ps) Hnd HD) as (_ & _ & G6).
      pose proof (reap_queues PF (dead ps) (pb ps)) as Hrq.
      destruct (reap PF (pb ps) (dead ps)) as [s1 d1]. cbn [fst snd] in *.
      destruct (step T F s1 a) as [s'|] eqn:E; [|done]. cbn in Hs. injection Hs as <-. cbn [pb].
      eapply (Hl1 s1); try done; [by apply (panicked_view _ (pb ps))|by rewrite G6].
  Qed.
End Stored.

Section Desync.
  Context (T : tables) (F : facts) (PF : pfacts) (HT : own_conditions T) (HI : imm_conditions T) (HP : ptab T) (HL : ploud T).

  Lemma stored_run tr : forall ps ps' q j, FInv ps -> panicked ps.(pb) q -> j ∈ pend ps.(pb) q -> prun T F PF ps tr = Some ps' ->
    FInv ps' /\ panicked ps'.(pb) q /\ j ∈ pend ps'.(pb) q.
  Proof.
    induction tr as [|a tr IH]; intros ps ps' q j HF Hq Hj Hr; [unfold prun in Hr; cbn in Hr; by injection Hr as <-|].
    rewrite prun_cons in Hr. destruct (pstep T F PF ps a) as [ps1|] eqn:E; [|done]. cbn in Hr.
    eapply (IH ps1); [by eapply (finv_step T F PF HT HI)| | |exact Hr].
    - eapply (pstep_keeps_panicked T F PF HP ps a ps1 q); [by destruct HF as [[? _ _ _] _]|done|done].
    - by eapply (stored_stays T F PF HT HI).
  Qed.

  (* a stored job of a Panicked queue is never run *)
  Lemma stored_never_runs ps q j : FInv ps -> panicked ps.(pb) q -> j ∈ pend ps.(pb) q -> job_id j ∉ ps.(pb).(ran).
  Proof.
    intros [_ [Hnd _]] (qq & Eq & _) Hj Hin.
    assert (Hq : q < nqs (pb ps)) by (unfold nqs; by eapply lookup_lt_Some).
    unfold Mids, Mv in Hnd. apply NoDup_app in Hnd as (_ & Hdis & _). apply (Hdis _ Hin).
    apply elem_of_app. left. apply (sumq_elem _ _ q); [done|]. unfold pids; cbn. apply elem_of_list_fmap. by exists j.
  Qed.

  Theorem desync_on_panicked_never_runs nq mx scripts tr0 ps0 c ac q rest qq ps1 tr ps :
    prun T F PF (pinit nq mx scripts) tr0 = Some ps0 ->
    ps0.(pb).(actors) !! c = Some ac -> c ∉ ps0.(dead) -> ac.(stack) = FD1 q :: rest ->
    ps0.(pb).(queues) !! q = Some qq -> qq.(qs) = Panicked ->
    pstep T F PF ps0 c = Some ps1 -> prun T F PF ps1 tr = Some ps ->
    ac.(opctr) ∉ ps.(pb).(ran) /\ JPlain ac.(opctr) ∈ pend ps.(pb) q.
  Proof.
    intros Hr0 Ea Hd Est Eq Hp Hs Hr. pose proof (preach_finv T F PF HT HI _ _ _ _ _ Hr0) as HF0.
    pose proof (finv_step T F PF HT HI ps0 c ps1 HF0 Hs) as HF1.
    assert (Hpq0 : panicked (pb ps0) q) by (by exists qq).
    assert (Hpq1 : panicked (pb ps1) q) by (eapply (pstep_keeps_panicked T F PF HP ps0 c ps1 q); [by destruct HF0 as [[? _ _ _] _]|done|done]).
    assert (Hj1 : JPlain (opctr ac) ∈ pend (pb ps1) q).
    { unfold pstep in Hs. rewrite bool_decide_eq_false_2 in Hs by done. rewrite Ea in Hs. cbn in Hs. rewrite Est in Hs. unfold pclos in Hs. rewrite Est in Hs.
      unfold step in Hs. rewrite Ea in Hs. cbn -[setstack updq] in Hs. rewrite Est in Hs. cbn -[setstack updq] in Hs. rewrite Eq in Hs. cbn -[setstack updq] in Hs.
      rewrite Hp, (pl_desync T HL) in Hs. cbn -[setstack updq] in Hs. injection Hs as <-. cbn [pb].
      match goal with |- context [updq _ q ?f] => pose proof (queues_ss (pb ps0) c rest q f) as E2 end. rewrite Eq in E2. cbn [fmap option_fmap option_map] in E2.
      eapply jobs_in_pend; [exact E2|]. cbn. apply elem_of_app. right. by left. }
    destruct (stored_run tr ps1 ps q _ HF1 Hpq1 Hj1 Hr) as (HF & Hq & Hj). split; [|done].
    exact (stored_never_runs ps q _ HF Hq Hj).
  Qed.
End Desync.

Lemma call_on_panicked_never_runs (T : tables) (F : facts) (PF : pfacts) :
  own_conditions T -> imm_conditions T -> ptab T -> ploud T ->
  forall nq mx scripts tr0 ps0 c ac o rest q qq ps1 tr ps,
    prun T F PF (pinit nq mx scripts) tr0 = Some ps0 ->
    ps0.(pb).(actors) !! c = Some ac -> c ∉ ps0.(dead) -> ac.(stack) = call_frame o :: rest -> op_q o = q ->
    ps0.(pb).(queues) !! q = Some qq -> qq.(qs) = Panicked ->
    pstep T F PF ps0 c = Some ps1 -> prun T F PF ps1 tr = Some ps -> ac.(opctr) ∉ ps.(pb).(ran).
Proof.
  intros HT HI HP HL nq mx scripts tr0 ps0 c ac o rest q qq ps1 tr ps Hr0 Ea Hd Est Hq Eq Hpn Hs Hr.
  destruct o as [q0|q0|q0]; cbn in Hq, Est; subst q0.
  - by destruct (desync_on_panicked_never_runs T F PF HT HI HP HL nq mx scripts tr0 ps0 c ac q rest qq ps1 tr ps Hr0 Ea Hd Est Eq Hpn Hs Hr).
  - eapply (sync_on_panicked_never_runs T F PF HT HI HL nq mx scripts tr0 ps0 c ac q rest qq ps1 tr ps); eauto.
  - eapply (sync_on_panicked_never_runs T F PF HT HI HL nq mx scripts tr0 ps0 c ac q rest qq ps1 tr ps); eauto.
Qed.
