(* L1p: states of the panic model in which no actor can move.
   The dead pool threads are excluded from the stuck-frame analysis of L1 (they sit at [FTlock t] for ever); everybody else is at the end
   of its script, inside the condition-variable wait of sync_background, or a dormant pool thread; no queue is being run.
   The next scheduling call reaps every dead thread (f_reap_ignores_busy = true) and re-initialises its slot. *)
From stdpp Require Import list numbers list_numbers option.
From RecordUpdate Require Import RecordUpdate.
From L1 Require Import Model Own Shape Stuck Live Wait Help Final Pool.
From L1h Require Import WeakWF.
From L1g Require Import Frozen.
From L1n Require Import Eff.
From L1p Require Import Model OwnP Absorb MainP Loud DeadP RanP ShapeP.

(* an actor that sits at the frame under a job: a dead pool thread *)
Definition lock_frame (fr : frame) : Prop := match fr with FTlock _ => True | _ => False end.
Definition lock_ok (s : state) (B : list nat) : Prop :=
  forall a, a ∈ B -> exists ac fr rest, s.(actors) !! a = Some ac /\ ac.(stack) = fr :: rest /\ lock_frame fr.

Lemma not_locked s B a ac fr rest : lock_ok s B -> s.(actors) !! a = Some ac -> ac.(stack) = fr :: rest -> ~ lock_frame fr -> a ∉ B.
Proof. intros HB Ea Est Hn Hin. destruct (HB a Hin) as (ac' & fr' & rest' & E1 & E2 & E3). rewrite Ea in E1. injection E1 as <-. rewrite Est in E2. by injection E2 as <- _. Qed.

Section StuckL.
  Context (T : tables) (F : facts) (B : list nat).

  Lemma texcl_sched_free s : Shape s -> lock_ok s B -> terminal_except T F B s -> s.(sched_held) = None.
  Proof.
    intros [L Ta Ca Po He Sh Th] HB Hterm. destruct (sched_held s) as [h|] eqn:E; [|done]. exfalso.
    destruct (proj1 (Sh h) eq_refl) as (ac & t & Ea & Est).
    assert (Hh : h ∉ B) by (eapply (not_locked s B h ac _ _ HB Ea Est); cbn; tauto).
    specialize (Hterm h Hh). unfold step in Hterm. rewrite Ea in Hterm. cbn in Hterm.
    rewrite Est in Hterm. cbn in Hterm. rewrite E in Hterm. cbn in Hterm. rewrite bool_decide_true in Hterm by done. cbn in Hterm.
    destruct (sched s) as [|q sc]; [done|]. destruct (queues s !! q) as [qq|]; [|done]. by destruct (t_next T (qs qq)).
  Qed.

  Lemma texcl_threads_free s : Shape s -> lock_ok s B -> terminal_except T F B s -> s.(threads_held) = None.
  Proof.
    intros HS HB Hterm. pose proof (texcl_sched_free s HS HB Hterm) as Hsf. pose proof HS as [L Ta Ca Po He Sh Th].
    destruct (threads_held s) as [h|] eqn:E; [|done]. exfalso.
    destruct (proj1 (Th h) eq_refl) as (ac & i & rest & Ea & Est).
    assert (Hh : h ∉ B) by (eapply (not_locked s B h ac _ _ HB Ea Est); cbn; tauto).
    pose proof (Hterm h Hh) as Hstep. unfold step in Hstep. rewrite Ea in Hstep. cbn in Hstep.
    rewrite Est in Hstep. cbn in Hstep. rewrite E in Hstep. cbn in Hstep. rewrite bool_decide_true in Hstep by done. cbn in Hstep.
    destruct (threads s !! i) as [th|] eqn:Et; [|done].
    destruct (held th) eqn:Eh; [|by destruct (busy th)].
    assert (Hi : ncallers s + i < length (actors s)) by (apply lookup_lt_Some in Et; unfold ncallers; lia).
    destruct (lookup_lt_is_Some_2 _ _ Hi) as [ap Eap].
    specialize (He i th ap Et Eap). rewrite Eh in He.
    destruct (stack ap) as [|fr [|]] eqn:Esp; try done; destruct fr; try done.
    all: assert (Hp : ncallers s + i ∉ B) by (eapply (not_locked s B _ ap _ _ HB Eap Esp); cbn; tauto).
    all: specialize (Hterm _ Hp); unfold step in Hterm; rewrite Eap in Hterm; cbn in Hterm; rewrite Esp in Hterm; cbn in Hterm.
    - rewrite Hsf in Hterm. done.
    - assert (sched_held s = Some (ncallers s + i)) by (apply Sh; eauto). congruence.
    - done.
    - done.
  Qed.

  (* every actor that is not frozen is stuck in one of the three places *)
  Theorem stuck_frames_exceptl s : Shape s -> WF s -> lock_ok s B -> terminal_except T F B s ->
    forall a ac, s.(actors) !! a = Some ac -> a ∉ B -> stuck_ok s ac.(stack).
  Proof.
    intros HS HW HB Hterm a ac Ea HaB.
    pose proof (texcl_sched_free s HS HB Hterm) as Hsf. pose proof (texcl_threads_free s HS HB Hterm) as Htf.
    pose proof (WF_self s a ac HW Ea) as Hwf.
    pose proof (kind_of s a ac HS Ea) as Hkind. pose proof HS as [L Ta Ca Po He Sh Th].
    specialize (Hterm a HaB). unfold step in Hterm. rewrite Ea in Hterm. cbn in Hterm.
    destruct (stack ac) as [|fr rest] eqn:Est.
    { destruct Hkind as [[_ H]|(t & _ & H)]; done. }
    cbn in Hwf. apply andb_true_iff in Hwf as [Hfr Hrest].
    destruct Hkind as [[Hlt Hok]|(t0 & Hat & Hok)].
    - apply caller_ok_inv in Hok as [(-> & Htop)|[(os & -> & Hsf')|(g & os & -> & Hpo)]].
      + destruct fr; try done. destruct script as [|o os]; [done|]. by destruct o.
      + destruct fr; try done; cbn in Hfr; try (apply bool_decide_eq_true in Hfr; destruct (queue_exists s _ Hfr) as [qq Eq]);
          cbn in Hterm; rewrite ?Eq, ?Hsf, ?Htf in Hterm; cbn in Hterm.
        all: try done.
        all: try (exfalso; repeat (match type of Hterm with context [match ?x with _ => _ end] => destruct x end; try done); fail).
        all: try (assert (threads_held s = Some a) by (apply Th; eauto); congruence).
      + destruct fr; try done; destruct g; try done; cbn in Hfr; try (apply bool_decide_eq_true in Hfr; destruct (queue_exists s _ Hfr) as [qq Eq]);
          cbn in Hterm; rewrite ?Eq, ?Hsf, ?Htf in Hterm; cbn in Hterm.
        all: try done.
        all: try (exfalso; repeat (match type of Hterm with context [match ?x with _ => _ end] => destruct x end; try done); fail).
        all: try (assert (threads_held s = Some a) by (apply Th; eauto); congruence).
    - subst a. assert (Hth : exists th0, threads s !! t0 = Some th0).
      { apply lookup_lt_is_Some_2. apply lookup_lt_Some in Ea. unfold ncallers in *. lia. }
      destruct Hth as [th0 Hth0].
      apply pool_ok_inv in Hok as [(-> & H1)|(-> & H1)].
      + destruct fr; try done; cbn in H1; apply bool_decide_eq_true in H1; subst; cbn in Hterm; rewrite ?Hth0, ?Hsf in Hterm; cbn in Hterm; try done.
        * cbn. destruct (chan th0) eqn:Ec; [eauto|done].
        * assert (sched_held s = Some (ncallers s + t0)) by (apply Sh; eauto). congruence.
      + destruct fr; try done; cbn in Hfr; apply bool_decide_eq_true in Hfr; destruct (queue_exists s _ Hfr) as [qq Eq];
          cbn in Hterm; rewrite ?Eq in Hterm; cbn in Hterm.
        all: try done.
        all: exfalso; repeat (match type of Hterm with context [match ?x with _ => _ end] => destruct x end; try done).
  Qed.
End StuckL.


(* ---------- WF (every queue id a frame or a script mentions exists) on runs with panics ---------- *)
Lemma drop_job_wf s j : WF s -> WF (drop_job s j).
Proof.
  intros HS. destruct j as [[o|o c|o c]|]; cbn [drop_job]; try done.
  set (s1 := upda s c _). assert (H1 : WF s1) by (by apply WF_kick).
  destruct (actors s1 !! c) as [ac|] eqn:Ec; [|done]. destruct (stack ac) as [|[] rest] eqn:Es; try done. by eapply WF_wake.
Qed.

Section WFP.
  Context (T : tables) (F : facts) (PF : pfacts).

  Lemma panic_wf s a ac q o rest dies g : WF s -> s.(actors) !! a = Some ac -> pclos ac = Some (q, o, rest, dies) ->
    WF (setstack (updq (drop_job s (top_job ac)) q g) a rest).
  Proof.
    intros HW Ea Hp. set (s1 := drop_job s (top_job ac)).
    assert (HW1 : WF s1) by (by apply drop_job_wf).
    assert (Hnw : forall q0 r, stack ac <> FSBwait q0 :: r) by (intros q0 r E; unfold pclos in Hp; by rewrite E in Hp).
    destruct (drop_job_actor s (top_job ac) a ac Ea _ eq_refl Hnw) as (ac1 & Ea1 & Est1).
    set (s2 := updq s1 q g).
    assert (HW2 : WF s2) by (eapply (WF_view s2 s1); [done|unfold s2, updq; cbn; by rewrite alter_length|done]).
    assert (Ea2 : actors s2 !! a = Some ac1) by done.
    eapply (WF_update s2 _ a rest HW2); [apply stacks_setstack|done|].
    pose proof (WF_self s2 a ac1 HW2 Ea2) as Hw. rewrite Est1 in Hw.
    destruct (pclos_stack ac q o rest dies Hp) as [(r0 & E & _)|[(j & g0 & E & _)|(j & t0 & E & -> & _)]]; rewrite E in Hw; cbn in Hw.
    - by apply andb_true_iff in Hw as [_ Hw].
    - apply andb_true_iff in Hw as [_ Hw]. by apply andb_true_iff in Hw as [_ Hw].
    - by apply andb_true_iff in Hw as [_ Hw].
  Qed.

  Lemma reap_wf ds : forall s, WF s -> WF (reap PF s ds).1.
  Proof.
    induction ds as [|a r IH]; intros s HW; cbn [reap]; [done|].
    destruct (reap_one PF s a) as [s1|] eqn:E1.
    - apply IH. unfold reap_one in E1. destruct (pool_thread_of s a) as [t|]; [|done]. cbn in E1. destruct (threads s !! t); [|done]. cbn in E1.
      destruct (_ || _); [|done]. injection E1 as <-. eapply (WF_update s _ a [FTrecv t] HW); [by rewrite stacks_setstack|done|done].
    - specialize (IH s HW). by destruct (reap PF s r).
  Qed.

  Lemma wf_step ps a ps' : WF ps.(pb) -> pstep T F PF ps a = Some ps' -> WF ps'.(pb).
  Proof.
    intros HW Hs. unfold pstep in Hs. case_bool_decide as Hdead; [done|].
    destruct (actors (pb ps) !! a) as [ac|] eqn:Ea; [|done]. cbn in Hs.
    assert (Hgen : match pclos ac with
              | Some (q0, o, rest, dies) =>
                  if default false (pan ps !! o) then
                    Some (ps <| pb := setstack (updq (drop_job (pb ps) (top_job ac)) q0 (fun x => x <| qs := Panicked |> <| owner := None |>)) a rest |>
                             <| dead := if dies then a :: dead ps else dead ps |>)
                  else s' ← step T F (pb ps) a; Some (ps <| pb := s' |>)
              | None => s' ← step T F (pb ps) a; Some (ps <| pb := s' |>)
              end = Some ps' -> WF ps'.(pb)).
    { destruct (pclos ac) as [[[[q0 o] rest] dies]|] eqn:Hp.
      - destruct (default false (pan ps !! o)).
        + intros [= <-]. cbn [pb]. by eapply panic_wf.
        + destruct (step T F (pb ps) a) as [s'|] eqn:E; [|done]. cbn. intros [= <-]. cbn [pb]. by eapply step_wf.
      - destruct (step T F (pb ps) a) as [s'|] eqn:E; [|done]. cbn. intros [= <-]. cbn [pb]. by eapply step_wf. }
    destruct (stack ac) as [|fr rest] eqn:Est; [by apply Hgen|].
    destruct fr; try (by apply Hgen).
    - destruct script as [|o os]; [by apply Hgen|].
      destruct (step T F (pb ps) a) as [s'|] eqn:E; [|done]. cbn in Hs. injection Hs as <-. cbn [pb]. by eapply step_wf.
    - pose proof (reap_wf (dead ps) (pb ps) HW) as G. destruct (reap PF (pb ps) (dead ps)) as [s1 d1]. cbn [fst] in G.
      destruct (step T F s1 a) as [s'|] eqn:E; [|done]. cbn in Hs. injection Hs as <-. cbn [pb]. by eapply step_wf.
  Qed.

  Lemma wf_run tr : forall ps ps', WF ps.(pb) -> prun T F PF ps tr = Some ps' -> WF ps'.(pb).
  Proof.
    induction tr as [|a tr IH]; intros ps ps' H0 Hr; [unfold prun in Hr; cbn in Hr; by injection Hr as <-|].
    rewrite prun_cons in Hr. destruct (pstep T F PF ps a) as [ps1|] eqn:E; [|done]. cbn in Hr. eapply IH; [|exact Hr]. by eapply wf_step.
  Qed.
End WFP.

Lemma reap_threads_held PF ds : forall s, (reap PF s ds).1.(threads_held) = s.(threads_held) /\ (reap PF s ds).1.(sched_held) = s.(sched_held).
Proof.
  induction ds as [|a r IH]; intros s; cbn [reap]; [done|].
  destruct (reap_one PF s a) as [s1|] eqn:E.
  - destruct (IH s1) as [-> ->]. unfold reap_one in E. destruct (pool_thread_of s a); [|done]. cbn in E. destruct (threads s !! _); [|done]. cbn in E.
    destruct (_ || _); [|done]. by injection E as <-.
  - specialize (IH s). by destruct (reap PF s r).
Qed.

Section TerminalP.
  Context (T : tables) (F : facts) (PF : pfacts).

  (* nobody but the dead can move in the base model *)
  Lemma pterminal_texc ps : pterminal T F PF ps -> terminal_except T F ps.(dead) ps.(pb).
  Proof.
    intros Hterm a Ha. specialize (Hterm a). unfold pstep in Hterm. rewrite bool_decide_eq_false_2 in Hterm by done.
    destruct (actors (pb ps) !! a) as [ac|] eqn:Ea; [|by (unfold step; rewrite Ea)]. cbn in Hterm.
    assert (Hgen : match pclos ac with
              | Some (q0, o, rest, dies) =>
                  if default false (pan ps !! o) then
                    Some (ps <| pb := setstack (updq (drop_job (pb ps) (top_job ac)) q0 (fun x => x <| qs := Panicked |> <| owner := None |>)) a rest |>
                             <| dead := if dies then a :: dead ps else dead ps |>)
                  else s' ← step T F (pb ps) a; Some (ps <| pb := s' |>)
              | None => s' ← step T F (pb ps) a; Some (ps <| pb := s' |>)
              end = None -> step T F (pb ps) a = None).
    { destruct (pclos ac) as [[[[q0 o] rest] dies]|]; [destruct (default false (pan ps !! o)); [done|]|]; by destruct (step T F (pb ps) a). }
    destruct (stack ac) as [|fr rest] eqn:Est; [by apply Hgen|].
    destruct fr; try (by apply Hgen).
    - destruct script as [|o os]; [by apply Hgen|]. by destruct (step T F (pb ps) a).
    - pose proof (reap_threads_held PF (dead ps) (pb ps)) as [Hth _]. pose proof (reap_other PF (dead ps) (pb ps) a Ha) as Hro.
      destruct (reap PF (pb ps) (dead ps)) as [s1 d1]. cbn [fst] in *.
      destruct (step T F s1 a) as [s'|] eqn:E; [done|]. unfold step in E |- *. rewrite Hro, Ea in E. rewrite Ea. cbn in E |- *. rewrite Est in E |- *.
      cbn in E |- *. rewrite Hth in E. by destruct (free (threads_held (pb ps))).
  Qed.

  Theorem pterminal_stuck ps : SInv ps -> WF ps.(pb) -> pterminal T F PF ps ->
    (forall a ac, ps.(pb).(actors) !! a = Some ac -> a ∉ ps.(dead) -> stuck_ok ps.(pb) ac.(stack)) /\
    (forall q qq, ps.(pb).(queues) !! q = Some qq -> qq.(qs) <> Running).
  Proof.
    intros [HP HD HS HW'] HW Hterm. pose proof HP as (HIv & _ & _).
    assert (HL : lock_ok (pb ps) (dead ps)).
    { intros a Ha. destruct (HD a Ha) as (ac & t & Ea & Est). exists ac, (FTlock t), []. done. }
    pose proof (stuck_frames_exceptl T F (dead ps) (pb ps) HS HW HL (pterminal_texc ps Hterm)) as Hstuck.
    split; [exact Hstuck|].
    intros q qq Hq Hr. destruct HIv as [I1 I2 I3]. destruct (proj2 (I2 q qq Hq) Hr) as [b Hb].
    pose proof (I3 q qq b Hq Hb) as Hlt. destruct (lookup_lt_is_Some_2 _ _ Hlt) as [ab Eb].
    pose proof (I1 b q qq _ (stack_cnt_self _ b ab q Eb) Hq) as H1. rewrite decide_True in H1 by done.
    destruct (decide (b ∈ dead ps)) as [Hin|Hn].
    - destruct (HD b Hin) as (ab' & t & Eb' & Est). rewrite Eb in Eb'. injection Eb' as <-. by rewrite Est in H1.
    - rewrite (stuck_cnt0 _ b ab q HS Eb (Hstuck b ab Eb Hn)) in H1. done.
  Qed.
End TerminalP.

(* ---------- the next scheduling call reaps every dead thread ---------- *)
Lemma reap_all PF ds : PF.(f_reap_ignores_busy) = true -> forall s,
  (forall a, a ∈ ds -> exists t th, s.(threads) !! t = Some th /\ th.(tactor) = a) -> (reap PF s ds).2 = [].
Proof.
  intros HPF. induction ds as [|a r IH]; intros s Hd; cbn [reap]; [done|].
  destruct (Hd a) as (t & th & Et & Hta); [by left|].
  assert (Hone : exists s1, reap_one PF s a = Some s1 /\ forall x, (exists t0 th0, threads s !! t0 = Some th0 /\ tactor th0 = x) -> exists t0 th0, threads s1 !! t0 = Some th0 /\ tactor th0 = x).
  { unfold reap_one, pool_thread_of.
    destruct (list_find (fun th0 => tactor th0 = a) (threads s)) as [[t1 th1]|] eqn:Ef.
    - cbn. apply list_find_Some in Ef as (E1 & E2 & _). rewrite E1. cbn. rewrite HPF. cbn. eexists. split; [reflexivity|].
      intros x (t0 & th0 & E0 & Hx). rewrite threads_setstack. destruct (decide (t1 = t0)) as [<-|Hne].
      + rewrite E1 in E0. injection E0 as <-. eexists t1, _. rewrite threads_updt_lookup, decide_True by done. rewrite E1. cbn. split; [reflexivity|done].
      + exists t0, th0. rewrite threads_updt_lookup, decide_False by done. done.
    - exfalso. apply list_find_None in Ef. rewrite list.Forall_forall in Ef. apply (Ef th (elem_of_list_lookup_2 _ _ _ Et)). done. }
  destruct Hone as (s1 & -> & Hkeep). apply IH. intros b Hb. apply Hkeep, Hd. by right.
Qed.

Section Reaps.
  Context (T : tables) (F : facts) (PF : pfacts) (HPF : PF.(f_reap_ignores_busy) = true).

  Theorem scheduling_call_reaps_all ps a ac rest ps' : SInv ps -> ps.(pb).(actors) !! a = Some ac -> ac.(stack) = FSTlock :: rest ->
    pstep T F PF ps a = Some ps' -> ps'.(dead) = [].
  Proof.
    intros [HP HD HS HW'] Ea Est Hs. unfold pstep in Hs. case_bool_decide as Hdead; [done|]. rewrite Ea in Hs. cbn in Hs. rewrite Est in Hs.
    assert (Hall : (reap PF (pb ps) (dead ps)).2 = []).
    { apply reap_all; [done|]. intros b Hb. destruct (HD b Hb) as (ab & t & Eb & Estb).
      pose proof HS as [L Ta Ca Po He Sh Th].
      destruct (kind_of _ b ab HS Eb) as [[_ Hok]|(t1 & -> & Hok)]; rewrite Estb in Hok; [done|].
      assert (Ht : t1 < length (threads (pb ps))) by (apply lookup_lt_Some in Eb; unfold ncallers in *; lia).
      destruct (lookup_lt_is_Some_2 _ _ Ht) as [th Eth]. exists t1, th. split; [done|]. by apply Ta. }
    destruct (reap PF (pb ps) (dead ps)) as [s1 d1]. cbn [snd] in Hall. subst d1.
    destruct (step T F s1 a) as [s'|]; [|done]. cbn in Hs. by injection Hs as <-.
  Qed.
End Reaps.

(* every reaped slot is a fresh dormant thread *)
Definition fresh_slot (s : state) (b : nat) : Prop :=
  exists t th acb, s.(threads) !! t = Some th /\ th.(tactor) = b /\ th.(busy) = false /\ th.(held) = false /\ th.(chan) = 0 /\
                   s.(actors) !! b = Some acb /\ acb.(stack) = [FTrecv t].

Lemma reap_keeps_fresh PF r : forall s1 x, NoDup r -> x ∉ r -> fresh_slot s1 x -> fresh_slot (reap PF s1 r).1 x.
Proof.
  induction r as [|y r IHr]; intros s1 x Hnd Hx Hf; cbn [reap]; [done|].
  apply list.NoDup_cons in Hnd as [Hyr Hnd].
  destruct (reap_one PF s1 y) as [s2|] eqn:E2.
  - apply IHr; [done|intros ?; apply Hx; by right|].
    destruct Hf as (t0 & th0 & acb & F1 & F2 & F3 & F4 & F5 & F6 & F7).
    unfold reap_one in E2. destruct (pool_thread_of s1 y) as [ty|] eqn:Ey; [|done]. cbn in E2. destruct (threads s1 !! ty) as [thy|] eqn:Ety; [|done]. cbn in E2.
    destruct (_ || _); [|done]. injection E2 as <-.
    assert (Hty : tactor thy = y).
    { unfold pool_thread_of in Ey. destruct (list_find _ _) as [[i z]|] eqn:Ef; [|done]. cbn in Ey. injection Ey as ->.
      apply list_find_Some in Ef as (G1 & G2 & _). rewrite Ety in G1. by injection G1 as ->. }
    assert (Hne : ty <> t0).
    { intros ->. rewrite Ety in F1. injection F1 as ->. assert (x = y) as -> by congruence. apply Hx. by left. }
    exists t0, th0, acb. rewrite threads_setstack, threads_updt_lookup, decide_False by done. split; [done|]. repeat (split; [done|]).
    rewrite actors_setstack_lookup, decide_False; [done|]. intros ->. apply Hx. by left.
  - specialize (IHr s1 x Hnd). destruct (reap PF s1 r) as [s' r']. cbn in *. apply IHr; [intros ?; apply Hx; by right|done].
Qed.

Lemma reap_fresh PF ds : PF.(f_reap_ignores_busy) = true -> forall s, NoDup ds ->
  (forall a, a ∈ ds -> exists t th, s.(threads) !! t = Some th /\ th.(tactor) = a /\ is_Some (s.(actors) !! a)) ->
  (forall t1 t2 th1 th2, s.(threads) !! t1 = Some th1 -> s.(threads) !! t2 = Some th2 -> th1.(tactor) = th2.(tactor) -> t1 = t2) ->
  forall b, b ∈ ds -> fresh_slot (reap PF s ds).1 b.
Proof.
  intros HPF. induction ds as [|a r IH]; intros s Hnd Hd Huniq b Hb; [by apply elem_of_nil in Hb|]. cbn [reap].
  apply list.NoDup_cons in Hnd as [Har Hnd].
  destruct (Hd a) as (t & th & Et & Hta & [aca Ea]); [by left|].
  assert (Hfind : pool_thread_of s a = Some t).
  { unfold pool_thread_of. destruct (list_find (fun th0 => tactor th0 = a) (threads s)) as [[t1 th1]|] eqn:Ef.
    - cbn. apply list_find_Some in Ef as (E1 & E2 & _). f_equal. eapply Huniq; [exact E1|exact Et|congruence].
    - exfalso. apply list_find_None in Ef. rewrite list.Forall_forall in Ef. by apply (Ef th (elem_of_list_lookup_2 _ _ _ Et)). }
  unfold reap_one. rewrite Hfind. cbn. rewrite Et. cbn. rewrite HPF. cbn.
  set (s1 := setstack (updt s t _) a [FTrecv t]).
  assert (Hkeep : forall x, x ∉ r -> fresh_slot s1 x -> fresh_slot (reap PF s1 r).1 x) by (intros x; by apply reap_keeps_fresh).
  apply elem_of_cons in Hb as [->|Hb].
  - apply Hkeep; [done|]. exists t, (th <| busy := false |> <| held := false |> <| chan := 0 |>), (aca <| stack := [FTrecv t] |>).
    split; [unfold s1; rewrite threads_setstack, threads_updt_lookup, decide_True by done; by rewrite Et|].
    split; [done|]. split; [done|]. split; [done|]. split; [done|].
    split; [unfold s1; rewrite actors_setstack_lookup, decide_True by done; change (actors (updt s t _)) with (actors s); by rewrite Ea|done].
  - apply IH; try done.
    + intros x Hx. destruct (Hd x) as (tx & thx & Etx & Htx & [acx Ex]); [by right|].
      assert (Hxa : x <> a) by (intros ->; done).
      assert (Htt : t <> tx) by (intros ->; rewrite Et in Etx; injection Etx as ->; congruence).
      exists tx, thx. split; [unfold s1; by rewrite threads_setstack, threads_updt_lookup, decide_False by done|]. split; [done|].
      unfold s1. rewrite actors_setstack_lookup, decide_False by done. change (actors (updt s t _)) with (actors s). by rewrite Ex.
    + intros t1 t2 th1 th2 H1 H2 H3. unfold s1 in H1, H2. rewrite threads_setstack in H1, H2. rewrite threads_updt_lookup in H1, H2.
      assert (forall ti thi, (if decide (t = ti) then (fun x => x <| busy := false |> <| held := false |> <| chan := 0 |>) <$> threads s !! ti else threads s !! ti) = Some thi ->
                exists th0, threads s !! ti = Some th0 /\ tactor th0 = tactor thi) as Hback.
      { intros ti thi H. case_decide; [|eauto]. destruct (threads s !! ti) as [z|]; [|done]. cbn in H. injection H as <-. eauto. }
      destruct (Hback _ _ H1) as (z1 & Z1 & Z1'). destruct (Hback _ _ H2) as (z2 & Z2 & Z2'). eapply Huniq; [exact Z1|exact Z2|congruence].
Qed.

Section Restores.
  Context (T : tables) (F : facts) (PF : pfacts) (HPF : PF.(f_reap_ignores_busy) = true).

  (* the first step of a scheduling call (remove_finished_threads, then the threads lock of the dormant scan): no dead thread is left,
     every slot of a dead thread is a fresh dormant thread *)
  Theorem scheduling_call_restores_capacity ps a ac rest ps' : SInv ps -> ps.(pb).(actors) !! a = Some ac -> ac.(stack) = FSTlock :: rest ->
    pstep T F PF ps a = Some ps' -> ps'.(dead) = [] /\ forall b, b ∈ ps.(dead) -> fresh_slot ps'.(pb) b.
  Proof.
    intros HSI Ea Est Hs. split; [by eapply (scheduling_call_reaps_all T F PF HPF)|].
    destruct HSI as [HP HD HS HW']. pose proof HP as (_ & _ & Hnd). pose proof HS as [L Ta Ca Po He Sh Th].
    unfold pstep in Hs. case_bool_decide as Hdead; [done|]. rewrite Ea in Hs. cbn in Hs. rewrite Est in Hs.
    assert (Hd : forall b, b ∈ dead ps -> exists t th, threads (pb ps) !! t = Some th /\ tactor th = b /\ is_Some (actors (pb ps) !! b)).
    { intros b Hb. destruct (HD b Hb) as (ab & t & Eb & Estb).
      destruct (kind_of _ b ab HS Eb) as [[_ Hok]|(t1 & -> & Hok)]; rewrite Estb in Hok; [done|].
      assert (Ht : t1 < length (threads (pb ps))) by (apply lookup_lt_Some in Eb; unfold ncallers in *; lia).
      destruct (lookup_lt_is_Some_2 _ _ Ht) as [th Eth]. exists t1, th. split; [done|]. split; [by apply Ta|by eexists]. }
    assert (Huniq : forall t1 t2 th1 th2, threads (pb ps) !! t1 = Some th1 -> threads (pb ps) !! t2 = Some th2 -> tactor th1 = tactor th2 -> t1 = t2).
    { intros t1 t2 th1 th2 H1 H2 H3. rewrite (Ta _ _ H1), (Ta _ _ H2) in H3. lia. }
    pose proof (reap_fresh PF (dead ps) HPF (pb ps) Hnd Hd Huniq) as Hfresh.
    pose proof (reap_other PF (dead ps) (pb ps) a Hdead) as Hro.
    destruct (reap PF (pb ps) (dead ps)) as [s1 d1]. cbn [fst] in Hfresh, Hro.
    unfold step in Hs. rewrite Hro, Ea in Hs. cbn in Hs. rewrite Est in Hs. cbn in Hs.
    destruct (free (threads_held s1)); [|done]. cbn in Hs. injection Hs as <-. cbn [pb].
    intros b Hb. assert (Hba : a <> b) by (intros ->; done).
    destruct (Hfresh b Hb) as (t & th & acb & F1 & F2 & F3 & F4 & F5 & F6 & F7).
    exists t, th, acb. split; [done|]. repeat (split; [done|]). cbn. by rewrite list_lookup_alter_ne.
  Qed.
End Restores.

(* ---------- refuting "every healthy queue ends Idle and empty" from one computed run ---------- *)
Lemma pterminal_b_sound T F PF ps : pterminal_b T F PF ps = true -> pterminal T F PF ps.
Proof.
  unfold pterminal_b. rewrite forallb_forall. intros H a.
  destruct (decide (a < length (actors (pb ps)))) as [Hlt|Hge].
  - specialize (H a). rewrite <- elem_of_list_In, elem_of_seq in H. specialize (H ltac:(lia)). by destruct (pstep T F PF ps a).
  - unfold pstep. destruct (bool_decide _); [done|]. assert (E : actors (pb ps) !! a = None) by (apply lookup_ge_None_2; lia). by rewrite E.
Qed.

Lemma stranded_refutes T F PF nq mx scripts tr : 1 <= mx ->
  (exists ps, prun T F PF (pinit nq mx scripts) tr = Some ps /\ pterminal_b T F PF ps = true /\
     exists q, (qs <$> ps.(pb).(queues)) !! q = Some Pending) ->
  ~ (forall nq mx scripts tr ps, 1 <= mx -> prun T F PF (pinit nq mx scripts) tr = Some ps -> pterminal T F PF ps ->
       forall q qq, ps.(pb).(queues) !! q = Some qq -> qq.(qs) <> Panicked -> qq.(qs) = Idle /\ qq.(jobs) = []).
Proof.
  intros Hmx (ps & Hr & Ht & q & Hq) H.
  specialize (H nq mx scripts tr ps Hmx Hr (pterminal_b_sound _ _ _ _ Ht)). clear Hr Ht.
  rewrite list_lookup_fmap in Hq. destruct (queues (pb ps) !! q) as [qq|] eqn:E; [|discriminate Hq]. cbn in Hq. injection Hq as Hq.
  destruct (H q qq E) as [Hi _]; [rewrite Hq; discriminate|]. rewrite Hq in Hi. discriminate Hi.
Qed.
