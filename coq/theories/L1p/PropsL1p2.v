(* C15 on the scheduler model, second part: a call that STARTS on a Panicked queue fails loudly (L1p/Loud.v).

   Hypotheses: own_conditions, ptab (Panicked is mapped to Panicked) and ploud T: the entry tables answer Panic on a Panicked queue
   (t_desync Panicked = (Panicked, DAPanic), t_sync Panicked e = (Panicked, SAPanic), t_trysync Panicked e = (Panicked, TAPanic)).
   C15p_call_on_panicked_queue_starts / _returns   the two steps of the caller: both are enabled (no lock, no wait), they do not change
                         [ran]; sync and try_sync leave the stored jobs as they are, desync has appended its job (schedule_job_desync
                         pushes before it looks at the state) - that job is stored for ever: C15p_panicked_queue_is_never_run.
   C15p_fails_loudly_bounded   from any reachable state in which q is Panicked and the (live) caller c is at its script with next
                         operation sync / try_sync / desync on q: in every continuation of the run, whatever the other actors do
                         in between, c can move as long as it has made fewer than two steps of its own, and its second step puts it back
                         at its script ([FTop os]) with [ran] unchanged: never blocked (no FSBwait, no lock frame is reached),
                         explicit bound 2.
   The model has no separate "panicked outcome" of a call: the call returns to the script at once and its closure is not recorded
   as run by the caller's steps.  NOT proved here: that the operation id never enters [ran] in any LATER state (for sync/try_sync no job
   exists; for desync the job sits in the Panicked queue, which is never run - the missing piece is the uniqueness of job ids).
   The hypothesis `c ∉ dead`: only pool threads die in the model (the panic step marks an actor dead only at FDRrun). *)
From stdpp Require Import list numbers option.
From L0 Require Import Types.
From Gen Require Import Tables.
From L1 Require Import Model Own Shape Stuck.
From L1p Require Import Model OwnP Absorb MainP Loud PropsL1p.

Theorem C15p_call_on_panicked_queue_starts : forall (T : tables) (F : facts) (PF : pfacts) ps c o os,
  c ∉ ps.(dead) -> stack_of ps c = Some [FTop (o :: os)] ->
  exists ps1, pstep T F PF ps c = Some ps1 /\ stack_of ps1 c = Some [call_frame o; FTop os] /\
    ps1.(pb).(ran) = ps.(pb).(ran) /\ ps1.(pb).(queues) = ps.(pb).(queues) /\ ps1.(dead) = ps.(dead).
Proof. exact loud_call. Qed.

Theorem C15p_call_on_panicked_queue_returns : forall (T : tables) (F : facts) (PF : pfacts), ploud T ->
  forall ps c o os q qq, c ∉ ps.(dead) -> op_q o = q -> stack_of ps c = Some [call_frame o; FTop os] ->
    ps.(pb).(queues) !! q = Some qq -> qq.(qs) = Panicked ->
    exists ps2 ac, pstep T F PF ps c = Some ps2 /\ stack_of ps2 c = Some [FTop os] /\ ps.(pb).(actors) !! c = Some ac /\
      ps2.(pb).(ran) = ps.(pb).(ran) /\ panicked ps2.(pb) q /\ ps2.(dead) = ps.(dead) /\
      jobs_of ps2 q = Some (match o with ODesync _ => qq.(jobs) ++ [JPlain ac.(opctr)] | _ => qq.(jobs) end).
Proof. exact loud_return. Qed.

Theorem C15p_fails_loudly_bounded : forall (T : tables) (F : facts) (PF : pfacts), ploud T -> own_conditions T -> ptab T ->
  forall nq mx scripts tr0 ps0 c o os q,
    prun T F PF (pinit nq mx scripts) tr0 = Some ps0 -> panicked ps0.(pb) q -> c ∉ ps0.(dead) -> op_q o = q ->
    stack_of ps0 c = Some [FTop (o :: os)] ->
    forall tr ps, prun T F PF ps0 tr = Some ps ->
      match ccount c tr with
      | 0 => stack_of ps c = Some [FTop (o :: os)] /\ c ∉ ps.(dead) /\ is_Some (pstep T F PF ps c)
      | 1 => stack_of ps c = Some [call_frame o; FTop os] /\ c ∉ ps.(dead) /\
             exists ps2, pstep T F PF ps c = Some ps2 /\ stack_of ps2 c = Some [FTop os] /\ ps2.(pb).(ran) = ps.(pb).(ran)
      | _ => True
      end.
Proof.
  exact (fun T F PF HL HT HP nq mx scripts tr0 ps0 c o os q Hr0 =>
           loud_bounded T F PF HL HT HP ps0 c o os q (prun_inv T F PF HT tr0 _ _ (pinit_inv nq mx scripts) Hr0)).
Qed.

(* on the current tables *)
Lemma clp_ploud : ploud gen_tables.
Proof. split; cbn; try done; by intros []. Qed.
Theorem C15p_fails_loudly_bounded_now : forall (F : facts) (PF : pfacts) nq mx scripts tr0 ps0 c o os q,
  prun gen_tables F PF (pinit nq mx scripts) tr0 = Some ps0 -> panicked ps0.(pb) q -> c ∉ ps0.(dead) -> op_q o = q ->
  stack_of ps0 c = Some [FTop (o :: os)] ->
  forall tr ps, prun gen_tables F PF ps0 tr = Some ps ->
    match ccount c tr with
    | 0 => stack_of ps c = Some [FTop (o :: os)] /\ c ∉ ps.(dead) /\ is_Some (pstep gen_tables F PF ps c)
    | 1 => stack_of ps c = Some [call_frame o; FTop os] /\ c ∉ ps.(dead) /\
           exists ps2, pstep gen_tables F PF ps c = Some ps2 /\ stack_of ps2 c = Some [FTop os] /\ ps2.(pb).(ran) = ps.(pb).(ran)
    | _ => True
    end.
Proof. exact (fun F PF => C15p_fails_loudly_bounded gen_tables F PF clp_ploud clp_own clp_ptab). Qed.

(* non-vacuity: caller 0: D0[panic]; after the pool thread (actor 2) has panicked, caller 1 calls sync, try_sync and desync on object 0:
   six steps, each call returns at once, nothing runs, only the desync's job (operation 3) is stored in the Panicked queue *)
Definition exL_scripts : list (list (op * bool)) := [[(ODesync 0, true)]; [(OSync 0, false); (OTrySync 0, false); (ODesync 0, false)]].
Definition exL_tr0 : list nat := [0; 0; 0; 0; 0; 0; 0; 0; 2; 2; 2; 2; 2; 2; 2].
Example C15p_fails_loudly_example :
  (exists ps0, prun gen_tables gen_facts pf_code (pinit 1 1 exL_scripts) exL_tr0 = Some ps0 /\
     (qs <$> ps0.(pb).(queues)) = [Panicked] /\ ps0.(dead) = [2] /\
     stack_of ps0 1 = Some [FTop [OSync 0; OTrySync 0; ODesync 0]]) /\
  (exists ps, prun gen_tables gen_facts pf_code (pinit 1 1 exL_scripts) (exL_tr0 ++ [1; 1; 1; 1; 1; 1]) = Some ps /\
     stack_of ps 1 = Some [FTop []] /\ (qs <$> ps.(pb).(queues)) = [Panicked] /\ (jobs <$> ps.(pb).(queues)) = [[JPlain 3]] /\
     ps.(pb).(ran) = [] /\ pterminal_b gen_tables gen_facts pf_code ps = true).
Proof. split; eexists; (split; [vm_compute; reflexivity|]); repeat split. Qed.

Print Assumptions C15p_call_on_panicked_queue_starts.
Print Assumptions C15p_call_on_panicked_queue_returns.
Print Assumptions C15p_fails_loudly_bounded.
Print Assumptions C15p_fails_loudly_bounded_now.
Print Assumptions C15p_fails_loudly_example.
