(* L1p: exclusive ownership (C01) survives panics: the invariant Inv of L1/Own.v holds in every reachable state of the panic model *)
From stdpp Require Import list numbers option.
From RecordUpdate Require Import RecordUpdate.
From L1 Require Import Model Own Shape Stuck.
From L1n Require Import Eff.
From L1p Require Import Model.

Definition dead_ok (ps : pstate) : Prop :=
  forall a, a ∈ ps.(dead) -> exists ac, ps.(pb).(actors) !! a = Some ac /\ forall q, cnt q ac.(stack) = 0.
Definition PInv (ps : pstate) : Prop := Inv ps.(pb) /\ dead_ok ps.

Lemma drop_job_obs s j : obs_eq (drop_job s j) s.
Proof.
  destruct j as [[o|o c|o c]|]; cbn [drop_job]; try (split; [done|split; done]).
  set (s1 := upda s c _).
  assert (H1 : obs_eq s1 s).
  { subst s1. split; [done|]. split; [|apply length_actors_upda]. intros b q. by apply stack_cnt_upda. }
  destruct (actors s1 !! c) as [ac|] eqn:Ec; [|done]. destruct (stack ac) as [|[] rest] eqn:Es; try done.
  destruct H1 as (Q1 & C1 & L1). split; [done|]. split; [|by rewrite length_actors_setstack].
  intros b q0. rewrite stack_cnt_setstack. case_decide as Hcb; [subst b|by apply C1].
  rewrite <- C1. unfold stack_cnt. rewrite Ec. cbn. by rewrite Es.
Qed.
Lemma drop_job_actor s j a ac : s.(actors) !! a = Some ac -> forall st, ac.(stack) = st -> (forall q r, st <> FSBwait q :: r) ->
  exists ac', (drop_job s j).(actors) !! a = Some ac' /\ ac'.(stack) = st.
Proof.
  intros Ea st Est Hnw. destruct j as [[o|o c|o c]|]; cbn [drop_job]; eauto.
  set (s1 := upda s c _).
  assert (H1 : exists ac1, s1.(actors) !! a = Some ac1 /\ ac1.(stack) = st).
  { subst s1. rewrite actors_upda_lookup. case_decide; subst; rewrite Ea; cbn; eauto. }
  destruct H1 as (ac1 & E1 & S1).
  destruct (actors s1 !! c) as [acc|] eqn:Ec; [|eauto]. destruct (stack acc) as [|[] rest] eqn:Es; eauto.
  rewrite actors_setstack_lookup. case_decide; [|eauto]. subst c. rewrite Ec in E1. injection E1 as <-. rewrite Es in S1. by destruct (Hnw q rest).
Qed.

Section OwnP.
  Context (T : tables) (F : facts) (PF : pfacts) (HT : own_conditions T).

  Lemma dead_ok_step ps a s' : dead_ok ps -> a ∉ ps.(dead) -> step T F ps.(pb) a = Some s' ->
    forall b, b ∈ ps.(dead) -> exists ac, s'.(actors) !! b = Some ac /\ forall q, cnt q ac.(stack) = 0.
  Proof.
    intros Hd Ha Hs b Hb. destruct (Hd b Hb) as (ac & Eb & Hc).
    assert (Hne : b <> a) by (intros ->; done).
    destruct (step_others T F _ a s' Hs b ac Hne Eb) as (ac' & Eb' & [Heq|(q & r & E1 & E2)]).
    - exists ac'. split; [done|]. intros q'. rewrite Heq. apply Hc.
    - exists ac'. split; [done|]. intros q'. specialize (Hc q'). rewrite E1 in Hc. rewrite E2. exact Hc.
  Qed.

  Lemma reap_pinv ds : forall s, NoDup ds -> Inv s -> (forall a, a ∈ ds -> exists ac, s.(actors) !! a = Some ac /\ forall q, cnt q ac.(stack) = 0) ->
    Inv (reap PF s ds).1 /\
    (forall a, a ∈ (reap PF s ds).2 -> exists ac, (reap PF s ds).1.(actors) !! a = Some ac /\ forall q, cnt q ac.(stack) = 0) /\
    (forall a, a ∈ (reap PF s ds).2 -> a ∈ ds) /\ NoDup (reap PF s ds).2 /\
    (forall b, b ∉ ds -> (reap PF s ds).1.(actors) !! b = s.(actors) !! b).
  Proof.
    induction ds as [|a r IH]; intros s Hnd HI Hd; cbn [reap].
    { split; [done|]. split; [intros a Ha; by apply elem_of_nil in Ha|]. split; [done|]. split; [constructor|done]. }
    apply list.NoDup_cons in Hnd as [Har Hnd].
    destruct (reap_one PF s a) as [s1|] eqn:E1.
    - unfold reap_one in E1. destruct (pool_thread_of s a) as [t|]; [|done]. cbn in E1. destruct (threads s !! t) as [th|]; [|done]. cbn in E1.
      destruct (_ || _); [|done]. injection E1 as <-.
      destruct (Hd a) as (ac & Ea & Hc); [by left|].
      set (s1 := setstack _ a [FTrecv t]).
      assert (HI1 : Inv s1).
      { eapply (inv_update_noq s s1 a (fun _ => 0) [FTrecv t] HI).
        - intros q'. by rewrite (stack_cnt_self s a ac q' Ea), Hc.
        - done.
        - intros b q'. subst s1. rewrite stack_cnt_setstack' by (by eexists). by rewrite stack_cnt_updt.
        - subst s1. by rewrite length_actors_setstack.
        - done. }
      assert (Hoth : forall b, b <> a -> s1.(actors) !! b = s.(actors) !! b).
      { intros b Hb. subst s1. rewrite actors_setstack_lookup. by rewrite decide_False by done. }
      assert (Hd1 : forall b, b ∈ r -> exists ac0, s1.(actors) !! b = Some ac0 /\ forall q, cnt q ac0.(stack) = 0).
      { intros b Hb. rewrite Hoth by (intros ->; done). apply Hd. by right. }
      destruct (IH s1 Hnd HI1 Hd1) as (G1 & G2 & G3 & G4 & G5). split; [done|]. split; [done|]. split; [intros b Hb; right; by apply G3|]. split; [done|].
      intros b Hb. rewrite G5 by (intros ?; apply Hb; by right). apply Hoth. intros ->. apply Hb. by left.
    - assert (Hd1 : forall b, b ∈ r -> exists ac0, s.(actors) !! b = Some ac0 /\ forall q, cnt q ac0.(stack) = 0) by (intros b Hb; apply Hd; by right).
      destruct (IH s Hnd HI Hd1) as (G1 & G2 & G3 & G4 & G5). destruct (reap PF s r) as [s' r'] eqn:Er. cbn in *. split; [done|]. split; [|split; [|split]].
      + intros b [->|Hb]%elem_of_cons; [|by apply G2]. rewrite G5 by done. apply Hd. by left.
      + intros b [->|Hb]%elem_of_cons; [by left|right; by apply G3].
      + constructor; [|done]. intros Hin. apply Har. by apply G3.
      + intros b Hb. apply G5. intros ?. apply Hb. by right.
  Qed.

  Lemma cnt0_obs s1 s b : obs_eq s1 s -> (exists ac, s.(actors) !! b = Some ac /\ forall q, cnt q ac.(stack) = 0) ->
    exists ac1, s1.(actors) !! b = Some ac1 /\ forall q, cnt q ac1.(stack) = 0.
  Proof.
    intros (_ & C1 & _) (ac & Eb & Hc).
    assert (H : forall q, stack_cnt s1 b q = Some 0) by (intros q; by rewrite C1, (stack_cnt_self s b ac q Eb), Hc).
    unfold stack_cnt in H. destruct (actors s1 !! b) as [ac1|]; [|by specialize (H 0)].
    exists ac1. split; [done|]. intros q. specialize (H q). cbn in H. by injection H.
  Qed.

  Definition PInv' (ps : pstate) : Prop := Inv ps.(pb) /\ dead_ok ps /\ NoDup ps.(dead).

  (* the panic step *)
  Lemma panic_inv ps a ac q o rest dies :
    PInv' ps -> a ∉ ps.(dead) -> ps.(pb).(actors) !! a = Some ac -> pclos ac = Some (q, o, rest, dies) ->
    PInv' (ps <| pb := setstack (updq (drop_job ps.(pb) (top_job ac)) q (fun x => x <| qs := Panicked |> <| owner := None |>)) a rest |>
              <| dead := if dies then a :: ps.(dead) else ps.(dead) |>).
  Proof.
    intros (HI & Hd & Hnd) Ha Ea Hp.
    set (s1 := drop_job (pb ps) (top_job ac)).
    assert (HI1 : Inv s1) by (eapply Inv_obs; [apply drop_job_obs|done]).
    assert (Hnw : forall q0 r, stack ac <> FSBwait q0 :: r).
    { intros q0 r E. unfold pclos in Hp. by rewrite E in Hp. }
    destruct (drop_job_actor (pb ps) (top_job ac) a ac Ea (stack ac) eq_refl Hnw) as (ac1 & Ea1 & Est1).
    set (g := fun x : queue => x <| qs := Panicked |> <| owner := None |>).
    set (s' := setstack (updq s1 q g) a rest).
    assert (HI' : Inv s').
    { eapply (inv_update s1 s' a (fun q' => cnt q' (stack ac)) q g rest HI1).
      - intros q'. by rewrite (stack_cnt_self s1 a ac1 q' Ea1), Est1.
      - intros q'. subst s'. rewrite queues_setstack, queues_updq. done.
      - intros b q'. subst s'. rewrite stack_cnt_setstack' by (by eexists). by rewrite stack_cnt_updq.
      - subst s'. by rewrite length_actors_setstack.
      - intros q' Hne. unfold pclos in Hp. destruct (stack ac) as [|fr st] eqn:Est; [done|].
        destruct fr; try done.
        + injection Hp as <- _ <- _. cbn. rewrite bool_decide_eq_false_2 by congruence. done.
        + destruct st as [|gf st]; [done|]. destruct gf; try done; case_decide; try done; injection Hp as <- _ <- _; subst; cbn; rewrite bool_decide_eq_false_2 by congruence; done.
        + destruct st as [|[] [|]]; try done. injection Hp as <- _ <- _. cbn. rewrite bool_decide_eq_false_2 by congruence. done.
      - intros qq Hq. right; right. split; [|done]. unfold pclos in Hp. destruct (stack ac) as [|fr st] eqn:Est; [done|].
        destruct fr; try done.
        + injection Hp as <- _ <- _. cbn. by rewrite bool_decide_eq_true_2.
        + destruct st as [|gf st]; [done|]. destruct gf; try done; case_decide; try done; injection Hp as <- _ <- _; subst; cbn; by rewrite bool_decide_eq_true_2.
        + destruct st as [|[] [|]]; try done. injection Hp as <- _ <- _. cbn. by rewrite bool_decide_eq_true_2. }
    assert (Hdead_old : forall b, b ∈ dead ps -> exists acb, s'.(actors) !! b = Some acb /\ forall q0, cnt q0 acb.(stack) = 0).
    { intros b Hb. assert (Hne : a <> b) by (intros ->; done).
      assert (E : actors s' !! b = actors s1 !! b) by (unfold s'; by rewrite actors_setstack_lookup, decide_False by done).
      destruct (cnt0_obs s1 (pb ps) b (drop_job_obs _ _) (Hd b Hb)) as (acb & E1 & E2). exists acb. split; [by rewrite E|done]. }
    split; [exact HI'|]. cbn [dead pb]. destruct dies.
    - split.
      + intros b [->|Hb]%elem_of_cons; [|by apply Hdead_old].
        assert (E : actors s' !! a = Some (ac1 <| stack := rest |>)).
        { unfold s'. rewrite actors_setstack_lookup, decide_True by done. change (actors (updq s1 q g)) with (actors s1). unfold s1. by rewrite Ea1. }
        exists (ac1 <| stack := rest |>). split; [exact E|]. cbn. intros q0. unfold pclos in Hp. destruct (stack ac) as [|fr st]; [done|]. destruct fr; try done.
        * destruct st as [|gf st]; [done|]. destruct gf; try done; case_decide; done.
        * destruct st as [|[] [|]]; try done. simplify_eq. done.
      + by constructor.
    - split; [exact Hdead_old|done].
  Qed.

  Lemma l1_inv ps a s' : PInv' ps -> a ∉ ps.(dead) -> step T F ps.(pb) a = Some s' -> forall pn pf, PInv' {| pb := s'; pan := pn; pflags := pf; dead := ps.(dead) |}.
  Proof.
    intros (HI & Hd & Hnd) Ha Hs pn pf. split; [by eapply (step_inv T F HT)|]. split; [|done].
    intros b Hb. by eapply dead_ok_step.
  Qed.

  Theorem pinv_step ps a ps' : PInv' ps -> pstep T F PF ps a = Some ps' -> PInv' ps'.
  Proof.
    intros HP. unfold pstep. case_bool_decide as Hdead; [done|].
    destruct (actors (pb ps) !! a) as [ac|] eqn:Ea; [|done]. cbn.
    assert (Hgen : (forall o os r, stack ac <> FTop (o :: os) :: r) -> (forall r, stack ac <> FSTlock :: r) ->
              match pclos ac with
              | Some (q, o, rest, dies) =>
                  if default false (pan ps !! o) then
                    Some (ps <| pb := setstack (updq (drop_job (pb ps) (top_job ac)) q (fun x => x <| qs := Panicked |> <| owner := None |>)) a rest |>
                             <| dead := if dies then a :: dead ps else dead ps |>)
                  else s' ← step T F (pb ps) a; Some (ps <| pb := s' |>)
              | None => s' ← step T F (pb ps) a; Some (ps <| pb := s' |>)
              end = Some ps' -> PInv' ps').
    { intros _ _. destruct (pclos ac) as [[[[q o] rest] dies]|] eqn:Hp.
      - destruct (default false (pan ps !! o)).
        + intros [= <-]. exact (panic_inv ps a ac q o rest dies HP Hdead Ea Hp).
        + destruct (step T F (pb ps) a) as [s'|] eqn:Hs; [|done]. cbn. intros [= <-]. destruct ps. by apply (l1_inv _ a s' HP Hdead Hs).
      - destruct (step T F (pb ps) a) as [s'|] eqn:Hs; [|done]. cbn. intros [= <-]. destruct ps. by apply (l1_inv _ a s' HP Hdead Hs). }
    destruct (stack ac) as [|fr rest] eqn:Est; [by apply Hgen|].
    destruct fr; try (by apply Hgen).
    - destruct script as [|o os]; [by apply Hgen|].
      destruct (step T F (pb ps) a) as [s'|] eqn:Hs; [|done]. cbn. intros [= <-]. destruct ps. by apply (l1_inv _ a s' HP Hdead Hs).
    - destruct HP as (HI & Hd & Hnd). destruct (reap_pinv (dead ps) (pb ps) Hnd HI Hd) as (G1 & G2 & G3 & G4 & G5).
      destruct (reap PF (pb ps) (dead ps)) as [s1 d1] eqn:Er. cbn in *.
      destruct (step T F s1 a) as [s'|] eqn:Hs; [|done]. cbn. intros [= <-].
      assert (Ha1 : a ∉ d1) by (intros Hin; by apply Hdead, G3).
      pose proof (l1_inv {| pb := s1; pan := pan ps; pflags := pflags ps; dead := d1 |} a s' (conj G1 (conj G2 G4)) Ha1 Hs (pan ps) (pflags ps)) as H. exact H.
  Qed.
End OwnP.
