(* C15 on the scheduler model, seventh part: the complete form of the positive half.

   C15p_only_waiters_on_panicked_queues_remain   in a reachable state in which nobody can move and no dead pool thread is left, a caller
        that is still inside the condition-variable wait of sync_background (frame FSBwait q) waits on a Panicked queue q.  With
        C15p_quiescent_is_complete_when_reaped (every actor is at the end of its script, in FSBwait, or a dormant pool thread): every caller
        whose operations all go to healthy objects has finished its script.
   C15p_quiescent_is_complete_when_reaped_full   hypotheses of L1's L-quiet theorem + own/imm conditions + ptab, pool maximum >= 1,
        wf_scripts; every reachable pterminal state with dead = []:
          - every non-Panicked queue is Idle with no stored jobs,
          - every pool thread is dormant (not busy, no wake-up pending, actor at [FTrecv t]),
          - every actor is stuck_ok (script finished / FSBwait / dormant pool thread), and FSBwait q only on a Panicked q,
          - the ids accounted for (Mids: ran, pending on a queue, or called-and-not-yet-pushed) are exactly ran ++ the ids of the jobs
            stored on Panicked queues, without repetition: an id issued on a healthy queue that is still accounted for is in ran.
        (Ids leave Mids only by a Busy/Panic answer or in a panic step - L1p/IdInv.v - so: every issued id ran, is stored on a Panicked
        queue, or was dropped in one of those ways.)
   C15p_quiescent_is_complete_when_reaped_full_now   the instance for the generated tables and facts.
   Not stated: that healthy queues are absent from the schedule (stale entries of Idle queues are not excluded by L1's invariants either). *)
From stdpp Require Import list numbers list_numbers option.
From L0 Require Import Types.
From Gen Require Import Tables.
From L1 Require Import Model Own Shape Stuck Live Wait Help.
From L1h Require Import Sim Inst.
From L1p Require Import Model OwnP Absorb MainP ShapeP QuietP IdAbs IdInv OnceP MaskP AllP QuietAll JInvP IdsP PropsL1p.

Theorem C15p_only_waiters_on_panicked_queues_remain : forall (T : tables) (F : facts) (PF : pfacts),
  core_tables T -> own_conditions T -> F.(f_dormant_blocks) = true -> ptab T ->
  forall nq mx scripts tr ps, wf_scripts nq (map fst <$> scripts) -> 1 <= mx ->
    prun T F PF (pinit nq mx scripts) tr = Some ps -> pterminal T F PF ps -> ps.(dead) = [] ->
    forall w ac q rest, ps.(pb).(actors) !! w = Some ac -> ac.(stack) = FSBwait q :: rest -> panicked ps.(pb) q.
Proof.
  exact (fun T F PF HK HT HF HPT nq mx scripts tr ps Hwf Hm Hr =>
           waiters_on_panicked T F PF ps
             (allp_run T F PF HK HT HF HPT tr (pinit nq mx scripts) ps (pinit_allp nq mx scripts Hwf Hm) Hr)
             (jinv_run T F PF HT tr (pinit nq mx scripts) ps (ap_s _ (pinit_allp nq mx scripts Hwf Hm)) (init_j nq mx (map fst <$> scripts)) Hr)).
Qed.

Theorem C15p_quiescent_is_complete_when_reaped_full : forall (T : tables) (F : facts) (PF : pfacts),
  core_tables T -> own_conditions T -> imm_conditions T -> F.(f_dormant_blocks) = true -> ptab T ->
  forall nq mx scripts tr ps, wf_scripts nq (map fst <$> scripts) -> 1 <= mx ->
    prun T F PF (pinit nq mx scripts) tr = Some ps -> pterminal T F PF ps -> ps.(dead) = [] ->
    (forall q qq, ps.(pb).(queues) !! q = Some qq -> qq.(qs) <> Panicked -> qq.(qs) = Idle /\ qq.(jobs) = []) /\
    (forall t th, ps.(pb).(threads) !! t = Some th ->
       th.(busy) = false /\ th.(chan) = 0 /\ stacks ps.(pb) !! (ncallers ps.(pb) + t) = Some [FTrecv t]) /\
    (forall a ac, ps.(pb).(actors) !! a = Some ac ->
       stuck_ok ps.(pb) ac.(stack) /\ forall q rest, ac.(stack) = FSBwait q :: rest -> panicked ps.(pb) q) /\
    Mids ps.(pb) = ps.(pb).(ran) ++ sumq (stored_panicked ps.(pb)) (nqs ps.(pb)) /\
    NoDup (Mids ps.(pb)).
Proof.
  exact (fun T F PF HK HT HI HF HPT nq mx scripts tr ps Hwf Hm Hr Hterm Hdead =>
    let HA := allp_run T F PF HK HT HF HPT tr (pinit nq mx scripts) ps (pinit_allp nq mx scripts Hwf Hm) Hr in
    let HJ := jinv_run T F PF HT tr (pinit nq mx scripts) ps (ap_s _ (pinit_allp nq mx scripts Hwf Hm)) (init_j nq mx (map fst <$> scripts)) Hr in
    match quiescent_reaped T F PF ps HA Hterm Hdead with
    | conj C1 (conj C2 C3) =>
        conj C1 (conj C2 (conj
          (fun a ac Ea => conj (C3 a ac Ea) (fun q rest Est => waiters_on_panicked T F PF ps HA HJ Hterm Hdead a ac q rest Ea Est))
          (conj (ids_at_terminal T F PF ps HA Hterm Hdead) (proj1 (fi_i ps (preach_finv T F PF HT HI nq mx scripts tr ps Hr))))))
    end).
Qed.

Theorem C15p_quiescent_is_complete_when_reaped_full_now : forall (PF : pfacts) nq mx scripts tr ps,
  wf_scripts nq (map fst <$> scripts) -> 1 <= mx ->
    prun gen_tables gen_facts PF (pinit nq mx scripts) tr = Some ps -> pterminal gen_tables gen_facts PF ps -> ps.(dead) = [] ->
    (forall q qq, ps.(pb).(queues) !! q = Some qq -> qq.(qs) <> Panicked -> qq.(qs) = Idle /\ qq.(jobs) = []) /\
    (forall t th, ps.(pb).(threads) !! t = Some th ->
       th.(busy) = false /\ th.(chan) = 0 /\ stacks ps.(pb) !! (ncallers ps.(pb) + t) = Some [FTrecv t]) /\
    (forall a ac, ps.(pb).(actors) !! a = Some ac ->
       stuck_ok ps.(pb) ac.(stack) /\ forall q rest, ac.(stack) = FSBwait q :: rest -> panicked ps.(pb) q) /\
    Mids ps.(pb) = ps.(pb).(ran) ++ sumq (stored_panicked ps.(pb)) (nqs ps.(pb)) /\
    NoDup (Mids ps.(pb)).
Proof.
  exact (fun PF => C15p_quiescent_is_complete_when_reaped_full gen_tables gen_facts PF clh_core clp_own clh_imm clh_dormant_blocks clp_ptab).
Qed.

Print Assumptions C15p_only_waiters_on_panicked_queues_remain.
Print Assumptions C15p_quiescent_is_complete_when_reaped_full.
Print Assumptions C15p_quiescent_is_complete_when_reaped_full_now.
