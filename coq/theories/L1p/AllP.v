(* L1's liveness invariants for runs with panics: QInv and KInv hold of the masked state (Panicked queues replaced by idle, empty ones),
   PoolInv and JInv of the state itself.  This file: the mask of a state, and preservation by the steps of the L1 model. *)
From stdpp Require Import list numbers list_numbers option.
From RecordUpdate Require Import RecordUpdate.
From L1 Require Import Model Own Shape Stuck Live Wait Help Final Pool.
From L1p Require Import Model OwnP Absorb MaskP TouchP.

Definition Pof (s : state) (q : nat) : bool :=
  match s.(queues) !! q with Some qq => match qq.(qs) with Panicked => true | _ => false end | None => false end.
Definition mask (s : state) : state := maskP (Pof s) s.

Lemma Pof_true s q : Pof s q = true <-> panicked s q.
Proof.
  unfold Pof, panicked. split.
  - destruct (queues s !! q) as [qq|]; [|done]. destruct (qs qq) eqn:E; try done. eauto.
  - intros (qq & -> & ->). done.
Qed.
Lemma Pof_queues s1 s : s1.(queues) = s.(queues) -> Pof s1 = Pof s.
Proof. intros H. unfold Pof. by rewrite H. Qed.
Lemma maskP_ext P1 P2 s : (forall q, P1 q = P2 q) -> maskP P1 s = maskP P2 s.
Proof. intros H. unfold maskP. assert (E : mqs P1 (queues s) = mqs P2 (queues s)) by (unfold mqs; apply imap_ext; intros i x _; by rewrite H). by rewrite E. Qed.

Lemma Shape_mask P s : Shape s -> Shape (maskP P s).
Proof. intros [A B C D E G H]. split; [exact A|exact B|exact C|exact D|exact E|exact G|exact H]. Qed.
Lemma Inv_mask s : Inv s -> Inv (mask s).
Proof.
  intros [I1 I2 I3]. split.
  - intros b q qq n Hc Hq. cbn in Hq. rewrite mqs_lookup in Hq. destruct (queues s !! q) as [qr|] eqn:E; [|done]. cbn in Hq. injection Hq as <-.
    destruct (Pof s q) eqn:HP.
    + cbn. rewrite decide_False by done. specialize (I1 b q qr n Hc E). rewrite I1. apply decide_False. intros Ho.
      assert (Hr : qs qr = Running) by (apply (I2 q qr E); by rewrite Ho). unfold Pof in HP. rewrite E, Hr in HP. done.
    + by apply (I1 b q qr n Hc E).
  - intros q qq Hq. cbn in Hq. rewrite mqs_lookup in Hq. destruct (queues s !! q) as [qr|] eqn:E; [|done]. cbn in Hq. injection Hq as <-.
    destruct (Pof s q); [|exact (I2 q qr E)]. cbn. split; [by intros [? ?]|done].
  - intros q qq b Hq Ho. cbn in Hq. rewrite mqs_lookup in Hq. destruct (queues s !! q) as [qr|] eqn:E; [|done]. cbn in Hq. injection Hq as <-.
    destruct (Pof s q); [done|]. by apply (I3 q qr b E).
Qed.

Record LInv (s : state) : Prop := { li_q : QInv (mask s); li_k : KInv (mask s) }.

Section LStep.
  Context (T : tables) (F : facts) (HK : core_tables T) (HT : own_conditions T) (HF : F.(f_dormant_blocks) = true) (HPT : ptab T).

  Lemma step_linv s a s' : Shape s -> Inv s -> PoolInv s -> 1 <= s.(maxt) -> LInv s -> step T F s a = Some s' -> LInv s'.
  Proof.
    intros HS HI HP Hm [HQ HKI] Hstep.
    assert (Hboth : QInv (maskP (Pof s) s') /\ KInv (maskP (Pof s) s')).
    { pose proof Hstep as Hstep0. unfold step in Hstep0.
      destruct (actors s !! a) as [ac|] eqn:Ea; cbn in Hstep0; [|congruence].
      destruct (stack ac) as [|fr rest] eqn:Est; [congruence|]. clear Hstep0.
      assert (Hsim : (forall q, touched fr = Some q -> Pof s q = false) -> QInv (maskP (Pof s) s') /\ KInv (maskP (Pof s) s')).
      { intros Hto. assert (Hs : step T F (mask s) a = Some (maskP (Pof s) s')).
        { eapply (step_mask T F (Pof s) s a s' ac fr rest Ea Est Hto); [|apply (k_next_i _ HK)|exact Hstep].
          intros q qq Hp Hq. unfold Pof in Hp. rewrite Hq in Hp. destruct (qs qq); try done. apply (pt_next _ HPT). }
        split.
        - eapply step_q with (s := mask s) (a := a); try eassumption; first [by apply Shape_mask|by apply Inv_mask].
        - eapply step_k with (s := mask s) (a := a); try eassumption; first [by apply Shape_mask|by apply Inv_mask|exact HP|exact Hm]. }
      destruct (touched fr) as [q0|] eqn:Ht; [|by apply Hsim].
      destruct (Pof s q0) eqn:HP0; [|apply Hsim; by intros q [= <-]].
      pose proof HP0 as HP1. unfold Pof in HP1. destruct (queues s !! q0) as [qq0|] eqn:Hq0; [|done].
      assert (Hpan : qs qq0 = Panicked) by (by destruct (qs qq0)).
      by eapply (step_touch T F (Pof s) HT HPT s a s' ac fr rest q0 qq0). }
    destruct Hboth as [HQ' HK'].
    assert (Hext : forall q, Pof s q = Pof s' q).
    { intros q. destruct (Pof s q) eqn:E1.
      - symmetry. apply Pof_true. eapply step_keeps_panicked; eauto. by apply Pof_true.
      - destruct (Pof s' q) eqn:E2; [|done]. exfalso. unfold Pof in E2. destruct (queues s' !! q) as [qq'|] eqn:Hq'; [|done].
        assert (Hl : queues (maskP (Pof s) s') !! q = Some qq') by (by rewrite mask_lookup_out).
        destruct (qc_core _ _ _ (HQ' q qq' Hl)) as [Hc|[Hc|Hc]]; rewrite Hc in E2; done. }
    split; unfold mask; rewrite <- (maskP_ext (Pof s) (Pof s') s' Hext); done.
  Qed.
End LStep.
