(* Masking: the queues in a set P (the Panicked ones) are replaced by idle, empty queues.  A step of the L1 model that does not read or
   write a queue of P is the same step on the masked state: this is how L1's liveness invariants are imported for runs with panics. *)
From stdpp Require Import list numbers list_numbers option.
From RecordUpdate Require Import RecordUpdate.
From L1 Require Import Model Own Shape Stuck Live Wait Help Final Pool.

Definition mq (qq : queue) : queue := {| qs := Idle; jobs := []; wake_blocked := []; owner := None |}.
Definition mqs (P : nat -> bool) (l : list queue) : list queue := imap (fun i qq => if P i then mq qq else qq) l.
Definition maskP (P : nat -> bool) (s : state) : state := s <| queues := mqs P s.(queues) |>.

(* the queue a frame reads or writes *)
Definition touched (fr : frame) : option nat :=
  match fr with
  | FD1 q | FS1 q | FSIidle q | FSDpush q | FSDidle q | FSBreg q | FSBpush q | FSBclaim q | FSBstealidle q | FSBdone q
  | FROdeq q | FTS1 q | FRQ1 q | FDRdeq q | FDRfin q => Some q
  | _ => None
  end.

Lemma mqs_lookup P l q : mqs P l !! q = (fun qq => if P q then mq qq else qq) <$> l !! q.
Proof. unfold mqs. by rewrite list_lookup_imap. Qed.
Lemma mask_lookup_out P s q : P q = false -> (maskP P s).(queues) !! q = s.(queues) !! q.
Proof. intros H. cbn. rewrite mqs_lookup, H. by destruct (queues s !! q). Qed.
Lemma mqs_lookup_out P l q : P q = false -> mqs P l !! q = l !! q.
Proof. intros H. rewrite mqs_lookup, H. by destruct (l !! q). Qed.
Lemma mqs_alter P l q f : P q = false -> mqs P (alter f q l) = alter f q (mqs P l).
Proof.
  intros H. apply list_eq. intros i. rewrite mqs_lookup. destruct (decide (i = q)) as [->|Hne].
  - rewrite !list_lookup_alter, mqs_lookup, H. by destruct (l !! q).
  - rewrite !list_lookup_alter_ne by done. by rewrite mqs_lookup.
Qed.
Lemma mqs_alter_in P l q f : P q = true -> mqs P (alter f q l) = mqs P l.
Proof.
  intros H. apply list_eq. intros i. rewrite !mqs_lookup. destruct (decide (i = q)) as [->|Hne].
  - rewrite list_lookup_alter, H. by destruct (l !! q).
  - by rewrite list_lookup_alter_ne.
Qed.
Lemma mask_updq P s q f : P q = false -> maskP P (updq s q f) = updq (maskP P s) q f.
Proof. intros H. unfold maskP, updq. cbn -[mqs]. by rewrite mqs_alter. Qed.
Lemma mask_upda P s a f : maskP P (upda s a f) = upda (maskP P s) a f.
Proof. done. Qed.
Lemma mask_setstack P s a st : maskP P (setstack s a st) = setstack (maskP P s) a st.
Proof. done. Qed.
Lemma mask_updt P s t f : maskP P (updt s t f) = updt (maskP P s) t f.
Proof. done. Qed.
Lemma mask_notify P F s w : maskP P (notify F s w) = notify F (maskP P s) w.
Proof.
  unfold notify.
  assert (E : (if f_sticky_notify F then upda (maskP P s) w (fun x => x <| kicked := true |>) else maskP P s) =
              maskP P (if f_sticky_notify F then upda s w (fun x => x <| kicked := true |>) else s)) by (by destruct (f_sticky_notify F)).
  rewrite E. set (s1 := if f_sticky_notify F then _ else s). change (actors (maskP P s1)) with (actors s1).
  destruct (actors s1 !! w) as [aw|]; [|done]. by destruct (stack aw) as [|[] ?].
Qed.
Lemma mask_foldl_notify P F ws : forall s, maskP P (foldl (notify F) s ws) = foldl (notify F) (maskP P s) ws.
Proof. induction ws as [|w ws IH]; intros s; cbn; [done|]. by rewrite IH, mask_notify. Qed.
Lemma mask_run_job P F s j : maskP P (run_job F s j) = run_job F (maskP P s) j.
Proof.
  destruct j as [o|o c|o c]; cbn [run_job]; try done.
  set (s1 := upda (s <| ran := _ |>) c _).
  change (upda (maskP P s <| ran := o :: ran (maskP P s) |>) c (fun x => x <| result := true |> <| ready := true |>)) with (maskP P s1).
  change (actors (maskP P s1)) with (actors s1).
  destruct (actors s1 !! c) as [ac|]; [|done]. by destruct (stack ac) as [|[] ?].
Qed.

Section Sim.
  Context (T : tables) (F : facts) (P : nat -> bool).

  Lemma step_mask s a s' ac fr rest : s.(actors) !! a = Some ac -> ac.(stack) = fr :: rest ->
    (forall q, touched fr = Some q -> P q = false) ->
    (forall q qq, P q = true -> s.(queues) !! q = Some qq -> T.(t_next) qq.(qs) = None) -> T.(t_next) Idle = None ->
    step T F s a = Some s' -> step T F (maskP P s) a = Some (maskP P s').
  Proof.
    intros Ea Est Hto Hnx Hni Hstep. unfold step in *. change (actors (maskP P s)) with (actors s). rewrite Ea in *. cbn in *. rewrite Est in *.
    destruct fr.
    all: cbn beta iota zeta in *.
    all: try (rewrite mqs_lookup_out by (apply Hto; reflexivity)).
    all: change (sched_held (maskP P s)) with (sched_held s); change (threads_held (maskP P s)) with (threads_held s);
         change (threads (maskP P s)) with (threads s); change (sched (maskP P s)) with (sched s); change (maxt (maskP P s)) with (maxt s);
         change (actors (maskP P s)) with (actors s); change (nextop (maskP P s)) with (nextop s); change (ran (maskP P s)) with (ran s).
    all: repeat (first
         [ match type of Hstep with
           | context [queues _ !! ?q] => let E := fresh "Eq" in destruct (queues s !! q) as [qq|] eqn:E; cbn in Hstep |- *; [|congruence]
           | context [threads _ !! ?t] => let E := fresh "Et" in destruct (threads s !! t) as [th|] eqn:E; cbn in Hstep |- *
           end
         | match type of Hstep with context [match ?x with _ => _ end] => let E := fresh "E" in destruct x eqn:E end; cbn in Hstep |- *; try congruence ]).
    all: try discriminate.
    all: try (injection Hstep as <-).
    all: rewrite ?mask_setstack, ?mask_upda, ?mask_updt, ?mask_run_job, ?mask_foldl_notify.
    all: rewrite ?mask_updq by (apply Hto; reflexivity).
    all: rewrite ?mask_foldl_notify, ?mask_run_job.
    all: try reflexivity.
    (* the schedule scan *)
    all: match goal with |- context [mqs P (queues _) !! ?n] => destruct (P n) eqn:HP end.
    all: try (rewrite mqs_lookup_out by done).
    all: try (rewrite mqs_lookup, HP).
    all: repeat match goal with H : queues _ !! _ = _ |- _ => rewrite H end; cbn.
    all: rewrite ?Hni.
    all: try reflexivity.
    all: try (match goal with H : queues _ !! _ = Some _, H2 : t_next T _ = Some _ |- _ => rewrite (Hnx _ _ HP H) in H2; discriminate H2 end).
    all: repeat match goal with H : t_next T _ = _ |- _ => rewrite H end.
    all: rewrite ?mask_setstack; try rewrite mask_updq by done.
    all: try reflexivity.
  Qed.
End Sim.
