(* L1p: the stack shapes (Shape) and the existence of the queues the frames mention (WF') survive the panic step and the reap *)
From stdpp Require Import list numbers option.
From RecordUpdate Require Import RecordUpdate.
From L1 Require Import Model Own Shape Stuck.
From L1h Require Import WeakWF.
From L1n Require Import Eff.
From L1p Require Import Model OwnP Absorb MainP Loud DeadP.

Lemma drop_job_shape s j : Shape s -> Shape (drop_job s j).
Proof.
  intros HS. destruct j as [[o|o c|o c]|]; cbn [drop_job]; try done.
  set (s1 := upda s c _). assert (H1 : Shape s1) by (by apply Shape_kick).
  destruct (actors s1 !! c) as [ac|] eqn:Ec; [|done]. destruct (stack ac) as [|[] rest] eqn:Es; try done. by eapply Shape_wake.
Qed.
Lemma drop_job_wf' s j : WF' s -> WF' (drop_job s j).
Proof.
  intros HS. destruct j as [[o|o c|o c]|]; cbn [drop_job]; try done.
  set (s1 := upda s c _). assert (H1 : WF' s1) by (by apply WF'_kick).
  destruct (actors s1 !! c) as [ac|] eqn:Ec; [|done]. destruct (stack ac) as [|[] rest] eqn:Es; try done. by eapply WF'_wake.
Qed.
Lemma drop_job_len s j : length (drop_job s j).(queues) = length s.(queues).
Proof. by rewrite drop_job_queues. Qed.

(* the shapes pclos recognises *)
Lemma pclos_stack ac q o rest dies : pclos ac = Some (q, o, rest, dies) ->
  (exists r0, ac.(stack) = FSIrun q :: rest /\ r0 = rest /\ dies = false /\ o = ac.(opctr)) \/
  (exists j g, ac.(stack) = FROrun q j :: g :: rest /\ (g = FSDloop q \/ g = FSBsteal q) /\ dies = false /\ o = job_op j) \/
  (exists j t, ac.(stack) = [FDRrun q j; FTlock t] /\ rest = [FTlock t] /\ dies = true /\ o = job_op j).
Proof.
  unfold pclos. destruct (stack ac) as [|fr st]; [done|]. destruct fr; try done.
  - intros [= <- <- <- <-]. left. exists st. repeat split; reflexivity.
  - destruct st as [|gf st]; [done|]. destruct gf; try done; (case_decide as Hq; [|done]); intros [= <- <- <- <-]; subst; right; left; eexists _, _; (split; [reflexivity|]); (split; [eauto|]); done.
  - destruct st as [|[] [|]]; try done. intros [= <- <- <- <-]. right; right. eexists _, _. done.
Qed.

Section ShapeP.
  Context (T : tables) (F : facts) (PF : pfacts).

  Lemma panic_shape s a ac q o rest dies g :
    Shape s -> WF' s -> s.(actors) !! a = Some ac -> pclos ac = Some (q, o, rest, dies) ->
    Shape (setstack (updq (drop_job s (top_job ac)) q g) a rest) /\ WF' (setstack (updq (drop_job s (top_job ac)) q g) a rest).
  Proof.
    intros HS HW Ea Hp.
    set (s1 := drop_job s (top_job ac)).
    assert (HS1 : Shape s1) by (by apply drop_job_shape). assert (HW1 : WF' s1) by (by apply drop_job_wf').
    assert (Hnw : forall q0 r, stack ac <> FSBwait q0 :: r) by (intros q0 r E; unfold pclos in Hp; by rewrite E in Hp).
    destruct (drop_job_actor s (top_job ac) a ac Ea _ eq_refl Hnw) as (ac1 & Ea1 & Est1).
    set (s2 := updq s1 q g).
    assert (HS2 : Shape s2) by (eapply (Shape_view s2 s1); done).
    assert (HW2 : WF' s2) by (eapply (WF'_view s2 s1); [done|unfold s2, updq; cbn; by rewrite alter_length|done]).
    assert (Ea2 : actors s2 !! a = Some ac1) by done.
    pose proof HS2 as [L Ta Ca Po He Sh Th].
    pose proof (kind_of s2 a ac1 HS2 Ea2) as Hkind. rewrite Est1 in Hkind.
    split.
    - eapply (Shape_update s2 _ a ac1 rest HS2 Ea2); try done.
      + apply stacks_setstack.
      + intros t th' Ht. exists th'. split; [done|]. split; [done|]. case_decide as Hat; [|done]. subst a.
        rewrite (He t th' ac1 Ht Ea2), Est1.
        destruct (pclos_stack ac q o rest dies Hp) as [(r0 & E & _)|[(j & g0 & E & _)|(j & t0 & E & -> & _)]]; rewrite E; try done.
        all: destruct Hkind as [[Hlt _]|(t1 & _ & Hok)]; [lia|]; rewrite E in Hok; by destruct rest as [|? [|]].
      + intros Hlt. destruct Hkind as [[_ Hok]|(t1 & Hat & _)]; [|lia].
        destruct (pclos_stack ac q o rest dies Hp) as [(r0 & E & _)|[(j & g0 & E & _)|(j & t0 & E & -> & _)]]; rewrite E in Hok.
        * apply caller_ok_inv in Hok as [(-> & Hf)|[(os & -> & Hsf)|(g1 & os & -> & Hpo)]]; done.
        * apply caller_ok_inv in Hok as [(E2 & Hf)|[(os & E2 & Hsf)|(g1 & os & E2 & Hpo)]]; [done|done|]. by injection E2 as _ ->.
        * done.
      + intros t1 Hat. destruct Hkind as [[Hlt _]|(t2 & Hat2 & Hok)]; [lia|]. assert (t2 = t1) as -> by lia.
        destruct (pclos_stack ac q o rest dies Hp) as [(r0 & E & _)|[(j & g0 & E & _)|(j & t0 & E & -> & _)]]; rewrite E in Hok.
        all: first [ done | by destruct rest as [|? [|]] | (cbn in Hok |- *; done) ].
      + cbn. rewrite Est1. destruct (pclos_stack ac q o rest dies Hp) as [(r0 & E & _)|[(j & g0 & E & _)|(j & t0 & E & -> & _)]]; rewrite E; try done.
        all: destruct rest as [|[] [|]]; try done.
        all: exfalso; destruct Hkind as [[_ Hok]|(t1 & _ & Hok)]; rewrite E in Hok; try done; apply caller_ok_inv in Hok as [(? & Hf)|[(os & ? & _)|(g1 & os & E2 & Hpo)]]; done.
      + intros Hex. exfalso. destruct rest as [|[] [|]]; try done.
        destruct (pclos_stack ac q o [FTexam t] dies Hp) as [(r0 & E & _)|[(j & g0 & E & _)|(j & t0 & E & ? & _)]]; try done;
          destruct Hkind as [[_ Hok]|(t1 & _ & Hok)]; rewrite E in Hok; try done; apply caller_ok_inv in Hok as [(? & Hf)|[(os & ? & _)|(g1 & os & E2 & Hpo)]]; done.
      + cbn. rewrite Est1. destruct (pclos_stack ac q o rest dies Hp) as [(r0 & E & _)|[(j & g0 & E & _)|(j & t0 & E & -> & _)]]; rewrite E; try done.
        all: destruct rest as [|[] ?]; try done.
        all: exfalso; destruct Hkind as [[_ Hok]|(t1 & _ & Hok)]; rewrite E in Hok; try done; apply caller_ok_inv in Hok as [(? & Hf)|[(os & ? & _)|(g1 & os & E2 & Hpo)]]; done.
      + intros Hex. exfalso. destruct rest as [|[] ?]; try done.
        destruct (pclos_stack ac q o _ dies Hp) as [(r0 & E & _)|[(j & g0 & E & _)|(j & t0 & E & ? & _)]]; try done;
          destruct Hkind as [[_ Hok]|(t1 & _ & Hok)]; rewrite E in Hok; try done; apply caller_ok_inv in Hok as [(? & Hf)|[(os & ? & _)|(g1 & os & E2 & Hpo)]]; done.
    - eapply (WF'_update s2 _ a rest HW2); [apply stacks_setstack|done|].
      pose proof (WF'_self s2 a ac1 HW2 Ea2) as Hw. rewrite Est1 in Hw.
      destruct (pclos_stack ac q o rest dies Hp) as [(r0 & E & _)|[(j & g0 & E & _)|(j & t0 & E & -> & _)]]; rewrite E in Hw; cbn in Hw.
      + by apply andb_true_iff in Hw as [_ Hw].
      + apply andb_true_iff in Hw as [_ Hw]. by apply andb_true_iff in Hw as [_ Hw].
      + by apply andb_true_iff in Hw as [_ Hw].
  Qed.

  Lemma pool_thread_of_spec s a t : pool_thread_of s a = Some t -> exists th, s.(threads) !! t = Some th /\ th.(tactor) = a.
  Proof.
    unfold pool_thread_of. destruct (list_find _ _) as [[i th]|] eqn:E; [|done]. cbn. intros [= <-].
    apply list_find_Some in E as (H1 & H2 & _). eauto.
  Qed.

  Lemma reap_one_shape s a s1 ac t0 : Shape s -> WF' s -> s.(actors) !! a = Some ac -> ac.(stack) = [FTlock t0] ->
    reap_one PF s a = Some s1 -> Shape s1 /\ WF' s1.
  Proof.
    intros HS HW Ea Est Hr. unfold reap_one in Hr. destruct (pool_thread_of s a) as [t|] eqn:Ept; [|done]. cbn in Hr.
    destruct (pool_thread_of_spec s a t Ept) as (th & Et & Hta). rewrite Et in Hr. cbn in Hr. destruct (_ || _); [|done]. injection Hr as <-.
    pose proof HS as [L Ta Ca Po He Sh Th].
    assert (Hat : a = ncallers s + t) by (rewrite <- Hta; by apply Ta).
    split.
    - eapply (Shape_update s _ a ac [FTrecv t] HS Ea).
      + by rewrite stacks_setstack.
      + rewrite threads_setstack. apply length_threads_updt.
      + intros t' th' Ht'. rewrite threads_setstack, threads_updt_lookup in Ht'. case_decide as Htt.
        * subst t'. rewrite Et in Ht'. cbn in Ht'. injection Ht' as <-. exists th. split; [done|]. split; [done|]. cbn. by rewrite decide_True.
        * exists th'. split; [done|]. split; [done|]. rewrite decide_False; [done|]. intros E. apply Htt. lia.
      + intros Hlt. lia.
      + intros t1 E. assert (t1 = t) as -> by lia. cbn. by rewrite bool_decide_eq_true_2.
      + cbn. by rewrite Est.
      + done.
      + cbn. by rewrite Est.
      + done.
    - eapply (WF'_update s _ a [FTrecv t] HW); [by rewrite stacks_setstack|done|done].
  Qed.

  Lemma reap_shape ds : forall s, Shape s -> WF' s -> NoDup ds ->
    (forall a, a ∈ ds -> exists ac t, s.(actors) !! a = Some ac /\ ac.(stack) = [FTlock t]) ->
    Shape (reap PF s ds).1 /\ WF' (reap PF s ds).1.
  Proof.
    induction ds as [|a r IH]; intros s HS HW Hnd Hd; cbn [reap]; [done|].
    apply list.NoDup_cons in Hnd as [Har Hnd].
    destruct (reap_one PF s a) as [s1|] eqn:E1.
    - destruct (Hd a) as (ac & t0 & Ea & Est); [by left|]. destruct (reap_one_shape s a s1 ac t0 HS HW Ea Est E1) as [HS1 HW1].
      apply IH; try done. intros b Hb. rewrite (reap_one_actors PF s a s1 b E1) by (intros ->; done). apply Hd. by right.
    - specialize (IH s HS HW Hnd). destruct (reap PF s r) as [s' r']. apply IH. intros b Hb. apply Hd. by right.
  Qed.

  Context (HT : own_conditions T).

  Record SInv (ps : pstate) : Prop := { si_p : PInv' ps; si_d : dead_lock ps; si_s : Shape ps.(pb); si_w : WF' ps.(pb) }.

  Lemma sinv_step ps a ps' : SInv ps -> pstep T F PF ps a = Some ps' -> SInv ps'.
  Proof.
    intros [HP HD HS HW] Hs. split; [by eapply (pinv_step T F PF HT)|by eapply (dead_lock_step T F PF)| |].
    all: unfold pstep in Hs; case_bool_decide as Hdead; [done|].
    all: destruct (actors (pb ps) !! a) as [ac|] eqn:Ea; [|done]; cbn in Hs.
    all: assert (Hgen : match pclos ac with
              | Some (q0, o, rest, dies) =>
                  if default false (pan ps !! o) then
                    Some (ps <| pb := setstack (updq (drop_job (pb ps) (top_job ac)) q0 (fun x => x <| qs := Panicked |> <| owner := None |>)) a rest |>
                             <| dead := if dies then a :: dead ps else dead ps |>)
                  else s' ← step T F (pb ps) a; Some (ps <| pb := s' |>)
              | None => s' ← step T F (pb ps) a; Some (ps <| pb := s' |>)
              end = Some ps' -> Shape ps'.(pb) /\ WF' ps'.(pb)).
    1,3: (destruct (pclos ac) as [[[[q0 o] rest] dies]|] eqn:Hp;
      [ destruct (default false (pan ps !! o));
        [ intros [= <-]; cbn; by eapply panic_shape
        | destruct (step T F (pb ps) a) as [s'|] eqn:E; [|done]; cbn; intros [= <-]; cbn; split; [by eapply step_shape|by eapply step_wf'] ]
      | destruct (step T F (pb ps) a) as [s'|] eqn:E; [|done]; cbn; intros [= <-]; cbn; split; [by eapply step_shape|by eapply step_wf'] ]).
    all: assert (Hres : Shape ps'.(pb) /\ WF' ps'.(pb)); [|by destruct Hres].
    all: destruct (stack ac) as [|fr rest] eqn:Est; [by apply Hgen|].
    all: destruct fr; try (by apply Hgen).
    all: try (destruct script as [|o os]; [by apply Hgen|];
              destruct (step T F (pb ps) a) as [s'|] eqn:E; [|done]; cbn in Hs; injection Hs as <-; cbn; split; [by eapply step_shape|by eapply step_wf']).
    all: destruct HP as (HI & Hd & Hnd); destruct (reap_shape (dead ps) (pb ps) HS HW Hnd HD) as [G1 G2];
         destruct (reap PF (pb ps) (dead ps)) as [s1 d1]; cbn in *;
         destruct (step T F s1 a) as [s'|] eqn:E; [|done]; cbn in Hs; injection Hs as <-; cbn; split; [by eapply step_shape|by eapply step_wf'].
  Qed.
End ShapeP.
