(* Assembly: the liveness invariants along runs with panics, and the terminal theorem when no dead thread is left. *)
From stdpp Require Import list numbers list_numbers option.
From RecordUpdate Require Import RecordUpdate.
From L1 Require Import Model Own Shape Stuck Live Wait Help Final Pool.
From L1h Require Import WeakWF.
From L1p Require Import Model OwnP Absorb MainP DeadP ShapeP QuietP MaskP TouchP AllP PanicP ReapP.

Record AllP (ps : pstate) : Prop := {
  ap_s : SInv ps; ap_wf : WF ps.(pb); ap_pool : PoolInv ps.(pb); ap_l : LInv ps.(pb); ap_m : 1 <= ps.(pb).(maxt) }.

Lemma drop_job_maxt s j : (drop_job s j).(maxt) = s.(maxt).
Proof.
  destruct j as [[o|o c|o c]|]; cbn [drop_job]; try done.
  set (s1 := upda s c _). destruct (actors s1 !! c) as [ac|]; [|done]. by destruct (stack ac) as [|[] rest].
Qed.
Lemma reap_maxt PF ds : forall s, (reap PF s ds).1.(maxt) = s.(maxt).
Proof.
  induction ds as [|a r IH]; intros s; cbn [reap]; [done|].
  destruct (reap_one PF s a) as [s1|] eqn:E1.
  - rewrite IH. unfold reap_one in E1. destruct (pool_thread_of s a); [|done]. cbn in E1. destruct (threads s !! n); [|done]. cbn in E1. destruct (_ || _); [|done]. by injection E1 as <-.
  - specialize (IH s). by destruct (reap PF s r).
Qed.

Section Assemble.
  Context (T : tables) (F : facts) (PF : pfacts) (HK : core_tables T) (HT : own_conditions T) (HF : F.(f_dormant_blocks) = true) (HPT : ptab T).

  Lemma l1_parts s a s' : Shape s -> Inv s -> PoolInv s -> LInv s -> 1 <= s.(maxt) -> step T F s a = Some s' ->
    PoolInv s' /\ LInv s' /\ 1 <= s'.(maxt).
  Proof.
    intros HS HI HP HL Hm Hs. split; [by eapply step_pool|]. split; [by eapply (step_linv T F HK HT HF HPT)|]. assert (maxt s' = maxt s) as -> by (eapply step_maxt; eauto); done.
  Qed.

  Lemma allp_step ps a ps' : AllP ps -> pstep T F PF ps a = Some ps' -> AllP ps'.
  Proof.
    intros [HSI HW HP HL Hm] Hs. pose proof HSI as [HPI HD HS HW'].
    assert (Hparts : PoolInv ps'.(pb) /\ LInv ps'.(pb) /\ 1 <= ps'.(pb).(maxt));
      [|destruct Hparts as (G1 & G2 & G3); split; [by eapply (sinv_step T F PF HT)|by eapply (wf_step T F PF)|done|done|done]].
    destruct HPI as (HI & Hdk & Hnd).
    unfold pstep in Hs. case_bool_decide as Hdead; [done|].
    destruct (actors (pb ps) !! a) as [ac|] eqn:Ea; [|done]. cbn in Hs.
    assert (Hgen : match pclos ac with
              | Some (q0, o, rest, dies) =>
                  if default false (pan ps !! o) then
                    Some (ps <| pb := setstack (updq (drop_job (pb ps) (top_job ac)) q0 (fun x => x <| qs := Panicked |> <| owner := None |>)) a rest |>
                             <| dead := if dies then a :: dead ps else dead ps |>)
                  else s' ← step T F (pb ps) a; Some (ps <| pb := s' |>)
              | None => s' ← step T F (pb ps) a; Some (ps <| pb := s' |>)
              end = Some ps' -> PoolInv ps'.(pb) /\ LInv ps'.(pb) /\ 1 <= ps'.(pb).(maxt)).
    { destruct (pclos ac) as [[[[q0 o] rest] dies]|] eqn:Hp;
        [ destruct (default false (pan ps !! o));
          [ intros [= <-]; cbn
          | destruct (step T F (pb ps) a) as [s'|] eqn:E; [|done]; cbn; intros [= <-]; cbn; by eapply l1_parts ]
        | destruct (step T F (pb ps) a) as [s'|] eqn:E; [|done]; cbn; intros [= <-]; cbn; by eapply l1_parts ].
      assert (Hq : exists qq, queues (pb ps) !! q0 = Some qq).
      { apply lookup_lt_is_Some_2. pose proof (WF_self _ a ac HW Ea) as Hf.
        destruct (pclos_stack ac q0 o rest dies Hp) as [(r0 & E1 & _)|[(j & g & E1 & _)|(j & t & E1 & _)]]; rewrite E1 in Hf; cbn in Hf;
          apply andb_true_iff in Hf as [Hf _]; by apply bool_decide_eq_true in Hf. }
      destruct Hq as [qq Hq].
      split; [by eapply (panic_pool (pb ps) a ac q0 o rest dies)|]. split; [by eapply (panic_linv (pb ps) a ac q0 o rest dies qq)|].
      cbn. by rewrite drop_job_maxt. }
    destruct (stack ac) as [|fr rest] eqn:Est; [by apply Hgen|].
    destruct fr; try (by apply Hgen).
    - destruct script as [|o os]; [by apply Hgen|].
      destruct (step T F (pb ps) a) as [s'|] eqn:E; [|done]. cbn in Hs. injection Hs as <-. cbn. by eapply l1_parts.
    - destruct (reap_shape PF (dead ps) (pb ps) HS HW' Hnd HD) as [G1 G2].
      destruct (reap_qp PF (dead ps) (pb ps) HS HW' Hnd HD (li_q _ HL) HP) as [G3 G4].
      pose proof (reap_maxt PF (dead ps) (pb ps)) as G5.
      pose proof (reap_other PF (dead ps) (pb ps) a Hdead) as Hro.
      destruct (reap PF (pb ps) (dead ps)) as [s1 d1]. cbn [fst] in *.
      destruct (step T F s1 a) as [s'|] eqn:E; [|done]. cbn in Hs. injection Hs as <-. cbn.
      split; [by eapply step_pool|]. split; [|assert (maxt s' = maxt s1) as -> by (eapply step_maxt; eauto); lia].
      rewrite Ea in Hro. unfold step in E. rewrite Hro in E. cbn in E. rewrite Est in E. cbn in E.
      destruct (free (threads_held s1)); [|done]. injection E as <-.
      split.
      + unfold mask. rewrite (Pof_queues _ s1) by done. rewrite mask_setstack.
        eapply (QInv_noq (mask s1) _ a ac _ G3 Hro); [ob_stacks|done|ob_sched_same|by rewrite Est].
      + intros _. eapply (helper_new_top (mask s1) _ a ac (FSTscan 0 :: rest) Hro).
        * unfold mask. rewrite (Pof_queues _ s1) by done. rewrite mask_setstack. ob_stacks.
        * cbn. intros t Ht. lia.
  Qed.

  Lemma allp_run tr : forall ps ps', AllP ps -> prun T F PF ps tr = Some ps' -> AllP ps'.
  Proof.
    induction tr as [|a tr IH]; intros ps ps' H0 Hr; [unfold prun in Hr; cbn in Hr; by injection Hr as <-|].
    rewrite prun_cons in Hr. destruct (pstep T F PF ps a) as [ps1|] eqn:E; [|done]. cbn in Hr. eapply IH; [|exact Hr]. by eapply allp_step.
  Qed.
End Assemble.

Lemma pinit_allp nq mx scripts : wf_scripts nq (map fst <$> scripts) -> 1 <= mx -> AllP (pinit nq mx scripts).
Proof.
  intros Hwf Hm. split; [| by apply init_wf | apply init_pool | | exact Hm].
  - split; [apply pinit_inv|intros a Ha; by apply elem_of_nil in Ha|apply init_shape|apply init_wf'].
  - split.
    + intros q qq Hq. assert (Hi : qs qq = Idle /\ jobs qq = []).
      { unfold mask, maskP in Hq. cbn -[mqs Pof] in Hq. rewrite mqs_lookup in Hq. destruct (replicate nq _ !! q) as [x|] eqn:E; [|done]. apply lookup_replicate in E as [-> _].
        cbn in Hq. injection Hq as <-. by destruct (Pof _ q). }
      destruct Hi as [H1 H2]. split; [by left|intros Hp; rewrite H1 in Hp; discriminate|intros _ Hj; by rewrite H2 in Hj].
    + intros (q & qq & Hin & _). cbn in Hin. by apply elem_of_nil in Hin.
Qed.

Section TerminalAll.
  Context (T : tables) (F : facts) (PF : pfacts).

  Theorem quiescent_reaped ps : AllP ps -> pterminal T F PF ps -> ps.(dead) = [] ->
    (forall q qq, ps.(pb).(queues) !! q = Some qq -> qq.(qs) <> Panicked -> qq.(qs) = Idle /\ qq.(jobs) = []) /\
    (forall t th, ps.(pb).(threads) !! t = Some th ->
       th.(busy) = false /\ th.(chan) = 0 /\ stacks ps.(pb) !! (ncallers ps.(pb) + t) = Some [FTrecv t]) /\
    (forall a ac, ps.(pb).(actors) !! a = Some ac -> stuck_ok ps.(pb) ac.(stack)).
  Proof.
    intros [HSI HW HP [HQ HKI] Hm] Hterm Hdead. pose proof HSI as [HPI HD HS HW'].
    destruct (pterminal_stuck T F PF ps HSI HW Hterm) as [Hst0 HB1].
    assert (Hstuck : forall a ac, actors (pb ps) !! a = Some ac -> stuck_ok (pb ps) (stack ac))
      by (intros a ac Ea; apply (Hst0 a ac Ea); rewrite Hdead; apply not_elem_of_nil).
    revert HW HP HQ HKI Hm HS HW' HB1 Hstuck. generalize (pb ps). clear. intros s HW HP HQ HKI Hm HS HW' HB1 Hstuck.
    assert (HA : forall f, has_top (mask s) f -> stuck_frame f).
    { intros f (b & st & Hb & Hh). change (stacks (mask s)) with (stacks s) in Hb. rewrite stacks_lookup in Hb.
      destruct (actors s !! b) as [ab|] eqn:Eb; [|done]. injection Hb as <-. eapply stuck_hd; [by eapply Hstuck|done]. }
    assert (Hlk : forall q qq, queues s !! q = Some qq -> qs qq <> Panicked -> queues (mask s) !! q = Some qq).
    { intros q qq Hq Hn. unfold mask. rewrite mask_lookup_out; [done|]. unfold Pof. rewrite Hq. by destruct (qs qq). }
    assert (Hhelp : helper (mask s) -> helper s) by (intros H; exact H).
    (* the pool threads *)
    assert (Hpool : forall t th, threads s !! t = Some th -> chan th = 0 /\ stacks s !! (ncallers s + t) = Some [FTrecv t] /\ busy th = false).
    { intros t th Ht. pose proof HS as [L _ _ Po _ _ _].
      assert (Hi : ncallers s + t < length (actors s)) by (apply lookup_lt_Some in Ht; unfold ncallers; lia).
      destruct (lookup_lt_is_Some_2 _ _ Hi) as [ap Eap]. specialize (Po t ap Eap). pose proof (Hstuck _ ap Eap) as Hsk.
      destruct (stack ap) as [|fr rest] eqn:Es; [done|]. apply pool_ok_inv in Po as [(-> & Hfr)|(-> & Hfr)]; [|by destruct fr].
      destruct fr; try done. cbn in Hfr. apply bool_decide_eq_true in Hfr. subst. cbn in Hsk. destruct Hsk as (th' & Ht' & Hch). rewrite Ht in Ht'. injection Ht' as <-.
      assert (Hst : stacks s !! (ncallers s + t) = Some [FTrecv t]) by (rewrite stacks_lookup, Eap; cbn; by rewrite Es).
      assert (Hps : pool_state_ok th [FTrecv t] = true) by (by apply (HP t th)).
      unfold pool_state_ok in Hps. rewrite Hch in Hps. split; [done|]. split; [done|]. by destruct (busy th). }
    (* no healthy queue is Pending *)
    assert (HB2 : forall q qq, queues s !! q = Some qq -> qs qq <> Panicked -> qs qq <> Pending).
    { intros q qq Hq Hn Hp. destruct (HQ q qq (Hlk q qq Hq Hn)) as [C1 C2 C3]. destruct (C2 Hp) as [Hj [Hs|[Hs|Hs]]]; [|by apply HA in Hs|by apply HA in Hs].
      assert (Htk : takeable (mask s)) by (exists q, qq; split; [exact Hs|]; split; [by apply Hlk|done]).
      destruct (Hhelp (HKI Htk)) as [(t & th & st & G1 & G2 & G3 & G4)|(b & st & Hb & Hc)].
      - destruct (Hpool t th G1) as (_ & E2 & E3). congruence.
      - rewrite stacks_lookup in Hb. destruct (actors s !! b) as [ab|] eqn:Eb; [|done]. injection Hb as <-.
        pose proof (hclause_htop _ _ Hc) as Hh. pose proof (Hstuck b ab Eb) as Hsk.
        destruct (stack ab) as [|fr rest]; [done|]. pose proof (stuck_hd s _ fr Hsk eq_refl) as Hf. by destruct fr. }
    split; [|split; [|exact Hstuck]].
    - intros q qq Hq Hn. destruct (HQ q qq (Hlk q qq Hq Hn)) as [C1 C2 C3]. destruct C1 as [Hc|[Hc|Hc]]; [|by destruct (HB2 q qq Hq Hn)|by destruct (HB1 q qq Hq)].
      split; [done|]. destruct (decide (jobs qq = [])) as [Hj|Hne]; [done|]. exfalso. specialize (C3 Hc Hne). by apply HA in C3.
    - intros t th Ht. destruct (Hpool t th Ht) as (E1 & E2 & E3). done.
  Qed.
End TerminalAll.
