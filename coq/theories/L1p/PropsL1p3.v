(* C15 on the scheduler model, third part.
   C15p_only_pool_threads_die   in every reachable state a dead actor sits at [FTlock t], the frame under the job it was running:
                                only pool threads die; C15p_caller_is_alive: an actor whose stack ends in a script frame is not dead.
   C15p_fails_loudly_bounded_callers   C15p_fails_loudly_bounded without the hypothesis `c ∉ dead`.
   C15p_ran_grows_only_at_closure_frames   one step changes [ran] only by prepending the operation of the closure frame on top of the
                                acting actor's stack (FSIrun: its own operation; FROrun / FDRrun: the job in its hand); the panic step,
                                the reap and every other step leave [ran] alone.
   NOT done: exactly-once with panics (NoDup ran, every id in ran was pushed, job-id uniqueness) and with it
   C15p_call_on_panicked_queue_never_runs for ALL later states. *)
From stdpp Require Import list numbers option.
From L0 Require Import Types.
From Gen Require Import Tables.
From L1 Require Import Model Own Shape Stuck.
From L1p Require Import Model OwnP Absorb MainP Loud DeadP RanP PropsL1p PropsL1p2.

Theorem C15p_only_pool_threads_die : forall (T : tables) (F : facts) (PF : pfacts), own_conditions T ->
  forall nq mx scripts tr ps, prun T F PF (pinit nq mx scripts) tr = Some ps ->
    forall a, a ∈ ps.(dead) -> exists ac t, ps.(pb).(actors) !! a = Some ac /\ ac.(stack) = [FTlock t].
Proof. exact dead_are_pool_threads. Qed.

Theorem C15p_caller_is_alive : forall (T : tables) (F : facts) (PF : pfacts), own_conditions T ->
  forall nq mx scripts tr ps c st fr, prun T F PF (pinit nq mx scripts) tr = Some ps ->
    stack_of ps c = Some st -> list.last st = Some fr -> is_top fr = true -> c ∉ ps.(dead).
Proof. exact caller_alive. Qed.

Theorem C15p_fails_loudly_bounded_callers : forall (T : tables) (F : facts) (PF : pfacts), ploud T -> own_conditions T -> ptab T ->
  forall nq mx scripts tr0 ps0 c o os q,
    prun T F PF (pinit nq mx scripts) tr0 = Some ps0 -> panicked ps0.(pb) q -> op_q o = q ->
    stack_of ps0 c = Some [FTop (o :: os)] ->
    forall tr ps, prun T F PF ps0 tr = Some ps ->
      match ccount c tr with
      | 0 => stack_of ps c = Some [FTop (o :: os)] /\ c ∉ ps.(dead) /\ is_Some (pstep T F PF ps c)
      | 1 => stack_of ps c = Some [call_frame o; FTop os] /\ c ∉ ps.(dead) /\
             exists ps2, pstep T F PF ps c = Some ps2 /\ stack_of ps2 c = Some [FTop os] /\ ps2.(pb).(ran) = ps.(pb).(ran)
      | _ => True
      end.
Proof.
  exact (fun T F PF HL HT HP nq mx scripts tr0 ps0 c o os q Hr0 Hq Hoq Hst =>
           C15p_fails_loudly_bounded T F PF HL HT HP nq mx scripts tr0 ps0 c o os q Hr0 Hq
             (caller_alive T F PF HT nq mx scripts tr0 ps0 c [FTop (o :: os)] (FTop (o :: os)) Hr0 Hst eq_refl eq_refl) Hoq Hst).
Qed.

Theorem C15p_ran_grows_only_at_closure_frames : forall (T : tables) (F : facts) (PF : pfacts) ps a ps',
  pstep T F PF ps a = Some ps' ->
  ps'.(pb).(ran) = ps.(pb).(ran) \/
  exists ac i, ps.(pb).(actors) !! a = Some ac /\ clos_id ac = Some i /\ ps'.(pb).(ran) = i :: ps.(pb).(ran).
Proof. exact pstep_ran. Qed.

Print Assumptions C15p_only_pool_threads_die.
Print Assumptions C15p_caller_is_alive.
Print Assumptions C15p_fails_loudly_bounded_callers.
Print Assumptions C15p_ran_grows_only_at_closure_frames.
