(* L1p: a Panicked queue stays Panicked under every step of the L1 model (tables that map Panicked to Panicked; exclusive ownership:
   the plain assignments `state = Idle` are executed by the owner of a Running queue only) *)
From stdpp Require Import list numbers option.
From RecordUpdate Require Import RecordUpdate.
From L1 Require Import Model Own Shape Stuck.
From L1p Require Import Model.

Record ptab (T : tables) : Prop := {
  pt_desync : fst (T.(t_desync) Panicked) = Panicked;
  pt_sync : forall e, fst (T.(t_sync) Panicked e) = Panicked;
  pt_try : forall e, fst (T.(t_trysync) Panicked e) = Panicked;
  pt_resched : forall ne, fst (T.(t_resched) Panicked ne) = Panicked;
  pt_next : T.(t_next) Panicked = None;
  pt_claim : T.(t_claim) Panicked = None;
  pt_fin : forall e, fst (T.(t_drain_fin) Panicked e) = Panicked;
}.

Definition panicked (s : state) (q : nat) : Prop := exists qq, s.(queues) !! q = Some qq /\ qq.(qs) = Panicked.

Lemma panicked_view s1 s q : s1.(queues) = s.(queues) -> panicked s q -> panicked s1 q.
Proof. unfold panicked. by intros ->. Qed.
Lemma panicked_updq s q0 f q : panicked s q -> (forall qq, s.(queues) !! q = Some qq -> q0 = q -> qs qq = Panicked -> qs (f qq) = Panicked) ->
  panicked (updq s q0 f) q.
Proof.
  intros (qq & Hq & Hp) Hf. unfold panicked. rewrite queues_updq. case_decide as E; [subst q0|by exists qq].
  rewrite Hq. cbn. exists (f qq). split; [done|]. by apply Hf.
Qed.

Section Absorb.
  Context (T : tables) (F : facts) (HP : ptab T).

  Lemma step_keeps_panicked s a s' q : Inv s -> step T F s a = Some s' -> panicked s q -> panicked s' q.
  Proof.
    intros HI Hstep Hpq. unfold step in Hstep.
    destruct (actors s !! a) as [ac|] eqn:Ea; cbn in Hstep; [|congruence].
    destruct (stack ac) as [|fr rest] eqn:Est; [congruence|].
    (* an owner frame of q on top is impossible: q would be Running *)
    assert (Hown : forall n, cnt q (stack ac) = S n -> False).
    { intros n Hc. destruct Hpq as (qq & Hq & Hp). destruct (runner_owns s a q qq n HI) as [_ Hr]; [by rewrite (stack_cnt_self s a ac q Ea), Hc|done|congruence]. }
    rewrite Est in Hown.
    destruct fr.
    all: cbn beta iota zeta in Hstep.
    all: repeat (first
         [ match type of Hstep with
           | context [queues _ !! ?q] => let E := fresh "Eq" in destruct (queues s !! q) as [qq|] eqn:E; cbn in Hstep; [|congruence]
           | context [threads _ !! ?t] => let E := fresh "Et" in destruct (threads s !! t) as [th|] eqn:E; cbn in Hstep
           end
         | match type of Hstep with context [match ?x with _ => _ end] => let E := fresh "E" in destruct x eqn:E end; cbn in Hstep; try congruence ]).
    all: try discriminate.
    all: try (injection Hstep as <-).
    all: unfold setstack.
    (* peel the layers that do not touch the queues *)
    all: repeat first
      [ lazymatch goal with |- panicked (upda ?Y _ _) _ => apply (panicked_view _ Y); [done|] end
      | lazymatch goal with |- panicked (updt ?Y _ _) _ => apply (panicked_view _ Y); [done|] end
      | lazymatch goal with |- panicked (set ?fld ?f ?Y) _ => apply (panicked_view _ Y); [done|] end
      | lazymatch goal with |- panicked (run_job ?F ?Y ?j) _ => apply (panicked_view _ Y); [apply run_job_obs|] end
      | lazymatch goal with |- panicked (foldl (notify ?F) ?Y ?ws) _ => apply (panicked_view _ Y); [apply foldl_notify_obs|] end
      | lazymatch goal with |- panicked (updq ?Y ?q0 ?f) _ => apply panicked_updq; [|
          let qq0 := fresh "qq0" in let H1 := fresh in let H2 := fresh in let H3 := fresh in intros qq0 H1 H2 H3; subst; cbn [queues set] in H1; rewrite ?(proj1 (foldl_notify_obs _ _ _)) in H1; cbn;
          try (match goal with Eq : queues _ !! _ = Some _ |- _ => rewrite Eq in H1; injection H1 as <- end)] end ].
    all: try exact Hpq.
    all: try (match goal with H3 : qs _ = Panicked, E : _ = (?st, _) |- ?st = Panicked =>
                rewrite H3 in E; apply (f_equal fst) in E; cbn [fst] in E; rewrite <- E;
                first [apply (pt_desync T HP)|apply (pt_sync T HP)|apply (pt_try T HP)|apply (pt_resched T HP)|apply (pt_fin T HP)] end).
    all: try (match goal with H3 : qs _ = Panicked, E : t_next _ _ = Some _ |- _ => rewrite H3, (pt_next T HP) in E; discriminate end).
    all: try (match goal with H3 : qs _ = Panicked, E : t_claim _ _ = Some _ |- _ => rewrite H3, (pt_claim T HP) in E; discriminate end).
    all: try done.
    all: try (exfalso; eapply Hown; cbn; rewrite bool_decide_eq_true_2 by done; reflexivity).
  Qed.
End Absorb.
