(* C15 on the scheduler model, fifth part: what is true, and what is not, about "the pool replaces the thread it lost".

   NOT true, even with the code's reap (f_reap_ignores_busy = true):
   C15p_work_scheduled_during_doomed_job_is_stranded_refuted   "in a reachable state in which nobody can move every healthy queue is Idle
        and empty" is false: pool maximum 1, D0[panic] by caller 0, D1[] by caller 1 issued WHILE the only pool thread is inside the doomed
        job (schedule_thread finds it busy, cannot spawn, and relies on that thread coming back to the schedule); the thread panics; nothing
        is scheduled afterwards: object 1 stays Pending with its job, in the schedule; the dead thread keeps the slot (busy still set) until
        the NEXT scheduling call.  (Confirmed on the real crate; outside C15's quantifier - programs issued after the unwinding.)
   C15p_capacity_lost_for_ever_when_reap_skips_busy   with f_reap_ignores_busy = false (the seeded change) the slot is lost for ever: also
        work scheduled AFTER the panic is never run (pool maximum 1, D0[panic] then D1[]).
   TRUE:
   C15p_next_scheduling_call_restores_capacity   from any reachable state, the first step of a scheduling call (remove_finished_threads +
        the threads lock of the dormant scan, frame FSTlock) leaves [dead] empty, and the slot of every thread that was dead is a fresh
        dormant thread (not busy, no pending wake-up, actor at [FTrecv t]) - for the code's reap, all tables, facts, programs, schedules.
   C15p_reaped_slot_stays_available_until_woken   a fresh dormant slot stays one under every step of every actor, except the scan step
        (FSTscan t) of a scheduling call that reaches it: that step marks it busy and sends it its wake-up message, and the thread can
        then move (receive it).  Along any run: the slot is still available at the end, or some scan on the way woke it.
   C15p_capacity_restored_example   the stranded scenario followed by one more desync (D2): the dead thread is reaped, the slot reused,
        D1 and D2 both run, everything ends Idle and empty.
   C15p_terminal_partial   in every reachable state in which nobody can move: no queue is being run (no Running queue), and every actor that
        is not a dead pool thread is at the end of its script, inside the condition-variable wait of sync_background, or a dormant pool
        thread with no wake-up pending.  (Hypotheses: own_conditions, imm_conditions, wf_scripts.)
   NOT proved: that with [dead] empty every healthy queue is Idle and empty and the only unfinished callers are those stranded on a Panicked
   queue - L1's liveness invariants (QInv, KInv, PoolInv, JInv) would have to be re-proved with Panicked queues allowed: their step
   lemmas assume a core state for every queue. *)
From stdpp Require Import list numbers list_numbers option.
From L0 Require Import Types.
From Gen Require Import Tables.
From L1 Require Import Model Own Shape Stuck.
From L1h Require Import Sim.
From L1p Require Import Model OwnP Absorb MainP Loud DeadP RanP ShapeP IdAbs IdInv OnceP QuietP FreshP PropsL1p PropsL1p2 PropsL1p4.

Theorem C15p_next_scheduling_call_restores_capacity : forall (T : tables) (F : facts) (PF : pfacts),
  own_conditions T -> imm_conditions T -> PF.(f_reap_ignores_busy) = true ->
  forall nq mx scripts tr ps a ac rest ps',
    prun T F PF (pinit nq mx scripts) tr = Some ps ->
    ps.(pb).(actors) !! a = Some ac -> ac.(stack) = FSTlock :: rest -> pstep T F PF ps a = Some ps' ->
    ps'.(dead) = [] /\ forall b, b ∈ ps.(dead) -> fresh_slot ps'.(pb) b.
Proof.
  exact (fun T F PF HT HI HPF nq mx scripts tr ps a ac rest ps' Hr =>
           scheduling_call_restores_capacity T F PF HPF ps a ac rest ps' (fi_s ps (preach_finv T F PF HT HI nq mx scripts tr ps Hr))).
Qed.

Theorem C15p_reaped_slot_stays_available_until_woken : forall (T : tables) (F : facts) (PF : pfacts), own_conditions T -> imm_conditions T ->
  forall nq mx scripts tr0 ps0 b, prun T F PF (pinit nq mx scripts) tr0 = Some ps0 -> fresh_slot ps0.(pb) b ->
    (forall a ps', pstep T F PF ps0 a = Some ps' ->
       fresh_slot ps'.(pb) b \/ exists t, woken ps0.(pb) ps'.(pb) a t b /\ stack_of ps' b = Some [FTrecv t] /\ b ∉ ps'.(dead)) /\
    (forall tr ps', prun T F PF ps0 tr = Some ps' ->
       fresh_slot ps'.(pb) b \/
       exists tr1 a tr2 ps1 ps2 t, tr = tr1 ++ a :: tr2 /\ prun T F PF ps0 tr1 = Some ps1 /\ pstep T F PF ps1 a = Some ps2 /\
         woken ps1.(pb) ps2.(pb) a t b /\ is_Some (pstep T F PF ps2 b)).
Proof.
  exact (fun T F PF HT HI nq mx scripts tr0 ps0 b Hr Hf =>
           let HS := fi_s ps0 (preach_finv T F PF HT HI nq mx scripts tr0 ps0 Hr) in
           conj (fun a ps' Hs => fresh_until_woken T F PF ps0 a ps' b HS Hf Hs)
                (fun tr ps' Hr' => fresh_run T F PF HT tr ps0 ps' b HS Hf Hr')).
Qed.

Theorem C15p_terminal_partial : forall (T : tables) (F : facts) (PF : pfacts), own_conditions T -> imm_conditions T ->
  forall nq mx scripts tr ps, wf_scripts nq (map fst <$> scripts) ->
    prun T F PF (pinit nq mx scripts) tr = Some ps -> pterminal T F PF ps ->
    (forall a ac, ps.(pb).(actors) !! a = Some ac -> a ∉ ps.(dead) -> stuck_ok ps.(pb) ac.(stack)) /\
    (forall q qq, ps.(pb).(queues) !! q = Some qq -> qq.(qs) <> Running).
Proof.
  exact (fun T F PF HT HI nq mx scripts tr ps Hwf Hr =>
           pterminal_stuck T F PF ps (fi_s ps (preach_finv T F PF HT HI nq mx scripts tr ps Hr))
             (wf_run T F PF tr (pinit nq mx scripts) ps (init_wf nq mx _ Hwf) Hr)).
Qed.

(* ---------- the scenarios ---------- *)
Definition exQ_scripts : list (list (op * bool)) := [[(ODesync 0, true)]; [(ODesync 1, false)]].
Definition exQ_tr : list nat := [0; 0; 0; 0; 0; 0; 0; 0; 2; 2; 2; 2; 2; 2; 1; 1; 1; 1; 1; 1; 1; 2].
Lemma exQ_run : exists ps, prun gen_tables gen_facts pf_code (pinit 2 1 exQ_scripts) exQ_tr = Some ps /\
  pterminal_b gen_tables gen_facts pf_code ps = true /\
  (qs <$> ps.(pb).(queues)) = [Panicked; Pending] /\ ((fun q => length q.(jobs)) <$> ps.(pb).(queues)) = [0; 1] /\ ps.(pb).(sched) = [1] /\
  ps.(dead) = [2] /\ (busy <$> ps.(pb).(threads)) = [true] /\ ps.(pb).(ran) = [] /\
  tops ps = [Some (FTop []); Some (FTop []); Some (FTlock 0)].
Proof. eexists. split; [vm_compute; reflexivity|]. repeat split. Qed.

Example exQ_stranded : exists ps, prun gen_tables gen_facts pf_code (pinit 2 1 exQ_scripts) exQ_tr = Some ps /\
  pterminal_b gen_tables gen_facts pf_code ps = true /\ exists q, (qs <$> ps.(pb).(queues)) !! q = Some Pending.
Proof. eexists. split; [vm_compute; reflexivity|]. split; [reflexivity|]. exists 1. reflexivity. Qed.
Example exM_stranded : exists ps, prun gen_tables gen_facts pf_mut (pinit 2 1 exP_scripts) exP_tr_mut = Some ps /\
  pterminal_b gen_tables gen_facts pf_mut ps = true /\ exists q, (qs <$> ps.(pb).(queues)) !! q = Some Pending.
Proof. eexists. split; [vm_compute; reflexivity|]. split; [reflexivity|]. exists 1. reflexivity. Qed.

Theorem C15p_work_scheduled_during_doomed_job_is_stranded_refuted :
  ~ (forall nq mx scripts tr ps, 1 <= mx -> prun gen_tables gen_facts pf_code (pinit nq mx scripts) tr = Some ps ->
       pterminal gen_tables gen_facts pf_code ps ->
       forall q qq, ps.(pb).(queues) !! q = Some qq -> qq.(qs) <> Panicked -> qq.(qs) = Idle /\ qq.(jobs) = []).
Proof.
  exact (stranded_refutes gen_tables gen_facts pf_code 2 1 exQ_scripts exQ_tr (le_n 1) exQ_stranded).
Qed.

Theorem C15p_capacity_lost_for_ever_when_reap_skips_busy :
  ~ (forall nq mx scripts tr ps, 1 <= mx -> prun gen_tables gen_facts pf_mut (pinit nq mx scripts) tr = Some ps ->
       pterminal gen_tables gen_facts pf_mut ps ->
       forall q qq, ps.(pb).(queues) !! q = Some qq -> qq.(qs) <> Panicked -> qq.(qs) = Idle /\ qq.(jobs) = []).
Proof.
  exact (stranded_refutes gen_tables gen_facts pf_mut 2 1 exP_scripts exP_tr_mut (le_n 1) exM_stranded).
Qed.

(* the stranded scenario, followed by one more scheduling call: D2 by caller 1 *)
Definition exR_scripts : list (list (op * bool)) := [[(ODesync 0, true)]; [(ODesync 1, false); (ODesync 2, false)]].
Definition exR_tr : list nat :=
  [0; 0; 0; 0; 0; 0; 0; 0; 2; 2; 2; 2; 2; 2; 1; 1; 1; 1; 1; 1; 1; 1; 1; 2; 1; 1; 1; 2; 2; 2; 2; 2; 2; 2; 2; 2; 2; 2; 2; 2; 2; 2; 2; 2; 2; 2; 2; 2].
Example C15p_capacity_restored_example :
  exists ps, prun gen_tables gen_facts pf_code (pinit 3 1 exR_scripts) exR_tr = Some ps /\
    pterminal_b gen_tables gen_facts pf_code ps = true /\
    (qs <$> ps.(pb).(queues)) = [Panicked; Idle; Idle] /\ ((fun q => length q.(jobs)) <$> ps.(pb).(queues)) = [0; 0; 0] /\
    ps.(pb).(sched) = [] /\ ps.(dead) = [] /\ (busy <$> ps.(pb).(threads)) = [false] /\ ps.(pb).(ran) = [2; 1] /\
    tops ps = [Some (FTop []); Some (FTop []); Some (FTrecv 0)].
Proof. eexists. split; [vm_compute; reflexivity|]. repeat split. Qed.

Print Assumptions C15p_next_scheduling_call_restores_capacity.
Print Assumptions C15p_reaped_slot_stays_available_until_woken.
Print Assumptions C15p_terminal_partial.
Print Assumptions C15p_work_scheduled_during_doomed_job_is_stranded_refuted.
Print Assumptions C15p_capacity_lost_for_ever_when_reap_skips_busy.
Print Assumptions C15p_capacity_restored_example.
