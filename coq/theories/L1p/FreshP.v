(* A fresh dormant slot (QuietP.fresh_slot: what the reap leaves in place of a dead pool thread) stays a fresh dormant slot until the
   scan of a scheduling call reaches it; that scan step wakes it: marks it busy and sends it its one wake-up message. *)
From stdpp Require Import list numbers list_numbers option.
From RecordUpdate Require Import RecordUpdate.
From L1 Require Import Model Own Shape Stuck Live Wait Help Final Pool.
From L1h Require Import WeakWF.
From L1p Require Import Model OwnP Absorb MainP Loud DeadP RanP ShapeP QuietP.

Definition tframe (fr : frame) : option nat :=
  match fr with FTrecv t | FTlock t | FTnext t | FTexam t | FTrelnone t | FTrelsome t _ => Some t | _ => None end.

Lemma tframe_owner s a ac fr rest t : Shape s -> s.(actors) !! a = Some ac -> ac.(stack) = fr :: rest -> tframe fr = Some t -> a = ncallers s + t.
Proof.
  intros HS Ea Est Hf. destruct (kind_of _ a ac HS Ea) as [[_ Hok]|(t1 & -> & Hok)]; rewrite Est in Hok.
  - exfalso. destruct fr; try discriminate Hf. all: destruct rest as [|g [|h [|? ?]]]; cbn in Hok; rewrite ?andb_false_r in Hok; discriminate Hok.
  - destruct fr; try discriminate Hf. all: cbn in Hf; injection Hf as ->. all: destruct rest as [|g rest]; cbn in Hok; [by case_bool_decide; subst|discriminate Hok].
Qed.

Lemma drop_job_threads s j : (drop_job s j).(threads) = s.(threads).
Proof.
  destruct j as [[o|o c|o c]|]; cbn [drop_job]; try done.
  set (s1 := upda s c _). destruct (actors s1 !! c) as [ac|]; [|done]. by destruct (stack ac) as [|[] rest].
Qed.

Definition woken (s s' : state) (a t b : nat) : Prop :=
  (exists ac rest, s.(actors) !! a = Some ac /\ ac.(stack) = FSTscan t :: rest) /\
  exists th', s'.(threads) !! t = Some th' /\ th'.(tactor) = b /\ th'.(busy) = true /\ th'.(chan) = 1.

Section Fresh.
  Context (T : tables) (F : facts).

  Lemma step_fresh_thread s a s' t th : Shape s -> step T F s a = Some s' -> a <> th.(tactor) ->
    s.(threads) !! t = Some th -> th.(busy) = false -> th.(held) = false -> th.(chan) = 0 ->
    s'.(threads) !! t = Some th \/ woken s s' a t th.(tactor).
  Proof.
    intros HS Hstep Hab Htt Hb Hh Hc. unfold step in Hstep.
    assert (Hta : th.(tactor) = ncallers s + t) by (by apply (sh_tactor s HS)).
    destruct (actors s !! a) as [ac|] eqn:Ea; cbn in Hstep; [|congruence].
    destruct (stack ac) as [|fr rest] eqn:Est; [congruence|].
    assert (Hown : forall t', tframe fr = Some t' -> t' <> t).
    { intros t' Hf ->. apply Hab. rewrite Hta. by eapply tframe_owner. }
    destruct fr.
    all: cbn beta iota zeta in Hstep.
    all: repeat (first
         [ match type of Hstep with
           | context [queues _ !! ?q] => let E := fresh "Eq" in destruct (queues s !! q) as [qq|] eqn:E; cbn in Hstep; [|congruence]
           | context [threads _ !! ?t] => let E := fresh "Et" in destruct (threads s !! t) as [th0|] eqn:E; cbn in Hstep
           end
         | match type of Hstep with context [match ?x with _ => _ end] => let E := fresh "E" in destruct x eqn:E end; cbn in Hstep; try congruence ]).
    all: try discriminate.
    all: try (injection Hstep as <-).
    all: try (lazymatch goal with |- context [run_job ?F ?s ?j] => destruct (run_job_pool F s j) as (P1 & P2 & P3); revert P1 P2 P3; generalize (run_job F s j); intros s0 P1 P2 P3 end).
    all: try (lazymatch goal with |- context [foldl (notify ?F) ?s ?ws] => destruct (foldl_notify_pool F ws s) as (P1 & P2 & P3); revert P1 P2 P3; generalize (foldl (notify F) s ws); intros s0 P1 P2 P3 end).
    all: try (left; cbn; unfold setstack, upda, updq, updt; cbn; try rewrite P1; cbn; exact Htt).
    all: try (left; cbn; unfold setstack, upda, updq, updt; cbn; apply lookup_app_l_Some; exact Htt).
    all: try (left; cbn; unfold setstack, upda, updq, updt; cbn; rewrite list_lookup_alter_ne by (apply Hown; reflexivity); exact Htt).
    destruct (decide (i = t)) as [->|Hne].
    - right. split; [by eauto|]. rewrite Htt in Et. injection Et as <-.
      eexists. cbn. unfold updt; cbn. rewrite list_lookup_alter, Htt. cbn. split; [reflexivity|]. cbn. by rewrite Hc.
    - left. cbn. unfold updt; cbn. by rewrite list_lookup_alter_ne.
  Qed.

  Context (PF : pfacts) (HT : own_conditions T).

  (* a fresh slot stays fresh under every step, except the scan step that wakes it *)
  Theorem fresh_until_woken ps a ps' b : SInv ps -> fresh_slot ps.(pb) b -> pstep T F PF ps a = Some ps' ->
    fresh_slot ps'.(pb) b \/ exists t, woken ps.(pb) ps'.(pb) a t b /\ stack_of ps' b = Some [FTrecv t] /\ b ∉ ps'.(dead).
  Proof.
    intros HSI (t & th & acb & Et & Hta & Hb & Hh & Hc & Eb & Estb) Hs. pose proof HSI as [HP HD HS HW'].
    assert (Hbd : b ∉ dead ps). { intros Hin. destruct (HD b Hin) as (ab & t0 & E1 & E2). rewrite Eb in E1. injection E1 as <-. by rewrite Estb in E2. }
    assert (Hab : a <> b).
    { intros ->. unfold pstep in Hs. rewrite bool_decide_false in Hs by done. rewrite Eb in Hs. cbn in Hs. rewrite Estb in Hs. cbn in Hs.
      unfold pclos in Hs. rewrite Estb in Hs. cbn in Hs. unfold step in Hs. rewrite Eb in Hs. cbn in Hs. rewrite Estb in Hs. cbn in Hs.
      rewrite Et in Hs. cbn in Hs. by rewrite Hc in Hs. }
    destruct (pstep_other T F PF ps a ps' b [FTrecv t] HP Hs Hab Hbd) as [Hst' Hbd']; [unfold stack_of; by rewrite Eb; cbn; rewrite Estb|done|].
    unfold stack_of in Hst'. destruct (actors (pb ps') !! b) as [acb'|] eqn:Eb'; [|done]. cbn in Hst'. injection Hst' as Estb'.
    assert (Hthr : threads (pb ps') !! t = Some th \/ woken (pb ps) (pb ps') a t th.(tactor)).
    { unfold pstep in Hs. case_bool_decide as Hdead; [done|].
      destruct (actors (pb ps) !! a) as [ac|] eqn:Ea; [|done]. cbn in Hs.
      assert (Hgen : forall s', step T F (pb ps) a = Some s' -> threads s' !! t = Some th \/ woken (pb ps) s' a t th.(tactor)).
      { intros s' Hst. eapply step_fresh_thread; eauto. by rewrite Hta. }
      assert (Hdef : match pclos ac with
              | Some (q0, o, rest, dies) =>
                  if default false (pan ps !! o) then
                    Some (ps <| pb := setstack (updq (drop_job (pb ps) (top_job ac)) q0 (fun x => x <| qs := Panicked |> <| owner := None |>)) a rest |>
                             <| dead := if dies then a :: dead ps else dead ps |>)
                  else s' ← step T F (pb ps) a; Some (ps <| pb := s' |>)
              | None => s' ← step T F (pb ps) a; Some (ps <| pb := s' |>)
              end = Some ps' -> threads (pb ps') !! t = Some th \/ woken (pb ps) (pb ps') a t th.(tactor)).
      { destruct (pclos ac) as [[[[q0 o] rest] dies]|] eqn:Hp;
          [ destruct (default false (pan ps !! o));
            [ intros [= <-]; left; cbn; by rewrite drop_job_threads
            | destruct (step T F (pb ps) a) as [s'|] eqn:E; [|done]; cbn; intros [= <-]; cbn; by apply Hgen ]
          | destruct (step T F (pb ps) a) as [s'|] eqn:E; [|done]; cbn; intros [= <-]; cbn; by apply Hgen ]. }
      destruct (stack ac) as [|fr rest] eqn:Est; [by apply Hdef|].
      destruct fr; try (by apply Hdef).
      - destruct script as [|o os]; [by apply Hdef|].
        destruct (step T F (pb ps) a) as [s'|] eqn:E; [|done]. cbn in Hs. injection Hs as <-. cbn. by apply Hgen.
      - destruct HP as (HI & Hd & Hnd). destruct (reap_shape PF (dead ps) (pb ps) HS HW' Hnd HD) as [G1 G2].
        assert (Hf1 : fresh_slot (reap PF (pb ps) (dead ps)).1 b).
        { apply reap_keeps_fresh; [done|done|]. exists t, th, acb. by repeat split. }
        pose proof (reap_other PF (dead ps) (pb ps) a Hdead) as Hro.
        pose proof (reap_other PF (dead ps) (pb ps) b Hbd) as Hrb.
        destruct (reap PF (pb ps) (dead ps)) as [s1 d1]. cbn [fst] in *.
        destruct (step T F s1 a) as [s'|] eqn:E; [|done]. cbn in Hs. injection Hs as <-. cbn.
        destruct Hf1 as (t1 & th1 & acb1 & Et1 & Hta1 & Hb1 & Hh1 & Hc1 & Eb1 & Estb1).
        assert (t1 = t) as ->.
        { rewrite Hrb, Eb in Eb1. injection Eb1 as <-. rewrite Estb in Estb1. by injection Estb1 as ->. }
        assert (th1 = th) as -> by (destruct th, th1; cbn in *; congruence).
        destruct (step_fresh_thread s1 a s' t th G1 E ltac:(by rewrite Hta) Et1 Hb Hh Hc) as [Hl|[(ac1 & r1 & E1 & E2) _]]; [by left|].
        rewrite Hro, Ea in E1. injection E1 as <-. by rewrite Est in E2. }
    destruct Hthr as [Hl|Hw].
    - left. exists t, th, acb'. by repeat split.
    - right. exists t. subst b. split; [done|]. split; [|done]. unfold stack_of. rewrite Eb'. cbn. by rewrite Estb'.
  Qed.

  (* a woken thread can move: it receives its message *)
  Lemma woken_enabled ps0 ps a t b : woken ps0 ps.(pb) a t b -> stack_of ps b = Some [FTrecv t] -> b ∉ ps.(dead) -> is_Some (pstep T F PF ps b).
  Proof.
    intros [_ (th' & Et & Hta & Hb & Hc)] Hst Hbd. unfold stack_of in Hst. destruct (actors (pb ps) !! b) as [acb|] eqn:Eb; [|done]. cbn in Hst. injection Hst as Est.
    unfold pstep. rewrite bool_decide_false by done. rewrite Eb. cbn. rewrite Est. cbn. unfold pclos. rewrite Est. cbn.
    unfold step. rewrite Eb. cbn. rewrite Est. cbn. rewrite Et. cbn. rewrite Hc. cbn. done.
  Qed.

  (* along a run: the slot is still fresh at the end, or some scan step on the way woke it *)
  Theorem fresh_run tr : forall ps ps' b, SInv ps -> fresh_slot ps.(pb) b -> prun T F PF ps tr = Some ps' ->
    fresh_slot ps'.(pb) b \/
    exists tr1 a tr2 ps1 ps2 t, tr = tr1 ++ a :: tr2 /\ prun T F PF ps tr1 = Some ps1 /\ pstep T F PF ps1 a = Some ps2 /\ woken ps1.(pb) ps2.(pb) a t b /\
      is_Some (pstep T F PF ps2 b).
  Proof.
    induction tr as [|a tr IH]; intros ps ps' b HSI Hf Hr; [unfold prun in Hr; cbn in Hr; injection Hr as <-; by left|].
    rewrite prun_cons in Hr. destruct (pstep T F PF ps a) as [ps1|] eqn:E; [|done]. cbn in Hr.
    destruct (fresh_until_woken ps a ps1 b HSI Hf E) as [Hf1|(t & Hw & Hst1 & Hbd1)].
    - destruct (IH ps1 ps' b (sinv_step T F PF HT ps a ps1 HSI E) Hf1 Hr) as [Hl|(tr1 & a1 & tr2 & p1 & p2 & t & -> & H1 & H2 & H3)]; [by left|].
      right. exists (a :: tr1), a1, tr2, p1, p2, t. split; [done|]. split; [|done]. rewrite prun_cons, E. done.
    - right. exists [], a, tr, ps, ps1, t. split; [done|]. split; [done|]. split; [done|]. split; [done|]. by eapply woken_enabled.
  Qed.
End Fresh.
