(* L1p: only pool threads die: a dead actor sits at [FTlock t] (the frame under the job it was running) for ever - until the reap
   re-initialises its slot.  So a caller at its script, or inside a call, is never in [dead]: the hypothesis `c ∉ dead` of the
   fails-loudly theorems can be dropped. *)
From stdpp Require Import list numbers option.
From RecordUpdate Require Import RecordUpdate.
From L1 Require Import Model Own Shape Stuck.
From L1n Require Import Eff.
From L1p Require Import Model OwnP Absorb MainP Loud.

Definition dead_lock (ps : pstate) : Prop :=
  forall a, a ∈ ps.(dead) -> exists ac t, ps.(pb).(actors) !! a = Some ac /\ ac.(stack) = [FTlock t].

Lemma reap_one_actors PF s a s1 b : reap_one PF s a = Some s1 -> b <> a -> s1.(actors) !! b = s.(actors) !! b.
Proof.
  unfold reap_one. destruct (pool_thread_of s a) as [t|]; [|done]. cbn. destruct (threads s !! t); [|done]. cbn.
  destruct (_ || _); [|done]. intros [= <-] Hne. by rewrite actors_setstack_lookup, decide_False by done.
Qed.
Lemma reap_other PF ds : forall s b, b ∉ ds -> (reap PF s ds).1.(actors) !! b = s.(actors) !! b.
Proof.
  induction ds as [|a r IH]; intros s b Hb; cbn [reap]; [done|].
  destruct (reap_one PF s a) as [s1|] eqn:E1.
  - rewrite IH by (intros ?; apply Hb; by right). apply (reap_one_actors PF s a s1 b E1). intros ->. apply Hb. by left.
  - specialize (IH s b). destruct (reap PF s r). apply IH. intros ?. apply Hb. by right.
Qed.
Lemma reap_sub PF ds : forall s x, x ∈ (reap PF s ds).2 -> x ∈ ds.
Proof.
  induction ds as [|y r IHr]; intros s0 x Hx; cbn [reap] in Hx; [done|].
  destruct (reap_one PF s0 y); [right; by eapply IHr|]. destruct (reap PF s0 r) as [s' r'] eqn:E. cbn in Hx.
  apply elem_of_cons in Hx as [->|Hx]; [by left|]. right. apply (IHr s0). by rewrite E.
Qed.
Lemma reap_keeps PF ds : forall s, NoDup ds -> forall b, b ∈ (reap PF s ds).2 -> (reap PF s ds).1.(actors) !! b = s.(actors) !! b.
Proof.
  induction ds as [|a r IH]; intros s Hnd b Hb; cbn [reap] in *; [done|].
  apply list.NoDup_cons in Hnd as [Har Hnd].
  destruct (reap_one PF s a) as [s1|] eqn:E1.
  - rewrite (IH s1 Hnd b Hb). apply (reap_one_actors PF s a s1 b E1). intros ->. apply Har. by eapply reap_sub.
  - pose proof (reap_other PF r s a Har) as Ho. specialize (IH s Hnd b). destruct (reap PF s r) as [s' r'] eqn:Er. cbn in *.
    apply elem_of_cons in Hb as [->|Hb]; [done|by apply IH].
Qed.

Section DeadP.
  Context (T : tables) (F : facts) (PF : pfacts) (HT : own_conditions T).

  Lemma dead_lock_step ps a ps' : PInv' ps -> dead_lock ps -> pstep T F PF ps a = Some ps' -> dead_lock ps'.
  Proof.
    intros (HI & Hd & Hnd) HL Hs. unfold pstep in Hs. case_bool_decide as Hdead; [done|].
    destruct (actors (pb ps) !! a) as [ac|] eqn:Ea; [|done]. cbn in Hs.
    (* an L1 step of a live actor keeps every dead actor where it is *)
    assert (Hl1 : forall Y s' (D : list nat), (forall b, b ∈ D -> b <> a /\ exists acb t, actors Y !! b = Some acb /\ stack acb = [FTlock t]) ->
              step T F Y a = Some s' -> forall b, b ∈ D -> exists acb t, actors s' !! b = Some acb /\ stack acb = [FTlock t]).
    { intros Y s' D HD HY b Hb. destruct (HD b Hb) as (Hne & acb & t & Eb & Est).
      destruct (step_others T F Y a s' HY b acb Hne Eb) as (x' & Ex & [E|(q & r & E1 & E2)]); [|by rewrite Est in E1].
      exists x', t. split; [done|]. by rewrite E. }
    assert (HD0 : forall b, b ∈ dead ps -> b <> a /\ exists acb t, actors (pb ps) !! b = Some acb /\ stack acb = [FTlock t]).
    { intros b Hb. split; [intros ->; done|by apply HL]. }
    assert (Hgen : match pclos ac with
              | Some (q0, o, rest, dies) =>
                  if default false (pan ps !! o) then
                    Some (ps <| pb := setstack (updq (drop_job (pb ps) (top_job ac)) q0 (fun x => x <| qs := Panicked |> <| owner := None |>)) a rest |>
                             <| dead := if dies then a :: dead ps else dead ps |>)
                  else s' ← step T F (pb ps) a; Some (ps <| pb := s' |>)
              | None => s' ← step T F (pb ps) a; Some (ps <| pb := s' |>)
              end = Some ps' -> dead_lock ps').
    { destruct (pclos ac) as [[[[q0 o] rest] dies]|] eqn:Hp.
      - destruct (default false (pan ps !! o)).
        + intros [= <-]. intros b Hb. cbn -[setstack updq] in *.
          assert (Hold : b ∈ dead ps -> exists acb t, actors (setstack (updq (drop_job (pb ps) (top_job ac)) q0 (fun x => x <| qs := Panicked |> <| owner := None |>)) a rest) !! b = Some acb /\ stack acb = [FTlock t]).
          { intros Hb'. destruct (HD0 b Hb') as (Hne & acb & t & Eb & Est).
            rewrite actors_setstack_lookup, decide_False by done. change (actors (updq ?Y _ _)) with (actors Y).
            destruct (drop_job_actor (pb ps) (top_job ac) b acb Eb _ Est) as (x & Ex & Hx); [by intros|]. by exists x, t. }
          destruct dies; [|by apply Hold]. apply elem_of_cons in Hb as [->|Hb]; [|by apply Hold].
          rewrite actors_setstack_lookup, decide_True by done. change (actors (updq ?Y _ _)) with (actors Y).
          assert (Hnw : forall q1 r, stack ac <> FSBwait q1 :: r) by (intros q1 r E; unfold pclos in Hp; by rewrite E in Hp).
          destruct (drop_job_actor (pb ps) (top_job ac) a ac Ea _ eq_refl Hnw) as (x & -> & Hx). cbn.
          unfold pclos in Hp. destruct (stack ac) as [|fr st]; [done|]. destruct fr; try done.
          * destruct st as [|gf st]; [done|]. destruct gf; try done; case_decide; done.
          * destruct st as [|[] [|]]; try done. simplify_eq. eexists _, _. done.
        + destruct (step T F (pb ps) a) as [s'|] eqn:E; [|done]. cbn. intros [= <-]. intros b Hb. cbn in *. by eapply (Hl1 (pb ps) s' (dead ps)).
      - destruct (step T F (pb ps) a) as [s'|] eqn:E; [|done]. cbn. intros [= <-]. intros b Hb. cbn in *. by eapply (Hl1 (pb ps) s' (dead ps)). }
    destruct (stack ac) as [|fr rest] eqn:Est; [by apply Hgen|].
    destruct fr; try (by apply Hgen).
    - destruct script as [|o os]; [by apply Hgen|].
      destruct (step T F (pb ps) a) as [s'|] eqn:E; [|done]. cbn in Hs. injection Hs as <-. intros b Hb. cbn in *. by eapply (Hl1 (pb ps) s' (dead ps)).
    - pose proof (reap_keeps PF (dead ps) (pb ps) Hnd) as Hk. pose proof (reap_sub PF (dead ps) (pb ps)) as Hsub.
      destruct (reap PF (pb ps) (dead ps)) as [s1 d1]. cbn in *.
      destruct (step T F s1 a) as [s'|] eqn:E; [|done]. cbn in Hs. injection Hs as <-. intros b Hb. cbn in *.
      eapply (Hl1 s1 s' d1); [|done|done]. intros b0 Hb0. split; [intros ->; by apply Hdead, Hsub|]. rewrite (Hk b0 Hb0). by apply HL, Hsub.
  Qed.

  Lemma dead_lock_run tr : forall ps ps', PInv' ps -> dead_lock ps -> prun T F PF ps tr = Some ps' -> dead_lock ps'.
  Proof.
    induction tr as [|a tr IH]; intros ps ps' HI HL Hr; [unfold prun in Hr; cbn in Hr; by injection Hr as <-|].
    rewrite prun_cons in Hr. destruct (pstep T F PF ps a) as [ps1|] eqn:E; [|done]. cbn in Hr.
    eapply (IH ps1); [by eapply (pinv_step T F PF HT)|by eapply dead_lock_step|exact Hr].
  Qed.

  Theorem dead_are_pool_threads nq mx scripts tr ps : prun T F PF (pinit nq mx scripts) tr = Some ps -> dead_lock ps.
  Proof. intros Hr. eapply dead_lock_run; [apply pinit_inv| |exact Hr]. intros a Ha. by apply elem_of_nil in Ha. Qed.

  (* a caller at its script or inside a call is alive *)
  Corollary caller_alive nq mx scripts tr ps c st fr : prun T F PF (pinit nq mx scripts) tr = Some ps ->
    stack_of ps c = Some st -> list.last st = Some fr -> is_top fr = true -> c ∉ ps.(dead).
  Proof.
    intros Hr Hst Hl Ht Hin. destruct (dead_are_pool_threads _ _ _ _ _ Hr c Hin) as (ac & t & Ea & Est).
    unfold stack_of in Hst. rewrite Ea in Hst. cbn in Hst. injection Hst as <-. rewrite Est in Hl. cbn in Hl. injection Hl as <-. done.
  Qed.
End DeadP.
