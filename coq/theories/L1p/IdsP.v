(* The ids at a reachable terminal state without dead threads: what is accounted for (Mids: run, pending, or about to be pushed) is
   exactly the ids that ran and the ids of the jobs stored on Panicked queues. *)
From stdpp Require Import list numbers list_numbers option.
From RecordUpdate Require Import RecordUpdate.
From L1 Require Import Model Own Shape Stuck Live Wait Help Final Pool.
From L1h Require Import WeakWF Hist Abs.
From L1p Require Import Model OwnP Absorb MainP DeadP ShapeP QuietP IdAbs IdInv MaskP AllP QuietAll.

Definition stored_panicked (s : state) (q : nat) : list nat :=
  match s.(queues) !! q with Some qq => match qq.(qs) with Panicked => job_id <$> qq.(jobs) | _ => [] end | None => [] end.

Lemma sumq_ext f g n : (forall q, f q = g q) -> sumq f n = sumq g n.
Proof. intros H. unfold sumq. f_equal. apply list_fmap_ext. intros i x _. apply H. Qed.
Lemma omap_none {A B} (f : A -> option B) l : (forall x, x ∈ l -> f x = None) -> omap f l = [].
Proof. induction l as [|x l IH]; intros H; cbn; [done|]. rewrite (H x) by (by left). apply IH. intros y Hy. apply H. by right. Qed.

Lemma stuck_not_pre s a ac : Shape s -> s.(actors) !! a = Some ac -> stuck_ok s ac.(stack) -> pre_id (aact ac) = None.
Proof.
  intros HS Ea Hsk. unfold pre_id, aact; cbn. destruct (kind_of s a ac HS Ea) as [[_ Hok]|(t & _ & Hok)].
  - destruct (stack ac) as [|fr rest] eqn:Es; [done|]. pose proof (stuck_hd s _ fr Hsk eq_refl) as Hf.
    apply caller_ok_inv in Hok as [(-> & Hfr)|[(os & -> & Hsf)|(g & os & -> & Hpo)]]; destruct fr; try done; cbn; try done.
    all: try (by destruct g).
  - destruct (stack ac) as [|fr rest] eqn:Es; [done|]. apply pool_ok_inv in Hok as [(-> & Hfr)|(-> & Hfr)]; destruct fr; done.
Qed.

Section Ids.
  Context (T : tables) (F : facts) (PF : pfacts).

  Theorem ids_at_terminal ps : AllP ps -> pterminal T F PF ps -> ps.(dead) = [] ->
    Mids ps.(pb) = ps.(pb).(ran) ++ sumq (stored_panicked ps.(pb)) (nqs ps.(pb)).
  Proof.
    intros HA Hterm Hdead. destruct (quiescent_reaped T F PF ps HA Hterm Hdead) as (C1 & _ & C3).
    destruct HA as [HSI _ _ _ _]. destruct HSI as [(HI & _ & _) _ HS _]. revert HI HS C1 C3. generalize (pb ps). clear. intros s HI HS C1 C3.
    unfold Mids, Mv. cbn [view v_ran v_acts v_pend].
    assert (E1 : omap pre_id (acts s) = []).
    { apply omap_none. intros x Hx. unfold acts in Hx. apply elem_of_list_fmap in Hx as (ac & -> & Hin). apply elem_of_list_lookup in Hin as [a Ea].
      eapply stuck_not_pre; eauto. }
    rewrite E1, app_nil_r. f_equal. apply sumq_ext. intros q. unfold pids, stored_panicked. cbn [view v_pend]. unfold pend, oj.
    destruct (queues s !! q) as [qq|] eqn:Hq; [|done]. cbn.
    assert (Ho : owner qq = None).
    { destruct HI as [_ I2 _]. destruct (owner qq) as [b|] eqn:Eo; [|done]. exfalso.
      assert (Hr : qs qq = Running) by (apply (I2 q qq Hq); by rewrite Eo).
      destruct (C1 q qq Hq) as [Hi _]; [by rewrite Hr|]. congruence. }
    rewrite Ho. destruct (qs qq) eqn:E; try done; (destruct (C1 q qq Hq) as [_ Hj]; [by rewrite E|]; by rewrite Hj).
  Qed.
End Ids.
