(* C15 on the scheduler model: panicking closures (layer L1p, see L1p/Model.v: L1's step plus the panic step of a closure,
   thread death and the reap pass; L1 itself is not changed).

   Proved (for all tables with own_conditions and ptab - Panicked is mapped to Panicked by every table -, all facts, programs, schedules):
   C15p_ownership_survives_panics   Inv (exclusive ownership, C01) holds in every reachable state: at most one actor holds runner
                                    frames of an object - panicked or healthy
   C15p_panicked_is_absorbing       a queue that is Panicked in a reachable state is Panicked in every later state of the run
   C15p_panicked_queue_is_never_run no actor holds a runner frame of a Panicked queue: none of its stored jobs is dequeued or run
   Executable scenarios (vm_compute, current tables and facts):
   C15p_pool_capacity_lost_when_reap_skips_busy   f_reap_ignores_busy = false (the seeded change): pool maximum 1, D0[panic] then D1[]:
                                    nobody can move, the dead thread keeps the only slot (busy still set), object 1 is Pending with its job
   C15p_pool_capacity_restored_example   the same program with f_reap_ignores_busy = true (the code): the dead thread is reaped, the slot
                                    is used again, D1 runs, object 1 ends Idle and empty
   C15p_waiter_on_panicked_queue_is_stranded   OBSERVATION (outside C15, which speaks about attempts made after the unwinding
                                    has finished; seen on the crate too: DESIGN 9.6): a sync caller that is ALREADY WAITING in sync_background when the runner of
                                    the object panics is never woken: its job stays in the panicked queue, nothing drops or runs it
   NOT done (time box): the general liveness theorem C15p_pool_capacity_restored (L-quiet for healthy objects), C15p_fails_loudly for
   calls that start after the panic (the tables' Panic answers are in Panic/Absorb.v; on this model FS1/FTS1 return without pushing and
   FD1 pushes before it looks at the state, as the code does), exactly-once for healthy objects. *)
From stdpp Require Import list numbers option.
From L0 Require Import Types.
From Gen Require Import Tables.
From L1 Require Import Model Own Shape Stuck.
From L1p Require Import Model OwnP Absorb MainP.

Theorem C15p_ownership_survives_panics : forall (T : tables) (F : facts) (PF : pfacts), own_conditions T ->
  forall nq mx scripts tr ps, prun T F PF (pinit nq mx scripts) tr = Some ps -> Inv ps.(pb).
Proof. exact preach_inv. Qed.
Theorem C15p_one_runner_per_object : forall (T : tables) (F : facts) (PF : pfacts), own_conditions T ->
  forall nq mx scripts tr ps a b q na nb qq,
    prun T F PF (pinit nq mx scripts) tr = Some ps -> ps.(pb).(queues) !! q = Some qq ->
    stack_cnt ps.(pb) a q = Some (S na) -> stack_cnt ps.(pb) b q = Some (S nb) -> a = b.
Proof. exact exclusive_p. Qed.
Theorem C15p_panicked_is_absorbing : forall (T : tables) (F : facts) (PF : pfacts), own_conditions T -> ptab T ->
  forall nq mx scripts tr1 tr2 ps1 ps2 q,
    prun T F PF (pinit nq mx scripts) tr1 = Some ps1 -> prun T F PF ps1 tr2 = Some ps2 -> panicked ps1.(pb) q -> panicked ps2.(pb) q.
Proof. exact panicked_absorbing. Qed.
Theorem C15p_panicked_queue_is_never_run : forall (T : tables) (F : facts) (PF : pfacts), own_conditions T ->
  forall nq mx scripts tr ps q a n,
    prun T F PF (pinit nq mx scripts) tr = Some ps -> panicked ps.(pb) q -> stack_cnt ps.(pb) a q <> Some (S n).
Proof. exact panicked_no_runner. Qed.

(* ---------- scenarios ---------- *)
(* the reap rule is read from the source on every check: fact_reap_tests_only_is_finished (core.rs remove_finished_threads tests is_finished() and nothing else) *)
Definition pf_code : pfacts := {| f_reap_ignores_busy := fact_reap_tests_only_is_finished |}.
Definition pf_mut : pfacts := {| f_reap_ignores_busy := false |}.
Definition tops (ps : pstate) : list (option frame) := (fun ac => hd_error ac.(stack)) <$> ps.(pb).(actors).
Definition exP_scripts : list (list (op * bool)) := [[(ODesync 0, true); (ODesync 1, false)]].
Definition exP_tr_mut : list nat := [0; 0; 0; 0; 0; 0; 0; 0; 0; 1; 1; 1; 1; 1; 1; 1; 0; 0; 0; 0; 0; 0].
Definition exP_tr_code : list nat := [0; 0; 0; 0; 0; 0; 0; 0; 0; 1; 1; 1; 1; 1; 1; 1; 0; 0; 0; 0; 1; 1; 1; 1; 1; 1; 1; 1; 1; 1; 1; 1; 1].

Example C15p_pool_capacity_lost_when_reap_skips_busy :
  exists ps, prun gen_tables gen_facts pf_mut (pinit 2 1 exP_scripts) exP_tr_mut = Some ps /\
    pterminal_b gen_tables gen_facts pf_mut ps = true /\
    (qs <$> ps.(pb).(queues)) = [Panicked; Pending] /\ ((fun q => length q.(jobs)) <$> ps.(pb).(queues)) = [0; 1] /\ ps.(pb).(sched) = [1] /\
    ps.(dead) = [1] /\ (busy <$> ps.(pb).(threads)) = [true] /\ ps.(pb).(ran) = [].
Proof. eexists. split; [vm_compute; reflexivity|]. repeat split. Qed.

Example C15p_pool_capacity_restored_example :
  exists ps, prun gen_tables gen_facts pf_code (pinit 2 1 exP_scripts) exP_tr_code = Some ps /\
    pterminal_b gen_tables gen_facts pf_code ps = true /\
    (qs <$> ps.(pb).(queues)) = [Panicked; Idle] /\ ((fun q => length q.(jobs)) <$> ps.(pb).(queues)) = [0; 0] /\ ps.(pb).(sched) = [] /\
    ps.(dead) = [] /\ (busy <$> ps.(pb).(threads)) = [false] /\ ps.(pb).(ran) = [1] /\ tops ps = [Some (FTop []); Some (FTrecv 0)].
Proof. eexists. split; [vm_compute; reflexivity|]. repeat split. Qed.

(* caller 1 waits in sync_background on object 0 while the pool thread runs the panicking job of caller 0 *)
Definition exW_scripts : list (list (op * bool)) := [[(ODesync 0, true)]; [(OSync 0, false)]].
Definition exW_tr : list nat := [0; 0; 0; 0; 0; 0; 0; 0; 2; 2; 2; 2; 2; 2; 1; 1; 1; 1; 1; 1; 1; 2].
Example C15p_waiter_on_panicked_queue_is_stranded :
  exists ps, prun gen_tables gen_facts pf_code (pinit 1 1 exW_scripts) exW_tr = Some ps /\
    pterminal_b gen_tables gen_facts pf_code ps = true /\
    tops ps = [Some (FTop []); Some (FSBwait 0); Some (FTlock 0)] /\ (qs <$> ps.(pb).(queues)) = [Panicked] /\
    ((fun q => length q.(jobs)) <$> ps.(pb).(queues)) = [1] /\ ps.(dead) = [2].
Proof. eexists. split; [vm_compute; reflexivity|]. repeat split. Qed.

(* ---------- on the current tables ---------- *)
Lemma clp_own : own_conditions gen_tables.
Proof.
  split; cbn.
  - intros st e st' act H. destruct st, e; inversion H; subst; cbn; auto; split; congruence.
  - intros st e st' act H. destruct st, e; inversion H; subst; cbn; auto; split; congruence.
  - intros st st' act H. destruct st; inversion H; subst; split; congruence.
  - intros st ne st' p H. destruct st, ne; inversion H; subst; split; congruence.
  - intros st st' H. destruct st; inversion H; subst; split; congruence.
  - intros st st' H. destruct st; inversion H; subst; split; congruence.
  - intros e st' d H. destruct e; inversion H; subst; cbn; congruence.
Qed.
Lemma clp_ptab : ptab gen_tables.
Proof. split; cbn; try done; by intros []. Qed.
Lemma clp_dormant_reaps_first : fact_dormant_reaps_first = true. Proof. reflexivity. Qed.
Lemma clp_reap_tests_only_is_finished : fact_reap_tests_only_is_finished = true. Proof. reflexivity. Qed.

Theorem C15p_panicked_is_absorbing_now : forall (F : facts) (PF : pfacts) nq mx scripts tr1 tr2 ps1 ps2 q,
  prun gen_tables F PF (pinit nq mx scripts) tr1 = Some ps1 -> prun gen_tables F PF ps1 tr2 = Some ps2 -> panicked ps1.(pb) q -> panicked ps2.(pb) q.
Proof. exact (fun F PF => C15p_panicked_is_absorbing gen_tables F PF clp_own clp_ptab). Qed.
Theorem C15p_ownership_now : forall (F : facts) (PF : pfacts) nq mx scripts tr ps,
  prun gen_tables F PF (pinit nq mx scripts) tr = Some ps -> Inv ps.(pb).
Proof. exact (fun F PF => C15p_ownership_survives_panics gen_tables F PF clp_own). Qed.

Print Assumptions C15p_ownership_survives_panics.
Print Assumptions C15p_one_runner_per_object.
Print Assumptions C15p_panicked_is_absorbing.
Print Assumptions C15p_panicked_queue_is_never_run.
Print Assumptions C15p_pool_capacity_lost_when_reap_skips_busy.
Print Assumptions C15p_pool_capacity_restored_example.
Print Assumptions C15p_waiter_on_panicked_queue_is_stranded.
Print Assumptions C15p_panicked_is_absorbing_now.
Print Assumptions C15p_ownership_now.
