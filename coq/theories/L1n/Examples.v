(* L1n: executable scenarios (vm_compute): a pool thread whose body waits in a nested sync and STEALS the queue;
   the same program without the sticky notification (F2 unrepaired) gets stuck; a three-level program *)
From stdpp Require Import list numbers list_numbers option.
From L0 Require Import Types.
From Gen Require Import Tables.
From L1 Require Import Model Stuck.
From L1h Require Import Hist.
From L1n Require Import Model Wf.

Lemma nterminal_b_sound T F ntop P ns : nterminal_b T F ntop P ns = true -> nterminal T F ntop P ns.
Proof.
  unfold nterminal_b. rewrite forallb_forall. intros H a.
  destruct (decide (a < length (actors (base ns)))) as [Hlt|Hge].
  - specialize (H a). rewrite <- elem_of_list_In, elem_of_seq in H. specialize (H ltac:(lia)). by destruct (nstep T F ntop P ns a).
  - unfold nstep. assert (E : actors (base ns) !! a = None) by (apply lookup_ge_None_2; lia). rewrite E. by destruct (_ && _).
Qed.

(* ---------- S: caller 0: desync on object 0 whose body is sync on object 1; caller 1: sync on object 1; pool maximum 1 ----------
   activations: 0, 1 the callers, 2 the body; actor 3 is the pool thread.  Caller 1 is inside its closure on object 1 when the pool
   thread starts the body; the body registers as a waiter and waits; caller 1 finishes: object 1 becomes Pending and is scheduled, but
   the only pool thread is the one that waits for the body; the body was notified, claims object 1 itself (FSBclaim), runs its job
   (FSBsteal / FROdeq) and returns; the pool thread finishes the job of object 0. *)
Definition exS_prog : prog := flatten [[NDesync 0 [NSync 1 []]]; [NSync 1 []]].
Definition exS_init : nstate := ninit 2 1 exS_prog.
Definition exS_tr1 : list nat := [0; 0; 0; 0; 0; 0; 0; 0; 1; 1; 3; 3; 3; 3; 3; 3; 3; 2; 2; 2; 2; 2; 2; 2; 1; 1; 1; 1; 1; 1; 1; 1].
Definition exS_tr2 : list nat := [2; 2; 2].
Definition exS_tr3 : list nat := [2; 2; 2; 2; 2; 2; 2; 3; 3; 3; 3; 3; 3; 3].
Definition tops (ns : nstate) : list (option frame) := (fun ac => hd_error ac.(stack)) <$> ns.(base).(actors).

Lemma exS_wf : nwf 2 2 exS_prog. Proof. apply nwf_b_sound. vm_compute. reflexivity. Qed.
(* the pool is saturated by a thread blocked in a nested sync; the queue it waits for is Pending and scheduled *)
Lemma exS_saturated : exists ns, nrun gen_tables gen_facts 2 exS_prog exS_init exS_tr1 = Some ns /\
  tops ns = [Some (FTop []); Some (FTop []); Some (FSBwoken 1); Some (FDRrun 0 (JPlain 0))] /\
  (qs <$> ns.(base).(queues)) = [Running; Pending] /\ ns.(base).(sched) = [1] /\ ns.(started) = [2] /\ length ns.(base).(threads) = 1.
Proof. eexists. split; [vm_compute; reflexivity|done]. Qed.
(* the waiter steals *)
Lemma exS_steal : exists ns, nrun gen_tables gen_facts 2 exS_prog exS_init (exS_tr1 ++ exS_tr2) = Some ns /\
  tops ns = [Some (FTop []); Some (FTop []); Some (FROdeq 1); Some (FDRrun 0 (JPlain 0))] /\
  (qs <$> ns.(base).(queues)) = [Running; Running] /\ ns.(base).(sched) = [] /\
  (owner <$> ns.(base).(queues)) = [Some 3; Some 2].
Proof. eexists. split; [vm_compute; reflexivity|done]. Qed.
Lemma exS_run : exists ns, nrun gen_tables gen_facts 2 exS_prog exS_init (exS_tr1 ++ exS_tr2 ++ exS_tr3) = Some ns /\
  nterminal_b gen_tables gen_facts 2 exS_prog ns = true /\ ncomplete 2 exS_prog ns = true /\
  ns.(base).(ran) = [0; 2; 1] /\ ns.(started) = [2].
Proof. eexists. split; [vm_compute; reflexivity|done]. Qed.

(* ---------- the same program when notifications do not stick (defect F2 not repaired): the body registers, caller 1 finishes
   before the body has pushed its job, the body pushes onto the idle queue, reschedules it itself (nobody can take it: the only
   pool thread waits for this body), checks - not notified - and waits for ever ---------- *)
Definition nosticky_facts : facts := {| f_dormant_blocks := true; f_sticky_notify := false |}.
Definition exN_tr : list nat := [0; 0; 0; 0; 0; 0; 0; 0; 1; 1; 3; 3; 3; 3; 3; 3; 3; 2; 2; 2; 1; 1; 1; 2; 2; 2; 2; 2; 2; 2; 2].
Lemma exN_stuck : exists ns, nrun gen_tables nosticky_facts 2 exS_prog exS_init exN_tr = Some ns /\
  nterminal_b gen_tables nosticky_facts 2 exS_prog ns = true /\ ncomplete 2 exS_prog ns = false /\
  tops ns = [Some (FTop []); Some (FTop []); Some (FSBwait 1); Some (FDRrun 0 (JPlain 0))] /\
  (qs <$> ns.(base).(queues)) = [Running; Pending] /\ ns.(base).(sched) = [1].
Proof. eexists. split; [vm_compute; reflexivity|done]. Qed.

(* ---------- three levels, a try_sync that finds its object busy (its body is never started), pool maximum 1 ---------- *)
Definition exD_prog : prog :=
  flatten [[NDesync 0 [NSync 1 [NDesync 2 []; NTrySync 2 [NDesync 3 []]]]]; [NDesync 1 []; NSync 2 []]].
Definition exD_tr : list nat :=
  [1; 1; 1; 1; 1; 1; 1; 1; 1; 1; 1; 1; 1; 0; 0; 0; 0; 0; 0; 0; 5; 5; 5; 5; 5; 5; 5; 5; 5; 5; 5; 5; 5; 5; 5; 2; 2; 2; 3; 3; 3; 3; 3; 3; 3; 3;
   3; 2; 2; 2; 5; 5; 5; 5; 5; 5; 5; 5; 5; 5; 5; 5; 5; 5; 5].
Lemma exD_wf : nwf 4 2 exD_prog. Proof. apply nwf_b_sound. vm_compute. reflexivity. Qed.
Lemma exD_run : exists ns, nrun gen_tables gen_facts 2 exD_prog (ninit 4 1 exD_prog) exD_tr = Some ns /\
  nterminal_b gen_tables gen_facts 2 exD_prog ns = true /\ ncomplete 2 exD_prog ns = true /\
  ns.(started) = [3; 2] /\ ns.(base).(ran) = [4; 2; 3; 0; 1] /\
  ns.(ops) = [(1, None); (2, None); (0, Some 2); (1, Some 3); (2, None); (2, Some 4)] /\
  ns.(nh) = [Call 0 1 KDesync; Push 0 1; Ret 0; Call 1 2 KSync; Push 1 2; Run 1 2; Ret 1; Call 2 0 KDesync; Push 2 0; Ret 2; Run 0 1;
             Call 3 1 KSync; Push 3 1; Call 4 2 KDesync; Push 4 2; Ret 4; Call 5 2 KTry; RetBusy 5; Run 3 1; Ret 3; Run 2 0; Run 4 2].
Proof. eexists. split; [vm_compute; reflexivity|done]. Qed.
