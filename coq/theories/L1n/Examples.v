(* L1n: executable scenarios (vm_compute): a pool thread whose body waits in a nested sync and STEALS the queue;
   the same program without the sticky notification (F2 unrepaired) gets stuck; a three-level program *)
From stdpp Require Import list numbers list_numbers option.
From L0 Require Import Types.
From Gen Require Import Tables.
From L1 Require Import Model Stuck.
From L1h Require Import Hist.
From L1n Require Import Model Wf.

Lemma nterminal_b_sound T F ntop P ns : nterminal_b T F ntop P ns = true -> nterminal T F ntop P ns.
Proof.
  unfold nterminal_b. rewrite forallb_forall. intros H a.
  destruct (decide (a < length (actors (base ns)))) as [Hlt|Hge].
  - specialize (H a). rewrite <- elem_of_list_In, elem_of_seq in H. specialize (H ltac:(lia)). by destruct (nstep T F ntop P ns a).
  - unfold nstep. assert (E : actors (base ns) !! a = None) by (apply lookup_ge_None_2; lia). rewrite E. by destruct (_ && _).
Qed.

(* ---------- S: caller 0: desync on object 0 whose body is sync on object 1; caller 1: sync on object 1; pool maximum 1 ----------
   activations: 0, 1 the callers, 2 the body; actor 3 is the pool thread.  Caller 1 is inside its closure on object 1 when the pool
   thread starts the body; the body registers as a waiter and waits; caller 1 finishes: object 1 becomes Pending and is scheduled, but
   the only pool thread is the one that waits for the body; the body was notified, claims object 1 itself (FSBclaim), runs its job
   (FSBsteal / FROdeq) and returns; the pool thread finishes the job of object 0. *)
Definition exS_prog : prog := flatten [[NDesync 0 [NSync 1 []]]; [NSync 1 []]].
Definition exS_init : nstate := ninit 2 1 exS_prog.
Definition exS_tr1 : list nat := [0; 0; 0; 0; 0; 0; 0; 0; 1; 1; 3; 3; 3; 3; 3; 3; 3; 2; 2; 2; 2; 2; 2; 2; 1; 1; 1; 1; 1; 1; 1; 1].
Definition exS_tr2 : list nat := [2; 2; 2].
Definition exS_tr3 : list nat := [2; 2; 2; 2; 2; 2; 2; 3; 3; 3; 3; 3; 3; 3].
Definition tops (ns : nstate) : list (option frame) := (fun ac => hd_error ac.(stack)) <$> ns.(base).(actors).

Lemma exS_wf : nwf 2 2 exS_prog. Proof. apply nwf_b_sound. vm_compute. reflexivity. Qed.
(* the pool is saturated by a thread blocked in a nested sync; the queue it waits for is Pending and scheduled *)
Lemma exS_saturated : exists ns, nrun gen_tables gen_facts 2 exS_prog exS_init exS_tr1 = Some ns /\
  tops ns = [Some (FTop []); Some (FTop []); Some (FSBwoken 1); Some (FDRrun 0 (JPlain 0))] /\
  (qs <$> ns.(base).(queues)) = [Running; Pending] /\ ns.(base).(sched) = [1] /\ ns.(started) = [2] /\ length ns.(base).(threads) = 1.
Proof. eexists. split; [vm_compute; reflexivity|done]. Qed.
(* the waiter steals *)
Lemma exS_steal : exists ns, nrun gen_tables gen_facts 2 exS_prog exS_init (exS_tr1 ++ exS_tr2) = Some ns /\
  tops ns = [Some (FTop []); Some (FTop []); Some (FROdeq 1); Some (FDRrun 0 (JPlain 0))] /\
  (qs <$> ns.(base).(queues)) = [Running; Running] /\ ns.(base).(sched) = [] /\
  (owner <$> ns.(base).(queues)) = [Some 3; Some 2].
Proof. eexists. split; [vm_compute; reflexivity|done]. Qed.
Lemma exS_run : exists ns, nrun gen_tables gen_facts 2 exS_prog exS_init (exS_tr1 ++ exS_tr2 ++ exS_tr3) = Some ns /\
  nterminal_b gen_tables gen_facts 2 exS_prog ns = true /\ ncomplete 2 exS_prog ns = true /\
  ns.(base).(ran) = [0; 2; 1] /\ ns.(started) = [2].
Proof. eexists. split; [vm_compute; reflexivity|done]. Qed.

(* ---------- the same program when notifications do not stick (defect F2 not repaired): the body registers, caller 1 finishes
   before the body has pushed its job, the body pushes onto the idle queue, reschedules it itself (nobody can take it: the only
   pool thread waits for this body), checks - not notified - and waits for ever ---------- *)
Definition nosticky_facts : facts := {| f_dormant_blocks := true; f_sticky_notify := false |}.
Definition exN_tr : list nat := [0; 0; 0; 0; 0; 0; 0; 0; 1; 1; 3; 3; 3; 3; 3; 3; 3; 2; 2; 2; 1; 1; 1; 2; 2; 2; 2; 2; 2; 2; 2].
Lemma exN_stuck : exists ns, nrun gen_tables nosticky_facts 2 exS_prog exS_init exN_tr = Some ns /\
  nterminal_b gen_tables nosticky_facts 2 exS_prog ns = true /\ ncomplete 2 exS_prog ns = false /\
  tops ns = [Some (FTop []); Some (FTop []); Some (FSBwait 1); Some (FDRrun 0 (JPlain 0))] /\
  (qs <$> ns.(base).(queues)) = [Running; Pending] /\ ns.(base).(sched) = [1].
Proof. eexists. split; [vm_compute; reflexivity|done]. Qed.

(* ---------- three levels, a try_sync that finds its object busy (its body is never started), pool maximum 1 ---------- *)
Definition exD_prog : prog :=
  flatten [[NDesync 0 [NSync 1 [NDesync 2 []; NTrySync 2 [NDesync 3 []]]]]; [NDesync 1 []; NSync 2 []]].
Definition exD_tr : list nat :=
  [1; 1; 1; 1; 1; 1; 1; 1; 1; 1; 1; 1; 1; 0; 0; 0; 0; 0; 0; 0; 5; 5; 5; 5; 5; 5; 5; 5; 5; 5; 5; 5; 5; 5; 5; 2; 2; 2; 3; 3; 3; 3; 3; 3; 3; 3;
   3; 2; 2; 2; 5; 5; 5; 5; 5; 5; 5; 5; 5; 5; 5; 5; 5; 5; 5].
Lemma exD_wf : nwf 4 2 exD_prog. Proof. apply nwf_b_sound. vm_compute. reflexivity. Qed.
Lemma exD_run : exists ns, nrun gen_tables gen_facts 2 exD_prog (ninit 4 1 exD_prog) exD_tr = Some ns /\
  nterminal_b gen_tables gen_facts 2 exD_prog ns = true /\ ncomplete 2 exD_prog ns = true /\
  ns.(started) = [3; 2] /\ ns.(base).(ran) = [4; 2; 3; 0; 1] /\
  ns.(ops) = [(1, None); (2, None); (0, Some 2); (1, Some 3); (2, None); (2, Some 4)] /\
  ns.(nh) = [Call 0 1 KDesync; Push 0 1; Ret 0; Call 1 2 KSync; Push 1 2; Run 1 2; Ret 1; Call 2 0 KDesync; Push 2 0; Ret 2; Run 0 1;
             Call 3 1 KSync; Push 3 1; Call 4 2 KDesync; Push 4 2; Ret 4; Call 5 2 KTry; RetBusy 5; Run 3 1; Ret 3; Run 2 0; Run 4 2].
Proof. eexists. split; [vm_compute; reflexivity|done]. Qed.

(* ---------- C10 with nesting: program S with pool maximum 2; caller 1 is frozen inside its sync closure on object 1 (blocked on a
   gate); the pool thread running object 0's job is suspended: the body of that job waits in its nested sync behind caller 1.
   Nobody but caller 1 can move; a second pool thread may still be spawned. ---------- *)
From L1g Require Import Frozen.
From L1n Require Import Quiet.
Definition nterminal_except_b (T : tables) (F : facts) (ntop : nat) (P : prog) (B0 : list nat) (ns : nstate) : bool :=
  forallb (fun a => bool_decide (a ∈ B0) || match nstep T F ntop P ns a with None => true | Some _ => false end) (seq 0 (length ns.(base).(actors))).
Lemma nterminal_except_b_sound T F ntop P B0 ns : nterminal_except_b T F ntop P B0 ns = true -> nterminal_except T F ntop P B0 ns.
Proof.
  unfold nterminal_except_b. rewrite forallb_forall. intros H a Hn.
  destruct (decide (a < length (actors (base ns)))) as [Hlt|Hge].
  - specialize (H a). rewrite <- elem_of_list_In, elem_of_seq in H. specialize (H ltac:(lia)).
    rewrite bool_decide_eq_false_2 in H by done. by destruct (nstep T F ntop P ns a).
  - unfold nstep. assert (E : actors (base ns) !! a = None) by (apply lookup_ge_None_2; lia). rewrite E. by destruct (_ && _).
Qed.
Definition exF_tr : list nat := [0; 0; 0; 0; 0; 0; 0; 0; 1; 1; 3; 3; 3; 3; 3; 3; 3; 2; 2; 2; 2; 2; 2; 2].
Lemma exF_run : exists ns, nrun gen_tables gen_facts 2 exS_prog (ninit 2 2 exS_prog) exF_tr = Some ns /\
  tops ns = [Some (FTop []); Some (FSIrun 1); Some (FSBwait 1); Some (FDRrun 0 (JPlain 0))] /\
  nterminal_except_b gen_tables gen_facts 2 exS_prog [1] ns = true /\
  (owner <$> ns.(base).(queues)) = [Some 3; Some 1] /\ length ns.(base).(threads) = 1 /\ ns.(base).(maxt) = 2 /\ ns.(started) = [2].
Proof. eexists. split; [vm_compute; reflexivity|done]. Qed.

(* ---------- C05 with nesting: the drop of object 1 (= sync(free), operation 2) is issued by the body of a job of object 0, after the
   desync 0 on object 1 has returned: 0 runs before 2, nothing runs on object 1 after 2 ---------- *)
Definition exX_prog : prog := flatten [[NDesync 1 []; NDesync 0 [NSync 1 []]]].
Definition exX_tr : list nat :=
  [0; 0; 0; 0; 0; 0; 0; 0; 0; 0; 0; 0; 0; 0; 0; 2; 2; 2; 2; 2; 2; 2; 2; 2; 2; 2; 2; 2; 2; 2; 1; 1; 1; 1; 1; 2; 2; 2; 2; 2; 2; 2].
Lemma exX_run : exists ns, nrun gen_tables gen_facts 1 exX_prog (ninit 2 1 exX_prog) exX_tr = Some ns /\
  ns.(nh) = [Call 0 1 KDesync; Push 0 1; Ret 0; Call 1 0 KDesync; Push 1 0; Ret 1; Run 0 1; Call 2 1 KSync; Push 2 1; Run 2 1; Ret 2; Run 1 0] /\
  ns.(ops) = [(1, None); (0, Some 1); (1, None)] /\ ncomplete 1 exX_prog ns = true.
Proof. eexists. split; [vm_compute; reflexivity|done]. Qed.
