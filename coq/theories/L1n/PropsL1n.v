(* L1n - nested operations: a job body is a script of operations on strictly higher-numbered objects (recursively), executed by
   whichever thread runs the job - a pool thread draining the queue, a sync caller draining or stealing it, or the caller of an
   immediate sync / try_sync.  See L1n/Model.v for the model (the L1 model itself is not changed: every body is an activation,
   an L1 caller record of its own, started when the closure that owns it is about to run; the parent activation is suspended at
   its closure frame until the body has finished; a thread is the chain of its activations).

   nrun T F ntop P (ninit nq mx P) tr = Some ns : the nested run of the flattened program P (ntop top-level callers, the body
     activations behind them; [flatten] produces P from the recursive syntax [nop], [nwf_b] checks [nwf] by computation).
   base ns : the L1 state;  nh ns : the history of the run (L1h events, Call/Push/Run/Ret per operation id);
   ops ns !! o = Some (q, Some k) : operation o is on object q and its body is activation k;  started ns : the bodies started.

   L1n_runs_are_L1_runs      every nested run projects to a run of L1 with the same history: ALL safety theorems of L1 / L1h carry over
   C01n_*                     at most one activation (hence one thread) holds runner frames of an object, in every reachable state
   C02n_*                     call order is run order per object, nested calls included (the caller of a nested call is the job);
                              the queue law pushed = ran ++ in hand ++ stored
   C03n_exactly_once          no closure runs twice, nothing runs before it was pushed
   C03n_body_inside_closure   when a closure is recorded as run, its whole body (recursively) has been executed
   C04n / C09n                sync runs its own closure exactly once between call and return; try_sync that answers Busy runs nothing
   C03n_quiescent_is_complete L-quiet with nesting: pool maximum >= 1, in a reachable state in which no thread can move every started
                              activation has finished, every queue is Idle and empty, the pool is dormant.  Hypotheses: the L_quiet
                              ones (core_tables, own_conditions, f_dormant_blocks) and imm_conditions, PLUS f_sticky_notify = true:
                              a pool saturated by threads blocked in nested syncs is rescued by the waiter's claim, and that needs the
                              notification to stick (defect F2).  Side condition nwf: nested operations go to higher objects.
                              NO relation between the pool maximum and the nesting depth is needed.
   C03n_nothing_lost          in such a state every pushed operation has run, with its body
   C03n_needs_sticky_notify_refuted   without f_sticky_notify a nested program gets stuck with pool maximum 1 (vm_compute)
   C10n_blocked_objects_do_not_stop_the_others   C10 with nesting.  B0: activations frozen inside a closure (frozen_ok: at FDRrun / FROrun /
                              FSIrun - a pool thread or a caller blocked on a gate inside a job); nobody outside B0 can move; the pool has
                              a thread that is neither frozen nor suspended, or may still spawn one (npool_free).  Then every queue is Idle
                              and empty unless it is run by an activation that is BLOCKED BECAUSE OF A FROZEN ONE ([bf]: frozen itself;
                              suspended while its body is blocked; waiting in a nested sync whose job is stored in / held by a blocked
                              activation); every other activation has finished (or was never started), every other pool thread is dormant.
   C05n_drop_*                Desync::drop = sync(free), issued by any activation - e.g. the body of a job of ANOTHER object (nested
                              operations never go to the object whose job is running: nwf): it runs after every operation on q whose call
                              returned before, and if it is the last operation on q nothing of q runs after it.
   L1n_flatten_is_well_formed, *_prog   the same theorems stated directly for recursive programs [list (list nop)]: the flattening
                              of every WELL-ORDERED program ([wo nq scs]: every object < nq, every nested operation goes to an object
                              strictly above the object of the operation whose body it is in) is nwf, with ntop = number of callers.
   Fully proved. *)
From stdpp Require Import list numbers option.
From L0 Require Import Types.
From L1 Require Import Model Own Shape Stuck Live Wait Help Final Pool.
From L1h Require Import Hist Abs Sim HistFacts.
From L1g Require Import Frozen.
From L1n Require Import Model Proj NInv Quiet Main Wf FlattenWf Examples.
From Gen Require Import Tables.

Theorem L1n_runs_are_L1_runs : forall (T : tables) (F : facts) ntop (P : prog) nq mx tr ns,
  nrun T F ntop P (ninit nq mx P) tr = Some ns ->
  exists tr', run T F (init nq mx (a_script <$> P)) tr' = Some ns.(base) /\ ns.(nh) = hist T F (init nq mx (a_script <$> P)) tr'.
Proof. exact nreach_base. Qed.

Theorem C01n_one_runner_per_object : forall (T : tables) (F : facts), own_conditions T ->
  forall nq mx ntop (P : prog) tr ns a b q na nb qq,
    nrun T F ntop P (ninit nq mx P) tr = Some ns -> ns.(base).(queues) !! q = Some qq ->
    stack_cnt ns.(base) a q = Some (S na) -> stack_cnt ns.(base) b q = Some (S nb) -> a = b.
Proof. exact exclusive_n. Qed.
Theorem C01n_ownership_invariant : forall (T : tables) (F : facts), own_conditions T ->
  forall nq mx ntop (P : prog) tr ns, nrun T F ntop P (ninit nq mx P) tr = Some ns -> Inv ns.(base).
Proof. exact own_n. Qed.

Theorem C02n_call_order_is_run_order : forall (T : tables) (F : facts), own_conditions T -> imm_conditions T ->
  forall nq mx ntop (P : prog) tr ns A B q ka kb,
    nrun T F ntop P (ninit nq mx P) tr = Some ns ->
    Call A q ka ∈ ns.(nh) -> before (Ret A) (Call B q kb) ns.(nh) ->
    forall qb, Run B qb ∈ ns.(nh) -> qb = q /\ before (Run A q) (Run B q) ns.(nh).
Proof. exact order_n. Qed.
Theorem C02n_queue_law : forall (T : tables) (F : facts), own_conditions T -> imm_conditions T ->
  forall nq mx ntop (P : prog) tr ns q,
    nrun T F ntop P (ninit nq mx P) tr = Some ns -> pushed ns.(nh) q = ranq ns.(nh) q ++ (job_id <$> pend ns.(base) q).
Proof. exact queue_law_n. Qed.

Theorem C03n_exactly_once : forall (T : tables) (F : facts), own_conditions T -> imm_conditions T ->
  forall nq mx ntop (P : prog) tr ns,
    nrun T F ntop P (ninit nq mx P) tr = Some ns ->
    NoDup ns.(base).(ran) /\ NoDup (pushed_all ns.(nh)) /\ (forall i, i ∈ ns.(base).(ran) -> exists q, before (Push i q) (Run i q) ns.(nh)).
Proof. exact once_n. Qed.
Theorem C03n_body_inside_closure : forall (T : tables) (F : facts), own_conditions T -> imm_conditions T ->
  forall nq mx ntop (P : prog), nwf nq ntop P ->
  forall tr ns o q k, nrun T F ntop P (ninit nq mx P) tr = Some ns ->
    ns.(ops) !! o = Some (q, Some k) -> o ∈ ns.(base).(ran) -> k ∈ ns.(started) /\ done_b ns.(base) k = true.
Proof. exact body_done_n. Qed.

Theorem C04n_sync_runs_own_closure : forall (T : tables) (F : facts), own_conditions T -> imm_conditions T ->
  forall nq mx ntop (P : prog) tr ns i q k,
    nrun T F ntop P (ninit nq mx P) tr = Some ns -> k <> KDesync -> Call i q k ∈ ns.(nh) -> Ret i ∈ ns.(nh) ->
    exists h1 h2 h3 h4, ns.(nh) = h1 ++ Call i q k :: h2 ++ Run i q :: h3 ++ Ret i :: h4 /\ i ∉ runs (h1 ++ h2 ++ h3 ++ h4).
Proof. exact sync_own_n. Qed.
Theorem C09n_busy_never_runs : forall (T : tables) (F : facts), own_conditions T -> imm_conditions T ->
  forall nq mx ntop (P : prog) tr ns i,
    nrun T F ntop P (ninit nq mx P) tr = Some ns -> RetBusy i ∈ ns.(nh) -> i ∉ ns.(base).(ran) /\ i ∉ pushed_all ns.(nh).
Proof. exact busy_n. Qed.

Theorem C03n_quiescent_is_complete : forall (T : tables) (F : facts),
  core_tables T -> own_conditions T -> imm_conditions T -> F.(f_dormant_blocks) = true -> F.(f_sticky_notify) = true ->
  forall nq mx ntop (P : prog), nwf nq ntop P -> 1 <= mx ->
  forall tr ns, nrun T F ntop P (ninit nq mx P) tr = Some ns -> nterminal T F ntop P ns ->
    nquiet ntop P ns /\ ncomplete ntop P ns = true.
Proof. exact L_quiet_n. Qed.
Theorem C03n_nothing_lost : forall (T : tables) (F : facts),
  core_tables T -> own_conditions T -> imm_conditions T -> F.(f_dormant_blocks) = true -> F.(f_sticky_notify) = true ->
  forall nq mx ntop (P : prog), nwf nq ntop P -> 1 <= mx ->
  forall tr ns, nrun T F ntop P (ninit nq mx P) tr = Some ns -> nterminal T F ntop P ns ->
  forall i q, Push i q ∈ ns.(nh) -> Run i q ∈ ns.(nh) /\ i ∈ ns.(base).(ran) /\
    forall qo k, ns.(ops) !! i = Some (qo, Some k) -> k ∈ ns.(started) /\ done_b ns.(base) k = true.
Proof. exact nothing_lost_n. Qed.

Theorem C10n_blocked_objects_do_not_stop_the_others : forall (T : tables) (F : facts),
  core_tables T -> own_conditions T -> imm_conditions T -> F.(f_dormant_blocks) = true -> F.(f_sticky_notify) = true ->
  forall nq mx ntop (P : prog), nwf nq ntop P -> 1 <= mx ->
  forall tr ns B0, nrun T F ntop P (ninit nq mx P) tr = Some ns ->
    frozen_ok ns.(base) B0 -> nterminal_except T F ntop P B0 ns -> npool_free T F ns -> nquiet_except ntop P B0 ns.
Proof. exact L_quiet_frozen_n. Qed.

Theorem C05n_drop_after_returned : forall (T : tables) (F : facts), own_conditions T -> imm_conditions T ->
  forall nq mx ntop (P : prog) tr ns A D q ka,
    nrun T F ntop P (ninit nq mx P) tr = Some ns ->
    Call A q ka ∈ ns.(nh) -> before (Ret A) (Call D q KSync) ns.(nh) ->
    forall h3 h4, ns.(nh) = h3 ++ Run D q :: h4 -> Run A q ∈ h3.
Proof. exact drop_after_returned_n. Qed.
Theorem C05n_drop_runs_last : forall (T : tables) (F : facts), own_conditions T -> imm_conditions T ->
  forall nq mx ntop (P : prog) tr ns D q h1 h2,
    nrun T F ntop P (ninit nq mx P) tr = Some ns ->
    ns.(nh) = h1 ++ Call D q KSync :: h2 ->
    (forall B k, B <> D -> Call B q k ∈ ns.(nh) -> finished B h1) ->
    forall h3 h4, ns.(nh) = h3 ++ Run D q :: h4 ->
      (forall B, B <> D -> Push B q ∈ ns.(nh) -> Run B q ∈ h3) /\ (forall B, Run B q ∉ h4).
Proof. exact drop_runs_last_n. Qed.

(* ---------- recursive programs ---------- *)
Theorem L1n_flatten_is_well_formed : forall nq (scs : list (list nop)), wo nq scs -> nwf nq (length scs) (flatten scs).
Proof. exact flatten_nwf. Qed.

Theorem C03n_quiescent_is_complete_prog : forall (T : tables) (F : facts),
  core_tables T -> own_conditions T -> imm_conditions T -> F.(f_dormant_blocks) = true -> F.(f_sticky_notify) = true ->
  forall nq mx (scs : list (list nop)), wo nq scs -> 1 <= mx ->
  forall tr ns, nrun T F (length scs) (flatten scs) (ninit nq mx (flatten scs)) tr = Some ns -> nterminal T F (length scs) (flatten scs) ns ->
    nquiet (length scs) (flatten scs) ns /\ ncomplete (length scs) (flatten scs) ns = true.
Proof.
  exact (fun T F H1 H2 H3 H4 H5 nq mx scs Hwo => C03n_quiescent_is_complete T F H1 H2 H3 H4 H5 nq mx (length scs) (flatten scs) (flatten_nwf nq scs Hwo)).
Qed.

Theorem C03n_nothing_lost_prog : forall (T : tables) (F : facts),
  core_tables T -> own_conditions T -> imm_conditions T -> F.(f_dormant_blocks) = true -> F.(f_sticky_notify) = true ->
  forall nq mx (scs : list (list nop)), wo nq scs -> 1 <= mx ->
  forall tr ns, nrun T F (length scs) (flatten scs) (ninit nq mx (flatten scs)) tr = Some ns -> nterminal T F (length scs) (flatten scs) ns ->
  forall i q, Push i q ∈ ns.(nh) -> Run i q ∈ ns.(nh) /\ i ∈ ns.(base).(ran) /\
    forall qo k, ns.(ops) !! i = Some (qo, Some k) -> k ∈ ns.(started) /\ done_b ns.(base) k = true.
Proof.
  exact (fun T F H1 H2 H3 H4 H5 nq mx scs Hwo => C03n_nothing_lost T F H1 H2 H3 H4 H5 nq mx (length scs) (flatten scs) (flatten_nwf nq scs Hwo)).
Qed.

Theorem C10n_blocked_objects_do_not_stop_the_others_prog : forall (T : tables) (F : facts),
  core_tables T -> own_conditions T -> imm_conditions T -> F.(f_dormant_blocks) = true -> F.(f_sticky_notify) = true ->
  forall nq mx (scs : list (list nop)), wo nq scs -> 1 <= mx ->
  forall tr ns B0, nrun T F (length scs) (flatten scs) (ninit nq mx (flatten scs)) tr = Some ns ->
    frozen_ok ns.(base) B0 -> nterminal_except T F (length scs) (flatten scs) B0 ns -> npool_free T F ns ->
    nquiet_except (length scs) (flatten scs) B0 ns.
Proof.
  exact (fun T F H1 H2 H3 H4 H5 nq mx scs Hwo => C10n_blocked_objects_do_not_stop_the_others T F H1 H2 H3 H4 H5 nq mx (length scs) (flatten scs) (flatten_nwf nq scs Hwo)).
Qed.

(* non-vacuity: the example programs are well-ordered (and exS_prog, exD_prog are their flattenings) *)
Example wo_examples :
  wo 2 [[NDesync 0 [NSync 1 []]]; [NSync 1 []]] /\
  wo 4 [[NDesync 0 [NSync 1 [NDesync 2 []; NTrySync 2 [NDesync 3 []]]]]; [NDesync 1 []; NSync 2 []]] /\
  exS_prog = flatten [[NDesync 0 [NSync 1 []]]; [NSync 1 []]] /\
  ~ wo 2 [[NDesync 1 [NSync 0 []]]].
Proof.
  split; [|split; [|split]].
  - repeat constructor.
  - repeat constructor.
  - reflexivity.
  - intros H. apply list.Forall_cons in H as [H _]. apply list.Forall_cons in H as [H _]. cbn in H. lia.
Qed.

(* without the sticky notification: D0[(S1[])] + S1[], pool maximum 1, ends in a state in which nobody can move, the body waits
   in sync_background on object 1, object 1 is Pending in the schedule and the only pool thread is the one waiting for the body *)
Theorem C03n_needs_sticky_notify_refuted :
  exists ns, nrun gen_tables nosticky_facts 2 exS_prog exS_init exN_tr = Some ns /\
    nterminal gen_tables nosticky_facts 2 exS_prog ns /\ ncomplete 2 exS_prog ns = false /\ nwf 2 2 exS_prog /\
    tops ns = [Some (FTop []); Some (FTop []); Some (FSBwait 1); Some (FDRrun 0 (JPlain 0))] /\
    (qs <$> ns.(base).(queues)) = [Running; Pending] /\ ns.(base).(sched) = [1].
Proof.
  exact (match exN_stuck with ex_intro _ ns (conj H1 (conj H2 (conj H3 H4))) =>
           ex_intro _ ns (conj H1 (conj (nterminal_b_sound _ _ _ _ _ H2) (conj H3 (conj exS_wf H4)))) end).
Qed.

(* non-vacuity: the same program on the current tables and facts: the pool is saturated by the thread blocked in the nested sync,
   the waiter steals, the run ends complete *)
Example C03n_hypotheses_hold :
  nwf 2 2 exS_prog /\
  (exists ns, nrun gen_tables gen_facts 2 exS_prog exS_init exS_tr1 = Some ns /\
     tops ns = [Some (FTop []); Some (FTop []); Some (FSBwoken 1); Some (FDRrun 0 (JPlain 0))] /\
     (qs <$> ns.(base).(queues)) = [Running; Pending] /\ ns.(base).(sched) = [1] /\ ns.(started) = [2] /\ length ns.(base).(threads) = 1) /\
  (exists ns, nrun gen_tables gen_facts 2 exS_prog exS_init (exS_tr1 ++ exS_tr2) = Some ns /\
     tops ns = [Some (FTop []); Some (FTop []); Some (FROdeq 1); Some (FDRrun 0 (JPlain 0))] /\
     (qs <$> ns.(base).(queues)) = [Running; Running] /\ ns.(base).(sched) = [] /\ (owner <$> ns.(base).(queues)) = [Some 3; Some 2]) /\
  (exists ns, nrun gen_tables gen_facts 2 exS_prog exS_init (exS_tr1 ++ exS_tr2 ++ exS_tr3) = Some ns /\
     nterminal gen_tables gen_facts 2 exS_prog ns /\ ncomplete 2 exS_prog ns = true /\ ns.(base).(ran) = [0; 2; 1] /\ ns.(started) = [2]).
Proof.
  exact (conj exS_wf (conj exS_saturated (conj exS_steal
    (match exS_run with ex_intro _ ns (conj H1 (conj H2 H3)) => ex_intro _ ns (conj H1 (conj (nterminal_b_sound _ _ _ _ _ H2) H3)) end)))).
Qed.
(* three levels; the try_sync of the second level answers Busy, its body is never started *)
Example C03n_three_levels :
  nwf 4 2 exD_prog /\
  exists ns, nrun gen_tables gen_facts 2 exD_prog (ninit 4 1 exD_prog) exD_tr = Some ns /\
    nterminal gen_tables gen_facts 2 exD_prog ns /\ ncomplete 2 exD_prog ns = true /\
    ns.(started) = [3; 2] /\ ns.(base).(ran) = [4; 2; 3; 0; 1] /\
    ns.(ops) = [(1, None); (2, None); (0, Some 2); (1, Some 3); (2, None); (2, Some 4)] /\
    ns.(nh) = [Call 0 1 KDesync; Push 0 1; Ret 0; Call 1 2 KSync; Push 1 2; Run 1 2; Ret 1; Call 2 0 KDesync; Push 2 0; Ret 2; Run 0 1;
               Call 3 1 KSync; Push 3 1; Call 4 2 KDesync; Push 4 2; Ret 4; Call 5 2 KTry; RetBusy 5; Run 3 1; Ret 3; Run 2 0; Run 4 2].
Proof.
  exact (conj exD_wf (match exD_run with ex_intro _ ns (conj H1 (conj H2 H3)) => ex_intro _ ns (conj H1 (conj (nterminal_b_sound _ _ _ _ _ H2) H3)) end)).
Qed.

(* C10n: caller 1 frozen inside its sync closure on object 1; the pool thread (actor 3) is suspended in object 0's job, whose body
   (activation 2) waits in its nested sync behind caller 1; nobody else can move; the pool may still spawn its second thread *)
Example C10n_hypotheses_hold :
  exists ns, nrun gen_tables gen_facts 2 exS_prog (ninit 2 2 exS_prog) exF_tr = Some ns /\ nwf 2 2 exS_prog /\
    frozen_ok ns.(base) [1] /\ nterminal_except gen_tables gen_facts 2 exS_prog [1] ns /\ npool_free gen_tables gen_facts ns /\
    tops ns = [Some (FTop []); Some (FSIrun 1); Some (FSBwait 1); Some (FDRrun 0 (JPlain 0))] /\
    (owner <$> ns.(base).(queues)) = [Some 3; Some 1] /\ ns.(started) = [2].
Proof.
  destruct exF_run as (ns & H1 & H2 & H3 & H4 & H5 & H6 & H7). exists ns. split; [exact H1|]. split; [exact exS_wf|]. split; [|split; [|split]].
  - clear H1 H3 H4 H5 H6 H7. intros a Ha. apply elem_of_list_singleton in Ha as ->. unfold tops in H2.
    destruct (actors (base ns)) as [|a0 [|a1 r]] eqn:E; try done. cbn in H2. injection H2 as _ H2 _.
    destruct (stack a1) as [|fr rest] eqn:Es; [done|]. injection H2 as ->. exists a1, (FSIrun 1), rest. split; [reflexivity|]. split; [exact Es|exact I].
  - by apply nterminal_except_b_sound.
  - left. rewrite H5, H6. lia.
  - exact (conj H2 (conj H4 H7)).
Qed.
(* C05n: the drop of object 1 (operation 2 = sync(free)) is issued by the body of a job of object 0 *)
Example C05n_hypotheses_hold :
  exists ns, nrun gen_tables gen_facts 1 exX_prog (ninit 2 1 exX_prog) exX_tr = Some ns /\
    ns.(ops) = [(1, None); (0, Some 1); (1, None)] /\
    ns.(nh) = [Call 0 1 KDesync; Push 0 1; Ret 0; Call 1 0 KDesync; Push 1 0; Ret 1; Run 0 1] ++ Call 2 1 KSync :: [Push 2 1; Run 2 1; Ret 2; Run 1 0] /\
    (forall B k, B <> 2 -> Call B 1 k ∈ ns.(nh) -> finished B [Call 0 1 KDesync; Push 0 1; Ret 0; Call 1 0 KDesync; Push 1 0; Ret 1; Run 0 1]) /\
    ns.(nh) = [Call 0 1 KDesync; Push 0 1; Ret 0; Call 1 0 KDesync; Push 1 0; Ret 1; Run 0 1; Call 2 1 KSync; Push 2 1] ++ Run 2 1 :: [Ret 2; Run 1 0].
Proof.
  destruct exX_run as (ns & H1 & H2 & H3 & _). exists ns. split; [exact H1|]. split; [exact H3|]. clear H1 H3. rewrite H2. split; [reflexivity|]. split; [|reflexivity].
  intros B k Hne Hc. repeat (apply elem_of_cons in Hc as [Hc|Hc]; [try discriminate; injection Hc as -> _|]); try by apply elem_of_nil in Hc.
  - left. right; right. by left.
  - done.
Qed.

Print Assumptions L1n_runs_are_L1_runs.
Print Assumptions C01n_one_runner_per_object.
Print Assumptions C01n_ownership_invariant.
Print Assumptions C02n_call_order_is_run_order.
Print Assumptions C02n_queue_law.
Print Assumptions C03n_exactly_once.
Print Assumptions C03n_body_inside_closure.
Print Assumptions C04n_sync_runs_own_closure.
Print Assumptions C09n_busy_never_runs.
Print Assumptions C03n_quiescent_is_complete.
Print Assumptions C03n_nothing_lost.
Print Assumptions C10n_blocked_objects_do_not_stop_the_others.
Print Assumptions C05n_drop_after_returned.
Print Assumptions C05n_drop_runs_last.
Print Assumptions L1n_flatten_is_well_formed.
Print Assumptions C03n_quiescent_is_complete_prog.
Print Assumptions C03n_nothing_lost_prog.
Print Assumptions C10n_blocked_objects_do_not_stop_the_others_prog.
Print Assumptions wo_examples.
Print Assumptions C10n_hypotheses_hold.
Print Assumptions C05n_hypotheses_hold.
Print Assumptions C03n_needs_sticky_notify_refuted.
Print Assumptions C03n_hypotheses_hold.
Print Assumptions C03n_three_levels.
