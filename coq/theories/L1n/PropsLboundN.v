(* L-bound with nesting: the nested scheduler model has no livelock, with an explicit bound.
   Every nested run is an L1 run of the flattened program plus one step per body activation that is started, and a body is started
   at most once:  length tr <= L1n_bound mx ntop P = L1_bound mx (scripts of all activations) + number of body activations
   (L1_bound: L1b/Explicit.v, a polynomial in the pool maximum, the number of activations and the total number of operations).
   Hypotheses: own_conditions, imm_conditions, bound_conditions (as for L_bound) and nwf.  Holds for every pool maximum (also 0) and
   all facts.  Together with C03n_quiescent_is_complete: every maximal nested run is finite and ends complete. *)
From stdpp Require Import list numbers list_numbers option.
From L0 Require Import Types.
From Gen Require Import Tables.
From L1 Require Import Model Own Shape Stuck.
From L1h Require Import Sim.
From L1b Require Import Measure Good Bound Explicit.
From L1n Require Import Model LBound Wf FlattenWf Examples.

Theorem L_bound_nested : forall (T : tables) (F : facts), own_conditions T -> imm_conditions T -> bound_conditions T ->
  forall nq mx ntop (P : prog), nwf nq ntop P ->
  forall tr ns, nrun T F ntop P (ninit nq mx P) tr = Some ns -> length tr <= L1n_bound mx ntop P.
Proof. exact L_bound_n. Qed.

Theorem L_bound_no_infinite_nested_run : forall (T : tables) (F : facts), own_conditions T -> imm_conditions T -> bound_conditions T ->
  forall nq mx ntop (P : prog), nwf nq ntop P ->
    ~ exists f : nat -> nat, forall n, is_Some (nrun T F ntop P (ninit nq mx P) (f <$> seq 0 n)).
Proof. exact no_infinite_nrun. Qed.

(* for recursive programs: every well-ordered program *)
Theorem L_bound_nested_prog : forall (T : tables) (F : facts), own_conditions T -> imm_conditions T -> bound_conditions T ->
  forall nq mx (scs : list (list nop)), wo nq scs ->
  forall tr ns, nrun T F (length scs) (flatten scs) (ninit nq mx (flatten scs)) tr = Some ns -> length tr <= L1n_bound mx (length scs) (flatten scs).
Proof. exact (fun T F H1 H2 H3 nq mx scs Hwo => L_bound_nested T F H1 H2 H3 nq mx (length scs) (flatten scs) (flatten_nwf nq scs Hwo)). Qed.

(* on the current tables *)
Lemma clbn_own : own_conditions gen_tables.
Proof.
  split; cbn.
  - intros st e st' act H. destruct st, e; inversion H; subst; cbn; auto; split; congruence.
  - intros st e st' act H. destruct st, e; inversion H; subst; cbn; auto; split; congruence.
  - intros st st' act H. destruct st; inversion H; subst; split; congruence.
  - intros st ne st' p H. destruct st, ne; inversion H; subst; split; congruence.
  - intros st st' H. destruct st; inversion H; subst; split; congruence.
  - intros st st' H. destruct st; inversion H; subst; split; congruence.
  - intros e st' d H. destruct e; inversion H; subst; cbn; congruence.
Qed.
Lemma clbn_imm : imm_conditions gen_tables.
Proof. split; cbn; intros st e st' H; destruct st, e; inversion H; done. Qed.
Lemma clbn_bound : bound_conditions gen_tables.
Proof. split; cbn; [done|]. intros st st' d H. destruct st; inversion H; done. Qed.

Theorem L_bound_nested_now : forall (F : facts) nq mx ntop (P : prog), nwf nq ntop P ->
  forall tr ns, nrun gen_tables F ntop P (ninit nq mx P) tr = Some ns -> length tr <= L1n_bound mx ntop P.
Proof. exact (fun F => L_bound_nested gen_tables F clbn_own clbn_imm clbn_bound). Qed.

(* non-vacuity: the run of program S (49 steps, one of them the start of the body) and its bound *)
Example L_bound_nested_example :
  nwf 2 2 exS_prog /\ (exists ns, nrun gen_tables gen_facts 2 exS_prog exS_init (exS_tr1 ++ exS_tr2 ++ exS_tr3) = Some ns) /\
  length (exS_tr1 ++ exS_tr2 ++ exS_tr3) = 49 /\ N.of_nat (L1n_bound 1 2 exS_prog) = 148258%N.
Proof.
  split; [exact exS_wf|]. split; [destruct exS_run as (ns & H & _); by exists ns|]. split; [reflexivity|vm_compute; reflexivity].
Qed.

Print Assumptions L_bound_nested.
Print Assumptions L_bound_no_infinite_nested_run.
Print Assumptions L_bound_nested_prog.
Print Assumptions L_bound_nested_now.
Print Assumptions L_bound_nested_example.
