(* L1n: L-bound with nesting.  A nested run is an L1 run plus one extra step per body that is started; every body is started
   at most once: the length of every nested run is at most L1_bound (L1b/Explicit.v) of the flattened program plus the number of
   body activations. *)
From stdpp Require Import list numbers list_numbers option.
From RecordUpdate Require Import RecordUpdate.
From L1 Require Import Model Own Shape Stuck Live Wait Help Final Pool.
From L1h Require Import WeakWF Hist Abs SimBase Sim HistFacts AInv Reach.
From L1b Require Import Measure Good Bound Explicit.
From L1n Require Import Model Proj Eff Oba NInv NStep.

Definition L1n_bound (mx ntop : nat) (P : prog) : nat := L1_bound mx (a_script <$> P) + (length P - ntop).

Section LBound.
  Context (T : tables) (F : facts) (ntop : nat) (P : prog).

  Lemma nrun_len tr : forall ns ns', nrun T F ntop P ns tr = Some ns' -> NoDup ns.(started) ->
    exists tr', runh T F (ns.(base), ns.(nh)) tr' = Some (ns'.(base), ns'.(nh)) /\
                length tr + length ns.(started) = length tr' + length ns'.(started) /\ NoDup ns'.(started).
  Proof.
    induction tr as [|a tr IH]; intros ns ns' Hr Hnd.
    - unfold nrun in Hr; cbn in Hr. injection Hr as <-. exists []. done.
    - rewrite nrun_cons in Hr. destruct (nstep T F ntop P ns a) as [ns1|] eqn:E; [|done]. cbn in Hr.
      destruct (nstep_cases T F ntop P ns a ns1 E) as [_ Hc].
      destruct Hc as [ac o q k Ea Ec Eo Hk ->|ac o os rest s' Ea Est Hs ->|ac s' Ea Hnt Hs Hclos ->].
      + destruct (IH _ _ Hr) as (tr' & H1 & H2 & H3); [cbn; by constructor|]. cbn in *. exists tr'. split; [done|]. split; [lia|done].
      + destruct (IH _ _ Hr) as (tr' & H1 & H2 & H3); [done|]. cbn [base nh started] in *. exists (a :: tr'). split; [|split; [cbn; lia|done]].
        unfold runh in *. cbn. unfold steph at 2. cbn. rewrite Hs. cbn. unfold obs. rewrite Hs. exact H1.
      + destruct (IH _ _ Hr) as (tr' & H1 & H2 & H3); [done|]. cbn [base nh started] in *. exists (a :: tr'). split; [|split; [cbn; lia|done]].
        unfold runh in *. cbn. unfold steph at 2. cbn. rewrite Hs. cbn. unfold obs. rewrite Hs. exact H1.
  Qed.
End LBound.

Section Bound.
  Context (T : tables) (F : facts) (HT : own_conditions T) (HI : imm_conditions T) (HBd : bound_conditions T).
  Context (nq mx ntop : nat) (P : prog) (HW : nwf nq ntop P).

  Theorem L_bound_n tr ns : nrun T F ntop P (ninit nq mx P) tr = Some ns -> length tr <= L1n_bound mx ntop P.
  Proof.
    intros Hr. destruct (nrun_len T F ntop P tr _ _ Hr) as (tr' & H1 & H2 & H3); [cbn; constructor|]. cbn in H1, H2.
    pose proof (runh_fst T F (init nq mx (a_script <$> P), []) tr') as Hf. rewrite H1 in Hf. cbn in Hf. symmetry in Hf.
    pose proof (L_bound_explicit T F HT HBd nq mx _ tr' _ (w_scripts _ _ _ HW) Hf) as Hb.
    pose proof (nreach_ninv T F HT HI nq mx ntop P HW tr ns Hr) as HNI.
    assert (Hst : length (started ns) <= length P - ntop).
    { rewrite <- (seq_length (length P - ntop) ntop). apply submseteq_length, NoDup_submseteq; [done|].
      intros k Hk. apply (n_started _ _ _ HNI) in Hk. apply bool_decide_eq_true in Hk. apply elem_of_seq. lia. }
    unfold L1n_bound. lia.
  Qed.

  (* no infinite nested run *)
  Corollary no_infinite_nrun : ~ exists f : nat -> nat, forall n, is_Some (nrun T F ntop P (ninit nq mx P) (f <$> seq 0 n)).
  Proof.
    intros [f Hf]. destruct (Hf (S (L1n_bound mx ntop P))) as [ns Hns]. pose proof (L_bound_n _ _ Hns) as Hl.
    rewrite fmap_length, seq_length in Hl. lia.
  Qed.
End Bound.
