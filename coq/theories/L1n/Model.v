(* L1n - nested operations.  Definitions only.

   A job body is a script of nested operations ([nop]: NDesync q body | NSync q body | NTrySync q body, recursively) on
   strictly higher-numbered objects.  The body is executed by whichever thread runs the job: a pool thread draining the queue
   (frame FDRrun), a sync caller draining or stealing the queue (FROrun), or the caller of an immediate sync / try_sync (FSIrun).

   The L1 model (L1/Model.v) is NOT changed.  The frames of a nested call go "on top of the closure frame" in this form:
   every body is an ACTIVATION - an L1 caller record of its own (own call id, own ready/result/kicked flags: in the code these
   belong to one sync call - the condition variable, result slot and wake flag of sync_background are created per call - not to the
   thread).  The thread's stack is the chain: closure frame of the parent activation, then the frames of the activation that runs
   the body, and so on.  While the body runs the parent activation is suspended at its closure frame (entry [wait]); the L1 step of
   that frame (closure finished: ran, result flags, wake-ups) is taken when the body's activation has finished its script.
   All activations of a program are allocated when the program starts (they are the first actors of the L1 state, the top-level
   callers first) and stay inert ([FTop body], not in [started]) until the job that owns them is run.

   [nstep] is therefore: the L1 step of the base state, except that
     - an activation that has not been started, or whose body activation is still running, cannot move;
     - at a closure frame whose operation has an unstarted body: start the body (no base step);
     - at the issue of an operation (FTop (o :: os)): the operation id gets its object and its body activation ([ops]).
   Every base state reached by [nrun] is reached by an L1 run (Proj.v): all L1 invariants hold. *)
From stdpp Require Import list numbers option.
From RecordUpdate Require Import RecordUpdate.
From L1 Require Import Model Stuck.
From L1h Require Import Hist.

(* ---------- programs ---------- *)
Inductive nop := NDesync (q : nat) (body : list nop) | NSync (q : nat) (body : list nop) | NTrySync (q : nat) (body : list nop).

(* one activation: its script, for each operation of the script the activation that runs its body (None: empty body),
   and the object of the operation it is the body of (None: a top-level caller) *)
Record act := { a_script : list op; a_kids : list (option nat); a_base : option nat }.
Notation prog := (list act).

(* flattening: the activations of the bodies get the indices next, next+1, ... in depth-first order *)
Fixpoint fl_op (o : nop) (next : nat) {struct o} : op * option nat * list act * nat :=
  let go := fix go (sc : list nop) (next : nat) {struct sc} : list op * list (option nat) * list act * nat :=
    match sc with
    | [] => ([], [], [], next)
    | o :: r => let '(o', k, ds, n1) := fl_op o next in
                let '(os, ks, ds2, n2) := go r n1 in (o' :: os, k :: ks, ds ++ ds2, n2)
    end in
  let mk (o' : op) (q : nat) (body : list nop) :=
    match body with
    | [] => (o', None, [], next)
    | _ => let '(os, ks, ds, n1) := go body (S next) in
           (o', Some next, {| a_script := os; a_kids := ks; a_base := Some q |} :: ds, n1)
    end in
  match o with
  | NDesync q body => mk (ODesync q) q body
  | NSync q body => mk (OSync q) q body
  | NTrySync q body => mk (OTrySync q) q body
  end.
Fixpoint fl_script (sc : list nop) (next : nat) : list op * list (option nat) * list act * nat :=
  match sc with
  | [] => ([], [], [], next)
  | o :: r => let '(o', k, ds, n1) := fl_op o next in
              let '(os, ks, ds2, n2) := fl_script r n1 in (o' :: os, k :: ks, ds ++ ds2, n2)
  end.
(* the top-level callers come first *)
Fixpoint fl_tops (scs : list (list nop)) (next : nat) : list act * list act * nat :=
  match scs with
  | [] => ([], [], next)
  | sc :: r => let '(os, ks, ds, n1) := fl_script sc next in
               let '(tops, ds2, n2) := fl_tops r n1 in
               ({| a_script := os; a_kids := ks; a_base := None |} :: tops, ds ++ ds2, n2)
  end.
Definition flatten (scs : list (list nop)) : prog := let '(tops, ds, _) := fl_tops scs (length scs) in tops ++ ds.

(* ---------- well-ordered recursive programs: every object exists, and a nested operation goes to an object strictly above the
   object of the operation whose body it is in ---------- *)
Definition nop_q (o : nop) : nat := match o with NDesync q _ | NSync q _ | NTrySync q _ => q end.
Definition nop_body (o : nop) : list nop := match o with NDesync _ b | NSync _ b | NTrySync _ b => b end.
Fixpoint wo_op (nq : nat) (lo : option nat) (o : nop) {struct o} : Prop :=
  let all := fix all (q : nat) (sc : list nop) {struct sc} : Prop :=
    match sc with [] => True | o' :: r => wo_op nq (Some q) o' /\ all q r end in
  match o with
  | NDesync q body | NSync q body | NTrySync q body =>
      q < nq /\ match lo with Some b => b < q | None => True end /\ all q body
  end.
Definition wo (nq : nat) (scs : list (list nop)) : Prop := Forall (Forall (wo_op nq None)) scs.

(* ---------- well-formed (flattened) programs ---------- *)
Definition kid_at (P : prog) (a i : nat) : option nat := act ← P !! a; k ← act.(a_kids) !! i; k.
Definition all_kids (P : prog) : list nat := P ≫= (fun act => omap id act.(a_kids)).
Record nwf (nq ntop : nat) (P : prog) : Prop := {
  w_scripts : wf_scripts nq (a_script <$> P);
  w_ntop : ntop <= length P;
  w_kid : forall a i k, kid_at P a i = Some k ->
      ntop <= k < length P /\
      exists acta o actk, P !! a = Some acta /\ acta.(a_script) !! i = Some o /\ P !! k = Some actk /\ actk.(a_base) = Some (op_q o);
  w_higher : forall k act b, P !! k = Some act -> act.(a_base) = Some b -> Forall (fun o => b < op_q o) act.(a_script);
}.
Definition nwf_b (nq ntop : nat) (P : prog) : bool :=
  forallb (fun act => forallb (fun o => bool_decide (op_q o < nq)) act.(a_script)) P &&
  bool_decide (ntop <= length P) &&
  forallb (fun act => forallb (fun '(o, k) => match k with
       | None => true
       | Some k => bool_decide (ntop <= k < length P) &&
                   match P !! k with Some actk => bool_decide (actk.(a_base) = Some (op_q o)) | None => false end
       end) (zip act.(a_script) (act.(a_kids) ++ replicate (length act.(a_script)) None)) &&
       bool_decide (length act.(a_kids) <= length act.(a_script))) P &&
  forallb (fun act => match act.(a_base) with Some b => forallb (fun o => bool_decide (b < op_q o)) act.(a_script) | None => true end) P.

(* ---------- states ---------- *)
Record nstate := {
  base : state;                      (* the L1 state: the activations are its first actors *)
  nh : list hevent;                  (* ghost: the history of the base run (L1h) *)
  started : list nat;                (* body activations that have been started *)
  ncnt : list nat;                   (* operations issued so far, per activation *)
  ops : list (nat * option nat) }.   (* per operation id: its object and its body activation *)
#[export] Instance eta_nstate : Settable _ := settable! Build_nstate <base; nh; started; ncnt; ops>.

Definition is_kid (ntop : nat) (P : prog) (a : nat) : bool := bool_decide (ntop <= a < length P).
(* the operation whose closure a stack is about to finish *)
Definition clos_op (ac : actor) : option nat :=
  match ac.(stack) with
  | FSIrun _ :: _ => Some ac.(opctr)
  | FROrun _ j :: _ | FDRrun _ j :: _ => Some (job_id j)
  | _ => None
  end.
Definition done_b (s : state) (k : nat) : bool :=
  match s.(actors) !! k with Some ac => match ac.(stack) with [FTop []] => true | _ => false end | None => false end.

Section Step.
  Context (T : tables) (F : facts) (ntop : nat) (P : prog).

  (* the L1 step of the base state, with its history *)
  Definition bstep (ns : nstate) (a : nat) : option nstate :=
    s' ← step T F ns.(base) a; Some (ns <| base := s' |> <| nh := ns.(nh) ++ obs T F ns.(base) a |>).

  Definition nstep (ns : nstate) (a : nat) : option nstate :=
    if is_kid ntop P a && negb (bool_decide (a ∈ ns.(started))) then None else
    ac ← ns.(base).(actors) !! a;
    match ac.(stack) with
    | FTop (o :: os) :: _ =>
        ns' ← bstep ns a;
        Some (ns' <| ops := ns.(ops) ++ [(op_q o, kid_at P a (default 0 (ns.(ncnt) !! a)))] |> <| ncnt := alter S a ns.(ncnt) |>)
    | _ =>
        match clos_op ac with
        | Some o =>
            match ns.(ops) !! o with
            | Some (_, Some k) =>
                if bool_decide (k ∈ ns.(started)) then (if done_b ns.(base) k then bstep ns a else None)
                else Some (ns <| started := k :: ns.(started) |>)
            | _ => bstep ns a
            end
        | None => bstep ns a
        end
    end.

  Definition nrun (ns : nstate) (tr : list nat) : option nstate := foldl (fun o a => x ← o; nstep x a) (Some ns) tr.
  Definition nterminal (ns : nstate) : Prop := forall a, nstep ns a = None.
End Step.

Definition ninit (nq mx : nat) (P : prog) : nstate :=
  {| base := init nq mx (a_script <$> P); nh := []; started := []; ncnt := replicate (length P) 0; ops := [] |}.

(* ---------- complete states ---------- *)
(* every started activation has finished its script, every queue is Idle and empty, no pool thread is busy;
   an activation that was never started keeps its whole script: its operation never ran (NInv.n_ran: an operation that ran has a
   finished body) *)
Definition act_done (ntop : nat) (P : prog) (ns : nstate) (a : nat) (ac : actor) : bool :=
  match ac.(stack) with
  | [FTop []] => true
  | [FTrecv _] => true
  | [FTop _] => is_kid ntop P a && negb (bool_decide (a ∈ ns.(started)))
  | _ => false
  end.
Definition ncomplete (ntop : nat) (P : prog) (ns : nstate) : bool :=
  forallb (fun '(a, ac) => act_done ntop P ns a ac) (imap pair ns.(base).(actors)) &&
  forallb (fun q => match q.(qs), q.(jobs) with Idle, [] => true | _, _ => false end) ns.(base).(queues) &&
  forallb (fun t => negb t.(busy)) ns.(base).(threads).

Definition nterminal_b (T : tables) (F : facts) (ntop : nat) (P : prog) (ns : nstate) : bool :=
  forallb (fun a => match nstep T F ntop P ns a with None => true | Some _ => false end) (seq 0 (length ns.(base).(actors))).

(* an executable scheduler for examples: at each step try the preferred actors first *)
Fixpoint nfirst (T : tables) (F : facts) (ntop : nat) (P : prog) (ns : nstate) (cands : list nat) : option (nat * nstate) :=
  match cands with
  | [] => None
  | a :: r => match nstep T F ntop P ns a with Some ns' => Some (a, ns') | None => nfirst T F ntop P ns r end
  end.
Fixpoint nauto (T : tables) (F : facts) (ntop : nat) (P : prog) (ns : nstate) (prefs : list (list nat)) (fuel : nat) : list nat :=
  match fuel with
  | 0 => []
  | S n =>
    let '(p, ps) := match prefs with [] => ([], []) | p :: ps => (p, ps) end in
    match nfirst T F ntop P ns (p ++ seq 0 (length ns.(base).(actors))) with
    | Some (a, ns') => a :: nauto T F ntop P ns' ps n
    | None => []
    end
  end.
