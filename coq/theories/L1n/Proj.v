(* L1n: every run of the nested model projects to a run of the (unmodified) L1 model with the same history:
   all L1 invariants hold in the base state of every reachable nested state *)
From stdpp Require Import list numbers option.
From RecordUpdate Require Import RecordUpdate.
From L1 Require Import Model Own Shape Stuck Live Wait Help Final Pool.
From L1z Require Import ZDefs ZFinal.
From L1g Require Import MView Frozen MainC10.
From L1h Require Import WeakWF Hist Abs Sim HistFacts AInv Reach.
From L1n Require Import Model.

Section Proj.
  Context (T : tables) (F : facts) (ntop : nat) (P : prog).

  Lemma bstep_steph ns a ns' : bstep T F ns a = Some ns' ->
    steph T F (ns.(base), ns.(nh)) a = Some (ns'.(base), ns'.(nh)) /\
    ns'.(started) = ns.(started) /\ ns'.(ncnt) = ns.(ncnt) /\ ns'.(ops) = ns.(ops).
  Proof.
    unfold bstep, steph. cbn. destruct (step T F (base ns) a) as [s'|]; [|done]. cbn. intros [= <-]. done.
  Qed.

  (* a nested step is a step of the base model (with its history), or it only starts a body *)
  Lemma nstep_proj ns a ns' : nstep T F ntop P ns a = Some ns' ->
    steph T F (ns.(base), ns.(nh)) a = Some (ns'.(base), ns'.(nh)) \/ (ns'.(base) = ns.(base) /\ ns'.(nh) = ns.(nh)).
  Proof.
    unfold nstep. destruct (_ && _); [done|].
    destruct (actors (base ns) !! a) as [ac|]; [|done]. cbn.
    assert (Hb : forall x, bstep T F ns a = Some x -> steph T F (ns.(base), ns.(nh)) a = Some (x.(base), x.(nh)))
      by (intros x E; by destruct (bstep_steph _ _ _ E) as (H & _)).
    assert (Hgen : match clos_op ac with
                   | Some o => match ops ns !! o with
                               | Some (_, Some k) => if bool_decide (k ∈ started ns) then (if done_b (base ns) k then bstep T F ns a else None)
                                                     else Some (ns <| started := k :: started ns |>)
                               | _ => bstep T F ns a end
                   | None => bstep T F ns a end = Some ns' ->
                   steph T F (ns.(base), ns.(nh)) a = Some (ns'.(base), ns'.(nh)) \/ (ns'.(base) = ns.(base) /\ ns'.(nh) = ns.(nh))).
    { destruct (clos_op ac); [|intros E; left; by apply Hb]. destruct (ops ns !! _) as [[? [k|]]|]; try (intros E; left; by apply Hb).
      case_bool_decide; [destruct (done_b _ k); [intros E; left; by apply Hb|done]|]. intros [= <-]. by right. }
    destruct (stack ac) as [|fr rest]; [exact Hgen|].
    destruct fr; try exact Hgen. destruct script as [|o os]; [exact Hgen|].
    destruct (bstep T F ns a) as [ns1|] eqn:E; [|done]. cbn. intros [= <-]. left. cbn. by apply (Hb ns1).
  Qed.

  Lemma nrun_none tr : foldl (fun o a => x ← o; nstep T F ntop P x a) None tr = None.
  Proof. induction tr; cbn; done. Qed.
  Lemma nrun_cons ns a tr : nrun T F ntop P ns (a :: tr) = ns1 ← nstep T F ntop P ns a; nrun T F ntop P ns1 tr.
  Proof. unfold nrun; cbn. destruct (nstep T F ntop P ns a); cbn; [done|apply nrun_none]. Qed.
  Lemma nrun_snoc ns tr a : nrun T F ntop P ns (tr ++ [a]) = ns1 ← nrun T F ntop P ns tr; nstep T F ntop P ns1 a.
  Proof. unfold nrun. rewrite foldl_app. cbn. done. Qed.
  Lemma nrun_ind (I : nstate -> Prop) :
    (forall ns a ns', I ns -> nstep T F ntop P ns a = Some ns' -> I ns') ->
    forall tr ns ns', I ns -> nrun T F ntop P ns tr = Some ns' -> I ns'.
  Proof.
    intros HI tr. induction tr as [|a tr IH]; intros ns ns' H0 Hr.
    - unfold nrun in Hr; cbn in Hr. by injection Hr as <-.
    - rewrite nrun_cons in Hr. destruct (nstep T F ntop P ns a) as [ns1|] eqn:E; [|done]. cbn in Hr. eauto.
  Qed.

  Lemma nrun_proj ns tr ns' : nrun T F ntop P ns tr = Some ns' ->
    exists tr', runh T F (ns.(base), ns.(nh)) tr' = Some (ns'.(base), ns'.(nh)).
  Proof.
    revert ns. induction tr as [|a tr IH]; intros ns Hr.
    - unfold nrun in Hr; cbn in Hr. injection Hr as <-. by exists [].
    - rewrite nrun_cons in Hr. destruct (nstep T F ntop P ns a) as [ns1|] eqn:E; [|done]. cbn in Hr.
      destruct (IH _ Hr) as [tr' Hr']. destruct (nstep_proj _ _ _ E) as [Hs|[E1 E2]].
      + exists (a :: tr'). unfold runh in *. cbn. rewrite Hs. exact Hr'.
      + exists tr'. by rewrite <- E1, <- E2.
  Qed.

  (* the base state of a reachable nested state is reachable in L1, by a run with the recorded history *)
  Theorem nreach_base nq mx tr ns : nrun T F ntop P (ninit nq mx P) tr = Some ns ->
    exists tr', run T F (init nq mx (a_script <$> P)) tr' = Some ns.(base) /\ ns.(nh) = hist T F (init nq mx (a_script <$> P)) tr'.
  Proof.
    intros Hr. destruct (nrun_proj _ _ _ Hr) as [tr' Hr']. cbn in Hr'. exists tr'.
    pose proof (runh_fst T F (init nq mx (a_script <$> P), []) tr') as Hf. rewrite Hr' in Hf. cbn in Hf. split; [done|].
    unfold hist. by rewrite Hr'.
  Qed.
End Proj.

(* everything L1 knows about a reachable state *)
Record BaseOK (P : prog) (ns : nstate) : Prop := {
  b_all : All ns.(base); b_all0 : All0 ns.(base); b_m : InvM (mv ns.(base)); b_h : HInv (ns.(base), ns.(nh));
  b_nc : ncallers ns.(base) = length P;
}.

Section Reach.
  Context (T : tables) (F : facts) (HK : core_tables T) (HT : own_conditions T) (HI : imm_conditions T)
          (HF : F.(f_dormant_blocks) = true) (HN : F.(f_sticky_notify) = true).
  Context (nq mx ntop : nat) (P : prog) (HW : nwf nq ntop P) (Hmx : 1 <= mx).

  Theorem nreach_ok tr ns : nrun T F ntop P (ninit nq mx P) tr = Some ns -> BaseOK P ns.
  Proof.
    intros Hr. destruct (nreach_base T F ntop P nq mx tr ns Hr) as (tr' & Hr' & Hh).
    pose proof (w_scripts _ _ _ HW) as Hws.
    destruct (reachable_invm T F HK HT HF nq mx _ tr' _ Hws Hmx Hr') as [H1 H2]. split; [done| |done| |].
    - by eapply (reachable_all0 T F HK HT HN).
    - rewrite Hh. by apply (reachable_hinv T F HT HI).
    - destruct (reach_pool T F nq mx _ tr' _ Hr') as (_ & _ & ->). by rewrite fmap_length.
  Qed.
End Reach.
