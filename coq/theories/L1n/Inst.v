(* L1n on the tables and facts generated from the current source *)
From stdpp Require Import list numbers option.
From L0 Require Import Types.
From Gen Require Import Tables.
From L1 Require Import Model Own Shape Stuck Live Wait Help Final Pool.
From L1h Require Import Hist Abs Sim HistFacts.
From L1g Require Import Frozen.
From L1n Require Import Model Proj NInv Quiet Main Wf Examples PropsL1n.

Lemma cln_own : own_conditions gen_tables.
Proof.
  split; cbn.
  - intros st e st' act H. destruct st, e; inversion H; subst; cbn; auto; split; congruence.
  - intros st e st' act H. destruct st, e; inversion H; subst; cbn; auto; split; congruence.
  - intros st st' act H. destruct st; inversion H; subst; split; congruence.
  - intros st ne st' p H. destruct st, ne; inversion H; subst; split; congruence.
  - intros st st' H. destruct st; inversion H; subst; split; congruence.
  - intros st st' H. destruct st; inversion H; subst; split; congruence.
  - intros e st' d H. destruct e; inversion H; subst; cbn; congruence.
Qed.
Lemma cln_imm : imm_conditions gen_tables.
Proof. split; cbn; intros st e st' H; destruct st, e; inversion H; done. Qed.
Lemma cln_core : core_tables gen_tables.
Proof. split; try done; by intros []. Qed.
Lemma cln_dormant_blocks : gen_facts.(f_dormant_blocks) = true. Proof. reflexivity. Qed.
(* the notification of a registered waiter cannot be lost (sync_background: `rescheduled` starts set, reschedule_queue sets it) *)
Lemma cln_sticky_notify : gen_facts.(f_sticky_notify) = true. Proof. reflexivity. Qed.
Lemma cln_resched_notifies_waiters : fact_resched_notifies_waiters = true. Proof. reflexivity. Qed.
Lemma cln_sync_bg_registers_before_push : fact_sync_bg_registers_before_push = true. Proof. reflexivity. Qed.

Theorem C01n_now : forall nq mx ntop (P : prog) tr ns a b q na nb qq,
  nrun gen_tables gen_facts ntop P (ninit nq mx P) tr = Some ns -> ns.(base).(queues) !! q = Some qq ->
  stack_cnt ns.(base) a q = Some (S na) -> stack_cnt ns.(base) b q = Some (S nb) -> a = b.
Proof. exact (C01n_one_runner_per_object gen_tables gen_facts cln_own). Qed.

Theorem C02n_now : forall nq mx ntop (P : prog) tr ns A B q ka kb,
  nrun gen_tables gen_facts ntop P (ninit nq mx P) tr = Some ns ->
  Call A q ka ∈ ns.(nh) -> before (Ret A) (Call B q kb) ns.(nh) ->
  forall qb, Run B qb ∈ ns.(nh) -> qb = q /\ before (Run A q) (Run B q) ns.(nh).
Proof. exact (C02n_call_order_is_run_order gen_tables gen_facts cln_own cln_imm). Qed.

Theorem C03n_exactly_once_now : forall nq mx ntop (P : prog) tr ns,
  nrun gen_tables gen_facts ntop P (ninit nq mx P) tr = Some ns ->
  NoDup ns.(base).(ran) /\ NoDup (pushed_all ns.(nh)) /\ (forall i, i ∈ ns.(base).(ran) -> exists q, before (Push i q) (Run i q) ns.(nh)).
Proof. exact (C03n_exactly_once gen_tables gen_facts cln_own cln_imm). Qed.

Theorem C03n_body_inside_closure_now : forall nq mx ntop (P : prog), nwf nq ntop P ->
  forall tr ns o q k, nrun gen_tables gen_facts ntop P (ninit nq mx P) tr = Some ns ->
    ns.(ops) !! o = Some (q, Some k) -> o ∈ ns.(base).(ran) -> k ∈ ns.(started) /\ done_b ns.(base) k = true.
Proof. exact (C03n_body_inside_closure gen_tables gen_facts cln_own cln_imm). Qed.

Theorem C04n_now : forall nq mx ntop (P : prog) tr ns i q k,
  nrun gen_tables gen_facts ntop P (ninit nq mx P) tr = Some ns -> k <> KDesync -> Call i q k ∈ ns.(nh) -> Ret i ∈ ns.(nh) ->
  exists h1 h2 h3 h4, ns.(nh) = h1 ++ Call i q k :: h2 ++ Run i q :: h3 ++ Ret i :: h4 /\ i ∉ runs (h1 ++ h2 ++ h3 ++ h4).
Proof. exact (C04n_sync_runs_own_closure gen_tables gen_facts cln_own cln_imm). Qed.

Theorem C09n_now : forall nq mx ntop (P : prog) tr ns i,
  nrun gen_tables gen_facts ntop P (ninit nq mx P) tr = Some ns -> RetBusy i ∈ ns.(nh) -> i ∉ ns.(base).(ran) /\ i ∉ pushed_all ns.(nh).
Proof. exact (C09n_busy_never_runs gen_tables gen_facts cln_own cln_imm). Qed.

Theorem C03n_quiescent_is_complete_now : forall nq mx ntop (P : prog), nwf nq ntop P -> 1 <= mx ->
  forall tr ns, nrun gen_tables gen_facts ntop P (ninit nq mx P) tr = Some ns -> nterminal gen_tables gen_facts ntop P ns ->
    nquiet ntop P ns /\ ncomplete ntop P ns = true.
Proof. exact (C03n_quiescent_is_complete gen_tables gen_facts cln_core cln_own cln_imm cln_dormant_blocks cln_sticky_notify). Qed.

Theorem C03n_nothing_lost_now : forall nq mx ntop (P : prog), nwf nq ntop P -> 1 <= mx ->
  forall tr ns, nrun gen_tables gen_facts ntop P (ninit nq mx P) tr = Some ns -> nterminal gen_tables gen_facts ntop P ns ->
  forall i q, Push i q ∈ ns.(nh) -> Run i q ∈ ns.(nh) /\ i ∈ ns.(base).(ran) /\
    forall qo k, ns.(ops) !! i = Some (qo, Some k) -> k ∈ ns.(started) /\ done_b ns.(base) k = true.
Proof. exact (C03n_nothing_lost gen_tables gen_facts cln_core cln_own cln_imm cln_dormant_blocks cln_sticky_notify). Qed.

Theorem C10n_now : forall nq mx ntop (P : prog), nwf nq ntop P -> 1 <= mx ->
  forall tr ns B0, nrun gen_tables gen_facts ntop P (ninit nq mx P) tr = Some ns ->
    frozen_ok ns.(base) B0 -> nterminal_except gen_tables gen_facts ntop P B0 ns -> npool_free gen_tables gen_facts ns -> nquiet_except ntop P B0 ns.
Proof. exact (C10n_blocked_objects_do_not_stop_the_others gen_tables gen_facts cln_core cln_own cln_imm cln_dormant_blocks cln_sticky_notify). Qed.

(* Desync::drop is sync(free) and nothing else *)
Lemma cln_drop_is_sync_free : fact_drop_is_sync_free = true. Proof. reflexivity. Qed.
Lemma cln_drop_only_syncs : fact_drop_only_syncs = true. Proof. reflexivity. Qed.
Theorem C05n_drop_after_returned_now : forall nq mx ntop (P : prog) tr ns A D q ka,
  nrun gen_tables gen_facts ntop P (ninit nq mx P) tr = Some ns ->
  Call A q ka ∈ ns.(nh) -> before (Ret A) (Call D q KSync) ns.(nh) ->
  forall h3 h4, ns.(nh) = h3 ++ Run D q :: h4 -> Run A q ∈ h3.
Proof. exact (C05n_drop_after_returned gen_tables gen_facts cln_own cln_imm). Qed.
Theorem C05n_drop_runs_last_now : forall nq mx ntop (P : prog) tr ns D q h1 h2,
  nrun gen_tables gen_facts ntop P (ninit nq mx P) tr = Some ns ->
  ns.(nh) = h1 ++ Call D q KSync :: h2 ->
  (forall B k, B <> D -> Call B q k ∈ ns.(nh) -> finished B h1) ->
  forall h3 h4, ns.(nh) = h3 ++ Run D q :: h4 ->
    (forall B, B <> D -> Push B q ∈ ns.(nh) -> Run B q ∈ h3) /\ (forall B, Run B q ∉ h4).
Proof. exact (C05n_drop_runs_last gen_tables gen_facts cln_own cln_imm). Qed.

Print Assumptions C10n_now.
Print Assumptions C05n_drop_after_returned_now.
Print Assumptions C05n_drop_runs_last_now.
Print Assumptions C01n_now.
Print Assumptions C02n_now.
Print Assumptions C03n_exactly_once_now.
Print Assumptions C03n_body_inside_closure_now.
Print Assumptions C04n_now.
Print Assumptions C09n_now.
Print Assumptions C03n_quiescent_is_complete_now.
Print Assumptions C03n_nothing_lost_now.
