(* L1n: the executable well-formedness check of a flattened program is sound *)
From stdpp Require Import list numbers option.
From L1 Require Import Model Stuck.
From L1n Require Import Model.

Lemma nwf_b_sound nq ntop P : nwf_b nq ntop P = true -> nwf nq ntop P.
Proof.
  unfold nwf_b. rewrite !andb_true_iff. intros [[[H1 H2] H3] H4].
  apply bool_decide_eq_true in H2. rewrite forallb_forall in H1, H3, H4.
  split.
  - unfold wf_scripts. apply list.Forall_forall. intros sc (act & -> & Hin)%elem_of_list_fmap. apply H1. by apply elem_of_list_In.
  - done.
  - intros a i k Hk. unfold kid_at in Hk. destruct (P !! a) as [acta|] eqn:Ea; [|done]. cbn in Hk.
    destruct (a_kids acta !! i) as [ko|] eqn:Ei; [|done]. cbn in Hk. subst ko.
    specialize (H3 acta). rewrite <- elem_of_list_In in H3. specialize (H3 (elem_of_list_lookup_2 _ _ _ Ea)).
    apply andb_true_iff in H3 as [H3 Hlen]. apply bool_decide_eq_true in Hlen.
    assert (Hi : i < length (a_script acta)) by (apply lookup_lt_Some in Ei; lia).
    destruct (lookup_lt_is_Some_2 _ _ Hi) as [o Eo].
    rewrite forallb_forall in H3. specialize (H3 (o, Some k)). rewrite <- elem_of_list_In in H3.
    assert (Hin : (o, Some k) ∈ zip (a_script acta) (a_kids acta ++ replicate (length (a_script acta)) None)).
    { apply elem_of_list_lookup. exists i. apply lookup_zip_with_Some. exists o, (Some k). split; [done|]. split; [done|]. by apply lookup_app_l_Some. }
    specialize (H3 Hin). cbn in H3. apply andb_true_iff in H3 as [Hr Hb]. apply bool_decide_eq_true in Hr. split; [done|].
    destruct (P !! k) as [actk|] eqn:Ek; [|done]. apply bool_decide_eq_true in Hb. by exists acta, o, actk.
  - intros k act b Ek Hb. specialize (H4 act). rewrite <- elem_of_list_In in H4. specialize (H4 (elem_of_list_lookup_2 _ _ _ Ek)).
    rewrite Hb in H4. rewrite forallb_forall in H4. apply list.Forall_forall. intros o Ho. eapply bool_decide_eq_true_1, H4. by apply elem_of_list_In.
Qed.
