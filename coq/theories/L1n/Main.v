(* L1n: the theorems about nested programs *)
From stdpp Require Import list numbers list_numbers option.
From RecordUpdate Require Import RecordUpdate.
From L1 Require Import Model Own Shape Stuck Live Wait Help Final Pool.
From L1z Require Import ZDefs ZBase ZFinal.
From L1g Require Import Count MView MSimBase MSim MInv Frozen.
From L1h Require Import WeakWF Hist Abs SimBase Sim HistFacts AInv Reach Order Main.
From L1n Require Import Model Proj Eff Oba NInv NStep FrozenN Quiet.

Lemma forallb_imap_pair {A} (f : nat * A -> bool) (l : list A) :
  (forall i x, l !! i = Some x -> f (i, x) = true) -> forallb f (imap pair l) = true.
Proof.
  intros H. apply forallb_forall. intros [i x] Hin. apply elem_of_list_In, elem_of_lookup_imap in Hin as (j & y & [= -> ->] & Hl). by apply H.
Qed.

(* ---------- safety: whatever holds of every L1 run holds of the base of every nested run ---------- *)
Section Safety.
  Context (T : tables) (F : facts) (HT : own_conditions T) (HI : imm_conditions T).
  Context (nq mx ntop : nat) (P : prog).

  Theorem own_n tr ns : nrun T F ntop P (ninit nq mx P) tr = Some ns -> Inv ns.(base).
  Proof. intros Hr. destruct (nreach_base T F ntop P nq mx tr ns Hr) as (tr' & Hr' & _). by eapply (reachable_inv T F HT). Qed.

  Theorem exclusive_n tr ns a b q na nb qq : nrun T F ntop P (ninit nq mx P) tr = Some ns -> ns.(base).(queues) !! q = Some qq ->
    stack_cnt ns.(base) a q = Some (S na) -> stack_cnt ns.(base) b q = Some (S nb) -> a = b.
  Proof. intros Hr. destruct (nreach_base T F ntop P nq mx tr ns Hr) as (tr' & Hr' & _). by eapply (exclusive T F HT). Qed.

  Theorem order_n tr ns A B q ka kb : nrun T F ntop P (ninit nq mx P) tr = Some ns ->
    Call A q ka ∈ ns.(nh) -> before (Ret A) (Call B q kb) ns.(nh) ->
    forall qb, Run B qb ∈ ns.(nh) -> qb = q /\ before (Run A q) (Run B q) ns.(nh).
  Proof.
    intros Hr. destruct (nreach_base T F ntop P nq mx tr ns Hr) as (tr' & Hr' & ->).
    by eapply (call_order_is_run_order T F HT HI).
  Qed.

  Theorem once_n tr ns : nrun T F ntop P (ninit nq mx P) tr = Some ns ->
    NoDup ns.(base).(ran) /\ NoDup (pushed_all ns.(nh)) /\ (forall i, i ∈ ns.(base).(ran) -> exists q, before (Push i q) (Run i q) ns.(nh)).
  Proof. intros Hr. destruct (nreach_base T F ntop P nq mx tr ns Hr) as (tr' & Hr' & ->). by eapply (exactly_once T F HT HI). Qed.

  Theorem sync_own_n tr ns i q k : nrun T F ntop P (ninit nq mx P) tr = Some ns -> k <> KDesync ->
    Call i q k ∈ ns.(nh) -> Ret i ∈ ns.(nh) ->
    exists h1 h2 h3 h4, ns.(nh) = h1 ++ Call i q k :: h2 ++ Run i q :: h3 ++ Ret i :: h4 /\ i ∉ runs (h1 ++ h2 ++ h3 ++ h4).
  Proof. intros Hr. destruct (nreach_base T F ntop P nq mx tr ns Hr) as (tr' & Hr' & ->). by eapply (sync_runs_own_closure T F HT HI). Qed.

  Theorem busy_n tr ns i : nrun T F ntop P (ninit nq mx P) tr = Some ns -> RetBusy i ∈ ns.(nh) ->
    i ∉ ns.(base).(ran) /\ i ∉ pushed_all ns.(nh).
  Proof. intros Hr. destruct (nreach_base T F ntop P nq mx tr ns Hr) as (tr' & Hr' & ->). by eapply (busy_never_runs T F HT HI). Qed.

  Theorem queue_law_n tr ns q : nrun T F ntop P (ninit nq mx P) tr = Some ns ->
    pushed ns.(nh) q = ranq ns.(nh) q ++ (job_id <$> pend ns.(base) q).
  Proof. intros Hr. destruct (nreach_base T F ntop P nq mx tr ns Hr) as (tr' & Hr' & ->). by eapply (queue_law T F HT HI). Qed.

  (* Desync::drop = sync(free): whoever issues it (also a body running inside a job of ANOTHER object) *)
  Theorem drop_after_returned_n tr ns A D q ka : nrun T F ntop P (ninit nq mx P) tr = Some ns ->
    Call A q ka ∈ ns.(nh) -> before (Ret A) (Call D q KSync) ns.(nh) ->
    forall h3 h4, ns.(nh) = h3 ++ Run D q :: h4 -> Run A q ∈ h3.
  Proof. intros Hr. destruct (nreach_base T F ntop P nq mx tr ns Hr) as (tr' & Hr' & ->). by eapply (drop_after_returned T F HT HI). Qed.

  Theorem drop_runs_last_n tr ns D q h1 h2 : nrun T F ntop P (ninit nq mx P) tr = Some ns ->
    ns.(nh) = h1 ++ Call D q KSync :: h2 ->
    (forall B k, B <> D -> Call B q k ∈ ns.(nh) -> finished B h1) ->
    forall h3 h4, ns.(nh) = h3 ++ Run D q :: h4 ->
      (forall B, B <> D -> Push B q ∈ ns.(nh) -> Run B q ∈ h3) /\ (forall B, Run B q ∉ h4).
  Proof. intros Hr. destruct (nreach_base T F ntop P nq mx tr ns Hr) as (tr' & Hr' & ->). by eapply (drop_runs_last T F HT HI). Qed.
End Safety.

Section Nested.
  Context (T : tables) (F : facts) (HK : core_tables T) (HT : own_conditions T) (HI : imm_conditions T)
          (HF : F.(f_dormant_blocks) = true) (HN : F.(f_sticky_notify) = true).
  Context (nq mx ntop : nat) (P : prog) (HW : nwf nq ntop P) (Hmx : 1 <= mx).

  (* a closure that has run: its whole body - the nested operations, recursively - has been executed before *)
  Theorem body_done_n tr ns o q k : nrun T F ntop P (ninit nq mx P) tr = Some ns ->
    ns.(ops) !! o = Some (q, Some k) -> o ∈ ns.(base).(ran) -> k ∈ ns.(started) /\ done_b ns.(base) k = true.
  Proof. intros Hr. exact (n_ran _ _ _ (nreach_ninv T F HT HI nq mx ntop P HW tr ns Hr) o q k). Qed.

  (* L-quiet with nesting *)
  Theorem L_quiet_n tr ns : nrun T F ntop P (ninit nq mx P) tr = Some ns -> nterminal T F ntop P ns ->
    nquiet ntop P ns /\ ncomplete ntop P ns = true.
  Proof.
    intros Hr Hterm.
    pose proof (nreach_ninv T F HT HI nq mx ntop P HW tr ns Hr) as HNI.
    pose proof (nreach_ok T F HK HT HI HF HN nq mx ntop P HW Hmx tr ns Hr) as HB.
    pose proof (nterminal_quiet T F nq ntop P HW ns HNI HB Hterm) as HQ. split; [done|].
    destruct HQ as [Q1 Q2 Q3]. pose proof (a_shape _ (b_all _ _ HB)) as HS.
    unfold ncomplete. rewrite !andb_true_iff. split; [split|].
    - apply forallb_imap_pair. intros a ac Ea. unfold act_done.
      destruct (decide (a < ncallers (base ns))) as [Hlt|Hge].
      + destruct (Q1 a ac Ea Hlt) as [->|(Hk & Hns & act & Hact & ->)]; [done|].
        destruct (a_script act); [done|]. rewrite Hk. cbn. by rewrite bool_decide_eq_false_2.
      + assert (Ht : a - ncallers (base ns) < length (threads (base ns))).
        { apply lookup_lt_Some in Ea. pose proof (sh_len _ HS). unfold ncallers in *. lia. }
        destruct (lookup_lt_is_Some_2 _ _ Ht) as [th Eth]. destruct (Q3 _ th Eth) as (_ & ap & Eap & Est).
        replace (ncallers (base ns) + (a - ncallers (base ns))) with a in Eap by lia. rewrite Ea in Eap. injection Eap as <-. by rewrite Est.
    - apply forallb_forall. intros qq Hin. apply elem_of_list_In, elem_of_list_lookup in Hin as [q Hq]. by destruct (Q2 q qq Hq) as [-> ->].
    - apply forallb_forall. intros th Hin. apply elem_of_list_In, elem_of_list_lookup in Hin as [t Ht]. destruct (Q3 t th Ht) as [-> _]. done.
  Qed.

  (* C10 with nesting: activations frozen inside a closure (B0) - and everything that is suspended or waits because of them -
     do not stop the others *)
  Theorem L_quiet_frozen_n tr ns B0 : nrun T F ntop P (ninit nq mx P) tr = Some ns ->
    frozen_ok ns.(base) B0 -> nterminal_except T F ntop P B0 ns -> npool_free T F ns -> nquiet_except ntop P B0 ns.
  Proof.
    intros Hr HB0 Hterm Hfree.
    pose proof (nreach_ninv T F HT HI nq mx ntop P HW tr ns Hr) as HNI.
    pose proof (nreach_ok T F HK HT HI HF HN nq mx ntop P HW Hmx tr ns Hr) as HB.
    exact (nfrozen_quiet T F nq ntop P HW B0 ns HNI HB Hterm HB0 Hfree).
  Qed.

  (* nothing is lost: in a state in which nobody can move every pushed operation has run, with its whole body *)
  Theorem nothing_lost_n tr ns : nrun T F ntop P (ninit nq mx P) tr = Some ns -> nterminal T F ntop P ns ->
    forall i q, Push i q ∈ ns.(nh) -> Run i q ∈ ns.(nh) /\ i ∈ ns.(base).(ran) /\
      forall qo k, ns.(ops) !! i = Some (qo, Some k) -> k ∈ ns.(started) /\ done_b ns.(base) k = true.
  Proof.
    intros Hr Hterm i q Hp.
    destruct (L_quiet_n tr ns Hr Hterm) as [[_ Q2 _] _].
    pose proof (own_n T F HT nq mx ntop P tr ns Hr) as HIv.
    assert (Hpend : pend ns.(base) q = []).
    { unfold pend, oj. destruct (queues (base ns) !! q) as [qq|] eqn:E; [|done]. cbn. destruct (Q2 q qq E) as [Hs Hj].
      rewrite (acq_free _ q qq HIv E) by (by rewrite Hs). done. }
    pose proof (queue_law_n T F HT HI nq mx ntop P tr ns q Hr) as Hq. rewrite Hpend in Hq. cbn in Hq. rewrite app_nil_r in Hq.
    apply elem_of_pushed in Hp. rewrite Hq in Hp. apply elem_of_ranq in Hp.
    destruct (nreach_base T F ntop P nq mx tr ns Hr) as (tr' & Hr' & Hh).
    assert (Hran : i ∈ ran (base ns)).
    { apply (in_ran_runs T F HT HI nq mx _ tr' _ i Hr'). rewrite <- Hh. apply elem_of_runs. eauto. }
    split; [done|]. split; [done|]. intros qo k Ho. by eapply body_done_n.
  Qed.
End Nested.
