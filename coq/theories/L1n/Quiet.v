(* L1n: L-quiet with nesting.  In a reachable state of the nested model in which nobody can move, no activation is suspended
   inside a closure, every started activation has finished, every queue is Idle and empty and the pool is dormant.
   The new argument is the induction over the objects (highest first): a queue that is being run is run by an activation
   suspended in a closure; the body it waits for is not finished, so it is blocked in sync_background on a HIGHER object,
   whose queue is then being run (induction), or about to be rescheduled (somebody can move), or whose job is in the hand of
   an activation suspended on a still higher object. *)
From stdpp Require Import list numbers list_numbers option.
From RecordUpdate Require Import RecordUpdate.
From L1 Require Import Model Own Shape Stuck Live Wait Help Final Pool.
From L1z Require Import ZDefs ZBase ZFinal.
From L1g Require Import Count MView MSimBase MSim MInv Frozen.
From L1h Require Import WeakWF Hist Abs SimBase Sim HistFacts AInv Reach.
From L1n Require Import Model Proj Eff Oba NInv NStep FrozenN.

(* nobody outside B0 can move (B0: activations frozen inside a closure - blocked on a gate for an arbitrarily long time) *)
Definition nterminal_except (T : tables) (F : facts) (ntop : nat) (P : prog) (B0 : list nat) (ns : nstate) : Prop :=
  forall a, a ∉ B0 -> nstep T F ntop P ns a = None.

Section Quiet.
  Context (T : tables) (F : facts) (nq ntop : nat) (P : prog) (HW : nwf nq ntop P) (B0 : list nat).

  (* the activations that could move in the base model but are held back by the nesting *)
  Definition enabled_b (s : state) (a : nat) : bool := match step T F s a with Some _ => true | None => false end.
  Definition held (ns : nstate) : list nat := filter (fun a => enabled_b ns.(base) a = true) (seq 0 (length ns.(base).(actors))).

  Lemma held_spec ns a : a ∈ held ns <-> is_Some (step T F ns.(base) a).
  Proof.
    unfold held. rewrite elem_of_list_filter, elem_of_seq. unfold enabled_b. split.
    - intros [H _]. destruct (step T F (base ns) a); [by eexists|done].
    - intros [s' Hs]. rewrite Hs. split; [done|]. split; [lia|]. cbn.
      unfold step in Hs. destruct (actors (base ns) !! a) as [ac|] eqn:E; [|done]. by eapply lookup_lt_Some.
  Qed.
  Lemma held_texc ns : terminal_except T F (held ns) ns.(base).
  Proof. intros a Hn. destruct (step T F (base ns) a) as [s'|] eqn:E; [|done]. exfalso. apply Hn, held_spec. by eexists. Qed.

  Inductive hcase (ns : nstate) (a : nat) : Prop :=
  | hc_unstarted ac act o os :
      is_kid ntop P a = true -> a ∉ ns.(started) -> ns.(base).(actors) !! a = Some ac -> P !! a = Some act -> ac.(stack) = [FTop (o :: os)] -> hcase ns a
  | hc_parent ac o q k :
      ns.(base).(actors) !! a = Some ac -> clos_op ac = Some o -> ns.(ops) !! o = Some (q, Some k) -> k ∈ ns.(started) ->
      done_b ns.(base) k = false -> (is_kid ntop P a = true -> a ∈ ns.(started)) -> hcase ns a.

  Lemma held_cases ns a : NInv ntop P ns -> nterminal_except T F ntop P B0 ns -> a ∈ held ns -> a ∉ B0 -> hcase ns a.
  Proof.
    intros HN Hterm [s' Hs]%held_spec HnB. specialize (Hterm a HnB). unfold nstep in Hterm.
    destruct (is_kid ntop P a && negb (bool_decide (a ∈ started ns))) eqn:Eg.
    - apply andb_true_iff in Eg as [Hk Hn]. apply negb_true_iff, bool_decide_eq_false in Hn.
      destruct (n_unst _ _ _ HN a Hk Hn) as (ac & act & Ea & Hact & Est).
      unfold step in Hs. rewrite Ea in Hs. cbn in Hs. rewrite Est in Hs. destruct (a_script act) as [|o os] eqn:Esc; [done|].
      by eapply hc_unstarted.
    - assert (Hst : is_kid ntop P a = true -> a ∈ started ns).
      { intros Hk. rewrite Hk in Eg. cbn in Eg. apply negb_false_iff in Eg. by apply bool_decide_eq_true in Eg. }
      clear Eg. unfold bstep in Hterm. rewrite Hs in Hterm. cbn in Hterm.
      destruct (actors (base ns) !! a) as [ac|] eqn:Ea; [|by (unfold step in Hs; rewrite Ea in Hs)]. cbn in Hterm.
      assert (Hgen : match clos_op ac with
                     | Some o => match ops ns !! o with
                                 | Some (_, Some k) => if bool_decide (k ∈ started ns) then (if done_b (base ns) k then Some (ns <| base := s' |> <| nh := nh ns ++ obs T F (base ns) a |>) else None)
                                                       else Some (ns <| started := k :: started ns |>)
                                 | _ => Some (ns <| base := s' |> <| nh := nh ns ++ obs T F (base ns) a |>) end
                     | None => Some (ns <| base := s' |> <| nh := nh ns ++ obs T F (base ns) a |>) end = None -> hcase ns a).
      { destruct (clos_op ac) as [o|] eqn:Ec; [|done]. destruct (ops ns !! o) as [[q [k|]]|] eqn:Eo; try done.
        case_bool_decide as Hk; [|done]. destruct (done_b (base ns) k) eqn:Ed; [done|]. intros _. by eapply hc_parent. }
      destruct (stack ac) as [|fr rest]; [by apply Hgen|]. destruct fr; try (by apply Hgen). destruct script; [by apply Hgen|done].
  Qed.

  Lemma held_frozen ns : NInv ntop P ns -> nterminal_except T F ntop P B0 ns -> frozen_ok ns.(base) B0 -> frozen_ok' ns.(base) (held ns).
  Proof.
    intros HN Hterm HB0 a Ha. destruct (decide (a ∈ B0)) as [Hin|HnB].
    { destruct (HB0 a Hin) as (ac & fr & rest & E1 & E2 & E3). exists ac, fr, rest. split; [done|]. split; [done|]. by destruct fr. }
    destruct (held_cases ns a HN Hterm Ha HnB) as [ac act o os _ _ Ea _ Est|ac o q k Ea Ec _ _ _ _].
    - exists ac, (FTop (o :: os)), []. done.
    - unfold clos_op in Ec. destruct (stack ac) as [|fr rest] eqn:Est; [done|]. exists ac, fr, rest. split; [done|]. split; [done|]. by destruct fr.
  Qed.

  (* ---------- the shape of an activation that is about to finish a closure ---------- *)
  Inductive cshape (ab : actor) (o qc : nat) : Prop :=
  | cs_imm os : ab.(stack) = [FSIrun qc; FTop os] -> o = ab.(opctr) -> cshape ab o qc
  | cs_ro j g os : ab.(stack) = [FROrun qc j; g; FTop os] -> (g = FSDloop qc \/ g = FSBsteal qc) -> o = job_id j -> cshape ab o qc
  | cs_dr j t : ab.(stack) = [FDRrun qc j; FTlock t] -> o = job_id j -> cshape ab o qc.

  Lemma clos_shape s b ab o : Shape s -> s.(actors) !! b = Some ab -> clos_op ab = Some o -> exists qc, cshape ab o qc.
  Proof.
    intros HS Eb Ec. unfold clos_op in Ec. destruct (stack ab) as [|fr rest] eqn:Est; [done|].
    destruct (kind_of s b ab HS Eb) as [[_ Hok]|(t & _ & Hok)]; rewrite Est in Hok.
    - apply caller_ok_inv in Hok as [(-> & Hfr)|[(os & -> & Hsf)|(g & os & -> & Hpo)]].
      + by destruct fr.
      + destruct fr; try done. injection Ec as <-. exists q. by eapply cs_imm.
      + destruct fr; try done. injection Ec as <-. cbn in Hpo. destruct g; try done; apply bool_decide_eq_true in Hpo as <-; exists q; eapply cs_ro; eauto.
    - apply pool_ok_inv in Hok as [(-> & Hfr)|(-> & Hfr)]; [by destruct fr|].
      destruct fr; try done. injection Ec as <-. exists q. by eapply cs_dr.
  Qed.
  Lemma cshape_cnt ab o qc q : cshape ab o qc -> cnt q ab.(stack) = if decide (q = qc) then 1 else 0.
  Proof.
    intros [os -> _|j g os -> [-> | ->] _|j t -> _]; cbn; repeat case_bool_decide; repeat case_decide; subst; try done; lia.
  Qed.
  Lemma cshape_midop ab o qc : cshape ab o qc -> midop ab.(stack).
  Proof. intros [os -> _|j g os -> _ _|j t -> _] os'; done. Qed.
  Lemma cshape_hd ab o qc fr : cshape ab o qc -> hd_error ab.(stack) = Some fr ->
    fr = FSIrun qc \/ exists j, o = job_id j /\ (fr = FROrun qc j \/ fr = FDRrun qc j).
  Proof. intros [os -> _|j g os -> _ ->|j t -> ->] [= <-]; [by left|right; eauto..]. Qed.

  Lemma push_call h i q : HGood h -> Push i q ∈ h -> exists k, Call i q k ∈ h.
  Proof.
    intros Hg Hin. apply elem_of_list_split in Hin as (h1 & h2 & ->). destruct (Hg h1 (Push i q) h2 eq_refl) as ((k & Hk) & _).
    exists k. apply elem_of_app. by left.
  Qed.

  Section Main.
    Context (ns : nstate) (HNI : NInv ntop P ns) (HB : BaseOK P ns)
            (Hterm : nterminal_except T F ntop P B0 ns) (HB0 : frozen_ok ns.(base) B0).

    Local Notation s := (base ns).
    Let HS : Shape s := a_shape _ (b_all _ _ HB).
    Let HIv : Inv s := a_inv _ (b_all _ _ HB).
    Let HWf : WF s := a_wf _ (b_all _ _ HB).
    Let HAi : AInv (view s) ns.(nh) := hi_abs _ (b_h _ _ HB).
    Let HG : HGood ns.(nh) := ai_good _ _ HAi.

    Lemma caller_kid k : is_kid ntop P k = true -> k < ncallers s.
    Proof. intros [_ H]%bool_decide_eq_true. by rewrite (b_nc _ _ HB). Qed.

    (* the object of the closure an activation is about to finish *)
    Lemma clos_call b ab o qc : s.(actors) !! b = Some ab -> cshape ab o qc -> exists kk, Call o qc kk ∈ ns.(nh).
    Proof.
      intros Eb Hc.
      assert (Hjob : forall j, hd_error ab.(stack) = Some (FROrun qc j) \/ hd_error ab.(stack) = Some (FDRrun qc j) -> exists kk, Call (job_id j) qc kk ∈ nh ns).
      { intros j Hhd. apply (push_call _ _ _ HG). apply (pend_pushed _ _ HAi qc j). cbn.
        assert (Hlt : qc < length (queues s)).
        { pose proof (WF_self s b ab HWf Eb) as Hw. destruct (stack ab) as [|fr rest]; [by destruct Hhd|]. cbn in Hw.
          apply andb_true_iff in Hw as [Hw _]. destruct Hhd as [[= ->]|[= ->]]; cbn in Hw; by apply bool_decide_eq_true in Hw. }
        destruct (lookup_lt_is_Some_2 _ _ Hlt) as [qq Eq].
        assert (Hcnt : stack_cnt s b qc = Some 1) by (rewrite (stack_cnt_self s b ab qc Eb), (cshape_cnt ab o qc qc Hc), decide_True by done; done).
        destruct (runner_owns s b qc qq 0 HIv Hcnt Eq) as [Ho _].
        rewrite (pend_self s b ab qc (jobs qq) Eb) by (by rewrite (oj_lookup s qc qq Eq), Ho).
        apply elem_of_app. left. destruct (stack ab) as [|fr rest]; [by destruct Hhd|]. cbn.
        destruct Hhd as [[= ->]|[= ->]]; cbn; rewrite decide_True by done; by left. }
      destruct Hc as [os Est ->|j g os Est _ ->|j t Est ->].
      - apply (n_oba _ _ _ HNI b (aact ab) qc); [exact (acts_lookup _ _ _ Eb)|]. cbn. by rewrite Est.
      - apply Hjob. left. by rewrite Est.
      - apply Hjob. right. by rewrite Est.
    Qed.

    (* an activation that holds a closure owns the queue of that closure *)
    Lemma cshape_owner b ab o qc : s.(actors) !! b = Some ab -> cshape ab o qc ->
      exists qq, s.(queues) !! qc = Some qq /\ qq.(owner) = Some b /\ qq.(qs) = Running.
    Proof.
      intros Eb Hsh.
      assert (Hl : qc < length (queues s)).
      { pose proof (WF_self s b ab HWf Eb) as Hw. destruct Hsh as [os Est _|j g os Est _ _|j t Est _]; rewrite Est in Hw; cbn in Hw;
          apply andb_true_iff in Hw as [Hw _]; by apply bool_decide_eq_true in Hw. }
      destruct (lookup_lt_is_Some_2 _ _ Hl) as [qq Eq]. exists qq. split; [done|].
      assert (Hcnt : stack_cnt s b qc = Some 1) by (rewrite (stack_cnt_self s b ab qc Eb), (cshape_cnt ab o qc qc Hsh), decide_True by done; done).
      exact (runner_owns s b qc qq 0 HIv Hcnt Eq).
    Qed.

    Lemma held_stuck a ac : s.(actors) !! a = Some ac -> a ∉ held ns -> stuck_ok s ac.(stack).
    Proof. intros Ea Hn. by eapply (stuck_frames_except' T F (held ns) s HS HWf (held_frozen ns HNI Hterm HB0) (held_texc ns)). Qed.

    (* every top frame is a stuck frame or belongs to a held activation *)
    Lemma top_frames b ab fr rest : s.(actors) !! b = Some ab -> ab.(stack) = fr :: rest -> stuck_frame fr \/ b ∈ held ns.
    Proof.
      intros Eb Est. destruct (decide (b ∈ held ns)) as [|Hn]; [by right|]. left.
      eapply stuck_hd; [by eapply held_stuck|]. by rewrite Est.
    Qed.

    (* an activation inside an operation: the object of that operation is above the activation's base object *)
    Lemma kid_higher k ak actk qb q1 : s.(actors) !! k = Some ak -> P !! k = Some actk -> actk.(a_base) = Some qb ->
      midop ak.(stack) -> ph_q (aph ak.(stack)) = Some q1 -> qb < q1.
    Proof.
      intros Ek Hact Hb Hm Hq.
      destruct (n_cur _ _ _ HNI k actk ak Hact Ek Hm) as (o' & kd & Ho' & Hops).
      destruct (n_call _ _ _ HNI _ _ _ Hops) as [k1 H1].
      destruct (n_oba _ _ _ HNI k (aact ak) q1) as [k2 H2]; [exact (acts_lookup _ _ _ Ek)|exact Hq|]. cbn in H2.
      destruct (hg_call_inj _ HG _ _ _ _ _ H1 H2) as [<- _].
      pose proof (w_higher _ _ _ HW k actk qb Hact Hb) as Hall. rewrite list.Forall_forall in Hall. by apply Hall.
    Qed.

    (* ---------- blocked because of a frozen activation ---------- *)
    (* b holds the job of waiter w: it runs the queue in which the job is stored, or has the job in its hand *)
    Definition holds_job (b w q : nat) : Prop :=
      (exists qq o, s.(queues) !! q = Some qq /\ qq.(owner) = Some b /\ JSyncBg o w ∈ qq.(jobs)) \/
      (exists ab q' o, s.(actors) !! b = Some ab /\
         (hd_error ab.(stack) = Some (FROrun q' (JSyncBg o w)) \/ hd_error ab.(stack) = Some (FDRrun q' (JSyncBg o w)))).
    Inductive bf : nat -> Prop :=
    | bf_frozen a : a ∈ B0 -> bf a
    | bf_parent p ac o q k : s.(actors) !! p = Some ac -> clos_op ac = Some o -> ns.(ops) !! o = Some (q, Some k) ->
        k ∈ ns.(started) -> done_b s k = false -> bf k -> bf p
    | bf_wait w ac q rest b : s.(actors) !! w = Some ac -> ac.(stack) = FSBwait q :: rest -> holds_job b w q -> bf b -> bf w.

    (* ---------- the owner of a queue that is being run is blocked because of a frozen activation ---------- *)
    Lemma running_bf_aux n : forall q qq b, length s.(queues) - q <= n -> s.(queues) !! q = Some qq -> qq.(owner) = Some b -> bf b.
    Proof.
      induction n as [|n IH]; intros q qq b Hn Hq Hb.
      { apply lookup_lt_Some in Hq. lia. }
      pose proof HIv as [I1 I2 I3].
      pose proof (I3 q qq b Hq Hb) as Hlt.
      destruct (lookup_lt_is_Some_2 _ _ Hlt) as [ab Eb].
      assert (Hc : cnt q (stack ab) = 1).
      { pose proof (I1 b q qq _ (stack_cnt_self s b ab q Eb) Hq) as H1. by rewrite decide_True in H1 by done. }
      assert (Hbh : b ∈ held ns).
      { destruct (decide (b ∈ held ns)) as [|Hnh]; [done|]. rewrite (stuck_cnt0 s b ab q HS Eb (held_stuck b ab Eb Hnh)) in Hc. done. }
      destruct (decide (b ∈ B0)) as [|HbB]; [by apply bf_frozen|].
      destruct (held_cases ns b HNI Hterm Hbh HbB) as [ac act o os _ _ Ea _ Est|ac o qo k Ea Ec Eo Hks Hkd _].
      { rewrite Eb in Ea. injection Ea as <-. rewrite Est in Hc. done. }
      rewrite Eb in Ea. injection Ea as <-.
      eapply (bf_parent b ab o qo k); try done.
      destruct (clos_shape s b ab o HS Eb Ec) as [qc Hsh].
      rewrite (cshape_cnt ab o qc q Hsh) in Hc. case_decide as Hqc; [subst qc|done].
      destruct (clos_call b ab o q Eb Hsh) as [k1 H1]. destruct (n_call _ _ _ HNI _ _ _ Eo) as [k2 H2].
      destruct (hg_call_inj _ HG _ _ _ _ _ H1 H2) as [<- _].
      destruct (n_ops _ _ _ HNI _ _ _ Eo) as (Hkid & actk & Hactk & Hbase).
      destruct (n_plen _ _ _ HNI k actk Hactk) as [ak Ek].
      pose proof (caller_kid k Hkid) as Hkc.
      pose proof (sh_caller _ HS k ak Ek Hkc) as Hcok.
      (* an activation that holds a closure on a queue above q *)
      assert (Hupc : forall b2 ab2 o2 q2, s.(actors) !! b2 = Some ab2 -> cshape ab2 o2 q2 -> q < q2 -> bf b2).
      { intros b2 ab2 o2 q2 E2 Hsh2 Hlt2. destruct (cshape_owner b2 ab2 o2 q2 E2 Hsh2) as (qq2 & Eq2 & Ho2 & _).
        apply (IH q2 qq2 b2); [|done|done]. apply lookup_lt_Some in Eq2. lia. }
      destruct (decide (k ∈ B0)) as [|HkB]; [by apply bf_frozen|].
      destruct (decide (k ∈ held ns)) as [Hkh|Hkn].
      - (* the body is itself suspended in a closure: of a queue above q *)
        destruct (held_cases ns k HNI Hterm Hkh HkB) as [? ? ? ? _ Hns _ _ _|ak' o2 q2 kx Ea2 Ec2 _ _ _ _]; [done|].
        rewrite Ek in Ea2. injection Ea2 as <-.
        destruct (clos_shape s k ak o2 HS Ek Ec2) as [qc2 Hsh2].
        eapply (Hupc k ak o2 qc2 Ek Hsh2). eapply (kid_higher k ak actk q qc2 Ek Hactk Hbase (cshape_midop _ _ _ Hsh2)).
        destruct Hsh2 as [os Est _|j g os Est [-> | ->] _|j t Est _]; rewrite Est in *; try done.
      - (* the body is stuck: it waits in sync_background on a queue above q *)
        pose proof (held_stuck k ak Ek Hkn) as Hsk.
        destruct (stack ak) as [|fr rest] eqn:Estk; [done|].
        apply caller_ok_inv in Hcok as [(-> & Hfr)|[(os & -> & Hsf)|(g & os & -> & Hpo)]].
        + destruct fr; try done. destruct script; [|done]. unfold done_b in Hkd. by rewrite Ek, Estk in Hkd.
        + destruct fr; try done. rename q0 into q1.
          assert (Hq1 : q < q1).
          { eapply (kid_higher k ak actk q q1 Ek Hactk Hbase); rewrite Estk; [by intros os'|done]. }
          destruct (a_j _ (b_all _ _ HB) k ak Ek) as [J1 J2].
          assert (Hrdy : ready ak = false) by (apply (J2 q1); by rewrite Estk).
          destruct (J1 q1) as [(qq1 & o1 & G1 & G2)|(b2 & st & o1 & G1 & (q' & G2))]; [by rewrite Estk|done| |].
          * destruct (z_z _ (b_all0 _ _ HB) k ak Ek) as [_ _ _ Z4].
            destruct (Z4 q1 qq1 o1) as [Hrun|Ht]; try done; [by rewrite Estk|right; by rewrite Estk| |].
            -- destruct (proj2 (I2 q1 qq1 G1) Hrun) as [b1 Hb1].
               eapply (bf_wait k ak q1 [FTop os] b1 Ek Estk); [left; by exists qq1, o1|].
               apply (IH q1 qq1 b1); [|done|done]. apply lookup_lt_Some in G1. lia.
            -- exfalso. destruct Ht as (b3 & st3 & Hb3 & Hh3). rewrite stacks_lookup in Hb3. destruct (actors s !! b3) as [ab3|] eqn:Eb3; [|done]. injection Hb3 as <-.
               destruct (stack ab3) as [|fr3 rest3] eqn:Est3; [done|]. injection Hh3 as ->.
               destruct (top_frames b3 ab3 _ _ Eb3 Est3) as [Hsf3|Hh3]; [done|].
               destruct (held_frozen ns HNI Hterm HB0 b3 Hh3) as (ab' & fr' & rest' & E1 & E2 & E3). rewrite Eb3 in E1. injection E1 as <-. rewrite Est3 in E2. by injection E2 as <- _.
          * rewrite stacks_lookup in G1. destruct (actors s !! b2) as [ab2|] eqn:Eb2; [|done]. injection G1 as <-.
            destruct (stack ab2) as [|fr2 rest2] eqn:Est2; [by destruct G2|].
            assert (Hfr2 : fr2 = FROrun q' (JSyncBg o1 k) \/ fr2 = FDRrun q' (JSyncBg o1 k)) by (destruct G2 as [[= ->]|[= ->]]; eauto).
            eapply (bf_wait k ak q1 [FTop os] b2 Ek Estk).
            { right. exists ab2, q', o1. split; [done|]. rewrite Est2. destruct Hfr2 as [-> | ->]; eauto. }
            destruct (decide (b2 ∈ B0)) as [|Hb2B]; [by apply bf_frozen|].
            destruct (top_frames b2 ab2 _ _ Eb2 Est2) as [Hsf2|Hh2]; [by destruct Hfr2 as [-> | ->]|].
            destruct (held_cases ns b2 HNI Hterm Hh2 Hb2B) as [ac2 ? ? ? _ _ Ea2 _ Est2'|ac2 o2 q2 kx Ea2 Ec2 _ _ _ _].
            { rewrite Eb2 in Ea2. injection Ea2 as <-. rewrite Est2 in Est2'. injection Est2' as -> _. by destruct Hfr2. }
            rewrite Eb2 in Ea2. injection Ea2 as <-.
            destruct (clos_shape s b2 ab2 o2 HS Eb2 Ec2) as [qc2 Hsh2].
            eapply (Hupc b2 ab2 o2 qc2 Eb2 Hsh2).
            (* the queue of that closure is the queue the body waits on *)
            destruct (cshape_hd ab2 o2 qc2 fr2 Hsh2) as [->|(j & -> & Hj)]; [by rewrite Est2|by destruct Hfr2|].
            assert (Hjq : j = JSyncBg o1 k /\ q' = qc2) by (destruct Hfr2 as [-> | ->]; destruct Hj as [[= <- <-]|[= <- <-]]; done).
            destruct Hjq as [-> ->].
            destruct (clos_call b2 ab2 _ qc2 Eb2 Hsh2) as [kk1 Hc1]. cbn in Hc1.
            (* the job is the current operation of the waiting body *)
            assert (Hpend : JSyncBg o1 k ∈ pend s qc2).
            { destruct (cshape_owner b2 ab2 _ qc2 Eb2 Hsh2) as (qq2 & Eq2 & Ho2 & _).
              rewrite (pend_self s b2 ab2 qc2 (jobs qq2) Eb2) by (by rewrite (oj_lookup s qc2 qq2 Eq2), Ho2).
              apply elem_of_app. left. rewrite Est2. destruct Hfr2 as [-> | ->]; cbn; rewrite decide_True by done; by left. }
            destruct (ai_job _ _ HAi qc2 (JSyncBg o1 k) o1 k Hpend) as (x & q'' & Hx & Hop & _); [by right|].
            cbn in Hx. apply acts_lookup_inv in Hx as (ak' & Ek' & ->). rewrite Ek in Ek'. injection Ek' as <-. cbn in Hop.
            destruct (n_oba _ _ _ HNI k (aact ak) q1) as [kk2 Hc2]; [exact (acts_lookup _ _ _ Ek)|cbn; by rewrite Estk|]. cbn in Hc2.
            rewrite Hop in Hc2. destruct (hg_call_inj _ HG _ _ _ _ _ Hc1 Hc2) as [-> _]. done.
        + destruct fr; try done; destruct g; done.
    Qed.

    Lemma running_bf q qq b : s.(queues) !! q = Some qq -> qq.(owner) = Some b -> bf b.
    Proof. intros Hq. eapply (running_bf_aux (length (queues s))); [lia|exact Hq]. Qed.

    (* a held activation: frozen, blocked because of a frozen one, or a body that was never started *)
    Lemma held_bf a : a ∈ held ns ->
      bf a \/ (is_kid ntop P a = true /\ a ∉ ns.(started) /\ exists ac act, s.(actors) !! a = Some ac /\ P !! a = Some act /\ ac.(stack) = [FTop act.(a_script)]).
    Proof.
      intros Ha. destruct (decide (a ∈ B0)) as [|HaB]; [left; by apply bf_frozen|].
      destruct (held_cases ns a HNI Hterm Ha HaB) as [ac act o os Hk Hn Ea Hact Est|ac o qo k Ea Ec Eo Hks Hkd _].
      - right. split; [done|]. split; [done|]. destruct (n_unst _ _ _ HNI a Hk Hn) as (ac' & act' & E1 & E2 & E3). eauto.
      - left. destruct (clos_shape s a ac o HS Ea Ec) as [qc Hsh]. destruct (cshape_owner a ac o qc Ea Hsh) as (qq & Eq & Ho & _).
        by eapply running_bf.
    Qed.

    Record nquiet_except : Prop := {
      (* a queue that is not Idle and empty is being run by an activation that is blocked because of a frozen one *)
      nqe_queues : forall q qq, s.(queues) !! q = Some qq ->
          (qq.(qs) = Idle /\ qq.(jobs) = []) \/ (qq.(qs) = Running /\ exists b, qq.(owner) = Some b /\ bf b);
      (* an activation has finished its script, was never started, or is blocked because of a frozen activation *)
      nqe_acts : forall a ac, s.(actors) !! a = Some ac -> a < ncallers s ->
          ac.(stack) = [FTop []] \/ bf a \/
          (is_kid ntop P a = true /\ a ∉ ns.(started) /\ exists act, P !! a = Some act /\ ac.(stack) = [FTop act.(a_script)]);
      (* a pool thread is dormant, or blocked because of a frozen activation *)
      nqe_pool : forall t th, s.(threads) !! t = Some th ->
          bf (ncallers s + t) \/ (th.(busy) = false /\ exists ap, s.(actors) !! (ncallers s + t) = Some ap /\ ap.(stack) = [FTrecv t]);
    }.

    (* the pool has a thread that is neither frozen nor suspended, or may still spawn one *)
    Definition npool_free : Prop :=
      length s.(threads) < s.(maxt) \/ exists t, t < length s.(threads) /\ ncallers s + t ∉ held ns.

    Theorem nfrozen_quiet : npool_free -> nquiet_except.
    Proof.
      intros Hfree.
      destruct (frozen_quiet' T F (held ns) s (b_all _ _ HB) (b_m _ _ HB) (held_frozen ns HNI Hterm HB0) (held_texc ns) Hfree) as [Q1 Q2 Q3].
      split.
      - intros q qq Hq. destruct (Q1 q qq Hq) as [?|(Hr & b & Hb & _)]; [by left|]. right. split; [done|]. exists b. split; [done|]. by eapply running_bf.
      - intros a ac Ea Hlt. destruct (decide (a ∈ held ns)) as [Hin|Hn].
        + destruct (held_bf a Hin) as [?|(Hk & Hns & ac' & act & E1 & E2 & E3)]; [by right; left|].
          right; right. rewrite Ea in E1. injection E1 as <-. eauto.
        + destruct (Q2 a ac Ea Hlt Hn) as [?|(q & rest & Est & Hwb)]; [by left|]. right; left.
          destruct Hwb as [(qq & b & o & G1 & G2 & G3 & G4)|(b & ab & q' & o & Hb & Eb & Hhd)].
          * eapply (bf_wait a ac q rest b Ea Est); [left; by exists qq, o|]. by eapply running_bf.
          * eapply (bf_wait a ac q rest b Ea Est); [right; by exists ab, q', o|].
            destruct (held_bf b Hb) as [?|(_ & _ & ab' & act & E1 & _ & E3)]; [done|]. exfalso.
            rewrite Eb in E1. injection E1 as <-. rewrite E3 in Hhd. by destruct Hhd.
      - intros t th Ht. destruct (decide (ncallers s + t ∈ held ns)) as [Hin|Hn]; [|right; by apply (Q3 t th Ht)].
        destruct (held_bf _ Hin) as [?|(Hk & _)]; [by left|]. pose proof (caller_kid _ Hk). lia.
    Qed.
  End Main.

  (* ---------- nobody frozen: L-quiet ---------- *)
  Record nquiet (ns : nstate) : Prop := {
    (* every activation that was started (every top-level caller, every body whose job ran) has finished its script;
       a body that was never started still has its whole script *)
    nq_acts : forall a ac, ns.(base).(actors) !! a = Some ac -> a < ncallers ns.(base) ->
        ac.(stack) = [FTop []] \/
        (is_kid ntop P a = true /\ a ∉ ns.(started) /\ exists act, P !! a = Some act /\ ac.(stack) = [FTop act.(a_script)]);
    nq_queues : forall q qq, ns.(base).(queues) !! q = Some qq -> qq.(qs) = Idle /\ qq.(jobs) = [];
    nq_pool : forall t th, ns.(base).(threads) !! t = Some th ->
        th.(busy) = false /\ exists ap, ns.(base).(actors) !! (ncallers ns.(base) + t) = Some ap /\ ap.(stack) = [FTrecv t];
  }.
End Quiet.

Section QuietAll.
  Context (T : tables) (F : facts) (nq ntop : nat) (P : prog) (HW : nwf nq ntop P).
  Context (ns : nstate) (HNI : NInv ntop P ns) (HB : BaseOK P ns) (Hterm : nterminal T F ntop P ns).

  Lemma texc_nil : nterminal_except T F ntop P [] ns. Proof. intros a _. apply Hterm. Qed.
  Lemma frozen_nil : frozen_ok ns.(base) []. Proof. intros a Ha. by apply elem_of_nil in Ha. Qed.
  Lemma bf_nil a : bf [] ns a -> False.
  Proof. induction 1 as [a Ha| |]; [by apply elem_of_nil in Ha|done|done]. Qed.

  Theorem nterminal_quiet : nquiet ntop P ns.
  Proof.
    assert (Hfree : npool_free T F ns).
    { unfold npool_free. destruct (threads (base ns)) as [|th ths] eqn:Eth.
      - left. cbn. pose proof (a_max _ (b_all _ _ HB)). lia.
      - right. exists 0. split; [cbn; lia|]. intros Hin.
        destruct (held_bf T F nq ntop P HW [] ns HNI HB texc_nil frozen_nil _ Hin) as [Hbf|(Hk & _)]; [by apply bf_nil in Hbf|].
        pose proof (caller_kid ntop P ns HB _ Hk). lia. }
    destruct (nfrozen_quiet T F nq ntop P HW [] ns HNI HB texc_nil frozen_nil Hfree) as [Q1 Q2 Q3]. split.
    - intros a ac Ea Hlt. destruct (Q2 a ac Ea Hlt) as [?|[Hbf|?]]; [by left|by apply bf_nil in Hbf|by right].
    - intros q qq Hq. destruct (Q1 q qq Hq) as [?|(_ & b & _ & Hbf)]; [done|by apply bf_nil in Hbf].
    - intros t th Ht. destruct (Q3 t th Ht) as [Hbf|?]; [by apply bf_nil in Hbf|done].
  Qed.
End QuietAll.
