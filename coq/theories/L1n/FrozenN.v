(* L1n: the frozen-actor analysis of L1g/Frozen.v with one more kind of frozen actor: a caller that could issue its next
   operation but does not (a body activation that has not been started).  Frozen actors here are always callers. *)
From stdpp Require Import list numbers option.
From RecordUpdate Require Import RecordUpdate.
From L1 Require Import Model Own Shape Stuck Live Wait Help Final Pool.
From L1g Require Import Count MView MSimBase MSim MInv Frozen.

Definition frozen_frame' (fr : frame) : Prop :=
  match fr with FDRrun _ _ | FROrun _ _ | FSIrun _ => True | FTop (_ :: _) => True | _ => False end.
Definition frozen_ok' (s : state) (B : list nat) : Prop :=
  forall a, a ∈ B -> exists ac fr rest, s.(actors) !! a = Some ac /\ ac.(stack) = fr :: rest /\ frozen_frame' fr.

Lemma not_frozen' s B a ac fr rest : frozen_ok' s B -> s.(actors) !! a = Some ac -> ac.(stack) = fr :: rest -> ~ frozen_frame' fr -> a ∉ B.
Proof. intros HB Ea Est Hn Hin. destruct (HB a Hin) as (ac' & fr' & rest' & E1 & E2 & E3). rewrite Ea in E1. injection E1 as <-. rewrite Est in E2. by injection E2 as <- _. Qed.

Section Stuck'.
  Context (T : tables) (F : facts) (B : list nat).

  Lemma texc'_sched_free s : Shape s -> frozen_ok' s B -> terminal_except T F B s -> s.(sched_held) = None.
  Proof.
    intros [L Ta Ca Po He Sh Th] HB Hterm. destruct (sched_held s) as [h|] eqn:E; [|done]. exfalso.
    destruct (proj1 (Sh h) eq_refl) as (ac & t & Ea & Est).
    assert (Hh : h ∉ B) by (eapply (not_frozen' s B h ac _ _ HB Ea Est); cbn; tauto).
    specialize (Hterm h Hh). unfold step in Hterm. rewrite Ea in Hterm. cbn in Hterm.
    rewrite Est in Hterm. cbn in Hterm. rewrite E in Hterm. cbn in Hterm. rewrite bool_decide_true in Hterm by done. cbn in Hterm.
    destruct (sched s) as [|q sc]; [done|]. destruct (queues s !! q) as [qq|]; [|done]. by destruct (t_next T (qs qq)).
  Qed.

  Lemma texc'_threads_free s : Shape s -> frozen_ok' s B -> terminal_except T F B s -> s.(threads_held) = None.
  Proof.
    intros HS HB Hterm. pose proof (texc'_sched_free s HS HB Hterm) as Hsf. pose proof HS as [L Ta Ca Po He Sh Th].
    destruct (threads_held s) as [h|] eqn:E; [|done]. exfalso.
    destruct (proj1 (Th h) eq_refl) as (ac & i & rest & Ea & Est).
    assert (Hh : h ∉ B) by (eapply (not_frozen' s B h ac _ _ HB Ea Est); cbn; tauto).
    pose proof (Hterm h Hh) as Hstep. unfold step in Hstep. rewrite Ea in Hstep. cbn in Hstep.
    rewrite Est in Hstep. cbn in Hstep. rewrite E in Hstep. cbn in Hstep. rewrite bool_decide_true in Hstep by done. cbn in Hstep.
    destruct (threads s !! i) as [th|] eqn:Et; [|done].
    destruct (held th) eqn:Eh; [|by destruct (busy th)].
    assert (Hi : ncallers s + i < length (actors s)) by (apply lookup_lt_Some in Et; unfold ncallers; lia).
    destruct (lookup_lt_is_Some_2 _ _ Hi) as [ap Eap].
    specialize (He i th ap Et Eap). rewrite Eh in He.
    destruct (stack ap) as [|fr [|]] eqn:Esp; try done; destruct fr; try done.
    all: assert (Hp : ncallers s + i ∉ B) by (eapply (not_frozen' s B _ ap _ _ HB Eap Esp); cbn; tauto).
    all: specialize (Hterm _ Hp); unfold step in Hterm; rewrite Eap in Hterm; cbn in Hterm; rewrite Esp in Hterm; cbn in Hterm.
    - rewrite Hsf in Hterm. done.
    - assert (sched_held s = Some (ncallers s + i)) by (apply Sh; eauto). congruence.
    - done.
    - done.
  Qed.

  (* every actor that is not frozen is stuck in one of the three places *)
  Theorem stuck_frames_except' s : Shape s -> WF s -> frozen_ok' s B -> terminal_except T F B s ->
    forall a ac, s.(actors) !! a = Some ac -> a ∉ B -> stuck_ok s ac.(stack).
  Proof.
    intros HS HW HB Hterm a ac Ea HaB.
    pose proof (texc'_sched_free s HS HB Hterm) as Hsf. pose proof (texc'_threads_free s HS HB Hterm) as Htf.
    pose proof (WF_self s a ac HW Ea) as Hwf.
    pose proof (kind_of s a ac HS Ea) as Hkind. pose proof HS as [L Ta Ca Po He Sh Th].
    specialize (Hterm a HaB). unfold step in Hterm. rewrite Ea in Hterm. cbn in Hterm.
    destruct (stack ac) as [|fr rest] eqn:Est.
    { destruct Hkind as [[_ H]|(t & _ & H)]; done. }
    cbn in Hwf. apply andb_true_iff in Hwf as [Hfr Hrest].
    destruct Hkind as [[Hlt Hok]|(t0 & Hat & Hok)].
    - apply caller_ok_inv in Hok as [(-> & Htop)|[(os & -> & Hsf')|(g & os & -> & Hpo)]].
      + destruct fr; try done. destruct script as [|o os]; [done|]. by destruct o.
      + destruct fr; try done; cbn in Hfr; try (apply bool_decide_eq_true in Hfr; destruct (queue_exists s _ Hfr) as [qq Eq]);
          cbn in Hterm; rewrite ?Eq, ?Hsf, ?Htf in Hterm; cbn in Hterm.
        all: try done.
        all: try (exfalso; repeat (match type of Hterm with context [match ?x with _ => _ end] => destruct x end; try done); fail).
        all: try (assert (threads_held s = Some a) by (apply Th; eauto); congruence).
      + destruct fr; try done; destruct g; try done; cbn in Hfr; try (apply bool_decide_eq_true in Hfr; destruct (queue_exists s _ Hfr) as [qq Eq]);
          cbn in Hterm; rewrite ?Eq, ?Hsf, ?Htf in Hterm; cbn in Hterm.
        all: try done.
        all: try (exfalso; repeat (match type of Hterm with context [match ?x with _ => _ end] => destruct x end; try done); fail).
        all: try (assert (threads_held s = Some a) by (apply Th; eauto); congruence).
    - subst a. assert (Hth : exists th0, threads s !! t0 = Some th0).
      { apply lookup_lt_is_Some_2. apply lookup_lt_Some in Ea. unfold ncallers in *. lia. }
      destruct Hth as [th0 Hth0].
      apply pool_ok_inv in Hok as [(-> & H1)|(-> & H1)].
      + destruct fr; try done; cbn in H1; apply bool_decide_eq_true in H1; subst; cbn in Hterm; rewrite ?Hth0, ?Hsf in Hterm; cbn in Hterm; try done.
        * cbn. destruct (chan th0) eqn:Ec; [eauto|done].
        * assert (sched_held s = Some (ncallers s + t0)) by (apply Sh; eauto). congruence.
      + destruct fr; try done; cbn in Hfr; apply bool_decide_eq_true in Hfr; destruct (queue_exists s _ Hfr) as [qq Eq];
          cbn in Hterm; rewrite ?Eq in Hterm; cbn in Hterm.
        all: try done.
        all: exfalso; repeat (match type of Hterm with context [match ?x with _ => _ end] => destruct x end; try done).
  Qed.
End Stuck'.


Section Quiet'.
  Context (T : tables) (F : facts) (B : list nat).

  Theorem frozen_quiet' s : All s -> InvM (mv s) -> frozen_ok' s B -> terminal_except T F B s ->
    (length s.(threads) < s.(maxt) \/ exists t, t < length s.(threads) /\ ncallers s + t ∉ B) ->
    quiet_except s B.
  Proof.
    intros [HS HI HW HP HQ HJ HKI Hm] HM HB Hterm Hfree.
    pose proof (stuck_frames_except' T F B s HS HW HB Hterm) as Hstuck.
    (* every top frame is a stuck frame or a frozen one *)
    assert (HA : forall b ab fr rest, s.(actors) !! b = Some ab -> ab.(stack) = fr :: rest -> stuck_frame fr \/ (b ∈ B /\ frozen_frame' fr)).
    { intros b ab fr rest Eb Es. destruct (decide (b ∈ B)) as [Hin|Hn].
      - right. split; [done|]. destruct (HB b Hin) as (ab' & fr' & rest' & E1 & E2 & E3). rewrite Eb in E1. injection E1 as <-. rewrite Es in E2. by injection E2 as <- _.
      - left. eapply stuck_hd; [by eapply (Hstuck b ab Eb Hn)|]. by rewrite Es. }
    assert (HA' : forall fr, has_top s fr -> stuck_frame fr \/ frozen_frame' fr).
    { intros fr (b & st & Hb & Hh). rewrite stacks_lookup in Hb. destruct (actors s !! b) as [ab|] eqn:Eb; [|done]. injection Hb as <-.
      destruct (stack ab) as [|fr' rest] eqn:Es; [done|]. injection Hh as ->. destruct (HA b ab fr rest Eb Es) as [?|[_ ?]]; auto. }
    (* a Running queue is run by a frozen actor *)
    assert (HB1 : forall q qq, s.(queues) !! q = Some qq -> qq.(qs) = Running -> exists b, qq.(owner) = Some b /\ b ∈ B).
    { intros q qq Hq Hr. destruct HI as [I1 I2 I3]. destruct (proj2 (I2 q qq Hq) Hr) as [b Hb]. exists b. split; [done|].
      pose proof (I3 q qq b Hq Hb) as Hlt. destruct (lookup_lt_is_Some_2 _ _ Hlt) as [ab Eb].
      assert (Hc : stack_cnt s b q = Some (cnt q (stack ab))) by (unfold stack_cnt; by rewrite Eb).
      pose proof (I1 b q qq _ Hc Hq) as H1. rewrite decide_True in H1 by done.
      destruct (decide (b ∈ B)) as [|Hn]; [done|]. rewrite (stuck_cnt0 s b ab q HS Eb (Hstuck b ab Eb Hn)) in H1. done. }
    (* a pool thread that is not frozen is dormant *)
    assert (HP1 : forall t th, s.(threads) !! t = Some th -> ncallers s + t ∉ B ->
              th.(busy) = false /\ exists ap, s.(actors) !! (ncallers s + t) = Some ap /\ ap.(stack) = [FTrecv t]).
    { intros t th Ht Hn. destruct (pool_actor s t th HS Ht) as [ap Eap]. pose proof HS as [_ _ _ Po _ _ _].
      specialize (Po t ap Eap). pose proof (Hstuck _ ap Eap Hn) as Hsk.
      destruct (stack ap) as [|fr rest] eqn:Es; [done|]. apply pool_ok_inv in Po as [(-> & Hfr)|(-> & Hfr)]; [|by destruct fr].
      destruct fr; try done. cbn in Hfr. apply bool_decide_eq_true in Hfr. subst. cbn in Hsk. destruct Hsk as (th' & Ht' & Hch). rewrite Ht in Ht'. injection Ht' as <-.
      assert (Hps : pool_state_ok th [FTrecv t] = true) by (apply (HP t th); [done|rewrite stacks_lookup, Eap; cbn; by rewrite Es]).
      unfold pool_state_ok in Hps. rewrite Hch in Hps. split; [by destruct (busy th)|eauto]. }
    (* no queue is Pending: the matching invariant *)
    assert (HB2 : forall q qq, s.(queues) !! q = Some qq -> qq.(qs) <> Pending).
    { intros q qq Hq Hp.
      assert (H1 : 1 <= nP (mv s)).
      { unfold nP, mv. cbn [m_q]. eapply (countb_pos id _ q true); [by rewrite list_lookup_fmap, Hq; cbn; unfold pendq; rewrite Hp|done]. }
      (* no actor is inside schedule_thread *)
      assert (Hacl : forall cl, cl ∈ m_a (mv s) -> cl = AOther).
      { intros cl Hcl. apply elem_of_list_lookup in Hcl as [b Hb]. rewrite ma_lookup in Hb. unfold sc in Hb.
        destruct (actors s !! b) as [ab|] eqn:Eb; [|done]. cbn in Hb. injection Hb as <-.
        destruct (stack ab) as [|fr rest] eqn:Es; [done|]. destruct (HA b ab fr rest Eb Es) as [Hs|[_ Hf]]; destruct fr; done. }
      assert (H2 : nF (mv s) = 0) by (apply countb_zero_intro; intros cl Hcl; by rewrite (Hacl cl Hcl)).
      assert (H3 : nS (mv s) = 0) by (apply countb_zero_intro; intros cl Hcl; by rewrite (Hacl cl Hcl)).
      assert (H4 : nM (mv s) = 0) by (apply countb_zero_intro; intros cl Hcl; by rewrite (Hacl cl Hcl)).
      (* no thread is heading for the schedule *)
      assert (Hcls : forall t c, tcls s !! t = Some c -> (c = TWorking /\ ncallers s + t ∈ B) \/ (c = TDormant /\ ncallers s + t ∉ B)).
      { intros t c Hc. rewrite tcls_lookup in Hc. unfold bt, sc in Hc. destruct (threads s !! t) as [th|] eqn:Et; [|done].
        destruct (actors s !! (ncallers s + t)) as [ap|] eqn:Eap; [|done]. cbn in Hc. injection Hc as <-.
        destruct (decide (ncallers s + t ∈ B)) as [Hin|Hn].
        - left. split; [|done]. destruct (HB _ Hin) as (ab' & fr' & rest' & E1 & E2 & E3). rewrite Eap in E1. injection E1 as <-.
          rewrite E2. destruct fr'; try done; by destruct rest'.
        - right. split; [|done]. destruct (HP1 t th Et Hn) as (Hb & ap' & E1 & E2). rewrite Eap in E1. injection E1 as <-. rewrite E2. cbn. by rewrite Hb. }
      assert (H5 : nH (mv s) = 0).
      { apply countb_zero_intro. intros c Hc. apply elem_of_list_lookup in Hc as [t Ht]. by destruct (Hcls t c Ht) as [[-> _]|[-> _]]. }
      unfold InvM in HM. rewrite H2, H3, H4, H5 in HM.
      assert (H6 : nN (mv s) + m_c (mv s) = 0) by lia.
      destruct Hfree as [Hlt|(t & Hlt & Hn)].
      - unfold mv in H6. cbn [m_c] in H6. lia.
      - assert (H7 : nN (mv s) = 0) by lia. pose proof (countb_zero _ _ H7) as Hz.
        assert (Hlen : t < length (tcls s)) by (by rewrite tcls_length).
        destruct (lookup_lt_is_Some_2 _ _ Hlen) as [c Hc]. specialize (Hz c (elem_of_list_lookup_2 _ _ _ Hc)).
        destruct (Hcls t c Hc) as [[-> Hin]|[-> _]]; done. }
    split.
    - intros q qq Hq. destruct (HQ q qq Hq) as [C1 C2 C3]. destruct C1 as [Hc|[Hc|Hc]]; [|by destruct (HB2 q qq Hq)|right; split; [done|by eapply HB1]].
      left. split; [done|]. destruct (decide (jobs qq = [])) as [|Hn]; [done|]. exfalso. destruct (HA' _ (C3 Hc Hn)); done.
    - intros a ac Ea Hlt Hn. pose proof (Hstuck a ac Ea Hn) as Hsk. pose proof HS as [_ _ Ca _ _ _ _]. specialize (Ca a ac Ea Hlt).
      destruct (stack ac) as [|fr rest] eqn:Es; [done|]. destruct fr; try done; cbn in Hsk.
      + left. destruct script; [|done]. by destruct rest.
      + right. exists q, rest. split; [done|]. destruct (HJ a ac Ea) as [J1 J2].
        assert (Hr : ready ac = false) by (apply (J2 q); by rewrite Es).
        destruct (J1 q) as [(qq & o & G1 & G2)|(b & st & o & G1 & (q' & G2))]; [by rewrite Es|done| |].
        * left. destruct (HQ q qq G1) as [C1 C2 C3]. destruct C1 as [Hc|[Hc|Hc]]; [|by destruct (HB2 q qq G1)|].
          -- exfalso. assert (Hne : jobs qq <> []) by (intros He; rewrite He in G2; by apply elem_of_nil in G2). destruct (HA' _ (C3 Hc Hne)); done.
          -- destruct (HB1 q qq G1 Hc) as (b & Hb1 & Hb2). by exists qq, b, o.
        * right. rewrite stacks_lookup in G1. destruct (actors s !! b) as [ab|] eqn:Eb; [|done]. injection G1 as <-.
          exists b, ab, q', o. split; [|done]. destruct (stack ab) as [|fr' rest'] eqn:Es'; [by destruct G2|].
          destruct (HA b ab fr' rest' Eb Es') as [Hs|[Hin _]]; [|done]. destruct G2 as [G2|G2]; cbn in G2; injection G2 as ->; done.
      + by destruct rest.
    - exact HP1.
  Qed.
End Quiet'.
