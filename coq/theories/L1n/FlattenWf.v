(* L1n: the flattening of every well-ordered recursive program is a well-formed flattened program *)
From stdpp Require Import list numbers option.
From L1 Require Import Model Stuck.
From L1n Require Import Model.

(* ---------- induction over the recursive syntax ---------- *)
Definition nop_ind' (Pr : nop -> Prop) (H : forall o, Forall Pr (nop_body o) -> Pr o) : forall o, Pr o :=
  fix IH (o : nop) : Pr o :=
    H o (match o as o0 return Forall Pr (nop_body o0) with
         | NDesync _ b | NSync _ b | NTrySync _ b =>
             (fix aux (l : list nop) : Forall Pr l := match l with [] => Forall_nil _ | x :: r => Forall_cons _ _ _ (IH x) (aux r) end) b
         end).

Definition erase (o : nop) : op := match o with NDesync q _ => ODesync q | NSync q _ => OSync q | NTrySync q _ => OTrySync q end.
Lemma erase_q o : op_q (erase o) = nop_q o. Proof. by destruct o. Qed.

Lemma wo_op_eq nq lo o : wo_op nq lo o <->
  nop_q o < nq /\ match lo with Some b => b < nop_q o | None => True end /\ Forall (wo_op nq (Some (nop_q o))) (nop_body o).
Proof.
  assert (H : forall q sc, (fix all (q : nat) (sc : list nop) {struct sc} : Prop :=
              match sc with [] => True | o' :: r => wo_op nq (Some q) o' /\ all q r end) q sc <-> Forall (wo_op nq (Some q)) sc).
  { intros q sc. induction sc as [|x sc IH]; [split; [constructor|done]|]. rewrite list.Forall_cons. by rewrite <- IH. }
  destruct o as [q b|q b|q b]; cbn [wo_op nop_q nop_body]; by rewrite H.
Qed.

(* ---------- the flattening functions, unfolded ---------- *)
Definition go_fix : list nop -> nat -> list op * list (option nat) * list act * nat :=
  fix go (sc : list nop) (next : nat) {struct sc} : list op * list (option nat) * list act * nat :=
    match sc with
    | [] => ([], [], [], next)
    | o :: r => let '(o', k, ds, n1) := fl_op o next in
                let '(os, ks, ds2, n2) := go r n1 in (o' :: os, k :: ks, ds ++ ds2, n2)
    end.
Lemma go_fix_eq sc next : go_fix sc next = fl_script sc next.
Proof. revert next. induction sc as [|o sc IH]; intros next; cbn; [done|]. destruct (fl_op o next) as [[[o' k] ds] n1]. by rewrite IH. Qed.

Lemma fl_op_eq o next : fl_op o next =
  match nop_body o with
  | [] => (erase o, None, [], next)
  | _ => let '(os, ks, ds, n1) := fl_script (nop_body o) (S next) in
         (erase o, Some next, {| a_script := os; a_kids := ks; a_base := Some (nop_q o) |} :: ds, n1)
  end.
Proof.
  rewrite <- go_fix_eq. destruct o as [q b|q b|q b]; destruct b; reflexivity.
Qed.

(* ---------- what a segment of body activations looks like ---------- *)
(* the kids ks of the script os point into the segment ds, whose first activation has index n *)
Definition kids_ok (n : nat) (ds : list act) (os : list op) (ks : list (option nat)) : Prop :=
  forall i k, ks !! i = Some (Some k) ->
    n <= k < n + length ds /\ exists o dk, os !! i = Some o /\ ds !! (k - n) = Some dk /\ dk.(a_base) = Some (op_q o).
Definition act_ok (nq n : nat) (ds : list act) (d : act) : Prop :=
  Forall (fun o => op_q o < nq) d.(a_script) /\
  (forall b, d.(a_base) = Some b -> Forall (fun o => b < op_q o) d.(a_script)) /\
  kids_ok n ds d.(a_script) d.(a_kids).
Definition seg_ok (nq n : nat) (ds : list act) : Prop := Forall (act_ok nq n ds) ds.

Lemma kids_ok_app_l n ds ds' os ks : kids_ok n ds os ks -> kids_ok n (ds ++ ds') os ks.
Proof.
  intros H i k Hk. destruct (H i k Hk) as (Hr & o & dk & H1 & H2 & H3). split; [rewrite app_length; lia|].
  exists o, dk. split; [done|]. split; [by apply lookup_app_l_Some|done].
Qed.
Lemma kids_ok_app_r n ds1 ds2 os ks : kids_ok (n + length ds1) ds2 os ks -> kids_ok n (ds1 ++ ds2) os ks.
Proof.
  intros H i k Hk. destruct (H i k Hk) as (Hr & o & dk & H1 & H2 & H3). split; [rewrite app_length; lia|].
  exists o, dk. split; [done|]. split; [|done]. rewrite lookup_app_r by lia. rewrite <- H2. f_equal. lia.
Qed.
Lemma act_ok_app_l nq n ds ds' d : act_ok nq n ds d -> act_ok nq n (ds ++ ds') d.
Proof. intros (H1 & H2 & H3). split; [done|]. split; [done|]. by apply kids_ok_app_l. Qed.
Lemma act_ok_app_r nq n ds1 ds2 d : act_ok nq (n + length ds1) ds2 d -> act_ok nq n (ds1 ++ ds2) d.
Proof. intros (H1 & H2 & H3). split; [done|]. split; [done|]. by apply kids_ok_app_r. Qed.
Lemma seg_ok_app nq n ds1 ds2 : seg_ok nq n ds1 -> seg_ok nq (n + length ds1) ds2 -> seg_ok nq n (ds1 ++ ds2).
Proof.
  intros H1 H2. apply Forall_app. split.
  - eapply list.Forall_impl; [exact H1|]. intros d. apply act_ok_app_l.
  - eapply list.Forall_impl; [exact H2|]. intros d. apply act_ok_app_r.
Qed.
Lemma kids_ok_cons n os ks o k ds ds2 :
  (forall k0, k = Some k0 -> n <= k0 < n + length ds /\ exists dk, ds !! (k0 - n) = Some dk /\ dk.(a_base) = Some (op_q o)) ->
  kids_ok (n + length ds) ds2 os ks -> kids_ok n (ds ++ ds2) (o :: os) (k :: ks).
Proof.
  intros Hk Hr [|i] k0 Hi; cbn in Hi.
  - injection Hi as ->. destruct (Hk k0 eq_refl) as (Hrg & dk & E1 & E2). split; [rewrite app_length; lia|].
    exists o, dk. split; [done|]. split; [by apply lookup_app_l_Some|done].
  - by apply (kids_ok_app_r n ds ds2 os ks Hr i k0).
Qed.

(* ---------- the specification of the flattening of one operation / one script ---------- *)
Definition op_spec (nq : nat) (lo : option nat) (o : nop) (next : nat) (r : op * option nat * list act * nat) : Prop :=
  let '(o', k, ds, n1) := r in
  o' = erase o /\ n1 = next + length ds /\ nop_q o < nq /\ match lo with Some b => b < nop_q o | None => True end /\
  (forall k0, k = Some k0 -> next <= k0 < next + length ds /\ exists dk, ds !! (k0 - next) = Some dk /\ dk.(a_base) = Some (nop_q o)) /\
  seg_ok nq next ds.
Definition script_spec (nq : nat) (lo : option nat) (next : nat) (r : list op * list (option nat) * list act * nat) : Prop :=
  let '(os, ks, ds, n2) := r in
  n2 = next + length ds /\ Forall (fun o => op_q o < nq) os /\ (forall b, lo = Some b -> Forall (fun o => b < op_q o) os) /\
  kids_ok next ds os ks /\ seg_ok nq next ds.

Lemma script_from_ops nq lo sc :
  Forall (fun o => forall next, op_spec nq lo o next (fl_op o next)) sc -> forall next, script_spec nq lo next (fl_script sc next).
Proof.
  induction 1 as [|o sc Ho Hsc IH]; intros next; cbn.
  - split; [cbn; lia|]. split; [constructor|]. split; [intros; constructor|]. split; [intros i k Hk; by rewrite lookup_nil in Hk|constructor].
  - specialize (Ho next). destruct (fl_op o next) as [[[o' k] ds] n1]. destruct Ho as (-> & -> & Hq & Hlo & Hk & Hseg).
    specialize (IH (next + length ds)). destruct (fl_script sc (next + length ds)) as [[[os ks] ds2] n2].
    destruct IH as (-> & Hos & Hlos & Hks & Hseg2).
    split; [rewrite app_length; lia|]. split; [constructor; [by rewrite erase_q|done]|].
    split; [intros b ->; constructor; [by rewrite erase_q|by apply Hlos]|].
    split; [|by apply seg_ok_app].
    apply kids_ok_cons; [|done]. intros k0 E. destruct (Hk k0 E) as (H1 & dk & H2 & H3). split; [done|]. exists dk. by rewrite erase_q.
Qed.

Lemma fl_op_ok nq : forall o lo next, wo_op nq lo o -> op_spec nq lo o next (fl_op o next).
Proof.
  intros o. induction o as [o IH] using nop_ind'. intros lo next Hwo.
  apply wo_op_eq in Hwo as (Hq & Hlo & Hbody).
  rewrite fl_op_eq. destruct (nop_body o) as [|x b] eqn:Eb.
  - split; [done|]. split; [cbn; lia|]. split; [done|]. split; [done|]. split; [done|]. constructor.
  - rewrite <- Eb in *. clear Eb x b.
    assert (Hsp : forall n, script_spec nq (Some (nop_q o)) n (fl_script (nop_body o) n)).
    { apply script_from_ops. rewrite Forall_forall in IH, Hbody |- *. intros x Hx n. apply IH; [done|]. by apply Hbody. }
    specialize (Hsp (S next)). destruct (fl_script (nop_body o) (S next)) as [[[os ks] ds] n1].
    destruct Hsp as (-> & Hos & Hlos & Hks & Hseg).
    split; [done|]. split; [cbn; lia|]. split; [done|]. split; [done|]. split.
    + intros k0 [= <-]. split; [cbn; lia|]. rewrite Nat.sub_diag. eexists. split; [reflexivity|done].
    + (* the new activation followed by its descendants *)
      change (_ :: ds) with ([{| a_script := os; a_kids := ks; a_base := Some (nop_q o) |}] ++ ds).
      apply Forall_app. split.
      * constructor; [|constructor]. split; [done|]. split; [by intros b [= <-]; apply Hlos|]. cbn [a_script a_kids].
        apply kids_ok_app_r. cbn. replace (next + 1) with (S next) by lia. done.
      * eapply list.Forall_impl; [exact Hseg|]. intros d Hd. apply act_ok_app_r. cbn. replace (next + 1) with (S next) by lia. done.
Qed.

Lemma fl_script_ok nq lo sc next : Forall (wo_op nq lo) sc -> script_spec nq lo next (fl_script sc next).
Proof.
  intros H. apply script_from_ops. eapply list.Forall_impl; [exact H|]. intros o Ho n. by apply fl_op_ok.
Qed.

(* ---------- the top-level callers ---------- *)
Definition top_ok (nq n : nat) (ds : list act) (t : act) : Prop :=
  Forall (fun o => op_q o < nq) t.(a_script) /\ t.(a_base) = None /\ kids_ok n ds t.(a_script) t.(a_kids).
Lemma top_ok_app_l nq n ds ds' t : top_ok nq n ds t -> top_ok nq n (ds ++ ds') t.
Proof. intros (H1 & H2 & H3). split; [done|]. split; [done|]. by apply kids_ok_app_l. Qed.
Lemma top_ok_app_r nq n ds1 ds2 t : top_ok nq (n + length ds1) ds2 t -> top_ok nq n (ds1 ++ ds2) t.
Proof. intros (H1 & H2 & H3). split; [done|]. split; [done|]. by apply kids_ok_app_r. Qed.

Lemma fl_tops_ok nq scs : wo nq scs -> forall next,
  let '(tops, ds, n2) := fl_tops scs next in
  n2 = next + length ds /\ length tops = length scs /\ Forall (top_ok nq next ds) tops /\ seg_ok nq next ds.
Proof.
  induction 1 as [|sc scs Hsc Hscs IH]; intros next; cbn.
  - split; [cbn; lia|]. split; [done|]. split; constructor.
  - pose proof (fl_script_ok nq None sc next Hsc) as Hs. destruct (fl_script sc next) as [[[os ks] ds] n1].
    destruct Hs as (-> & Hos & _ & Hks & Hseg).
    specialize (IH (next + length ds)). destruct (fl_tops scs (next + length ds)) as [[tops ds2] n2].
    destruct IH as (-> & Hlen & Htops & Hseg2).
    split; [rewrite app_length; lia|]. split; [cbn; by rewrite Hlen|]. split; [|by apply seg_ok_app].
    constructor.
    + split; [done|]. split; [done|]. by apply kids_ok_app_l.
    + eapply list.Forall_impl; [exact Htops|]. intros t. apply top_ok_app_r.
Qed.

(* ---------- the theorem ---------- *)
Theorem flatten_nwf nq (scs : list (list nop)) : wo nq scs -> nwf nq (length scs) (flatten scs).
Proof.
  intros Hwo. unfold flatten. pose proof (fl_tops_ok nq scs Hwo (length scs)) as H.
  destruct (fl_tops scs (length scs)) as [[tops ds] n2]. destruct H as (_ & Hlen & Htops & Hseg).
  rewrite list.Forall_forall in Htops. unfold seg_ok in Hseg. rewrite list.Forall_forall in Hseg.
  (* an activation of tops ++ ds: its script is in range, its kids point into ds *)
  assert (Hact : forall a act, (tops ++ ds) !! a = Some act ->
            Forall (fun o => op_q o < nq) act.(a_script) /\ kids_ok (length scs) ds act.(a_script) act.(a_kids) /\
            (forall b, act.(a_base) = Some b -> Forall (fun o => b < op_q o) act.(a_script))).
  { intros a act [Ha|[_ Ha]]%lookup_app_Some.
    - destruct (Htops act (elem_of_list_lookup_2 _ _ _ Ha)) as (H1 & H2 & H3). split; [done|]. split; [done|]. intros b Hb. congruence.
    - destruct (Hseg act (elem_of_list_lookup_2 _ _ _ Ha)) as (H1 & H2 & H3). done. }
  split.
  - unfold wf_scripts. apply list.Forall_forall. intros sc (act & -> & Hin)%elem_of_list_fmap.
    apply elem_of_list_lookup in Hin as [a Ha]. destruct (Hact a act Ha) as (H1 & _).
    apply forallb_forall. intros o Ho. apply bool_decide_eq_true. rewrite list.Forall_forall in H1. apply H1. by apply elem_of_list_In.
  - rewrite app_length. lia.
  - intros a i k Hk. unfold kid_at in Hk. destruct ((tops ++ ds) !! a) as [acta|] eqn:Ea; [|done]. cbn in Hk.
    destruct (a_kids acta !! i) as [ko|] eqn:Ei; [|done]. cbn in Hk. subst ko.
    destruct (Hact a acta Ea) as (_ & Hks & _). destruct (Hks i k Ei) as (Hr & o & dk & H1 & H2 & H3).
    split; [rewrite app_length; lia|]. exists acta, o, dk. split; [done|]. split; [done|]. split; [|done].
    rewrite lookup_app_r by lia. by rewrite Hlen.
  - intros k act b Hk Hb. destruct (Hact k act Hk) as (_ & _ & H3). by apply H3.
Qed.
