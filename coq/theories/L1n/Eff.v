(* L1n: what one step of the L1 model does to the stacks, operation ids, ran list - the facts the nested invariants need *)
From stdpp Require Import list numbers option.
From RecordUpdate Require Import RecordUpdate.
From L1 Require Import Model Own Shape Stuck Live Wait Help Final.
From L1z Require Import ZDefs ZBase.
From L1h Require Import WeakWF Hist Abs SimBase Sim HistFacts AInv.
From L1n Require Import Model.

(* ---------- other actors: their stack is unchanged, or woken from the condition-variable wait ---------- *)
Definition swake (st' st : list frame) : Prop := st' = st \/ exists q r, st = FSBwait q :: r /\ st' = FSBwoken q :: r.

Lemma ups_other X s b x : ups X s -> s.(actors) !! b = Some x -> exists x', X.(actors) !! b = Some x' /\ swake x'.(stack) x.(stack).
Proof.
  intros [_ H] Ex. specialize (H b). rewrite Ex in H. destruct (actors X !! b) as [x'|]; [|done]. exists x'. split; [done|]. apply H.
Qed.

Section Eff.
  Context (T : tables) (F : facts).

  Lemma step_others s a s' : step T F s a = Some s' ->
    forall b x, b <> a -> s.(actors) !! b = Some x -> exists x', s'.(actors) !! b = Some x' /\ swake x'.(stack) x.(stack).
  Proof.
    intros Hstep. unfold step in Hstep.
    destruct (actors s !! a) as [ac|] eqn:Ea; cbn in Hstep; [|congruence].
    destruct (stack ac) as [|fr rest] eqn:Est; [congruence|].
    destruct fr.
    all: cbn beta iota zeta in Hstep.
    all: repeat (first
         [ match type of Hstep with
           | context [queues _ !! ?q] => let E := fresh "Eq" in destruct (queues s !! q) as [qq|] eqn:E; cbn in Hstep; [|congruence]
           | context [threads _ !! ?t] => let E := fresh "Et" in destruct (threads s !! t) as [th|] eqn:E; cbn in Hstep
           end
         | match type of Hstep with context [match ?x with _ => _ end] => let E := fresh "E" in destruct x eqn:E end; cbn in Hstep; try congruence ]).
    all: try discriminate.
    all: try (injection Hstep as <-).
    all: intros bb xx Hb Ex; assert (Hb' : a <> bb) by congruence.
    all: unfold setstack.
    all: repeat first [ rewrite actors_upda_lookup, decide_False by done | rewrite actors_updq_eq | rewrite actors_updt_eq
                      | lazymatch goal with |- context [actors (set ?fld ?f ?Y)] => change (actors (set fld f Y)) with (actors Y) end ].
    all: try (exists xx; split; [exact Ex|by left]; fail).
    all: try (lazymatch goal with |- context [run_job ?F ?s ?j] => exact (ups_other _ _ bb xx (ups_run_job F s j) Ex) end; fail).
    all: try (lazymatch goal with |- context [foldl (notify ?F) ?s ?ws] => exact (ups_other _ _ bb xx (ups_foldl_notify F ws s) Ex) end; fail).
    all: try (cbn; rewrite lookup_app_l by (by eapply lookup_lt_Some); exists xx; split; [exact Ex|by left]; fail).
  Qed.

  (* the stepping actor: no script frame appears except by issuing the next operation *)
  Lemma step_self_top s a s' ac : step T F s a = Some s' -> s.(actors) !! a = Some ac ->
    exists ac', s'.(actors) !! a = Some ac' /\
      forall os, FTop os ∈ ac'.(stack) -> FTop os ∈ ac.(stack) \/ exists o, hd_error ac.(stack) = Some (FTop (o :: os)).
  Proof.
    intros Hstep Ea0. unfold step in Hstep. rewrite Ea0 in Hstep. cbn in Hstep.
    destruct (stack ac) as [|fr rest] eqn:Est; [congruence|].
    assert (Hex : forall Y st, is_Some (Y.(actors) !! a) -> (forall os, FTop os ∈ st -> FTop os ∈ fr :: rest \/ exists o, Some fr = Some (FTop (o :: os))) ->
              exists ac', (setstack Y a st).(actors) !! a = Some ac' /\
                forall os, FTop os ∈ ac'.(stack) -> FTop os ∈ fr :: rest \/ exists o, Some fr = Some (FTop (o :: os))).
    { intros Y st [y Hy] Hst. rewrite actors_setstack_lookup, decide_True by done. rewrite Hy. cbn. eexists. split; [done|]. exact Hst. }
    assert (Hsome : is_Some (actors s !! a)) by (by rewrite Ea0).
    destruct fr.
    all: cbn beta iota zeta in Hstep.
    all: repeat (first
         [ match type of Hstep with
           | context [queues _ !! ?q] => let E := fresh "Eq" in destruct (queues s !! q) as [qq|] eqn:E; cbn in Hstep; [|congruence]
           | context [threads _ !! ?t] => let E := fresh "Et" in destruct (threads s !! t) as [th|] eqn:E; cbn in Hstep
           end
         | match type of Hstep with context [match ?x with _ => _ end] => let E := fresh "E" in destruct x eqn:E end; cbn in Hstep; try congruence ]).
    all: try discriminate.
    all: try (injection Hstep as <-).
    all: apply Hex.
    all: try (intros os Hin; repeat (apply elem_of_cons in Hin as [Hin|Hin]; [try discriminate|]); first [ left; by right | right; injection Hin as <-; eauto ]; fail).
    all: repeat first [ rewrite actors_updq_eq | rewrite actors_updt_eq
                      | lazymatch goal with |- context [actors (set ?fld ?f ?Y)] => change (actors (set fld f Y)) with (actors Y) end ].
    all: try exact Hsome.
    all: try (apply is_Some_actors_upda; exact Hsome).
    all: try (cbn; rewrite lookup_app_l by (by eapply lookup_lt_Some); exact Hsome).
    all: try (lazymatch goal with |- context [run_job ?F ?s ?j] =>
              destruct (ups_run_job F s j) as [_ Hu]; specialize (Hu a); rewrite Ea0 in Hu; by destruct (actors (run_job F s j) !! a) end).
    all: try (lazymatch goal with |- context [foldl (notify ?F) ?s ?ws] =>
              destruct (ups_foldl_notify F ws s) as [_ Hu]; specialize (Hu a); rewrite Ea0 in Hu; by destruct (actors (foldl (notify F) s ws) !! a) end).
  Qed.
End Eff.
