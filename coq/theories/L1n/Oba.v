(* L1n: facts about the abstract history machine of L1h that the nested invariants need:
   - the object of an operation in progress is the object of its Call event
   - one step changes the operation id of the acting thread only (at a call), runs at most one closure *)
From stdpp Require Import list numbers option.
From RecordUpdate Require Import RecordUpdate.
From L1 Require Import Model Own Shape Stuck.
From L1h Require Import WeakWF Hist Abs SimBase Sim HistFacts AInv.

Definition ph_q (p : phase) : option nat := match p with PPre _ q | PHand q | PWait q => Some q | _ => None end.
Definition OBA (v : aview) (h : list hevent) : Prop :=
  forall a x q, v_acts v !! a = Some x -> ph_q (ph x) = Some q -> exists k, Call (aop x) q k ∈ h.

Lemma OBA_veq w v h : veq w v -> OBA v h -> OBA w h.
Proof. intros (E & _) H a x q. rewrite E. apply H. Qed.

Lemma oba_alter v h evs a p :
  OBA v h -> (forall x q, v_acts v !! a = Some x -> ph_q p = Some q -> exists k, Call (aop x) q k ∈ h ++ evs) ->
  forall b y q, alter (set_ph p) a (v_acts v) !! b = Some y -> ph_q (ph y) = Some q -> exists k, Call (aop y) q k ∈ h ++ evs.
Proof.
  intros HO Hn b y q [(-> & x & Hx & ->)|(Hne & Hb)]%lookup_alter_Some Hq.
  - cbn in *. by eapply Hn.
  - destruct (HO b y q Hb Hq) as [k Hk]. exists k. apply elem_of_app. by left.
Qed.

Lemma astep_oba v a evs w h : OBA v h -> astep v a evs w -> OBA w (h ++ evs).
Proof.
  intros HO Hst.
  assert (Hmono : forall b y q, v_acts v !! b = Some y -> ph_q (ph y) = Some q -> exists k, Call (aop y) q k ∈ h ++ evs).
  { intros b y q Hb Hq. destruct (HO b y q Hb Hq) as [k Hk]. exists k. apply elem_of_app. by left. }
  destruct Hst as [w Hv|w Hv|w x k q Ha Hp Hv|w x q d Ha Hp Hv|w x k q Ha Hp Hk Hpe Hv|w x q j Ha Hp Hj Hv|w x q js Ha Hp Hpe Hv
                  |w q j js Hpe Hv|w x q Ha Hp Hfl Hv|w x Ha Hp Hv|w x q Ha Hp Hv|w x k q Ha Hp Hv];
    (eapply OBA_veq; [exact Hv|]); clear Hv w; intros b y q0; cbn [v_acts].
  - exact (Hmono b y q0).
  - intros [Hb|[_ Hb]]%lookup_app_Some; [by apply (Hmono b y q0)|]. destruct (b - _); [|done]. injection Hb as <-. done.
  - intros Hb Hq. destruct (decide (a = b)) as [<-|Hne].
    + rewrite list_lookup_insert in Hb by (by eapply lookup_lt_Some). injection Hb as <-. cbn in *. injection Hq as <-.
      exists k. apply elem_of_app. right. by left.
    + rewrite list_lookup_insert_ne in Hb by done. by apply (Hmono b y q0).
  - apply (oba_alter v h _ a _ HO). intros x' q' Hx' Hq'. by destruct d.
  - apply (oba_alter v h _ a _ HO). intros x' q' Hx' [= <-]. rewrite Ha in Hx'. injection Hx' as <-.
    apply (Hmono a x q Ha). by rewrite Hp.
  - apply (oba_alter v h _ a _ HO). intros x' q' Hx' [= <-]. rewrite Ha in Hx'. injection Hx' as <-.
    apply (Hmono a x q Ha). by rewrite Hp.
  - apply (oba_alter v h _ a _ HO). intros x' q' Hx' Hq'. done.
  - intros Hb Hq. destruct (arun_acts_inv _ _ _ _ Hb) as (y0 & Hy0 & E1 & E2 & _). rewrite E2. apply (Hmono b y0 q0 Hy0). by rewrite <- E1.
  - apply (oba_alter v h _ a _ HO). intros x' q' Hx' Hq'. done.
  - apply (oba_alter v h _ a _ HO). intros x' q' Hx' Hq'. done.
  - apply (oba_alter v h _ a _ HO). intros x' q' Hx' Hq'. done.
  - apply (oba_alter v h _ a _ HO). intros x' q' Hx' Hq'. done.
Qed.

(* operation ids: unchanged, except that the acting actor gets the next id at a call *)
Lemma astep_aop v a evs w : astep v a evs w ->
  forall b x, v_acts v !! b = Some x -> exists x', v_acts w !! b = Some x' /\
    (aop x' = aop x \/ (b = a /\ ph x = PIdle /\ aop x' = v_next v)).
Proof.
  intros Hst.
  assert (Halt : forall p b x, v_acts v !! b = Some x -> exists x', alter (set_ph p) a (v_acts v) !! b = Some x' /\ aop x' = aop x).
  { intros p b x Hb. destruct (decide (a = b)) as [<-|Hne].
    - rewrite list_lookup_alter, Hb. cbn. eauto.
    - rewrite list_lookup_alter_ne by done. eauto. }
  destruct Hst as [w Hv|w Hv|w x k q Ha Hp Hv|w x q d Ha Hp Hv|w x k q Ha Hp Hk Hpe Hv|w x q j Ha Hp Hj Hv|w x q js Ha Hp Hpe Hv
                  |w q j js Hpe Hv|w x q Ha Hp Hfl Hv|w x Ha Hp Hv|w x q Ha Hp Hv|w x k q Ha Hp Hv];
    destruct Hv as (-> & _); intros b y Hb; cbn [v_acts].
  all: try (lazymatch goal with |- context [alter (set_ph ?p) _ _] => destruct (Halt p b y Hb) as (x' & H1 & H2); exists x'; split; [exact H1|by left] end; fail).
  - eauto.
  - exists y. split; [by apply lookup_app_l_Some|by left].
  - destruct (decide (a = b)) as [<-|Hne].
    + rewrite list_lookup_insert by (by eapply lookup_lt_Some). eexists. split; [done|]. right. rewrite Ha in Hb. injection Hb as <-. done.
    + rewrite list_lookup_insert_ne by done. eauto.
  - destruct (arun_acts_fwd j _ b y Hb) as (y' & H1 & _ & H2). eauto.
Qed.

(* the closures that run and the ids that are given out *)
Lemma astep_ran v a evs w : astep v a evs w ->
  (v_ran w = v_ran v /\ forall o q, Run o q ∉ evs) \/ exists o q, evs = [Run o q] /\ v_ran w = o :: v_ran v.
Proof.
  intros Hst.
  destruct Hst as [w Hv|w Hv|w x k q Ha Hp Hv|w x q d Ha Hp Hv|w x k q Ha Hp Hk Hpe Hv|w x q j Ha Hp Hj Hv|w x q js Ha Hp Hpe Hv
                  |w q j js Hpe Hv|w x q Ha Hp Hfl Hv|w x Ha Hp Hv|w x q Ha Hp Hv|w x k q Ha Hp Hv];
    destruct Hv as (_ & _ & -> & _); cbn [v_ran].
  all: try (left; split; [done|]; intros o' q' Hin; repeat (apply elem_of_cons in Hin as [Hin|Hin]; [discriminate|]); by apply elem_of_nil in Hin).
  - left. split; [done|]. intros o' q' Hin. apply elem_of_cons in Hin as [Hin|Hin]; [discriminate|].
    destruct d; cbn in Hin; repeat (apply elem_of_cons in Hin as [Hin|Hin]; [discriminate|]); by apply elem_of_nil in Hin.
  - right. eauto.
  - right. eauto.
Qed.
Lemma astep_next v a evs w : astep v a evs w ->
  (v_next w = v_next v /\ forall o q k, Call o q k ∉ evs) \/ exists q k, evs = [Call (v_next v) q k] /\ v_next w = S (v_next v).
Proof.
  intros Hst.
  destruct Hst as [w Hv|w Hv|w x k q Ha Hp Hv|w x q d Ha Hp Hv|w x k q Ha Hp Hk Hpe Hv|w x q j Ha Hp Hj Hv|w x q js Ha Hp Hpe Hv
                  |w q j js Hpe Hv|w x q Ha Hp Hfl Hv|w x Ha Hp Hv|w x q Ha Hp Hv|w x k q Ha Hp Hv];
    destruct Hv as (_ & _ & _ & ->); cbn [v_next].
  all: try (left; split; [done|]; intros o' q' k' Hin; repeat (apply elem_of_cons in Hin as [Hin|Hin]; [discriminate|]); by apply elem_of_nil in Hin).
  - right. eauto.
  - left. split; [done|]. intros o' q' k' Hin. apply elem_of_cons in Hin as [Hin|Hin]; [discriminate|].
    destruct d; cbn in Hin; repeat (apply elem_of_cons in Hin as [Hin|Hin]; [discriminate|]); by apply elem_of_nil in Hin.
Qed.
