(* L1n: the invariant of the nesting bookkeeping (which activation is the body of which operation, what has been started) *)
From stdpp Require Import list numbers option.
From RecordUpdate Require Import RecordUpdate.
From L1 Require Import Model Own Shape Stuck Live Wait Help Final.
From L1z Require Import ZDefs ZBase.
From L1h Require Import WeakWF Hist Abs SimBase Sim HistFacts AInv Reach.
From L1n Require Import Model Proj Eff Oba.

(* the activation is inside an operation *)
Definition midop (st : list frame) : Prop := forall os, st <> [FTop os].

Lemma acts_lookup_inv s a x : acts s !! a = Some x -> exists ac, s.(actors) !! a = Some ac /\ x = aact ac.
Proof. unfold acts. rewrite list_lookup_fmap. destruct (actors s !! a) as [ac|]; [|done]. cbn. intros [= <-]. eauto. Qed.

Section NInv.
  Context (ntop : nat) (P : prog).

  Record NInv (ns : nstate) : Prop := {
    n_len : length ns.(ops) = ns.(base).(nextop);
    n_plen : forall a act, P !! a = Some act -> is_Some (ns.(base).(actors) !! a);
    n_started : forall k, k ∈ ns.(started) -> is_kid ntop P k = true;
    (* a body that has not been started is inert *)
    n_unst : forall k, is_kid ntop P k = true -> k ∉ ns.(started) ->
        exists ac act, ns.(base).(actors) !! k = Some ac /\ P !! k = Some act /\ ac.(stack) = [FTop act.(a_script)];
    (* the script frame of an activation is what is left of its script after the operations it has issued *)
    n_align : forall a act ac os, P !! a = Some act -> ns.(base).(actors) !! a = Some ac -> FTop os ∈ ac.(stack) ->
        exists i, ns.(ncnt) !! a = Some i /\ os = drop i act.(a_script);
    (* the body of an operation is the body activation of that operation's object *)
    n_ops : forall o q k, ns.(ops) !! o = Some (q, Some k) ->
        is_kid ntop P k = true /\ exists act, P !! k = Some act /\ act.(a_base) = Some q;
    n_call : forall o q kd, ns.(ops) !! o = Some (q, kd) -> exists kk, Call o q kk ∈ ns.(nh);
    (* the operation an activation is inside of is one of its script *)
    n_cur : forall a act ac, P !! a = Some act -> ns.(base).(actors) !! a = Some ac -> midop ac.(stack) ->
        exists o kd, o ∈ act.(a_script) /\ ns.(ops) !! ac.(opctr) = Some (op_q o, kd);
    (* a closure that has run: its whole body has been executed *)
    n_ran : forall o q k, ns.(ops) !! o = Some (q, Some k) -> o ∈ ns.(base).(ran) -> k ∈ ns.(started) /\ done_b ns.(base) k = true;
    n_oba : OBA (view ns.(base)) ns.(nh);
  }.

  Lemma ninit_actor nq mx a : (ninit nq mx P).(base).(actors) !! a =
    (fun act => {| stack := [FTop act.(a_script)]; ready := false; result := false; opctr := 0; kicked := false |}) <$> P !! a.
  Proof. unfold ninit, init. cbn [base actors]. rewrite !list_lookup_fmap. by destruct (P !! a). Qed.

  Lemma ninit_inv nq mx : NInv (ninit nq mx P).
  Proof.
    split.
    - done.
    - intros a act Ha. by rewrite ninit_actor, Ha.
    - intros k Hk. by apply elem_of_nil in Hk.
    - intros k Hk _. apply bool_decide_eq_true in Hk as [_ Hk]. destruct (lookup_lt_is_Some_2 _ _ Hk) as [act Hact].
      eexists _, act. rewrite ninit_actor, Hact. cbn. done.
    - intros a act ac os Hact Hac Hin. rewrite ninit_actor, Hact in Hac. cbn in Hac. injection Hac as <-. cbn in Hin.
      apply elem_of_list_singleton in Hin as [= ->]. exists 0. split; [|done]. cbn. apply lookup_replicate. split; [done|by eapply lookup_lt_Some].
    - intros o q k Ho. cbn in Ho. by rewrite lookup_nil in Ho.
    - intros o q kd Ho. cbn in Ho. by rewrite lookup_nil in Ho.
    - intros a act ac Hact Hac Hm. rewrite ninit_actor, Hact in Hac. cbn in Hac. injection Hac as <-. by destruct (Hm (a_script act)).
    - intros o q k Ho. cbn in Ho. by rewrite lookup_nil in Ho.
    - intros a x q Ha Hq. apply acts_lookup_inv in Ha as (ac & Hac & ->). rewrite ninit_actor in Hac.
      destruct (P !! a); [|done]. cbn in Hac. injection Hac as <-. done.
  Qed.
End NInv.

(* ---------- what the observer reports ---------- *)
Lemma obs_call T s a s' ac i q k : s.(actors) !! a = Some ac -> Call i q k ∈ obs' T s a s' ->
  exists o os rest, ac.(stack) = FTop (o :: os) :: rest.
Proof.
  intros Ea Hin. unfold obs' in Hin. rewrite Ea in Hin. destruct (stack ac) as [|fr rest]; [by apply elem_of_nil in Hin|].
  destruct fr; try (destruct script as [|o os]; [by apply elem_of_nil in Hin|eauto]).
  all: exfalso.
  all: repeat (match type of Hin with context [match ?x with _ => _ end] => destruct x end).
  all: repeat (apply elem_of_cons in Hin as [Hin|Hin]; [discriminate|]); by apply elem_of_nil in Hin.
Qed.
Lemma obs_run T s a s' ac o q : s.(actors) !! a = Some ac -> Run o q ∈ obs' T s a s' -> clos_op ac = Some o.
Proof.
  intros Ea Hin. unfold obs' in Hin. rewrite Ea in Hin. unfold clos_op. destruct (stack ac) as [|fr rest]; [by apply elem_of_nil in Hin|].
  destruct fr.
  all: try (apply elem_of_list_singleton in Hin; by injection Hin as <- _).
  all: exfalso.
  all: repeat (match type of Hin with context [match ?x with _ => _ end] => destruct x end).
  all: repeat (apply elem_of_cons in Hin as [Hin|Hin]; [discriminate|]); by apply elem_of_nil in Hin.
Qed.


Lemma aph_idle st : aph st = PIdle -> exists os, st = [FTop os].
Proof.
  destruct st as [|x [|g [|h [|? ?]]]]; cbn; try done.
  - destruct x; try done. eauto.
  - destruct (is_top g); [|done]. by destruct x.
  - destruct (is_top h); [|done]. by destruct g.
Qed.

(* ---------- the three kinds of nested step ---------- *)
Section Cases.
  Context (T : tables) (F : facts) (ntop : nat) (P : prog).

  Inductive ncase (ns : nstate) (a : nat) (ns' : nstate) : Prop :=
  | nc_start ac o q k :
      ns.(base).(actors) !! a = Some ac -> clos_op ac = Some o -> ns.(ops) !! o = Some (q, Some k) -> k ∉ ns.(started) ->
      ns' = ns <| started := k :: ns.(started) |> -> ncase ns a ns'
  | nc_issue ac o os rest s' :
      ns.(base).(actors) !! a = Some ac -> ac.(stack) = FTop (o :: os) :: rest -> step T F ns.(base) a = Some s' ->
      ns' = {| base := s'; nh := ns.(nh) ++ obs' T ns.(base) a s'; started := ns.(started);
               ncnt := alter S a ns.(ncnt); ops := ns.(ops) ++ [(op_q o, kid_at P a (default 0 (ns.(ncnt) !! a)))] |} -> ncase ns a ns'
  | nc_base ac s' :
      ns.(base).(actors) !! a = Some ac -> (forall o os rest, ac.(stack) <> FTop (o :: os) :: rest) -> step T F ns.(base) a = Some s' ->
      (forall o q k, clos_op ac = Some o -> ns.(ops) !! o = Some (q, Some k) -> k ∈ ns.(started) /\ done_b ns.(base) k = true) ->
      ns' = {| base := s'; nh := ns.(nh) ++ obs' T ns.(base) a s'; started := ns.(started); ncnt := ns.(ncnt); ops := ns.(ops) |} -> ncase ns a ns'.

  Lemma bstep_inv ns a ns' : bstep T F ns a = Some ns' -> exists s', step T F ns.(base) a = Some s' /\
    ns' = {| base := s'; nh := ns.(nh) ++ obs' T ns.(base) a s'; started := ns.(started); ncnt := ns.(ncnt); ops := ns.(ops) |}.
  Proof.
    unfold bstep, obs. destruct (step T F (base ns) a) as [s'|]; [|done]. cbn. intros [= <-]. exists s'. split; [done|]. by destruct ns.
  Qed.

  Lemma nstep_cases ns a ns' : nstep T F ntop P ns a = Some ns' ->
    (is_kid ntop P a = true -> a ∈ ns.(started)) /\ ncase ns a ns'.
  Proof.
    unfold nstep. destruct (is_kid ntop P a && negb (bool_decide (a ∈ started ns))) eqn:Eg; [done|]. intros H. split.
    { intros Hk. rewrite Hk in Eg. cbn in Eg. apply negb_false_iff in Eg. by apply bool_decide_eq_true in Eg. }
    clear Eg. revert H. destruct (actors (base ns) !! a) as [ac|] eqn:Ea; [|done]; cbn.
    assert (Hgen : (forall o os rest, ac.(stack) <> FTop (o :: os) :: rest) ->
              match clos_op ac with
              | Some o => match ops ns !! o with
                          | Some (_, Some k) => if bool_decide (k ∈ started ns) then (if done_b (base ns) k then bstep T F ns a else None)
                                                else Some (ns <| started := k :: started ns |>)
                          | _ => bstep T F ns a end
              | None => bstep T F ns a end = Some ns' -> ncase ns a ns').
    { intros Hnt. destruct (clos_op ac) as [o|] eqn:Ec.
      - destruct (ops ns !! o) as [[q [k|]]|] eqn:Eo.
        + case_bool_decide as Hk.
          * destruct (done_b (base ns) k) eqn:Ed; [|done]. intros (s' & Hs & ->)%bstep_inv. eapply nc_base; try done.
            intros o' q' k' Ec' Eo'. rewrite Ec in Ec'. injection Ec' as <-. rewrite Eo in Eo'. injection Eo' as <- <-. done.
          * intros [= <-]. by eapply nc_start.
        + intros (s' & Hs & ->)%bstep_inv. eapply nc_base; try done. intros o' q' k' Ec' Eo'. rewrite Ec in Ec'. injection Ec' as <-. rewrite Eo in Eo'. done.
        + intros (s' & Hs & ->)%bstep_inv. eapply nc_base; try done. intros o' q' k' Ec' Eo'. rewrite Ec in Ec'. injection Ec' as <-. rewrite Eo in Eo'. done.
      - intros (s' & Hs & ->)%bstep_inv. eapply nc_base; try done. intros o' q' k' Ec'. congruence. }
    destruct (stack ac) as [|fr rest] eqn:Est; [by apply Hgen|].
    destruct fr; try (by apply Hgen). destruct script as [|o os]; [by apply Hgen|].
    destruct (bstep T F ns a) as [ns1|] eqn:E; [|done]. cbn. intros [= <-]. apply bstep_inv in E as (s' & Hs & ->).
    by eapply nc_issue.
  Qed.
End Cases.
