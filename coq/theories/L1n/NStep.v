(* L1n: every nested step keeps the bookkeeping invariant *)
From stdpp Require Import list numbers option.
From RecordUpdate Require Import RecordUpdate.
From L1 Require Import Model Own Shape Stuck Live Wait Help Final.
From L1z Require Import ZDefs ZBase.
From L1h Require Import WeakWF Hist Abs SimBase Sim HistFacts AInv Reach.
From L1n Require Import Model Proj Eff Oba NInv.

Lemma drop_cons_S {A} (l : list A) i x r : drop i l = x :: r -> drop (S i) l = r /\ l !! i = Some x /\ x ∈ l.
Proof.
  revert i. induction l as [|y l IH]; intros [|i] H; cbn in *; try done.
  - injection H as -> ->. repeat split. by left.
  - destruct (IH i H) as (H1 & H2 & H3). repeat split; try done. by right.
Qed.
Lemma swake_top st' st os : swake st' st -> FTop os ∈ st' -> FTop os ∈ st.
Proof.
  intros [->|(q & r & -> & ->)] Hin; [done|]. apply elem_of_cons in Hin as [Hin|Hin]; [discriminate|]. by right.
Qed.
Lemma swake_midop st' st : swake st' st -> midop st' -> midop st.
Proof. intros [->|(q & r & -> & ->)] Hm os; [apply Hm|done]. Qed.
Lemma swake_single st' st os : swake st' st -> st = [FTop os] -> st' = [FTop os].
Proof. intros [->|(q & r & -> & ->)] E; [done|discriminate]. Qed.

Section NStep.
  Context (T : tables) (F : facts) (HT : own_conditions T) (HI : imm_conditions T).
  Context (nq ntop : nat) (P : prog) (HW : nwf nq ntop P).

  Lemma step_issue_self s a s' ac o os rest : step T F s a = Some s' -> s.(actors) !! a = Some ac -> ac.(stack) = FTop (o :: os) :: rest ->
    exists ac' fr, s'.(actors) !! a = Some ac' /\ ac'.(stack) = fr :: FTop os :: rest /\ is_top fr = false /\ ac'.(opctr) = s.(nextop).
  Proof.
    intros Hs Ea Est. unfold step in Hs. rewrite Ea in Hs. cbn in Hs. rewrite Est in Hs.
    destruct o; injection Hs as <-; rewrite actors_setstack_lookup, decide_True by done; rewrite actors_upda_lookup, decide_True by done;
      cbn; rewrite Ea; cbn; eexists _, _; (split; [reflexivity|]); cbn; done.
  Qed.

  Lemma done_stays s a s' k : step T F s a = Some s' -> done_b s k = true -> done_b s' k = true.
  Proof.
    intros Hs Hd. unfold done_b in *. destruct (actors s !! k) as [x|] eqn:Ex; [|done].
    destruct (stack x) as [|fr r] eqn:Est; [done|]. destruct fr; try done. destruct script; [|done]. destruct r; [|done].
    assert (Hne : k <> a).
    { intros ->. unfold step in Hs. rewrite Ex in Hs. cbn in Hs. by rewrite Est in Hs. }
    destruct (step_others T F s a s' Hs k x Hne Ex) as (x' & Ex' & Hw). rewrite Ex'. by rewrite (swake_single _ _ [] Hw Est).
  Qed.

  Lemma ninv_step ns a ns' : NInv ntop P ns -> HInv (ns.(base), ns.(nh)) -> nstep T F ntop P ns a = Some ns' -> NInv ntop P ns'.
  Proof.
    intros [N0 Np N1 N2 N3 N4 N5 N6 N7 N8] [HS HIv HWf HA] Hn. cbn [fst snd] in *.
    destruct (nstep_cases T F ntop P ns a ns' Hn) as [Hst Hc].
    destruct Hc as [ac o q k Ea Ec Eo Hk ->|ac o os rest s' Ea Est Hs ->|ac s' Ea Hnt Hs Hclos ->].
    - (* a body is started *)
      split; cbn; try done.
      + intros k' [->|Hin]%elem_of_cons; [by destruct (N4 o q k Eo)|by apply N1].
      + intros k' Hkid Hn'. apply N2; [done|]. intros Hin. apply Hn'. by right.
      + intros o' q' k' Ho' Hr. destruct (N7 o' q' k' Ho' Hr) as [H1 H2]. split; [by right|done].
    - (* an operation is issued *)
      pose proof (step_sim T F HT HI _ a s' HS HIv HWf Hs) as Hsim.
      set (evs := obs' T (base ns) a s') in *.
      assert (Hevs : evs = [Call (nextop (base ns)) (op_q o) (op_kind o)]) by (subst evs; unfold obs'; by rewrite Ea, Est).
      destruct (step_issue_self _ a s' ac o os rest Hs Ea Est) as (ac' & fr & Ea' & Est' & Hfr & Hop').
      assert (Hrest : rest = []).
      { destruct (kind_of _ a ac HS Ea) as [[_ Hok]|(t & _ & Hok)]; rewrite Est in Hok.
        - apply caller_ok_inv in Hok as [(-> & _)|[(os' & -> & Hsf)|(g & os' & -> & Hpo)]]; done.
        - by apply pool_ok_inv in Hok as [(-> & Hp)|(-> & Hp)]. }
      subst rest.
      assert (Hnext : nextop s' = S (nextop (base ns))).
      { destruct (astep_next _ _ _ _ Hsim) as [(_ & Hno)|(q' & k' & _ & Hnx)]; [|exact Hnx].
        exfalso. eapply Hno. rewrite Hevs. by left. }
      assert (Hran : ran s' = ran (base ns)).
      { destruct (astep_ran _ _ _ _ Hsim) as [(Hr & _)|(o' & q' & He & _)]; [exact Hr|]. rewrite Hevs in He. discriminate. }
      assert (Hoth : forall b x, b <> a -> actors (base ns) !! b = Some x -> exists x', actors s' !! b = Some x' /\ swake (stack x') (stack x) /\ opctr x' = opctr x).
      { intros b x Hb Ex. destruct (step_others T F _ a s' Hs b x Hb Ex) as (x' & Ex' & Hw). exists x'. split; [done|]. split; [done|].
        destruct (astep_aop _ _ _ _ Hsim b (aact x)) as (y & Hy & Hop); [cbn; by apply acts_lookup|].
        cbn in Hy. apply acts_lookup_inv in Hy as (x'' & Ex'' & ->). rewrite Ex' in Ex''. injection Ex'' as <-.
        destruct Hop as [Hop|(-> & _)]; [exact Hop|done]. }
      assert (Hback : forall b x', b <> a -> actors s' !! b = Some x' -> forall act, P !! b = Some act ->
                exists x, actors (base ns) !! b = Some x /\ swake (stack x') (stack x) /\ opctr x' = opctr x).
      { intros b x' Hb Ex' act Hact. destruct (Np b act Hact) as [x Ex]. destruct (Hoth b x Hb Ex) as (x2 & Ex2 & Hw & Hop).
        rewrite Ex' in Ex2. injection Ex2 as <-. eauto. }
      split; cbn [base nh started ncnt ops].
      + rewrite app_length, N0, Hnext. cbn. lia.
      + intros b act Hact. destruct (decide (b = a)) as [->|Hb]; [by rewrite Ea'|].
        destruct (Np b act Hact) as [x Ex]. destruct (Hoth b x Hb Ex) as (x' & -> & _). done.
      + done.
      + intros k Hkid Hnk. destruct (N2 k Hkid Hnk) as (x & act & Ex & Hact & Estk).
        assert (Hka : k <> a) by (intros ->; by apply Hnk, Hst).
        destruct (Hoth k x Hka Ex) as (x' & Ex' & Hw & _). exists x', act. split; [done|]. split; [done|]. by apply (swake_single _ _ _ Hw).
      + intros b act x' os' Hact Ex' Hin. destruct (decide (b = a)) as [->|Hb].
        * rewrite Ea' in Ex'. injection Ex' as <-. rewrite Est' in Hin.
          destruct (N3 a act ac (o :: os) Hact Ea) as (i & Hi & Hdrop); [rewrite Est; by left|].
          symmetry in Hdrop. destruct (drop_cons_S _ _ _ _ Hdrop) as (Hd1 & _ & _).
          exists (S i). split; [by rewrite list_lookup_alter, Hi|].
          apply elem_of_cons in Hin as [Hin|Hin]; [subst fr; done|]. apply elem_of_list_singleton in Hin. injection Hin as ->. done.
        * destruct (Hback b x' Hb Ex' act Hact) as (x & Ex & Hw & _).
          destruct (N3 b act x os' Hact Ex (swake_top _ _ _ Hw Hin)) as (i & Hi & ->). exists i. split; [|done]. by rewrite list_lookup_alter_ne.
      + intros o' q' k' Ho'. apply lookup_app_Some in Ho' as [Ho'|[Hge Ho']]; [by eapply N4|].
        destruct (o' - length (ops ns)) as [|?] eqn:E0; [|done]. cbn in Ho'. injection Ho' as <- Hkid.
        destruct (w_kid _ _ _ HW a _ k' Hkid) as (Hrange & acta & o2 & actk & Ha1 & Ha2 & Ha3 & Ha4).
        split; [by apply bool_decide_eq_true|]. exists actk. split; [done|].
        destruct (N3 a acta ac (o :: os) Ha1 Ea) as (i & Hi & Hdrop); [rewrite Est; by left|].
        rewrite Hi in Ha2. cbn in Ha2. symmetry in Hdrop. destruct (drop_cons_S _ _ _ _ Hdrop) as (_ & Hd2 & _).
        rewrite Hd2 in Ha2. injection Ha2 as <-. done.
      + intros o' q' kd Ho'. apply lookup_app_Some in Ho' as [Ho'|[Hge Ho']].
        * destruct (N5 o' q' kd Ho') as [kk Hkk]. exists kk. apply elem_of_app. by left.
        * destruct (o' - length (ops ns)) as [|?] eqn:E0; [|done]. cbn in Ho'. injection Ho' as <- _.
          assert (o' = nextop (base ns)) as -> by lia. exists (op_kind o). apply elem_of_app. right. rewrite Hevs. by left.
      + intros b act x' Hact Ex' Hm. destruct (decide (b = a)) as [->|Hb].
        * rewrite Ea' in Ex'. injection Ex' as <-. rewrite Hop'.
          destruct (N3 a act ac (o :: os) Hact Ea) as (i & Hi & Hdrop); [rewrite Est; by left|].
          symmetry in Hdrop. destruct (drop_cons_S _ _ _ _ Hdrop) as (_ & _ & Hd3).
          exists o, (kid_at P a (default 0 (ncnt ns !! a))). split; [done|].
          rewrite lookup_app_r by lia. rewrite N0, Nat.sub_diag. done.
        * destruct (Hback b x' Hb Ex' act Hact) as (x & Ex & Hw & Hop).
          destruct (N6 b act x Hact Ex (swake_midop _ _ Hw Hm)) as (o2 & kd & Ho2 & Hops). exists o2, kd. split; [done|].
          rewrite Hop. by apply lookup_app_l_Some.
      + intros o' q' k' Ho' Hr. rewrite Hran in Hr.
        assert (Hlt : o' < nextop (base ns)).
        { pose proof (ai_runs _ _ HA) as Hruns. pose proof (ai_ids _ _ HA) as Hids. cbn in Hruns, Hids.
          assert (Hin : o' ∈ runs (nh ns)) by (rewrite Hruns; by apply elem_of_rev).
          apply elem_of_runs in Hin as [q2 Hin]. by apply (Hids _ Hin). }
        apply lookup_app_Some in Ho' as [Ho'|[Hge Ho']]; [|rewrite N0 in Hge; lia].
        destruct (N7 o' q' k' Ho' Hr) as [H1 H2]. split; [done|]. by eapply done_stays.
      + exact (astep_oba _ a _ _ _ N8 Hsim).
    - (* a step of the base model that issues nothing *)
      pose proof (step_sim T F HT HI _ a s' HS HIv HWf Hs) as Hsim.
      set (evs := obs' T (base ns) a s') in *.
      assert (Hnext : nextop s' = nextop (base ns)).
      { destruct (astep_next _ _ _ _ Hsim) as [(Hnx & _)|(q' & k' & He & _)]; [exact Hnx|].
        exfalso. destruct (obs_call T _ a s' ac (nextop (base ns)) q' k' Ea) as (o & os & rest & E); [fold evs; rewrite He; by left|]. by eapply Hnt. }
      assert (Hmid : midop (stack ac)).
      { intros os E. unfold step in Hs. rewrite Ea in Hs. cbn in Hs. rewrite E in Hs. destruct os as [|o os]; [done|]. by eapply Hnt. }
      destruct (step_self_top T F _ a s' ac Hs Ea) as (ac' & Ea' & Htop).
      assert (Hoth : forall b x, b <> a -> actors (base ns) !! b = Some x -> exists x', actors s' !! b = Some x' /\ swake (stack x') (stack x) /\ opctr x' = opctr x).
      { intros b x Hb Ex. destruct (step_others T F _ a s' Hs b x Hb Ex) as (x' & Ex' & Hw). exists x'. split; [done|]. split; [done|].
        destruct (astep_aop _ _ _ _ Hsim b (aact x)) as (y & Hy & Hop); [cbn; by apply acts_lookup|].
        cbn in Hy. apply acts_lookup_inv in Hy as (x'' & Ex'' & ->). rewrite Ex' in Ex''. injection Ex'' as <-.
        destruct Hop as [Hop|(-> & _)]; [exact Hop|done]. }
      assert (Hback : forall b x', b <> a -> actors s' !! b = Some x' -> forall act, P !! b = Some act ->
                exists x, actors (base ns) !! b = Some x /\ swake (stack x') (stack x) /\ opctr x' = opctr x).
      { intros b x' Hb Ex' act Hact. destruct (Np b act Hact) as [x Ex]. destruct (Hoth b x Hb Ex) as (x2 & Ex2 & Hw & Hop).
        rewrite Ex' in Ex2. injection Ex2 as <-. eauto. }
      assert (Hopa : opctr ac' = opctr ac).
      { destruct (astep_aop _ _ _ _ Hsim a (aact ac)) as (y & Hy & Hop); [cbn; by apply acts_lookup|].
        cbn in Hy. apply acts_lookup_inv in Hy as (x'' & Ex'' & ->). rewrite Ea' in Ex''. injection Ex'' as <-.
        destruct Hop as [Hop|(_ & Hidle & _)]; [exact Hop|]. cbn in Hidle. apply aph_idle in Hidle as [os E]. by destruct (Hmid os). }
      split; cbn [base nh started ncnt ops].
      + by rewrite N0, Hnext.
      + intros b act Hact. destruct (decide (b = a)) as [->|Hb]; [by rewrite Ea'|].
        destruct (Np b act Hact) as [x Ex]. destruct (Hoth b x Hb Ex) as (x' & -> & _). done.
      + done.
      + intros k Hkid Hnk. destruct (N2 k Hkid Hnk) as (x & act & Ex & Hact & Estk).
        assert (Hka : k <> a) by (intros ->; by apply Hnk, Hst).
        destruct (Hoth k x Hka Ex) as (x' & Ex' & Hw & _). exists x', act. split; [done|]. split; [done|]. by apply (swake_single _ _ _ Hw).
      + intros b act x' os' Hact Ex' Hin. destruct (decide (b = a)) as [->|Hb].
        * rewrite Ea' in Ex'. injection Ex' as <-. destruct (Htop os' Hin) as [Hin'|(o & Hhd)].
          -- by eapply N3.
          -- exfalso. destruct (stack ac) as [|f r] eqn:E; [done|]. injection Hhd as ->. by eapply Hnt.
        * destruct (Hback b x' Hb Ex' act Hact) as (x & Ex & Hw & _). by eapply (N3 b act x os' Hact Ex), swake_top.
      + done.
      + intros o' q' kd Ho'. destruct (N5 o' q' kd Ho') as [kk Hkk]. exists kk. apply elem_of_app. by left.
      + intros b act x' Hact Ex' Hm. destruct (decide (b = a)) as [->|Hb].
        * rewrite Ea' in Ex'. injection Ex' as <-. rewrite Hopa. by eapply N6.
        * destruct (Hback b x' Hb Ex' act Hact) as (x & Ex & Hw & Hop). rewrite Hop. eapply N6; [done|done|]. by eapply swake_midop.
      + intros o' q' k' Ho' Hr.
        assert (Hold : k' ∈ started ns /\ done_b (base ns) k' = true).
        { destruct (astep_ran _ _ _ _ Hsim) as [(Hrn & _)|(o2 & q2 & He & Hrn)]; cbn in Hrn; rewrite Hrn in Hr; [by eapply N7|].
          apply elem_of_cons in Hr as [->|Hr]; [|by eapply N7].
          eapply (Hclos o2 q' k'); [|done]. eapply (obs_run T _ a s' ac o2 q2 Ea). fold evs. rewrite He. by left. }
        destruct Hold as [H1 H2]. split; [done|]. by eapply done_stays.
      + exact (astep_oba _ a _ _ _ N8 Hsim).
  Qed.
End NStep.

(* ---------- every reachable nested state ---------- *)
Section NReach.
  Context (T : tables) (F : facts) (HK : core_tables T) (HT : own_conditions T) (HI : imm_conditions T)
          (HF : F.(f_dormant_blocks) = true) (HN : F.(f_sticky_notify) = true).
  Context (nq mx ntop : nat) (P : prog) (HW : nwf nq ntop P) (Hmx : 1 <= mx).

  Theorem nreach_ninv tr ns : nrun T F ntop P (ninit nq mx P) tr = Some ns -> NInv ntop P ns.
  Proof.
    intros Hr.
    assert (H : NInv ntop P ns /\ HInv (ns.(base), ns.(nh))); [|by destruct H].
    eapply (nrun_ind T F ntop P (fun ns => NInv ntop P ns /\ HInv (ns.(base), ns.(nh)))); [| |exact Hr].
    - intros ns0 a ns1 [H1 H2] Hs. split; [by eapply (ninv_step T F HT HI nq ntop P HW)|].
      destruct (nstep_proj T F ntop P _ _ _ Hs) as [Hst|[E1 E2]]; [by eapply (steph_inv T F HT HI)|by rewrite E1, E2].
    - split; [apply ninit_inv|apply init_hinv].
  Qed.
End NReach.
