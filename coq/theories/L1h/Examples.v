(* L1h: concrete multi-caller runs of the model on the generated tables, used by the non-vacuity examples.
   Definitions and vm_compute examples only. *)
From stdpp Require Import list numbers option.
From L0 Require Import Types.
From Gen Require Import Tables.
From L1 Require Import Model Stuck Final.
From L1h Require Import Hist.

(* run A: three callers, two objects, a pool of one thread.
   caller 0: desync(0); sync(0)      caller 1: desync(0); try_sync(0)      caller 2: try_sync(1); sync(0) *)
Definition exA_scripts : list (list op) := [[ODesync 0; OSync 0]; [ODesync 0; OTrySync 0]; [OTrySync 1; OSync 0]].
Definition exA_init : state := init 2 1 exA_scripts.
Definition exA_trace : list nat :=
  [0; 0; 0; 1; 1; 1; 1; 2; 2; 2; 2; 2; 0; 0; 0; 0; 2; 2; 2; 0; 0; 0; 0; 0; 0; 0; 0; 2; 2; 2; 2; 2; 2; 2; 2; 2; 2; 2; 2; 0; 0; 0; 0; 0; 0; 0;
   0; 0; 0; 2; 2; 2; 2; 2; 3; 3; 3; 3; 3; 3].
Definition exA_hist : list hevent :=
  [Call 0 0 KDesync; Push 0 0; Call 1 0 KDesync; Push 1 0; Ret 1; Call 2 0 KTry; RetBusy 2; Call 3 1 KTry; Push 3 1; Run 3 1; Ret 3;
   Call 4 0 KSync; Push 4 0; Ret 0; Call 5 0 KSync; Push 5 0; Run 0 0; Run 1 0; Run 4 0; Run 5 0; Ret 5; Ret 4].
Example exA_hist_ok : hist gen_tables gen_facts exA_init exA_trace = exA_hist.
Proof. vm_compute. reflexivity. Qed.
Example exA_run_ok : exists s, run gen_tables gen_facts exA_init exA_trace = Some s /\ ran s = [5; 4; 1; 0; 3]
                               /\ terminal_b gen_tables gen_facts s = true /\ complete s = true.
Proof. eexists. split; [vm_compute; reflexivity|]. repeat split; vm_compute; reflexivity. Qed.

(* run C: the last operation on object 0 is a sync issued after every other operation on it has returned (Desync::drop).
   caller 0: desync(0); try_sync(0); desync(0)      caller 1: desync(1); sync(0) *)
Definition exC_scripts : list (list op) := [[ODesync 0; OTrySync 0; ODesync 0]; [ODesync 1; OSync 0]].
Definition exC_init : state := init 2 1 exC_scripts.
Definition exC_trace : list nat :=
  [0; 0; 0; 0; 0; 0; 0; 0; 1; 1; 1; 1; 1; 1; 2; 2; 2; 2; 2; 0; 0; 0; 0; 1; 1; 1; 1; 1; 1; 1; 1; 2; 2; 2; 2; 2; 2; 1; 1; 2; 2; 2; 2; 2; 2; 2;
   2; 2; 2; 2; 2; 2; 2].
Definition exC_h1 : list hevent :=
  [Call 0 0 KDesync; Push 0 0; Ret 0; Call 1 1 KDesync; Push 1 1; Call 2 0 KTry; RetBusy 2; Call 3 0 KDesync; Push 3 0; Ret 3; Ret 1].
Definition exC_h2 : list hevent := [Push 4 0; Run 0 0; Run 3 0; Run 4 0; Ret 4; Run 1 1].
Example exC_hist_ok : hist gen_tables gen_facts exC_init exC_trace = exC_h1 ++ Call 4 0 KSync :: exC_h2.
Proof. vm_compute. reflexivity. Qed.
Example exC_run_ok : exists s, run gen_tables gen_facts exC_init exC_trace = Some s /\ ran s = [1; 4; 3; 0].
Proof. eexists. split; vm_compute; reflexivity. Qed.
