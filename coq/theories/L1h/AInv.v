(* L1h: the invariant of the abstract history machine, and its preservation *)
From stdpp Require Import list numbers option.
From RecordUpdate Require Import RecordUpdate.
From L1 Require Import Model.
From L1h Require Import Hist Abs HistFacts.

Definition inop (x : aactor) : Prop := match ph x with PIdle | PPool => False | _ => True end.
(* what is known about an actor in a given phase *)
Definition act_ok (nx : nat) (rn : list nat) (h : list hevent) (x : aactor) : Prop :=
  match ph x with
  | PIdle | PPool => True
  | PPre k q => aop x < nx /\ ~ finished (aop x) h /\ Call (aop x) q k ∈ h /\ aop x ∉ pushed_all h /\ ares x = false /\ ardy x = false
  | PHand q => aop x < nx /\ ~ finished (aop x) h /\ aop x ∈ pushed_all h
  | PWait q => aop x < nx /\ ~ finished (aop x) h /\ aop x ∈ pushed_all h /\ (ares x = true \/ ardy x = true -> aop x ∈ rn)
  | PPost => aop x < nx /\ ~ finished (aop x) h /\ aop x ∈ pushed_all h /\ (forall q k, Call (aop x) q k ∈ h -> k <> KDesync -> aop x ∈ rn)
  end.
Definition is_sjob (j : job) (o c : nat) : Prop := j = JSyncDrain o c \/ j = JSyncBg o c.
Definition uniq (A : list aactor) : Prop :=
  forall a b x y, A !! a = Some x -> A !! b = Some y -> inop x -> inop y -> aop x = aop y -> a = b.
(* a queued sync job belongs to the current operation of a caller that is waiting for it *)
Definition jobs_ok (A : list aactor) (P : nat -> list job) : Prop :=
  forall q j o c, j ∈ P q -> is_sjob j o c -> exists x q', A !! c = Some x /\ aop x = o /\ ph x = PWait q'.

Record AInv (v : aview) (h : list hevent) : Prop := {
  ai_runs : runs h = rev (v_ran v);
  ai_q : forall q, pushed h q = ranq h q ++ (job_id <$> v_pend v q);
  ai_ids : forall e, e ∈ h -> ev_id e < v_next v;
  ai_acts : forall a x, v_acts v !! a = Some x -> act_ok (v_next v) (v_ran v) h x;
  ai_uniq : uniq (v_acts v);
  ai_job : jobs_ok (v_acts v) (v_pend v);
  ai_good : HGood h;
}.

Lemma AInv_veq w v h : veq w v -> AInv v h -> AInv w h.
Proof.
  intros (E1 & E2 & E3 & E4) [I1 I2 I3 I4 I5 I6 I7]. split.
  - by rewrite E3.
  - intros q. by rewrite E2.
  - rewrite E4. done.
  - rewrite E1, E3, E4. done.
  - by rewrite E1.
  - intros q j o c. rewrite E1, E2. apply I6.
  - done.
Qed.

Lemma act_ok_inop nx rn h x : inop x -> act_ok nx rn h x -> aop x < nx /\ ~ finished (aop x) h.
Proof. unfold inop, act_ok. destruct (ph x); try done; intros _ H; split; apply H. Qed.

Definition is_run (e : hevent) : Prop := exists i q, e = Run i q.
Lemma not_finished_app i h evs : ~ finished i h -> (forall e, e ∈ evs -> ev_id e <> i \/ is_run e) -> ~ finished i (h ++ evs).
Proof.
  intros Hn Hev [H|H]%finished_app; [done|].
  destruct H as [H|[H|H]]; destruct (Hev _ H) as [Hne|(i' & q' & Heq)]; cbn in *; congruence.
Qed.
Lemma not_pushed_app i h evs : i ∉ pushed_all h -> (forall e, e ∈ evs -> ev_id e <> i \/ is_run e) -> i ∉ pushed_all (h ++ evs).
Proof.
  intros Hn Hev. rewrite pushed_all_app, elem_of_app. intros [H|H]; [done|].
  apply elem_of_pushed_all in H as [q H]. destruct (Hev _ H) as [Hne|(i' & q' & Heq)]; cbn in *; congruence.
Qed.
Lemma call_app_inv i q k h evs : Call i q k ∈ h ++ evs -> (forall e, e ∈ evs -> ev_id e <> i \/ is_run e) -> Call i q k ∈ h.
Proof.
  intros [H|H]%elem_of_app Hev; [done|]. destruct (Hev _ H) as [Hne|(i' & q' & Heq)]; cbn in *; congruence.
Qed.

Lemma act_ok_mono nx rn h x nx' rn' evs :
  act_ok nx rn h x -> nx <= nx' -> (forall i, i ∈ rn -> i ∈ rn') ->
  (inop x -> forall e, e ∈ evs -> ev_id e <> aop x \/ is_run e) ->
  act_ok nx' rn' (h ++ evs) x.
Proof.
  intros Hok Hnx Hrn Hev. unfold act_ok, inop in *. destruct (ph x); try done; specialize (Hev I).
  - destruct Hok as (H1 & H2 & H3 & H4 & H5 & H6). repeat split; try done; [lia|by apply not_finished_app|by apply elem_of_app; left|by apply not_pushed_app].
  - destruct Hok as (H1 & H2 & H3). repeat split; [lia|by apply not_finished_app|]. rewrite pushed_all_app. apply elem_of_app. by left.
  - destruct Hok as (H1 & H2 & H3 & H4). repeat split; [lia|by apply not_finished_app| |by intros H; apply Hrn, H4].
    rewrite pushed_all_app. apply elem_of_app. by left.
  - destruct Hok as (H1 & H2 & H3 & H4). repeat split; [lia|by apply not_finished_app| |].
    + rewrite pushed_all_app. apply elem_of_app. by left.
    + intros q k Hc Hk. apply Hrn, (H4 q k); [by eapply call_app_inv|done].
Qed.

Section WithInv.
  Context (v : aview) (h : list hevent) (HI : AInv v h).

  Lemma ranq_pushed q i : i ∈ ranq h q -> i ∈ pushed h q.
  Proof. intros H. rewrite (ai_q v h HI q). apply elem_of_app. by left. Qed.
  Lemma pend_pushed q j : j ∈ v_pend v q -> Push (job_id j) q ∈ h.
  Proof. intros H. apply elem_of_pushed. rewrite (ai_q v h HI q). apply elem_of_app. right. by apply elem_of_list_fmap_1. Qed.
  (* a pending job has not run *)
  Lemma pend_not_ran q j : j ∈ v_pend v q -> job_id j ∉ v_ran v.
  Proof.
    intros Hj Hr. pose proof (ai_good v h HI) as Hg.
    assert (H1 : job_id j ∈ runs h) by (rewrite (ai_runs v h HI); by apply elem_of_rev).
    apply elem_of_runs in H1 as [q' H1].
    assert (H2 : Push (job_id j) q' ∈ h) by (apply elem_of_pushed, ranq_pushed; by apply elem_of_ranq).
    pose proof (pend_pushed q j Hj) as H3. assert (q' = q) by (by eapply hg_push_inj). subst q'.
    pose proof (hg_pushed_nodup h q Hg) as Hnd. rewrite (ai_q v h HI q) in Hnd. apply NoDup_app in Hnd as (_ & Hd & _).
    apply (Hd (job_id j)); [by apply elem_of_ranq|by apply elem_of_list_fmap_1].
  Qed.
  Lemma id_lt_next e : e ∈ h -> ev_id e < v_next v. Proof. apply (ai_ids v h HI). Qed.
  Lemma next_not_finished : ~ finished (v_next v) h.
  Proof. intros [H|[H|H]]; apply id_lt_next in H; cbn in H; lia. Qed.
  Lemma next_not_pushed : v_next v ∉ pushed_all h.
  Proof. intros [q H]%elem_of_pushed_all. apply id_lt_next in H; cbn in H; lia. Qed.

  (* the actors other than the stepping one *)
  Lemma others_ok a x b y evs nx' rn' :
    v_acts v !! a = Some x -> v_acts v !! b = Some y -> a <> b ->
    v_next v <= nx' -> (forall i, i ∈ v_ran v -> i ∈ rn') ->
    (forall e, e ∈ evs -> (inop x /\ ev_id e = aop x) \/ v_next v <= ev_id e \/ is_run e) ->
    act_ok nx' rn' (h ++ evs) y.
  Proof.
    intros Ha Hb Hne Hnx Hrn Hev. pose proof (ai_acts v h HI b y Hb) as Hy.
    eapply act_ok_mono; try done. intros Hiy e He.
    destruct (Hev e He) as [[Hx Hid]|[Hge|Hrun]]; [| |by right].
    - left. rewrite Hid. intros Heq. apply Hne. by eapply (ai_uniq v h HI a b x y).
    - left. destruct (act_ok_inop _ _ _ _ Hiy Hy) as [Hlt _]. lia.
  Qed.
End WithInv.

Lemma lookup_alter_Some {A} (l : list A) f (a b : nat) y' :
  alter f a l !! b = Some y' -> (b = a /\ exists y, l !! a = Some y /\ y' = f y) \/ (b <> a /\ l !! b = Some y').
Proof.
  destruct (decide (a = b)) as [->|Hne].
  - rewrite list_lookup_alter. destruct (l !! b) as [y|]; [|done]. cbn. intros [= <-]. left. eauto.
  - rewrite list_lookup_alter_ne by done. intros H. right. split; [congruence|done].
Qed.

(* the step lemma for the actors when a single actor changes *)
Lemma acts_step v h a x f evs nx' rn' :
  AInv v h -> v_acts v !! a = Some x ->
  v_next v <= nx' -> (forall i, i ∈ v_ran v -> i ∈ rn') ->
  (forall e, e ∈ evs -> (inop x /\ ev_id e = aop x) \/ v_next v <= ev_id e \/ is_run e) ->
  act_ok nx' rn' (h ++ evs) (f x) ->
  forall b y', alter f a (v_acts v) !! b = Some y' -> act_ok nx' rn' (h ++ evs) y'.
Proof.
  intros HI Ha Hnx Hrn Hev Hnew b y' [(-> & y & Hy & ->)|(Hne & Hb)]%lookup_alter_Some.
  - rewrite Ha in Hy. by injection Hy as <-.
  - by eapply (others_ok v h HI a x b y').
Qed.

Lemma uniq_alter A f a : uniq A -> (forall x, A !! a = Some x -> inop (f x) -> inop x /\ aop (f x) = aop x) -> uniq (alter f a A).
Proof.
  intros HU Hf b c x' y' Hb Hc Hx Hy Heq.
  apply lookup_alter_Some in Hb as [(-> & x & Ex & ->)|(Nb & Eb)]; apply lookup_alter_Some in Hc as [(-> & y & Ey & ->)|(Nc & Ec)]; try done.
  - destruct (Hf x Ex Hx) as [Hx' Hax]. eapply (HU a c x y'); try done. congruence.
  - destruct (Hf y Ey Hy) as [Hy' Hay]. eapply (HU b a x' y); try done. congruence.
  - by eapply (HU b c x' y').
Qed.

(* sync jobs stay attached when the stepping actor was not waiting, or keeps waiting *)
Lemma jobs_alter_keep A P P' f a :
  jobs_ok A P -> (forall q j, j ∈ P' q -> j ∈ P q) ->
  (forall x q, A !! a = Some x -> ph x = PWait q -> ph (f x) = ph x /\ aop (f x) = aop x) ->
  jobs_ok (alter f a A) P'.
Proof.
  intros HJ Hsub Hf q j o c Hj Hs. destruct (HJ q j o c (Hsub _ _ Hj) Hs) as (x & q' & Hx & Ho & Hp).
  destruct (decide (c = a)) as [->|Hne].
  - destruct (Hf x q' Hx Hp) as [E1 E2]. exists (f x), q'. rewrite list_lookup_alter, Hx. cbn. split; [done|]. split; congruence.
  - exists x, q'. by rewrite list_lookup_alter_ne.
Qed.
Lemma jobs_alter_nocaller A P P' f a :
  jobs_ok A P -> (forall q j, j ∈ P' q -> j ∈ P q) -> (forall q j o, j ∈ P' q -> ~ is_sjob j o a) ->
  jobs_ok (alter f a A) P'.
Proof.
  intros HJ Hsub Hno q j o c Hj Hs. destruct (HJ q j o c (Hsub _ _ Hj) Hs) as (x & q' & Hx & Ho & Hp).
  destruct (decide (c = a)) as [->|Hne]; [by destruct (Hno q j o Hj)|].
  exists x, q'. by rewrite list_lookup_alter_ne.
Qed.

(* ---------- finer lemmas about appended events ---------- *)
Definition fin_ev (e : hevent) : bool := match e with Ret _ | RetBusy _ | RetPanic _ => true | _ => false end.
Definition push_ev (e : hevent) : bool := match e with Push _ _ => true | _ => false end.
Definition call_ev (e : hevent) : bool := match e with Call _ _ _ => true | _ => false end.
Lemma not_finished_app' i h evs : ~ finished i h -> (forall e, e ∈ evs -> ev_id e = i -> fin_ev e = false) -> ~ finished i (h ++ evs).
Proof.
  intros Hn Hev [H|H]%finished_app; [done|].
  destruct H as [H|[H|H]]; specialize (Hev _ H eq_refl); done.
Qed.
Lemma not_pushed_app' i h evs : i ∉ pushed_all h -> (forall e, e ∈ evs -> ev_id e = i -> push_ev e = false) -> i ∉ pushed_all (h ++ evs).
Proof.
  intros Hn Hev. rewrite pushed_all_app, elem_of_app. intros [H|H]; [done|].
  apply elem_of_pushed_all in H as [q H]. specialize (Hev _ H eq_refl). done.
Qed.
Lemma call_app_inv' i q k h evs : Call i q k ∈ h ++ evs -> (forall e, e ∈ evs -> ev_id e = i -> call_ev e = false) -> Call i q k ∈ h.
Proof. intros [H|H]%elem_of_app Hev; [done|]. specialize (Hev _ H eq_refl). done. Qed.
Lemma pushed_all_l i h evs : i ∈ pushed_all h -> i ∈ pushed_all (h ++ evs).
Proof. intros H. rewrite pushed_all_app. apply elem_of_app. by left. Qed.
Lemma elem_of_fupd {A} q (x : list A) f q0 y : y ∈ fupd q x f q0 -> (q0 = q /\ y ∈ x) \/ (q0 <> q /\ y ∈ f q0).
Proof. unfold fupd. case_decide; [by left|by right]. Qed.

Lemma jobs_alter_keep' A P P' f a :
  jobs_ok A P -> (forall q j, j ∈ P' q -> j ∈ P q \/ forall o c, ~ is_sjob j o c) ->
  (forall x q, A !! a = Some x -> ph x = PWait q -> ph (f x) = ph x /\ aop (f x) = aop x) ->
  jobs_ok (alter f a A) P'.
Proof.
  intros HJ Hsub Hf q j o c Hj Hs. destruct (Hsub _ _ Hj) as [Hj'|Hn]; [|by destruct (Hn o c)].
  destruct (HJ q j o c Hj' Hs) as (x & q' & Hx & Ho & Hp).
  destruct (decide (c = a)) as [->|Hne].
  - destruct (Hf x q' Hx Hp) as [E1 E2]. exists (f x), q'. rewrite list_lookup_alter, Hx. cbn. split; [done|]. split; congruence.
  - exists x, q'. by rewrite list_lookup_alter_ne.
Qed.

(* running a job *)
Lemma arun_acts_inv j (A : list aactor) b y' : arun_acts j A !! b = Some y' ->
  exists y, A !! b = Some y /\ ph y' = ph y /\ aop y' = aop y /\
            ((ares y' = ares y /\ ardy y' = ardy y) \/ exists o, is_sjob j o b).
Proof.
  destruct j as [o|o c|o c]; cbn.
  - intros H. exists y'. split; [done|]. repeat split; by left.
  - intros [(-> & y & Hy & ->)|(Hne & Hb)]%lookup_alter_Some.
    + exists y. split; [done|]. repeat split. right. exists o. by left.
    + exists y'. split; [done|]. repeat split; by left.
  - intros [(-> & y & Hy & ->)|(Hne & Hb)]%lookup_alter_Some.
    + exists y. split; [done|]. repeat split. right. exists o. by right.
    + exists y'. split; [done|]. repeat split; by left.
Qed.
Lemma arun_acts_fwd j (A : list aactor) b y : A !! b = Some y -> exists y', arun_acts j A !! b = Some y' /\ ph y' = ph y /\ aop y' = aop y.
Proof.
  intros Hb. destruct j as [o|o c|o c]; cbn; [eauto| |].
  all: destruct (decide (c = b)) as [->|]; [rewrite list_lookup_alter, Hb; cbn; eauto|rewrite list_lookup_alter_ne by done; eauto].
Qed.

Lemma run_preserved v h q j js :
  AInv v h -> v_pend v q = j :: js ->
  (forall b y', arun_acts j (v_acts v) !! b = Some y' -> act_ok (v_next v) (job_id j :: v_ran v) (h ++ [Run (job_id j) q]) y') /\
  uniq (arun_acts j (v_acts v)) /\ jobs_ok (arun_acts j (v_acts v)) (fupd q js (v_pend v)) /\
  good (Run (job_id j) q) h /\ job_id j < v_next v /\
  (forall q0, pushed (h ++ [Run (job_id j) q]) q0 = ranq (h ++ [Run (job_id j) q]) q0 ++ (job_id <$> fupd q js (v_pend v) q0)).
Proof.
  intros HI Hpe. pose proof HI as [I1 I2 I3 I4 I5 I6 I7].
  assert (Hin : j ∈ v_pend v q) by (rewrite Hpe; by left).
  pose proof (pend_pushed v h HI q j Hin) as Hpush.
  pose proof (pend_not_ran v h HI q j Hin) as Hnr.
  split; [|split; [|split; [|split; [|split]]]].
  - intros b y' Hb. destruct (arun_acts_inv j _ b y' Hb) as (y & Hy & E1 & E2 & Hfl).
    pose proof (I4 b y Hy) as Hok.
    assert (Hm : act_ok (v_next v) (job_id j :: v_ran v) (h ++ [Run (job_id j) q]) y).
    { eapply act_ok_mono; [exact Hok|done|by intros; right|]. intros _ e ->%elem_of_list_singleton. right. by eexists _, _. }
    unfold act_ok in *. rewrite E1, E2. destruct (ph y) eqn:Ey; try done.
    + destruct Hfl as [[-> ->]|(o & Hs)]; [done|]. exfalso. destruct (I6 q j o b Hin Hs) as (z & q' & Hz & _ & Hpz). congruence.
    + destruct Hm as (M1 & M2 & M3 & M4). repeat split; try done. destruct Hfl as [[-> ->]|(o & Hs)]; [done|]. intros _.
      destruct (I6 q j o b Hin Hs) as (z & q' & Hz & Ho & _). rewrite Hy in Hz. injection Hz as <-. rewrite Ho. apply elem_of_cons. left.
      by destruct Hs as [-> | ->].
  - intros b c y' z' Hb Hc Hy Hz Heq.
    destruct (arun_acts_inv j _ b y' Hb) as (y & Hy0 & E1 & E2 & _). destruct (arun_acts_inv j _ c z' Hc) as (z & Hz0 & F1 & F2 & _).
    eapply (I5 b c y z); try done; [unfold inop in *; by rewrite <- E1|unfold inop in *; by rewrite <- F1|congruence].
  - intros q0 j' o c Hj' Hs.
    assert (Hj0 : j' ∈ v_pend v q0).
    { apply elem_of_fupd in Hj' as [[-> Hj']|[_ Hj']]; [|done]. rewrite Hpe. by right. }
    destruct (I6 q0 j' o c Hj0 Hs) as (z & q' & Hz & Ho & Hpz).
    destruct (arun_acts_fwd j _ c z Hz) as (z' & Hz' & G1 & G2). exists z', q'. split; [done|]. split; congruence.
  - cbn. split; [done|]. rewrite I1. by rewrite elem_of_rev.
  - apply (I3 _ Hpush).
  - intros q0. rewrite pushed_app, ranq_app. cbn. rewrite app_nil_r. unfold fupd. destruct (decide (q = q0)) as [<-|Hne].
    + rewrite decide_True by done. rewrite I2, Hpe. cbn. by rewrite <- app_assoc.
    + rewrite decide_False by done. rewrite app_nil_r. apply I2.
Qed.

Lemma elem_of_snoc {A} (l : list A) x y : y ∈ l ++ [x] -> y ∈ l \/ y = x.
Proof. intros [H|H%elem_of_list_singleton]%elem_of_app; auto. Qed.
Lemma dend_events d i q e : e ∈ Push i q :: dend_ev d i -> ev_id e = i.
Proof.
  destruct d; cbn; intros H; repeat (apply elem_of_cons in H as [->|H]; [done|]); by apply elem_of_nil in H.
Qed.
Ltac ev1 := let e := fresh "e" in intros e ->%elem_of_list_singleton.

(* ---------- every step of the abstract machine keeps the invariant ---------- *)
Theorem astep_inv v a evs w h : AInv v h -> astep v a evs w -> AInv w (h ++ evs).
Proof.
  intros HI Hst. pose proof HI as [I1 I2 I3 I4 I5 I6 I7].
  destruct Hst as [w Hv|w Hv|w x k q Ha Hp Hv|w x q d Ha Hp Hv|w x k q Ha Hp Hk Hpe Hv|w x q j Ha Hp Hj Hv|w x q js Ha Hp Hpe Hv
                  |w q j js Hpe Hv|w x q Ha Hp Hfl Hv|w x Ha Hp Hv|w x q Ha Hp Hv|w x k q Ha Hp Hv];
    (eapply AInv_veq; [exact Hv|]); clear Hv w.
  - (* stutter *) by rewrite app_nil_r.
  - (* spawn *)
    rewrite app_nil_r. split; cbn [v_acts v_pend v_ran v_next]; try done.
    + intros b y [Hb|[_ Hb]]%lookup_app_Some; [by eapply I4|]. destruct (b - _); [|done]. by injection Hb as <-.
    + intros b c y z Hb Hc Hy Hz Heq.
      apply lookup_app_Some in Hb as [Hb|[_ Hb]]; [|destruct (b - _); [|done]; by injection Hb as <-].
      apply lookup_app_Some in Hc as [Hc|[_ Hc]]; [|destruct (c - _); [|done]; by injection Hc as <-].
      by eapply (I5 b c y z).
    + intros q j o c Hj Hs. destruct (I6 q j o c Hj Hs) as (x & q' & Hx & Hr). exists x, q'. split; [by apply lookup_app_l_Some|done].
  - (* call *)
    assert (Hlt : a < length (v_acts v)) by (by eapply lookup_lt_Some).
    split; cbn [v_acts v_pend v_ran v_next].
    + rewrite runs_app. cbn. by rewrite app_nil_r.
    + intros q0. rewrite pushed_app, ranq_app. cbn. rewrite !app_nil_r. apply I2.
    + intros e [He| ->]%elem_of_snoc; [specialize (I3 e He); lia|cbn; lia].
    + intros b y' Hb. destruct (decide (a = b)) as [<-|Hne].
      * rewrite list_lookup_insert in Hb by done. injection Hb as <-. unfold act_ok; cbn. repeat split; try done; [lia| | |].
        -- apply not_finished_app'; [by eapply next_not_finished|]. by ev1.
        -- apply elem_of_app. right. by left.
        -- apply not_pushed_app'; [by eapply next_not_pushed|]. by ev1.
      * rewrite list_lookup_insert_ne in Hb by done. eapply (others_ok v h HI a x b y'); try done; [lia|]. ev1. right; left. cbn. lia.
    + intros b c y z Hb Hc Hy Hz Heq. destruct (decide (b = c)) as [|Hne]; [done|]. exfalso.
      destruct (decide (a = b)) as [<-|Hab]; [|destruct (decide (a = c)) as [<-|Hac]].
      * rewrite list_lookup_insert in Hb by done. injection Hb as <-. rewrite list_lookup_insert_ne in Hc by done.
        destruct (act_ok_inop _ _ _ _ Hz (I4 c z Hc)) as [Hl _]. cbn in Heq. lia.
      * rewrite list_lookup_insert in Hc by done. injection Hc as <-. rewrite list_lookup_insert_ne in Hb by done.
        destruct (act_ok_inop _ _ _ _ Hy (I4 b y Hb)) as [Hl _]. cbn in Heq. lia.
      * rewrite list_lookup_insert_ne in Hb, Hc by done. apply Hne. by eapply (I5 b c y z).
    + intros q0 j o c Hj Hs. destruct (I6 q0 j o c Hj Hs) as (y & q' & Hy & Ho & Hph). exists y, q'. split; [|done].
      rewrite list_lookup_insert_ne; [done|]. intros ->. rewrite Ha in Hy. injection Hy as ->. congruence.
    + apply HGood_snoc; [done|]. exact I3.
  - (* desync pushes its job *)
    pose proof (I4 a x Ha) as Hx. unfold act_ok in Hx. rewrite Hp in Hx. destruct Hx as (X1 & X2 & X3 & X4 & X5 & X6).
    assert (Hix : inop x) by (unfold inop; by rewrite Hp).
    assert (Hev : forall e, e ∈ Push (aop x) q :: dend_ev d (aop x) -> (inop x /\ ev_id e = aop x) \/ v_next v <= ev_id e \/ is_run e).
    { intros e He. left. split; [done|]. by eapply dend_events. }
    assert (Hnf : ~ finished (aop x) (h ++ [Push (aop x) q])) by (apply not_finished_app'; [done|by ev1]).
    assert (Hcall : forall q' k', Call (aop x) q' k' ∈ h ++ [Push (aop x) q] -> k' = KDesync).
    { intros q' k' Hc. apply call_app_inv' in Hc; [|by ev1]. by destruct (hg_call_inj h I7 _ _ _ _ _ X3 Hc). }
    split; cbn [v_acts v_pend v_ran v_next].
    + rewrite runs_app. destruct d; cbn; by rewrite app_nil_r.
    + intros q0. rewrite pushed_app, ranq_app. unfold fupd.
      assert (E1 : ranq (Push (aop x) q :: dend_ev d (aop x)) q0 = []) by (by destruct d).
      assert (E2 : pushed (Push (aop x) q :: dend_ev d (aop x)) q0 = if decide (q = q0) then [aop x] else []) by (destruct d; cbn; by case_decide).
      rewrite E1, E2, app_nil_r. destruct (decide (q = q0)) as [<-|Hne].
      * rewrite decide_True by done. rewrite fmap_app, I2. cbn. by rewrite app_assoc.
      * rewrite decide_False by done. rewrite app_nil_r. apply I2.
    + intros e [He|He]%elem_of_app; [by apply I3|]. by rewrite (dend_events _ _ _ _ He).
    + eapply acts_step; [exact HI|exact Ha|lia|done|exact Hev|]. unfold act_ok. destruct d; cbn [set_ph dend_ph ph aop set]; try done.
      cbn. repeat split; try done; [apply elem_of_pushed_all; exists q; apply elem_of_app; right; by left | ].
      intros q' k' Hc Hk. by destruct (Hk (Hcall _ _ Hc)).
    + apply uniq_alter; [done|]. intros y Hy _. rewrite Ha in Hy. injection Hy as <-. done.
    + eapply jobs_alter_keep'; [exact I6| |].
      * intros q0 j [[-> Hj]|[_ Hj]]%elem_of_fupd; [|by left]. apply elem_of_snoc in Hj as [Hj| ->]; [by left|].
        right. intros o c [?|?]; done.
      * intros y q' Hy Hq'. rewrite Ha in Hy. injection Hy as <-. congruence.
    + assert (Hg1 : HGood (h ++ [Push (aop x) q])).
      { apply HGood_snoc; [done|]. cbn. split; [by exists KDesync|done]. }
      destruct d; cbn [dend_ev]; [done| |].
      * change (h ++ [Push (aop x) q; Ret (aop x)]) with (h ++ [Push (aop x) q] ++ [Ret (aop x)]). rewrite app_assoc.
        apply HGood_snoc; [done|]. cbn. split; [|split; [|done]].
        -- apply elem_of_pushed_all. exists q. apply elem_of_app. right. by left.
        -- intros q' k' Hc Hk. by destruct (Hk (Hcall _ _ Hc)).
      * change (h ++ [Push (aop x) q; RetPanic (aop x)]) with (h ++ [Push (aop x) q] ++ [RetPanic (aop x)]). rewrite app_assoc.
        apply HGood_snoc; [done|]. done.
  - (* push-and-take of an immediate sync *)
    pose proof (I4 a x Ha) as Hx. unfold act_ok in Hx. rewrite Hp in Hx. destruct Hx as (X1 & X2 & X3 & X4 & X5 & X6).
    assert (Hix : inop x) by (unfold inop; by rewrite Hp).
    assert (Hev : forall e, e ∈ [Push (aop x) q] -> (inop x /\ ev_id e = aop x) \/ v_next v <= ev_id e \/ is_run e) by (ev1; by left).
    split; cbn [v_acts v_pend v_ran v_next].
    + rewrite runs_app. cbn. by rewrite app_nil_r.
    + intros q0. rewrite pushed_app, ranq_app. cbn. rewrite app_nil_r. unfold fupd. destruct (decide (q = q0)) as [<-|Hne].
      * rewrite decide_True by done. rewrite I2, Hpe. cbn. by rewrite ?app_nil_r.
      * rewrite decide_False by done. rewrite app_nil_r. apply I2.
    + intros e [He| ->]%elem_of_snoc; [by apply I3|done].
    + eapply acts_step; [exact HI|exact Ha|lia|done|exact Hev|]. unfold act_ok. cbn. repeat split; try done.
      * apply not_finished_app'; [done|by ev1].
      * apply elem_of_pushed_all. exists q. apply elem_of_app. right. by left.
    + apply uniq_alter; [done|]. intros y Hy _. rewrite Ha in Hy. injection Hy as <-. done.
    + eapply jobs_alter_keep'; [exact I6| |].
      * intros q0 j [[-> Hj]|[_ Hj]]%elem_of_fupd; [|by left]. apply elem_of_list_singleton in Hj as ->. right. intros o c [?|?]; done.
      * intros y q' Hy Hq'. rewrite Ha in Hy. injection Hy as <-. congruence.
    + apply HGood_snoc; [done|]. cbn. split; [by exists k|done].
  - (* a sync pushes its job *)
    pose proof (I4 a x Ha) as Hx. unfold act_ok in Hx. rewrite Hp in Hx. destruct Hx as (X1 & X2 & X3 & X4 & X5 & X6).
    assert (Hix : inop x) by (unfold inop; by rewrite Hp).
    assert (Hev : forall e, e ∈ [Push (aop x) q] -> (inop x /\ ev_id e = aop x) \/ v_next v <= ev_id e \/ is_run e) by (ev1; by left).
    assert (Hjid : job_id j = aop x) by (by destruct Hj as [-> | ->]).
    split; cbn [v_acts v_pend v_ran v_next].
    + rewrite runs_app. cbn. by rewrite app_nil_r.
    + intros q0. rewrite pushed_app, ranq_app. cbn. rewrite app_nil_r. unfold fupd. destruct (decide (q = q0)) as [<-|Hne].
      * rewrite decide_True by done. rewrite fmap_app, I2. cbn. by rewrite Hjid, app_assoc.
      * rewrite decide_False by done. rewrite app_nil_r. apply I2.
    + intros e [He| ->]%elem_of_snoc; [by apply I3|done].
    + eapply acts_step; [exact HI|exact Ha|lia|done|exact Hev|]. unfold act_ok. cbn. repeat split; try done.
      * apply not_finished_app'; [done|by ev1].
      * apply elem_of_pushed_all. exists q. apply elem_of_app. right. by left.
      * rewrite X5, X6. by intros [?|?].
    + apply uniq_alter; [done|]. intros y Hy _. rewrite Ha in Hy. injection Hy as <-. done.
    + intros q0 j' o c Hj' Hs. apply elem_of_fupd in Hj' as [[-> Hj']|[_ Hj']].
      * apply elem_of_snoc in Hj' as [Hj'| ->].
        -- destruct (I6 q j' o c Hj' Hs) as (y & q' & Hy & Ho & Hph). exists y, q'. split; [|done].
           rewrite list_lookup_alter_ne; [done|]. intros ->. rewrite Ha in Hy. injection Hy as ->. congruence.
        -- assert (c = a /\ o = aop x) as [-> ->] by (destruct Hj as [-> | ->], Hs as [Hs|Hs]; try discriminate; injection Hs as H1 H2; by subst).
           exists (set_ph (PWait q) x), q. by rewrite list_lookup_alter, Ha.
      * destruct (I6 q0 j' o c Hj' Hs) as (y & q' & Hy & Ho & Hph). exists y, q'. split; [|done].
        rewrite list_lookup_alter_ne; [done|]. intros ->. rewrite Ha in Hy. injection Hy as ->. congruence.
    + apply HGood_snoc; [done|]. cbn. split; [by exists KSync|done].
  - (* the immediate closure runs *)
    destruct (run_preserved v h q (JPlain (aop x)) js HI Hpe) as (R1 & R2 & R3 & R4 & R5 & R6). cbn [arun_acts job_id] in *.
    pose proof (I4 a x Ha) as Hx. unfold act_ok in Hx. rewrite Hp in Hx. destruct Hx as (X1 & X2 & X3).
    split; cbn [v_acts v_pend v_ran v_next].
    + rewrite runs_app, I1. done.
    + exact R6.
    + intros e [He| ->]%elem_of_snoc; [by apply I3|done].
    + intros b y' [(-> & y & Hy & ->)|(Hne & Hb)]%lookup_alter_Some; [|by apply (R1 b)].
      rewrite Ha in Hy. injection Hy as <-. unfold act_ok. cbn. repeat split; try done.
      * apply not_finished_app'; [done|by ev1].
      * by apply pushed_all_l.
      * intros. by left.
    + apply uniq_alter; [done|]. intros y Hy _. rewrite Ha in Hy. injection Hy as <-. split; [|done]. unfold inop. by rewrite Hp.
    + eapply jobs_alter_keep'; [exact R3|by left|]. intros y q' Hy Hq'. rewrite Ha in Hy. injection Hy as <-. congruence.
    + by apply HGood_snoc.
  - (* a queued job runs *)
    destruct (run_preserved v h q j js HI Hpe) as (R1 & R2 & R3 & R4 & R5 & R6).
    split; cbn [v_acts v_pend v_ran v_next]; try done.
    + rewrite runs_app, I1. done.
    + intros e [He| ->]%elem_of_snoc; [by apply I3|done].
    + by apply HGood_snoc.
  - (* a sync call sees its result *)
    pose proof (I4 a x Ha) as Hx. unfold act_ok in Hx. rewrite Hp in Hx. destruct Hx as (X1 & X2 & X3 & X4).
    rewrite app_nil_r. split; cbn [v_acts v_pend v_ran v_next]; try done.
    + intros b y' Hb. rewrite <- (app_nil_r h). eapply acts_step; [exact HI|exact Ha|lia|done| | |exact Hb].
      * intros e He. by apply elem_of_nil in He.
      * rewrite app_nil_r. unfold act_ok. cbn. repeat split; try done. intros _ _ _ _. by apply X4.
    + apply uniq_alter; [done|]. intros y Hy _. rewrite Ha in Hy. injection Hy as <-. split; [|done]. unfold inop. by rewrite Hp.
    + eapply jobs_alter_nocaller; [exact I6|done|]. intros q0 j o Hj Hs.
      destruct (I6 q0 j o a Hj Hs) as (y & q' & Hy & Ho & _). rewrite Ha in Hy. injection Hy as <-.
      apply (pend_not_ran v h HI q0 j Hj). assert (job_id j = o) as -> by (by destruct Hs as [-> | ->]). rewrite <- Ho. by apply X4.
  - (* the call returns *)
    pose proof (I4 a x Ha) as Hx. unfold act_ok in Hx. rewrite Hp in Hx. destruct Hx as (X1 & X2 & X3 & X4).
    assert (Hix : inop x) by (unfold inop; by rewrite Hp).
    assert (Hev : forall e, e ∈ [Ret (aop x)] -> (inop x /\ ev_id e = aop x) \/ v_next v <= ev_id e \/ is_run e) by (ev1; by left).
    split; cbn [v_acts v_pend v_ran v_next].
    + rewrite runs_app. cbn. by rewrite app_nil_r.
    + intros q0. rewrite pushed_app, ranq_app. cbn. rewrite !app_nil_r. apply I2.
    + intros e [He| ->]%elem_of_snoc; [by apply I3|done].
    + eapply acts_step; [exact HI|exact Ha|lia|done|exact Hev|]. done.
    + apply uniq_alter; [done|]. intros y Hy Hi. done.
    + eapply jobs_alter_keep'; [exact I6|by left|]. intros y q' Hy Hq'. rewrite Ha in Hy. injection Hy as <-. congruence.
    + apply HGood_snoc; [done|]. cbn. split; [done|]. split; [|done]. intros q k Hc Hk. rewrite I1, elem_of_rev. by eapply X4.
  - (* try_sync: busy *)
    pose proof (I4 a x Ha) as Hx. unfold act_ok in Hx. rewrite Hp in Hx. destruct Hx as (X1 & X2 & X3 & X4 & X5 & X6).
    assert (Hix : inop x) by (unfold inop; by rewrite Hp).
    assert (Hev : forall e, e ∈ [RetBusy (aop x)] -> (inop x /\ ev_id e = aop x) \/ v_next v <= ev_id e \/ is_run e) by (ev1; by left).
    split; cbn [v_acts v_pend v_ran v_next].
    + rewrite runs_app. cbn. by rewrite app_nil_r.
    + intros q0. rewrite pushed_app, ranq_app. cbn. rewrite !app_nil_r. apply I2.
    + intros e [He| ->]%elem_of_snoc; [by apply I3|done].
    + eapply acts_step; [exact HI|exact Ha|lia|done|exact Hev|]. done.
    + apply uniq_alter; [done|]. intros y Hy Hi. done.
    + eapply jobs_alter_keep'; [exact I6|by left|]. intros y q' Hy Hq'. rewrite Ha in Hy. injection Hy as <-. congruence.
    + apply HGood_snoc; [done|]. cbn. split; [by exists q|done].
  - (* the call panics *)
    pose proof (I4 a x Ha) as Hx. unfold act_ok in Hx. rewrite Hp in Hx. destruct Hx as (X1 & X2 & X3 & X4 & X5 & X6).
    assert (Hix : inop x) by (unfold inop; by rewrite Hp).
    assert (Hev : forall e, e ∈ [RetPanic (aop x)] -> (inop x /\ ev_id e = aop x) \/ v_next v <= ev_id e \/ is_run e) by (ev1; by left).
    split; cbn [v_acts v_pend v_ran v_next].
    + rewrite runs_app. cbn. by rewrite app_nil_r.
    + intros q0. rewrite pushed_app, ranq_app. cbn. rewrite !app_nil_r. apply I2.
    + intros e [He| ->]%elem_of_snoc; [by apply I3|done].
    + eapply acts_step; [exact HI|exact Ha|lia|done|exact Hev|]. done.
    + apply uniq_alter; [done|]. intros y Hy Hi. done.
    + eapply jobs_alter_keep'; [exact I6|by left|]. intros y q' Hy Hq'. rewrite Ha in Hy. injection Hy as <-. congruence.
    + apply HGood_snoc; [done|]. done.
Qed.
