(* L1h: the invariant of the abstract history machine, and its preservation *)
From stdpp Require Import list numbers option.
From RecordUpdate Require Import RecordUpdate.
From L1 Require Import Model.
From L1h Require Import Hist Abs HistFacts.

Definition inop (x : aactor) : Prop := match ph x with PIdle | PPool => False | _ => True end.
(* what is known about an actor in a given phase *)
Definition act_ok (nx : nat) (rn : list nat) (h : list hevent) (x : aactor) : Prop :=
  match ph x with
  | PIdle | PPool => True
  | PPre k q => aop x < nx /\ ~ finished (aop x) h /\ Call (aop x) q k ∈ h /\ aop x ∉ pushed_all h /\ ares x = false /\ ardy x = false
  | PHand q => aop x < nx /\ ~ finished (aop x) h /\ aop x ∈ pushed_all h
  | PWait q => aop x < nx /\ ~ finished (aop x) h /\ aop x ∈ pushed_all h /\ (ares x = true \/ ardy x = true -> aop x ∈ rn)
  | PPost => aop x < nx /\ ~ finished (aop x) h /\ aop x ∈ pushed_all h /\ (forall q k, Call (aop x) q k ∈ h -> k <> KDesync -> aop x ∈ rn)
  end.
Definition is_sjob (j : job) (o c : nat) : Prop := j = JSyncDrain o c \/ j = JSyncBg o c.
Definition uniq (A : list aactor) : Prop :=
  forall a b x y, A !! a = Some x -> A !! b = Some y -> inop x -> inop y -> aop x = aop y -> a = b.
(* a queued sync job belongs to the current operation of a caller that is waiting for it *)
Definition jobs_ok (A : list aactor) (P : nat -> list job) : Prop :=
  forall q j o c, j ∈ P q -> is_sjob j o c -> exists x q', A !! c = Some x /\ aop x = o /\ ph x = PWait q'.

Record AInv (v : aview) (h : list hevent) : Prop := {
  ai_runs : runs h = rev (v_ran v);
  ai_q : forall q, pushed h q = ranq h q ++ (job_id <$> v_pend v q);
  ai_ids : forall e, e ∈ h -> ev_id e < v_next v;
  ai_acts : forall a x, v_acts v !! a = Some x -> act_ok (v_next v) (v_ran v) h x;
  ai_uniq : uniq (v_acts v);
  ai_job : jobs_ok (v_acts v) (v_pend v);
  ai_good : HGood h;
}.

Lemma AInv_veq w v h : veq w v -> AInv v h -> AInv w h.
Proof.
  intros (E1 & E2 & E3 & E4) [I1 I2 I3 I4 I5 I6 I7]. split.
  - by rewrite E3.
  - intros q. by rewrite E2.
  - rewrite E4. done.
  - rewrite E1, E3, E4. done.
  - by rewrite E1.
  - intros q j o c. rewrite E1, E2. apply I6.
  - done.
Qed.

Lemma act_ok_inop nx rn h x : inop x -> act_ok nx rn h x -> aop x < nx /\ ~ finished (aop x) h.
Proof. unfold inop, act_ok. destruct (ph x); try done; intros _ H; split; apply H. Qed.

Definition is_run (e : hevent) : Prop := exists i q, e = Run i q.
Lemma not_finished_app i h evs : ~ finished i h -> (forall e, e ∈ evs -> ev_id e <> i \/ is_run e) -> ~ finished i (h ++ evs).
Proof.
  intros Hn Hev [H|H]%finished_app; [done|].
  destruct H as [H|[H|H]]; destruct (Hev _ H) as [Hne|(i' & q' & Heq)]; cbn in *; congruence.
Qed.
Lemma not_pushed_app i h evs : i ∉ pushed_all h -> (forall e, e ∈ evs -> ev_id e <> i \/ is_run e) -> i ∉ pushed_all (h ++ evs).
Proof.
  intros Hn Hev. rewrite pushed_all_app, elem_of_app. intros [H|H]; [done|].
  apply elem_of_pushed_all in H as [q H]. destruct (Hev _ H) as [Hne|(i' & q' & Heq)]; cbn in *; congruence.
Qed.
Lemma call_app_inv i q k h evs : Call i q k ∈ h ++ evs -> (forall e, e ∈ evs -> ev_id e <> i \/ is_run e) -> Call i q k ∈ h.
Proof.
  intros [H|H]%elem_of_app Hev; [done|]. destruct (Hev _ H) as [Hne|(i' & q' & Heq)]; cbn in *; congruence.
Qed.

Lemma act_ok_mono nx rn h x nx' rn' evs :
  act_ok nx rn h x -> nx <= nx' -> (forall i, i ∈ rn -> i ∈ rn') ->
  (inop x -> forall e, e ∈ evs -> ev_id e <> aop x \/ is_run e) ->
  act_ok nx' rn' (h ++ evs) x.
Proof.
  intros Hok Hnx Hrn Hev. unfold act_ok, inop in *. destruct (ph x); try done; specialize (Hev I).
  - destruct Hok as (H1 & H2 & H3 & H4 & H5 & H6). repeat split; try done; [lia|by apply not_finished_app|by apply elem_of_app; left|by apply not_pushed_app].
  - destruct Hok as (H1 & H2 & H3). repeat split; [lia|by apply not_finished_app|]. rewrite pushed_all_app. apply elem_of_app. by left.
  - destruct Hok as (H1 & H2 & H3 & H4). repeat split; [lia|by apply not_finished_app| |by intros H; apply Hrn, H4].
    rewrite pushed_all_app. apply elem_of_app. by left.
  - destruct Hok as (H1 & H2 & H3 & H4). repeat split; [lia|by apply not_finished_app| |].
    + rewrite pushed_all_app. apply elem_of_app. by left.
    + intros q k Hc Hk. apply Hrn, (H4 q k); [by eapply call_app_inv|done].
Qed.

Section WithInv.
  Context (v : aview) (h : list hevent) (HI : AInv v h).

  Lemma ranq_pushed q i : i ∈ ranq h q -> i ∈ pushed h q.
  Proof. intros H. rewrite (ai_q v h HI q). apply elem_of_app. by left. Qed.
  Lemma pend_pushed q j : j ∈ v_pend v q -> Push (job_id j) q ∈ h.
  Proof. intros H. apply elem_of_pushed. rewrite (ai_q v h HI q). apply elem_of_app. right. by apply elem_of_list_fmap_1. Qed.
  (* a pending job has not run *)
  Lemma pend_not_ran q j : j ∈ v_pend v q -> job_id j ∉ v_ran v.
  Proof.
    intros Hj Hr. pose proof (ai_good v h HI) as Hg.
    assert (H1 : job_id j ∈ runs h) by (rewrite (ai_runs v h HI); by apply elem_of_rev).
    apply elem_of_runs in H1 as [q' H1].
    assert (H2 : Push (job_id j) q' ∈ h) by (apply elem_of_pushed, ranq_pushed; by apply elem_of_ranq).
    pose proof (pend_pushed q j Hj) as H3. assert (q' = q) by (by eapply hg_push_inj). subst q'.
    pose proof (hg_pushed_nodup h q Hg) as Hnd. rewrite (ai_q v h HI q) in Hnd. apply NoDup_app in Hnd as (_ & Hd & _).
    apply (Hd (job_id j)); [by apply elem_of_ranq|by apply elem_of_list_fmap_1].
  Qed.
  Lemma id_lt_next e : e ∈ h -> ev_id e < v_next v. Proof. apply (ai_ids v h HI). Qed.
  Lemma next_not_finished : ~ finished (v_next v) h.
  Proof. intros [H|[H|H]]; apply id_lt_next in H; cbn in H; lia. Qed.
  Lemma next_not_pushed : v_next v ∉ pushed_all h.
  Proof. intros [q H]%elem_of_pushed_all. apply id_lt_next in H; cbn in H; lia. Qed.

  (* the actors other than the stepping one *)
  Lemma others_ok a x b y evs nx' rn' :
    v_acts v !! a = Some x -> v_acts v !! b = Some y -> a <> b ->
    v_next v <= nx' -> (forall i, i ∈ v_ran v -> i ∈ rn') ->
    (forall e, e ∈ evs -> (inop x /\ ev_id e = aop x) \/ v_next v <= ev_id e \/ is_run e) ->
    act_ok nx' rn' (h ++ evs) y.
  Proof.
    intros Ha Hb Hne Hnx Hrn Hev. pose proof (ai_acts v h HI b y Hb) as Hy.
    eapply act_ok_mono; try done. intros Hiy e He.
    destruct (Hev e He) as [[Hx Hid]|[Hge|Hrun]]; [| |by right].
    - left. rewrite Hid. intros Heq. apply Hne. by eapply (ai_uniq v h HI a b x y).
    - left. destruct (act_ok_inop _ _ _ _ Hiy Hy) as [Hlt _]. lia.
  Qed.
End WithInv.

Lemma lookup_alter_Some {A} (l : list A) f (a b : nat) y' :
  alter f a l !! b = Some y' -> (b = a /\ exists y, l !! a = Some y /\ y' = f y) \/ (b <> a /\ l !! b = Some y').
Proof.
  destruct (decide (a = b)) as [->|Hne].
  - rewrite list_lookup_alter. destruct (l !! b) as [y|]; [|done]. cbn. intros [= <-]. left. eauto.
  - rewrite list_lookup_alter_ne by done. intros H. right. split; [congruence|done].
Qed.

(* the step lemma for the actors when a single actor changes *)
Lemma acts_step v h a x f evs nx' rn' :
  AInv v h -> v_acts v !! a = Some x ->
  v_next v <= nx' -> (forall i, i ∈ v_ran v -> i ∈ rn') ->
  (forall e, e ∈ evs -> (inop x /\ ev_id e = aop x) \/ v_next v <= ev_id e \/ is_run e) ->
  act_ok nx' rn' (h ++ evs) (f x) ->
  forall b y', alter f a (v_acts v) !! b = Some y' -> act_ok nx' rn' (h ++ evs) y'.
Proof.
  intros HI Ha Hnx Hrn Hev Hnew b y' [(-> & y & Hy & ->)|(Hne & Hb)]%lookup_alter_Some.
  - rewrite Ha in Hy. by injection Hy as <-.
  - by eapply (others_ok v h HI a x b y').
Qed.

Lemma uniq_alter A f a : uniq A -> (forall x, A !! a = Some x -> inop (f x) -> inop x /\ aop (f x) = aop x) -> uniq (alter f a A).
Proof.
  intros HU Hf b c x' y' Hb Hc Hx Hy Heq.
  apply lookup_alter_Some in Hb as [(-> & x & Ex & ->)|(Nb & Eb)]; apply lookup_alter_Some in Hc as [(-> & y & Ey & ->)|(Nc & Ec)]; try done.
  - destruct (Hf x Ex Hx) as [Hx' Hax]. eapply (HU a c x y'); try done. congruence.
  - destruct (Hf y Ey Hy) as [Hy' Hay]. eapply (HU b a x' y); try done. congruence.
  - by eapply (HU b c x' y').
Qed.

(* sync jobs stay attached when the stepping actor was not waiting, or keeps waiting *)
Lemma jobs_alter_keep A P P' f a :
  jobs_ok A P -> (forall q j, j ∈ P' q -> j ∈ P q) ->
  (forall x q, A !! a = Some x -> ph x = PWait q -> ph (f x) = ph x /\ aop (f x) = aop x) ->
  jobs_ok (alter f a A) P'.
Proof.
  intros HJ Hsub Hf q j o c Hj Hs. destruct (HJ q j o c (Hsub _ _ Hj) Hs) as (x & q' & Hx & Ho & Hp).
  destruct (decide (c = a)) as [->|Hne].
  - destruct (Hf x q' Hx Hp) as [E1 E2]. exists (f x), q'. rewrite list_lookup_alter, Hx. cbn. split; [done|]. split; congruence.
  - exists x, q'. by rewrite list_lookup_alter_ne.
Qed.
Lemma jobs_alter_nocaller A P P' f a :
  jobs_ok A P -> (forall q j, j ∈ P' q -> j ∈ P q) -> (forall q j o, j ∈ P' q -> ~ is_sjob j o a) ->
  jobs_ok (alter f a A) P'.
Proof.
  intros HJ Hsub Hno q j o c Hj Hs. destruct (HJ q j o c (Hsub _ _ Hj) Hs) as (x & q' & Hx & Ho & Hp).
  destruct (decide (c = a)) as [->|Hne]; [by destruct (Hno q j o Hj)|].
  exists x, q'. by rewrite list_lookup_alter_ne.
Qed.
