(* C04 - a sync call returns the result of its own closure, which ran exactly once, strictly between call and return.
   Layer L1, every program / objects / pool / schedule.

   In the model the result travels through the caller's [result] / [ready] flags, which only the caller's own job sets
   (L1h/AInv.v: a queued sync job belongs to the current operation of a caller that is still waiting for it, and a
   waiting caller whose flag is set has its operation in [ran]).  Fully proved. *)
From stdpp Require Import list numbers option.
From L0 Require Import Types.
From Gen Require Import Tables.
From L1 Require Import Model Own Shape Stuck.
From L1h Require Import Hist Abs Sim HistFacts Main Examples.

(* a sync, or a try_sync that did not find the queue busy (k <> KDesync), that has returned:
   the history is  ... Call i ... Run i ... Ret i ...  and Run i occurs nowhere else *)
Theorem C04_sync_runs_own_closure_L1 :
  forall (T : tables) (F : facts), own_conditions T -> imm_conditions T ->
  forall nq mx scripts tr s i q k,
    run T F (init nq mx scripts) tr = Some s -> k <> KDesync ->
    let h := hist T F (init nq mx scripts) tr in
    Call i q k ∈ h -> Ret i ∈ h ->
    exists h1 h2 h3 h4, h = h1 ++ Call i q k :: h2 ++ Run i q :: h3 ++ Ret i :: h4 /\ i ∉ runs (h1 ++ h2 ++ h3 ++ h4).
Proof. exact sync_runs_own_closure. Qed.

(* a try_sync that returned Busy never runs, now or later, and is never queued *)
Theorem C04_busy_never_runs_L1 :
  forall (T : tables) (F : facts), own_conditions T -> imm_conditions T ->
  forall nq mx scripts tr1 tr2 s' i,
    run T F (init nq mx scripts) (tr1 ++ tr2) = Some s' ->
    RetBusy i ∈ hist T F (init nq mx scripts) tr1 ->
    i ∉ ran s' /\ i ∉ pushed_all (hist T F (init nq mx scripts) (tr1 ++ tr2)).
Proof. exact busy_never_runs_later. Qed.

(* the flag protocol behind it: a waiting sync caller whose result / ready flag is set has had its own closure run;
   a sync job that is queued (or in the hand of the queue's owner) carries the id of the current operation of its
   caller, that caller is still inside its sync call, and the job has not run yet *)
Theorem C04_result_flag_is_own_L1 :
  forall (T : tables) (F : facts), own_conditions T -> imm_conditions T ->
  forall nq mx scripts tr s,
    run T F (init nq mx scripts) tr = Some s ->
    (forall a ac q, s.(actors) !! a = Some ac -> aph ac.(stack) = PWait q ->
                    (ac.(result) = true \/ ac.(ready) = true) -> ac.(opctr) ∈ ran s) /\
    (forall q j o c, j ∈ pend s q -> (j = JSyncDrain o c \/ j = JSyncBg o c) ->
                     exists ac q', s.(actors) !! c = Some ac /\ ac.(opctr) = o /\ aph ac.(stack) = PWait q' /\ o ∉ ran s).
Proof. exact result_flag_is_own. Qed.

Print Assumptions C04_result_flag_is_own_L1.
Print Assumptions C04_sync_runs_own_closure_L1.
Print Assumptions C04_busy_never_runs_L1.

(* non-vacuity: in run A the syncs 4 and 5 and the successful try_sync 3 return; the try_sync 2 is busy *)
Example C04_hypotheses_hold :
  let h := hist gen_tables gen_facts exA_init exA_trace in
  (exists s, run gen_tables gen_facts exA_init exA_trace = Some s) /\
  Call 4 0 KSync ∈ h /\ Ret 4 ∈ h /\ Call 5 0 KSync ∈ h /\ Ret 5 ∈ h /\ Call 3 1 KTry ∈ h /\ Ret 3 ∈ h /\ RetBusy 2 ∈ h.
Proof.
  cbv zeta. rewrite exA_hist_ok. split; [destruct exA_run_ok as (s & H & _); exists s; exact H|].
  repeat split; apply elem_of_b_true; vm_compute; reflexivity.
Qed.
