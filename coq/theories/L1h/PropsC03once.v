(* C03 (exactly once) - every scheduled closure runs exactly once.  Layer L1, every program / objects / pool / schedule.

   Fully proved:
   - in every reachable state no closure has run twice, no operation was pushed twice, and everything that ran had
     been pushed before (own_conditions, imm_conditions);
   - in every reachable state in which no thread can move (with the hypotheses of L_quiet: core_tables, blocking
     dormant scan, existing queue ids in the scripts, at least one pool thread) every pushed operation has run. *)
From stdpp Require Import list numbers option.
From L0 Require Import Types.
From Gen Require Import Tables.
From L1 Require Import Model Own Shape Stuck Live Wait Help Final.
From L1h Require Import Hist Abs Sim HistFacts Main Examples.

Theorem C03_exactly_once_L1 :
  forall (T : tables) (F : facts), own_conditions T -> imm_conditions T ->
  forall nq mx scripts tr s,
    run T F (init nq mx scripts) tr = Some s ->
    let h := hist T F (init nq mx scripts) tr in
    NoDup (ran s) /\ NoDup (pushed_all h) /\ (forall i, i ∈ ran s -> exists q, before (Push i q) (Run i q) h).
Proof. exact exactly_once. Qed.

Theorem C03_nothing_lost_L1 :
  forall (T : tables) (F : facts), own_conditions T -> imm_conditions T -> core_tables T -> F.(f_dormant_blocks) = true ->
  forall nq mx scripts tr s,
    wf_scripts nq scripts -> 1 <= mx ->
    run T F (init nq mx scripts) tr = Some s -> terminal T F s ->
    let h := hist T F (init nq mx scripts) tr in
    (forall q, pushed h q = ranq h q) /\ (forall i q, Push i q ∈ h -> Run i q ∈ h /\ i ∈ ran s) /\ NoDup (ran s).
Proof. intros T F H1 H2 H3 H4 nq mx scripts tr s H5 H6. exact (nothing_lost T F H1 H2 nq mx scripts H3 H4 H5 H6 tr s). Qed.

Print Assumptions C03_exactly_once_L1.
Print Assumptions C03_nothing_lost_L1.

(* non-vacuity: run A ends in a state where no thread can move; five operations were pushed and five ran *)
Example C03_hypotheses_hold :
  exists s, run gen_tables gen_facts exA_init exA_trace = Some s /\ terminal gen_tables gen_facts s /\
            wf_scripts 2 exA_scripts /\ ran s = [5; 4; 1; 0; 3] /\
            pushed_all (hist gen_tables gen_facts exA_init exA_trace) = [0; 1; 3; 4; 5].
Proof.
  destruct exA_run_ok as (s & Hr & Hran & Hterm & _). exists s. split; [done|]. split; [by apply terminal_b_sound|].
  split; [repeat constructor|]. split; [done|]. rewrite exA_hist_ok. reflexivity.
Qed.
