(* L1h: the invariants hold in every reachable state of the product (L1 state, history) *)
From stdpp Require Import list numbers option.
From RecordUpdate Require Import RecordUpdate.
From L1 Require Import Model Own Shape Stuck Live Wait Help Final.
From L1h Require Import WeakWF Hist Abs SimBase Sim HistFacts AInv.

Record HInv (sh : state * list hevent) : Prop := {
  hi_shape : Shape sh.1; hi_inv : Inv sh.1; hi_wf : WF' sh.1; hi_abs : AInv (view sh.1) sh.2;
}.

Lemma pend_init nq mx scripts q : pend (init nq mx scripts) q = [].
Proof.
  unfold pend, oj, init; cbn. destruct (replicate nq _ !! q) as [qq|] eqn:E; [|done].
  apply lookup_replicate in E as [-> _]. done.
Qed.
Lemma acts_init nq mx scripts a x : acts (init nq mx scripts) !! a = Some x -> ph x = PIdle.
Proof.
  unfold acts, init; cbn. rewrite list_lookup_fmap, list_lookup_fmap. destruct (scripts !! a); [|done]. cbn. by intros [= <-].
Qed.

Lemma init_ainv nq mx scripts : AInv (view (init nq mx scripts)) [].
Proof.
  split; cbn [view v_acts v_pend v_ran v_next].
  - done.
  - intros q. by rewrite pend_init.
  - intros e He. by apply elem_of_nil in He.
  - intros a x Ha. unfold act_ok. by rewrite (acts_init _ _ _ _ _ Ha).
  - intros a b x y Ha Hb Hx. unfold inop in Hx. by rewrite (acts_init _ _ _ _ _ Ha) in Hx.
  - intros q j o c Hj. rewrite pend_init in Hj. by apply elem_of_nil in Hj.
  - apply HGood_nil.
Qed.

Section Reach.
  Context (T : tables) (F : facts) (HT : own_conditions T) (HI : imm_conditions T).

  Lemma steph_inv sh a sh' : HInv sh -> steph T F sh a = Some sh' -> HInv sh'.
  Proof.
    intros [H1 H2 H3 H4] Hs. unfold steph in Hs. destruct (step T F sh.1 a) as [s'|] eqn:E; [|done]. cbn in Hs. injection Hs as <-.
    split; cbn [fst snd].
    - by eapply step_shape.
    - by eapply step_inv.
    - by eapply step_wf'.
    - unfold obs. rewrite E. eapply astep_inv; [exact H4|]. by eapply step_sim.
  Qed.

  Lemma init_hinv nq mx scripts : HInv (init nq mx scripts, []).
  Proof. split; cbn [fst snd]; [apply init_shape|apply init_inv|apply init_wf'|apply init_ainv]. Qed.

  Lemma runh_none tr : foldl (fun o a => x ← o; steph T F x a) None tr = None.
  Proof. induction tr; cbn; done. Qed.

  Lemma runh_inv sh tr sh' : HInv sh -> runh T F sh tr = Some sh' -> HInv sh'.
  Proof.
    unfold runh. revert sh. induction tr as [|a tr IH]; intros sh H0; cbn.
    - by intros [= <-].
    - destruct (steph T F sh a) as [sh1|] eqn:E; cbn; [|by rewrite runh_none]. apply IH. by eapply steph_inv.
  Qed.

  (* the first component of the product is the unmodified model *)
  Lemma runh_fst sh tr : fst <$> runh T F sh tr = run T F sh.1 tr.
  Proof.
    unfold runh, run. revert sh. induction tr as [|a tr IH]; intros sh; cbn; [done|].
    unfold steph at 2. destruct (step T F sh.1 a) as [s'|] eqn:E; cbn.
    - rewrite IH. done.
    - rewrite runh_none, run_none. done.
  Qed.
  Lemma run_hist s tr s' : run T F s tr = Some s' -> runh T F (s, []) tr = Some (s', hist T F s tr).
  Proof.
    intros Hr. pose proof (runh_fst (s, []) tr) as Hf. cbn in Hf. rewrite Hr in Hf. unfold hist.
    destruct (runh T F (s, []) tr) as [[s1 h1]|]; [|done]. cbn in Hf. by injection Hf as ->.
  Qed.

  Theorem reachable_hinv nq mx scripts tr s :
    run T F (init nq mx scripts) tr = Some s -> HInv (s, hist T F (init nq mx scripts) tr).
  Proof. intros Hr. eapply runh_inv; [apply init_hinv|]. by apply run_hist. Qed.

  (* histories grow with the run *)
  Lemma runh_app sh tr1 tr2 : runh T F sh (tr1 ++ tr2) = sh1 ← runh T F sh tr1; runh T F sh1 tr2.
  Proof.
    unfold runh. rewrite foldl_app. destruct (foldl _ (Some sh) tr1) as [sh1|]; cbn; [done|]. by rewrite runh_none.
  Qed.
  Lemma runh_hist_prefix sh tr sh' : runh T F sh tr = Some sh' -> exists h2, sh'.2 = sh.2 ++ h2.
  Proof.
    unfold runh. revert sh. induction tr as [|a tr IH]; intros sh; cbn.
    - intros [= <-]. exists []. by rewrite app_nil_r.
    - destruct (steph T F sh a) as [sh1|] eqn:E; cbn; [|by rewrite runh_none]. intros Hr. destruct (IH _ Hr) as [h2 ->].
      unfold steph in E. destruct (step T F sh.1 a); [|done]. cbn in E. injection E as <-. cbn. eexists. by rewrite <- app_assoc.
  Qed.
  Theorem hist_prefix s tr1 tr2 s' : run T F s (tr1 ++ tr2) = Some s' -> exists h2, hist T F s (tr1 ++ tr2) = hist T F s tr1 ++ h2.
  Proof.
    intros Hr. apply run_hist in Hr. unfold hist at 1. rewrite Hr. rewrite runh_app in Hr.
    destruct (runh T F (s, []) tr1) as [sh1|] eqn:E1; [|done]. cbn in Hr. destruct (runh_hist_prefix _ _ _ Hr) as [h2 H2]. cbn in H2.
    exists h2. unfold hist. rewrite E1. by destruct sh1.
  Qed.
End Reach.
