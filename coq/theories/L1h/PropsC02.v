(* C02 - call order is execution order.  Layer L1 (desync / sync / try_sync; queue run by a pool thread, by a draining sync
   caller or by a stealing waiter), for every program, number of objects, pool maximum and schedule.

   The history [hist T F s0 tr] of a run is computed by the observer of L1h/Hist.v from the unmodified model:
   Call i q k (the API call starts and gets the global id i), Push i q (its job is appended to q's queue; an immediate
   sync: push-and-take), Run i q (its closure runs, atomically), Ret i (the call returns to its script).
   [before e1 e2 h]: e1 occurs in h, and e2 occurs later.  [rev (ran s)] is the model's own record of closures run.

   Fully proved.  Table conditions: own_conditions (L1/Own.v) and imm_conditions (L1h/Sim.v). *)
From stdpp Require Import list numbers option.
From L0 Require Import Types.
From Gen Require Import Tables.
From L1 Require Import Model Own Shape Stuck.
From L1h Require Import Hist Abs Sim HistFacts Main Examples.

(* If operation A on object q returned before operation B on q was called, and B has run,
   then A has run, and ran before B - whatever kinds A and B are and whoever ran the queue. *)
Theorem C02_call_order_is_run_order_L1 :
  forall (T : tables) (F : facts), own_conditions T -> imm_conditions T ->
  forall nq mx scripts tr s A B q ka kb,
    run T F (init nq mx scripts) tr = Some s ->
    let h := hist T F (init nq mx scripts) tr in
    Call A q ka ∈ h -> before (Ret A) (Call B q kb) h ->
    forall qb, Run B qb ∈ h -> qb = q /\ before (Run A q) (Run B q) h.
Proof. exact call_order_is_run_order. Qed.

(* the same on the model's ghost list [ran] *)
Theorem C02_call_order_is_run_order_ran_L1 :
  forall (T : tables) (F : facts), own_conditions T -> imm_conditions T ->
  forall nq mx scripts tr s A B q ka kb,
    run T F (init nq mx scripts) tr = Some s ->
    let h := hist T F (init nq mx scripts) tr in
    Call A q ka ∈ h -> before (Ret A) (Call B q kb) h ->
    B ∈ ran s -> exists l1 l2 l3, rev (ran s) = l1 ++ A :: l2 ++ B :: l3.
Proof. exact call_order_is_run_order_ran. Qed.

(* the queue law (INV-B / INV-C): per object, the push sequence is the run sequence, followed by the job the current
   owner holds in its hand (FROrun / FDRrun / FSIrun), followed by the stored jobs; and the history agrees with [ran] *)
Theorem C02_queue_law_L1 :
  forall (T : tables) (F : facts), own_conditions T -> imm_conditions T ->
  forall nq mx scripts tr s q,
    run T F (init nq mx scripts) tr = Some s ->
    let h := hist T F (init nq mx scripts) tr in
    pushed h q = ranq h q ++ (job_id <$> pend s q) /\ rev (ran s) = runs h.
Proof. exact queue_law_ran. Qed.

Print Assumptions C02_call_order_is_run_order_L1.
Print Assumptions C02_call_order_is_run_order_ran_L1.
Print Assumptions C02_queue_law_L1.

(* non-vacuity: in run A (three callers, generated tables) the desync 1 of caller 1 and the desync 0 of caller 0 return
   before caller 0 calls its sync 5; all of them run; the theorem orders them *)
Example C02_hypotheses_hold :
  let h := hist gen_tables gen_facts exA_init exA_trace in
  (exists s, run gen_tables gen_facts exA_init exA_trace = Some s) /\
  Call 1 0 KDesync ∈ h /\ before (Ret 1) (Call 5 0 KSync) h /\
  Call 0 0 KDesync ∈ h /\ before (Ret 0) (Call 5 0 KSync) h /\ Run 5 0 ∈ h.
Proof.
  cbv zeta. rewrite exA_hist_ok. split; [destruct exA_run_ok as (s & H & _); exists s; exact H|].
  repeat split; first [apply elem_of_b_true|apply before_b_true]; vm_compute; reflexivity.
Qed.
