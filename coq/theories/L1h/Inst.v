(* L1h: the tables generated from the current source meet every table condition used by the order / exactly-once theorems *)
From stdpp Require Import list numbers option.
From L0 Require Import Types.
From Gen Require Import Tables.
From L1 Require Import Model Own Shape Stuck Live Wait Help Final.
From L1h Require Import Hist Abs Sim HistFacts Main.
From L1h Require Import PropsC02 PropsC03once PropsC04 PropsC05.

Lemma clh_own : own_conditions gen_tables.
Proof.
  split; cbn.
  - intros st e st' act H. destruct st, e; inversion H; subst; cbn; auto; split; congruence.
  - intros st e st' act H. destruct st, e; inversion H; subst; cbn; auto; split; congruence.
  - intros st st' act H. destruct st; inversion H; subst; split; congruence.
  - intros st ne st' p H. destruct st, ne; inversion H; subst; split; congruence.
  - intros st st' H. destruct st; inversion H; subst; split; congruence.
  - intros st st' H. destruct st; inversion H; subst; split; congruence.
  - intros e st' d H. destruct e; inversion H; subst; cbn; congruence.
Qed.
(* sync / try_sync choose Immediate only after seeing an empty queue *)
Lemma clh_imm : imm_conditions gen_tables.
Proof. split; cbn; intros st e st' H; destruct st, e; inversion H; done. Qed.
Lemma clh_core : core_tables gen_tables.
Proof. split; try done; by intros []. Qed.
Lemma clh_dormant_blocks : gen_facts.(f_dormant_blocks) = true. Proof. reflexivity. Qed.
(* structural facts the observer / model rely on, as read from the source *)
Lemma clh_desync_push_back : fact_desync_push_back = true. Proof. reflexivity. Qed.
Lemma clh_sync_drain_push_back : fact_sync_drain_push_back = true. Proof. reflexivity. Qed.
Lemma clh_sync_bg_push_back : fact_sync_bg_push_back = true. Proof. reflexivity. Qed.
Lemma clh_dequeue_pops_front : fact_dequeue_pops_front = true. Proof. reflexivity. Qed.
Lemma clh_drain_requeues_via_requeue : fact_drain_requeues_via_requeue = true. Proof. reflexivity. Qed.
Lemma clh_drop_is_sync_free : fact_drop_is_sync_free = true. Proof. reflexivity. Qed.
(* ... and does nothing else: no early return, no other path that frees the value (the model's drop is exactly one OSync) *)
Lemma clh_drop_only_syncs : fact_drop_only_syncs = true. Proof. reflexivity. Qed.

Theorem C02_now : forall nq mx scripts tr s A B q ka kb,
    run gen_tables gen_facts (init nq mx scripts) tr = Some s ->
    let h := hist gen_tables gen_facts (init nq mx scripts) tr in
    Call A q ka ∈ h -> before (Ret A) (Call B q kb) h ->
    forall qb, Run B qb ∈ h -> qb = q /\ before (Run A q) (Run B q) h.
Proof. exact (C02_call_order_is_run_order_L1 gen_tables gen_facts clh_own clh_imm). Qed.
Theorem C02_ran_now : forall nq mx scripts tr s A B q ka kb,
    run gen_tables gen_facts (init nq mx scripts) tr = Some s ->
    let h := hist gen_tables gen_facts (init nq mx scripts) tr in
    Call A q ka ∈ h -> before (Ret A) (Call B q kb) h ->
    B ∈ ran s -> exists l1 l2 l3, rev (ran s) = l1 ++ A :: l2 ++ B :: l3.
Proof. exact (C02_call_order_is_run_order_ran_L1 gen_tables gen_facts clh_own clh_imm). Qed.
Theorem C02_queue_law_now : forall nq mx scripts tr s q,
    run gen_tables gen_facts (init nq mx scripts) tr = Some s ->
    let h := hist gen_tables gen_facts (init nq mx scripts) tr in
    pushed h q = ranq h q ++ (job_id <$> pend s q) /\ rev (ran s) = runs h.
Proof. exact (C02_queue_law_L1 gen_tables gen_facts clh_own clh_imm). Qed.
Theorem C03_once_now : forall nq mx scripts tr s,
    run gen_tables gen_facts (init nq mx scripts) tr = Some s ->
    let h := hist gen_tables gen_facts (init nq mx scripts) tr in
    NoDup (ran s) /\ NoDup (pushed_all h) /\ (forall i, i ∈ ran s -> exists q, before (Push i q) (Run i q) h).
Proof. exact (C03_exactly_once_L1 gen_tables gen_facts clh_own clh_imm). Qed.
Theorem C03_nothing_lost_now : forall nq mx scripts tr s,
    wf_scripts nq scripts -> 1 <= mx ->
    run gen_tables gen_facts (init nq mx scripts) tr = Some s -> terminal gen_tables gen_facts s ->
    let h := hist gen_tables gen_facts (init nq mx scripts) tr in
    (forall q, pushed h q = ranq h q) /\ (forall i q, Push i q ∈ h -> Run i q ∈ h /\ i ∈ ran s) /\ NoDup (ran s).
Proof. exact (C03_nothing_lost_L1 gen_tables gen_facts clh_own clh_imm clh_core clh_dormant_blocks). Qed.
Theorem C04_sync_now : forall nq mx scripts tr s i q k,
    run gen_tables gen_facts (init nq mx scripts) tr = Some s -> k <> KDesync ->
    let h := hist gen_tables gen_facts (init nq mx scripts) tr in
    Call i q k ∈ h -> Ret i ∈ h ->
    exists h1 h2 h3 h4, h = h1 ++ Call i q k :: h2 ++ Run i q :: h3 ++ Ret i :: h4 /\ i ∉ runs (h1 ++ h2 ++ h3 ++ h4).
Proof. exact (C04_sync_runs_own_closure_L1 gen_tables gen_facts clh_own clh_imm). Qed.
Theorem C04_result_flag_now : forall nq mx scripts tr s,
    run gen_tables gen_facts (init nq mx scripts) tr = Some s ->
    (forall a ac q, s.(actors) !! a = Some ac -> aph ac.(stack) = PWait q ->
                    (ac.(result) = true \/ ac.(ready) = true) -> ac.(opctr) ∈ ran s) /\
    (forall q j o c, j ∈ pend s q -> (j = JSyncDrain o c \/ j = JSyncBg o c) ->
                     exists ac q', s.(actors) !! c = Some ac /\ ac.(opctr) = o /\ aph ac.(stack) = PWait q' /\ o ∉ ran s).
Proof. exact (C04_result_flag_is_own_L1 gen_tables gen_facts clh_own clh_imm). Qed.
Theorem C04_busy_now : forall nq mx scripts tr1 tr2 s' i,
    run gen_tables gen_facts (init nq mx scripts) (tr1 ++ tr2) = Some s' ->
    RetBusy i ∈ hist gen_tables gen_facts (init nq mx scripts) tr1 ->
    i ∉ ran s' /\ i ∉ pushed_all (hist gen_tables gen_facts (init nq mx scripts) (tr1 ++ tr2)).
Proof. exact (C04_busy_never_runs_L1 gen_tables gen_facts clh_own clh_imm). Qed.
Theorem C05_now : forall nq mx scripts tr s D q h1 h2,
    run gen_tables gen_facts (init nq mx scripts) tr = Some s ->
    let h := hist gen_tables gen_facts (init nq mx scripts) tr in
    h = h1 ++ Call D q KSync :: h2 ->
    (forall B k, B <> D -> Call B q k ∈ h -> finished B h1) ->
    forall h3 h4, h = h3 ++ Run D q :: h4 ->
      (forall B, B <> D -> Push B q ∈ h -> Run B q ∈ h3) /\ (forall B, Run B q ∉ h4).
Proof. exact (C05_drop_runs_last_L1 gen_tables gen_facts clh_own clh_imm). Qed.

Theorem C05_after_returned_now : forall nq mx scripts tr s A D q ka,
    run gen_tables gen_facts (init nq mx scripts) tr = Some s ->
    let h := hist gen_tables gen_facts (init nq mx scripts) tr in
    Call A q ka ∈ h -> before (Ret A) (Call D q KSync) h ->
    forall h3 h4, h = h3 ++ Run D q :: h4 -> Run A q ∈ h3.
Proof. exact (C05_drop_after_returned_L1 gen_tables gen_facts clh_own clh_imm). Qed.

Print Assumptions C02_now.
Print Assumptions C02_ran_now.
Print Assumptions C02_queue_law_now.
Print Assumptions C03_once_now.
Print Assumptions C03_nothing_lost_now.
Print Assumptions C04_sync_now.
Print Assumptions C04_busy_now.
Print Assumptions C05_now.
Print Assumptions C04_result_flag_now.
Print Assumptions C05_after_returned_now.
