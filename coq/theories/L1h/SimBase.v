(* L1h: how the basic state updates of L1 act on the abstraction (view) *)
From stdpp Require Import list numbers option.
From RecordUpdate Require Import RecordUpdate.
From L1 Require Import Model Own Shape Stuck.
From L1h Require Import Hist Abs.

(* ---------- waking a waiter changes neither its phase nor its hand ---------- *)
Lemma aph_wake q r : aph (FSBwoken q :: r) = aph (FSBwait q :: r).
Proof.
  destruct r as [|g r]; [done|]. destruct r as [|h r]; [by destruct g|]. destruct r as [|i r]; [by destruct h|]. done.
Qed.
Lemma handl_wake q' o q r : handl q' o (FSBwoken q :: r) = handl q' o (FSBwait q :: r).
Proof. done. Qed.

(* ---------- "the actors look the same": phases, ids, flags and hands ---------- *)
Definition asame (X s : state) : Prop := acts X = acts s /\ forall b q, hv X b q = hv s b q.
Lemma asame_refl s : asame s s. Proof. done. Qed.
Lemma asame_len X s : asame X s -> length X.(actors) = length s.(actors).
Proof. intros [H _]. apply (f_equal length) in H. unfold acts in H. by rewrite !fmap_length in H. Qed.
Lemma asame_lookup X s a ac : asame X s -> s.(actors) !! a = Some ac ->
  exists ac', X.(actors) !! a = Some ac' /\ aact ac' = aact ac /\ forall q, handl q ac'.(opctr) ac'.(stack) = handl q ac.(opctr) ac.(stack).
Proof.
  intros [H1 H2] Ea. assert (H3 : acts X !! a = Some (aact ac)) by (rewrite H1; unfold acts; by rewrite list_lookup_fmap, Ea).
  unfold acts in H3. rewrite list_lookup_fmap in H3. destruct (actors X !! a) as [ac'|] eqn:E; [|done]. assert (H4 : aact ac' = aact ac) by (cbn in H3; congruence).
  exists ac'. split; [done|]. split; [done|]. intros q. specialize (H2 a q). unfold hv in H2. rewrite E, Ea in H2. cbn in H2. by injection H2.
Qed.

Lemma acts_upda s a f : (forall x, aact (f x) = aact x) -> acts (upda s a f) = acts s.
Proof.
  intros Hf. unfold acts, upda; cbn. apply list_eq. intros i. rewrite !list_lookup_fmap.
  destruct (decide (a = i)) as [->|]; [rewrite list_lookup_alter|by rewrite list_lookup_alter_ne].
  destruct (actors s !! i); cbn; [by rewrite Hf|done].
Qed.
Lemma hv_upda s a f b q : (forall x, (f x).(stack) = x.(stack) /\ (f x).(opctr) = x.(opctr)) -> hv (upda s a f) b q = hv s b q.
Proof.
  intros Hf. unfold hv, upda; cbn. destruct (decide (a = b)) as [->|]; [rewrite list_lookup_alter|by rewrite list_lookup_alter_ne].
  destruct (actors s !! b) as [x|]; cbn; [|done]. destruct (Hf x) as [-> ->]. done.
Qed.
Lemma asame_upda X s a f :
  (forall x, (f x).(stack) = x.(stack) /\ (f x).(opctr) = x.(opctr) /\ (f x).(result) = x.(result) /\ (f x).(ready) = x.(ready)) ->
  asame X s -> asame (upda X a f) s.
Proof.
  intros Hf [H1 H2]. split.
  - rewrite acts_upda; [done|]. intros x. destruct (Hf x) as (E1 & E2 & E3 & E4). unfold aact. by rewrite E1, E2, E3, E4.
  - intros b q. rewrite hv_upda; [done|]. intros x. destruct (Hf x) as (E1 & E2 & _). done.
Qed.
Lemma asame_wake X s w aw q rest :
  X.(actors) !! w = Some aw -> aw.(stack) = FSBwait q :: rest -> asame X s -> asame (setstack X w (FSBwoken q :: rest)) s.
Proof.
  intros Ew Es [H1 H2]. split.
  - rewrite <- H1. unfold acts, setstack, upda; cbn. apply list_eq. intros i. rewrite !list_lookup_fmap.
    destruct (decide (w = i)) as [<-|]; [rewrite list_lookup_alter, Ew|by rewrite list_lookup_alter_ne]. cbn.
    unfold aact; cbn -[aph]. by rewrite Es, aph_wake.
  - intros b q'. rewrite <- H2. unfold hv, setstack, upda; cbn.
    destruct (decide (w = b)) as [<-|]; [rewrite list_lookup_alter, Ew|by rewrite list_lookup_alter_ne]. cbn. by rewrite Es.
Qed.
Lemma asame_notify F X s w : asame X s -> asame (notify F X w) s.
Proof.
  intros H. unfold notify.
  set (s1 := if f_sticky_notify F then upda X w (fun x => x <| kicked := true |>) else X).
  assert (H1 : asame s1 s) by (subst s1; destruct (f_sticky_notify F); [by apply asame_upda|done]).
  destruct (actors s1 !! w) as [aw|] eqn:Ew; [|done].
  destruct (stack aw) as [|[] rest] eqn:Es; try done.
  by eapply asame_wake.
Qed.
Lemma asame_foldl_notify F ws X s : asame X s -> asame (foldl (notify F) X ws) s.
Proof. revert X; induction ws as [|w ws IH]; intros X H; cbn; [done|]. apply IH. by apply asame_notify. Qed.

Lemma notify_fields F s w : (notify F s w).(queues) = s.(queues) /\ (notify F s w).(ran) = s.(ran) /\ (notify F s w).(nextop) = s.(nextop).
Proof. destruct (notify_frame F s w) as (A & ->). done. Qed.
Lemma foldl_notify_fields F ws s :
  (foldl (notify F) s ws).(queues) = s.(queues) /\ (foldl (notify F) s ws).(ran) = s.(ran) /\ (foldl (notify F) s ws).(nextop) = s.(nextop).
Proof. destruct (foldl_notify_frame F ws s) as (A & ->). done. Qed.

(* ---------- queues ---------- *)
Lemma oj_queues X Y q : X.(queues) = Y.(queues) -> oj X q = oj Y q.
Proof. unfold oj. by intros ->. Qed.
Lemma oj_updq s q f q' :
  oj (updq s q f) q' = if decide (q = q') then (fun qq => ((f qq).(owner), (f qq).(jobs))) <$> s.(queues) !! q' else oj s q'.
Proof. unfold oj. rewrite queues_updq. case_decide; [|done]. by destruct (queues s !! q'). Qed.
Lemma oj_updq_same s q f q' : (forall x, (f x).(owner) = x.(owner) /\ (f x).(jobs) = x.(jobs)) -> oj (updq s q f) q' = oj s q'.
Proof. intros Hf. rewrite oj_updq. case_decide; [|done]. unfold oj. destruct (queues s !! q') as [x|]; [|done]. cbn. by destruct (Hf x) as [-> ->]. Qed.

Lemma oj_upda X a f q : oj (upda X a f) q = oj X q. Proof. done. Qed.
Lemma oj_updt X t f q : oj (updt X t f) q = oj X q. Proof. done. Qed.
Lemma oj_setstack X a st q : oj (setstack X a st) q = oj X q. Proof. done. Qed.
Lemma oj_foldl_notify F ws X q : oj (foldl (notify F) X ws) q = oj X q.
Proof. apply oj_queues. apply foldl_notify_fields. Qed.
Lemma oj_run_job F X j q : oj (run_job F X j) q = oj X q.
Proof. apply oj_queues. destruct (run_job_frame F X j) as (A & R & ->). done. Qed.


(* ---------- the view after the stepping actor replaced its stack ---------- *)
Lemma acts_setstack X a st : acts (setstack X a st) = alter (set_ph (aph st)) a (acts X).
Proof. unfold acts, setstack, upda; cbn. apply list_alter_fmap. apply Forall_forall. intros x _. done. Qed.
Lemma hv_setstack X a st b q :
  hv (setstack X a st) b q = if decide (a = b) then (fun ab => handl q ab.(opctr) st) <$> X.(actors) !! b else hv X b q.
Proof.
  unfold hv, setstack, upda; cbn. case_decide; subst; [rewrite list_lookup_alter|by rewrite list_lookup_alter_ne].
  by destruct (actors X !! b).
Qed.
Lemma at_top_setstack X s a ac st : asame X s -> s.(actors) !! a = Some ac ->
  at_top (setstack X a st) a = match st with FTop _ :: _ => true | _ => false end.
Proof.
  intros H Ea. destruct (asame_lookup X s a ac H Ea) as (ac' & E & _). unfold at_top, setstack, upda; cbn.
  rewrite list_lookup_alter, E. done.
Qed.

Lemma alter_set_ph_same (A : list aactor) (a : nat) x p : A !! a = Some x -> ph x = p -> alter (set_ph p) a A = A.
Proof.
  intros Ha Hp. apply list_eq. intros i. destruct (decide (a = i)) as [<-|]; [|by rewrite list_lookup_alter_ne].
  rewrite list_lookup_alter, Ha. cbn. destruct x; cbn in *. by subst.
Qed.
Lemma acts_lookup s a ac : s.(actors) !! a = Some ac -> acts s !! a = Some (aact ac).
Proof. intros E. unfold acts. by rewrite list_lookup_fmap, E. Qed.

(* pend only depends on oj and hv *)
Lemma pend_view s' s q : oj s' q = oj s q -> (forall b, hv s' b q = hv s b q) -> pend s' q = pend s q.
Proof. intros H1 H2. unfold pend. rewrite H1. destruct (oj s q) as [[[b|] js]|]; [|done|done]. by rewrite H2. Qed.

(* the stepping actor's new stack has the same phase and the same hands: nothing visible happened *)
Lemma sim_stutter s a ac X newst :
  s.(actors) !! a = Some ac -> asame X s -> (forall q, oj X q = oj s q) -> X.(ran) = s.(ran) -> X.(nextop) = s.(nextop) ->
  aph newst = aph ac.(stack) -> (forall q, handl q ac.(opctr) newst = handl q ac.(opctr) ac.(stack)) ->
  veq (view (setstack X a newst)) (view s).
Proof.
  intros Ea HA Hoj Hran Hnext Hph Hhand. destruct (asame_lookup X s a ac HA Ea) as (ac' & E' & Eact & Eh).
  destruct HA as [HA1 HA2].
  split; [|split; [|split]]; cbn [view v_acts v_pend v_ran v_next].
  - rewrite acts_setstack, HA1. eapply alter_set_ph_same; [by apply acts_lookup|]. done.
  - intros q. apply pend_view; [apply Hoj|].
    intros b. rewrite hv_setstack. case_decide; subst; [|apply HA2].
    rewrite E'. cbn. unfold hv. rewrite Ea. cbn. f_equal. rewrite <- Hhand.
    assert (opctr ac' = opctr ac) by (by injection Eact). congruence.
  - done.
  - done.
Qed.

(* ---------- the frames whose only possible event is the return to the script ---------- *)
Definition plain_fr (fr : frame) : bool :=
  match fr with
  | FTop _ | FD1 _ | FS1 _ | FTS1 _ | FSDpush _ | FSBpush _ | FSIrun _ | FROrun _ _ | FDRrun _ _ => false
  | _ => true
  end.
Lemma obs'_plain T s a ac fr rest s' :
  s.(actors) !! a = Some ac -> ac.(stack) = fr :: rest -> plain_fr fr = true ->
  obs' T s a s' = if at_top s' a then [Ret ac.(opctr)] else [].
Proof. intros Ea Est Hp. unfold obs'. rewrite Ea, Est. by destruct fr. Qed.

(* ---------- "the hands look the same" (flags may differ) ---------- *)
Definition hsame (X s : state) : Prop :=
  (forall b q, hv X b q = hv s b q) /\ (forall b, opctr <$> X.(actors) !! b = opctr <$> s.(actors) !! b).
Lemma asame_hsame X s : asame X s -> hsame X s.
Proof.
  intros [H1 H2]. split; [done|]. intros b.
  assert (H3 : acts X !! b = acts s !! b) by (by rewrite H1). unfold acts in H3. rewrite !list_lookup_fmap in H3.
  destruct (actors X !! b) as [x|], (actors s !! b) as [y|]; cbn in *; try done. injection H3 as _ H3 _ _. by rewrite H3.
Qed.
Lemma hsame_upda s a f :
  (forall x, (f x).(stack) = x.(stack) /\ (f x).(opctr) = x.(opctr)) -> hsame (upda s a f) s.
Proof.
  intros Hf. split.
  - intros b q. by apply hv_upda.
  - intros b. unfold upda; cbn. destruct (decide (a = b)) as [->|]; [rewrite list_lookup_alter|by rewrite list_lookup_alter_ne].
    destruct (actors s !! b) as [x|]; cbn; [|done]. by destruct (Hf x) as [_ ->].
Qed.
Lemma hsame_trans X Y s : hsame X Y -> hsame Y s -> hsame X s.
Proof. intros [H1 H2] [H3 H4]. split; intros; [by rewrite H1, H3|by rewrite H2, H4]. Qed.
Lemma hsame_ran s f : hsame (s <| ran := f |>) s. Proof. done. Qed.

Lemma acts_upda_gen s a f g : (forall x, aact (f x) = g (aact x)) -> acts (upda s a f) = alter g a (acts s).
Proof. intros Hf. unfold acts, upda; cbn. apply list_alter_fmap. apply Forall_forall. intros x _. apply Hf. Qed.

Lemma run_job_view F s j : acts (run_job F s j) = arun_acts j (acts s) /\ hsame (run_job F s j) s /\ (run_job F s j).(ran) = job_id j :: s.(ran)
  /\ (run_job F s j).(nextop) = s.(nextop).
Proof.
  destruct j as [o|o c|o c]; unfold run_job; cbn [arun_acts job_id].
  - done.
  - split; [|split; [|done]].
    + exact (acts_upda_gen (s <| ran := o :: ran s |>) c (fun x : actor => x <| result := true |>) (fun x : aactor => x <| ares := true |>) (fun _ => eq_refl)).
    + eapply hsame_trans; [by apply hsame_upda|done].
  - set (s0 := s <| ran := o :: ran s |>). set (s1 := upda s0 c _).
    pose (g := fun x : aactor => x <| ares := true |> <| ardy := true |>).
    assert (H1 : acts s1 = alter g c (acts s)) by exact (acts_upda_gen s0 c (fun x : actor => x <| result := true |> <| ready := true |>) g (fun _ => eq_refl)).
    assert (H2 : hsame s1 s) by (eapply hsame_trans; [by apply hsame_upda|done]).
    assert (H3 : ran s1 = o :: ran s /\ nextop s1 = nextop s) by done.
    destruct (actors s1 !! c) as [ac|] eqn:Ec; [|done].
    destruct (stack ac) as [|[] rest] eqn:Es; try done.
    split; [|split; [|done]].
    + rewrite acts_setstack. unfold g in H1. rewrite <- H1. eapply alter_set_ph_same; [by apply acts_lookup|]. cbn -[aph]. by rewrite Es, aph_wake.
    + eapply hsame_trans; [|exact H2]. split.
      * intros b q'. rewrite hv_setstack. case_decide; subst; [|done]. unfold hv. rewrite Ec. cbn. by rewrite Es.
      * intros b. rewrite actors_setstack_lookup. case_decide; [subst b; by rewrite Ec|done].
Qed.

(* ---------- the view after the stepping actor replaced its stack, in general ---------- *)
Lemma veq_refl v : veq v v. Proof. done. Qed.
Lemma veq_trans u v w : veq u v -> veq v w -> veq u w.
Proof. intros (A1 & A2 & A3 & A4) (B1 & B2 & B3 & B4). split; [congruence|]. split; [intros q; by rewrite A2, B2|]. split; congruence. Qed.

Definition pend_after (X s : state) (a o : nat) (newst : list frame) (q : nat) : list job :=
  match oj X q with
  | Some (Some b, js) => (if decide (a = b) then handl q o newst else default [] (hv s b q)) ++ js
  | Some (None, js) => js
  | None => []
  end.
Lemma pend_setstack X s a ac newst q :
  s.(actors) !! a = Some ac -> hsame X s -> pend (setstack X a newst) q = pend_after X s a ac.(opctr) newst q.
Proof.
  intros Ea [H1 H2]. unfold pend, pend_after. rewrite oj_setstack. destruct (oj X q) as [[[b|] js]|]; [|done|done].
  f_equal. rewrite hv_setstack. case_decide; subst; [|by rewrite H1].
  specialize (H2 b). rewrite Ea in H2. destruct (actors X !! b) as [x|]; [|done]. cbn in *. injection H2 as ->. done.
Qed.
Lemma pend_self s a ac q js : s.(actors) !! a = Some ac -> oj s q = Some (Some a, js) -> pend s q = handl q ac.(opctr) ac.(stack) ++ js.
Proof. intros Ea Ho. unfold pend. rewrite Ho. unfold hv. by rewrite Ea. Qed.
Lemma pend_after_other X s a o newst oldst q ac :
  s.(actors) !! a = Some ac -> ac.(opctr) = o -> ac.(stack) = oldst ->
  oj X q = oj s q -> handl q o newst = handl q o oldst -> pend_after X s a o newst q = pend s q.
Proof.
  intros Ea Ho Hs Hoj Hh. unfold pend_after, pend. rewrite Hoj. destruct (oj s q) as [[[b|] js]|]; [|done|done].
  f_equal. case_decide; [|done]. subst b. unfold hv. rewrite Ea. cbn. by rewrite Ho, Hs.
Qed.

(* (1) only the phase of the stepping actor may change *)
Lemma sim_phase s a ac X newst :
  s.(actors) !! a = Some ac -> asame X s -> (forall q, oj X q = oj s q) -> X.(ran) = s.(ran) -> X.(nextop) = s.(nextop) ->
  (forall q, handl q ac.(opctr) newst = handl q ac.(opctr) ac.(stack)) ->
  veq (view (setstack X a newst))
      {| v_acts := alter (set_ph (aph newst)) a (v_acts (view s)); v_pend := v_pend (view s); v_ran := v_ran (view s); v_next := v_next (view s) |}.
Proof.
  intros Ea HA Hoj Hran Hnext Hhand.
  split; [|split; [|split]]; cbn [view v_acts v_pend v_ran v_next]; try done.
  - rewrite acts_setstack. by destruct HA as [-> _].
  - intros q. rewrite (pend_setstack X s a ac) by (try done; by apply asame_hsame). by eapply pend_after_other.
Qed.

(* (2) the stepping actor acquires or releases q, or takes the first job into its hand *)
Lemma sim_q s a ac X q g newst ow js ow' js' :
  s.(actors) !! a = Some ac -> asame X s -> (forall q', oj X q' = oj s q') -> X.(ran) = s.(ran) -> X.(nextop) = s.(nextop) ->
  oj s q = Some (ow, js) -> oj (updq X q g) q = Some (ow', js') ->
  aph newst = aph ac.(stack) ->
  (forall q', q' <> q -> handl q' ac.(opctr) newst = handl q' ac.(opctr) ac.(stack)) ->
  (ow = None \/ ow = Some a) -> (ow' = None \/ ow' = Some a) ->
  (match ow' with Some _ => handl q ac.(opctr) newst | None => [] end) ++ js' = (match ow with Some _ => handl q ac.(opctr) ac.(stack) | None => [] end) ++ js ->
  veq (view (setstack (updq X q g) a newst)) (view s).
Proof.
  intros Ea HA Hoj Hran Hnext Hq Hq' Hph Hother Hw Hw' Heq.
  split; [|split; [|split]]; cbn [view v_acts v_pend v_ran v_next]; try done.
  - rewrite acts_setstack. change (acts (updq X q g)) with (acts X). destruct HA as [-> _].
    eapply alter_set_ph_same; [by apply acts_lookup|done].
  - intros q'. rewrite (pend_setstack _ s a ac) by (try done; by apply asame_hsame).
    destruct (decide (q' = q)) as [->|Hne].
    + unfold pend_after. rewrite Hq'. unfold pend. rewrite Hq.
      destruct Hw as [->| ->], Hw' as [->| ->]; rewrite ?decide_True by done; unfold hv; rewrite ?Ea; cbn; done.
    + eapply pend_after_other; try done; [|by apply Hother]. rewrite oj_updq, decide_False by done. apply Hoj.
Qed.

(* (3) a job is appended to q *)
Lemma sim_push s a ac q g newst ow js j :
  s.(actors) !! a = Some ac ->
  oj s q = Some (ow, js) -> oj (updq s q g) q = Some (ow, js ++ [j]) ->
  (forall q', handl q' ac.(opctr) newst = handl q' ac.(opctr) ac.(stack)) ->
  veq (view (setstack (updq s q g) a newst))
      {| v_acts := alter (set_ph (aph newst)) a (v_acts (view s)); v_pend := fupd q (v_pend (view s) q ++ [j]) (v_pend (view s));
         v_ran := v_ran (view s); v_next := v_next (view s) |}.
Proof.
  intros Ea Hq Hq' Hhand.
  split; [|split; [|split]]; cbn [view v_acts v_pend v_ran v_next]; try done.
  - by rewrite acts_setstack.
  - intros q'. rewrite (pend_setstack _ s a ac) by done. unfold fupd.
    destruct (decide (q' = q)) as [->|Hne].
    + unfold pend_after. rewrite Hq'. unfold pend. rewrite Hq. destruct ow as [b|]; [|done].
      rewrite app_assoc. do 2 f_equal. case_decide; [|done]. subst b. unfold hv. rewrite Ea. cbn. apply Hhand.
    + eapply pend_after_other; try done. rewrite oj_updq, decide_False by done. done.
Qed.

(* (4) push-and-take of an immediate sync *)
Lemma sim_imm s a ac X q g os :
  s.(actors) !! a = Some ac -> asame X s -> (forall q', oj X q' = oj s q') -> X.(ran) = s.(ran) -> X.(nextop) = s.(nextop) ->
  oj s q = Some (None, []) -> oj (updq X q g) q = Some (Some a, []) ->
  (forall q', handl q' ac.(opctr) ac.(stack) = []) ->
  veq (view (setstack (updq X q g) a [FSIrun q; FTop os]))
      {| v_acts := alter (set_ph (PHand q)) a (v_acts (view s)); v_pend := fupd q [JPlain ac.(opctr)] (v_pend (view s));
         v_ran := v_ran (view s); v_next := v_next (view s) |}.
Proof.
  intros Ea HA Hoj Hran Hnext Hq Hq' Hhand.
  split; [|split; [|split]]; cbn [view v_acts v_pend v_ran v_next]; try done.
  - rewrite acts_setstack. change (acts (updq X q g)) with (acts X). by destruct HA as [-> _].
  - intros q'. rewrite (pend_setstack _ s a ac) by (try done; by apply asame_hsame). unfold fupd.
    destruct (decide (q' = q)) as [->|Hne].
    + unfold pend_after. rewrite Hq'. rewrite decide_True by done. cbn. rewrite decide_True by done. done.
    + eapply pend_after_other; try done.
      * rewrite oj_updq, decide_False by done. apply Hoj.
      * rewrite Hhand. cbn. rewrite decide_False by done. done.
Qed.

(* (5) the owner runs the job it has in its hand *)
Lemma sim_unhand s a ac X q newst j js A :
  s.(actors) !! a = Some ac -> hsame X s -> acts X = A -> (forall q', oj X q' = oj s q') ->
  oj s q = Some (Some a, js) ->
  handl q ac.(opctr) ac.(stack) = [j] -> handl q ac.(opctr) newst = [] ->
  (forall q', q' <> q -> handl q' ac.(opctr) newst = handl q' ac.(opctr) ac.(stack)) ->
  pend s q = j :: js /\
  veq (view (setstack X a newst))
      {| v_acts := alter (set_ph (aph newst)) a A; v_pend := fupd q js (v_pend (view s)); v_ran := X.(ran); v_next := X.(nextop) |}.
Proof.
  intros Ea HH HA Hoj Hq Hold Hnew Hother. split.
  - rewrite (pend_self s a ac q js Ea Hq), Hold. done.
  - split; [|split; [|split]]; cbn [view v_acts v_pend v_ran v_next]; try done.
    + by rewrite acts_setstack, HA.
    + intros q'. rewrite (pend_setstack _ s a ac) by done. unfold fupd.
      destruct (decide (q' = q)) as [->|Hne].
      * unfold pend_after. rewrite Hoj, Hq. rewrite decide_True by done. by rewrite Hnew.
      * eapply pend_after_other; try done. by apply Hother.
Qed.

(* running a job keeps phases and ids *)
Lemma arun_acts_lookup j (A : list aactor) (a : nat) x : A !! a = Some x ->
  exists x', arun_acts j A !! a = Some x' /\ ph x' = ph x /\ aop x' = aop x.
Proof.
  intros Ha. destruct j as [o|o c|o c]; cbn; [eauto| |].
  all: destruct (decide (c = a)) as [->|]; [rewrite list_lookup_alter, Ha; cbn; eauto|rewrite list_lookup_alter_ne by done; eauto].
Qed.

Lemma sim_run F s a ac q newst j js :
  s.(actors) !! a = Some ac -> oj s q = Some (Some a, js) ->
  handl q ac.(opctr) ac.(stack) = [j] -> handl q ac.(opctr) newst = [] ->
  (forall q', q' <> q -> handl q' ac.(opctr) newst = handl q' ac.(opctr) ac.(stack)) ->
  aph newst = aph ac.(stack) ->
  pend s q = j :: js /\
  veq (view (setstack (run_job F s j) a newst))
      {| v_acts := arun_acts j (v_acts (view s)); v_pend := fupd q js (v_pend (view s)); v_ran := job_id j :: v_ran (view s); v_next := v_next (view s) |}.
Proof.
  intros Ea Hq Hold Hnew Hother Hph.
  destruct (run_job_view F s j) as (R1 & R2 & R3 & R4).
  destruct (sim_unhand s a ac (run_job F s j) q newst j js _ Ea R2 R1) as [P1 P2]; try done.
  { intros q'. apply oj_run_job. }
  split; [done|]. eapply veq_trans; [exact P2|].
  split; [|split; [|split]]; cbn [view v_acts v_pend v_ran v_next]; try done.
  destruct (arun_acts_lookup j (acts s) a (aact ac) (acts_lookup s a ac Ea)) as (x' & E1 & E2 & _).
  eapply alter_set_ph_same; [exact E1|]. rewrite E2. cbn. done.
Qed.

(* a new operation starts *)
Lemma sim_call s a ac fr l :
  s.(actors) !! a = Some ac -> (forall q o, handl q o ac.(stack) = []) -> (forall q o, hand_fr q o fr = []) ->
  veq (view (setstack (upda (s <| nextop := S (nextop s) |>) a
                            (fun x => x <| opctr := nextop s |> <| ready := false |> <| result := false |>)) a [fr; FTop l]))
      {| v_acts := <[a := {| ph := api_phase fr; aop := nextop s; ares := false; ardy := false |}]> (v_acts (view s));
         v_pend := v_pend (view s); v_ran := v_ran (view s); v_next := S (v_next (view s)) |}.
Proof.
  intros Ea Hold Hfr.
  split; [|split; [|split]]; cbn [view v_acts v_pend v_ran v_next]; try done.
  - apply list_eq. intros i. unfold acts. rewrite list_lookup_fmap, actors_setstack_lookup, actors_upda_lookup.
    change (actors (s <| nextop := S (nextop s) |>)) with (actors s).
    destruct (decide (a = i)) as [<-|Hne].
    + rewrite Ea. cbn [fmap option_fmap option_map]. rewrite list_lookup_insert; [done|]. rewrite fmap_length. by eapply lookup_lt_Some.
    + rewrite list_lookup_insert_ne by done. by rewrite list_lookup_fmap.
  - intros q. apply pend_view; [done|]. intros b. unfold hv. rewrite actors_setstack_lookup, actors_upda_lookup.
    change (actors (s <| nextop := S (nextop s) |>)) with (actors s).
    case_decide; [|done]. subst b. rewrite Ea. cbn. rewrite Hfr, Hold. done.
Qed.

(* a pool thread is spawned *)
Lemma sim_spawn s a ac newst (new : actor) TH :
  s.(actors) !! a = Some ac -> Inv s -> aph newst = aph ac.(stack) ->
  (forall q, handl q ac.(opctr) newst = handl q ac.(opctr) ac.(stack)) ->
  (forall q, handl q new.(opctr) new.(stack) = []) ->
  veq (view (setstack (s <| threads := TH |> <| actors := s.(actors) ++ [new] |>) a newst))
      {| v_acts := v_acts (view s) ++ [aact new]; v_pend := v_pend (view s); v_ran := v_ran (view s); v_next := v_next (view s) |}.
Proof.
  intros Ea HI Hph Hhand Hnew. assert (Hlt : a < length (actors s)) by (by eapply lookup_lt_Some).
  set (s1 := s <| threads := TH |> <| actors := s.(actors) ++ [new] |>).
  assert (Ea1 : actors s1 !! a = Some ac) by (subst s1; cbn; by rewrite lookup_app_l).
  split; [|split; [|split]]; cbn [view v_acts v_pend v_ran v_next]; try done.
  - rewrite acts_setstack. change (acts s1) with (aact <$> (actors s ++ [new])). rewrite fmap_app.
    change (aact <$> [new]) with [aact new]. change (aact <$> actors s) with (acts s).
    eapply alter_set_ph_same; [rewrite lookup_app_l; [by apply acts_lookup|unfold acts; by rewrite fmap_length]|]. cbn. done.
  - intros q. unfold pend. rewrite oj_setstack. change (oj s1 q) with (oj s q).
    destruct (oj s q) as [[[b|] js]|] eqn:Eo; [|done|done]. f_equal.
    assert (Hb : b < length (actors s)).
    { unfold oj in Eo. destruct (queues s !! q) as [qq|] eqn:Eq; [|done]. cbn in Eo. injection Eo as Eo _. by eapply (inv_valid s HI q qq). }
    unfold hv. rewrite actors_setstack_lookup. case_decide; subst.
    + rewrite Ea1, Ea. cbn. by rewrite Hhand.
    + subst s1. cbn [actors set]. by rewrite lookup_app_l.
Qed.

Lemma acq_free s q qq : Inv s -> s.(queues) !! q = Some qq -> qq.(qs) <> Running -> qq.(owner) = None.
Proof. intros [_ I2 _] Hq Hn. destruct (owner qq) eqn:E; [|done]. exfalso. apply Hn, (I2 q qq Hq). by eexists. Qed.
Lemma oj_lookup s q qq : s.(queues) !! q = Some qq -> oj s q = Some (qq.(owner), qq.(jobs)).
Proof. unfold oj. by intros ->. Qed.
