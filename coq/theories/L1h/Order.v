(* L1h: order and exactly-once properties of well-formed histories in which, per queue,
   the run sequence is a prefix of the push sequence *)
From stdpp Require Import list numbers option.
From L1 Require Import Model.
From L1h Require Import Hist HistFacts.

(* ---------- list lemmas ---------- *)
Lemma omap_split {A B} (f : A -> option B) l l1 y l2 :
  omap f l = l1 ++ y :: l2 -> exists h1 e h2, l = h1 ++ e :: h2 /\ f e = Some y /\ omap f h1 = l1 /\ omap f h2 = l2.
Proof.
  revert l1. induction l as [|x l IH]; intros l1 H; [by destruct l1|].
  cbn in H. destruct (f x) as [z|] eqn:E.
  - destruct l1 as [|z' l1]; cbn in H.
    + injection H as -> H. exists [], x, l. done.
    + injection H as -> H. destruct (IH l1 H) as (h1 & e & h2 & -> & He & H1 & H2). exists (x :: h1), e, h2. cbn. rewrite E, H1. done.
  - destruct (IH l1 H) as (h1 & e & h2 & -> & He & H1 & H2). exists (x :: h1), e, h2. cbn. rewrite E. done.
Qed.
Lemma nodup_split_unique {A} (L a1 a2 b1 b2 : list A) x :
  NoDup L -> L = a1 ++ x :: a2 -> L = b1 ++ x :: b2 -> a1 = b1 /\ a2 = b2.
Proof.
  intros Hnd -> H. revert b1 H Hnd. induction a1 as [|y a1 IH]; intros b1 H Hnd.
  - destruct b1 as [|z b1]; cbn in H; [by injection H|]. injection H as -> H. exfalso.
    apply list.NoDup_cons in Hnd as [Hn _]. apply Hn. rewrite H. apply elem_of_app. right. by left.
  - destruct b1 as [|z b1]; cbn in H.
    + injection H as -> H. exfalso. cbn in Hnd. apply list.NoDup_cons in Hnd as [Hn _]. apply Hn. apply elem_of_app. right. by left.
    + injection H as -> H. cbn in Hnd. apply list.NoDup_cons in Hnd as [_ Hnd]. destruct (IH b1 H Hnd) as [-> ->]. done.
Qed.

Lemma nodup_mid {A} (l1 l2 : list A) x : NoDup (l1 ++ x :: l2) -> x ∉ l1 ++ l2.
Proof.
  intros H. apply NoDup_app in H as (_ & H1 & H2). apply list.NoDup_cons in H2 as [H2 _].
  intros [Hin|Hin]%elem_of_app; [|done]. apply (H1 x Hin). by left.
Qed.

(* in a well-formed history no event occurs twice *)
Lemma hg_nodup h : HGood h -> NoDup h.
Proof.
  induction h as [|e h IH] using rev_ind; intros Hg; [constructor|].
  apply NoDup_app. split; [apply IH; by eapply HGood_prefix|]. split; [|apply NoDup_singleton].
  intros e' He' ->%elem_of_list_singleton. specialize (Hg h _ [] eq_refl).
  destruct e; cbn in Hg.
  - specialize (Hg _ He'). cbn in Hg. lia.
  - destruct Hg as (_ & Hn & _). apply Hn, elem_of_pushed_all. eauto.
  - destruct Hg as (_ & Hn). apply Hn, elem_of_runs. eauto.
  - destruct Hg as (_ & _ & Hn). apply Hn. by left.
  - destruct Hg as (_ & _ & Hn). apply Hn. right; by left.
  - apply Hg. right; by right.
Qed.
Lemma before_split (h : list hevent) e1 e2 a b : NoDup h -> before e1 e2 h -> h = a ++ e2 :: b -> e1 ∈ a.
Proof.
  intros Hnd (x & y & z & Hh) Ha.
  assert (Hh' : h = (x ++ e1 :: y) ++ e2 :: z) by (rewrite Hh, <- app_assoc; done).
  destruct (nodup_split_unique _ _ _ _ _ _ Hnd Ha Hh') as [-> _]. apply elem_of_app. right. by left.
Qed.

Lemma before_of_ranq h q l1 A l2 B l3 : ranq h q = l1 ++ A :: l2 ++ B :: l3 -> before (Run A q) (Run B q) h.
Proof.
  intros H. apply omap_split in H as (h1 & e & h2 & -> & He & _ & H2).
  apply omap_split in H2 as (h3 & e' & h4 & -> & He' & _ & _).
  assert (e = Run A q) as -> by (destruct e; try done; case_decide; [|done]; injection He as ->; by subst).
  assert (e' = Run B q) as -> by (destruct e'; try done; case_decide; [|done]; injection He' as ->; by subst).
  by exists h1, h3, h4.
Qed.

Section Order.
  Context (h : list hevent) (Hg : HGood h) (Hq : forall q, exists P, pushed h q = ranq h q ++ P).

  (* everything about an operation happens after its call *)
  Lemma call_first P i q k S e : h = P ++ Call i q k :: S -> e ∈ h -> ev_id e = i -> e = Call i q k \/ e ∈ S.
  Proof.
    intros Hh He Hid. pose proof (Hg P _ S Hh) as Hgood. cbn in Hgood. rewrite Hh in He.
    apply elem_of_app in He as [He|He]; [specialize (Hgood e He); lia|]. apply elem_of_cons in He as [->|He]; auto.
  Qed.
  Lemma run_pushed i q : Run i q ∈ h -> Push i q ∈ h.
  Proof.
    intros (h1 & h2 & ->)%elem_of_list_split. destruct (Hg h1 _ h2 eq_refl) as [H _]. apply elem_of_app. by left.
  Qed.
  Lemma push_called i q : Push i q ∈ h -> exists k, Call i q k ∈ h.
  Proof.
    intros (h1 & h2 & ->)%elem_of_list_split. destruct (Hg h1 _ h2 eq_refl) as [[k H] _]. exists k. apply elem_of_app. by left.
  Qed.
  Lemma run_q i q q' k : Call i q k ∈ h -> Run i q' ∈ h -> q' = q.
  Proof.
    intros Hc Hr. apply run_pushed, push_called in Hr as [k' Hc']. by destruct (hg_call_inj h Hg _ _ _ _ _ Hc Hc').
  Qed.
  Lemma ranq_prefix_in q i : i ∈ ranq h q -> i ∈ pushed h q.
  Proof. destruct (Hq q) as [P ->]. intros H. apply elem_of_app. by left. Qed.

  (* C02: operations on one object run in the order in which they were called (call after return) *)
  Theorem order_C02 A B q ka kb :
    Call A q ka ∈ h -> before (Ret A) (Call B q kb) h ->
    forall qb, Run B qb ∈ h -> qb = q /\ before (Run A q) (Run B q) h.
  Proof.
    intros HcA (h1 & h2 & h3 & Hh) qb HrB.
    assert (HcB : Call B q kb ∈ h) by (rewrite Hh; apply elem_of_app; right; right; apply elem_of_app; right; by left).
    assert (qb = q) as -> by (by eapply run_q). split; [done|].
    (* A was pushed on q before its return *)
    assert (HpA : Push A q ∈ h1).
    { destruct (Hg h1 _ _ Hh) as (Hp & _). apply elem_of_pushed_all in Hp as [qa Hp].
      assert (HpA : Push A qa ∈ h) by (rewrite Hh; apply elem_of_app; by left).
      destruct (push_called _ _ HpA) as [k' Hc']. by destruct (hg_call_inj h Hg _ _ _ _ _ HcA Hc') as [-> _]. }
    (* B was pushed after its call *)
    assert (HpB : Push B q ∈ h3).
    { pose proof (run_pushed _ _ HrB) as Hp.
      assert (Hh' : h = (h1 ++ Ret A :: h2) ++ Call B q kb :: h3) by (rewrite Hh, <- app_assoc; done).
      destruct (call_first _ _ _ _ _ _ Hh' Hp eq_refl) as [?|?]; done. }
    (* hence A is before B in the push sequence of q *)
    apply elem_of_pushed, elem_of_list_split in HpA as (a1 & a2 & Ea). apply elem_of_pushed, elem_of_list_split in HpB as (b1 & b2 & Eb).
    assert (Hpush : pushed h q = a1 ++ A :: (a2 ++ pushed (Ret A :: h2 ++ [Call B q kb]) q ++ b1) ++ B :: b2).
    { rewrite Hh. replace (h1 ++ Ret A :: h2 ++ Call B q kb :: h3) with (h1 ++ (Ret A :: h2 ++ [Call B q kb]) ++ h3) by (cbn; by rewrite <- app_assoc).
      rewrite !pushed_app, Ea, Eb. by rewrite <- !app_assoc. }
    (* the run sequence is a prefix of the push sequence and contains B *)
    destruct (Hq q) as [P HP]. pose proof (hg_pushed_nodup h q Hg) as Hnd.
    assert (HB : B ∈ ranq h q) by (by apply elem_of_ranq). apply elem_of_list_split in HB as (r1 & r2 & Er).
    assert (Hpush' : pushed h q = r1 ++ B :: (r2 ++ P)) by (rewrite HP, Er, <- app_assoc; done).
    assert (Hpush'' : pushed h q = (a1 ++ A :: (a2 ++ pushed (Ret A :: h2 ++ [Call B q kb]) q ++ b1)) ++ B :: b2) by (rewrite Hpush, <- (app_assoc a1); done).
    destruct (nodup_split_unique _ _ _ _ _ _ Hnd Hpush' Hpush'') as [-> _].
    eapply before_of_ranq. rewrite Er. rewrite <- app_assoc. cbn. reflexivity.
  Qed.

  (* C03: every closure runs at most once, and only after it was pushed *)
  Theorem once_C03 : NoDup (runs h) /\ NoDup (pushed_all h) /\ (forall i q, Run i q ∈ h -> before (Push i q) (Run i q) h).
  Proof.
    split; [by apply hg_runs_nodup|]. split; [by apply hg_pushed_all_nodup|].
    intros i q (h1 & h2 & ->)%elem_of_list_split. destruct (Hg h1 _ h2 eq_refl) as [(a1 & a2 & ->)%elem_of_list_split _].
    exists a1, a2, h2. by rewrite <- app_assoc.
  Qed.


  (* everything about operation i lies after Call i *)
  Lemma before_call i q k e : Call i q k ∈ h -> e ∈ h -> ev_id e = i -> e <> Call i q k -> before (Call i q k) e h.
  Proof.
    intros (P & S & HP)%elem_of_list_split He Hid Hne.
    destruct (call_first _ _ _ _ _ _ HP He Hid) as [?|(s1 & s2 & ->)%elem_of_list_split]; [done|]. by exists P, s1, s2.
  Qed.

  (* C04: a sync (or a successful try_sync) returns after its own closure ran, once, between call and return *)
  Theorem sync_C04 i q k : k <> KDesync -> Call i q k ∈ h -> Ret i ∈ h ->
    exists h1 h2 h3 h4, h = h1 ++ Call i q k :: h2 ++ Run i q :: h3 ++ Ret i :: h4 /\ i ∉ runs (h1 ++ h2 ++ h3 ++ h4).
  Proof.
    intros Hk Hc Hr. pose proof (hg_nodup h Hg) as Hnd.
    pose proof Hr as (a & h4 & Ha)%elem_of_list_split.
    destruct (Hg a _ h4 Ha) as (_ & Hrun & _).
    assert (Hca : Call i q k ∈ a) by (eapply (before_split h _ _ a h4 Hnd); [by apply before_call|done]).
    specialize (Hrun q k Hca Hk). apply elem_of_runs in Hrun as [q' Hrun].
    assert (Hrh : Run i q' ∈ h) by (rewrite Ha; apply elem_of_app; by left).
    assert (q' = q) as -> by (by eapply (run_q i q q' k)).
    apply elem_of_list_split in Hrun as (b & h3 & Hb).
    assert (Hcb : Call i q k ∈ b).
    { eapply (before_split h _ _ b (h3 ++ Ret i :: h4) Hnd); [by apply before_call|]. rewrite Ha, Hb, <- app_assoc. done. }
    apply elem_of_list_split in Hcb as (h1 & h2 & Hcb).
    assert (Hh : h = h1 ++ Call i q k :: h2 ++ Run i q :: h3 ++ Ret i :: h4).
    { rewrite Ha, Hb, Hcb. rewrite <- ?app_assoc. cbn. rewrite <- ?app_assoc. done. }
    exists h1, h2, h3, h4. split; [done|].
    pose proof (hg_runs_nodup h Hg) as Hndr. rewrite Hh in Hndr.
    rewrite runs_app in Hndr. cbn in Hndr. rewrite runs_app in Hndr. cbn in Hndr. rewrite runs_app in Hndr. cbn in Hndr.
    rewrite app_assoc in Hndr. apply nodup_mid in Hndr. by rewrite !runs_app, app_assoc.
  Qed.

  (* a try_sync that found the queue busy never runs (and is never pushed) *)
  Theorem busy_C04 i : RetBusy i ∈ h -> i ∉ runs h /\ i ∉ pushed_all h.
  Proof.
    intros Hb. assert (Hnp : i ∉ pushed_all h).
    { intros [q Hp]%elem_of_pushed_all. destruct (two_occ h _ _ Hb Hp) as [?|[Hbe|Hbe]]; [done| |].
      - apply (before_good h _ _ Hg) in Hbe as (p & Hgood & Hin & _). cbn in Hgood. destruct Hgood as (_ & _ & Hnf). apply Hnf. right; by left.
      - apply (before_good h _ _ Hg) in Hbe as (p & Hgood & Hin & _). cbn in Hgood. destruct Hgood as (_ & Hn & _). apply Hn, elem_of_pushed_all. eauto. }
    split; [|done]. intros [q Hr]%elem_of_runs. apply Hnp, elem_of_pushed_all. exists q. by apply run_pushed.
  Qed.

  (* C05: a sync D on q issued after every other operation on q has returned (Desync::drop) runs last on q *)
  Theorem last_C05 D q h1 h2 :
    h = h1 ++ Call D q KSync :: h2 ->
    (forall B k, B <> D -> Call B q k ∈ h -> finished B h1) ->
    forall h3 h4, h = h3 ++ Run D q :: h4 ->
      (forall B, B <> D -> Push B q ∈ h -> Run B q ∈ h3) /\ (forall B, Run B q ∉ h4).
  Proof.
    intros Hh Hfin h3 h4 Hrun. pose proof (hg_nodup h Hg) as Hnd.
    (* every other push on q lies before the call of D *)
    assert (Hp1 : forall B, B <> D -> Push B q ∈ h -> Push B q ∈ h1).
    { intros B Hne Hp. destruct (push_called _ _ Hp) as [k Hc]. pose proof (Hfin B k Hne Hc) as HfB.
      rewrite Hh in Hp. apply elem_of_app in Hp as [Hp|Hp]; [done|]. exfalso.
      apply elem_of_cons in Hp as [?|Hp]; [done|]. apply elem_of_list_split in Hp as (s1 & s2 & ->).
      assert (Hh' : h = (h1 ++ Call D q KSync :: s1) ++ Push B q :: s2) by (rewrite Hh, <- app_assoc; done).
      destruct (Hg _ _ _ Hh') as (_ & _ & Hnf). apply Hnf. apply finished_app. by left. }
    (* so the push sequence of q is that of h1 followed by D *)
    assert (HpD : Push D q ∈ h2).
    { assert (Hr : Run D q ∈ h) by (rewrite Hrun; apply elem_of_app; right; by left). apply run_pushed in Hr.
      destruct (call_first _ _ _ _ _ _ Hh Hr eq_refl) as [?|?]; done. }
    assert (Hpush : pushed h q = pushed h1 q ++ [D]).
    { pose proof (hg_pushed_nodup h q Hg) as Hn. rewrite Hh, pushed_app in Hn.
      change (pushed (Call D q KSync :: h2) q) with (pushed h2 q) in Hn. apply NoDup_app in Hn as (_ & Hdis & Hn2).
      rewrite Hh, pushed_app. change (pushed (Call D q KSync :: h2) q) with (pushed h2 q). f_equal.
      assert (Hall : forall B, B ∈ pushed h2 q -> B = D).
      { intros B HB. destruct (decide (B = D)) as [|Hne]; [done|]. exfalso. apply (Hdis B); [|done].
        apply elem_of_pushed, Hp1; [done|]. rewrite Hh. apply elem_of_app. right. right. by apply elem_of_pushed. }
      apply elem_of_pushed in HpD. revert Hall HpD Hn2. generalize (pushed h2 q). intros l Hall HpD Hn2.
      destruct l as [|x [|y l]]; [by apply elem_of_nil in HpD| |].
      - f_equal. apply Hall. by left.
      - exfalso. assert (x = D) by (apply Hall; by left). assert (y = D) by (apply Hall; right; by left). subst.
        apply list.NoDup_cons in Hn2 as [Hn2 _]. apply Hn2. by left. }
    (* the run sequence of q is a prefix of it containing D: all of it *)
    destruct (Hq q) as [P HP]. pose proof (hg_pushed_nodup h q Hg) as Hn.
    assert (Hr34 : ranq h q = ranq h3 q ++ D :: ranq h4 q) by (rewrite Hrun, ranq_app; cbn; by rewrite decide_True).
    assert (E1 : pushed h q = ranq h3 q ++ D :: (ranq h4 q ++ P)) by (rewrite HP, Hr34, <- app_assoc; done).
    assert (E2 : pushed h q = pushed h1 q ++ D :: []) by done.
    destruct (nodup_split_unique _ _ _ _ _ _ Hn E1 E2) as [E3 E4].
    apply app_eq_nil in E4 as [E4 _].
    split.
    - intros B Hne Hp. apply elem_of_ranq. rewrite E3. apply elem_of_pushed. by apply Hp1.
    - intros B HB. apply elem_of_ranq in HB. rewrite E4 in HB. by apply elem_of_nil in HB.
  Qed.
End Order.
