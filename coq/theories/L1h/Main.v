(* L1h: order and exactly-once theorems for every run of the (unmodified) L1 model *)
From stdpp Require Import list numbers option.
From RecordUpdate Require Import RecordUpdate.
From L1 Require Import Model Own Shape Stuck Live Wait Help Final.
From L1h Require Import WeakWF Hist Abs SimBase Sim HistFacts AInv Reach Order.

Lemma complete_pend s : Inv s -> complete s = true -> forall q, pend s q = [].
Proof.
  intros HI Hc q. unfold complete in Hc. apply andb_true_iff in Hc as [Hc _]. apply andb_true_iff in Hc as [_ Hc].
  unfold pend, oj. destruct (queues s !! q) as [qq|] eqn:E; [|done]. cbn.
  rewrite forallb_forall in Hc. specialize (Hc qq). rewrite <- elem_of_list_In in Hc. specialize (Hc (elem_of_list_lookup_2 _ _ _ E)).
  destruct (qs qq) eqn:Es; try done. destruct (jobs qq) eqn:Ej; [|done].
  rewrite (acq_free s q qq HI E) by (by rewrite Es). done.
Qed.

Lemma runs_before i j q q' h : before (Run i q) (Run j q') h -> exists l1 l2 l3, runs h = l1 ++ i :: l2 ++ j :: l3.
Proof. intros (h1 & h2 & h3 & ->). exists (runs h1), (runs h2), (runs h3). rewrite runs_app. cbn. rewrite runs_app. done. Qed.

Section Main.
  Context (T : tables) (F : facts) (HT : own_conditions T) (HI : imm_conditions T).
  Context (nq mx : nat) (scripts : list (list op)).

  Lemma reach_facts tr s : run T F (init nq mx scripts) tr = Some s ->
    HGood (hist T F (init nq mx scripts) tr) /\
    (forall q, pushed (hist T F (init nq mx scripts) tr) q = ranq (hist T F (init nq mx scripts) tr) q ++ (job_id <$> pend s q)) /\
    runs (hist T F (init nq mx scripts) tr) = rev (ran s) /\ Inv s.
  Proof.
    intros Hr. destruct (reachable_hinv T F HT HI nq mx scripts tr s Hr) as [H1 H2 H3 H4]. cbn [fst snd] in *.
    destruct H4 as [I1 I2 I3 I4 I5 I6 I7]. done.
  Qed.
  Lemma reach_prefix tr s : run T F (init nq mx scripts) tr = Some s ->
    forall q, exists P, pushed (hist T F (init nq mx scripts) tr) q = ranq (hist T F (init nq mx scripts) tr) q ++ P.
  Proof. intros Hr q. destruct (reach_facts tr s Hr) as (_ & H & _). eexists. apply H. Qed.

  (* the queue law (INV-B/INV-C): per object, pushed = ran ++ in hand ++ stored, in this order *)
  Theorem queue_law tr s q : run T F (init nq mx scripts) tr = Some s ->
    pushed (hist T F (init nq mx scripts) tr) q = ranq (hist T F (init nq mx scripts) tr) q ++ (job_id <$> pend s q).
  Proof. intros Hr. by destruct (reach_facts tr s Hr) as (_ & H & _). Qed.
  Theorem queue_law_ran tr s q : run T F (init nq mx scripts) tr = Some s ->
    pushed (hist T F (init nq mx scripts) tr) q = ranq (hist T F (init nq mx scripts) tr) q ++ (job_id <$> pend s q)
    /\ rev (ran s) = runs (hist T F (init nq mx scripts) tr).
  Proof. intros Hr. destruct (reach_facts tr s Hr) as (_ & H1 & H2 & _). by rewrite H2. Qed.
  Theorem ran_is_history tr s : run T F (init nq mx scripts) tr = Some s -> rev (ran s) = runs (hist T F (init nq mx scripts) tr).
  Proof. intros Hr. by destruct (reach_facts tr s Hr) as (_ & _ & H & _). Qed.
  Theorem history_good tr s : run T F (init nq mx scripts) tr = Some s -> HGood (hist T F (init nq mx scripts) tr).
  Proof. intros Hr. by destruct (reach_facts tr s Hr) as (H & _). Qed.

  Lemma in_ran_runs tr s i : run T F (init nq mx scripts) tr = Some s -> i ∈ ran s <-> i ∈ runs (hist T F (init nq mx scripts) tr).
  Proof. intros Hr. by rewrite <- (ran_is_history tr s Hr), elem_of_rev. Qed.

  (* C02 *)
  Theorem call_order_is_run_order tr s A B q ka kb :
    run T F (init nq mx scripts) tr = Some s ->
    Call A q ka ∈ hist T F (init nq mx scripts) tr ->
    before (Ret A) (Call B q kb) (hist T F (init nq mx scripts) tr) ->
    forall qb, Run B qb ∈ hist T F (init nq mx scripts) tr ->
      qb = q /\ before (Run A q) (Run B q) (hist T F (init nq mx scripts) tr).
  Proof.
    intros Hr. destruct (reach_facts tr s Hr) as (Hg & _). apply order_C02; [done|]. by eapply reach_prefix.
  Qed.
  Corollary call_order_is_run_order_ran tr s A B q ka kb :
    run T F (init nq mx scripts) tr = Some s ->
    Call A q ka ∈ hist T F (init nq mx scripts) tr ->
    before (Ret A) (Call B q kb) (hist T F (init nq mx scripts) tr) ->
    B ∈ ran s -> exists l1 l2 l3, rev (ran s) = l1 ++ A :: l2 ++ B :: l3.
  Proof.
    intros Hr Hc Hb HB. rewrite (ran_is_history tr s Hr). apply (in_ran_runs tr s B Hr) in HB.
    apply elem_of_runs in HB as [qb HB]. destruct (call_order_is_run_order tr s A B q ka kb Hr Hc Hb qb HB) as [_ H]. by eapply runs_before.
  Qed.

  (* C03 *)
  Theorem exactly_once tr s :
    run T F (init nq mx scripts) tr = Some s ->
    NoDup (ran s) /\ NoDup (pushed_all (hist T F (init nq mx scripts) tr)) /\
    (forall i, i ∈ ran s -> exists q, before (Push i q) (Run i q) (hist T F (init nq mx scripts) tr)).
  Proof.
    intros Hr. destruct (reach_facts tr s Hr) as (Hg & Hq & Hruns & _).
    destruct (once_C03 _ Hg (reach_prefix tr s Hr)) as (N1 & N2 & N3). split; [|split; [done|]].
    - apply NoDup_rev_iff. by rewrite <- Hruns.
    - intros i Hi. apply (in_ran_runs tr s i Hr) in Hi. apply elem_of_runs in Hi as [q Hi]. exists q. by apply N3.
  Qed.

  Theorem nothing_lost (HK : core_tables T) (HF : F.(f_dormant_blocks) = true) (Hwf : wf_scripts nq scripts) (Hmx : 1 <= mx) tr s :
    run T F (init nq mx scripts) tr = Some s -> terminal T F s ->
    (forall q, pushed (hist T F (init nq mx scripts) tr) q = ranq (hist T F (init nq mx scripts) tr) q) /\
    (forall i q, Push i q ∈ hist T F (init nq mx scripts) tr -> Run i q ∈ hist T F (init nq mx scripts) tr /\ i ∈ ran s) /\
    NoDup (ran s).
  Proof.
    intros Hr Hterm. destruct (reach_facts tr s Hr) as (Hg & Hq & Hruns & Hinv).
    pose proof (L_quiet T F HK HT HF nq mx scripts tr s Hwf Hmx Hr Hterm) as Hc.
    assert (Hall : forall q, pushed (hist T F (init nq mx scripts) tr) q = ranq (hist T F (init nq mx scripts) tr) q).
    { intros q. rewrite Hq, (complete_pend s Hinv Hc q). cbn. by rewrite app_nil_r. }
    split; [done|]. split; [|by apply (exactly_once tr s Hr)].
    intros i q Hp. apply elem_of_pushed in Hp. rewrite Hall in Hp. apply elem_of_ranq in Hp. split; [done|].
    apply (in_ran_runs tr s i Hr). apply elem_of_runs. eauto.
  Qed.

  (* C04 *)
  Theorem sync_runs_own_closure tr s i q k :
    run T F (init nq mx scripts) tr = Some s -> k <> KDesync ->
    Call i q k ∈ hist T F (init nq mx scripts) tr -> Ret i ∈ hist T F (init nq mx scripts) tr ->
    exists h1 h2 h3 h4, hist T F (init nq mx scripts) tr = h1 ++ Call i q k :: h2 ++ Run i q :: h3 ++ Ret i :: h4 /\ i ∉ runs (h1 ++ h2 ++ h3 ++ h4).
  Proof. intros Hr. destruct (reach_facts tr s Hr) as (Hg & _). apply sync_C04; [done|]. by eapply reach_prefix. Qed.
  Theorem busy_never_runs tr s i :
    run T F (init nq mx scripts) tr = Some s -> RetBusy i ∈ hist T F (init nq mx scripts) tr ->
    i ∉ ran s /\ i ∉ pushed_all (hist T F (init nq mx scripts) tr).
  Proof.
    intros Hr Hb. destruct (reach_facts tr s Hr) as (Hg & _ & Hruns & _). destruct (busy_C04 _ Hg (reach_prefix tr s Hr) i Hb) as [H1 H2].
    split; [|done]. by rewrite (in_ran_runs tr s i Hr).
  Qed.

  (* the result protocol: a waiting sync caller whose result / ready flag is set has had its own closure run,
     and a queued or dequeued sync job belongs to the current operation of a caller that is still waiting *)
  Theorem result_flag_is_own tr s :
    run T F (init nq mx scripts) tr = Some s ->
    (forall a ac q, s.(actors) !! a = Some ac -> aph ac.(stack) = PWait q ->
                    (ac.(result) = true \/ ac.(ready) = true) -> ac.(opctr) ∈ ran s) /\
    (forall q j o c, j ∈ pend s q -> (j = JSyncDrain o c \/ j = JSyncBg o c) ->
                     exists ac q', s.(actors) !! c = Some ac /\ ac.(opctr) = o /\ aph ac.(stack) = PWait q' /\ o ∉ ran s).
  Proof.
    intros Hr. destruct (reachable_hinv T F HT HI nq mx scripts tr s Hr) as [H1 H2 H3 H4]. cbn [fst snd] in *. split.
    - intros a ac q Ea Hp Hfl. pose proof (ai_acts _ _ H4 a (aact ac) (acts_lookup s a ac Ea)) as Hok.
      unfold act_ok in Hok. cbn in Hok. rewrite Hp in Hok. destruct Hok as (_ & _ & _ & Hok). by apply Hok.
    - intros q j o c Hj Hs. destruct (ai_job _ _ H4 q j o c Hj Hs) as (x & q' & Hx & Ho & Hp).
      cbn in Hx. unfold acts in Hx. rewrite list_lookup_fmap in Hx. destruct (actors s !! c) as [ac|]; [|done]. injection Hx as <-.
      exists ac, q'. repeat split; try done. pose proof (pend_not_ran _ _ H4 q j Hj) as Hn. by destruct Hs as [-> | ->].
  Qed.

  (* ... ever: also not later in the run *)
  Corollary busy_never_runs_later tr1 tr2 s' i :
    run T F (init nq mx scripts) (tr1 ++ tr2) = Some s' -> RetBusy i ∈ hist T F (init nq mx scripts) tr1 ->
    i ∉ ran s' /\ i ∉ pushed_all (hist T F (init nq mx scripts) (tr1 ++ tr2)).
  Proof.
    intros Hr Hb. destruct (hist_prefix T F _ _ _ _ Hr) as [h2 Hh].
    apply (busy_never_runs (tr1 ++ tr2) s' i Hr). rewrite Hh. apply elem_of_app. by left.
  Qed.

  (* C05 *)
  Theorem drop_after_returned tr s A D q ka :
    run T F (init nq mx scripts) tr = Some s ->
    Call A q ka ∈ hist T F (init nq mx scripts) tr ->
    before (Ret A) (Call D q KSync) (hist T F (init nq mx scripts) tr) ->
    forall h3 h4, hist T F (init nq mx scripts) tr = h3 ++ Run D q :: h4 -> Run A q ∈ h3.
  Proof.
    intros Hr Hc Hb h3 h4 Hh. destruct (reach_facts tr s Hr) as (Hg & _).
    assert (HrD : Run D q ∈ hist T F (init nq mx scripts) tr) by (rewrite Hh; apply elem_of_app; right; by left).
    destruct (call_order_is_run_order tr s A D q ka KSync Hr Hc Hb q HrD) as [_ Hbe].
    eapply before_split; [by apply hg_nodup|exact Hbe|exact Hh].
  Qed.
  Theorem drop_runs_last tr s D q h1 h2 :
    run T F (init nq mx scripts) tr = Some s ->
    hist T F (init nq mx scripts) tr = h1 ++ Call D q KSync :: h2 ->
    (forall B k, B <> D -> Call B q k ∈ hist T F (init nq mx scripts) tr -> finished B h1) ->
    forall h3 h4, hist T F (init nq mx scripts) tr = h3 ++ Run D q :: h4 ->
      (forall B, B <> D -> Push B q ∈ hist T F (init nq mx scripts) tr -> Run B q ∈ h3) /\ (forall B, Run B q ∉ h4).
  Proof.
    intros Hr. destruct (reach_facts tr s Hr) as (Hg & _). apply last_C05; [done|]. by eapply reach_prefix.
  Qed.
End Main.

(* a checkable form of "no thread can move", for the examples *)
Lemma terminal_b_sound T F s : terminal_b T F s = true -> terminal T F s.
Proof.
  intros H a. unfold terminal_b in H. rewrite forallb_forall in H.
  destruct (decide (a < length (actors s))) as [Hlt|Hge].
  - assert (Hin : In a (seq 0 (length (actors s)))) by (apply in_seq; lia). specialize (H a Hin). by destruct (step T F s a).
  - unfold step. rewrite (proj2 (lookup_ge_None _ _)) by lia. done.
Qed.
