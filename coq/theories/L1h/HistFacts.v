(* L1h: well-formed histories and what follows from well-formedness (pure list reasoning) *)
From stdpp Require Import list numbers option.
From L1 Require Import Model.
From L1h Require Import Hist.

Lemma elem_of_rev {A} (l : list A) x : x ∈ rev l <-> x ∈ l.
Proof. rewrite !elem_of_list_In. symmetry. apply in_rev. Qed.
Lemma NoDup_rev_iff {A} (l : list A) : NoDup (rev l) <-> NoDup l.
Proof. rewrite !NoDup_ListNoDup. split; intros H; [rewrite <- rev_involutive|]; by apply NoDup_rev. Qed.

(* ---------- reading functions and append ---------- *)
Lemma pushed_app h1 h2 q : pushed (h1 ++ h2) q = pushed h1 q ++ pushed h2 q. Proof. apply omap_app. Qed.
Lemma pushed_all_app h1 h2 : pushed_all (h1 ++ h2) = pushed_all h1 ++ pushed_all h2. Proof. apply omap_app. Qed.
Lemma ranq_app h1 h2 q : ranq (h1 ++ h2) q = ranq h1 q ++ ranq h2 q. Proof. apply omap_app. Qed.
Lemma runs_app h1 h2 : runs (h1 ++ h2) = runs h1 ++ runs h2. Proof. apply omap_app. Qed.

Lemma elem_of_pushed h q i : i ∈ pushed h q <-> Push i q ∈ h.
Proof.
  unfold pushed. rewrite elem_of_list_omap. split.
  - intros (e & He & Hf). destruct e; try done. case_decide; [|done]. injection Hf as ->. by subst.
  - intros H. exists (Push i q). split; [done|]. by rewrite decide_True.
Qed.
Lemma elem_of_pushed_all h i : i ∈ pushed_all h <-> exists q, Push i q ∈ h.
Proof.
  unfold pushed_all. rewrite elem_of_list_omap. split.
  - intros (e & He & Hf). destruct e; try done. injection Hf as ->. eauto.
  - intros (q & H). by exists (Push i q).
Qed.
Lemma elem_of_ranq h q i : i ∈ ranq h q <-> Run i q ∈ h.
Proof.
  unfold ranq. rewrite elem_of_list_omap. split.
  - intros (e & He & Hf). destruct e; try done. case_decide; [|done]. injection Hf as ->. by subst.
  - intros H. exists (Run i q). split; [done|]. by rewrite decide_True.
Qed.
Lemma elem_of_runs h i : i ∈ runs h <-> exists q, Run i q ∈ h.
Proof.
  unfold runs. rewrite elem_of_list_omap. split.
  - intros (e & He & Hf). destruct e; try done. injection Hf as ->. eauto.
  - intros (q & H). by exists (Run i q).
Qed.
Lemma finished_app i h1 h2 : finished i (h1 ++ h2) <-> finished i h1 \/ finished i h2.
Proof. unfold finished. rewrite !elem_of_app. tauto. Qed.

(* ---------- well-formed histories ---------- *)
(* what must be true of the history before an event *)
Definition good (e : hevent) (h1 : list hevent) : Prop :=
  match e with
  | Call i q k => forall e', e' ∈ h1 -> ev_id e' < i
  | Push i q => (exists k, Call i q k ∈ h1) /\ i ∉ pushed_all h1 /\ ~ finished i h1
  | Run i q => Push i q ∈ h1 /\ i ∉ runs h1
  | Ret i => i ∈ pushed_all h1 /\ (forall q k, Call i q k ∈ h1 -> k <> KDesync -> i ∈ runs h1) /\ ~ finished i h1
  | RetBusy i => (exists q, Call i q KTry ∈ h1) /\ i ∉ pushed_all h1 /\ ~ finished i h1
  | RetPanic i => ~ finished i h1
  end.
Definition HGood (h : list hevent) : Prop := forall h1 e h2, h = h1 ++ e :: h2 -> good e h1.

Lemma HGood_nil : HGood [].
Proof. intros h1 e h2 H. by destruct h1. Qed.
Lemma HGood_snoc h e : HGood h -> good e h -> HGood (h ++ [e]).
Proof.
  intros Hg He h1 e' h2 Heq. destruct h2 as [|x h2 _] using rev_ind.
  - apply app_inj_tail in Heq as [-> ->]. done.
  - rewrite app_comm_cons, app_assoc in Heq. apply app_inj_tail in Heq as [-> _]. by eapply Hg.
Qed.
Lemma HGood_prefix h1 h2 : HGood (h1 ++ h2) -> HGood h1.
Proof. intros Hg h3 e h4 ->. apply (Hg h3 e (h4 ++ h2)). by rewrite <- app_assoc. Qed.
Lemma HGood_app h evs : HGood h -> (forall e1 e e2, evs = e1 ++ e :: e2 -> good e (h ++ e1)) -> HGood (h ++ evs).
Proof.
  revert h. induction evs as [|e evs IH]; intros h Hg Hev; [by rewrite app_nil_r|].
  change (e :: evs) with ([e] ++ evs). rewrite app_assoc. apply IH.
  - apply HGood_snoc; [done|]. specialize (Hev [] e evs eq_refl). by rewrite app_nil_r in Hev.
  - intros e1 e' e2 ->. rewrite <- app_assoc. apply (Hev (e :: e1) e' e2). done.
Qed.

(* splitting a history at two occurrences *)
Lemma two_occ (h : list hevent) e1 e2 : e1 ∈ h -> e2 ∈ h -> e1 = e2 \/ before e1 e2 h \/ before e2 e1 h.
Proof.
  intros H1 H2. apply elem_of_list_split in H1 as (h1 & h2 & ->).
  apply elem_of_app in H2 as [H2|H2].
  - right; right. apply elem_of_list_split in H2 as (h3 & h4 & ->). exists h3, h4, h2. by rewrite <- app_assoc.
  - apply elem_of_cons in H2 as [->|H2]; [by left|]. right; left.
    apply elem_of_list_split in H2 as (h3 & h4 & ->). by exists h1, h3, h4.
Qed.
Lemma before_good h e1 e2 : HGood h -> before e1 e2 h -> exists h1, good e2 h1 /\ e1 ∈ h1 /\ exists h2, h = h1 ++ e2 :: h2.
Proof.
  intros Hg (h1 & h2 & h3 & ->). exists (h1 ++ e1 :: h2). split; [|split].
  - apply (Hg (h1 ++ e1 :: h2) e2 h3). by rewrite <- app_assoc.
  - apply elem_of_app. right. by left.
  - exists h3. by rewrite <- app_assoc.
Qed.

Section Facts.
  Context (h : list hevent) (Hg : HGood h).

  (* an id is called once *)
  Lemma hg_call_inj i q k q' k' : Call i q k ∈ h -> Call i q' k' ∈ h -> q = q' /\ k = k'.
  Proof.
    intros H1 H2. destruct (two_occ h _ _ H1 H2) as [Heq|[Hb|Hb]]; [by injection Heq| |].
    all: apply (before_good h _ _ Hg) in Hb as (h1 & Hgood & Hin & _); cbn in Hgood; specialize (Hgood _ Hin); cbn in Hgood; lia.
  Qed.
  (* and pushed at most once, on one queue *)
  Lemma hg_push_inj i q q' : Push i q ∈ h -> Push i q' ∈ h -> q = q'.
  Proof.
    intros H1 H2. destruct (two_occ h _ _ H1 H2) as [Heq|[Hb|Hb]]; [by injection Heq| |].
    all: apply (before_good h _ _ Hg) in Hb as (h1 & Hgood & Hin & _); cbn in Hgood; destruct Hgood as (_ & Hn & _);
         exfalso; apply Hn, elem_of_pushed_all; eauto.
  Qed.
  Lemma hg_run_inj i q q' : Run i q ∈ h -> Run i q' ∈ h -> q = q'.
  Proof.
    intros H1 H2. destruct (two_occ h _ _ H1 H2) as [Heq|[Hb|Hb]]; [by injection Heq| |].
    all: apply (before_good h _ _ Hg) in Hb as (h1 & Hgood & Hin & _); cbn in Hgood; destruct Hgood as (_ & Hn);
         exfalso; apply Hn, elem_of_runs; eauto.
  Qed.
End Facts.

Lemma hg_pushed_all_nodup h : HGood h -> NoDup (pushed_all h).
Proof.
  induction h as [|e h IH] using rev_ind; intros Hg; [constructor|].
  rewrite pushed_all_app. apply NoDup_app. split; [apply IH; by eapply HGood_prefix|]. split.
  - intros i Hi Hi'. destruct e; cbn in Hi'; try by apply elem_of_nil in Hi'.
    apply elem_of_list_singleton in Hi' as ->. specialize (Hg h _ [] eq_refl). cbn in Hg. by destruct Hg as (_ & Hn & _).
  - destruct e; cbn; try constructor; [by apply not_elem_of_nil|constructor].
Qed.
Lemma hg_runs_nodup h : HGood h -> NoDup (runs h).
Proof.
  induction h as [|e h IH] using rev_ind; intros Hg; [constructor|].
  rewrite runs_app. apply NoDup_app. split; [apply IH; by eapply HGood_prefix|]. split.
  - intros i Hi Hi'. destruct e; cbn in Hi'; try by apply elem_of_nil in Hi'.
    apply elem_of_list_singleton in Hi' as ->. specialize (Hg h _ [] eq_refl). cbn in Hg. by destruct Hg as (_ & Hn).
  - destruct e; cbn; try constructor; [by apply not_elem_of_nil|constructor].
Qed.
Lemma hg_pushed_nodup h q : HGood h -> NoDup (pushed h q).
Proof.
  induction h as [|e h IH] using rev_ind; intros Hg; [constructor|].
  rewrite pushed_app. apply NoDup_app. split; [apply IH; by eapply HGood_prefix|]. split.
  - intros i Hi Hi'. destruct e; cbn in Hi'; try by apply elem_of_nil in Hi'.
    case_decide; [|by apply elem_of_nil in Hi']. subst. apply elem_of_list_singleton in Hi' as ->.
    specialize (Hg h _ [] eq_refl). cbn in Hg. destruct Hg as (_ & Hn & _). apply Hn, elem_of_pushed_all. exists q. by apply elem_of_pushed.
  - destruct e; cbn; try constructor; case_decide; try constructor; [by apply not_elem_of_nil|constructor].
Qed.

(* ---------- a decision procedure for [before], for the examples ---------- *)
Fixpoint after (e : hevent) (h : list hevent) : option (list hevent) :=
  match h with [] => None | x :: r => if decide (x = e) then Some r else after e r end.
Definition before_b (e1 e2 : hevent) (h : list hevent) : bool :=
  match after e1 h with Some r => bool_decide (e2 ∈ r) | None => false end.
Lemma after_Some e h r : after e h = Some r -> exists h1, h = h1 ++ e :: r.
Proof.
  revert r. induction h as [|x h IH]; intros r; cbn; [done|]. case_decide.
  - intros [= <-]. subst. by exists [].
  - intros Hr. destruct (IH r Hr) as [h1 ->]. by exists (x :: h1).
Qed.
Lemma before_b_true e1 e2 h : before_b e1 e2 h = true -> before e1 e2 h.
Proof.
  unfold before_b. destruct (after e1 h) as [r|] eqn:E; [|done]. intros H%bool_decide_eq_true.
  destruct (after_Some _ _ _ E) as [h1 ->]. apply elem_of_list_split in H as (h2 & h3 & ->). by exists h1, h2, h3.
Qed.
Lemma elem_of_b_true (e : hevent) (h : list hevent) : bool_decide (e ∈ h) = true -> e ∈ h.
Proof. apply bool_decide_eq_true. Qed.
