(* L1h: histories of the L1 model.  Definitions only (plus two executable examples).
   The L1 model (L1/Model.v) is not changed: the history of a run is computed by an observer that looks at the
   acting actor's top frame before each step (and, for "the call returned", at the actor's stack after it). *)
From stdpp Require Import list numbers option.
From RecordUpdate Require Import RecordUpdate.
From L1 Require Import Model Stuck.

Inductive okind := KDesync | KSync | KTry.
#[export] Instance okind_eq_dec : EqDecision okind. Proof. solve_decision. Defined.

(* what an observer of the API sees *)
Inductive hevent :=
| Call (id q : nat) (k : okind)     (* the API call starts: the operation gets its global id *)
| Push (id q : nat)                 (* the operation's job is appended to the queue of q (an immediate sync/try_sync: push-and-take) *)
| Run (id q : nat)                  (* the operation's closure runs (atomically) *)
| Ret (id : nat)                    (* the API call returns normally to its caller *)
| RetBusy (id : nat)                (* try_sync returns Err(Busy) *)
| RetPanic (id : nat).              (* the API call panics (queue in the Panicked state) *)
#[export] Instance hevent_eq_dec : EqDecision hevent. Proof. solve_decision. Defined.

Definition op_kind (o : op) : okind := match o with ODesync _ => KDesync | OSync _ => KSync | OTrySync _ => KTry end.
Definition job_id (j : job) : nat := match j with JPlain o | JSyncDrain o _ | JSyncBg o _ => o end.
#[export] Instance job_eq_dec : EqDecision job. Proof. solve_decision. Defined.

(* after the step, is actor [a] back at the top level of its script? *)
Definition at_top (s : state) (a : nat) : bool :=
  match s.(actors) !! a with
  | Some ac => match ac.(stack) with FTop _ :: _ => true | _ => false end
  | None => false
  end.

(* the events performed by the step [s --a--> s'] *)
Definition obs' (T : tables) (s : state) (a : nat) (s' : state) : list hevent :=
  match s.(actors) !! a with
  | None => []
  | Some ac =>
    let i := ac.(opctr) in
    let ret := if at_top s' a then [Ret i] else [] in
    match ac.(stack) with
    | [] => []
    | FTop [] :: _ => []
    | FTop (o :: _) :: _ => [Call s.(nextop) (op_q o) (op_kind o)]
    | FD1 q :: _ =>
        match s.(queues) !! q with
        | Some qq => Push i q :: match snd (T.(t_desync) qq.(qs)) with DASchedule => [] | DANone => [Ret i] | DAPanic => [RetPanic i] end
        | None => []
        end
    | FS1 q :: _ =>
        match s.(queues) !! q with
        | Some qq => match snd (T.(t_sync) qq.(qs) (bool_decide (qq.(jobs) = []))) with
                     | SAImmediate => [Push i q] | SAPanic => [RetPanic i] | _ => [] end
        | None => []
        end
    | FTS1 q :: _ =>
        match s.(queues) !! q with
        | Some qq => match snd (T.(t_trysync) qq.(qs) (bool_decide (qq.(jobs) = []))) with
                     | TAImmediate => [Push i q] | TABusy => [RetBusy i] | TAPanic => [RetPanic i] end
        | None => []
        end
    | FSDpush q :: _ | FSBpush q :: _ => [Push i q]
    | FSIrun q :: _ => [Run i q]
    | FROrun q j :: _ | FDRrun q j :: _ => [Run (job_id j) q]
    | _ => ret
    end
  end.

(* the observer: the events performed when actor [a] moves in state [s] (none if it cannot move) *)
Definition obs (T : tables) (F : facts) (s : state) (a : nat) : list hevent :=
  match step T F s a with Some s' => obs' T s a s' | None => [] end.

(* the product of the model with its history; the first component is exactly [step] *)
Definition steph (T : tables) (F : facts) (sh : state * list hevent) (a : nat) : option (state * list hevent) :=
  s' ← step T F sh.1 a; Some (s', sh.2 ++ obs T F sh.1 a).
Definition runh (T : tables) (F : facts) (sh : state * list hevent) (tr : list nat) : option (state * list hevent) :=
  foldl (fun o a => x ← o; steph T F x a) (Some sh) tr.
(* the history of the run of [tr] from [s] (in chronological order) *)
Definition hist (T : tables) (F : facts) (s : state) (tr : list nat) : list hevent :=
  match runh T F (s, []) tr with Some (_, h) => h | None => [] end.

(* ---------- reading a history ---------- *)
Definition ev_id (e : hevent) : nat := match e with Call i _ _ | Push i _ | Run i _ | Ret i | RetBusy i | RetPanic i => i end.
(* ids pushed on q, in push order *)
Definition pushed (h : list hevent) (q : nat) : list nat :=
  omap (fun e => match e with Push i q' => if decide (q' = q) then Some i else None | _ => None end) h.
Definition pushed_all (h : list hevent) : list nat := omap (fun e => match e with Push i _ => Some i | _ => None end) h.
(* ids run on q, in run order *)
Definition ranq (h : list hevent) (q : nat) : list nat :=
  omap (fun e => match e with Run i q' => if decide (q' = q) then Some i else None | _ => None end) h.
Definition runs (h : list hevent) : list nat := omap (fun e => match e with Run i _ => Some i | _ => None end) h.
Definition finished (i : nat) (h : list hevent) : Prop := Ret i ∈ h \/ RetBusy i ∈ h \/ RetPanic i ∈ h.
(* e1 occurs, and later e2 occurs *)
Definition before (e1 e2 : hevent) (h : list hevent) : Prop := exists h1 h2 h3, h = h1 ++ e1 :: h2 ++ e2 :: h3.

(* ---------- an executable scheduler to produce example traces ---------- *)
Fixpoint first_enabled (T : tables) (F : facts) (s : state) (cands : list nat) : option (nat * state) :=
  match cands with
  | [] => None
  | a :: r => match step T F s a with Some s' => Some (a, s') | None => first_enabled T F s r end
  end.
(* at each step try the actors in the order given by the head of [prefs] (then everybody) *)
Fixpoint auto_trace (T : tables) (F : facts) (s : state) (prefs : list (list nat)) (fuel : nat) : list nat :=
  match fuel with
  | 0 => []
  | S n =>
    let '(p, ps) := match prefs with [] => ([], []) | p :: ps => (p, ps) end in
    match first_enabled T F s (p ++ seq 0 (length s.(actors))) with
    | Some (a, s') => a :: auto_trace T F s' ps n
    | None => []
    end
  end.
