(* C05 (order part) - dropping a Desync waits for everything scheduled before.  Layer L1.

   Desync::drop is sync(free) (fact_drop_is_sync_free); in the model it is an OSync q with id D that is issued when
   every other operation on q has returned (nobody else holds a reference any more): the history is h1 ++ Call D q KSync :: h2
   and every other operation on q has finished (Ret / RetBusy / RetPanic) inside h1.
   Then, when D's closure runs, every other operation pushed on q has already run, and nothing runs on q afterwards.
   Fully proved (the corollary of C02 and of the queue law).  Not covered here: that the sync returns (liveness is C03/L_quiet). *)
From stdpp Require Import list numbers option.
From L0 Require Import Types.
From Gen Require Import Tables.
From L1 Require Import Model Own Shape Stuck.
From L1h Require Import Hist Abs Sim HistFacts Main Examples.

Theorem C05_drop_runs_last_L1 :
  forall (T : tables) (F : facts), own_conditions T -> imm_conditions T ->
  forall nq mx scripts tr s D q h1 h2,
    run T F (init nq mx scripts) tr = Some s ->
    let h := hist T F (init nq mx scripts) tr in
    h = h1 ++ Call D q KSync :: h2 ->
    (forall B k, B <> D -> Call B q k ∈ h -> finished B h1) ->
    forall h3 h4, h = h3 ++ Run D q :: h4 ->
      (forall B, B <> D -> Push B q ∈ h -> Run B q ∈ h3) /\ (forall B, Run B q ∉ h4).
Proof. exact drop_runs_last. Qed.

(* without the "last operation" hypothesis: whatever had returned before the drop call started has run before the drop's closure *)
Theorem C05_drop_after_returned_L1 :
  forall (T : tables) (F : facts), own_conditions T -> imm_conditions T ->
  forall nq mx scripts tr s A D q ka,
    run T F (init nq mx scripts) tr = Some s ->
    let h := hist T F (init nq mx scripts) tr in
    Call A q ka ∈ h -> before (Ret A) (Call D q KSync) h ->
    forall h3 h4, h = h3 ++ Run D q :: h4 -> Run A q ∈ h3.
Proof. exact drop_after_returned. Qed.

Print Assumptions C05_drop_after_returned_L1.
Print Assumptions C05_drop_runs_last_L1.

(* non-vacuity: in run C the sync 4 on object 0 is called after the operations 0, 2 (busy) and 3 on object 0 have returned;
   its closure runs after 0 and 3; only the operation 1 on the other object runs later *)
Example C05_hypotheses_hold :
  let h := hist gen_tables gen_facts exC_init exC_trace in
  (exists s, run gen_tables gen_facts exC_init exC_trace = Some s) /\
  h = exC_h1 ++ Call 4 0 KSync :: exC_h2 /\
  (forall B k, B <> 4 -> Call B 0 k ∈ h -> finished B exC_h1) /\
  h = (exC_h1 ++ [Call 4 0 KSync; Push 4 0; Run 0 0; Run 3 0]) ++ Run 4 0 :: [Ret 4; Run 1 1].
Proof.
  cbv zeta. rewrite exC_hist_ok. split; [destruct exC_run_ok as (s & H & _); exists s; exact H|]. split; [done|]. split; [|done].
  intros B k Hne Hc. unfold exC_h1, exC_h2 in Hc. cbn in Hc.
  repeat (apply elem_of_cons in Hc as [Hc|Hc]; [try discriminate; injection Hc as -> _|]); try by apply elem_of_nil in Hc.
  - left. apply elem_of_b_true. vm_compute. reflexivity.
  - right; left. apply elem_of_b_true. vm_compute. reflexivity.
  - left. apply elem_of_b_true. vm_compute. reflexivity.
  - done.
Qed.
