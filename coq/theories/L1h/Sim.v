(* L1h: every L1 step is a step of the abstract history machine performing exactly the observed events *)
From stdpp Require Import list numbers option.
From RecordUpdate Require Import RecordUpdate.
From L1 Require Import Model Own Shape Stuck.
From L1h Require Import Hist Abs SimBase.

(* an immediate sync / try_sync is only chosen when no job is stored *)
Record imm_conditions (T : tables) : Prop := {
  c_imm_sync : forall st e st', T.(t_sync) st e = (st', SAImmediate) -> e = true;
  c_imm_try : forall st e st', T.(t_trysync) st e = (st', TAImmediate) -> e = true;
}.

Ltac asame_tac :=
  repeat first
   [ exact (asame_refl _)
   | apply asame_foldl_notify
   | apply asame_upda; [intros ?; done|]
   | lazymatch goal with |- asame ?X ?s =>
        let Y := lazymatch X with updq ?Y _ _ => Y | updt ?Y _ _ => Y | set _ _ ?Y => Y end in change (asame Y s) end ].
Ltac oj_peel :=
  repeat first
   [ rewrite oj_upda | rewrite oj_updt | rewrite oj_setstack | rewrite oj_foldl_notify | rewrite oj_run_job
   | rewrite oj_updq_same by (intros ?; done)
   | lazymatch goal with |- context [oj (set ?fld ?f ?Y) ?q] => change (oj (set fld f Y) q) with (oj Y q) end ].
Ltac fld_tac := cbn; rewrite ?(proj1 (proj2 (foldl_notify_fields _ _ _))), ?(proj2 (proj2 (foldl_notify_fields _ _ _))); done.

Section Sim.
  Context (T : tables) (F : facts) (HT : own_conditions T) (HI : imm_conditions T).

  Lemma step_sim s a s' : Shape s -> Inv s -> step T F s a = Some s' -> astep (view s) a (obs' T s a s') (view s').
  Proof.
    intros HS HIv Hstep. unfold step in Hstep.
    destruct (actors s !! a) as [ac|] eqn:Ea; cbn in Hstep; [|congruence].
    destruct (stack ac) as [|fr rest] eqn:Est; [congruence|].
    pose proof (kind_of s a ac HS Ea) as Hkind. rewrite Est in Hkind.
    pose proof (fun q' => stack_cnt_self s a ac q' Ea) as Hcnt. rewrite Est in Hcnt.
    destruct fr.
    all: cbn beta iota zeta in Hstep.
    all: repeat (first
         [ match type of Hstep with
           | context [queues _ !! ?q] => let E := fresh "Eq" in destruct (queues s !! q) as [qq|] eqn:E; cbn in Hstep; [|congruence]
           | context [threads _ !! ?t] => let E := fresh "Et" in destruct (threads s !! t) as [th|] eqn:E; cbn in Hstep
           end
         | match type of Hstep with context [match ?x with _ => _ end] => let E := fresh "E" in destruct x eqn:E end; cbn in Hstep; try congruence ]).
    all: try discriminate.
    all: try (injection Hstep as <-).
    all: destruct Hkind as [[Hlt Hok]|(t0 & Hat & Hok)];
         [ apply caller_ok_inv in Hok as [(-> & Hfr)|[(os & -> & Hsf)|(g & os & -> & Hpo)]]; try discriminate;
           try (cbn in Hpo; destruct g; try discriminate; try (apply bool_decide_eq_true in Hpo; subst))
         | clear Hat; apply pool_ok_inv in Hok as [(-> & Hfr)|(-> & Hfr)]; try discriminate; try (cbn in Hfr; apply bool_decide_eq_true in Hfr; subst) ].
    (* steps that show nothing: same phase, same hands, same jobs *)
    all: try (rewrite (obs'_plain T s a ac _ _ _ Ea Est eq_refl);
              lazymatch goal with |- astep _ _ (if at_top (setstack ?X _ ?st) _ then _ else _) _ =>
                 assert (HX : asame X s) by asame_tac;
                 rewrite (at_top_setstack X s a ac st HX Ea); cbv beta iota;
                 apply A_stutter; apply (sim_stutter s a ac X st Ea HX);
                 [ intros q'; oj_peel; reflexivity | fld_tac | fld_tac | rewrite Est; reflexivity
                 | intros q'; rewrite Est; cbn; repeat case_decide; try done ] end; fail).
    (* the call returns; a sync call sees its result *)
    all: try (rewrite (obs'_plain T s a ac _ _ _ Ea Est eq_refl);
              lazymatch goal with |- astep _ _ (if at_top (setstack ?X _ ?st) _ then _ else _) _ =>
                 assert (HX : asame X s) by asame_tac;
                 rewrite (at_top_setstack X s a ac st HX Ea); cbv beta iota;
                 first [ eapply (A_ret _ _ _ (aact ac)) | eapply (A_done _ _ _ (aact ac)) ];
                 [ apply acts_lookup, Ea | cbn; rewrite Est; reflexivity | try (cbn; first [left; assumption | right; assumption]) ..
                 | apply (sim_phase s a ac X st Ea HX);
                   [ intros q'; oj_peel; reflexivity | fld_tac | fld_tac | intros q'; rewrite Est; cbn; repeat case_decide; try done ] ] end; fail).
    all: lazymatch goal with Est : stack _ = ?f :: ?r |- _ => idtac f r end.
    Show 1. Show 4. Show 8. Show 9.
  Admitted.
End Sim.
