(* L1h: every L1 step is a step of the abstract history machine performing exactly the observed events *)
From stdpp Require Import list numbers option.
From RecordUpdate Require Import RecordUpdate.
From L1 Require Import Model Own Shape Stuck.
From L1h Require Import WeakWF Hist Abs SimBase.

(* an immediate sync / try_sync is only chosen when no job is stored *)
Record imm_conditions (T : tables) : Prop := {
  c_imm_sync : forall st e st', T.(t_sync) st e = (st', SAImmediate) -> e = true;
  c_imm_try : forall st e st', T.(t_trysync) st e = (st', TAImmediate) -> e = true;
}.

Ltac asame_tac :=
  repeat first
   [ exact (asame_refl _)
   | apply asame_foldl_notify
   | apply asame_upda; [intros ?; done|]
   | lazymatch goal with |- asame ?X ?s =>
        let Y := lazymatch X with updq ?Y _ _ => Y | updt ?Y _ _ => Y | set _ _ ?Y => Y end in change (asame Y s) end ].
Ltac oj_peel :=
  repeat first
   [ rewrite oj_upda | rewrite oj_updt | rewrite oj_setstack | rewrite oj_foldl_notify | rewrite oj_run_job
   | rewrite oj_updq_same by (intros ?; done)
   | lazymatch goal with |- context [oj (set ?fld ?f ?Y) ?q] => change (oj (set fld f Y) q) with (oj Y q) end ].
Ltac obs_compute Ea Est :=
  unfold obs'; rewrite Ea; cbv beta iota zeta; rewrite Est; cbv beta iota zeta;
  repeat match goal with Eq : queues _ !! _ = Some _ |- _ => rewrite Eq; cbv beta iota zeta end.
Ltac fld_tac := cbn; rewrite ?(proj1 (proj2 (foldl_notify_fields _ _ _))), ?(proj2 (proj2 (foldl_notify_fields _ _ _))); done.

Ltac phase_tac Ea Est :=
  lazymatch goal with |- veq (view (setstack ?X ?a ?st)) _ =>
    eapply (sim_phase _ a _ X st Ea);
    [ asame_tac | intros q'; oj_peel; reflexivity | fld_tac | fld_tac | intros q'; rewrite Est; cbn; repeat case_decide; try done ] end.

Section Sim.
  Context (T : tables) (F : facts) (HT : own_conditions T) (HI : imm_conditions T).

  Lemma step_sim s a s' : Shape s -> Inv s -> WF' s -> step T F s a = Some s' -> astep (view s) a (obs' T s a s') (view s').
  Proof.
    intros HS HIv HW Hstep. unfold step in Hstep.
    destruct (actors s !! a) as [ac|] eqn:Ea; cbn in Hstep; [|congruence].
    destruct (stack ac) as [|fr rest] eqn:Est; [congruence|].
    pose proof (kind_of s a ac HS Ea) as Hkind. rewrite Est in Hkind.
    pose proof (fun q' => stack_cnt_self s a ac q' Ea) as Hcnt. rewrite Est in Hcnt.
    pose proof (WF'_self s a ac HW Ea) as Hwf. rewrite Est in Hwf. cbn [forallb] in Hwf. apply andb_true_iff in Hwf as [Hfrok _].
    destruct fr.
    all: cbn [frame_ok' frame_ok] in Hfrok.
    all: cbn beta iota zeta in Hstep.
    all: repeat (first
         [ match type of Hstep with
           | context [queues _ !! ?q] => let E := fresh "Eq" in destruct (queues s !! q) as [qq|] eqn:E; cbn in Hstep; [|congruence]
           | context [threads _ !! ?t] => let E := fresh "Et" in destruct (threads s !! t) as [th|] eqn:E; cbn in Hstep
           end
         | match type of Hstep with context [match ?x with _ => _ end] => let E := fresh "E" in destruct x eqn:E end; cbn in Hstep; try congruence ]).
    all: try discriminate.
    all: try (injection Hstep as <-).
    all: try (lazymatch goal with Eq : queues _ !! _ = Some _ |- _ => fail | _ => idtac end;
              apply bool_decide_eq_true in Hfrok; destruct (queue_exists s _ Hfrok) as [qq Eq]).
    all: destruct Hkind as [[Hlt Hok]|(t0 & Hat & Hok)];
         [ apply caller_ok_inv in Hok as [(-> & Hfr)|[(os & -> & Hsf)|(g & os & -> & Hpo)]]; try discriminate;
           try (cbn in Hpo; destruct g; try discriminate; try (apply bool_decide_eq_true in Hpo; subst))
         | clear Hat; apply pool_ok_inv in Hok as [(-> & Hfr)|(-> & Hfr)]; try discriminate; try (cbn in Hfr; apply bool_decide_eq_true in Hfr; subst) ].
    (* steps that show nothing: same phase, same hands, same jobs *)
    all: try (rewrite (obs'_plain T s a ac _ _ _ Ea Est eq_refl);
              lazymatch goal with |- astep _ _ (if at_top (setstack ?X _ ?st) _ then _ else _) _ =>
                 assert (HX : asame X s) by asame_tac;
                 rewrite (at_top_setstack X s a ac st HX Ea); cbv beta iota;
                 apply A_stutter; apply (sim_stutter s a ac X st Ea HX);
                 [ intros q'; oj_peel; reflexivity | fld_tac | fld_tac | rewrite Est; reflexivity
                 | intros q'; rewrite Est; cbn; repeat case_decide; try done ] end; fail).
    (* the call returns; a sync call sees its result *)
    all: try (rewrite (obs'_plain T s a ac _ _ _ Ea Est eq_refl);
              lazymatch goal with |- astep _ _ (if at_top (setstack ?X _ ?st) _ then _ else _) _ =>
                 assert (HX : asame X s) by asame_tac;
                 rewrite (at_top_setstack X s a ac st HX Ea); cbv beta iota;
                 first [ eapply (A_ret _ _ _ (aact ac)) | eapply (A_done _ _ _ (aact ac)) ];
                 [ apply acts_lookup, Ea | cbn; rewrite Est; reflexivity | try (cbn; first [left; assumption | right; assumption]) ..
                 | apply (sim_phase s a ac X st Ea HX);
                   [ intros q'; oj_peel; reflexivity | fld_tac | fld_tac | intros q'; rewrite Est; cbn; repeat case_decide; try done ] ] end; fail).
    (* facts about the queue the step touches *)
    all: try (match goal with Eq : queues _ !! ?q = Some ?qq |- _ => assert (Hoj : oj s q = Some (owner qq, jobs qq)) by (by apply oj_lookup) end).
    all: try (match goal with Eq : queues _ !! ?q = Some ?qq |- _ => assert (Hown : owner qq = Some a)
               by (eapply (runner_owns s a q qq 0); [exact HIv| |exact Eq]; rewrite Hcnt; cbn [cnt owns_b]; rewrite bool_decide_true by done; done) end).
    all: try (match goal with Eq : queues _ !! ?q = Some ?qq |- _ => assert (Hfree : owner qq = None)
               by (apply (acq_free s q qq HIv Eq);
                   match goal with
                   | E : t_sync _ _ _ = (_, SAImmediate) |- _ => exact (proj1 (c_sync T HT _ _ _ _ E))
                   | E : t_sync _ _ _ = (_, SADrain) |- _ => exact (proj1 (c_sync T HT _ _ _ _ E))
                   | E : t_trysync _ _ _ = (_, TAImmediate) |- _ => exact (proj1 (c_try T HT _ _ _ _ E))
                   | E : t_claim _ _ = Some _ |- _ => exact (proj1 (c_claim T HT _ _ E))
                   | E : t_next _ _ = Some _ |- _ => exact (proj1 (c_next T HT _ _ E))
                   end) end).
    (* a new operation starts *)
    all: lazymatch goal with Est : stack _ = [FTop _] |- _ =>
           obs_compute Ea Est; cbn [op_q op_kind];
           eapply (A_call (view s) a _ (aact ac)); [apply acts_lookup, Ea | cbn; rewrite Est; reflexivity | lazymatch goal with |- veq (view (setstack _ _ [?fr; FTop ?l'])) _ => apply (sim_call s a ac fr l' Ea); [intros; by rewrite Est|done] end ]
         | _ => idtac end.
    (* the job is appended to the queue *)
    all: lazymatch goal with
         | Est : stack _ = FD1 _ :: _, E : t_desync _ _ = (_, ?act), Hoj : oj _ _ = _, Eq : queues _ !! _ = Some _ |- _ =>
             obs_compute Ea Est; rewrite E; cbn [snd];
             lazymatch goal with |- astep _ _ _ (view (setstack (updq _ ?q ?g) _ ?st)) =>
               let d := lazymatch act with DASchedule => constr:(DGoOn) | DANone => constr:(DRet) | DAPanic => constr:(DPanic) end in
               eapply (A_pushd (view s) a _ (aact ac) q d);
               [ apply acts_lookup, Ea | cbn; rewrite Est; reflexivity
               | eapply (sim_push s a ac q g st _ _ _ Ea Hoj); [rewrite oj_updq, decide_True by done; rewrite Eq; reflexivity | intros q'; rewrite Est; reflexivity ] ] end
         | Est : stack _ = FSDpush _ :: _, Hoj : oj _ _ = _, Eq : queues _ !! _ = Some _ |- _ =>
             obs_compute Ea Est;
             lazymatch goal with |- astep _ _ _ (view (setstack (updq _ ?q ?g) _ ?st)) =>
               eapply (A_pushs (view s) a _ (aact ac) q (JSyncDrain (opctr ac) a));
               [ apply acts_lookup, Ea | cbn; rewrite Est; reflexivity | left; reflexivity
               | eapply (sim_push s a ac q g st _ _ _ Ea Hoj); [rewrite oj_updq, decide_True by done; rewrite Eq; reflexivity | intros q'; rewrite Est; reflexivity ] ] end
         | Est : stack _ = FSBpush _ :: _, Hoj : oj _ _ = _, Eq : queues _ !! _ = Some _ |- _ =>
             obs_compute Ea Est;
             lazymatch goal with |- astep _ _ _ (view (setstack (updq _ ?q ?g) _ ?st)) =>
               eapply (A_pushs (view s) a _ (aact ac) q (JSyncBg (opctr ac) a));
               [ apply acts_lookup, Ea | cbn; rewrite Est; reflexivity | right; reflexivity
               | eapply (sim_push s a ac q g st _ _ _ Ea Hoj); [rewrite oj_updq, decide_True by done; rewrite Eq; reflexivity | intros q'; rewrite Est; reflexivity ] ] end
         | _ => idtac end.
    (* the call panics or try_sync finds the queue busy *)
    all: lazymatch goal with
         | E : t_sync _ _ _ = (_, SAPanic) |- _ =>
             obs_compute Ea Est; rewrite E; cbn [snd]; eapply (A_panic (view s) a _ (aact ac) KSync);
             [ apply acts_lookup, Ea | cbn; rewrite Est; reflexivity | phase_tac Ea Est ]
         | E : t_trysync _ _ _ = (_, TAPanic) |- _ =>
             obs_compute Ea Est; rewrite E; cbn [snd]; eapply (A_panic (view s) a _ (aact ac) KTry);
             [ apply acts_lookup, Ea | cbn; rewrite Est; reflexivity | phase_tac Ea Est ]
         | E : t_sync _ _ _ = (_, SABackground) |- _ =>
             obs_compute Ea Est; rewrite E; cbn [snd]; apply A_stutter;
             lazymatch goal with |- veq (view (setstack ?X _ ?st)) _ =>
               apply (sim_stutter s a ac X st Ea);
               [ asame_tac | intros q'; oj_peel; reflexivity | fld_tac | fld_tac | rewrite Est; reflexivity
               | intros q'; rewrite Est; cbn; repeat case_decide; try done ] end
         | E : t_trysync _ _ _ = (_, TABusy) |- _ =>
             obs_compute Ea Est; rewrite E; cbn [snd]; eapply (A_busy (view s) a _ (aact ac));
             [ apply acts_lookup, Ea | cbn; rewrite Est; reflexivity | phase_tac Ea Est ]
         | _ => idtac end.
    (* acquiring or releasing the queue, taking the first job: the pending jobs stay the same *)
    all: lazymatch goal with
         | E : t_sync _ _ _ = (_, SAImmediate) |- _ => idtac
         | E : t_trysync _ _ _ = (_, TAImmediate) |- _ => idtac
         | Hoj : oj _ _ = _, Eq : queues _ !! _ = Some _ |- astep _ _ (obs' _ _ _ (setstack (updq ?X ?q ?g) _ ?st)) _ =>
             first [ rewrite (obs'_plain T s a ac _ _ _ Ea Est eq_refl);
                     assert (HX : asame (updq X q g) s) by asame_tac;
                     rewrite (at_top_setstack _ s a ac st HX Ea); cbv beta iota; clear HX
                   | obs_compute Ea Est; match goal with E : t_sync _ _ _ = _ |- _ => rewrite E end; cbn [snd] ];
             apply A_stutter; eapply (sim_q s a ac X q g st _ _ _ _ Ea);
             [ asame_tac | intros q'; oj_peel; reflexivity | fld_tac | fld_tac | exact Hoj
             | try solve [rewrite oj_updq, decide_True by done; repeat (rewrite queues_updq, decide_True by done);
               lazymatch goal with |- context [queues ?Y !! _] => change (queues Y) with (queues s) end; rewrite Eq; cbn; reflexivity]
             | try solve [rewrite Est; reflexivity]
             | try solve [intros q' Hne; rewrite Est; cbn; repeat case_decide; try done; congruence]
             | try solve [first [left; assumption | right; assumption]]
             | try solve [first [left; reflexivity | right; reflexivity | right; assumption]]
             | try solve [rewrite ?Hown, ?Hfree, ?Est; try (match goal with E : jobs _ = _ :: _ |- _ => rewrite E end); cbn; rewrite ?decide_True by done; done] ]
         | _ => idtac end.
    (* push-and-take of an immediate sync / try_sync *)
    all: lazymatch goal with
         | E : t_sync _ _ _ = (_, SAImmediate), Hoj : oj _ _ = _, Eq : queues _ !! _ = Some ?qq |- _ =>
             obs_compute Ea Est; rewrite E; cbn [snd];
             assert (Hemp : jobs qq = []) by (eapply bool_decide_eq_true; exact (c_imm_sync T HI _ _ _ E));
             lazymatch goal with |- astep _ _ _ (view (setstack (updq ?X ?q ?g) _ [_; FTop ?os])) =>
               eapply (A_imm (view s) a _ (aact ac) KSync q);
               [ apply acts_lookup, Ea | cbn; rewrite Est; reflexivity | done | cbn; unfold pend; rewrite Hoj, Hfree; exact Hemp
               | eapply (sim_imm s a ac X q g os Ea);
                 [ asame_tac | intros q'; oj_peel; reflexivity | fld_tac | fld_tac | rewrite Hoj, Hfree, Hemp; reflexivity
                 | rewrite oj_updq, decide_True by done; repeat (rewrite queues_updq, decide_True by done); rewrite Eq; cbn; rewrite Hemp; reflexivity
                 | intros q'; rewrite Est; reflexivity ] ] end
         | E : t_trysync _ _ _ = (_, TAImmediate), Hoj : oj _ _ = _, Eq : queues _ !! _ = Some ?qq |- _ =>
             obs_compute Ea Est; rewrite E; cbn [snd];
             assert (Hemp : jobs qq = []) by (eapply bool_decide_eq_true; exact (c_imm_try T HI _ _ _ E));
             lazymatch goal with |- astep _ _ _ (view (setstack (updq ?X ?q ?g) _ [_; FTop ?os])) =>
               eapply (A_imm (view s) a _ (aact ac) KTry q);
               [ apply acts_lookup, Ea | cbn; rewrite Est; reflexivity | done | cbn; unfold pend; rewrite Hoj, Hfree; exact Hemp
               | eapply (sim_imm s a ac X q g os Ea);
                 [ asame_tac | intros q'; oj_peel; reflexivity | fld_tac | fld_tac | rewrite Hoj, Hfree, Hemp; reflexivity
                 | rewrite oj_updq, decide_True by done; repeat (rewrite queues_updq, decide_True by done); rewrite Eq; cbn; rewrite Hemp; reflexivity
                 | intros q'; rewrite Est; reflexivity ] ] end
         | _ => idtac end.
    (* a closure runs *)
    all: lazymatch goal with
         | Est : stack _ = FSIrun ?q :: _, Hoj : oj _ _ = Some (_, jobs ?qq) |- astep _ _ _ (view (setstack ?X _ ?st)) =>
             obs_compute Ea Est;
             destruct (sim_unhand s a ac X q st (JPlain (opctr ac)) (jobs qq) (acts s) Ea) as [Hp Hv];
             [ done | reflexivity | intros; reflexivity | rewrite Hoj, Hown; reflexivity
             | rewrite Est; cbn; rewrite decide_True by done; done | cbn; done
             | intros q' Hne; rewrite Est; cbn; repeat case_decide; try done; congruence | ];
             eapply (A_runimm (view s) a _ (aact ac) q (jobs qq)); [ apply acts_lookup, Ea | cbn; rewrite Est; reflexivity | exact Hp | exact Hv ]
         | Hoj : oj _ ?q = Some (_, jobs ?qq) |- astep _ _ _ (view (setstack (run_job _ _ ?j) _ ?st)) =>
             obs_compute Ea Est;
             destruct (sim_run F s a ac q st j (jobs qq) Ea) as [Hp Hv];
             [ rewrite Hoj, Hown; reflexivity
             | rewrite Est; cbn; rewrite decide_True by done; done | cbn; done
             | intros q' Hne; rewrite Est; cbn; repeat case_decide; try done; congruence | rewrite Est; reflexivity | ];
             eapply (A_run (view s) a _ q j (jobs qq)); [ exact Hp | exact Hv ]
         | _ => idtac end.
    (* a pool thread is spawned *)
    all: lazymatch goal with
         | |- astep _ _ _ (view (setstack (_ <| threads := ?TH |> <| actors := _ ++ [?new] |>) _ ?st)) =>
             rewrite (obs'_plain T s a ac _ _ _ Ea Est eq_refl);
             unfold at_top; rewrite actors_setstack_lookup, decide_True by done; cbn [actors set];
             rewrite lookup_app_l by (eapply lookup_lt_Some, Ea); rewrite Ea; cbv beta iota; cbn [fmap option_fmap option_map stack set];
             apply A_spawn; apply (sim_spawn s a ac st new TH Ea HIv); [ rewrite Est; reflexivity | intros q'; rewrite Est; reflexivity | done ]
         | _ => idtac end.
  Qed.
End Sim.
