(* L1h: an abstract "history machine" that L1 refines.  Definitions only.
   Of an actor it keeps the phase of its current API call, the id of that call and the result/ready flags;
   of a queue it keeps the pending jobs: the job in the hand of the queue's current owner followed by the stored jobs. *)
From stdpp Require Import list numbers option.
From RecordUpdate Require Import RecordUpdate.
From L1 Require Import Model Shape Stuck.
From L1h Require Import Hist.

Inductive phase :=
| PIdle                          (* a caller between two operations *)
| PPool                          (* a pool thread *)
| PPre (k : okind) (q : nat)     (* called, job not yet pushed *)
| PHand (q : nat)                (* immediate sync/try_sync: pushed-and-taken, the closure is about to run *)
| PWait (q : nat)                (* sync with a queued job: waits for (or drains towards) its own job *)
| PPost.                         (* nothing left to push or run; will return *)
#[export] Instance phase_eq_dec : EqDecision phase. Proof. solve_decision. Defined.

(* the phase is determined by the frame directly above the script frame *)
Definition api_phase (f : frame) : phase :=
  match f with
  | FD1 q => PPre KDesync q
  | FS1 q | FSDpush q | FSBreg q | FSBpush q => PPre KSync q
  | FTS1 q => PPre KTry q
  | FSIrun q => PHand q
  | FSDloop q | FSBcheck q | FSBwait q | FSBwoken q | FSBclaim q | FSBsteal q | FSBstealidle q => PWait q
  | FD2 _ | FSTlock | FSTscan _ | FSTspawn | FSIidle _ | FSDidle _ | FSBdone _ | FRQ1 _ | FRQ2 _ => PPost
  | _ => PPool
  end.
Definition aph (st : list frame) : phase :=
  match st with
  | [] => PPool
  | [x] => if is_top x then PIdle else PPool
  | [x; g] => if is_top g then api_phase x else PPool
  | [x; g; h] => if is_top h then api_phase g else PPool
  | _ => PPool
  end.

Record aactor := { ph : phase; aop : nat; ares : bool; ardy : bool }.
#[export] Instance eta_aactor : Settable _ := settable! Build_aactor <ph; aop; ares; ardy>.
Definition aact (ac : actor) : aactor := {| ph := aph ac.(stack); aop := ac.(opctr); ares := ac.(result); ardy := ac.(ready) |}.
Definition acts (s : state) : list aactor := aact <$> s.(actors).

(* the job a stack holds in its hand for queue q (o = the actor's current operation id) *)
Definition hand_fr (q o : nat) (fr : frame) : list job :=
  match fr with
  | FROrun q' j | FDRrun q' j => if decide (q' = q) then [j] else []
  | FSIrun q' => if decide (q' = q) then [JPlain o] else []
  | _ => []
  end.
Fixpoint handl (q o : nat) (st : list frame) : list job :=
  match st with [] => [] | f :: r => hand_fr q o f ++ handl q o r end.

Definition hv (s : state) (b q : nat) : option (list job) := (fun ab => handl q ab.(opctr) ab.(stack)) <$> s.(actors) !! b.
Definition oj (s : state) (q : nat) : option (option nat * list job) := (fun qq => (qq.(owner), qq.(jobs))) <$> s.(queues) !! q.
(* pending jobs of q: what the owner has dequeued and not yet run, then the stored jobs *)
Definition pend (s : state) (q : nat) : list job :=
  match oj s q with
  | Some (Some b, js) => default [] (hv s b q) ++ js
  | Some (None, js) => js
  | None => []
  end.

Record aview := { v_acts : list aactor; v_pend : nat -> list job; v_ran : list nat; v_next : nat }.
Definition view (s : state) : aview := {| v_acts := acts s; v_pend := pend s; v_ran := s.(ran); v_next := s.(nextop) |}.
Definition veq (v w : aview) : Prop :=
  v_acts v = v_acts w /\ (forall q, v_pend v q = v_pend w q) /\ v_ran v = v_ran w /\ v_next v = v_next w.
Definition fupd {A} (q : nat) (x : A) (f : nat -> A) : nat -> A := fun q' => if decide (q' = q) then x else f q'.

(* running a job sets flags of the waiting caller *)
Definition arun_acts (j : job) (A : list aactor) : list aactor :=
  match j with
  | JPlain _ => A
  | JSyncDrain _ c => alter (fun x => x <| ares := true |>) c A
  | JSyncBg _ c => alter (fun x => x <| ares := true |> <| ardy := true |>) c A
  end.
Definition set_ph (p : phase) (x : aactor) : aactor := x <| ph := p |>.

(* how a desync call ends right after its push *)
Inductive dend := DGoOn | DRet | DPanic.
Definition dend_ev (d : dend) (i : nat) : list hevent := match d with DGoOn => [] | DRet => [Ret i] | DPanic => [RetPanic i] end.
Definition dend_ph (d : dend) : phase := match d with DGoOn => PPost | _ => PIdle end.

(* the abstract machine: [astep v a evs w] - actor a moves from v to w performing the events evs *)
Inductive astep (v : aview) (a : nat) : list hevent -> aview -> Prop :=
| A_stutter w : veq w v -> astep v a [] w
| A_spawn w :
    veq w {| v_acts := v_acts v ++ [ {| ph := PPool; aop := 0; ares := false; ardy := false |} ]; v_pend := v_pend v; v_ran := v_ran v; v_next := v_next v |} ->
    astep v a [] w
| A_call w x k q :
    v_acts v !! a = Some x -> ph x = PIdle ->
    veq w {| v_acts := <[a := {| ph := PPre k q; aop := v_next v; ares := false; ardy := false |}]> (v_acts v);
             v_pend := v_pend v; v_ran := v_ran v; v_next := S (v_next v) |} ->
    astep v a [Call (v_next v) q k] w
| A_pushd w x q d :
    v_acts v !! a = Some x -> ph x = PPre KDesync q ->
    veq w {| v_acts := alter (set_ph (dend_ph d)) a (v_acts v); v_pend := fupd q (v_pend v q ++ [JPlain (aop x)]) (v_pend v);
             v_ran := v_ran v; v_next := v_next v |} ->
    astep v a (Push (aop x) q :: dend_ev d (aop x)) w
| A_imm w x k q :
    v_acts v !! a = Some x -> ph x = PPre k q -> k <> KDesync -> v_pend v q = [] ->
    veq w {| v_acts := alter (set_ph (PHand q)) a (v_acts v); v_pend := fupd q [JPlain (aop x)] (v_pend v);
             v_ran := v_ran v; v_next := v_next v |} ->
    astep v a [Push (aop x) q] w
| A_pushs w x q j :
    v_acts v !! a = Some x -> ph x = PPre KSync q -> (j = JSyncDrain (aop x) a \/ j = JSyncBg (aop x) a) ->
    veq w {| v_acts := alter (set_ph (PWait q)) a (v_acts v); v_pend := fupd q (v_pend v q ++ [j]) (v_pend v);
             v_ran := v_ran v; v_next := v_next v |} ->
    astep v a [Push (aop x) q] w
| A_runimm w x q js :
    v_acts v !! a = Some x -> ph x = PHand q -> v_pend v q = JPlain (aop x) :: js ->
    veq w {| v_acts := alter (set_ph PPost) a (v_acts v); v_pend := fupd q js (v_pend v);
             v_ran := aop x :: v_ran v; v_next := v_next v |} ->
    astep v a [Run (aop x) q] w
| A_run w q j js :
    v_pend v q = j :: js ->
    veq w {| v_acts := arun_acts j (v_acts v); v_pend := fupd q js (v_pend v); v_ran := job_id j :: v_ran v; v_next := v_next v |} ->
    astep v a [Run (job_id j) q] w
| A_done w x q :
    v_acts v !! a = Some x -> ph x = PWait q -> (ares x = true \/ ardy x = true) ->
    veq w {| v_acts := alter (set_ph PPost) a (v_acts v); v_pend := v_pend v; v_ran := v_ran v; v_next := v_next v |} ->
    astep v a [] w
| A_ret w x :
    v_acts v !! a = Some x -> ph x = PPost ->
    veq w {| v_acts := alter (set_ph PIdle) a (v_acts v); v_pend := v_pend v; v_ran := v_ran v; v_next := v_next v |} ->
    astep v a [Ret (aop x)] w
| A_busy w x q :
    v_acts v !! a = Some x -> ph x = PPre KTry q ->
    veq w {| v_acts := alter (set_ph PIdle) a (v_acts v); v_pend := v_pend v; v_ran := v_ran v; v_next := v_next v |} ->
    astep v a [RetBusy (aop x)] w
| A_panic w x k q :
    v_acts v !! a = Some x -> ph x = PPre k q ->
    veq w {| v_acts := alter (set_ph PIdle) a (v_acts v); v_pend := v_pend v; v_ran := v_ran v; v_next := v_next v |} ->
    astep v a [RetPanic (aop x)] w.
