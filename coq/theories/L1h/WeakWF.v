(* L1h: every queue id mentioned by a frame that is past its first lookup exists - for arbitrary scripts.
   (L1/Stuck.v proves the stronger WF, but only for scripts that mention existing queues.) *)
From stdpp Require Import list numbers option.
From RecordUpdate Require Import RecordUpdate.
From L1 Require Import Model Shape Stuck.

Definition frame_ok' (n : nat) (fr : frame) : bool :=
  match fr with
  | FTop _ | FD1 _ | FS1 _ | FTS1 _ => true
  | fr => frame_ok n fr
  end.
Definition WF' (s : state) : Prop :=
  forall a st, stacks s !! a = Some st -> forallb (frame_ok' (length s.(queues))) st = true.

Lemma WF'_view s1 s : stacks s1 = stacks s -> length s1.(queues) = length s.(queues) -> WF' s -> WF' s1.
Proof. intros Hst Hl H a st. rewrite Hst, Hl. apply H. Qed.
Lemma WF'_update s s' a newst :
  WF' s -> stacks s' = <[a := newst]> (stacks s) -> length s'.(queues) = length s.(queues) ->
  forallb (frame_ok' (length s.(queues))) newst = true -> WF' s'.
Proof.
  intros H Hst Hl Hnew b st. rewrite Hst, Hl. intros [(-> & <- & _)|(_ & Hb)]%list_lookup_insert_Some; [done|by apply (H b)].
Qed.
Lemma WF'_wake s w ac q rest : WF' s -> s.(actors) !! w = Some ac -> ac.(stack) = FSBwait q :: rest -> WF' (setstack s w (FSBwoken q :: rest)).
Proof.
  intros H Ew Est. eapply WF'_update; [done|apply stacks_setstack|done|].
  specialize (H w (FSBwait q :: rest)). rewrite stacks_lookup, Ew in H. cbn in H. rewrite Est in H. by apply H.
Qed.
Lemma WF'_kick s w (f : actor -> actor) : (forall x, (f x).(stack) = x.(stack)) -> WF' s -> WF' (upda s w f).
Proof. intros Hf. apply WF'_view; [by apply stacks_upda_same|done]. Qed.
Lemma WF'_notify F s w : WF' s -> WF' (notify F s w).
Proof.
  intros HS. unfold notify.
  set (s1 := if f_sticky_notify F then upda s w (fun x => x <| kicked := true |>) else s).
  assert (HS1 : WF' s1) by (subst s1; destruct (f_sticky_notify F); [by apply WF'_kick|done]).
  destruct (actors s1 !! w) as [aw|] eqn:Ew; [|done].
  destruct (stack aw) as [|[] rest] eqn:Es; try done.
  by eapply WF'_wake.
Qed.
Lemma WF'_foldl_notify F ws s : WF' s -> WF' (foldl (notify F) s ws).
Proof. revert s; induction ws as [|w ws IH]; intros s HS; cbn; [done|]. apply IH. by apply WF'_notify. Qed.
Lemma WF'_run_job F s j : WF' s -> WF' (run_job F s j).
Proof.
  intros HS. destruct j as [o|o c|o c]; unfold run_job.
  - by apply (WF'_view _ s).
  - apply WF'_kick; [done|]. by apply (WF'_view _ s).
  - set (s1 := upda _ c _).
    assert (HS1 : WF' s1) by (subst s1; apply WF'_kick; [done|]; by apply (WF'_view _ s)).
    destruct (actors s1 !! c) as [ac|] eqn:Ec; [|done].
    destruct (stack ac) as [|[] rest] eqn:Es; try done.
    by eapply WF'_wake.
Qed.
Lemma WF'_self s a ac : WF' s -> s.(actors) !! a = Some ac -> forallb (frame_ok' (length s.(queues))) ac.(stack) = true.
Proof. intros H Ea. apply (H a). by rewrite stacks_lookup, Ea. Qed.

Ltac wf_new' Hfr Hrest Hql :=
  cbn; rewrite ?Hrest, ?Hfr, ?Hql, ?andb_true_r; cbn; try done;
  repeat (apply andb_true_iff; split); try done; try (apply bool_decide_eq_true; done).

Section WFStep.
  Context (T : tables) (F : facts).

  Lemma step_wf' s a s' : WF' s -> step T F s a = Some s' -> WF' s'.
  Proof.
    intros HW Hstep. unfold step in Hstep.
    destruct (actors s !! a) as [ac|] eqn:Ea; cbn in Hstep; [|congruence].
    destruct (stack ac) as [|fr rest] eqn:Est; [congruence|].
    pose proof (WF'_self s a ac HW Ea) as Hold. rewrite Est in Hold. cbn [forallb] in Hold.
    apply andb_true_iff in Hold as [Hfr Hrest].
    destruct fr.
    all: cbn [frame_ok' frame_ok] in Hfr.
    all: cbn beta iota zeta in Hstep.
    all: repeat (first
         [ match type of Hstep with
           | context [queues _ !! ?q] => let E := fresh "Eq" in destruct (queues s !! q) as [qq|] eqn:E; cbn in Hstep; [|congruence]
           | context [threads _ !! ?t] => let E := fresh "Et" in destruct (threads s !! t) as [th|] eqn:E; cbn in Hstep
           end
         | match type of Hstep with context [match ?x with _ => _ end] => let E := fresh "E" in destruct x eqn:E end; cbn in Hstep; try congruence ]).
    all: try discriminate.
    all: try (injection Hstep as <-).
    all: try (match goal with Eq : queues _ !! ?q = Some _ |- _ =>
                assert (Hql : bool_decide (q < length (queues s)) = true) by (apply bool_decide_eq_true; eapply lookup_lt_Some, Eq) end).
    all: try (eapply (WF'_update s _ a _ HW); [ ob_stacks | cbn; rewrite ?alter_length; done | wf_new' Hfr Hrest Hql ]; fail).
    all: try (eapply (WF'_update s _ a _ HW); [ ob_stacks | cbn; rewrite ?alter_length; done | wf_new' Hfr Hrest Hfr ]; fail).
    (* FSTspawn: a new actor with the stack [FTrecv t] *)
    all: try (lazymatch goal with |- WF' (setstack (_ <| threads := _ |> <| actors := _ |>) _ _) => idtac end;
         set (s1 := s <| threads := _ |> <| actors := _ |>);
         assert (HW1 : WF' s1) by
           (intros b st Hb; subst s1; unfold stacks in Hb; cbn in Hb; rewrite fmap_app in Hb; apply lookup_app_Some in Hb as [Hb|[_ Hb]];
            [ by apply (HW b) | cbn in Hb; destruct (b - _); [|done]; by injection Hb as <- ]);
         eapply (WF'_update s1 _ a _ HW1); [ ob_stacks | done | wf_new' Hfr Hrest Hfr ]; fail).
    (* run_job / notify first *)
    all: try (lazymatch goal with |- WF' (setstack (run_job ?F ?s ?j) ?a ?st) =>
              assert (HW1 : WF' (run_job F s j)) by (by apply WF'_run_job);
              destruct (run_job_frame F s j) as (A & R & Hfr2); rewrite Hfr2 in *;
              eapply (WF'_update _ _ a _ HW1); [ ob_stacks | done | wf_new' Hfr Hrest Hfr ] end; fail).
    all: try (lazymatch goal with |- WF' (setstack (updq (foldl (notify ?F) ?s ?ws) _ _) ?a ?st) =>
              assert (HW1 : WF' (foldl (notify F) s ws)) by (by apply WF'_foldl_notify);
              destruct (foldl_notify_frame F ws s) as (A & Hfr2); rewrite Hfr2 in *;
              eapply (WF'_update _ _ a _ HW1); [ ob_stacks | cbn; rewrite ?alter_length; done | wf_new' Hfr Hrest Hfr ] end; fail).
  Qed.

  Lemma init_wf' nq mx scripts : WF' (init nq mx scripts).
  Proof.
    intros a st Ha. unfold init, stacks in *; cbn in *.
    rewrite <- list_fmap_compose in Ha. rewrite list_lookup_fmap in Ha. destruct (scripts !! a) as [sc|] eqn:E; [|done].
    injection Ha as <-. done.
  Qed.
End WFStep.

(* what the simulation needs: the queue of a frame that is past its first lookup exists *)
Lemma WF'_top s a ac fr rest q :
  WF' s -> s.(actors) !! a = Some ac -> ac.(stack) = fr :: rest -> frame_ok' (length s.(queues)) fr = bool_decide (q < length s.(queues)) ->
  exists qq, s.(queues) !! q = Some qq.
Proof.
  intros HW Ea Est Hfr. pose proof (WF'_self s a ac HW Ea) as H. rewrite Est in H. cbn [forallb] in H. apply andb_true_iff in H as [H _].
  rewrite Hfr in H. apply bool_decide_eq_true in H. by apply lookup_lt_is_Some_2.
Qed.
