(* The Desync<T> wrapper (src/desync.rs) on the code as it is now.  The models speak about queues; `Desync<T>` adds the protected value:
   a raw pointer made by Box::into_raw in `new`, freed by the final synchronous job of `drop` (fact_drop_only_syncs), and dereferenced
   ONLY inside the closure that each operation hands to the scheduler function of the same name on self.queue.  With these shapes every
   access to the value happens inside an operation of the object's queue, which is what C01 (exclusive), C05 (not after the free) and C14
   rest on.  Each method body is compared, whitespace-normalised, with the shape recorded in the translator. *)
From L0 Require Import Types.
From Gen Require Import Tables.

Lemma cl_wrapper_new : fact_wrapper_new = true. Proof. reflexivity. Qed.
Lemma cl_wrapper_desync : fact_wrapper_desync = true. Proof. reflexivity. Qed.
Lemma cl_wrapper_sync : fact_wrapper_sync = true. Proof. reflexivity. Qed.
Lemma cl_wrapper_try_sync : fact_wrapper_try_sync = true. Proof. reflexivity. Qed.
Lemma cl_wrapper_future_desync : fact_wrapper_future_desync = true. Proof. reflexivity. Qed.
Lemma cl_wrapper_future_sync : fact_wrapper_future_sync = true. Proof. reflexivity. Qed.
Lemma cl_wrapper_after : fact_wrapper_after = true. Proof. reflexivity. Qed.
Lemma cl_drop_is_sync_free : fact_drop_is_sync_free = true. Proof. reflexivity. Qed.
Lemma cl_drop_only_syncs : fact_drop_only_syncs = true. Proof. reflexivity. Qed.

(* the scheduler entry points dispatch their decision (the generated tables g_sync / g_trysync / g_sync_no_panic give the action) to the
   routine that the model's frames for that action describe: Immediate -> sync_immediate, Drain -> sync_drain, Wait -> sync_background *)
Lemma cl_dispatch_sync : fact_dispatch_sync = true. Proof. reflexivity. Qed.
Lemma cl_dispatch_try_sync : fact_dispatch_try_sync = true. Proof. reflexivity. Qed.
Lemma cl_dispatch_sync_no_panic : fact_dispatch_sync_no_panic = true. Proof. reflexivity. Qed.

(* Desync::drop on a thread that is already unwinding uses sync_no_panic: it decides exactly like sync (the models have one drop = sync)
   except on a Panicked queue, where it gives up instead of panicking again *)
Lemma cl_sync_no_panic_decides_like_sync : forall st e, g_sync_no_panic st e = g_sync st e \/ (exists a, g_sync_no_panic st e = (Panicked, a) /\ st = Panicked).
Proof. intros st e. destruct st, e; cbn; first [left; reflexivity | right; eexists; split; reflexivity]. Qed.
