(* C08 on the code as it is now: the SyncFuture model's fact parameter and its hard-coded structure are re-read from the source *)
From stdpp Require Import list numbers option.
From L0 Require Import Types.
From Gen Require Import Tables.
From SyncFut Require Import Model PropsC08.

Definition gen_sfacts : sfacts := {| f_state_dropped_first := fact_syncfuture_field_order |}.
(* the theorems about clean cancellation are stated for [code_facts]: that IS what the source says now *)
Lemma cl_syncfuture_field_order : gen_sfacts = code_facts. Proof. reflexivity. Qed.
(* the model drops the fields in declaration order and nothing else: SyncFuture has no Drop impl that would act before them *)
Lemma cl_syncfuture_no_drop_impl : fact_syncfuture_no_drop_impl = true. Proof. reflexivity. Qed.
Lemma cl_future_sync_slot_job : fact_future_sync_slot_job = true. Proof. reflexivity. Qed.
Lemma cl_signal_sets_then_takes_waker : fact_signal_sets_then_takes_waker = true. Proof. reflexivity. Qed.
Lemma cl_signaller_drop_cancels : fact_signaller_drop_cancels = true. Proof. reflexivity. Qed.
Lemma cl_poll_takes_result_first : fact_poll_takes_result_first = true. Proof. reflexivity. Qed.
Lemma cl_poll_stores_waker_when_waiting : fact_poll_stores_waker_when_waiting = true. Proof. reflexivity. Qed.
Lemma cl_desync_push_back : fact_desync_push_back = true. Proof. reflexivity. Qed.

Theorem C08_cancellation_now :
  forall (pl : bool) (nb na : nat) (scr : list uprim) (v nev : nat) (tr : list actor) (s : state) (l1 : list ev) (e : ev) (l2 : list ev),
    run gen_sfacts (init pl nb na scr v nev) tr = Some s -> log s = l1 ++ e :: l2 ->
    (e = SlotEnd \/ (exists k, e = OStart k) -> UStart ∈ l1 -> UCancel ∈ l1 \/ exists x, UFinish x ∈ l1).
Proof.
  intros pl nb na scr v nev tr s l1 e l2 Hr Hl. rewrite cl_syncfuture_field_order in Hr.
  exact (proj2 (proj2 (proj2 (C08_4_clean_cancellation pl nb na scr v nev tr s l1 e l2 Hr Hl)))).
Qed.
Print Assumptions C08_cancellation_now.
