(* C09 (layer L1) on the code as it is now *)
From stdpp Require Import list numbers option.
From RecordUpdate Require Import RecordUpdate.
From L0 Require Import Types.
From Gen Require Import Tables.
From L1 Require Import Model Own Shape Stuck Live TrySync.
From Props Require Import C09.

Lemma cl_trysync : trysync_conditions gen_tables.
Proof.
  split; cbn.
  - intros st e st' H. destruct st, e; inversion H; subst; done.
  - intros st e st' H. destruct st, e; inversion H; subst; done.
  - intros st e st' H. destruct st, e; inversion H; subst; done.
  - done.
Qed.
Lemma cl_own : own_conditions gen_tables.
Proof.
  split; cbn.
  - intros st e st' act H. destruct st, e; inversion H; subst; cbn; auto; split; congruence.
  - intros st e st' act H. destruct st, e; inversion H; subst; cbn; auto; split; congruence.
  - intros st st' act H. destruct st; inversion H; subst; split; congruence.
  - intros st ne st' p H. destruct st, ne; inversion H; subst; split; congruence.
  - intros st st' H. destruct st; inversion H; subst; split; congruence.
  - intros st st' H. destruct st; inversion H; subst; split; congruence.
  - intros e st' d H. destruct e; inversion H; subst; cbn; congruence.
Qed.
Lemma cl_core : core_tables gen_tables.
Proof. split; try done; by intros []. Qed.
Lemma cl_resched_after_idle_sync_immediate : fact_resched_after_idle_sync_immediate = true. Proof. reflexivity. Qed.
Lemma cl_guard_sync_immediate : fact_guard_sync_immediate = true. Proof. reflexivity. Qed.

Theorem C09_all_or_nothing_now : forall s a ac q rest qq s',
    s.(actors) !! a = Some ac -> ac.(stack) = FTS1 q :: rest -> s.(queues) !! q = Some qq -> step gen_tables gen_facts s a = Some s' ->
    (qq.(qs) = Idle /\ qq.(jobs) = [] /\
       s' = setstack (updq (updq s q (fun x => x <| qs := Running |>)) q (fun x => x <| owner := Some a |>)) a (FSIrun q :: rest))
    \/ ((qq.(qs) <> Idle \/ qq.(jobs) <> []) /\ s' = setstack s a rest).
Proof. exact (C09_try_sync_all_or_nothing gen_tables gen_facts cl_trysync). Qed.
Theorem C09_idle_now : forall nq mx scripts tr s q qq,
    run gen_tables gen_facts (init nq mx scripts) tr = Some s -> s.(queues) !! q = Some qq -> qq.(jobs) = [] -> qq.(owner) = None -> qq.(qs) = Idle.
Proof. exact (C09_quiescent_object_is_idle gen_tables gen_facts cl_core cl_own). Qed.
Print Assumptions C09_all_or_nothing_now.
Print Assumptions C09_idle_now.
