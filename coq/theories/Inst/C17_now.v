(* C17 on the code as it is now: the structural facts the L1 pool model hard-codes are re-read from /repo/src on every run *)
From stdpp Require Import list numbers option.
From L0 Require Import Types.
From Gen Require Import Tables.
From L1 Require Import Model Own Shape Stuck Pool.
From Props Require Import C17.

Lemma cl_spawn_cmp : fact_spawn_cmp = CLt. Proof. reflexivity. Qed.
Lemma cl_spawn_atomic : fact_spawn_test_and_push_one_section = true. Proof. reflexivity. Qed.
Lemma cl_despawn_cmp : fact_despawn_cmp = CGt. Proof. reflexivity. Qed.
Lemma cl_despawn_joins : fact_despawn_joins = true. Proof. reflexivity. Qed.
Lemma cl_retry_after_spawn : fact_schedule_thread_retries_after_spawn = true. Proof. reflexivity. Qed.

Theorem C17_now : forall nq mx scripts tr s,
    run gen_tables gen_facts (init nq mx scripts) tr = Some s ->
    length s.(threads) <= mx /\ s.(maxt) = mx /\ length s.(actors) = length scripts + length s.(threads).
Proof. exact (C17_pool_bounded gen_tables gen_facts). Qed.
Theorem C17_zero_now : forall nq scripts tr s,
    run gen_tables gen_facts (init nq 0 scripts) tr = Some s -> s.(threads) = [] /\ length s.(actors) = length scripts.
Proof. exact (C17_no_pool_thread_with_maximum_zero gen_tables gen_facts). Qed.

(* non-vacuity: a concrete program reaches the maximum and stays there *)
Example C17_nonvacuous :
  exists s, run gen_tables gen_facts (init 2 1 [[ODesync 0; ODesync 1]; [ODesync 1]]) [0;0;0;0;0;0;0;0;1;1] = Some s /\ length s.(threads) = 1.
Proof. eexists. split; vm_compute; reflexivity. Qed.
Print Assumptions C17_now.
