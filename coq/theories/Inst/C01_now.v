(* C01 (layer L1) on the code as it is now *)
From stdpp Require Import list numbers option.
From L0 Require Import Types.
From Gen Require Import Tables.
From L1 Require Import Model Own Shape Stuck.
From Props Require Import C01.

Lemma cl_own : own_conditions gen_tables.
Proof.
  split; cbn.
  - intros st e st' act H. destruct st, e; inversion H; subst; cbn; auto; split; congruence.
  - intros st e st' act H. destruct st, e; inversion H; subst; cbn; auto; split; congruence.
  - intros st st' act H. destruct st; inversion H; subst; split; congruence.
  - intros st ne st' p H. destruct st, ne; inversion H; subst; split; congruence.
  - intros st st' H. destruct st; inversion H; subst; split; congruence.
  - intros st st' H. destruct st; inversion H; subst; split; congruence.
  - intros e st' d H. destruct e; inversion H; subst; cbn; congruence.
Qed.
Lemma cl_is_running : forall st, g_is_running st = is_running st. Proof. by intros []. Qed.
Lemma cl_requeue_at_front : fact_requeue_at_front = true. Proof. reflexivity. Qed.
Lemma cl_dequeue_pops_front : fact_dequeue_pops_front = true. Proof. reflexivity. Qed.
Lemma cl_drain_requeues_via_requeue : fact_drain_requeues_via_requeue = true. Proof. reflexivity. Qed.
Lemma cl_run_one_job_now_keeps_job_in_hand : fact_run_one_job_now_keeps_job_in_hand = true. Proof. reflexivity. Qed.
Lemma cl_claim_lock_order : fact_claim_locks_schedule_then_core = true. Proof. reflexivity. Qed.

Theorem C01_now : forall nq mx scripts tr s a b q na nb qq,
    run gen_tables gen_facts (init nq mx scripts) tr = Some s -> s.(queues) !! q = Some qq ->
    stack_cnt s a q = Some (S na) -> stack_cnt s b q = Some (S nb) -> a = b.
Proof. exact (C01_one_runner_per_object_L1 gen_tables gen_facts cl_own). Qed.
Print Assumptions C01_now.
