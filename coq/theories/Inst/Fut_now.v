(* The futures layer (L2/Model.v) on the code as it is now: its tables are generated (L2/Inst.v); the ORDER of the steps inside
   SchedulerFuture::poll / drain_queue, the signaller, the wakers and the Drop impls is hand-written in the model and is re-read from
   the source here, one located pattern per modelling decision.  A [false] makes the corresponding lemma fail: the model is then no
   longer known to describe the code and every property that rests on L2 is reported (with a failing input if the harness finds one). *)
From Gen Require Import Tables.

(* L2 has NO step for dropping a SchedulerFuture: the code's Drop impl is empty, a dropped future leaves the queue state alone *)
Lemma cl_schedfuture_drop_inert : fact_schedfuture_drop_inert = true. Proof. reflexivity. Qed.
(* FDQpend*: the parked state (WaitingForWake / WaitingForPoll self) is written before the deferred wake-up is released (wake_with) *)
Lemma cl_drain_queue_parks_before_wake_with : fact_drain_queue_parks_before_wake_with = true. Proof. reflexivity. Qed.
Lemma cl_drain_queue_stores_waker_before_park : fact_drain_queue_stores_waker_before_park = true. Proof. reflexivity. Qed.
Lemma cl_drain_queue_waiting_for_poll_self : fact_drain_queue_waiting_for_poll_self = true. Proof. reflexivity. Qed.
Lemma cl_drain_queue_requeues_pending : fact_drain_queue_requeues_pending = true. Proof. reflexivity. Qed.
Lemma cl_drain_queue_requeue_first : fact_drain_queue_requeue_first = true. Proof. reflexivity. Qed.
Lemma cl_resched_after_idle_drain_queue : fact_resched_after_idle_drain_queue = true. Proof. reflexivity. Qed.
Lemma cl_guard_drain_queue : fact_guard_drain_queue = true. Proof. reflexivity. Qed.
(* FSFpoll: result taken first; the task waker is stored in the section that found the result missing; core lock nested inside *)
Lemma cl_poll_takes_result_first : fact_poll_takes_result_first = true. Proof. reflexivity. Qed.
Lemma cl_poll_stores_waker_when_waiting : fact_poll_stores_waker_when_waiting = true. Proof. reflexivity. Qed.
Lemma cl_poll_core_lock_inside_result_lock : fact_poll_core_lock_inside_result_lock = true. Proof. reflexivity. Qed.
(* PSignal: result set and waker taken in one section, the waker called after the section (FWake frames run outside any lock) *)
Lemma cl_signal_sets_then_takes_waker : fact_signal_sets_then_takes_waker = true. Proof. reflexivity. Qed.
Lemma cl_signaller_drop_cancels : fact_signaller_drop_cancels = true. Proof. reflexivity. Qed.
(* FWake (WThread): the thread is unparked whatever the state found (g_wake_thread gives the state, this gives the unpark) *)
Lemma cl_wake_thread_unparks_always : fact_wake_thread_unparks_always = true. Proof. reflexivity. Qed.
(* drain / run_one_job_now of a job that returns Pending *)
Lemma cl_requeue_at_front : fact_requeue_at_front = true. Proof. reflexivity. Qed.
Lemma cl_drain_requeues_via_requeue : fact_drain_requeues_via_requeue = true. Proof. reflexivity. Qed.
(* the wakers own their queue (strong reference): in the model a registered waker always has a queue to wake *)
Lemma cl_wakers_hold_queue_strongly : fact_wakers_hold_queue_strongly = true. Proof. reflexivity. Qed.
