(* The job objects (src/scheduler/job.rs, future_job.rs, unsafe_job.rs) on the code as it is now.  Every model treats "run the job" as:
   a closure job runs its closure exactly once and is Ready; a future job creates its future on the first run, polls the SAME future on
   every later run, stays in the queue machinery's hands while Pending and is finished when Ready; a lifetime-erased job forwards to the
   borrowed job.  These shapes are hand-written in the models (L1: FClosure frames; L2: JFut fresh/Waiting) and re-read from the source here. *)
From Gen Require Import Tables.

Lemma cl_job_runs_action_once : fact_job_runs_action_once = true. Proof. reflexivity. Qed.
Lemma cl_futurejob_take_moves_out : fact_futurejob_take_moves_out = true. Proof. reflexivity. Qed.
Lemma cl_futurejob_keeps_future_when_pending : fact_futurejob_keeps_future_when_pending = true. Proof. reflexivity. Qed.
Lemma cl_unsafe_job_forwards_run : fact_unsafe_job_forwards_run = true. Proof. reflexivity. Qed.
Lemma cl_unsafe_job_signals_on_drop : fact_unsafe_job_signals_on_drop = true. Proof. reflexivity. Qed.
