(* C12 on the code as it is now: the pipe model's two fact parameters and its hard-coded structure are re-read from the source *)
From stdpp Require Import list numbers option.
From L0 Require Import Types.
From Gen Require Import Tables.
From Pipe Require Import Model Base Terminal PropsC12.

Definition gen_pfacts : pfacts := {| f_pending_recheck := fact_pending_arm_rechecks_closed; f_default_depth := fact_pipe_backpressure_count;
     f_poll_next_replaces_waker := fact_poll_next_stores_waker;
     f_drop_wakes_before_dispose := fact_stream_drop_wakes_before_dispose |}.

Lemma cl_poll_next_replaces_waker : gen_pfacts.(f_poll_next_replaces_waker) = true. Proof. reflexivity. Qed.
Lemma cl_default_depth_positive : 1 <= gen_pfacts.(f_default_depth). Proof. cbv. lia. Qed.
Lemma cl_backpressure_check_and_register_atomic : fact_backpressure_check_and_register_atomic = true. Proof. reflexivity. Qed.
Lemma cl_push_and_take_notify_atomic : fact_push_and_take_notify_atomic = true. Proof. reflexivity. Qed.
Lemma cl_close_sets_closed_then_wakes : fact_close_sets_closed_then_wakes = true. Proof. reflexivity. Qed.
Lemma cl_poll_next_pops_front : fact_poll_next_pops_front = true. Proof. reflexivity. Qed.
Lemma cl_poll_next_takes_backpressure : fact_poll_next_takes_backpressure = true. Proof. reflexivity. Qed.
Lemma cl_poll_next_stores_waker : fact_poll_next_stores_waker = true. Proof. reflexivity. Qed.
Lemma cl_pending_arm_sets_notify_closed : fact_pending_arm_sets_notify_closed = true. Proof. reflexivity. Qed.
Lemma cl_pipe_unbounded_loop : fact_pipe_unbounded_loop = true. Proof. reflexivity. Qed.
Lemma cl_pipe_core_weak : fact_pipe_core_weak = true. Proof. reflexivity. Qed.
Lemma cl_pipe_waker_one_shot : fact_pipe_waker_one_shot = true. Proof. reflexivity. Qed.
Lemma cl_pipe_context_weak_upgrade : fact_pipe_context_weak_upgrade = true. Proof. reflexivity. Qed.

Theorem C12_terminal_complete_now : forall (f : nat -> nat) inputs sl ext tr s,
    Forall (fun a => a <> ACSetDepth 0) tr -> run gen_pfacts f (init_slow gen_pfacts inputs sl ext) tr = Some s ->
    terminal gen_pfacts f s -> dropped s = false ->
    s.(delivered) = f <$> inputs /\ s.(got_end) = true /\ s.(cst) = CDone.
Proof. intros f inputs sl ext tr s. exact (C12_terminal_complete gen_pfacts f cl_poll_next_replaces_waker inputs sl ext tr s cl_default_depth_positive). Qed.
Print Assumptions C12_terminal_complete_now.

(* C12.2 on the code as it is now: a consumer that may poll at any time, each time with a fresh waker, is woken through the
   waker of its most recent Pending poll *)
Theorem C12_consumer_always_woken_now : forall (f : nat -> nat) inputs sl ext tr s,
    run gen_pfacts f (init_slow gen_pfacts inputs sl ext) tr = Some s ->
    (s.(cst) = CPend \/ s.(cst) = CRun true) -> (s.(pending) <> [] \/ s.(closed) = true) ->
    s.(notify) = None /\ (s.(cwoken) = true \/ cons_wake_inflight s = true).
Proof. intros f. exact (C12_consumer_always_woken gen_pfacts f cl_poll_next_replaces_waker). Qed.
Print Assumptions C12_consumer_always_woken_now.
