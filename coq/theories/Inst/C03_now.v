(* C03 (layer L1) on the code as it is now *)
From stdpp Require Import list numbers option.
From L0 Require Import Types.
From Gen Require Import Tables.
From L1 Require Import Model Own Shape Stuck Live Wait Help Final.
From Props Require Import C03.
From Inst Require Import C01_now.

Lemma cl_core : core_tables gen_tables.
Proof. split; try done; by intros []. Qed.
(* the rows future-based operations rely on: a queue parked by a polling task is still taken over by a pool thread when it is
   rescheduled (its future may have been dropped), and a wake always leads to a reschedule *)
Lemma cl_next_takes_waiting_for_poll : forall f, g_next (WaitingForPoll f) = Some Running. Proof. reflexivity. Qed.
Lemma cl_resched_waiting_for_poll : forall f ne, g_resched (WaitingForPoll f) ne = (WaitingForPoll f, true). Proof. reflexivity. Qed.
Lemma cl_wake_queue_wakes : g_wake_queue WaitingForWake = (Idle, true) /\ g_wake_queue Running = (AwokenWhileRunning, true). Proof. split; reflexivity. Qed.
Lemma cl_drain_pend_consumes_wake : g_drain_pend AwokenWhileRunning = Running /\ g_drain_pend Running = WaitingForWake. Proof. split; reflexivity. Qed.
Lemma cl_dormant_blocks : gen_facts.(f_dormant_blocks) = true. Proof. reflexivity. Qed.
Lemma cl_desync_push_back : fact_desync_push_back = true. Proof. reflexivity. Qed.
Lemma cl_desync_push_before_state : fact_desync_push_before_state = true. Proof. reflexivity. Qed.
Lemma cl_desync_idle_pushes_schedule_back : fact_desync_idle_pushes_schedule_back = true. Proof. reflexivity. Qed.
Lemma cl_resched_after_idle_sync_immediate : fact_resched_after_idle_sync_immediate = true. Proof. reflexivity. Qed.
Lemma cl_resched_after_idle_sync_drain : fact_resched_after_idle_sync_drain = true. Proof. reflexivity. Qed.
Lemma cl_resched_after_idle_steal : fact_resched_after_idle_steal = true. Proof. reflexivity. Qed.
Lemma cl_resched_pushes_back_then_schedules : fact_resched_pushes_back_then_schedules = true. Proof. reflexivity. Qed.
Lemma cl_resched_notifies_waiters : fact_resched_notifies_waiters = true. Proof. reflexivity. Qed.
Lemma cl_busy_cleared_only_on_none : fact_busy_cleared_only_on_none = true. Proof. reflexivity. Qed.
Lemma cl_dormant_sets_busy_before_run : fact_dormant_sets_busy_before_run = true. Proof. reflexivity. Qed.
Lemma cl_retry_after_spawn : fact_schedule_thread_retries_after_spawn = true. Proof. reflexivity. Qed.
Lemma cl_spawn_cmp : fact_spawn_cmp = CLt. Proof. reflexivity. Qed.
Lemma cl_next_pops_front : fact_next_pops_front = true. Proof. reflexivity. Qed.
Lemma cl_sync_drain_push_back : fact_sync_drain_push_back = true. Proof. reflexivity. Qed.
Lemma cl_sync_bg_push_back : fact_sync_bg_push_back = true. Proof. reflexivity. Qed.
Lemma cl_sync_bg_registers_before_push : fact_sync_bg_registers_before_push = true. Proof. reflexivity. Qed.
Lemma cl_sync_bg_resched_if_idle : fact_sync_bg_resched_if_idle = true. Proof. reflexivity. Qed.
Lemma cl_unsafe_job_signals_on_drop : fact_unsafe_job_signals_on_drop = true. Proof. reflexivity. Qed.

Theorem C03_now : forall nq mx scripts tr s,
    wf_scripts nq scripts -> 1 <= mx -> run gen_tables gen_facts (init nq mx scripts) tr = Some s ->
    terminal gen_tables gen_facts s -> complete s = true.
Proof. exact (C03_quiescent_is_complete_L1 gen_tables gen_facts cl_core cl_own cl_dormant_blocks). Qed.
Print Assumptions C03_now.
