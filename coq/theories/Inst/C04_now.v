(* C04 on the code as it is now *)
From stdpp Require Import list numbers option.
From L0 Require Import Types.
From Gen Require Import Tables.
From L1 Require Import Model Own Shape Stuck Live Wait Help Final.
From Props Require Import C04.
From Inst Require Import C01_now C03_now.

Lemma cl_sticky_notify : gen_facts.(f_sticky_notify) = true. Proof. reflexivity. Qed.
Lemma cl_unsafe_job_signals_on_drop : fact_unsafe_job_signals_on_drop = true. Proof. reflexivity. Qed.
Lemma cl_sync_bg_registers_before_push : fact_sync_bg_registers_before_push = true. Proof. reflexivity. Qed.
Lemma cl_sync_bg_resched_if_idle : fact_sync_bg_resched_if_idle = true. Proof. reflexivity. Qed.
Lemma cl_resched_notifies_waiters : fact_resched_notifies_waiters = true. Proof. reflexivity. Qed.
Lemma cl_resched_after_idle_steal : fact_resched_after_idle_steal = true. Proof. reflexivity. Qed.

Theorem C04_returns_now : forall nq mx scripts tr s,
    wf_scripts nq scripts -> 1 <= mx -> run gen_tables gen_facts (init nq mx scripts) tr = Some s -> terminal gen_tables gen_facts s ->
    forallb actor_done s.(actors) = true.
Proof. exact (C04_sync_returns_pool_partial gen_tables gen_facts cl_core cl_own cl_dormant_blocks). Qed.
Print Assumptions C04_returns_now.

(* finding F6: like a pool thread (g_next), a caller waiting in sync may take over a queue that is waiting for its draining future to be
   polled again - the future may have been dropped, or its task may be the very thread that now waits in sync *)
Lemma cl_claim_takes_waiting_for_poll : forall f, g_claim (WaitingForPoll f) = Some Running /\ g_next (WaitingForPoll f) = Some Running.
Proof. intro f. split; reflexivity. Qed.
