(* C15 on the code as it is now *)
From stdpp Require Import list numbers option.
From L0 Require Import Types.
From Gen Require Import Tables.
From Panic Require Import Absorb.
From Props Require Import C15.

Definition gen_qtables : qtables := {|
  q_desync := g_desync; q_sync := g_sync; q_sync_np := g_sync_no_panic; q_trysync := g_trysync; q_poll := g_poll;
  q_resched := g_resched; q_next := g_next; q_claim := g_claim; q_drain_pend := g_drain_pend; q_drain_fin := g_drain_fin;
  q_roj_pend := g_roj_pend; q_wake_queue := g_wake_queue; q_wake_thread := g_wake_thread |}.

Lemma cl_panic_tables : panic_conditions gen_qtables.
Proof.
  split; cbn; try done; try (by intros []).
  intros st ev Hst. destruct ev; cbn; destruct st; cbn; try done; try (by destruct empty); try (by destruct nonempty); try (by case_match).
Qed.
(* the guard that writes Panicked is present on every runner of a queue, and it is what marks the queue *)
Lemma cl_guard_drain : fact_guard_drain = true. Proof. reflexivity. Qed.
Lemma cl_guard_sync_immediate : fact_guard_sync_immediate = true. Proof. reflexivity. Qed.
Lemma cl_guard_sync_drain : fact_guard_sync_drain = true. Proof. reflexivity. Qed.
Lemma cl_guard_drain_queue : fact_guard_drain_queue = true. Proof. reflexivity. Qed.
Lemma cl_guard_steal : fact_steal_guarded = true. Proof. reflexivity. Qed.
Lemma cl_active_queue_sets_panicked : fact_active_queue_sets_panicked = true. Proof. reflexivity. Qed.
(* capacity is restored: finished threads are reaped before the dormant scan and a thread may be spawned below the maximum *)
Lemma cl_dormant_reaps_first : fact_dormant_reaps_first = true. Proof. reflexivity. Qed.
Lemma cl_reap_tests_only_is_finished : fact_reap_tests_only_is_finished = true. Proof. reflexivity. Qed.
Lemma cl_spawn_cmp : fact_spawn_cmp = CLt. Proof. reflexivity. Qed.
Lemma cl_retry_after_spawn : fact_schedule_thread_retries_after_spawn = true. Proof. reflexivity. Qed.

Theorem C15_absorbing_now : forall evs : list qev, foldl (apply gen_qtables) Panicked evs = Panicked.
Proof. exact (C15_panicked_is_absorbing gen_qtables cl_panic_tables). Qed.
Theorem C15_healthy_now : forall st (evs : list qev), st <> Panicked -> foldl (apply gen_qtables) st evs <> Panicked.
Proof. exact (C15_other_objects_never_become_panicked gen_qtables cl_panic_tables). Qed.
Print Assumptions C15_absorbing_now.
Print Assumptions C15_healthy_now.
