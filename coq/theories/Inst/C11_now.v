(* C11 on the code as it is now: the pipe_in model has no table parameters; its hard-coded structure is re-read from the source *)
From stdpp Require Import list numbers option.
From L0 Require Import Types.
From Gen Require Import Tables.
From PipeIn Require Import PropsC11.

Lemma cl_pipe_in_stops_on_none : fact_pipe_in_stops_on_none = true. Proof. reflexivity. Qed.
Lemma cl_pipe_in_pending_returns_true : fact_pipe_in_pending_returns_true = true. Proof. reflexivity. Qed.
Lemma cl_pipe_in_unbounded_loop : fact_pipe_in_unbounded_loop = true. Proof. reflexivity. Qed.
Lemma cl_pipe_in_weak_only : fact_pipe_in_weak_only = true. Proof. reflexivity. Qed.
Lemma cl_pipe_context_weak_upgrade : fact_pipe_context_weak_upgrade = true. Proof. reflexivity. Qed.
Lemma cl_pipe_context_disposes_on_chute : fact_pipe_context_disposes_on_chute = true. Proof. reflexivity. Qed.
Lemma cl_pipe_waker_one_shot : fact_pipe_waker_one_shot = true. Proof. reflexivity. Qed.
