(* C14 (lifetime protocol, layer L1) on the code as it is now *)
From stdpp Require Import list numbers option.
From L0 Require Import Types.
From Gen Require Import Tables.
From L1 Require Import Model Own Shape Stuck.
From L1h Require Import Hist Abs Sim Main Inst.
From Props Require Import C14.

Lemma cl_unsafe_job_signals_on_drop : fact_unsafe_job_signals_on_drop = true. Proof. reflexivity. Qed.
Lemma cl_drop_is_sync_free : fact_drop_is_sync_free = true. Proof. reflexivity. Qed.
Lemma cl_drop_only_syncs : fact_drop_only_syncs = true. Proof. reflexivity. Qed.
Lemma cl_syncfuture_field_order : fact_syncfuture_field_order = true. Proof. reflexivity. Qed.
Lemma cl_syncfuture_no_drop_impl : fact_syncfuture_no_drop_impl = true. Proof. reflexivity. Qed.
Lemma cl_sync_drain_push_back : fact_sync_drain_push_back = true. Proof. reflexivity. Qed.
Lemma cl_sync_bg_push_back : fact_sync_bg_push_back = true. Proof. reflexivity. Qed.

Theorem C14_erased_job_now : forall nq mx scripts tr s, run gen_tables gen_facts (init nq mx scripts) tr = Some s ->
    forall q j o c, j ∈ pend s q -> (j = JSyncDrain o c \/ j = JSyncBg o c) ->
      exists ac q', s.(actors) !! c = Some ac /\ ac.(opctr) = o /\ aph ac.(stack) = PWait q' /\ o ∉ ran s.
Proof. exact (C14_erased_job_owner_still_in_call_partial gen_tables gen_facts clh_own clh_imm). Qed.
Print Assumptions C14_erased_job_now.
