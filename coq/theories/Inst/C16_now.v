(* C16 on the code as it is now *)
From stdpp Require Import list numbers option.
From L0 Require Import Types.
From Gen Require Import Tables.
From Pipe Require Import Model Base Drop PropsC16.
From Inst Require Import C12_now.

Lemma cl_pending_arm_rechecks_closed : gen_pfacts.(f_pending_recheck) = true. Proof. reflexivity. Qed.
Lemma cl_stream_drop_closes_and_wakes : fact_stream_drop_closes_and_wakes = true. Proof. reflexivity. Qed.
Lemma cl_pipe_context_disposes_on_chute : fact_pipe_context_disposes_on_chute = true. Proof. reflexivity. Qed.

Lemma cl_stream_drop_wakes_before_dispose : gen_pfacts.(f_drop_wakes_before_dispose) = true. Proof. reflexivity. Qed.

Theorem C16_now : forall (f : nat -> nat) inputs sl ext tr s,
    run gen_pfacts f (init_slow gen_pfacts inputs sl ext) tr = Some s ->
    dropped s = true -> terminal_silent gen_pfacts f s ->
    s.(strong_held) = false /\ released s = true /\ s.(cst) = CGone.
Proof. intros f. exact (C16_drop_shuts_down gen_pfacts f cl_pending_arm_rechecks_closed cl_stream_drop_wakes_before_dispose). Qed.
Print Assumptions C16_now.

(* the pipe as last owner of the object: freed exactly once, nobody left inside Desync::drop, the stream-core lock free *)
Theorem C16_last_owner_now : forall (f : nat -> nat) inputs sl ext tr s,
    run gen_pfacts f (init_slow gen_pfacts inputs sl ext) tr = Some s ->
    dropped s = true -> terminal_silent gen_pfacts f s -> s.(ext_owner) = false ->
    s.(freed) = 1 /\ s.(cst) = CGone /\ core_locked s = false /\ syncers s = 0 /\ desync_alive s = false.
Proof. intros f. exact (C16_last_owner_drop gen_pfacts f cl_pending_arm_rechecks_closed cl_stream_drop_wakes_before_dispose). Qed.
Print Assumptions C16_last_owner_now.
