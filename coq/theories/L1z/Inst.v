(* L1z: C04 for every pool maximum, on the tables and facts generated from the current source *)
From stdpp Require Import list numbers option.
From L0 Require Import Types.
From Gen Require Import Tables.
From L1 Require Import Model Own Shape Stuck Live Wait Help Final.
From L1z Require Import ZDefs ZFinal PropsC04zero.

Lemma clz_own : own_conditions gen_tables.
Proof.
  split; cbn.
  - intros st e st' act H. destruct st, e; inversion H; subst; cbn; try done; try (split; congruence).
  - intros st e st' act H. destruct st, e; inversion H; subst; cbn; try done; try (split; congruence).
  - intros st st' act H. destruct st; inversion H; subst; split; congruence.
  - intros st ne st' p H. destruct st, ne; inversion H; subst; split; congruence.
  - intros st st' H. destruct st; inversion H; subst; split; congruence.
  - intros st st' H. destruct st; inversion H; subst; split; congruence.
  - intros e st' d H. destruct e; inversion H; subst; cbn; congruence.
Qed.
Lemma clz_core : core_tables gen_tables.
Proof. split; try done; by intros []. Qed.
(* the notification cannot be lost: read from sync_background (`rescheduled` starts set, reschedule_queue sets it) *)
Lemma clz_sticky_notify : gen_facts.(f_sticky_notify) = true. Proof. reflexivity. Qed.
Lemma clz_resched_notifies_waiters : fact_resched_notifies_waiters = true. Proof. reflexivity. Qed.
Lemma clz_sync_bg_registers_before_push : fact_sync_bg_registers_before_push = true. Proof. reflexivity. Qed.
Lemma clz_sync_bg_resched_if_idle : fact_sync_bg_resched_if_idle = true. Proof. reflexivity. Qed.

Theorem C04_zero_now : forall nq mx scripts tr s,
    wf_scripts nq scripts -> run gen_tables gen_facts (init nq mx scripts) tr = Some s -> terminal gen_tables gen_facts s ->
    forall a ac, a < length scripts -> s.(actors) !! a = Some ac -> ac.(stack) = [FTop []].
Proof. exact (C04_sync_returns_any_pool_L1 gen_tables gen_facts clz_core clz_own clz_sticky_notify). Qed.
Theorem C04_zero_state_now : forall nq mx scripts tr s,
    wf_scripts nq scripts -> run gen_tables gen_facts (init nq mx scripts) tr = Some s -> terminal gen_tables gen_facts s -> quiet0 s.
Proof. exact (C04_terminal_state_any_pool_L1 gen_tables gen_facts clz_core clz_own clz_sticky_notify). Qed.

Print Assumptions C04_zero_now.
Print Assumptions C04_zero_state_now.
