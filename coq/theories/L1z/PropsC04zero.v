(* C04 (liveness part, every pool maximum including 0) - sync always returns, even when no pool thread is free or exists,
   because the caller then runs the queue itself.  Layer L1, every program / number of objects / pool maximum / schedule.

   In every reachable state in which no thread can move (terminal), every caller has finished its script - every sync, try_sync
   and desync call has returned; nobody is inside the condition-variable wait; no queue is being run, and a queue that still holds
   jobs is Pending and in the schedule (with a pool maximum of 0 nobody will ever take it: desync jobs may legitimately stay there).
   Needs f_sticky_notify = true: a notification sent to a registered waiter that is not yet inside the wait must not be lost
   (the `rescheduled` flag of sync_background).  The refutation below shows that the hypothesis is necessary (defect F2).
   f_dormant_blocks is not needed for this theorem (it is kept in C04_full for uniformity).  Fully proved.

   The invariant (L1z/ZDefs.v): a caller in sync_background is registered with the queue from the push of its job on; where it has
   just passed a reschedule it has been kicked (or its job has run); and if it is about to wait or waits, unkicked, with its job
   still stored, then the queue is Running or a reschedule_queue frame (FRQ1) for it is on top of some stack - and FRQ1 kicks
   every registered waiter before it goes away. *)
From stdpp Require Import list numbers option.
From L0 Require Import Types.
From Gen Require Import Tables.
From L1 Require Import Model Own Shape Stuck Live Wait Help Final.
From Props Require Import C04.
From L1z Require Import ZDefs ZFinal.

Theorem C04_full_holds : C04_full.
Proof. exact (fun T F HK HT _ HN => callers_done T F HK HT HN). Qed.

Theorem C04_sync_returns_any_pool_L1 :
  forall (T : tables) (F : facts), core_tables T -> own_conditions T -> F.(f_sticky_notify) = true ->
  forall nq mx scripts tr s, wf_scripts nq scripts -> run T F (init nq mx scripts) tr = Some s -> terminal T F s ->
    forall a ac, a < length scripts -> s.(actors) !! a = Some ac -> ac.(stack) = [FTop []].
Proof. exact callers_done. Qed.

(* the whole picture of a terminal state: callers done, nobody waiting, queues Idle-and-empty or Pending-and-scheduled *)
Theorem C04_terminal_state_any_pool_L1 :
  forall (T : tables) (F : facts), core_tables T -> own_conditions T -> F.(f_sticky_notify) = true ->
  forall nq mx scripts tr s, wf_scripts nq scripts -> run T F (init nq mx scripts) tr = Some s -> terminal T F s -> quiet0 s.
Proof. exact sync_returns_any_pool. Qed.

(* the waiter invariant holds in every reachable state *)
Theorem C04_waiter_invariant_L1 :
  forall (T : tables) (F : facts), core_tables T -> own_conditions T -> F.(f_sticky_notify) = true ->
  forall nq mx scripts tr s, wf_scripts nq scripts -> run T F (init nq mx scripts) tr = Some s -> All0 s.
Proof. exact reachable_all0. Qed.

Print Assumptions C04_full_holds.
Print Assumptions C04_sync_returns_any_pool_L1.
Print Assumptions C04_terminal_state_any_pool_L1.
Print Assumptions C04_waiter_invariant_L1.

(* non-vacuity: pool maximum 0, two callers sync the same object; with the generated tables and facts both return *)
Definition exZ_scripts : list (list op) := [[OSync 0]; [OSync 0]].
Definition exZ_trace : list nat := [0; 0; 0; 1; 1; 1; 0; 0; 1; 1; 1; 1; 1; 1; 1; 1; 1; 1; 1; 1; 1; 1; 1; 1].
Example C04_pool_zero_hypotheses_hold :
  exists s, run gen_tables gen_facts (init 1 0 exZ_scripts) exZ_trace = Some s /\ wf_scripts 1 exZ_scripts /\
            terminal_b gen_tables gen_facts s = true /\ stack <$> s.(actors) = [[FTop []]; [FTop []]] /\ s.(ran) = [1; 0].
Proof. eexists. split; [vm_compute; reflexivity|]. split; [repeat constructor|]. repeat split; vm_compute; reflexivity. Qed.

(* refutation for the unrepaired notification (defect F2): if a notification to a registered waiter that is not yet waiting is
   lost, the second caller sleeps for ever although the queue is claimable - the same program, the same pool of 0 *)
Definition f2_facts : facts := {| f_dormant_blocks := true; f_sticky_notify := false |}.
Definition f2_trace : list nat := [0; 0; 0; 1; 1; 1; 0; 0; 1; 1; 1; 1; 1; 1; 1].
Example C04_needs_sticky_notify_refuted :
  exists s, run gen_tables f2_facts (init 1 0 exZ_scripts) f2_trace = Some s /\ terminal_b gen_tables f2_facts s = true /\
            stack <$> s.(actors) = [[FTop []]; [FSBwait 0; FTop []]] /\
            (fun q => (qs q, jobs q, owner q)) <$> s.(queues) = [(Pending, [JSyncBg 1 1], None)] /\ s.(sched) = [0].
Proof. eexists. split; [vm_compute; reflexivity|]. repeat split; vm_compute; reflexivity. Qed.
