(* L1z: how wake-ups and a step of one actor act on the waiter invariant *)
From stdpp Require Import list numbers option.
From RecordUpdate Require Import RecordUpdate.
From L1 Require Import Model Own Shape Stuck Live.
From L1z Require Import ZDefs.

Lemma waitq_regq st q : waitq st = Some q -> regq st = Some q.
Proof. destruct st as [|[] ?]; cbn; try done. Qed.
Lemma has_top_actor s f : has_top s f <-> exists b ab, s.(actors) !! b = Some ab /\ hd_error ab.(stack) = Some f.
Proof.
  split.
  - intros (b & st & Hb & Hh). rewrite stacks_lookup in Hb. destruct (actors s !! b) as [ab|] eqn:E; [|done]. injection Hb as <-. eauto.
  - intros (b & ab & Hb & Hh). exists b, (stack ab). split; [by rewrite stacks_lookup, Hb|done].
Qed.

(* ---------- wake-ups keep the invariant ---------- *)
Lemma aup_refl x : aup x x. Proof. split; [by left|done]. Qed.
Lemma ups_refl s : ups s s.
Proof. split; [done|]. intros b. destruct (actors s !! b); [apply aup_refl|done]. Qed.
Lemma aup_trans x'' x' x : aup x'' x' -> aup x' x -> aup x'' x.
Proof.
  intros (S1 & R1 & K1) (S2 & R2 & K2). split; [|split; auto].
  destruct S2 as [S2|(q & r & E1 & E2)].
  - rewrite <- S2. done.
  - right. exists q, r. split; [done|]. destruct S1 as [S1|(q' & r' & E3 & E4)]; [congruence|]. rewrite E2 in E3. done.
Qed.
Lemma ups_trans X Y s : ups X Y -> ups Y s -> ups X s.
Proof.
  intros [Q1 A1] [Q2 A2]. split; [congruence|]. intros b. specialize (A1 b). specialize (A2 b).
  destruct (actors X !! b), (actors Y !! b), (actors s !! b); try done. by eapply aup_trans.
Qed.
Lemma ups_upda s a f : (forall x, aup (f x) x) -> ups (upda s a f) s.
Proof.
  intros Hf. split; [done|]. intros b. rewrite actors_upda_lookup. case_decide; subst; destruct (actors s !! b); cbn; try done; apply aup_refl.
Qed.
Lemma ups_wake s w aw q rest : s.(actors) !! w = Some aw -> aw.(stack) = FSBwait q :: rest -> ups (setstack s w (FSBwoken q :: rest)) s.
Proof.
  intros Ew Es. split; [done|]. intros b. rewrite actors_setstack_lookup. case_decide; subst; [|destruct (actors s !! b); [apply aup_refl|done]].
  rewrite Ew. cbn. split; [|done]. right. by exists q, rest.
Qed.
Lemma ups_notify F s w : ups (notify F s w) s.
Proof.
  unfold notify. set (s1 := if f_sticky_notify F then upda s w (fun x => x <| kicked := true |>) else s).
  assert (H1 : ups s1 s).
  { subst s1. destruct (f_sticky_notify F); [|apply ups_refl]. apply ups_upda. intros x. split; [by left|]. split; cbn; done. }
  destruct (actors s1 !! w) as [aw|] eqn:Ew; [|done]. destruct (stack aw) as [|[] rest] eqn:Es; try done.
  eapply ups_trans; [by eapply ups_wake|done].
Qed.
Lemma ups_foldl_notify F ws s : ups (foldl (notify F) s ws) s.
Proof. revert s; induction ws as [|w ws IH]; intros s; cbn; [apply ups_refl|]. eapply ups_trans; [apply IH|apply ups_notify]. Qed.
Lemma ups_ran s r : ups (s <| ran := r |>) s.
Proof. split; [done|]. intros b. change (actors (s <| ran := r |>)) with (actors s). destruct (actors s !! b); [apply aup_refl|done]. Qed.
Lemma ups_run_job F s j : ups (run_job F s j) s.
Proof.
  destruct j as [o|o c|o c]; unfold run_job.
  - apply ups_ran.
  - eapply ups_trans; [|apply ups_ran]. apply ups_upda. intros x. split; [by left|]. split; cbn; done.
  - set (s1 := upda _ c _).
    assert (H1 : ups s1 s) by (subst s1; eapply ups_trans; [|apply ups_ran]; apply ups_upda; intros x; split; [by left|]; split; cbn; done).
    destruct (actors s1 !! c) as [ac|] eqn:Ec; [|done]. destruct (stack ac) as [|[] rest] eqn:Es; try done.
    eapply ups_trans; [by eapply ups_wake|done].
Qed.

Lemma regq_wake q r : regq (FSBwoken q :: r) = regq (FSBwait q :: r). Proof. done. Qed.
Lemma Z_ups X s : ups X s -> ZInv s -> ZInv X.
Proof.
  intros [HQ HA] HZ w x' Hw. pose proof (HA w) as Hw'. rewrite Hw in Hw'. destruct (actors s !! w) as [x|] eqn:Ex; [|done].
  destruct Hw' as (HS & HR & HK). destruct (HZ w x Ex) as [Z1 Z2 Z3 Z4].
  assert (Htop : forall f, (forall q, f <> FSBwait q) -> has_top s f -> has_top X f).
  { intros f Hf (b & ab & Hb & Hh)%has_top_actor. apply has_top_actor. specialize (HA b). rewrite Hb in HA.
    destruct (actors X !! b) as [ab'|] eqn:Eb'; [|done]. exists b, ab'. split; [done|]. destruct HA as ([->|(q & r & E1 & E2)] & _); [done|].
    rewrite E1 in Hh. injection Hh as <-. by destruct (Hf q). }
  destruct HS as [HS|(q0 & r & E1 & E2)].
  - split; rewrite ?HS, ?HQ.
    + done.
    + intros Hk. destruct (Z2 Hk) as [?|?]; auto.
    + intros Hr. auto.
    + intros q qq o Hq Hr Hk Hqq Hj.
      assert (ready x = false) by (destruct (ready x); [by rewrite HR in Hr|done]).
      assert (Hk0 : kicked x = false \/ hd_error (stack x) = Some (FSBwait q)).
      { destruct Hk as [Hk|Hk]; [left|by right]. destruct (kicked x); [by rewrite HK in Hk|done]. }
      destruct (Z4 q qq o Hq) as [?|Ht]; try done; [by left|]. right. by apply Htop.
  - split; rewrite ?E2, ?HQ.
    + rewrite regq_wake, <- E1. done.
    + intros Hk. destruct Z2 as [?|?]; auto. rewrite E1. by destruct r as [|[] ?].
    + done.
    + done.
Qed.

(* with sticky notifications every registered waiter has been kicked after the wake-ups of reschedule_queue *)
Lemma notify_kicked F s w aw : F.(f_sticky_notify) = true -> s.(actors) !! w = Some aw ->
  exists aw', (notify F s w).(actors) !! w = Some aw' /\ aw'.(kicked) = true /\ forall q r, aw'.(stack) <> FSBwait q :: r.
Proof.
  intros HF Ew. unfold notify. rewrite HF. set (s1 := upda s w _).
  assert (E1 : actors s1 !! w = Some (aw <| kicked := true |>)) by (subst s1; rewrite actors_upda_lookup, decide_True, Ew by done; done).
  rewrite E1. cbn. destruct (stack aw) as [|[] rest] eqn:Es; try (eexists; split; [done|]; split; [done|]; cbn; rewrite Es; done).
  rewrite actors_setstack_lookup, decide_True, E1 by done. eexists. split; [done|]. split; done.
Qed.
Definition kwoken (x : actor) : Prop := x.(kicked) = true /\ forall q r, x.(stack) <> FSBwait q :: r.
Lemma kwoken_aup x' x : aup x' x -> kwoken x -> kwoken x'.
Proof.
  intros (HS & _ & HK) [K1 K2]. split; [auto|]. destruct HS as [->|(q & r & E1 & E2)]; [done|]. rewrite E2. done.
Qed.
Lemma foldl_notify_kicked F ws s w aw : F.(f_sticky_notify) = true -> s.(actors) !! w = Some aw -> (w ∈ ws \/ kwoken aw) ->
  exists aw', (foldl (notify F) s ws).(actors) !! w = Some aw' /\ kwoken aw'.
Proof.
  intros HF. revert s aw. induction ws as [|v ws IH]; intros s aw Ew Hin; cbn.
  - destruct Hin as [Hin|Hk]; [by apply elem_of_nil in Hin|eauto].
  - destruct (decide (v = w)) as [->|Hne].
    + destruct (notify_kicked F s w aw HF Ew) as (aw' & E1 & E2). by apply (IH _ aw' E1); right.
    + destruct (ups_notify F s v) as [_ HA]. specialize (HA w). rewrite Ew in HA.
      destruct (actors (notify F s v) !! w) as [aw'|] eqn:E1; [|done]. apply (IH _ aw' E1).
      destruct Hin as [Hin|Hk]; [left|right; by eapply kwoken_aup]. apply elem_of_cons in Hin as [?|?]; [congruence|done].
Qed.

(* ---------- a step of actor a ---------- *)
Lemma qrel_refl a s' q o : qrel a s' q o o.
Proof. destruct o as [qq|]; cbn; [|done]. repeat split; try done. by left. Qed.

Lemma Z_set X s' a ac : ZInv X -> X.(actors) !! a = Some ac ->
  (forall b, b <> a -> s'.(actors) !! b = X.(actors) !! b) ->
  (forall q, qrel a s' q (X.(queues) !! q) (s'.(queues) !! q)) ->
  (forall q, hd_error ac.(stack) = Some (FRQ1 q) ->
     has_top s' (FRQ1 q) \/ (forall b ab qq, b <> a -> X.(actors) !! b = Some ab -> X.(queues) !! q = Some qq -> b ∈ qq.(wake_blocked) -> ab.(kicked) = true /\ forall q' r, ab.(stack) <> FSBwait q' :: r)) ->
  (forall ac', s'.(actors) !! a = Some ac' -> wok s' a ac') ->
  ZInv s'.
Proof.
  intros HZ Ea HA HQ HC HD w aw Hw. destruct (decide (w = a)) as [->|Hne]; [by apply HD|].
  rewrite HA in Hw by done. destruct (HZ w aw Hw) as [Z1 Z2 Z3 Z4]. split; try done.
  - intros q Hq. destruct (Z1 q Hq) as (qq & Hqq & Hin). specialize (HQ q). rewrite Hqq in HQ. destruct (queues s' !! q) as [qq'|]; [|done].
    destruct HQ as (Q1 & _). exists qq'. split; [done|]. by apply Q1.
  - intros q qq' o Hq Hr Hk Hqq' Hj. specialize (HQ q). rewrite Hqq' in HQ. destruct (queues X !! q) as [qq|] eqn:Hqq; [|done].
    destruct HQ as (Q1 & Q2 & Q3). specialize (Q2 o w Hne Hj).
    destruct (Z4 q qq o Hq Hr Hk Hqq Q2) as [Hrun|Ht].
    + destruct (Q3 Hrun) as [?|[?|He]]; [by left|by right|]. rewrite He in Hj. by apply elem_of_nil in Hj.
    + apply has_top_actor in Ht as (b & ab & Hb & Hh). destruct (decide (b = a)) as [->|Hba].
      * rewrite Ea in Hb. injection Hb as <-. destruct (HC q Hh) as [?|Hall]; [by right|].
        destruct (Z1 q (waitq_regq _ _ Hq)) as (qq0 & Hqq0 & Hin). rewrite Hqq in Hqq0. injection Hqq0 as <-.
        destruct (Hall w aw qq Hne Hw Hqq Hin) as [Hk1 Hk2]. destruct Hk as [Hk|Hk]; [congruence|].
        destruct (stack aw) as [|fr r] eqn:Es; [done|]. injection Hk as ->. by destruct (Hk2 q r).
      * right. apply has_top_actor. exists b, ab. split; [by rewrite HA|done].
Qed.

(* a new pool actor *)
Lemma Z_add_actor s s1 new : s1.(queues) = s.(queues) -> s1.(actors) = s.(actors) ++ [new] ->
  regq new.(stack) = None -> kneed new.(stack) = false -> rneed new.(stack) = false -> waitq new.(stack) = None -> ZInv s -> ZInv s1.
Proof.
  intros Hq Ha N1 N2 N3 N4 HZ w aw Hw. rewrite Ha in Hw. apply lookup_app_Some in Hw as [Hw|[_ Hw]].
  - destruct (HZ w aw Hw) as [Z1 Z2 Z3 Z4]. split; rewrite ?Hq; try done.
    intros q qq o H1 H2 H3 H4 H5. destruct (Z4 q qq o H1 H2 H3 H4 H5) as [?|Ht]; [by left|right].
    apply has_top_actor in Ht as (b & ab & Hb & Hh). apply has_top_actor. exists b, ab. split; [|done]. rewrite Ha. by apply lookup_app_l_Some.
  - destruct (w - length (actors s)); [|done]. cbn in Hw. injection Hw as <-. split; rewrite ?N1, ?N2, ?N3, ?N4; done.
Qed.

(* the stepping actor: nothing to show when its new stack is not a waiter's *)
Lemma wok_plain s a ac : regq ac.(stack) = None -> kneed ac.(stack) = false -> rneed ac.(stack) = false -> waitq ac.(stack) = None -> wok s a ac.
Proof. intros N1 N2 N3 N4. split; rewrite ?N1, ?N2, ?N3, ?N4; done. Qed.

Lemma setstack_self Y a st ac' : (setstack Y a st).(actors) !! a = Some ac' ->
  ac'.(stack) = st /\ exists y, Y.(actors) !! a = Some y /\ ac'.(ready) = y.(ready) /\ ac'.(kicked) = y.(kicked).
Proof.
  rewrite actors_setstack_lookup, decide_True by done. destruct (actors Y !! a) as [y|]; [|done]. cbn. intros [= <-]. split; [done|]. by exists y.
Qed.
Lemma actors_updq_eq Y q f : (updq Y q f).(actors) = Y.(actors). Proof. done. Qed.
Lemma actors_updt_eq Y t f : (updt Y t f).(actors) = Y.(actors). Proof. done. Qed.

Lemma frq1_kicked F s ws b ab : F.(f_sticky_notify) = true -> (foldl (notify F) s ws).(actors) !! b = Some ab -> b ∈ ws -> kwoken ab.
Proof.
  intros HF Hb Hin. destruct (ups_foldl_notify F ws s) as [_ HA]. specialize (HA b). rewrite Hb in HA.
  destruct (actors s !! b) as [ab0|] eqn:E0; [|done].
  destruct (foldl_notify_kicked F ws s b ab0 HF E0 (or_introl Hin)) as (ab' & E1 & E2). rewrite Hb in E1. by injection E1 as ->.
Qed.
