(* L1z: the waiter invariant that makes sync return even when the pool is empty.  Definitions only.
   A caller in sync_background has registered its condition variable with the queue; every notification sticks (kicked);
   it only enters the wait when it has not been kicked, and then somebody is still going to reschedule the queue. *)
From stdpp Require Import list numbers option.
From RecordUpdate Require Import RecordUpdate.
From L1 Require Import Model Own Shape Stuck Live.

(* the queue a stack is registered with as a waiter (from the push of its job to the final check) *)
Definition regq (st : list frame) : option nat :=
  match st with
  | FSBpush q :: _ | FSBcheck q :: _ | FSBwait q :: _ | FSBwoken q :: _ | FSBclaim q :: _ | FSBsteal q :: _ | FSBstealidle q :: _ => Some q
  | _ :: FSBcheck q :: _ | _ :: FSBsteal q :: _ => Some q
  | _ => None
  end.
(* places where the caller has certainly been kicked (or its job is done) since it last looked *)
Definition kneed (st : list frame) : bool :=
  match st with FSBpush _ :: _ => true | _ :: FSBcheck _ :: _ => true | _ => false end.
Definition rneed (st : list frame) : bool := match st with FSBstealidle _ :: _ => true | _ => false end.
(* the caller is about to wait, or waits *)
Definition waitq (st : list frame) : option nat := match st with FSBcheck q :: _ | FSBwait q :: _ => Some q | _ => None end.

Record wok (s : state) (w : nat) (ac : actor) : Prop := {
  w_reg : forall q, regq ac.(stack) = Some q -> exists qq, s.(queues) !! q = Some qq /\ w ∈ qq.(wake_blocked);
  w_kick : kneed ac.(stack) = true -> ac.(kicked) = true \/ ac.(ready) = true;
  w_rdy : rneed ac.(stack) = true -> ac.(ready) = true;
  (* an unkicked waiter whose job is still stored: the queue is being run, or a reschedule_queue is on its way *)
  w_wait : forall q qq o, waitq ac.(stack) = Some q -> ac.(ready) = false -> (ac.(kicked) = false \/ hd_error ac.(stack) = Some (FSBwait q)) ->
           s.(queues) !! q = Some qq -> JSyncBg o w ∈ qq.(jobs) -> qq.(qs) = Running \/ has_top s (FRQ1 q);
}.
Definition ZInv (s : state) : Prop := forall w ac, s.(actors) !! w = Some ac -> wok s w ac.

(* what other actors' steps may do to an actor: wake it, raise its flags *)
Definition aup (x' x : actor) : Prop :=
  (x'.(stack) = x.(stack) \/ exists q r, x.(stack) = FSBwait q :: r /\ x'.(stack) = FSBwoken q :: r) /\
  (x.(ready) = true -> x'.(ready) = true) /\ (x.(kicked) = true -> x'.(kicked) = true).
Definition ups (X s : state) : Prop :=
  X.(queues) = s.(queues) /\
  forall b, match X.(actors) !! b, s.(actors) !! b with Some x', Some x => aup x' x | None, None => True | _, _ => False end.
(* what a step of actor a may do to a queue *)
Definition qrel (a : nat) (s' : state) (q : nat) (o o' : option queue) : Prop :=
  match o, o' with
  | Some qq, Some qq' =>
      (forall b, b <> a -> b ∈ qq.(wake_blocked) -> b ∈ qq'.(wake_blocked)) /\
      (forall i b, b <> a -> JSyncBg i b ∈ qq'.(jobs) -> JSyncBg i b ∈ qq.(jobs)) /\
      (qq.(qs) = Running -> qq'.(qs) = Running \/ has_top s' (FRQ1 q) \/ qq'.(jobs) = [])
  | None, None => True
  | _, _ => False
  end.
