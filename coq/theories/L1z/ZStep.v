(* L1z: every step of the model keeps the waiter invariant *)
From stdpp Require Import list numbers option.
From RecordUpdate Require Import RecordUpdate.
From L1 Require Import Model Own Shape Stuck Live Wait Help.
From L1z Require Import ZDefs ZBase.

Ltac act_peel := let b := fresh "b" in let Hne := fresh "Hne" in intros b Hne; rewrite actors_setstack_lookup, decide_False by done;
  repeat first [ rewrite actors_upda_lookup, decide_False by done | rewrite actors_updq_eq | rewrite actors_updt_eq
               | lazymatch goal with |- context [actors (set ?fld ?f ?Y)] => change (actors (set fld f Y)) with (actors Y) end ]; reflexivity.
Ltac q_peel := repeat first [ rewrite queues_setstack | rewrite queues_upda | rewrite queues_updt
               | lazymatch goal with |- context [queues (set ?fld ?f ?Y)] => change (queues (set fld f Y)) with (queues Y) end ].
Ltac plain_d := let ac' := fresh "ac'" in let H := fresh "Hac'" in intros ac' H; apply setstack_self in H as (H & _); apply wok_plain; rewrite H; reflexivity.

Ltac d_start :=
  let ac' := fresh "ac'" in intros ac' Hac'; apply setstack_self in Hac' as (Hst' & y & Hy & Hr' & Hk');
  repeat first [ rewrite actors_updq_eq in Hy | rewrite actors_updt_eq in Hy
               | lazymatch type of Hy with context [actors (set ?fld ?f ?Y)] => change (actors (set fld f Y)) with (actors Y) in Hy end ].
Ltac reg_keep W1 :=
  let q0 := fresh "q0" in intros q0 [= <-]; destruct (W1 _ eq_refl) as (zqq & Hz1 & Hz2);
  q_peel; rewrite ?queues_updq; q_peel; repeat case_decide; (eexists; split; [rewrite Hz1; reflexivity | cbn; try assumption]).

(* the stepping actor stays a registered waiter; its flags are those of actor y of the state before the stack replacement *)
Ltac keep_d Ea W1 W2 :=
  let ac' := fresh "ac'" in let H := fresh "Hac'" in let y := fresh "y" in let Hy := fresh "Hy" in let Hr' := fresh "Hr'" in let Hk' := fresh "Hk'" in
  intros ac' H; apply setstack_self in H as (H & y & Hy & Hr' & Hk');
  repeat first [ rewrite actors_updq_eq in Hy | rewrite actors_updt_eq in Hy
               | lazymatch type of Hy with context [actors (set ?fld ?f ?Y)] => change (actors (set fld f Y)) with (actors Y) in Hy end ];
  rewrite Ea in Hy; injection Hy as <-;
  split; rewrite H; cbn [regq kneed rneed waitq];
  [ reg_keep W1
  | first [ done | intros _; rewrite Hr', Hk'; by apply W2 ]
  | done
  | first [ done | intros ?q0 ?qq0 ?o0 _ ?Hr0 [?Hk0|?Hk0]; [|discriminate]; rewrite Hr', Hk' in *; destruct (W2 eq_refl) as [?|?]; congruence ] ].

Ltac new_top := apply has_top_actor; eexists _, _; split;
  [ rewrite actors_setstack_lookup, decide_True by done;
    repeat first [ rewrite actors_updq_eq | rewrite actors_updt_eq
                 | lazymatch goal with |- context [actors (set ?fld ?f ?Y)] => change (actors (set fld f Y)) with (actors Y) end ];
    match goal with Ea : actors _ !! _ = Some _ |- _ => rewrite Ea end; reflexivity
  | reflexivity ].

Section ZStep.
  Context (T : tables) (F : facts) (HK : core_tables T) (HT : own_conditions T) (HN : F.(f_sticky_notify) = true).

  Lemma step_z s a s' : Shape s -> Inv s -> WF s -> QInv s -> ZInv s -> step T F s a = Some s' -> ZInv s'.
  Proof.
    intros HS HIv HW HQ HZ Hstep. unfold step in Hstep.
    destruct (actors s !! a) as [ac|] eqn:Ea; cbn in Hstep; [|congruence].
    destruct (stack ac) as [|fr rest] eqn:Est; [congruence|].
    pose proof (kind_of s a ac HS Ea) as Hkind. rewrite Est in Hkind.
    destruct (HZ a ac Ea) as [W1 W2 W3 W4]. rewrite Est in W1, W2, W3, W4.
    pose proof (WF_self s a ac HW Ea) as Hwf. rewrite Est in Hwf. cbn [forallb] in Hwf. apply andb_true_iff in Hwf as [Hfrok _].
    destruct fr.
    all: cbn [frame_ok] in Hfrok.
    all: cbn beta iota zeta in Hstep.
    all: repeat (first
         [ match type of Hstep with
           | context [queues _ !! ?q] => let E := fresh "Eq" in destruct (queues s !! q) as [qq|] eqn:E; cbn in Hstep; [|congruence]
           | context [threads _ !! ?t] => let E := fresh "Et" in destruct (threads s !! t) as [th|] eqn:E; cbn in Hstep
           end
         | match type of Hstep with context [match ?x with _ => _ end] => let E := fresh "E" in destruct x eqn:E end; cbn in Hstep; try congruence ]).
    all: try discriminate.
    all: try (injection Hstep as <-).
    all: destruct Hkind as [[Hlt Hok]|(t0 & Hat & Hok)];
         [ apply caller_ok_inv in Hok as [(-> & Hfr)|[(os & -> & Hsf)|(g & os & -> & Hpo)]]; try discriminate;
           try (cbn in Hpo; destruct g; try discriminate; try (apply bool_decide_eq_true in Hpo; subst))
         | clear Hat; apply pool_ok_inv in Hok as [(-> & Hfr)|(-> & Hfr)]; try discriminate; try (cbn in Hfr; apply bool_decide_eq_true in Hfr; subst) ].
    (* no queue changes, the new stack is not a waiter's, the old top is not FRQ1 *)
    all: try (lazymatch goal with |- ZInv (setstack _ _ _) => idtac end;
              eapply (Z_set s _ a ac HZ Ea);
              [ act_peel | intros q'; q_peel; apply qrel_refl | intros q' Hh; rewrite Est in Hh; discriminate | plain_d ]; fail).
    (* the same, but the stepping actor is (and stays) a registered waiter *)
    all: try (lazymatch goal with |- ZInv (setstack _ _ _) => idtac end;
              eapply (Z_set s _ a ac HZ Ea);
              [ act_peel | intros q'; q_peel; apply qrel_refl | intros q' Hh; rewrite Est in Hh; discriminate | keep_d Ea W1 W2 ]; fail).
    (* one queue changes; the old top is not FRQ1, no wake-ups *)
    all: try (lazymatch goal with
              | Est : stack _ = FRQ1 _ :: _ |- _ => fail
              | |- ZInv (setstack (updq ?Y ?q ?g) _ _) => idtac end;
              eapply (Z_set s _ a ac HZ Ea);
              [ act_peel
              | intros q'; q_peel; rewrite !queues_updq; q_peel; destruct (decide (_ = q')) as [<-|Hne]; [|apply qrel_refl];
                lazymatch goal with |- context [queues ?st !! ?q] => destruct (queues st !! q) as [qq1|] eqn:Eq1; [|done] end;
                try (match goal with Eq : Some _ = Some _ |- _ => injection Eq as -> end);
                cbn [fmap option_fmap option_map]; unfold qrel; split; [cbn; done|]; split;
                [ cbn; first
                  [ done
                  | intros i b Hb [Hin|Hin]%elem_of_app; [done|]; apply elem_of_list_singleton in Hin; first [discriminate | injection Hin as _ Hin; congruence]
                  | intros i b Hb Hin; match goal with E : jobs _ = _ :: _ |- _ => rewrite E end; by right ]
                | intros Hrun; first
                  [ left; exact Hrun
                  | left; cbn; match goal with E : t_desync _ _ = _ |- _ => by apply (c_desync T HT _ _ _ E) end
                  | match goal with E : t_sync _ _ _ = (_, SAImmediate) |- _ => destruct (c_sync T HT _ _ _ _ E) as [Hn _]; by destruct Hn end
                  | match goal with E : t_sync _ _ _ = (_, SADrain) |- _ => destruct (c_sync T HT _ _ _ _ E) as [Hn _]; by destruct Hn end
                  | left; cbn; match goal with E : t_sync _ _ _ = _ |- _ => by rewrite (c_sync T HT _ _ _ _ E) end
                  | match goal with E : t_trysync _ _ _ = (_, TAImmediate) |- _ => destruct (c_try T HT _ _ _ _ E) as [Hn _]; by destruct Hn end
                  | left; cbn; match goal with E : t_trysync _ _ _ = _ |- _ => by rewrite (c_try T HT _ _ _ _ E) end
                  | match goal with E : t_claim _ _ = Some _ |- _ => destruct (c_claim T HT _ _ E) as [Hn _]; by destruct Hn end
                  | match goal with E : t_next _ _ = Some _ |- _ => destruct (c_next T HT _ _ E) as [Hn _]; by destruct Hn end
                  | right; left; new_top
                  | match goal with E : t_drain_fin _ _ _ = _ |- _ => rewrite Hrun, (k_fin _ HK) in E;
                      match type of E with context [if ?b then _ else _] => destruct b eqn:Eb end; first [discriminate E | injection E as <-];
                      first [right; right; cbn; exact (proj1 (bool_decide_eq_true _) Eb)|left; done] end ] ]
              | intros q' Hh; rewrite Est in Hh; discriminate
              | first [ plain_d | keep_d Ea W1 W2 ] ]; fail).
    (* a closure runs: flags of the waiting caller go up first *)
    all: try (lazymatch goal with |- ZInv (setstack (run_job ?F ?s ?j) ?a ?st) =>
              assert (HZ1 : ZInv (run_job F s j)) by (eapply Z_ups; [apply ups_run_job|exact HZ]);
              destruct (run_job_self F s j a ac Ea) as (ac1 & Ea1 & Est1); [by rewrite Est|]; rewrite Est in Est1;
              destruct (HZ1 a ac1 Ea1) as [V1 V2 V3 V4]; rewrite Est1 in V1, V2, V3, V4;
              eapply (Z_set _ _ a ac1 HZ1 Ea1);
              [ act_peel | intros q'; q_peel; apply qrel_refl | intros q' Hh; rewrite Est1 in Hh; discriminate
              | first [ plain_d | keep_d Ea1 V1 V2 ] ] end; fail).
    (* a pool thread is spawned *)
    all: try (lazymatch goal with |- ZInv (setstack (_ <| threads := _ |> <| actors := _ ++ [?new] |>) _ _) => idtac end;
              set (s1 := s <| threads := _ |> <| actors := _ |>);
              assert (HZ1 : ZInv s1) by (eapply (Z_add_actor s s1); [done|done|done|done|done|done|exact HZ]);
              assert (Ea1 : actors s1 !! a = Some ac) by (subst s1; cbn; by apply lookup_app_l_Some);
              destruct (HZ1 a ac Ea1) as [V1 V2 V3 V4]; rewrite Est in V1, V2, V3, V4;
              eapply (Z_set s1 _ a ac HZ1 Ea1);
              [ act_peel | intros q'; q_peel; apply qrel_refl | intros q' Hh; rewrite Est in Hh; discriminate
              | first [ plain_d | keep_d Ea1 V1 V2 ] ]; fail).
    (* reschedule_queue: every registered waiter is kicked before the FRQ1 frame goes away *)
    all: try (lazymatch goal with Eq : queues _ !! ?q = Some ?qq, E : t_resched _ _ _ = _ |- ZInv (setstack (updq (foldl (notify ?F) ?s ?ws) ?q ?g) ?a ?st) =>
              assert (HZ1 : ZInv (foldl (notify F) s ws)) by (eapply Z_ups; [apply ups_foldl_notify|exact HZ]);
              destruct (foldl_notify_self F ws s a ac Ea) as (ac1 & Ea1 & Est1); [by rewrite Est|]; rewrite Est in Est1;
              destruct (HZ1 a ac1 Ea1) as [V1 V2 V3 V4]; rewrite Est1 in V1, V2, V3, V4;
              assert (Eq1 : queues (foldl (notify F) s ws) !! q = Some qq) by (rewrite (proj1 (foldl_notify_obs F ws s)); exact Eq);
              eapply (Z_set _ _ a ac1 HZ1 Ea1);
              [ act_peel
              | intros q'; q_peel; rewrite queues_updq; destruct (decide (q = q')) as [<-|Hne]; [|apply qrel_refl];
                rewrite Eq1; cbn [fmap option_fmap option_map]; unfold qrel; split; [cbn; done|]; split; [cbn; done|];
                intros Hrun; left; cbn; by apply (c_resched T HT _ _ _ _ E)
              | intros q' Hh; rewrite Est1 in Hh; cbn in Hh; injection Hh as <-; right; intros zb zab zqq Hzb Hzab Hzqq Hzin;
                rewrite Eq1 in Hzqq; injection Hzqq as <-; by eapply (frq1_kicked F s ws)
              | first [ plain_d | keep_d Ea1 V1 V2 ] ] end; fail).
    (* FSBreg: the caller registers; the notification flag starts set *)
    1: { eapply (Z_set s _ a ac HZ Ea);
         [ act_peel
         | intros q'; q_peel; rewrite queues_updq; destruct (decide (q = q')) as [<-|Hne]; [|apply qrel_refl];
           destruct (queues s !! q) as [qq|] eqn:Eq; [|done]; cbn [fmap option_fmap option_map]; unfold qrel; split; [|split; [cbn; done|by left]];
           cbn; intros zb _ Hin; apply elem_of_app; by left
         | intros q' Hh; rewrite Est in Hh; discriminate | ].
         d_start. rewrite actors_upda_lookup, decide_True in Hy by done. rewrite actors_updq_eq, Ea in Hy. cbn in Hy. injection Hy as <-.
         split; rewrite Hst'; cbn [regq kneed rneed waitq]; try done.
         - intros q0 [= <-]. q_peel. rewrite queues_updq, decide_True by done.
           apply bool_decide_eq_true in Hfrok. destruct (queue_exists s _ Hfrok) as [qq Eq]. rewrite Eq. eexists. split; [reflexivity|].
           cbn. apply elem_of_app. right. by left.
         - intros _. left. rewrite Hk'. cbn. exact HN. }
    (* FSBcheck / FSBwoken: kicked, so try to claim the queue (the flag is consumed) *)
    all: try (lazymatch goal with |- ZInv (setstack (upda _ _ _) _ (FSBclaim _ :: _)) => idtac end;
              eapply (Z_set s _ a ac HZ Ea);
              [ act_peel | intros q'; q_peel; apply qrel_refl | intros q' Hh; rewrite Est in Hh; discriminate | ];
              d_start; rewrite actors_upda_lookup, decide_True in Hy by done; rewrite Ea in Hy; cbn in Hy; injection Hy as <-;
              split; rewrite Hst'; cbn [regq kneed rneed waitq]; try done; reg_keep W1; fail).
    (* FSBcheck: not kicked, not ready: the caller waits; somebody is still going to reschedule the queue *)
    1: { eapply (Z_set s _ a ac HZ Ea);
         [ act_peel | intros q'; q_peel; apply qrel_refl | intros q' Hh; rewrite Est in Hh; discriminate | ].
         d_start. rewrite Ea in Hy. injection Hy as <-.
         split; rewrite Hst'; cbn [regq kneed rneed waitq]; try done.
         all: try (reg_keep W1; fail).
         intros q0 qq0 o0 [= <-] Hr0 Hk0 Hq0 Hj0.
         destruct (W4 q qq0 o0 eq_refl eq_refl (or_introl eq_refl) Hq0 Hj0) as [?|Ht]; [by left|right].
         apply has_top_actor in Ht as (zb & zab & Hzb & Hzh). apply has_top_actor. exists zb, zab. split; [|done].
         rewrite actors_setstack_lookup, decide_False; [done|]. intros <-. rewrite Ea in Hzb. injection Hzb as <-. by rewrite Est in Hzh. }
    (* FSBclaim fails: the queue is running *)
    1: { eapply (Z_set s _ a ac HZ Ea);
         [ act_peel | intros q'; q_peel; apply qrel_refl | intros q' Hh; rewrite Est in Hh; discriminate | ].
         d_start. rewrite Ea in Hy. injection Hy as <-.
         split; rewrite Hst'; cbn [regq kneed rneed waitq]; try done.
         all: try (reg_keep W1; fail).
         intros q0 qq0 o0 [= <-] Hr0 Hk0 Hq0 Hj0. left.
         assert (qq0 = qq) as -> by (change (queues s !! q = Some qq0) in Hq0; congruence).
         destruct (qc_core _ _ _ (HQ _ _ Eq)) as [Hc|[Hc|Hc]]; [| |done]; rewrite Hc in *.
         - match goal with E : t_claim _ _ = None |- _ => by rewrite (k_claim_i _ HK) in E end.
         - match goal with E : t_claim _ _ = None |- _ => by rewrite (k_claim_p _ HK) in E end. }
    (* FSBsteal: the job has run *)
    1: { eapply (Z_set s _ a ac HZ Ea);
         [ act_peel | intros q'; q_peel; apply qrel_refl | intros q' Hh; rewrite Est in Hh; discriminate | ].
         d_start. rewrite Ea in Hy. injection Hy as <-.
         split; rewrite Hst'; cbn [regq kneed rneed waitq]; try done.
         all: try (reg_keep W1; fail).
         intros _. by rewrite Hr'. }
    (* FSBstealidle: the queue goes Idle and a reschedule is on its way *)
    1: { eapply (Z_set s _ a ac HZ Ea);
         [ act_peel
         | intros q'; q_peel; rewrite queues_updq; destruct (decide (q = q')) as [<-|Hne]; [|apply qrel_refl];
           destruct (queues s !! q) as [qq|] eqn:Eq; [|done]; cbn [fmap option_fmap option_map]; unfold qrel;
           split; [cbn; done|]; split; [cbn; done|]; intros _; right; left; new_top
         | intros q' Hh; rewrite Est in Hh; discriminate | ].
         d_start. rewrite Ea in Hy. injection Hy as <-.
         split; rewrite Hst'; cbn [regq kneed rneed waitq]; try done.
         all: try (reg_keep W1; fail).
         intros _. right. rewrite Hr'. by apply W3. }
    (* FSBdone: the caller unregisters *)
    eapply (Z_set s _ a ac HZ Ea);
      [ act_peel
      | intros q'; q_peel; rewrite queues_updq; destruct (decide (q = q')) as [<-|Hne]; [|apply qrel_refl];
        destruct (queues s !! q) as [qq|] eqn:Eq; [|done]; cbn [fmap option_fmap option_map]; unfold qrel;
        split; [|split; [cbn; done|by left]]; cbn; intros zb Hzb Hin; apply elem_of_list_filter; done
      | intros q' Hh; rewrite Est in Hh; discriminate | plain_d ].
  Qed.
End ZStep.
