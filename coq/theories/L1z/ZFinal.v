(* L1z: sync returns for every pool maximum, also 0: in a reachable state in which nobody can move every caller is done *)
From stdpp Require Import list numbers option.
From RecordUpdate Require Import RecordUpdate.
From L1 Require Import Model Own Shape Stuck Live Wait Help Final Pool.
From L1z Require Import ZDefs ZBase ZStep.

(* the invariants that do not need a pool thread *)
Record All0 (s : state) : Prop := {
  z_shape : Shape s; z_inv : Inv s; z_wf : WF s; z_q : QInv s; z_j : JInv s; z_z : ZInv s;
}.

Lemma init_z nq mx scripts : ZInv (init nq mx scripts).
Proof.
  intros w ac Hw. unfold init in Hw; cbn in Hw. rewrite list_lookup_fmap in Hw. destruct (scripts !! w); [|done]. injection Hw as <-.
  by apply wok_plain.
Qed.

(* what a state looks like when nobody can move and the pool may be empty *)
Record quiet0 (s : state) : Prop := {
  (* every caller has finished its script: every sync, try_sync and desync call has returned *)
  q0_callers : forall a ac, s.(actors) !! a = Some ac -> a < ncallers s -> ac.(stack) = [FTop []];
  (* nobody is inside the condition-variable wait of sync_background *)
  q0_nowait : forall a ac q rest, s.(actors) !! a = Some ac -> ac.(stack) <> FSBwait q :: rest;
  (* no queue is being run; a queue is Idle and empty, or it is Pending, holds jobs and sits in the schedule
     (waiting for a pool thread, which only exists if the pool maximum allows one) *)
  q0_queues : forall q qq, s.(queues) !! q = Some qq ->
      qq.(owner) = None /\ ((qq.(qs) = Idle /\ qq.(jobs) = []) \/ (qq.(qs) = Pending /\ qq.(jobs) <> [] /\ q ∈ s.(sched)));
}.

Section Zero.
  Context (T : tables) (F : facts) (HK : core_tables T) (HT : own_conditions T) (HN : F.(f_sticky_notify) = true).

  Lemma step_all0 s a s' : All0 s -> step T F s a = Some s' -> All0 s'.
  Proof.
    intros [H1 H2 H3 H4 H5 H6] Hs. split.
    - by eapply step_shape.
    - by eapply step_inv.
    - by eapply step_wf.
    - by eapply (step_q T F HK).
    - by eapply step_j.
    - by eapply (step_z T F HK HT HN).
  Qed.
  Lemma init_all0 nq mx scripts : wf_scripts nq scripts -> All0 (init nq mx scripts).
  Proof. intros Hs. split; [apply init_shape|apply init_inv|by apply init_wf|apply init_q|apply init_j|apply init_z]. Qed.
  Theorem reachable_all0 nq mx scripts tr s : wf_scripts nq scripts -> run T F (init nq mx scripts) tr = Some s -> All0 s.
  Proof.
    intros Hs. pose proof (init_all0 nq mx scripts Hs) as H0. unfold run. revert H0. generalize (init nq mx scripts).
    induction tr as [|a tr IH]; intros s0 H0; cbn.
    - by intros [= <-].
    - destruct (step T F s0 a) as [s1|] eqn:E; cbn; [|by rewrite run_none]. apply IH. by eapply step_all0.
  Qed.

  Theorem terminal_quiet0 s : All0 s -> terminal T F s -> quiet0 s.
  Proof.
    intros [HS HI HW HQ HJ HZ] Hterm.
    pose proof (stuck_frames T F s HS HW Hterm) as Hstuck.
    assert (HA : forall f, has_top s f -> stuck_frame f).
    { intros f (b & st & Hb & Hh). rewrite stacks_lookup in Hb. destruct (actors s !! b) as [ab|] eqn:Eb; [|done]. injection Hb as <-.
      eapply stuck_hd; [by eapply Hstuck|done]. }
    (* no queue is Running *)
    assert (HB1 : forall q qq, s.(queues) !! q = Some qq -> qq.(qs) <> Running).
    { intros q qq Hq Hr. destruct HI as [I1 I2 I3]. destruct (proj2 (I2 q qq Hq) Hr) as [b Hb].
      pose proof (I3 q qq b Hq Hb) as Hlt. destruct (lookup_lt_is_Some_2 _ _ Hlt) as [ab Eb].
      assert (Hc : stack_cnt s b q = Some (cnt q (stack ab))) by (unfold stack_cnt; by rewrite Eb).
      pose proof (I1 b q qq _ Hc Hq) as H1. rewrite decide_True in H1 by done.
      rewrite (stuck_cnt0 s b ab q HS Eb (Hstuck b ab Eb)) in H1. done. }
    (* nobody waits: an unkicked waiter whose job is stored needs a running queue or a pending reschedule_queue *)
    assert (HC : forall w ac q rest, s.(actors) !! w = Some ac -> ac.(stack) = FSBwait q :: rest -> False).
    { intros w ac q rest Ew Est. destruct (HJ w ac Ew) as [J1 J2].
      assert (Hr : ready ac = false) by (apply (J2 q); by rewrite Est).
      destruct (J1 q) as [(qq & o & G1 & G2)|(b & st & o & G1 & (q' & G2))]; [by rewrite Est|done| |].
      - destruct (HZ w ac Ew) as [_ _ _ Z4].
        destruct (Z4 q qq o) as [Hrun|Ht]; try done; [by rewrite Est|right; by rewrite Est|by destruct (HB1 q qq G1)|by apply HA in Ht].
      - assert (Ht : has_top s (FROrun q' (JSyncBg o w)) \/ has_top s (FDRrun q' (JSyncBg o w))) by (destruct G2; [left|right]; by exists b, st).
        destruct Ht as [Ht|Ht]; by apply HA in Ht. }
    split.
    - intros a ac Ea Hlt. pose proof (Hstuck a ac Ea) as Hsk. pose proof HS as [_ _ Ca _ _ _ _]. specialize (Ca a ac Ea Hlt).
      destruct (stack ac) as [|fr rest] eqn:Es; [done|]. destruct fr; try done; cbn in Hsk.
      + destruct script; [|done]. by destruct rest.
      + exfalso. by eapply HC.
      + by destruct rest.
    - intros a ac q rest Ea Es. by eapply HC.
    - intros q qq Hq. destruct (HQ q qq Hq) as [C1 C2 C3].
      assert (Ho : owner qq = None).
      { destruct (owner qq) eqn:Eo; [|done]. exfalso. apply (HB1 q qq Hq). destruct HI as [_ I2 _]. apply (I2 q qq Hq). by eexists. }
      split; [done|]. destruct C1 as [Hc|[Hc|Hc]]; [| |by destruct (HB1 q qq Hq)].
      + left. split; [done|]. destruct (decide (jobs qq = [])) as [|Hn]; [done|]. exfalso. pose proof (C3 Hc Hn) as Ht. by apply HA in Ht.
      + right. destruct (C2 Hc) as [Hj [Hs|[Hs|Hs]]]; [done|by apply HA in Hs|by apply HA in Hs].
  Qed.

  (* sync always returns, whatever the pool maximum (also 0) *)
  Theorem sync_returns_any_pool nq mx scripts tr s :
    wf_scripts nq scripts -> run T F (init nq mx scripts) tr = Some s -> terminal T F s -> quiet0 s.
  Proof. intros Hs Hr. apply terminal_quiet0. by eapply reachable_all0. Qed.

  Corollary callers_done nq mx scripts tr s :
    wf_scripts nq scripts -> run T F (init nq mx scripts) tr = Some s -> terminal T F s ->
    forall a ac, a < length scripts -> s.(actors) !! a = Some ac -> ac.(stack) = [FTop []].
  Proof.
    intros Hs Hr Hterm a ac Ha Ea. destruct (sync_returns_any_pool nq mx scripts tr s Hs Hr Hterm) as [Q1 _ _].
    apply (Q1 a ac Ea). destruct (reachable_pool_bounded T F nq mx scripts tr s Hr) as (_ & _ & H3). unfold ncallers. lia.
  Qed.
End Zero.
