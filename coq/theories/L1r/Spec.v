(* ObjExec: the simplest specification of one Desync object.  No proofs.
   Operations accepted on the object are executed one at a time, in the order in which they were accepted, each at most once. *)
From stdpp Require Import list numbers option.

Record ospec := {
  sq : list nat;        (* accepted, not yet started; oldest first *)
  scur : option nat;    (* the operation in progress *)
  sdone : list nat;     (* finished, in the order in which they finished *)
}.
Definition oempty : ospec := {| sq := []; scur := None; sdone := [] |}.

Inductive label :=
| Accept (i : nat)      (* the object accepts operation i: it goes to the back of the queue *)
| Start (i : nat)       (* i is the oldest accepted operation and nothing is in progress: i starts *)
| Finish (i : nat)      (* i is in progress: it finishes *)
| Busy (i : nat).       (* try_sync i was refused: nothing changes *)
#[export] Instance label_eq_dec : EqDecision label. Proof. solve_decision. Defined.

Definition ostep (o : ospec) (l : label) : option ospec :=
  match l with
  | Accept i => Some {| sq := o.(sq) ++ [i]; scur := o.(scur); sdone := o.(sdone) |}
  | Start i =>
      match o.(sq), o.(scur) with
      | j :: rest, None => if decide (i = j) then Some {| sq := rest; scur := Some i; sdone := o.(sdone) |} else None
      | _, _ => None
      end
  | Finish i =>
      match o.(scur) with
      | Some j => if decide (i = j) then Some {| sq := o.(sq); scur := None; sdone := o.(sdone) ++ [i] |} else None
      | None => None
      end
  | Busy _ => Some o
  end.
Definition orun (o : ospec) (ls : list label) : option ospec := foldl (fun r l => x ← r; ostep x l) (Some o) ls.
(* a trace of labels is a trace of the specification iff it can be run from the empty state *)
Definition accepted (ls : list label) : Prop := is_Some (orun oempty ls).

(* reading a trace *)
Definition accepts (ls : list label) : list nat := omap (fun l => match l with Accept i => Some i | _ => None end) ls.
Definition starts (ls : list label) : list nat := omap (fun l => match l with Start i => Some i | _ => None end) ls.
Definition finishes (ls : list label) : list nat := omap (fun l => match l with Finish i => Some i | _ => None end) ls.
