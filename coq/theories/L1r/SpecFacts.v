(* ObjExec: what every trace of the specification satisfies *)
From stdpp Require Import list numbers option.
From L1r Require Import Spec.

Definition curl (o : ospec) : list nat := match o.(scur) with Some i => [i] | None => [] end.

Lemma orun_none ls : foldl (fun r l => x ← r; ostep x l) None ls = None.
Proof. induction ls; cbn; done. Qed.
Lemma orun_app o l1 l2 : orun o (l1 ++ l2) = o1 ← orun o l1; orun o1 l2.
Proof. unfold orun. rewrite foldl_app. destruct (foldl _ (Some o) l1); cbn; [done|apply orun_none]. Qed.
Lemma orun_cons o l ls : orun o (l :: ls) = o1 ← ostep o l; orun o1 ls.
Proof. unfold orun. cbn. destruct (ostep o l); cbn; [done|apply orun_none]. Qed.
Lemma orun_app_Some o l1 l2 o' : orun o (l1 ++ l2) = Some o' -> exists o1, orun o l1 = Some o1 /\ orun o1 l2 = Some o'.
Proof. rewrite orun_app. destruct (orun o l1) as [o1|]; [|done]. intros H. by exists o1. Qed.
Lemma orun_cons_Some o l ls o' : orun o (l :: ls) = Some o' -> exists o1, ostep o l = Some o1 /\ orun o1 ls = Some o'.
Proof. rewrite orun_cons. destruct (ostep o l) as [o1|]; [|done]. intros H. by exists o1. Qed.
Lemma accepted_prefix l1 l2 : accepted (l1 ++ l2) -> accepted l1.
Proof. unfold accepted. rewrite orun_app. destruct (orun oempty l1); [by eexists|by intros [? ?]]. Qed.

Lemma accepts_app l1 l2 : accepts (l1 ++ l2) = accepts l1 ++ accepts l2. Proof. apply omap_app. Qed.
Lemma starts_app l1 l2 : starts (l1 ++ l2) = starts l1 ++ starts l2. Proof. apply omap_app. Qed.
Lemma finishes_app l1 l2 : finishes (l1 ++ l2) = finishes l1 ++ finishes l2. Proof. apply omap_app. Qed.

(* the bookkeeping law of one step *)
Lemma ostep_law o l o' : ostep o l = Some o' ->
  sdone o' ++ curl o' ++ sq o' = (sdone o ++ curl o ++ sq o) ++ accepts [l] /\
  sdone o' ++ curl o' = (sdone o ++ curl o) ++ starts [l] /\
  sdone o' = sdone o ++ finishes [l].
Proof.
  destruct o as [Q C D]. unfold curl. destruct l as [i|i|i|i]; cbn.
  - intros [= <-]. cbn. rewrite !app_nil_r. by rewrite <- !app_assoc.
  - destruct Q as [|j rest]; [done|]. destruct C; [done|]. case_decide; [|done]. subst. intros [= <-]. cbn. rewrite !app_nil_r. done.
  - destruct C as [j|]; [|done]. case_decide; [|done]. subst. intros [= <-]. cbn. rewrite !app_nil_r. by rewrite <- !app_assoc.
  - intros [= <-]. cbn. by rewrite !app_nil_r.
Qed.
Lemma orun_law ls o o' : orun o ls = Some o' ->
  sdone o' ++ curl o' ++ sq o' = (sdone o ++ curl o ++ sq o) ++ accepts ls /\
  sdone o' ++ curl o' = (sdone o ++ curl o) ++ starts ls /\
  sdone o' = sdone o ++ finishes ls.
Proof.
  revert o. induction ls as [|l ls IH]; intros o.
  - intros [= <-]. cbn. by rewrite !app_nil_r.
  - rewrite orun_cons. destruct (ostep o l) as [o1|] eqn:E; [|done]. intros Hr. cbn in Hr.
    destruct (ostep_law _ _ _ E) as (A1 & A2 & A3). destruct (IH _ Hr) as (B1 & B2 & B3).
    pose proof (accepts_app [l] ls) as E1. pose proof (starts_app [l] ls) as E2. pose proof (finishes_app [l] ls) as E3.
    change ([l] ++ ls) with (l :: ls) in E1, E2, E3. rewrite E1, E2, E3, B1, B2, B3, A1, A2, A3. by rewrite <- !app_assoc.
Qed.

Section Accepted.
  Context (ls : list label) (Hacc : accepted ls).

  (* operations start in the order in which they were accepted, and finish in the order in which they started *)
  Theorem spec_start_order : exists rest, accepts ls = starts ls ++ rest.
  Proof. destruct Hacc as [o Ho]. destruct (orun_law _ _ _ Ho) as (A1 & A2 & _). cbn in A1, A2. exists (sq o). by rewrite <- A1, <- A2, <- app_assoc. Qed.
  Theorem spec_finish_order : exists rest, starts ls = finishes ls ++ rest /\ length rest <= 1.
  Proof.
    destruct Hacc as [o Ho]. destruct (orun_law _ _ _ Ho) as (_ & A2 & A3). cbn in A2, A3. exists (curl o). split; [by rewrite <- A2, <- A3|].
    unfold curl. destruct (scur o); cbn; lia.
  Qed.
  (* every accepted operation starts at most once (if it was accepted once) *)
  Theorem spec_once : NoDup (accepts ls) -> NoDup (starts ls) /\ NoDup (finishes ls).
  Proof.
    intros Hn. destruct spec_start_order as [r1 H1]. rewrite H1 in Hn. apply NoDup_app in Hn as [Hn _]. split; [done|].
    destruct spec_finish_order as (r2 & H2 & _). rewrite H2 in Hn. by apply NoDup_app in Hn as [Hn _].
  Qed.
End Accepted.

(* at most one operation is in progress: a second operation cannot start before the first has finished *)
Lemma cur_stays ls o o' i : orun o ls = Some o' -> scur o = Some i -> Finish i ∉ ls -> scur o' = Some i.
Proof.
  revert o. induction ls as [|l ls IH]; intros o; [by intros [= <-]|].
  intros (o1 & E & Hr)%orun_cons_Some Hc Hn.
  apply (IH o1 Hr); [|by intros ?; apply Hn; right]. destruct o as [Q C D]. cbn in Hc. subst C.
  destruct l as [j|j|j|j]; cbn in E.
  - by injection E as <-.
  - by destruct Q.
  - case_decide; [|done]. subst. destruct Hn. by left.
  - by injection E as <-.
Qed.
Theorem spec_one_at_a_time l1 i l2 j : accepted (l1 ++ Start i :: l2 ++ [Start j]) -> Finish i ∈ l2.
Proof.
  intros [o Ho]. destruct (decide (Finish i ∈ l2)) as [|Hn]; [done|]. exfalso.
  apply orun_app_Some in Ho as (o1 & _ & Ho). apply orun_cons_Some in Ho as (o2 & E2 & Ho).
  apply orun_app_Some in Ho as (o3 & E3 & Ho). apply orun_cons_Some in Ho as (o4 & E4 & _).
  assert (Hc2 : scur o2 = Some i).
  { cbn in E2. destruct (sq o1); [done|]. destruct (scur o1); [done|]. case_decide; [|done]. by injection E2 as <-. }
  pose proof (cur_stays _ _ _ _ E3 Hc2 Hn) as Hc3. cbn in E4. rewrite Hc3 in E4. by destruct (sq o3).
Qed.

Theorem spec_facts ls : accepted ls ->
  (exists rest, accepts ls = starts ls ++ rest) /\ (exists rest, starts ls = finishes ls ++ rest /\ length rest <= 1) /\
  (NoDup (accepts ls) -> NoDup (starts ls) /\ NoDup (finishes ls)) /\
  (forall l1 i l2 j l3, ls = l1 ++ Start i :: l2 ++ Start j :: l3 -> Finish i ∈ l2).
Proof.
  intros Hacc. split; [by apply spec_start_order|]. split; [by apply spec_finish_order|]. split; [by apply spec_once|].
  intros l1 i l2 j l3 ->. apply (spec_one_at_a_time l1 i l2 j). apply (accepted_prefix _ l3).
  rewrite <- !app_assoc. cbn. rewrite <- !app_assoc. done.
Qed.
