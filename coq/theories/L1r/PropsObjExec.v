(* ObjExec - the L1 scheduler model refines the specification of a Desync object used by the higher layers
   (L1r/Spec.v: operations accepted on an object are executed one at a time, in acceptance order, each at most once).

   For every run of the unmodified L1 model (any tables with own_conditions and imm_conditions, any program, number of objects,
   pool maximum and schedule) and every object q:
   - the history of the run, read on q (Push i q = Accept i; Run i q = Start i, Finish i; RetBusy i = Busy i), is a trace of the
     specification, and leads to the abstraction [abs s h q] of the reached state (sq = the pending jobs of q, nothing in progress,
     sdone = the operations run on q);
   - the abstraction function commutes with every step of the model (a step is a stutter or the corresponding spec steps);
   - corollaries: one operation at a time; start order = acceptance order; each accepted operation starts at most once;
     in a terminal state (hypotheses of L_quiet) everything accepted has finished; an operation that returned before another
     was called was accepted before it.
   Fully proved. *)
From stdpp Require Import list numbers option.
From L0 Require Import Types.
From Gen Require Import Tables.
From L1 Require Import Model Own Shape Stuck Live Wait Help Final.
From L1h Require Import Hist Abs Sim HistFacts Reach.
From L1r Require Import Spec SpecFacts Proj Refine.

(* trace refinement *)
Theorem ObjExec_run_refines_L1 :
  forall (T : tables) (F : facts), own_conditions T -> imm_conditions T ->
  forall nq mx scripts tr s q,
    run T F (init nq mx scripts) tr = Some s ->
    let h := hist T F (init nq mx scripts) tr in
    orun oempty (obj_trace q h) = Some (abs s h q).
Proof. exact run_refines. Qed.
Theorem ObjExec_history_is_a_trace_L1 :
  forall (T : tables) (F : facts), own_conditions T -> imm_conditions T ->
  forall nq mx scripts tr s q,
    run T F (init nq mx scripts) tr = Some s -> accepted (obj_trace q (hist T F (init nq mx scripts) tr)).
Proof. exact run_accepted. Qed.

(* the abstraction function commutes with every step (HInv: the invariants of the product model x history, L1h/Reach.v) *)
Theorem ObjExec_step_refines_L1 :
  forall (T : tables) (F : facts), own_conditions T -> imm_conditions T ->
  forall s h a s' q seen,
    HInv (s, h) -> step T F s a = Some s' ->
    orun (abs s h q) (projq q seen (obs T F s a)) = Some (abs s' (h ++ obs T F s a) q).
Proof. exact step_refines. Qed.
Theorem ObjExec_invariants_reachable_L1 :
  forall (T : tables) (F : facts), own_conditions T -> imm_conditions T ->
  forall nq mx scripts tr s, run T F (init nq mx scripts) tr = Some s -> HInv (s, hist T F (init nq mx scripts) tr).
Proof. exact reachable_hinv. Qed.

(* the labels of the trace are the pushes and the runs of the history *)
Theorem ObjExec_labels_L1 :
  forall (T : tables) (F : facts) nq mx scripts tr q,
    let h := hist T F (init nq mx scripts) tr in
    accepts (obj_trace q h) = pushed h q /\ starts (obj_trace q h) = ranq h q /\ finishes (obj_trace q h) = ranq h q.
Proof. exact obj_trace_reads. Qed.

(* at most one operation of an object is in progress at any time *)
Theorem ObjExec_one_at_a_time_L1 :
  forall (T : tables) (F : facts), own_conditions T -> imm_conditions T ->
  forall nq mx scripts tr s q l1 i l2 j l3,
    run T F (init nq mx scripts) tr = Some s ->
    obj_trace q (hist T F (init nq mx scripts) tr) = l1 ++ Start i :: l2 ++ Start j :: l3 -> Finish i ∈ l2.
Proof. exact one_at_a_time. Qed.

(* operations start in acceptance order; every operation is accepted, started and finished at most once *)
Theorem ObjExec_start_order_L1 :
  forall (T : tables) (F : facts), own_conditions T -> imm_conditions T ->
  forall nq mx scripts tr s q,
    run T F (init nq mx scripts) tr = Some s ->
    let ls := obj_trace q (hist T F (init nq mx scripts) tr) in
    (exists rest, accepts ls = starts ls ++ rest) /\ NoDup (accepts ls) /\ NoDup (starts ls) /\ NoDup (finishes ls).
Proof. exact start_order. Qed.

(* when nobody can move, everything accepted has finished *)
Theorem ObjExec_terminal_all_done_L1 :
  forall (T : tables) (F : facts), own_conditions T -> imm_conditions T -> core_tables T -> F.(f_dormant_blocks) = true ->
  forall nq mx scripts, wf_scripts nq scripts -> 1 <= mx ->
  forall tr s q,
    run T F (init nq mx scripts) tr = Some s -> terminal T F s ->
    let ls := obj_trace q (hist T F (init nq mx scripts) tr) in
    orun oempty ls = Some {| sq := []; scur := None; sdone := accepts ls |}.
Proof. intros T F H1 H2 H3 H4 nq mx scripts H5 H6 tr s q. exact (terminal_all_done T F H1 H2 nq mx scripts H3 H4 H5 H6 tr s q). Qed.

(* the acceptance order extends the order of the API *)
Theorem ObjExec_api_order_L1 :
  forall (T : tables) (F : facts), own_conditions T -> imm_conditions T ->
  forall nq mx scripts tr s A B q ka kb,
    run T F (init nq mx scripts) tr = Some s ->
    let h := hist T F (init nq mx scripts) tr in
    Call A q ka ∈ h -> before (Ret A) (Call B q kb) h -> Push B q ∈ h ->
    exists l1 l2 l3, accepts (obj_trace q h) = l1 ++ A :: l2 ++ B :: l3.
Proof. exact api_order_is_acceptance_order. Qed.

(* the same facts for any trace of the specification (what the other layers may assume of an ObjExec) *)
Theorem ObjExec_spec_facts :
  forall ls, accepted ls ->
    (exists rest, accepts ls = starts ls ++ rest) /\ (exists rest, starts ls = finishes ls ++ rest /\ length rest <= 1) /\
    (NoDup (accepts ls) -> NoDup (starts ls) /\ NoDup (finishes ls)) /\
    (forall l1 i l2 j l3, ls = l1 ++ Start i :: l2 ++ Start j :: l3 -> Finish i ∈ l2).
Proof. exact spec_facts. Qed.

Print Assumptions ObjExec_run_refines_L1.
Print Assumptions ObjExec_history_is_a_trace_L1.
Print Assumptions ObjExec_step_refines_L1.
Print Assumptions ObjExec_invariants_reachable_L1.
Print Assumptions ObjExec_labels_L1.
Print Assumptions ObjExec_one_at_a_time_L1.
Print Assumptions ObjExec_start_order_L1.
Print Assumptions ObjExec_terminal_all_done_L1.
Print Assumptions ObjExec_api_order_L1.
Print Assumptions ObjExec_spec_facts.

(* non-vacuity: a run with three callers, two objects and a pool of one thread; its history read on object 0 *)
Definition exR_scripts : list (list op) := [[ODesync 0; OSync 0]; [ODesync 0; OTrySync 0]; [OTrySync 1; OSync 0]].
Definition exR_trace : list nat :=
  [0; 0; 0; 1; 1; 1; 1; 2; 2; 2; 2; 2; 0; 0; 0; 0; 2; 2; 2; 0; 0; 0; 0; 0; 0; 0; 0; 2; 2; 2; 2; 2; 2; 2; 2; 2; 2; 2; 2; 0; 0; 0; 0; 0; 0; 0;
   0; 0; 0; 2; 2; 2; 2; 2; 3; 3; 3; 3; 3; 3].
Example ObjExec_example :
  (exists s, run gen_tables gen_facts (init 2 1 exR_scripts) exR_trace = Some s) /\
  obj_trace 0 (hist gen_tables gen_facts (init 2 1 exR_scripts) exR_trace) =
    [Accept 0; Accept 1; Busy 2; Accept 4; Accept 5; Start 0; Finish 0; Start 1; Finish 1; Start 4; Finish 4; Start 5; Finish 5] /\
  obj_trace 1 (hist gen_tables gen_facts (init 2 1 exR_scripts) exR_trace) = [Accept 3; Start 3; Finish 3] /\
  orun oempty (obj_trace 0 (hist gen_tables gen_facts (init 2 1 exR_scripts) exR_trace)) = Some {| sq := []; scur := None; sdone := [0; 1; 4; 5] |}.
Proof. split; [eexists; vm_compute; reflexivity|]. repeat split; vm_compute; reflexivity. Qed.
