(* L1r: the L1 model refines ObjExec, object by object *)
From stdpp Require Import list numbers option.
From RecordUpdate Require Import RecordUpdate.
From L1 Require Import Model Own Shape Stuck Live Wait Help Final.
From L1h Require Import WeakWF Hist Abs SimBase Sim HistFacts AInv Reach Order Main.
From L1r Require Import Spec SpecFacts Proj.

(* ---------- the projection ---------- *)
Lemma projq_app q seen h1 h2 : projq q seen (h1 ++ h2) = projq q seen h1 ++ projq q (seen_after seen h1) h2.
Proof.
  revert seen. induction h1 as [|e h1 IH]; intros seen; [done|]. destruct e; cbn [app projq seen_after foldl]; rewrite IH; try done; by rewrite <- app_assoc.
Qed.
Lemma accepts_projq q seen h : accepts (projq q seen h) = pushed h q.
Proof.
  revert seen. induction h as [|e h IH]; intros seen; [done|]. destruct e; cbn [projq]; rewrite ?accepts_app, IH; try done.
  - unfold pushed at 2. cbn. case_decide; done.
  - unfold pushed at 2. cbn. case_decide; done.
  - case_decide; done.
Qed.
Lemma starts_projq q seen h : starts (projq q seen h) = ranq h q.
Proof.
  revert seen. induction h as [|e h IH]; intros seen; [done|]. destruct e; cbn [projq]; rewrite ?starts_app, IH; try done.
  - case_decide; done.
  - unfold ranq at 2. cbn. case_decide; done.
  - case_decide; done.
Qed.
Lemma finishes_projq q seen h : finishes (projq q seen h) = ranq h q.
Proof.
  revert seen. induction h as [|e h IH]; intros seen; [done|]. destruct e; cbn [projq]; rewrite ?finishes_app, IH; try done.
  - case_decide; done.
  - unfold ranq at 2. cbn. case_decide; done.
  - case_decide; done.
Qed.

(* ---------- one step of the abstract history machine is a stutter or the corresponding ObjExec steps ---------- *)
Definition ost (P : list job) (D : list nat) : ospec := {| sq := job_id <$> P; scur := None; sdone := D |}.
Lemma dend_proj q seen d i : projq q seen (dend_ev d i) = [] /\ ranq (dend_ev d i) q = [].
Proof. by destruct d. Qed.

Lemma ost_run j js D : orun (ost (j :: js) D) [Start (job_id j); Finish (job_id j)] = Some (ost js (D ++ [job_id j])).
Proof. unfold orun, ost. cbn. rewrite decide_True by done. cbn. rewrite decide_True by done. done. Qed.

Lemma astep_refines v a evs w q D seen : astep v a evs w ->
  orun (ost (v_pend v q) D) (projq q seen evs) = Some (ost (v_pend w q) (D ++ ranq evs q)).
Proof.
  intros Hs. destruct Hs as [w Hv|w Hv|w x k q0 Ha Hp Hv|w x q0 d Ha Hp Hv|w x k q0 Ha Hp Hk Hpe Hv|w x q0 j Ha Hp Hj Hv|w x q0 js Ha Hp Hpe Hv
                  |w q0 j js Hpe Hv|w x q0 Ha Hp Hfl Hv|w x Ha Hp Hv|w x q0 Ha Hp Hv|w x k q0 Ha Hp Hv];
    destruct Hv as (_ & Hpend & _ & _); cbn [v_pend] in Hpend; rewrite (Hpend q); unfold fupd.
  - cbn. by rewrite app_nil_r.
  - cbn. by rewrite app_nil_r.
  - cbn. by rewrite app_nil_r.
  - cbn [projq]. destruct (dend_proj q seen d (aop x)) as [-> E2]. change (ranq (Push (aop x) q0 :: dend_ev d (aop x)) q) with (ranq (dend_ev d (aop x)) q).
    rewrite E2, !app_nil_r. destruct (decide (q0 = q)) as [->|Hne].
    + rewrite decide_True by done. cbn. unfold ost. by rewrite fmap_app.
    + rewrite decide_False by done. done.
  - cbn. destruct (decide (q0 = q)) as [->|Hne].
    + rewrite decide_True by done. rewrite Hpe. cbn. by rewrite app_nil_r.
    + rewrite decide_False by done. cbn. by rewrite app_nil_r.
  - cbn. destruct (decide (q0 = q)) as [->|Hne].
    + rewrite decide_True by done. cbn. unfold ost. rewrite fmap_app, app_nil_r. cbn. by destruct Hj as [-> | ->].
    + rewrite decide_False by done. cbn. by rewrite app_nil_r.
  - unfold ranq. cbn [projq omap list_omap]. destruct (decide (q0 = q)) as [->|Hne].
    + rewrite decide_True by done. rewrite Hpe. cbn [app]. apply (ost_run (JPlain (aop x))).
    + rewrite decide_False by done. cbn. by rewrite app_nil_r.
  - unfold ranq. cbn [projq omap list_omap]. destruct (decide (q0 = q)) as [->|Hne].
    + rewrite decide_True by done. rewrite Hpe. cbn [app]. apply ost_run.
    + rewrite decide_False by done. cbn. by rewrite app_nil_r.
  - cbn. by rewrite app_nil_r.
  - cbn. by rewrite app_nil_r.
  - unfold ranq. cbn [projq omap list_omap]. rewrite !app_nil_r. case_decide; reflexivity.
  - cbn. by rewrite app_nil_r.
Qed.

(* ---------- the refinement, step by step and for whole runs ---------- *)
Section Refine.
  Context (T : tables) (F : facts) (HT : own_conditions T) (HI : imm_conditions T).

  (* the abstraction function commutes with every step of the model *)
  Theorem step_refines s h a s' q seen : HInv (s, h) -> step T F s a = Some s' ->
    orun (abs s h q) (projq q seen (obs T F s a)) = Some (abs s' (h ++ obs T F s a) q).
  Proof.
    intros [H1 H2 H3 H4] Hs. cbn [fst snd] in *. unfold obs. rewrite Hs.
    pose proof (step_sim T F HT HI s a s' H1 H2 H3 Hs) as Hst.
    pose proof (astep_refines _ _ _ _ q (ranq h q) seen Hst) as Hr. unfold abs. rewrite ranq_app. exact Hr.
  Qed.

  Lemma runh_refines q sh tr sh' : HInv sh -> runh T F sh tr = Some sh' ->
    orun oempty (obj_trace q sh.2) = Some (abs sh.1 sh.2 q) -> orun oempty (obj_trace q sh'.2) = Some (abs sh'.1 sh'.2 q).
  Proof.
    unfold runh. revert sh. induction tr as [|a tr IH]; intros sh H0; cbn.
    - by intros [= <-].
    - destruct (steph T F sh a) as [sh1|] eqn:E; cbn; [|by rewrite runh_none]. intros Hr Habs. apply (IH sh1); [by eapply (steph_inv T F HT HI)|done|].
      unfold steph in E. destruct (step T F sh.1 a) as [s1|] eqn:Es; [|done]. cbn in E. injection E as <-. cbn [fst snd].
      unfold obj_trace. rewrite projq_app, orun_app. unfold obj_trace in Habs. rewrite Habs. cbn. destruct sh as [s h]. by apply step_refines.
  Qed.

  Context (nq mx : nat) (scripts : list (list op)).

  (* the history of every run, read on object q, is a trace of ObjExec; and it leads to the abstraction of the reached state *)
  Theorem run_refines tr s q : run T F (init nq mx scripts) tr = Some s ->
    orun oempty (obj_trace q (hist T F (init nq mx scripts) tr)) = Some (abs s (hist T F (init nq mx scripts) tr) q).
  Proof.
    intros Hr. pose proof (run_hist T F _ _ _ Hr) as Hh.
    apply (runh_refines q (init nq mx scripts, []) tr (s, hist T F (init nq mx scripts) tr)); [apply init_hinv|done|].
    cbn. unfold abs. by rewrite pend_init.
  Qed.
  Corollary run_accepted tr s q : run T F (init nq mx scripts) tr = Some s -> accepted (obj_trace q (hist T F (init nq mx scripts) tr)).
  Proof. intros Hr. eexists. by apply run_refines. Qed.

  (* what the labels are *)
  Lemma obj_trace_reads tr q :
    accepts (obj_trace q (hist T F (init nq mx scripts) tr)) = pushed (hist T F (init nq mx scripts) tr) q /\
    starts (obj_trace q (hist T F (init nq mx scripts) tr)) = ranq (hist T F (init nq mx scripts) tr) q /\
    finishes (obj_trace q (hist T F (init nq mx scripts) tr)) = ranq (hist T F (init nq mx scripts) tr) q.
  Proof. unfold obj_trace. by rewrite accepts_projq, starts_projq, finishes_projq. Qed.

  (* at most one operation of an object is in progress at any time *)
  Corollary one_at_a_time tr s q l1 i l2 j l3 : run T F (init nq mx scripts) tr = Some s ->
    obj_trace q (hist T F (init nq mx scripts) tr) = l1 ++ Start i :: l2 ++ Start j :: l3 -> Finish i ∈ l2.
  Proof.
    intros Hr Heq. pose proof (run_accepted tr s q Hr) as Hacc. rewrite Heq in Hacc.
    apply (spec_one_at_a_time l1 i l2 j). apply (accepted_prefix _ l3).
    rewrite <- !app_assoc. cbn. rewrite <- !app_assoc. done.
  Qed.
  (* operations start in acceptance order, each at most once *)
  Corollary start_order tr s q : run T F (init nq mx scripts) tr = Some s ->
    (exists rest, accepts (obj_trace q (hist T F (init nq mx scripts) tr)) = starts (obj_trace q (hist T F (init nq mx scripts) tr)) ++ rest) /\
    NoDup (accepts (obj_trace q (hist T F (init nq mx scripts) tr))) /\
    NoDup (starts (obj_trace q (hist T F (init nq mx scripts) tr))) /\ NoDup (finishes (obj_trace q (hist T F (init nq mx scripts) tr))).
  Proof.
    intros Hr. pose proof (run_accepted tr s q Hr) as Hacc. split; [by apply spec_start_order|].
    assert (Hn : NoDup (accepts (obj_trace q (hist T F (init nq mx scripts) tr)))).
    { destruct (obj_trace_reads tr q) as (-> & _). apply hg_pushed_nodup. by eapply (history_good T F HT HI). }
    split; [done|]. by apply spec_once.
  Qed.
  (* in a state in which nobody can move everything accepted has finished *)
  Corollary terminal_all_done (HK : core_tables T) (HF : F.(f_dormant_blocks) = true) (Hwf : wf_scripts nq scripts) (Hmx : 1 <= mx) tr s q :
    run T F (init nq mx scripts) tr = Some s -> terminal T F s ->
    orun oempty (obj_trace q (hist T F (init nq mx scripts) tr)) =
      Some {| sq := []; scur := None; sdone := accepts (obj_trace q (hist T F (init nq mx scripts) tr)) |}.
  Proof.
    intros Hr Hterm. rewrite (run_refines tr s q Hr). unfold abs.
    destruct (reach_facts T F HT HI nq mx scripts tr s Hr) as (_ & _ & _ & Hinv).
    pose proof (L_quiet T F HK HT HF nq mx scripts tr s Hwf Hmx Hr Hterm) as Hc.
    rewrite (complete_pend s Hinv Hc q). destruct (obj_trace_reads tr q) as (-> & _).
    destruct (nothing_lost T F HT HI nq mx scripts HK HF Hwf Hmx tr s Hr Hterm) as (Hall & _). by rewrite Hall.
  Qed.
  (* the acceptance order extends the order of the API: an operation that returned before another one was called was accepted first *)
  Corollary api_order_is_acceptance_order tr s A B q ka kb : run T F (init nq mx scripts) tr = Some s ->
    Call A q ka ∈ hist T F (init nq mx scripts) tr ->
    before (Ret A) (Call B q kb) (hist T F (init nq mx scripts) tr) ->
    Push B q ∈ hist T F (init nq mx scripts) tr ->
    exists l1 l2 l3, accepts (obj_trace q (hist T F (init nq mx scripts) tr)) = l1 ++ A :: l2 ++ B :: l3.
  Proof.
    intros Hr HcA (h1 & h2 & h3 & Hh) HpB. destruct (obj_trace_reads tr q) as (-> & _).
    pose proof (history_good T F HT HI nq mx scripts tr s Hr) as Hg. pose proof (reach_prefix T F HT HI nq mx scripts tr s Hr) as Hq.
    set (h := hist T F (init nq mx scripts) tr) in *.
    assert (HpA : Push A q ∈ h1).
    { destruct (Hg h1 _ _ Hh) as (Hp & _). apply elem_of_pushed_all in Hp as [qa Hp].
      assert (HpA : Push A qa ∈ h) by (rewrite Hh; apply elem_of_app; by left).
      destruct (push_called h Hg Hq _ _ HpA) as [k' Hc']. by destruct (hg_call_inj h Hg _ _ _ _ _ HcA Hc') as [-> _]. }
    assert (HpB' : Push B q ∈ h3).
    { assert (Hh' : h = (h1 ++ Ret A :: h2) ++ Call B q kb :: h3) by (rewrite Hh, <- app_assoc; done).
      destruct (call_first h Hg _ _ _ _ _ _ Hh' HpB eq_refl) as [?|?]; done. }
    apply elem_of_pushed, elem_of_list_split in HpA as (a1 & a2 & Ea). apply elem_of_pushed, elem_of_list_split in HpB' as (b1 & b2 & Eb).
    exists a1, (a2 ++ pushed (Ret A :: h2 ++ [Call B q kb]) q ++ b1), b2.
    rewrite Hh. replace (h1 ++ Ret A :: h2 ++ Call B q kb :: h3) with (h1 ++ (Ret A :: h2 ++ [Call B q kb]) ++ h3) by (cbn; by rewrite <- app_assoc).
    rewrite !pushed_app, Ea, Eb. by rewrite <- !app_assoc.
  Qed.
End Refine.
