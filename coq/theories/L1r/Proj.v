(* L1r: reading a history of the L1 model as a trace of ObjExec labels for one object; the abstraction function.  No proofs. *)
From stdpp Require Import list numbers option.
From L1 Require Import Model.
From L1h Require Import Hist Abs.
From L1r Require Import Spec.

(* the projection of a history onto object q.  Push i q: the object accepts i.  Run i q: the closure of i runs atomically in
   the model - i starts and finishes.  RetBusy i: try_sync i on q was refused ([seen] remembers which object an id was called on). *)
Fixpoint projq (q : nat) (seen : list (nat * nat)) (h : list hevent) : list label :=
  match h with
  | [] => []
  | Call i q' _ :: r => projq q ((i, q') :: seen) r
  | Push i q' :: r => (if decide (q' = q) then [Accept i] else []) ++ projq q seen r
  | Run i q' :: r => (if decide (q' = q) then [Start i; Finish i] else []) ++ projq q seen r
  | RetBusy i :: r => (if decide ((i, q) ∈ seen) then [Busy i] else []) ++ projq q seen r
  | _ :: r => projq q seen r
  end.
Definition seen_after (seen : list (nat * nat)) (h : list hevent) : list (nat * nat) :=
  foldl (fun acc e => match e with Call i q' _ => (i, q') :: acc | _ => acc end) seen h.
Definition obj_trace (q : nat) (h : list hevent) : list label := projq q [] h.

(* the abstraction function: what ObjExec state object q is in.  Between two steps of the model nothing is in progress. *)
Definition abs (s : state) (h : list hevent) (q : nat) : ospec :=
  {| sq := job_id <$> pend s q; scur := None; sdone := ranq h q |}.
