(* L1r: the ObjExec refinement for the tables generated from the current source *)
From stdpp Require Import list numbers option.
From L0 Require Import Types.
From Gen Require Import Tables.
From L1 Require Import Model Own Shape Stuck Live Wait Help Final.
From L1h Require Import Hist Abs Sim HistFacts Reach.
From L1r Require Import Spec SpecFacts Proj Refine PropsObjExec.

Lemma clr_own : own_conditions gen_tables.
Proof.
  split; cbn.
  - intros st e st' act H. destruct st, e; inversion H; subst; cbn; try done; try (split; congruence).
  - intros st e st' act H. destruct st, e; inversion H; subst; cbn; try done; try (split; congruence).
  - intros st st' act H. destruct st; inversion H; subst; split; congruence.
  - intros st ne st' p H. destruct st, ne; inversion H; subst; split; congruence.
  - intros st st' H. destruct st; inversion H; subst; split; congruence.
  - intros st st' H. destruct st; inversion H; subst; split; congruence.
  - intros e st' d H. destruct e; inversion H; subst; cbn; congruence.
Qed.
Lemma clr_imm : imm_conditions gen_tables.
Proof. split; cbn; intros st e st' H; destruct st, e; inversion H; done. Qed.
Lemma clr_core : core_tables gen_tables.
Proof. split; try done; by intros []. Qed.
Lemma clr_dormant_blocks : gen_facts.(f_dormant_blocks) = true. Proof. reflexivity. Qed.

Theorem ObjExec_now : forall nq mx scripts tr s q,
    run gen_tables gen_facts (init nq mx scripts) tr = Some s ->
    let h := hist gen_tables gen_facts (init nq mx scripts) tr in
    orun oempty (obj_trace q h) = Some (abs s h q).
Proof. exact (ObjExec_run_refines_L1 gen_tables gen_facts clr_own clr_imm). Qed.
Theorem ObjExec_trace_now : forall nq mx scripts tr s q,
    run gen_tables gen_facts (init nq mx scripts) tr = Some s -> accepted (obj_trace q (hist gen_tables gen_facts (init nq mx scripts) tr)).
Proof. exact (ObjExec_history_is_a_trace_L1 gen_tables gen_facts clr_own clr_imm). Qed.
Theorem ObjExec_step_now : forall s h a s' q seen,
    HInv (s, h) -> step gen_tables gen_facts s a = Some s' ->
    orun (abs s h q) (projq q seen (obs gen_tables gen_facts s a)) = Some (abs s' (h ++ obs gen_tables gen_facts s a) q).
Proof. exact (ObjExec_step_refines_L1 gen_tables gen_facts clr_own clr_imm). Qed.
Theorem ObjExec_start_order_now : forall nq mx scripts tr s q,
    run gen_tables gen_facts (init nq mx scripts) tr = Some s ->
    let ls := obj_trace q (hist gen_tables gen_facts (init nq mx scripts) tr) in
    (exists rest, accepts ls = starts ls ++ rest) /\ NoDup (accepts ls) /\ NoDup (starts ls) /\ NoDup (finishes ls).
Proof. exact (ObjExec_start_order_L1 gen_tables gen_facts clr_own clr_imm). Qed.
Theorem ObjExec_one_at_a_time_now : forall nq mx scripts tr s q l1 i l2 j l3,
    run gen_tables gen_facts (init nq mx scripts) tr = Some s ->
    obj_trace q (hist gen_tables gen_facts (init nq mx scripts) tr) = l1 ++ Start i :: l2 ++ Start j :: l3 -> Finish i ∈ l2.
Proof. exact (ObjExec_one_at_a_time_L1 gen_tables gen_facts clr_own clr_imm). Qed.
Theorem ObjExec_terminal_now : forall nq mx scripts, wf_scripts nq scripts -> 1 <= mx ->
  forall tr s q,
    run gen_tables gen_facts (init nq mx scripts) tr = Some s -> terminal gen_tables gen_facts s ->
    let ls := obj_trace q (hist gen_tables gen_facts (init nq mx scripts) tr) in
    orun oempty ls = Some {| sq := []; scur := None; sdone := accepts ls |}.
Proof. exact (ObjExec_terminal_all_done_L1 gen_tables gen_facts clr_own clr_imm clr_core clr_dormant_blocks). Qed.
Theorem ObjExec_api_order_now : forall nq mx scripts tr s A B q ka kb,
    run gen_tables gen_facts (init nq mx scripts) tr = Some s ->
    let h := hist gen_tables gen_facts (init nq mx scripts) tr in
    Call A q ka ∈ h -> before (Ret A) (Call B q kb) h -> Push B q ∈ h ->
    exists l1 l2 l3, accepts (obj_trace q h) = l1 ++ A :: l2 ++ B :: l3.
Proof. exact (ObjExec_api_order_L1 gen_tables gen_facts clr_own clr_imm). Qed.

Print Assumptions ObjExec_now.
Print Assumptions ObjExec_trace_now.
Print Assumptions ObjExec_step_now.
Print Assumptions ObjExec_start_order_now.
Print Assumptions ObjExec_one_at_a_time_now.
Print Assumptions ObjExec_terminal_now.
Print Assumptions ObjExec_api_order_now.
