(* Pipe layer: executable model of `pipe` in /repo/src/pipe.rs
   (PipeContext, PipeWaker, PipeStream, PipeStreamCore, PipeStream::poll_next, Drop for PipeStream,
   set_backpressure_depth).  No proofs in this file (only Definitions and `vm_compute` Examples).

   One model step = one critical section of pipe.rs on one mutex, plus the lock-free code attached to it.
   Line numbers refer to /repo/src/pipe.rs.

   ENVIRONMENT ABSTRACTIONS
   * ObjExec: the `Desync` the pipe runs on executes the poll jobs scheduled by `PipeContext::poll` (l.128,
     `future_desync`) one at a time in FIFO order: `jobq` (queued job ids) and `running` (job id, program counter
     with locals).  Actor [AProd] starts the head of `jobq` when nothing runs, otherwise executes the next step of
     the running job.  Queued jobs run even when every strong reference to the Desync is gone (`Drop for Desync`
     synchronises the queue first), so [AProd] does not look at [desync_alive].
   * Job ids are allocated at enqueue time (`njobs`); the `PipeWaker` a job creates (l.131) is identified by the
     job id; `wtaken` lists the wakers whose `context` has been taken (l.170): the waker is one-shot, it is
     live as long as it is not in `wtaken`.
   * The input stream: `inp_rest` (items not yet yielded), `inp_avail` (how many of them are available),
     `inp_ended`, `inp_waker` (the last registered `desync_waker`), ghost `taken`.  One environment thread:
     [AItem] / [AEnd] take the registered waker into `ewk`, and [AEnv] then performs the wake, step by step.
     [AEnd] is only enabled once every item has been made available (the input list is the list of items the
     environment will ever send).
   * References to the Desync: `strong_held` (the `output_desync` captured by `on_drop`, l.293-296), `ext_owner`
     (some other owner of the Arc; [AExtDrop] drops it).  REFERENCE_CHUTE: `chute` = the on_drop job is queued on
     it; [ADispose] runs it (l.478-480 -> l.295).
   * The consumer: `cst`.  [ACPoll] is `poll_next` (one critical section, l.489-508), the wake of the taken
     back-pressure waker happens afterwards outside the lock (l.511) in [ACons] steps.  The consumer may poll at ANY
     time while it exists and is not inside poll_next: [ACPoll] is the poll it owes (it is idle, or the waker of its
     most recent Pending poll has been called: `cwoken`), [ACProbe] is a spurious poll (select!, now_or_never, a poll
     from another task) while it is waiting; both run the same [poll_step].  Every Pending poll carries a FRESH waker
     identity (`cw_next`), `clatest` is the identity of the most recent one: the waker the consumer waits on.  The code
     stores it unconditionally (l.504 `core.notify = Some(context.waker().clone())`), replacing an older one; this is the
     fact [f_poll_next_replaces_waker].  Calling an older waker is a no-op.  After `Ready(None)` the consumer does not
     poll again ([CDone]).  [ACDrop] may happen whenever the consumer is not inside `poll_next`.

   DEVIATIONS / DECISIONS (every place where steps are not literally one lock section)
   D1. l.137-142: `(poll_fn)(core, waker)` runs under the poll_fn lock and contains `stream_core.upgrade()` (l.304),
       an atomic read of the core's strong count.  [JStart] does both in one step (label LPollFn).  Sound: only the
       PipeStream (consumer) owns the core besides the running job, jobs are serial, and acquiring the poll_fn lock
       commutes with the consumer releasing the core.
   D2. (superseded, see REFERENCES below) `PipeContext::poll` (l.121-160): [WCtx] = `target.upgrade()` + (alive) `future_desync` enqueue in ONE step
       (LNone: the enqueue is a critical section of the queue layer, not of pipe.rs).  The temporary strong
       reference `target` between upgrade and enqueue is not modelled.  (not alive) -> [WTakeFn] = l.155 (LPollFn);
       the later `mem::drop(old_poll_fn)` on the chute has no effect on the modelled state.
   D3. `Drop for PipeStream` (l.464-482) holds the core lock (guard `core` lives to the end of `drop`) across the
       wake of `notify_stream_closed` and the hand-over of `on_drop` to the chute: [ACDrop] = acquire + l.468-474
       take (LStream), then the wake steps of `cwk` run with `cst = CDrop1` (= core lock held: every LStream step
       of the job is disabled), then [ACons] at CDrop1 = l.477-481 enqueue on the chute + release of the core lock,
       then [ACons] at CDrop2 = the field `core` (the Arc) is dropped (`core_gone`).
   D4. `pipe` ends with `desync.sync(|_| {})` (l.395), i.e. the consumer only gets the stream when job 0 has
       finished.  The model lets the consumer act from the start (a superset of behaviours; job 0's steps are
       always enabled, so terminal states are the same).
   D5. `notify.map(|n| n.wake())` with `None` is still a (no-op, LNone) step [JWake None k].
   D6. Consumer wakers are identified by the number of the Pending poll that supplied them (`notify : option nat`); calling
       the latest one sets `cwoken`.  (A real waker object may be passed to several polls; the model's identities are
       finer, which only adds no-op wakes.)
   D7. `process.lock()` (l.370) is the mutex of the processing closure (log class `pipeobj`, second instance); [JProc] is
       labelled LProcess.  The processing future is one step producing `f item`.
   D8. When the job returns `true` at l.321/l.350 the step ends the job (`running := None`); when it returns false
       the job goes to [JClear] (l.148).  If `poll_fn` is already None at [JStart] (l.138 `as_mut()` is None) the
       job ends immediately.

   REFERENCES TO THE DESYNC AND ITS RELEASE (extends D2)
   The strong count of the Arc<Desync> is: `strong_held` (the pipe's clone inside on_drop) + `ext_owner` + one for every
   thread inside PipeContext::poll between `target.upgrade()` and the drop of `target` ([WEnq] in `cwk` / `ewk`).
   [WCtx] = the upgrade (reads the count); [WEnq] = future_desync enqueue + drop of `target` in one step.  Whoever drops the
   LAST Arc runs Desync::drop, a `sync` on the object that frees the data: that thread goes to [WSync] / the chute to
   [ChSync] / the external owner sets `xsync`, and stays there until the ObjExec has no queued or running poll job
   ([drained]); then `freed` is incremented.  A thread in [WSync] inside Drop::drop still holds the core lock.
   [f_drop_wakes_before_dispose] = the order of l.479 and l.482-486 in Drop for PipeStream: true (the code) = [ACDrop] takes
   and wakes notify_stream_closed, and the END of the section hands on_drop to the chute; false = on_drop is queued when
   the section starts, so [ADispose] can drop the pipe's Arc while the dropping thread is inside PipeContext::poll.

   SLOW ITEMS: an item in `slow` has a processing future that returns Pending once (it wakes itself): [JProc x] -> [JSusp x]
   -> [JPush (f x)].  While suspended the poll job keeps the object (no other poll job runs), its clone of the core and its
   waker; the resumption is a silent step of [AProd] (in the implementation possibly on another thread).
*)
From stdpp Require Import list numbers option.
From RecordUpdate Require Import RecordUpdate.

Inductive label := LPollFn | LStream | LInput | LProcess | LPipeWaker | LNone.
#[export] Instance label_eq_dec : EqDecision label. Proof. solve_decision. Defined.

(* facts read from the source *)
Record pfacts := {
  f_pending_recheck : bool;   (* the Pending arm (l.348-351) tests `closed` under the lock that stores notify_stream_closed *)
  f_default_depth : nat;      (* PIPE_BACKPRESSURE_COUNT (l.67) *)
  f_poll_next_replaces_waker : bool;  (* poll_next stores the caller's waker unconditionally (l.504), replacing an older one *)
  f_drop_wakes_before_dispose : bool; (* Drop for PipeStream calls notify_stream_closed's waker (l.479) BEFORE it hands on_drop to
                                         REFERENCE_CHUTE (l.482-486); both under the core lock *)
}.
Definition facts_unrepaired : pfacts := {| f_pending_recheck := false; f_default_depth := 5; f_poll_next_replaces_waker := true;
     f_drop_wakes_before_dispose := true |}.
Definition facts_repaired : pfacts := {| f_pending_recheck := true; f_default_depth := 5; f_poll_next_replaces_waker := true;
     f_drop_wakes_before_dispose := true |}.
(* a mutant: poll_next stores the waker only `if core.notify.is_none()` *)
Definition facts_stale_waker : pfacts := {| f_pending_recheck := true; f_default_depth := 5; f_poll_next_replaces_waker := false;
     f_drop_wakes_before_dispose := true |}.
(* a mutant: Drop for PipeStream queues on_drop on the disposal queue first and wakes notify_stream_closed afterwards *)
Definition facts_swapped_drop : pfacts :=
  {| f_pending_recheck := true; f_default_depth := 5; f_poll_next_replaces_waker := true; f_drop_wakes_before_dispose := false |}.

(* a thread that is calling a PipeWaker *)
Inductive wk :=
| WIdle
| WCall (j : nat)     (* about to run PipeWaker::wake_by_ref of job j's waker: l.170 (LPipeWaker) *)
| WCtx                (* context was Some: PipeContext::poll, l.123 target.upgrade() *)
| WEnq                (* upgrade succeeded, the thread holds the temporary Arc `target`: l.128 future_desync enqueues a poll job,
                         then `target` is dropped (end of the `if let`, l.153); if it was the LAST Arc, Desync::drop runs here *)
| WTakeFn             (* upgrade failed: l.155 poll_fn.take() (LPollFn) *)
| WSync.              (* inside Desync::drop (desync.rs l.255-281): the final `sync` that frees the object; blocks until every
                         queued poll job has run *)
(* the disposal queue REFERENCE_CHUTE with respect to the on_drop job *)
Inductive chst := ChIdle | ChQueued | ChSync (* on_drop dropped the LAST Arc<Desync>: Desync::drop runs on the chute *).
Inductive kont := KLoop | KRet.
Inductive jpc :=
| JStart                      (* l.137-142 [LPollFn] lock poll_fn, call it (l.304 upgrade) *)
| JFull                       (* l.311-326 [LStream] full? register bp waker, return true / read closed *)
| JClosedTake                 (* l.330 [LStream] notify.take() *)
| JLoop                       (* l.338 [LStream] notify_stream_closed := None *)
| JInput                      (* l.341-344 [LInput] poll the input with this job's waker *)
| JPendStore                  (* l.349 [LStream] notify_stream_closed := Some waker; return true *)
| JEndClose                   (* l.356-361 [LStream] closed := true; notify.take() *)
| JProc (x : nat)             (* l.370-371 process(core, x).await: the closure is called [LProcess], the future polled once *)
| JSusp (x : nat)             (* the processing future of a SLOW item returned Pending (it woke itself): the poll job is
                                 suspended in the middle of the item, holding the object and its clone of the core; the
                                 queue re-polls it *)
| JPush (v : nat)             (* l.374-379 [LStream] push_back; notify.take() *)
| JWake (n : option nat) (k : kont) (* l.331 / l.362 / l.380: wake the taken consumer waker (if any) outside the lock *)
| JClear.                     (* l.148 [LPollFn] poll_fn := None *)
Inductive cpc :=
| CIdle | CRun (pend : bool) | CPend | CDone
| CDrop1    (* inside Drop::drop, core lock held *)
| CDrop2    (* lock released, `core` Arc not yet dropped *)
| CGone.
Inductive actor := AProd | ACPoll | ACProbe | ACons | ACDrop | ACSetDepth (d : nat) | AItem | AEnd | AEnv | ADispose | AExtDrop | AExtSync.
#[export] Instance actor_eq_dec : EqDecision actor. Proof. solve_decision. Defined.

Record state := {
  (* input stream (environment) *)
  inp_rest : list nat; inp_avail : nat; inp_ended : bool; inp_waker : option nat; taken : list nat;
  slow : list nat;   (* the items whose processing suspends once (constant) *)
  (* PipeStreamCore *)
  depth : nat; pending : list nat; closed : bool; notify : option nat; nsc : option nat; bp : option nat;
  (* PipeContext / PipeWakers *)
  poll_fn : bool; njobs : nat; wtaken : list nat;
  (* ObjExec *)
  jobq : list nat; running : option (nat * jpc);
  (* consumer *)
  cst : cpc; cw_next : nat; clatest : nat; cwoken : bool; cwk : wk; delivered : list nat; got_end : bool;
  (* environment thread *)
  ewk : wk;
  (* references *)
  strong_held : bool; ext_owner : bool; chute : chst;
  xsync : bool;      (* the external owner dropped the last Arc<Desync>: it is inside Desync::drop *)
  freed : nat;       (* how many times the object's data has been freed *)
}.
#[export] Instance eta_state : Settable _ := settable! Build_state
  <inp_rest; inp_avail; inp_ended; inp_waker; taken; slow; depth; pending; closed; notify; nsc; bp; poll_fn; njobs; wtaken; jobq; running;
   cst; cw_next; clatest; cwoken; cwk; delivered; got_end; ewk; strong_held; ext_owner; chute; xsync; freed>.

Definition core_locked (s : state) : bool := match s.(cst) with CDrop1 => true | _ => false end.
Definition core_gone (s : state) : bool := match s.(cst) with CGone => true | _ => false end.
Definition dropped (s : state) : bool := match s.(cst) with CDrop1 | CDrop2 | CGone => true | _ => false end.
Definition is_enq (w : wk) : bool := match w with WEnq => true | _ => false end.
(* the strong count of the Arc<Desync> is positive: the pipe's reference (captured by on_drop), an external owner, or the
   temporary `target` of a thread inside PipeContext::poll *)
Definition desync_alive (s : state) : bool := s.(strong_held) || s.(ext_owner) || is_enq s.(cwk) || is_enq s.(ewk).
(* nothing left for the final sync of Desync::drop to wait for *)
Definition drained (s : state) : bool :=
  match s.(jobq), s.(running) with [], None => true | _, _ => false end.
Definition live_in (wt : list nat) (j : nat) : bool := negb (bool_decide (j ∈ wt)).
Definition is_live (s : state) (j : nat) : bool := live_in s.(wtaken) j.
Definition wk_of (o : option nat) : wk := match o with Some j => WCall j | None => WIdle end.
Definition wk_idle (w : wk) : bool := match w with WIdle => true | _ => false end.

(* PipeContext::poll, alive branch: a new poll job is queued *)
Definition enqueue (s : state) : state :=
  s <| jobq := s.(jobq) ++ [s.(njobs)] |> <| njobs := S s.(njobs) |>.

(* one step of a thread calling a PipeWaker *)
(* [others]: some strong reference to the Desync exists besides this thread's temporary one *)
Definition wake_step (s : state) (others : bool) (w : wk) : option (wk * state) :=
  match w with
  | WIdle => None
  | WCall j => if is_live s j then Some (WCtx, s <| wtaken := j :: s.(wtaken) |>) else Some (WIdle, s)
  | WCtx => if desync_alive s then Some (WEnq, s) else Some (WTakeFn, s)
  | WEnq => Some (if others then WIdle else WSync, enqueue s)
  | WTakeFn => Some (WIdle, s <| poll_fn := false |>)
  | WSync => if drained s then Some (WIdle, s <| freed := S s.(freed) |>) else None
  end.

Definition job_step (F : pfacts) (f : nat -> nat) (s : state) (j : nat) (pc : jpc) : option state :=
  let goto s' p := Some (s' <| running := Some (j, p) |>) in
  let fin s' := Some (s' <| running := None |>) in
  match pc with
  | JStart => if s.(poll_fn) then (if core_gone s then goto s JClear else goto s JFull) else fin s
  | JFull => if core_locked s then None else
             if s.(depth) <=? length s.(pending) then fin (s <| bp := Some j |>)
             else if s.(closed) then goto s JClosedTake else goto s JLoop
  | JClosedTake => if core_locked s then None else goto (s <| notify := None |>) (JWake s.(notify) KRet)
  | JLoop => if core_locked s then None else goto (s <| nsc := None |>) JInput
  | JInput => match s.(inp_rest), s.(inp_avail) with
              | x :: r, S n => goto (s <| inp_rest := r |> <| inp_avail := n |> <| taken := s.(taken) ++ [x] |>) (JProc x)
              | _, _ => if s.(inp_ended) then goto s JEndClose else goto (s <| inp_waker := Some j |>) JPendStore
              end
  | JPendStore => if core_locked s then None else
                  if F.(f_pending_recheck) && s.(closed) then goto s JClear
                  else fin (s <| nsc := Some j |>)
  | JEndClose => if core_locked s then None else goto (s <| closed := true |> <| notify := None |>) (JWake s.(notify) KRet)
  | JProc x => if bool_decide (x ∈ s.(slow)) then goto s (JSusp x) else goto s (JPush (f x))
  | JSusp x => goto s (JPush (f x))
  | JPush v => if core_locked s then None else
               goto (s <| pending := s.(pending) ++ [v] |> <| notify := None |>) (JWake s.(notify) KLoop)
  | JWake n k => let s1 := match n with
                           | Some w => if w =? s.(clatest) then s <| cwoken := true |> else s
                           | None => s
                           end in
                 match k with KLoop => goto s1 JLoop | KRet => goto s1 JClear end
  | JClear => fin (s <| poll_fn := false |>)
  end.

(* the consumer owes a poll *)
Definition pollable (s : state) : bool :=
  match s.(cst) with CIdle => true | CPend => s.(cwoken) | _ => false end.
(* the consumer is waiting; it may still poll (spuriously) *)
Definition probe_pollable (s : state) : bool :=
  match s.(cst) with CPend => negb s.(cwoken) | _ => false end.
(* PipeStream::poll_next, l.489-508 *)
Definition poll_step (F : pfacts) (s : state) : option state :=
  match s.(pending) with
  | v :: p => Some (s <| pending := p |> <| delivered := s.(delivered) ++ [v] |> <| bp := None |>
                      <| cwk := wk_of s.(bp) |> <| cst := CRun false |>)
  | [] => if s.(closed) then Some (s <| cst := CDone |> <| got_end := true |>)
          else let w := s.(cw_next) in
               let stored := match s.(notify) with
                             | Some w0 => if F.(f_poll_next_replaces_waker) then Some w else Some w0
                             | None => Some w
                             end in
               Some (s <| bp := None |> <| cwk := wk_of s.(bp) |> <| notify := stored |> <| cw_next := S w |>
                       <| clatest := w |> <| cwoken := false |> <| cst := CRun true |>)
  end.
Definition outside_poll (s : state) : bool :=
  match s.(cst) with CIdle | CPend | CDone => true | _ => false end.

Definition step (F : pfacts) (f : nat -> nat) (s : state) (a : actor) : option state :=
  match a with
  | AProd =>
      match s.(running) with
      | None => match s.(jobq) with
                | [] => None
                | j :: q => Some (s <| jobq := q |> <| running := Some (j, JStart) |>)
                end
      | Some (j, pc) => job_step F f s j pc
      end
  | ACPoll => if pollable s then poll_step F s else None
  | ACProbe => if probe_pollable s then poll_step F s else None
  | ACons =>
      if wk_idle s.(cwk) then
        match s.(cst) with
        | CRun b => Some (s <| cst := if b then CPend else CIdle |>)
        | CDrop1 => Some (s <| chute := if F.(f_drop_wakes_before_dispose) then ChQueued else s.(chute) |> <| cst := CDrop2 |>)
        | CDrop2 => Some (s <| cst := CGone |>)
        | _ => None
        end
      else '(w, s1) ← wake_step s (s.(strong_held) || s.(ext_owner) || is_enq s.(ewk)) s.(cwk); Some (s1 <| cwk := w |>)
  | ACDrop =>
      if outside_poll s then
        Some (s <| pending := [] |> <| closed := true |> <| nsc := None |> <| cwk := wk_of s.(nsc) |>
                <| chute := if F.(f_drop_wakes_before_dispose) then s.(chute) else ChQueued |> <| cst := CDrop1 |>)
      else None
  | ACSetDepth d => if outside_poll s then Some (s <| depth := d |>) else None
  | AItem =>
      if wk_idle s.(ewk) && negb s.(inp_ended) && (s.(inp_avail) <? length s.(inp_rest)) then
        Some (s <| inp_avail := S s.(inp_avail) |> <| inp_waker := None |> <| ewk := wk_of s.(inp_waker) |>)
      else None
  | AEnd =>
      if wk_idle s.(ewk) && negb s.(inp_ended) && (s.(inp_avail) =? length s.(inp_rest)) then
        Some (s <| inp_ended := true |> <| inp_waker := None |> <| ewk := wk_of s.(inp_waker) |>)
      else None
  | AEnv => '(w, s1) ← wake_step s (s.(strong_held) || s.(ext_owner) || is_enq s.(cwk)) s.(ewk); Some (s1 <| ewk := w |>)
  | ADispose =>
      match s.(chute) with
      | ChQueued => Some (s <| strong_held := false |>
                            <| chute := if s.(ext_owner) || is_enq s.(cwk) || is_enq s.(ewk) then ChIdle else ChSync |>)
      | ChSync => if drained s then Some (s <| chute := ChIdle |> <| freed := S s.(freed) |>) else None
      | ChIdle => None
      end
  | AExtDrop =>
      if s.(ext_owner) then
        Some (s <| ext_owner := false |> <| xsync := negb (s.(strong_held) || is_enq s.(cwk) || is_enq s.(ewk)) |>)
      else None
  | AExtSync => if s.(xsync) && drained s then Some (s <| xsync := false |> <| freed := S s.(freed) |>) else None
  end.

Definition run (F : pfacts) (f : nat -> nat) (s : state) (tr : list actor) : option state :=
  foldl (fun os a => o ← os; step F f o a) (Some s) tr.

(* `ext` = some owner other than the pipe keeps an Arc<Desync>.  Job 0 is the initial PipeContext::poll (l.392). *)
Definition init_slow (F : pfacts) (inputs slow_items : list nat) (ext : bool) : state :=
  {| inp_rest := inputs; inp_avail := 0; inp_ended := false; inp_waker := None; taken := []; slow := slow_items;
     depth := F.(f_default_depth); pending := []; closed := false; notify := None; nsc := None; bp := None;
     poll_fn := true; njobs := 1; wtaken := []; jobq := [0]; running := None;
     cst := CIdle; cw_next := 0; clatest := 0; cwoken := false; cwk := WIdle; delivered := []; got_end := false;
     ewk := WIdle; strong_held := true; ext_owner := ext; chute := ChIdle; xsync := false; freed := 0 |}.
(* no slow item *)
Definition init (F : pfacts) (inputs : list nat) (ext : bool) : state := init_slow F inputs [] ext.

(* ---------- labels: the mutex class of the critical section a step corresponds to ---------- *)
Definition wk_label (w : wk) : label :=
  match w with WCall _ => LPipeWaker | WTakeFn => LPollFn | _ => LNone end.
Definition jpc_label (pc : jpc) : label :=
  match pc with
  | JStart | JClear => LPollFn
  | JFull | JClosedTake | JLoop | JPendStore | JEndClose | JPush _ => LStream
  | JInput => LInput
  | JProc _ => LProcess
  | JSusp _ | JWake _ _ => LNone
  end.
Definition label_of (s : state) (a : actor) : label :=
  match a with
  | AProd => match s.(running) with Some (_, pc) => jpc_label pc | None => LNone end
  | ACPoll | ACProbe | ACDrop | ACSetDepth _ => LStream
  | ACons => wk_label s.(cwk)      (* at CDrop1 with an idle cwk this is the END of the LStream section opened by ACDrop *)
  | AEnv => wk_label s.(ewk)
  | AItem | AEnd | ADispose | AExtDrop | AExtSync => LNone
  end.
Definition step_label (F : pfacts) (f : nat -> nat) (s : state) (a : actor) : option label :=
  match step F f s a with Some _ => Some (label_of s a) | None => None end.

(* ---------- observations used by the theorems ---------- *)
Definition job_inflight (s : state) (f : nat -> nat) : list nat :=
  match s.(running) with Some (_, (JProc x | JSusp x)) => [f x] | Some (_, JPush v) => [v] | _ => [] end.
(* the consumer has returned (or is about to return) Pending and has not been woken since *)
Definition cons_waiting (s : state) : bool :=
  match s.(cst) with CPend | CRun true => negb s.(cwoken) | _ => false end.
(* a wake of the consumer's LATEST waker is in flight: taken out of `notify`, about to be called by the job *)
Definition cons_wake_inflight (s : state) : bool :=
  match s.(running) with Some (_, JWake (Some w) _) => w =? s.(clatest) | _ => false end.
(* a wake of a PipeWaker / a PipeContext::poll is in flight in thread slot w and will have an effect *)
Definition wk_tokw (wt : list nat) (w : wk) : bool :=
  match w with WIdle | WSync => false | WCall j => live_in wt j | WCtx | WEnq | WTakeFn => true end.
Definition live_optw (wt : list nat) (o : option nat) : bool := match o with Some j => live_in wt j | None => false end.
Definition wk_tok (s : state) (w : wk) : bool := wk_tokw s.(wtaken) w.
Definition live_opt (s : state) (o : option nat) : bool := live_optw s.(wtaken) o.
Arguments live_in : simpl never.
Arguments wk_tokw _ !w /.
Arguments live_optw _ !o /.

(* mandatory actors: everything except the consumer's free choices (drop, set depth, spurious polls) and the external
   owner's choice to give up its reference to the Desync *)
Definition optional (a : actor) : bool := match a with ACDrop | ACSetDepth _ | AExtDrop | ACProbe => true | _ => false end.
Definition env_event (a : actor) : bool := match a with AItem | AEnd => true | _ => false end.
(* terminal: no mandatory actor can move *)
Definition terminal (F : pfacts) (f : nat -> nat) (s : state) : Prop :=
  forall a, optional a = false -> step F f s a = None.
(* terminal with a silent input: additionally the input events are not required to be disabled *)
Definition terminal_silent (F : pfacts) (f : nat -> nat) (s : state) : Prop :=
  forall a, optional a = false -> env_event a = false -> step F f s a = None.
(* executable versions, for examples *)
Definition all_actors : list actor := [AProd; ACPoll; ACProbe; ACons; ACDrop; ACSetDepth 1; AItem; AEnd; AEnv; ADispose; AExtDrop; AExtSync].
Definition terminalb (F : pfacts) (f : nat -> nat) (s : state) : bool :=
  forallb (fun a => optional a || match step F f s a with None => true | Some _ => false end) all_actors.
Definition terminal_silentb (F : pfacts) (f : nat -> nat) (s : state) : bool :=
  forallb (fun a => optional a || env_event a || match step F f s a with None => true | Some _ => false end) all_actors.

(* reference graph: is the PipeContext (and with it poll_fn = input stream + closure) still referenced?
   Roots: queued/running jobs (closure captures arc_self), threads inside a wake, live wakers stored in a core that
   still exists.  A live waker registered with the input is the cycle input -> waker -> context -> poll_fn -> input. *)
Definition ctx_referenced (s : state) : bool :=
  match s.(jobq) with [] => false | _ => true end || match s.(running) with Some _ => true | None => false end
  || wk_tok s s.(cwk) || wk_tok s s.(ewk)
  || (negb (core_gone s) && (live_opt s s.(nsc) || live_opt s s.(bp)))
  || live_opt s s.(inp_waker).
Definition released (s : state) : bool := negb s.(poll_fn) || negb (ctx_referenced s).

(* greedy scheduler for examples: repeatedly fire the first enabled actor of `prio` *)
Fixpoint greedy (F : pfacts) (f : nat -> nat) (prio : list actor) (fuel : nat) (s : state) : state * list actor :=
  match fuel with
  | 0 => (s, [])
  | S n => match list_find (fun a => is_Some (step F f s a)) prio with
           | Some (_, a) => match step F f s a with
                            | Some s' => let '(s2, tr) := greedy F f prio n s' in (s2, a :: tr)
                            | None => (s, [])
                            end
           | None => (s, [])
           end
  end.
