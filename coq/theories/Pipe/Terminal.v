(* Pipe layer, C12 part 4: terminal completeness.  In every reachable state in which no mandatory actor can move and the
   consumer has not dropped the stream, the consumer has received [f <$> inputs] followed by end-of-stream.
   Unbounded in the input and in the depth (>= 1, also when changed by set_backpressure_depth). *)
From stdpp Require Import list numbers option.
From RecordUpdate Require Import RecordUpdate.
From Pipe Require Import Model Base Data Notify Token Closed.

Section Terminal.
  Context (F : pfacts) (f : nat -> nat).
  Context (Hrep : F.(f_poll_next_replaces_waker) = true).

  Definition depth_ok (a : actor) : Prop := a <> ACSetDepth 0.

  Definition inv_all (inputs : list nat) (s : state) : Prop :=
    inv_data f inputs s /\ inv_shape s /\ inv_notify s /\ inv_fresh s /\ inv_token s /\ inv_closed s /\
    inv_depth s /\ inv_bp s.

  Lemma reach_inv_all inputs sl ext tr s :
    1 <= F.(f_default_depth) -> Forall depth_ok tr ->
    run F f (init_slow F inputs sl ext) tr = Some s -> inv_all inputs s.
  Proof.
    intros Hd. revert tr s. apply run_invariant.
    - split_and!; [apply inv_data_init|apply inv_shape_init|apply inv_notify_init|apply inv_fresh_init
                  |apply inv_token_init|apply inv_closed_init|exact Hd|apply inv_bp_init].
    - intros s a s' Ha (H1 & H2 & H3 & H4 & H5 & H6 & H7 & H8) Hs. split_and!.
      + eapply step_inv_data; eauto.
      + eapply step_inv_shape; eauto.
      + eapply (step_inv_notify F f Hrep); eauto.
      + eapply step_inv_fresh; eauto.
      + eapply step_inv_token; eauto.
      + eapply step_inv_closed; eauto.
      + eapply step_inv_depth; eauto.
      + eapply step_inv_bp; eauto.
  Qed.

  (* ---------- what it means that an actor cannot move ---------- *)
  Lemma prod_disabled s : step F f s AProd = None -> core_locked s = false -> s.(running) = None /\ s.(jobq) = [].
  Proof.
    destruct s; unfold core_locked; cbn. intros H Hl.
    destruct running as [[j pc]|]; [exfalso|by destruct jobq].
    unfold job_step, core_locked, core_gone in H; cbn in H. rewrite ?Hl in H.
    destruct pc; cbn in H; rewrite ?Hl in H; repeat case_match; discriminate.
  Qed.

  Lemma poll_step_some s : poll_step F s <> None.
  Proof. unfold poll_step. destruct (pending s); [destruct (closed s)|]; done. Qed.

  Lemma wake_step_some s o w : w <> WIdle -> (w = WSync -> drained s = true) -> is_Some (wake_step s o w).
  Proof.
    destruct w; cbn; try done; intros _ Hd; repeat case_match; eauto.
    all: specialize (Hd eq_refl); congruence.
  Qed.

  (* a thread calling a PipeWaker can always move, unless it is inside Desync::drop waiting for the queue to drain *)
  Lemma env_disabled s : step F f s AEnv = None -> s.(ewk) = WIdle \/ (s.(ewk) = WSync /\ drained s = false).
  Proof.
    cbn. intros H. destruct (ewk s) eqn:Ee; [by left|exfalso..| ].
    1-4: match type of H with context [wake_step ?s0 ?o ?w] =>
           destruct (wake_step_some s0 o w ltac:(done) ltac:(done)) as [[w1 s1] E]; rewrite E in H; done end.
    right. split; [done|]. cbn in H. destruct (drained s); done.
  Qed.

  Lemma cons_disabled s : step F f s ACons = None ->
    (s.(cwk) = WIdle /\ match s.(cst) with CRun _ | CDrop1 | CDrop2 => False | _ => True end) \/
    (s.(cwk) = WSync /\ drained s = false).
  Proof.
    cbn. intros H. destruct (cwk s) eqn:Ee; [left; cbn in H; split; [done|]; by destruct (cst s)|exfalso..| ].
    1-4: cbn in H; repeat case_match; cbn in H; done.
    right. split; [done|]. cbn in H. destruct (drained s); done.
  Qed.

  Lemma input_finished s :
    s.(inp_avail) <= length s.(inp_rest) -> s.(ewk) = WIdle ->
    step F f s AItem = None -> step F f s AEnd = None -> s.(inp_ended) = true.
  Proof.
    intros Hle He H1 H2. unfold step in H1, H2. rewrite He in H1, H2.
    destruct (inp_ended s); [done|exfalso].
    destruct (decide (inp_avail s < length (inp_rest s))) as [Hlt|Hge].
    - apply Nat.ltb_lt in Hlt. rewrite Hlt in H1. cbn in H1. done.
    - assert (Heq : inp_avail s = length (inp_rest s)) by lia.
      apply Nat.eqb_eq in Heq. rewrite Heq in H2. cbn in H2. done.
  Qed.

  (* C12.4 *)
  Theorem terminal_complete inputs sl ext tr s :
    1 <= F.(f_default_depth) -> Forall depth_ok tr ->
    run F f (init_slow F inputs sl ext) tr = Some s ->
    terminal F f s -> dropped s = false ->
    s.(delivered) = f <$> inputs /\ s.(got_end) = true /\ s.(cst) = CDone.
  Proof.
    intros Hd Hok Hr Hterm Hnd.
    destruct (reach_inv_all _ _ _ _ _ Hd Hok Hr) as (HD & Hsh & (Hna & Hnb) & Hfr & Htok & HC & Hdep & Hbp).
    destruct HD as (D1 & D2 & D3 & D4 & D5 & D6).
    destruct HC as (C1 & C2 & C3 & C4 & C5 & C6 & C7 & C8 & _).
    assert (Hlk : core_locked s = false) by (unfold core_locked, dropped in *; destruct (cst s); done).
    destruct (prod_disabled s (Hterm AProd eq_refl) Hlk) as [Hrun Hq].
    assert (Hdr : drained s = true) by (unfold drained; rewrite Hq, Hrun; done).
    assert (Hew : ewk s = WIdle) by (destruct (env_disabled s (Hterm AEnv eq_refl)) as [?|[_ ?]]; [done|congruence]).
    destruct (cons_disabled s (Hterm ACons eq_refl)) as [[Hcw Hcst]|[_ ?]]; [|congruence].
    pose proof (input_finished s D2 Hew (Hterm AItem eq_refl) (Hterm AEnd eq_refl)) as Hend.
    pose proof (Hterm ACPoll eq_refl) as Hpoll.
    assert (Hdone : cst s = CDone).
    { pose proof Hnd as Hnd'. unfold dropped in Hnd'.
      destruct (cst s) eqn:Ec; try done.
      - (* CIdle: the consumer could poll *)
        exfalso. cbn in Hpoll. unfold pollable in Hpoll. rewrite Ec in Hpoll. by apply (poll_step_some s).
      - (* CPend *)
        exfalso. destruct (cwoken s) eqn:Ew.
        { cbn in Hpoll. unfold pollable in Hpoll. rewrite Ec, Ew in Hpoll. by apply (poll_step_some s). }
        assert (Hw : cons_waiting s = true) by (unfold cons_waiting; rewrite Ec, Ew; done).
        destruct (Hnb Hw) as [Hn|Hi]; [|unfold cons_wake_inflight in Hi; rewrite Hrun in Hi; done].
        assert (Hn' : is_Some (notify s)) by (rewrite Hn; eauto).
        destruct (Hna Hnd Hn') as [Hp Hcl].
        specialize (Hbp Hnd Hn').
        destruct (poll_fn s) eqn:Epf; [|specialize (C4 Hnd eq_refl); congruence].
        specialize (Htok Epf Hnd). unfold tokens, rtok in Htok.
        rewrite Hq, Hrun, Hbp, Hcw, Hew in Htok. cbn in Htok.
        rewrite !orb_false_r in Htok.
        destruct (inp_waker s) eqn:Ei; [|done].
        destruct (D4 (ltac:(eauto))) as [_ ?]. congruence. }
    split_and!; [|by apply C8|done].
    destruct (C8 Hdone) as (Hcl & Hp & _). destruct (C5 Hnd Hcl) as [Hrest _].
    specialize (D5 Hnd). unfold job_inflight in D5. rewrite Hrun, Hp, !app_nil_r in D5.
    rewrite D1, Hrest, app_nil_r. done.
  Qed.
End Terminal.
